import Gp.Lemmas.Layers.Gre
/-
  Helper lemmas for the GRE serializer (engine `lgre`).

  Part 2: the pure encoder `encode` and the refinement theorem `serialize_spec`: the
  store-by-store transcription of SerializeTo over the serialize-buffer model (tree with
  lgre-1/2/3) never panics, writes EVERY requested byte, and leaves `encode l' ++ old contents`
  in the buffer, whatever the buffer held before.
-/
namespace Gp.Gre
open Gp Gp.SBuf

/-! ### the pure encoder -/

/-- wire form of the SRE chain (without the NULL terminator); an SRE occupies 4 + SRELength bytes:
    the first min(SRELength, len(RoutingInformation)) come from RoutingInformation, the rest are 0. -/
def encSREs : List SRE → Bytes
  | [] => []
  | r :: rs =>
    putBe16 r.addressFamily ++ [u8 r.sreOffset] ++ [u8 r.sreLength]
      ++ r.routingInformation.take (min r.sreLength r.routingInformation.length)
      ++ zeros (r.sreLength - min r.sreLength r.routingInformation.length)
      ++ encSREs rs

/-- header bytes with `cs` in the checksum position. -/
def encodeWith (l : Layer) (cs : Bytes) : Bytes :=
  [byte0 l] ++ [byte1 l] ++ putBe16 l.protocol
    ++ (if l.checksumPresent || l.routingPresent then cs ++ putBe16 l.offset else [])
    ++ (if l.keyPresent then putBe32 l.key else [])
    ++ (if l.seqPresent then putBe32 l.seq else [])
    ++ (if l.routingPresent then encSREs l.routing ++ putBe32 0 else [])
    ++ (if l.ackPresent then putBe32 l.ack else [])

/-- the GRE header of `l`. -/
def encode (l : Layer) : Bytes := encodeWith l (putBe16 l.checksum)

/-- the receiver after SerializeTo over `payload`. -/
def mutated (l : Layer) (opts : Opts) (payload : Bytes) : Layer :=
  if l.checksumPresent && opts.computeChecksums
  then { l with checksum := Cksum.fold (Cksum.compute (encodeWith l [0, 0] ++ payload) 0) }
  else l

theorem putBe16_length (n : Nat) : (putBe16 n).length = 2 := rfl
theorem putBe32_length (n : Nat) : (putBe32 n).length = 4 := rfl

theorem encSREs_length (rs : List SRE) : (encSREs rs).length = sreSize rs := by
  induction rs with
  | nil => rfl
  | cons r rs ih =>
    simp only [encSREs, sreSize, List.length_append, putBe16_length, List.length_cons,
      List.length_nil, List.length_take, Gp.C18.zeros_length, ih]
    omega

theorem encodeWith_length (l : Layer) (cs : Bytes) (hcs : cs.length = 2) :
    (encodeWith l cs).length = headerSize l := by
  unfold encodeWith headerSize
  cases l.checksumPresent <;> cases l.routingPresent <;> cases l.keyPresent <;> cases l.seqPresent
    <;> cases l.ackPresent <;>
    simp [putBe16_length, putBe32_length, encSREs_length, hcs] <;> omega

/-! ### cursor states in closed form -/

theorem fill_fill (b : SBuf) (g o n1 n2 n3 : Nat) (xs ys : Bytes) (ho : o ≤ b.mem.length) :
    fill (fill b ⟨g, o, n1⟩ xs) ⟨g, o + xs.length, n2⟩ ys = fill b ⟨g, o, n3⟩ (xs ++ ys) := by
  unfold fill
  by_cases hg : g = b.gen
  · simp only [hg, if_true]
    congr 1
    have h1 : (List.take o b.mem).length = o := by simp [List.length_take]; omega
    have e1 : List.take (o + xs.length) (List.take o b.mem ++ xs ++ List.drop (o + xs.length) b.mem)
        = List.take o b.mem ++ xs := by
      rw [List.take_append_of_le_length (by simp [h1])]
      apply List.take_of_length_le; simp [h1]
    have e2 : List.drop (o + xs.length + ys.length) (List.take o b.mem ++ xs ++ List.drop (o + xs.length) b.mem)
        = List.drop (o + (xs ++ ys).length) b.mem := by
      have : o + xs.length + ys.length = (List.take o b.mem ++ xs).length + ys.length := by simp [h1]
      rw [this, List.drop_length_add_append, List.drop_drop]
      congr 1; simp; omega
    rw [e1, e2]; simp [List.append_assoc]
  · simp [hg]

theorem fill_nil (b : SBuf) (g o n : Nat) : fill b ⟨g, o, n⟩ [] = b := by
  unfold fill
  split
  · cases b; simp
  · rfl

/-- the cursor has written exactly `W` at the start of the window `w` of buffer `b1`. -/
def Wrote (b1 : SBuf) (w : Win) (c : Cur) (W : Bytes) : Prop :=
  c.off = W.length ∧ c.b = fill b1 ⟨w.gen, w.off, W.length⟩ W

theorem wrote_init (b1 : SBuf) (w : Win) : Wrote b1 w { b := b1, off := 0 } [] :=
  ⟨rfl, (fill_nil b1 w.gen w.off 0).symm⟩

theorem put_wrote (b1 : SBuf) (w : Win) (c : Cur) (W vs : Bytes) (hW : Wrote b1 w c W)
    (hroom : W.length + vs.length ≤ w.n) (hm : w.off ≤ b1.mem.length) :
    ∃ c', put w c vs = .ok c' ∧ Wrote b1 w c' (W ++ vs) := by
  obtain ⟨ho, hb⟩ := hW
  refine ⟨{ b := fill c.b ⟨w.gen, w.off + c.off, vs.length⟩ vs, off := c.off + vs.length }, ?_, ?_, ?_⟩
  · unfold put storeAt
    rw [if_pos (by omega)]
    rfl
  · simp [ho]
  · show fill c.b ⟨w.gen, w.off + c.off, vs.length⟩ vs = fill b1 ⟨w.gen, w.off, (W ++ vs).length⟩ (W ++ vs)
    rw [hb, ho]
    exact fill_fill b1 w.gen w.off _ _ _ W vs hm

theorem optPut_wrote (p : Bool) (b1 : SBuf) (w : Win) (c : Cur) (W vs : Bytes) (hW : Wrote b1 w c W)
    (hroom : W.length + (if p then vs else []).length ≤ w.n) (hm : w.off ≤ b1.mem.length) :
    ∃ c', (if p then put w c vs else pure c) = .ok c' ∧ Wrote b1 w c' (W ++ (if p then vs else [])) := by
  cases p with
  | false => exact ⟨c, rfl, by simpa using hW⟩
  | true =>
    simp only [if_true] at hroom ⊢
    exact put_wrote b1 w c W vs hW hroom hm

theorem putSREs_wrote (b1 : SBuf) (w : Win) (hm : w.off ≤ b1.mem.length) :
    ∀ (rs : List SRE) (c : Cur) (W : Bytes), Wrote b1 w c W →
      W.length + (encSREs rs).length ≤ w.n →
      ∃ c', putSREs Variant.fixed w c rs = .ok c' ∧ Wrote b1 w c' (W ++ encSREs rs) := by
  intro rs
  induction rs with
  | nil => intro c W hW _; exact ⟨c, rfl, by simpa [encSREs] using hW⟩
  | cons r rs ih =>
    intro c W hW hroom
    simp only [encSREs, List.length_append, putBe16_length, List.length_cons, List.length_nil,
      List.length_take, Gp.C18.zeros_length] at hroom
    obtain ⟨c1, e1, w1⟩ := put_wrote b1 w c W (putBe16 r.addressFamily) hW
      (by rw [putBe16_length]; omega) hm
    obtain ⟨c2, e2, w2⟩ := put_wrote b1 w c1 _ [u8 r.sreOffset] w1
      (by simp only [List.length_append, putBe16_length, List.length_cons, List.length_nil]; omega) hm
    obtain ⟨c3, e3, w3⟩ := put_wrote b1 w c2 _ [u8 r.sreLength] w2
      (by simp only [List.length_append, putBe16_length, List.length_cons, List.length_nil]; omega) hm
    obtain ⟨c4, e4, w4⟩ := put_wrote b1 w c3 _
      (r.routingInformation.take (min r.sreLength r.routingInformation.length)) w3
      (by simp only [List.length_append, putBe16_length, List.length_cons, List.length_nil, List.length_take]; omega) hm
    obtain ⟨c5, e5, w5⟩ := put_wrote b1 w c4 _
      (zeros (r.sreLength - min r.sreLength r.routingInformation.length)) w4
      (by simp only [List.length_append, putBe16_length, List.length_cons, List.length_nil, List.length_take,
            Gp.C18.zeros_length]; omega) hm
    obtain ⟨c6, e6, w6⟩ := ih c5 _ w5
      (by simp only [List.length_append, putBe16_length, List.length_cons, List.length_nil, List.length_take,
            Gp.C18.zeros_length]; omega)
    refine ⟨c6, ?_, ?_⟩
    · have hz : Variant.fixed.zeroShortInfo = true := rfl
      simp only [putSREs, e1, e2, e3, e4, Res.bind_ok, hz, if_true, e5, e6]
    · simpa [encSREs, List.append_assoc] using w6

/-- stores of `writeHeader` = one fill of the window with `encodeWith l cs0`. -/
theorem writeHeader_wrote (l : Layer) (b1 : SBuf) (w : Win) (hm : w.off ≤ b1.mem.length)
    (hn : w.n = headerSize l) :
    ∃ c, writeHeader Variant.fixed l w { b := b1, off := 0 } = .ok c ∧
      Wrote b1 w c (encodeWith l (if l.checksumPresent then [0, 0] else putBe16 l.checksum)) := by
  have hcs : (if l.checksumPresent then ([0, 0] : Bytes) else putBe16 l.checksum).length = 2 := by
    split <;> rfl
  have hlen := encodeWith_length l _ hcs
  rw [← hn] at hlen
  unfold encodeWith at hlen ⊢
  simp only [List.length_append, List.length_cons, List.length_nil, putBe16_length] at hlen
  obtain ⟨c1, e1, w1⟩ := put_wrote b1 w _ [] [byte0 l] (wrote_init b1 w) (by simp; omega) hm
  obtain ⟨c2, e2, w2⟩ := put_wrote b1 w c1 _ [byte1 l] w1 (by simp; omega) hm
  obtain ⟨c3, e3, w3⟩ := put_wrote b1 w c2 _ (putBe16 l.protocol) w2 (by simp [putBe16_length]; omega) hm
  simp only [List.nil_append] at w3
  have hcsx : (if (Variant.fixed.keepRoutingOnlyCsum && !l.checksumPresent) = true then putBe16 l.checksum else ([0, 0] : Bytes))
      = (if l.checksumPresent then ([0, 0] : Bytes) else putBe16 l.checksum) := by
    cases l.checksumPresent <;> rfl
  have hco : ∃ c4, (if (l.checksumPresent || l.routingPresent) = true then
        (put w c3 (if (Variant.fixed.keepRoutingOnlyCsum && !l.checksumPresent) = true then putBe16 l.checksum else [0, 0])
          >>= fun c => put w c (putBe16 l.offset))
        else pure c3) = .ok c4 ∧
      Wrote b1 w c4 ([byte0 l] ++ [byte1 l] ++ putBe16 l.protocol ++ (if (l.checksumPresent || l.routingPresent) = true
        then (if l.checksumPresent then ([0, 0] : Bytes) else putBe16 l.checksum) ++ putBe16 l.offset else [])) := by
    cases hcr : (l.checksumPresent || l.routingPresent) with
    | false => exact ⟨c3, rfl, by simpa using w3⟩
    | true =>
      simp only [hcr, if_true, List.length_append, putBe16_length, hcs] at hlen
      rw [hcsx]
      obtain ⟨c4, e4, w4⟩ := put_wrote b1 w c3 _ (if l.checksumPresent then ([0, 0] : Bytes) else putBe16 l.checksum) w3
        (by simp only [List.length_append, List.length_cons, List.length_nil, putBe16_length, hcs]; omega) hm
      obtain ⟨c4', e4', w4'⟩ := put_wrote b1 w c4 _ (putBe16 l.offset) w4
        (by simp only [List.length_append, List.length_cons, List.length_nil, putBe16_length, hcs]; omega) hm
      refine ⟨c4', ?_, ?_⟩
      · simp only [if_true, e4, e4', Res.bind_ok]
      · simpa [List.append_assoc] using w4'
  obtain ⟨c4, e4, w4⟩ := hco
  obtain ⟨c5, e5, w5⟩ := optPut_wrote l.keyPresent b1 w c4 _ (putBe32 l.key) w4
    (by simp only [List.length_append, List.length_cons, List.length_nil, putBe16_length]; omega) hm
  obtain ⟨c6, e6, w6⟩ := optPut_wrote l.seqPresent b1 w c5 _ (putBe32 l.seq) w5
    (by simp only [List.length_append, List.length_cons, List.length_nil, putBe16_length]; omega) hm
  -- routing: SRE chain then the NULL SRE
  have hrt : ∃ c7, (if l.routingPresent then
        (putSREs Variant.fixed w c6 l.routing >>= fun c => put w c (putBe32 0) >>= fun c' =>
          pure (if Variant.fixed.advanceAfterTerminator then c' else { c' with off := c.off }))
        else pure c6) = .ok c7 ∧
      Wrote b1 w c7 ([byte0 l] ++ [byte1 l] ++ putBe16 l.protocol
        ++ (if (l.checksumPresent || l.routingPresent) = true
              then (if l.checksumPresent then ([0, 0] : Bytes) else putBe16 l.checksum) ++ putBe16 l.offset else [])
        ++ (if l.keyPresent = true then putBe32 l.key else [])
        ++ (if l.seqPresent = true then putBe32 l.seq else [])
        ++ (if l.routingPresent then encSREs l.routing ++ putBe32 0 else [])) := by
    cases hrp : l.routingPresent with
    | false => rw [hrp] at w6; exact ⟨c6, rfl, by simpa using w6⟩
    | true =>
      rw [hrp] at w6 hlen
      simp only [if_true, List.length_append, putBe32_length] at hlen
      obtain ⟨c7, e7, w7⟩ := putSREs_wrote b1 w hm l.routing c6 _ w6
        (by simp only [List.length_append, List.length_cons, List.length_nil, putBe16_length]; omega)
      obtain ⟨c8, e8, w8⟩ := put_wrote b1 w c7 _ (putBe32 0) w7
        (by simp only [List.length_append, List.length_cons, List.length_nil, putBe16_length, putBe32_length]; omega) hm
      refine ⟨c8, ?_, ?_⟩
      · have ha : Variant.fixed.advanceAfterTerminator = true := rfl
        simp only [if_true, e7, e8, Res.bind_ok, ha]
        rfl
      · simpa [List.append_assoc] using w8
  obtain ⟨c7, e7, w7⟩ := hrt
  obtain ⟨c8, e8, w8⟩ := optPut_wrote l.ackPresent b1 w c7 _ (putBe32 l.ack) w7
    (by simp only [List.length_append, List.length_cons, List.length_nil, putBe16_length]; omega) hm
  refine ⟨c8, ?_, ?_⟩
  · unfold writeHeader
    simp only [e1, e2, e3, Res.bind_ok]
    rw [e4]
    simp only [Res.bind_ok]
    rw [e5]
    simp only [Res.bind_ok]
    rw [e6]
    simp only [Res.bind_ok]
    rw [e7]
    simp only [Res.bind_ok]
    exact e8
  · simpa [List.append_assoc] using w8

/-! ### refinement of SerializeTo -/

theorem encodeWith_checksum_irrel (l : Layer) (x : Nat) (cs : Bytes) :
    encodeWith { l with checksum := x } cs = encodeWith l cs := rfl

theorem headerSize_ge_8 (l : Layer) (h : l.checksumPresent = true) : 8 ≤ headerSize l := by
  unfold headerSize
  simp [h]
  omega

/-- splice of the two checksum bytes into an encoded header that has the C bit. -/
theorem encodeWith_patch (l : Layer) (h : l.checksumPresent = true) (a b c d : UInt8) (P : Bytes) :
    (encodeWith l [a, b] ++ P).take 4 ++ [c, d] ++ (encodeWith l [a, b] ++ P).drop (4 + 2)
      = encodeWith l [c, d] ++ P := by
  unfold encodeWith
  simp only [h, Bool.true_or, if_true, putBe16]
  simp

/-- **SerializeTo computes the pure encoder**: for every layer value, every option set and every
    buffer satisfying the representation invariant (every buffer any history can produce, C18.inv_run)
    the call succeeds, mutates the receiver to `mutated …`, leaves `encode l' ++ old contents` in
    the buffer and preserves the invariant. -/
theorem serialize_spec (l : Layer) (b : SBuf) (opts : Opts) (hb : Gp.C18.Inv b) :
    ∃ b', serializeGre l b opts = .ok (b', mutated l opts (contents b)) ∧ Gp.C18.Inv b' ∧
      contents b' = encode (mutated l opts (contents b)) ++ contents b := by
  have hI := Gp.C18.inv_prepend' b (headerSize l) hb
  have hsl := Gp.C18.prepend_start_len b (headerSize l) hb
  have hdrop := Gp.C18.prepend_contents_drop b (headerSize l) hb
  have hwin := Gp.C18.prepend_win b (headerSize l)
  generalize hpw : prepend b (headerSize l) = pw at hI hsl hdrop hwin
  obtain ⟨b1, w⟩ := pw
  simp only at hI hsl hdrop hwin
  have hwg : w.gen = b1.gen := by rw [hwin]
  have hwo : w.off = b1.start := by rw [hwin]
  have hwn : w.n = headerSize l := by rw [hwin]
  have hm : w.off ≤ b1.mem.length := by
    obtain ⟨i1, i2, _⟩ := hI; omega
  obtain ⟨c, hc, _, hcb⟩ := writeHeader_wrote l b1 w hm hwn
  have hcs : (if l.checksumPresent then ([0, 0] : Bytes) else putBe16 l.checksum).length = 2 := by
    split <;> rfl
  have hE := encodeWith_length l _ hcs
  generalize hE0 : encodeWith l (if l.checksumPresent then ([0, 0] : Bytes) else putBe16 l.checksum) = E0 at hcb hE
  -- contents after the header stores
  have hcont : contents c.b = E0 ++ contents b := by
    rw [hcb]
    have := Gp.C18.fill_contents b1 ⟨w.gen, w.off, E0.length⟩ E0 hI hwg (by simp [hwo]) (by simp [hwo, hE]; omega)
    rw [this]
    simp only [hwo, Nat.sub_self, List.take_zero, List.nil_append, Nat.zero_add, hE, hdrop]
  have hIc : Gp.C18.Inv c.b := by
    rw [hcb]
    apply Gp.C18.inv_fill' b1 _ E0 hI
    obtain ⟨i1, i2, _⟩ := hI
    simp [hwo, hE]; omega
  have hcf := Gp.C18.fill_fields b1 ⟨w.gen, w.off, E0.length⟩ E0
  rw [← hcb] at hcf
  unfold serializeGre serializeGreV
  simp only [hpw]
  rw [hc]
  simp only [Res.bind_ok]
  by_cases hcp : l.checksumPresent = true
  case neg =>
    have hcp' : l.checksumPresent = false := by simpa using hcp
    rw [if_neg hcp]
    refine ⟨c.b, ?_, hIc, ?_⟩
    · simp [mutated, hcp']
      rfl
    · rw [hcont, ← hE0]
      simp [mutated, hcp', encode]
  case pos =>
    rw [if_pos hcp]
    have h8 := headerSize_ge_8 l hcp
    simp only [hcp, if_true] at hE0
    have hmut : mutated l opts (contents b) =
        (if opts.computeChecksums = true then { l with checksum := Cksum.fold (Cksum.compute (contents c.b) 0) } else l) := by
      unfold mutated
      rw [hcp, hcont, ← hE0]
      cases opts.computeChecksums <;> rfl
    rw [← hmut]
    generalize mutated l opts (contents b) = l' at hmut ⊢
    have hl'enc : ∀ cs, encodeWith l' cs = encodeWith l cs := by
      intro cs; rw [hmut]; split
      · rfl
      · rfl
    refine ⟨fill c.b ⟨w.gen, w.off + 4, 2⟩ (putBe16 l'.checksum), ?_, ?_, ?_⟩
    · have hst : storeAt c.b w 4 (putBe16 l'.checksum)
          = .ok (fill c.b ⟨w.gen, w.off + 4, 2⟩ (putBe16 l'.checksum)) := by
        unfold storeAt
        rw [if_pos (by rw [putBe16_length]; omega)]
        rfl
      rw [hst]
      rfl
    · apply Gp.C18.inv_fill' c.b _ _ hIc
      obtain ⟨i1, i2, _⟩ := hIc
      simp only [putBe16_length]
      rw [hcf.2.1] at i2
      rw [hcf.1] at i1
      omega
    · have := Gp.C18.fill_contents c.b ⟨w.gen, w.off + 4, 2⟩ (putBe16 l'.checksum) hIc
        (by simp only; rw [hcf.2.2.2.1]; exact hwg) (by simp only; rw [hcf.1]; omega)
        (by simp only [putBe16_length]; rw [hcf.2.1]; omega)
      rw [this]
      simp only [hcf.1, hwo, putBe16_length]
      have e4 : b1.start + 4 - b1.start = 4 := by omega
      rw [e4, hcont, ← hE0]
      unfold encode
      rw [hl'enc]
      exact encodeWith_patch l hcp 0 0 _ _ (contents b)

end Gp.Gre
