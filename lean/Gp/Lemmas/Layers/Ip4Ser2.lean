import Gp.Lemmas.Layers.Ip4Ser
/-
  Helper lemmas for engine `lip4`, part 3: the result of SerializeTo in closed form.
-/
namespace Gp.Ip4
open Gp Gp.SBuf

/-! ## Closed form of the header bytes and of the mutated layer -/

def byte0 (l : Layer) : UInt8 := u8 (((l.version % 256) * 16) % 256 ||| (l.ihl % 256))

/-- The 20 fixed octets with checksum word `c`. -/
def hdr20 (l : Layer) (c : Nat) : Bytes :=
  [byte0 l, u8 l.tos] ++ Gp.putBe16 (l.length % 65536) ++ Gp.putBe16 (l.id % 65536) ++
    Gp.putBe16 (flagsfrags l) ++ [u8 l.ttl, u8 l.protocol] ++ Gp.putBe16 c ++ l.srcIP ++ l.dstIP

/-- The option area: options, padding, zero fill up to the 32-bit boundary. -/
def optArea (l : Layer) : Bytes :=
  optsBytes l.options ++ l.padding ++
    List.replicate (optionSize l - optsSize l.options - l.padding.length) 0

def hdrW (l : Layer) (c : Nat) : Bytes := hdr20 l c ++ optArea l

/-- The bytes SerializeTo prepends, as a function of the layer AFTER the call. -/
def hdrBytes (l : Layer) : Bytes := hdrW l (l.checksum % 65536)

/-- The FixLengths mutation (`plen` = bytes already in the buffer). -/
def fixLengths (l : Layer) (plen : Nat) (fix : Bool) : Layer :=
  if fix then { l with ihl := (5 + (optionSize l / 4) % 256) % 256,
                       length := (20 + optionSize l + plen) % 65536 } else l

/-- The layer after a successful SerializeTo. -/
def finalLayer (l : Layer) (plen : Nat) (fix csum : Bool) (src dst : Bytes) : Layer :=
  let l2 : Layer := { fixLengths l plen fix with srcIP := src, dstIP := dst }
  if csum then { l2 with checksum := Cksum.fold (Cksum.compute (hdrW l2 0) 0) } else l2

theorem to4_length {a s : Bytes} (h : to4 a = some s) : s.length = 4 := by
  unfold to4 at h
  split at h
  · cases h; assumption
  · split at h
    · cases h; simp; omega
    · cases h

theorem align4_ge (n : Nat) : n ≤ align4 n := by unfold align4; split <;> omega
theorem align4_mod (n : Nat) : align4 n % 4 = 0 := by unfold align4; split <;> omega
theorem align4_lt (n : Nat) : align4 n < n + 4 := by unfold align4; split <;> omega

theorem optionSize_ge (l : Layer) : optsSize l.options + l.padding.length ≤ optionSize l := align4_ge _

theorem optArea_length (l : Layer) (hv : ∀ o ∈ l.options, optValid o) : (optArea l).length = optionSize l := by
  have := optionSize_ge l
  simp only [optArea, List.length_append, List.length_replicate, optsBytes_length _ hv]; omega

/-! ## The stages of SerializeTo on a window -/

theorem serFixed_win (l1 : Layer) (a0 a1 a2 a3 a4 a5 a6 a7 a8 a9 : UInt8) (R post : Bytes) :
    serFixed l1 ⟨(a0::a1::a2::a3::a4::a5::a6::a7::a8::a9::R) ++ post, R.length + 10⟩ =
      .ok ⟨([byte0 l1, u8 l1.tos] ++ Gp.putBe16 (l1.length % 65536) ++ Gp.putBe16 (l1.id % 65536) ++
            Gp.putBe16 (flagsfrags l1) ++ [u8 l1.ttl, u8 l1.protocol] ++ R) ++ post, R.length + 10⟩ := by
  simp [serFixed, Sl.set, Sl.putBe16, Sl.splice, Gp.putBe16, byte0]

theorem serBody_ok (l2 : Layer) (csum : Bool) (h0 h1 h2 h3 h4 h5 h6 h7 h8 h9 a10 a11 a12 a13 a14 a15 a16 a17 a18 a19 : UInt8)
    (T post : Bytes) (s0 s1 s2 s3 d0 d1 d2 d3 : UInt8)
    (hs : l2.srcIP = [s0, s1, s2, s3]) (hd : l2.dstIP = [d0, d1, d2, d3])
    (hv : ∀ o ∈ l2.options, optValid o) (hT : T.length = optionSize l2) :
    let c0 := Cksum.fold (Cksum.compute ([h0, h1, h2, h3, h4, h5, h6, h7, h8, h9, 0, 0, s0, s1, s2, s3, d0, d1, d2, d3] ++ optArea l2) 0)
    let l3 : Layer := if csum then { l2 with checksum := c0 } else l2
    serBody fixedV l2 ⟨(h0::h1::h2::h3::h4::h5::h6::h7::h8::h9::a10::a11::a12::a13::a14::a15::a16::a17::a18::a19::T) ++ post, T.length + 20⟩ csum =
      .ok (⟨([h0, h1, h2, h3, h4, h5, h6, h7, h8, h9] ++ Gp.putBe16 (l3.checksum % 65536) ++
              [s0, s1, s2, s3, d0, d1, d2, d3] ++ optArea l2) ++ post, T.length + 20⟩, l3) := by
  intro c0 l3
  have hge := optionSize_ge l2
  unfold serBody
  simp only [fixedV, if_true, hs, hd]
  have e1 : Sl.copyAt ⟨(h0::h1::h2::h3::h4::h5::h6::h7::h8::h9::a10::a11::a12::a13::a14::a15::a16::a17::a18::a19::T) ++ post, T.length + 20⟩ 12 16 [s0, s1, s2, s3] =
      .ok ⟨(h0::h1::h2::h3::h4::h5::h6::h7::h8::h9::a10::a11::s0::s1::s2::s3::a16::a17::a18::a19::T) ++ post, T.length + 20⟩ := by
    simp [Sl.copyAt, Sl.splice]
  have e2 : Sl.copyAt ⟨(h0::h1::h2::h3::h4::h5::h6::h7::h8::h9::a10::a11::s0::s1::s2::s3::a16::a17::a18::a19::T) ++ post, T.length + 20⟩ 16 20 [d0, d1, d2, d3] =
      .ok ⟨(h0::h1::h2::h3::h4::h5::h6::h7::h8::h9::a10::a11::s0::s1::s2::s3::d0::d1::d2::d3::T) ++ post, T.length + 20⟩ := by
    simp [Sl.copyAt, Sl.splice]
  have e3 : Sl.clearFrom ⟨(h0::h1::h2::h3::h4::h5::h6::h7::h8::h9::a10::a11::s0::s1::s2::s3::d0::d1::d2::d3::T) ++ post, T.length + 20⟩ 20 =
      .ok ⟨[h0, h1, h2, h3, h4, h5, h6, h7, h8, h9, a10, a11, s0, s1, s2, s3, d0, d1, d2, d3] ++ List.replicate T.length 0 ++ post, T.length + 20⟩ := by
    simp [Sl.clearFrom, Sl.splice]
    rw [← List.drop_drop]
    simp
  simp only [e1, e2, e3, Res.bind_ok]
  have e4 := serOpts_ok l2.options [h0, h1, h2, h3, h4, h5, h6, h7, h8, h9, a10, a11, s0, s1, s2, s3, d0, d1, d2, d3] post
    (T.length + 20) T.length hv (by simp; omega) (by simp; omega)
  have hA : ([h0, h1, h2, h3, h4, h5, h6, h7, h8, h9, a10, a11, s0, s1, s2, s3, d0, d1, d2, d3] : Bytes).length = 20 := rfl
  rw [hA] at e4
  simp only [e4, Res.bind_ok]
  have hob := optsBytes_length l2.options hv
  have e5 : Sl.copyFrom ⟨[h0, h1, h2, h3, h4, h5, h6, h7, h8, h9, a10, a11, s0, s1, s2, s3, d0, d1, d2, d3] ++ optsBytes l2.options ++ List.replicate (T.length - optsSize l2.options) 0 ++ post, T.length + 20⟩
      (20 + optsSize l2.options) l2.padding =
      .ok ⟨[h0, h1, h2, h3, h4, h5, h6, h7, h8, h9, a10, a11, s0, s1, s2, s3, d0, d1, d2, d3] ++ optArea l2 ++ post, T.length + 20⟩ := by
    simp only [Sl.copyFrom]
    rw [copyAt_win ([h0, h1, h2, h3, h4, h5, h6, h7, h8, h9, a10, a11, s0, s1, s2, s3, d0, d1, d2, d3] ++ optsBytes l2.options ++ List.replicate (T.length - optsSize l2.options) 0) post
      (T.length + 20) _ _ _ (by rw [List.length_append, List.length_append, hA, hob, List.length_replicate]; omega) (by omega) (by omega)]
    have hc : 20 + optsSize l2.options = ([h0, h1, h2, h3, h4, h5, h6, h7, h8, h9, a10, a11, s0, s1, s2, s3, d0, d1, d2, d3] ++ optsBytes l2.options).length := by rw [List.length_append, hA, hob]
    have ht : l2.padding.take (T.length + 20 - (20 + optsSize l2.options)) = l2.padding := by
      apply List.take_of_length_le; omega
    rw [ht, hc, splice_zeros _ _ _ (by omega)]
    simp only [optArea, hT, List.append_assoc]
  simp only [e5, Res.bind_ok]
  have hoa := optArea_length l2 hv
  have hform : [h0, h1, h2, h3, h4, h5, h6, h7, h8, h9, a10, a11, s0, s1, s2, s3, d0, d1, d2, d3] ++ optArea l2 ++ post =
      (h0::h1::h2::h3::h4::h5::h6::h7::h8::h9::a10::a11::([s0, s1, s2, s3, d0, d1, d2, d3] ++ optArea l2)) ++ post := rfl
  have hn : T.length + 20 = ([s0, s1, s2, s3, d0, d1, d2, d3] ++ optArea l2).length + 12 := by
    simp [hoa]; omega
  rw [hform, hn]
  have hpb : ∀ {α β : Type} (a : α) (f : α → Res β), ((pure a : Res α) >>= f) = f a := fun _ _ => rfl
  cases csum with
  | false =>
    simp only [l3, Bool.false_eq_true, if_false, hpb, csum_chain, Res.bind_ok]
    rfl
  | true =>
    have e6 : Sl.set ⟨(h0::h1::h2::h3::h4::h5::h6::h7::h8::h9::a10::a11::([s0, s1, s2, s3, d0, d1, d2, d3] ++ optArea l2)) ++ post, ([s0, s1, s2, s3, d0, d1, d2, d3] ++ optArea l2).length + 12⟩ 10 0 =
        .ok ⟨(h0::h1::h2::h3::h4::h5::h6::h7::h8::h9::0::a11::([s0, s1, s2, s3, d0, d1, d2, d3] ++ optArea l2)) ++ post, ([s0, s1, s2, s3, d0, d1, d2, d3] ++ optArea l2).length + 12⟩ := by simp [Sl.set]
    have e7 : Sl.set ⟨(h0::h1::h2::h3::h4::h5::h6::h7::h8::h9::0::a11::([s0, s1, s2, s3, d0, d1, d2, d3] ++ optArea l2)) ++ post, ([s0, s1, s2, s3, d0, d1, d2, d3] ++ optArea l2).length + 12⟩ 11 0 =
        .ok ⟨(h0::h1::h2::h3::h4::h5::h6::h7::h8::h9::0::0::([s0, s1, s2, s3, d0, d1, d2, d3] ++ optArea l2)) ++ post, ([s0, s1, s2, s3, d0, d1, d2, d3] ++ optArea l2).length + 12⟩ := by simp [Sl.set]
    simp only [l3, if_true, e6, e7, hpb, Res.bind_ok, csum_chain]
    rw [bytes_win _ _ _ (by simp)]
    simp only [hs, hd]
    rfl

theorem serBody_err (l2 : Layer) (csum : Bool) (h0 h1 h2 h3 h4 h5 h6 h7 h8 h9 a10 a11 a12 a13 a14 a15 a16 a17 a18 a19 : UInt8)
    (T post : Bytes) (s0 s1 s2 s3 d0 d1 d2 d3 : UInt8)
    (hs : l2.srcIP = [s0, s1, s2, s3]) (hd : l2.dstIP = [d0, d1, d2, d3])
    (hv : ¬ ∀ o ∈ l2.options, optValid o) (hT : T.length = optionSize l2) :
    ∃ e, serBody fixedV l2 ⟨(h0::h1::h2::h3::h4::h5::h6::h7::h8::h9::a10::a11::a12::a13::a14::a15::a16::a17::a18::a19::T) ++ post, T.length + 20⟩ csum = .err e := by
  have hge := optionSize_ge l2
  unfold serBody
  simp only [fixedV, if_true, hs, hd]
  have e1 : Sl.copyAt ⟨(h0::h1::h2::h3::h4::h5::h6::h7::h8::h9::a10::a11::a12::a13::a14::a15::a16::a17::a18::a19::T) ++ post, T.length + 20⟩ 12 16 [s0, s1, s2, s3] =
      .ok ⟨(h0::h1::h2::h3::h4::h5::h6::h7::h8::h9::a10::a11::s0::s1::s2::s3::a16::a17::a18::a19::T) ++ post, T.length + 20⟩ := by
    simp [Sl.copyAt, Sl.splice]
  have e2 : Sl.copyAt ⟨(h0::h1::h2::h3::h4::h5::h6::h7::h8::h9::a10::a11::s0::s1::s2::s3::a16::a17::a18::a19::T) ++ post, T.length + 20⟩ 16 20 [d0, d1, d2, d3] =
      .ok ⟨(h0::h1::h2::h3::h4::h5::h6::h7::h8::h9::a10::a11::s0::s1::s2::s3::d0::d1::d2::d3::T) ++ post, T.length + 20⟩ := by
    simp [Sl.copyAt, Sl.splice]
  have e3 : Sl.clearFrom ⟨(h0::h1::h2::h3::h4::h5::h6::h7::h8::h9::a10::a11::s0::s1::s2::s3::d0::d1::d2::d3::T) ++ post, T.length + 20⟩ 20 =
      .ok ⟨[h0, h1, h2, h3, h4, h5, h6, h7, h8, h9, a10, a11, s0, s1, s2, s3, d0, d1, d2, d3] ++ List.replicate T.length 0 ++ post, T.length + 20⟩ := by
    simp [Sl.clearFrom, Sl.splice]
    rw [← List.drop_drop]
    simp
  simp only [e1, e2, e3, Res.bind_ok]
  obtain ⟨e, he⟩ := serOpts_err l2.options [h0, h1, h2, h3, h4, h5, h6, h7, h8, h9, a10, a11, s0, s1, s2, s3, d0, d1, d2, d3] post (T.length + 20) T.length hv (by simp; omega) (by simp; omega)
  have hA : ([h0, h1, h2, h3, h4, h5, h6, h7, h8, h9, a10, a11, s0, s1, s2, s3, d0, d1, d2, d3] : Bytes).length = 20 := rfl
  rw [hA] at he
  exact ⟨e, by simp only [he]; rfl⟩

/-! ## SerializeTo as a whole -/

theorem optionLengthOf_fixed (l : Layer) : optionLengthOf fixedV l = optionSize l := by
  simp [optionLengthOf, fixedV, optionSize]

theorem fixLen_eq (l : Layer) (plen : Nat) (fix : Bool) :
    fixLen l (optionSize l) (20 + optionSize l + plen) fix = fixLengths l plen fix := rfl

theorem fixLengths_fields (l : Layer) (plen : Nat) (fix : Bool) :
    (fixLengths l plen fix).options = l.options ∧ (fixLengths l plen fix).padding = l.padding ∧
    (fixLengths l plen fix).srcIP = l.srcIP ∧ (fixLengths l plen fix).dstIP = l.dstIP := by
  unfold fixLengths; split <;> simp

theorem optionSize_congr {l l' : Layer} (h1 : l'.options = l.options) (h2 : l'.padding = l.padding) :
    optionSize l' = optionSize l := by simp [optionSize, h1, h2]

theorem hdrW_length (l : Layer) (c : Nat) (hv : ∀ o ∈ l.options, optValid o)
    (hs : l.srcIP.length = 4) (hd : l.dstIP.length = 4) : (hdrW l c).length = 20 + optionSize l := by
  simp [hdrW, hdr20, Gp.putBe16, optArea_length l hv, hs, hd]; omega

theorem finalLayer_fields (l : Layer) (p : Nat) (fix csum : Bool) (s d : Bytes) :
    (finalLayer l p fix csum s d).options = l.options ∧ (finalLayer l p fix csum s d).padding = l.padding ∧
    (finalLayer l p fix csum s d).srcIP = s ∧ (finalLayer l p fix csum s d).dstIP = d := by
  unfold finalLayer fixLengths; split <;> split <;> simp

theorem hdrBytes_final_length (l : Layer) (p : Nat) (fix csum : Bool) (s d : Bytes)
    (hv : ∀ o ∈ l.options, optValid o) (hs : s.length = 4) (hd : d.length = 4) :
    (hdrBytes (finalLayer l p fix csum s d)).length = 20 + optionSize l := by
  obtain ⟨g1, g2, g3, g4⟩ := finalLayer_fields l p fix csum s d
  rw [hdrBytes, hdrW_length _ _ (by rw [g1]; exact hv) (by rw [g3]; exact hs) (by rw [g4]; exact hd),
    optionSize_congr g1 g2]

theorem u8_zero : u8 0 = 0 := rfl

/-- `serBody_ok` with the first ten octets being those `serFixed` wrote for the same layer:
    the final window is `hdrBytes` of the resulting layer. -/
theorem serBody_ok' (l2 : Layer) (csum : Bool) (a10 a11 a12 a13 a14 a15 a16 a17 a18 a19 : UInt8)
    (T post : Bytes) (s0 s1 s2 s3 d0 d1 d2 d3 : UInt8)
    (hs : l2.srcIP = [s0, s1, s2, s3]) (hd : l2.dstIP = [d0, d1, d2, d3])
    (hv : ∀ o ∈ l2.options, optValid o) (hT : T.length = optionSize l2) :
    let l3 : Layer := if csum then { l2 with checksum := Cksum.fold (Cksum.compute (hdrW l2 0) 0) } else l2
    serBody fixedV l2 ⟨(byte0 l2 :: u8 l2.tos :: u8 (l2.length % 65536 / 256) :: u8 (l2.length % 65536) :: u8 (l2.id % 65536 / 256) :: u8 (l2.id % 65536) :: u8 (flagsfrags l2 / 256) :: u8 (flagsfrags l2) :: u8 l2.ttl :: u8 l2.protocol :: a10::a11::a12::a13::a14::a15::a16::a17::a18::a19::T) ++ post, T.length + 20⟩ csum =
      .ok (⟨hdrBytes l3 ++ post, T.length + 20⟩, l3) := by
  intro l3
  have key := serBody_ok l2 csum (byte0 l2) (u8 l2.tos) (u8 (l2.length % 65536 / 256)) (u8 (l2.length % 65536))
    (u8 (l2.id % 65536 / 256)) (u8 (l2.id % 65536)) (u8 (flagsfrags l2 / 256)) (u8 (flagsfrags l2))
    (u8 l2.ttl) (u8 l2.protocol) a10 a11 a12 a13 a14 a15 a16 a17 a18 a19 T post s0 s1 s2 s3 d0 d1 d2 d3 hs hd hv hT
  simp only [] at key
  have hw0 : [byte0 l2, u8 l2.tos, u8 (l2.length % 65536 / 256), u8 (l2.length % 65536), u8 (l2.id % 65536 / 256),
      u8 (l2.id % 65536), u8 (flagsfrags l2 / 256), u8 (flagsfrags l2), u8 l2.ttl, u8 l2.protocol, 0, 0,
      s0, s1, s2, s3, d0, d1, d2, d3] ++ optArea l2 = hdrW l2 0 := by
    simp [hdrW, hdr20, Gp.putBe16, hs, hd, u8_zero]
  rw [hw0] at key
  rw [key]
  cases csum with
  | false => simp [l3, hdrBytes, hdrW, hdr20, Gp.putBe16, hs, hd]
  | true => simp [l3, hdrBytes, hdrW, hdr20, Gp.putBe16, hs, hd, byte0, flagsfrags, optArea, optionSize]

theorem serialize_ok (l : Layer) (b : SBuf) (fix csum : Bool) (src dst : Bytes) (hb : C18.Inv b)
    (hsz : optionSize l ≤ 40) (hs : to4 l.srcIP = some src) (hd : to4 l.dstIP = some dst)
    (hv : ∀ o ∈ l.options, optValid o) :
    ∃ b', serializeIp4 l b fix csum = .ok (b', finalLayer l (contents b).length fix csum src dst) ∧
      contents b' = hdrBytes (finalLayer l (contents b).length fix csum src dst) ++ contents b ∧
      C18.Inv b' := by
  obtain ⟨b1, w, W0, post, hp, hwn, harr, hW0, hlen, hcommit⟩ := prepend_window b (20 + optionSize l) hb
  obtain ⟨a0, a1, a2, a3, a4, a5, a6, a7, a8, a9, a10, a11, a12, a13, a14, a15, a16, a17, a18, a19, T, rfl, hT⟩ :=
    exists_cons20 W0 (by omega)
  obtain ⟨s0, s1, s2, s3, rfl⟩ := exists_cons4 src (to4_length hs)
  obtain ⟨d0, d1, d2, d3, rfl⟩ := exists_cons4 dst (to4_length hd)
  have hTl : T.length = optionSize l := by simp at hW0; omega
  obtain ⟨f1, f2, f3, f4⟩ := fixLengths_fields l (contents b).length fix
  unfold serializeIp4 serializeWith
  have hn40 : ¬ (fixedV.intSize = true ∧ optionSize l > 40) := by omega
  simp only [optionLengthOf_fixed, hn40, if_false, hp, harr, hwn, hlen, fixLen_eq]
  generalize hl1 : fixLengths l (contents b).length fix = l1 at f1 f2 f3 f4 ⊢
  have hn : 20 + optionSize l = (a10::a11::a12::a13::a14::a15::a16::a17::a18::a19::T).length + 10 := by
    simp [hTl]; omega
  rw [hn, serFixed_win]
  simp only [Res.bind_ok, f3, f4, hs, hd]
  have key := serBody_ok' { l1 with srcIP := [s0, s1, s2, s3], dstIP := [d0, d1, d2, d3] } csum
    a10 a11 a12 a13 a14 a15 a16 a17 a18 a19 T post s0 s1 s2 s3 d0 d1 d2 d3 rfl rfl
    (by simpa [f1] using hv) (by simp [optionSize, f1, f2, hTl])
  simp only [] at key
  erw [key]
  simp only [Res.bind_ok]
  subst hl1
  refine ⟨_, rfl, ?_⟩
  exact hcommit _ (hdrBytes_final_length l _ fix csum _ _ hv rfl rfl)

theorem serialize_err (l : Layer) (b : SBuf) (fix csum : Bool) (hb : C18.Inv b)
    (h : optionSize l > 40 ∨ to4 l.srcIP = none ∨ to4 l.dstIP = none ∨ ¬ ∀ o ∈ l.options, optValid o) :
    ∃ e, serializeIp4 l b fix csum = .err e := by
  unfold serializeIp4 serializeWith
  simp only [optionLengthOf_fixed]
  by_cases hsz : optionSize l > 40
  · have : fixedV.intSize = true ∧ optionSize l > 40 := ⟨rfl, hsz⟩
    exact ⟨"options too long", by simp only [this, and_self, if_true]⟩
  · have hn40 : ¬ (fixedV.intSize = true ∧ optionSize l > 40) := fun h => hsz h.2
    obtain ⟨b1, w, W0, post, hp, hwn, harr, hW0, hlen, -⟩ := prepend_window b (20 + optionSize l) hb
    obtain ⟨a0, a1, a2, a3, a4, a5, a6, a7, a8, a9, a10, a11, a12, a13, a14, a15, a16, a17, a18, a19, T, rfl, hT⟩ :=
      exists_cons20 W0 (by omega)
    have hTl : T.length = optionSize l := by simp at hW0; omega
    obtain ⟨f1, f2, f3, f4⟩ := fixLengths_fields l (contents b).length fix
    simp only [hn40, if_false, hp, harr, hwn, hlen, fixLen_eq]
    generalize hl1 : fixLengths l (contents b).length fix = l1 at f1 f2 f3 f4 ⊢
    have hn : 20 + optionSize l = (a10::a11::a12::a13::a14::a15::a16::a17::a18::a19::T).length + 10 := by
      simp [hTl]; omega
    rw [hn, serFixed_win]
    simp only [Res.bind_ok, f3, f4]
    rcases hs : to4 l.srcIP with _ | src
    · exact ⟨_, rfl⟩
    · rcases hd : to4 l.dstIP with _ | dst
      · exact ⟨_, rfl⟩
      · obtain ⟨s0, s1, s2, s3, rfl⟩ := exists_cons4 src (to4_length hs)
        obtain ⟨d0, d1, d2, d3, rfl⟩ := exists_cons4 dst (to4_length hd)
        have hv : ¬ ∀ o ∈ l.options, optValid o := by
          rcases h with h | h | h | h
          · exact absurd h hsz
          · rw [hs] at h; cases h
          · rw [hd] at h; cases h
          · exact h
        obtain ⟨e, he⟩ := serBody_err { l1 with srcIP := [s0, s1, s2, s3], dstIP := [d0, d1, d2, d3] } csum
          (byte0 l1) (u8 l1.tos) (u8 (l1.length % 65536 / 256)) (u8 (l1.length % 65536))
          (u8 (l1.id % 65536 / 256)) (u8 (l1.id % 65536)) (u8 (flagsfrags l1 / 256)) (u8 (flagsfrags l1))
          (u8 l1.ttl) (u8 l1.protocol) a10 a11 a12 a13 a14 a15 a16 a17 a18 a19 T post s0 s1 s2 s3 d0 d1 d2 d3 rfl rfl
          (by simpa [f1] using hv) (by simp [optionSize, f1, f2, hTl])
        refine ⟨e, ?_⟩
        simp only []
        erw [he]
        rfl

end Gp.Ip4
