import Gp.Lemmas.Layers.Ip6RtIp
/-
  Round trip of IPv6 (with and without embedded hop-by-hop header), non-jumbo payloads.
-/
namespace Gp.Ip6
open Gp Gp.SBuf Gp.C18 Gp.Gen.Ip6

/-! ## definitions used in the statements -/

def hbhEqv : Option TlvExt → Option TlvExt → Prop
  | none, none => True
  | some x, some y =>
    x.base.nextHeader = y.base.nextHeader ∧ x.base.headerLength = y.base.headerLength ∧
    optsView x.options = optsView y.options
  | _, _ => False

/-- Field equivalence `≈`: all public fields except Contents/Payload (compared separately) and the
    derived/hint fields of options (ActualLength, OptionAlignment); padding options are ignored. -/
def IPv6.eqv (a b : IPv6) : Prop :=
  a.version = b.version ∧ a.trafficClass = b.trafficClass ∧ a.flowLabel = b.flowLabel ∧
  a.length = b.length ∧ a.nextHeader = b.nextHeader ∧ a.hopLimit = b.hopLimit ∧ a.srcIP = b.srcIP ∧
  a.dstIP = b.dstIP ∧ hbhEqv a.hopByHop b.hopByHop

/-- In-range hop-by-hop / destination header. -/
def TlvExt.wf (e : TlvExt) : Prop :=
  e.base.nextHeader < 256 ∧
  (∀ o ∈ e.options, o.typ < 256 ∧ o.len < 256 ∧ o.bytes.length ≤ 255 ∧ o.ax < 256 ∧ o.ay < 256) ∧
  encLen true e.options + 2 ≤ 2048

theorem TlvExt.wf_facts (e : TlvExt) (h : e.wf) :
    GapFree true e.options ∧ AlignInRange e.options ∧ OptsInRange true e.options ∧
    (∀ o ∈ e.options, o.bytes.length ≤ 255) := by
  obtain ⟨-, ho, -⟩ := h
  refine ⟨?_, fun o hm => ⟨(ho o hm).2.2.2.1, (ho o hm).2.2.2.2⟩, fun o hm => ⟨(ho o hm).1, ?_⟩,
    fun o hm => (ho o hm).2.2.1⟩
  · intro o _ ht
    unfold fixOpt
    rw [if_neg ht]
    exact Nat.mod_le _ _
  · unfold fixOpt
    split
    · exact (ho o hm).2.1
    · exact Nat.mod_lt _ (by decide)

theorem encLen_ge6 (os : List Tlv) : 8 ≤ encLen true os + 2 := by
  have hge := encLoop_ge true os 2
  have hm := encLen_mod8 os
  unfold encLen finalPad at *
  simp only [if_true] at *
  omega

/-! ## serializeIPv6 on small payloads -/

theorem serializeIPv6_small (l : IPv6) (b : SBuf) (fix : Bool) (hs : (contents b).length ≤ 65535) :
    serializeIPv6 l b fix =
      (ip6HbhStep l b fix false).bind (fun r => ip6HeaderStep r.2.1 r.1 fix false r.2.2) := by
  unfold serializeIPv6
  have hj : decide ((contents b).length > maxPayloadLength) = false := by
    simp [maxPayloadLength]; omega
  simp only [hj, ip6JumboPrep, Bool.false_eq_true, if_false, Res.pure_eq_ok, Res.bind_ok]
  match ip6HbhStep l b fix false with
  | .ok (b', l', n) => rfl
  | .err e => rfl
  | .panic k => rfl

/-- Decoding header bytes followed by exactly `n` payload bytes, next header ≠ hop-by-hop. -/
theorem ip6_decode_plain (old L : IPv6) (n : Nat) (pay x : Bytes) (hw : L.hdrWf) (hn : n < 65536)
    (hnh : L.nextHeader ≠ 0) (hlen : pay.length = n) :
    ∃ l'', decodeIp6 old (ip6HdrBytes L n ++ pay) x = .ok (l'', false) ∧
      l''.version = L.version ∧ l''.trafficClass = L.trafficClass ∧ l''.flowLabel = L.flowLabel ∧
      l''.length = n ∧ l''.nextHeader = L.nextHeader ∧ l''.hopLimit = L.hopLimit ∧
      l''.srcIP = L.srcIP ∧ l''.dstIP = L.dstIP ∧ l''.hopByHop = none ∧ l''.payload = pay ∧
      l''.contents = ip6HdrBytes L n := by
  unfold decodeIp6
  rw [decodeIPv6_eq_spec, ip6Spec_hdr old _ _ _ hw hn]
  dsimp only
  have hn0 : ¬ (L.nextHeader = ipProtocolIPv6HopByHop) := hnh
  rw [if_neg hn0]
  subst hlen
  simp only [ip6Finish, List.take_length, Nat.lt_irrefl, decide_false, Bool.or_false, gt_iff_lt]
  exact ⟨_, rfl, rfl, rfl, rfl, rfl, rfl, rfl, rfl, rfl, rfl, rfl, rfl⟩

/-- No hop-by-hop header, any payload up to 65535 bytes (including the empty one). -/
theorem ip6_roundtrip_plain (l : IPv6) (b : SBuf) (h : Inv b) (hw : l.hdrWf) (hnone : l.hopByHop = none)
    (hnh : l.nextHeader ≠ 0) (hs : (contents b).length ≤ 65535) (old : IPv6) (x : Bytes) :
    ∃ b' l' l'', serializeIPv6 l b true = .ok (b', l') ∧
      l' = { l with length := (contents b).length } ∧
      contents b' = ip6HdrBytes l' (contents b).length ++ contents b ∧ Inv b' ∧
      decodeIp6 old (contents b') x = .ok (l'', false) ∧ l''.eqv l' ∧ l''.payload = contents b ∧
      l''.contents = ip6HdrBytes l' (contents b).length := by
  have hsrc := hw.2.2.2.2.2.1
  have hdst := hw.2.2.2.2.2.2
  rw [serializeIPv6_small l b true hs]
  have hstep : ip6HbhStep l b true false = .ok (b, l, (contents b).length) := by
    unfold ip6HbhStep; rw [hnone]; rfl
  rw [hstep]
  simp only [Res.bind]
  rw [ip6HeaderStep_eq l b true false _ h]
  have hc : ¬ ((!false && decide ((contents b).length > maxPayloadLength)) = true) := by
    simp [maxPayloadLength]; omega
  rw [if_neg hc, if_neg (by omega), if_neg (by omega)]
  have hfl : ip6FixLength l true false (contents b).length = { l with length := (contents b).length } := by
    unfold ip6FixLength
    simp only [if_true, Bool.false_eq_true, if_false]
    rw [Nat.mod_eq_of_lt (by omega)]
  rw [hfl]
  have hmod : (contents b).length % 65536 = (contents b).length := Nat.mod_eq_of_lt (by omega)
  simp only [hmod]
  have hw' : ({ l with length := (contents b).length } : IPv6).hdrWf := hw
  obtain ⟨l'', hd, f1, f2, f3, f4, f5, f6, f7, f8, f9, f10, f11⟩ :=
    ip6_decode_plain old { l with length := (contents b).length } (contents b).length (contents b) x hw'
      (by omega) hnh rfl
  refine ⟨_, _, l'', rfl, rfl, contents_step_prepend _ _ h, inv_step' _ _ h, ?_, ?_, f10, f11⟩
  · rw [contents_step_prepend _ _ h]; exact hd
  · refine ⟨f1, f2, f3, f4, f5, f6, f7, f8, ?_⟩
    rw [f9]; show hbhEqv none l.hopByHop; rw [hnone]; trivial

end Gp.Ip6
