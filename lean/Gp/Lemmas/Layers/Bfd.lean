import Gp.Model.Layers.Bfd
import Gp.Lemmas.SBuf
/-
  Helper lemmas for engine `lbfd` (BFD control packet codec), part 1: decoding.  Core Lean only.

  Section 1 holds the *definitions* that occur in the statements of the property theorems
  (functional specification of DecodeFromBytes); the rest is proof machinery.
-/
namespace Gp.Bfd
open Gp Gp.SBuf Gp.Gen.Bfd

/-! ## 1. Definitions used in property statements -/

/-- Byte `i` of a byte string (0 for a missing byte; only used where the byte exists). -/
def byteAt (v : Bytes) (i : Nat) : UInt8 := v.getD i 0

/-- Big-endian 32-bit value at offset `i`. -/
def u32At (v : Bytes) (i : Nat) : Nat :=
  be32 (byteAt v i) (byteAt v (i + 1)) (byteAt v (i + 2)) (byteAt v (i + 3))

/-- The receiver after the assignments of the 24 mandatory bytes `v[0..24)` (`AuthHeader` is still
    that of the receiver before the call). -/
def bfdHdr (old : BFD) (v : Bytes) : BFD :=
  { old with
    contents := v, payload := [],
    version := ((byteAt v 0).toNat &&& 0xE0) >>> 5,
    diagnostic := (byteAt v 0).toNat &&& 0x1F,
    state := ((byteAt v 1).toNat &&& 0xC0) >>> 6,
    poll := ((byteAt v 1).toNat &&& 0x20 != 0),
    final := ((byteAt v 1).toNat &&& 0x10 != 0),
    controlPlaneIndependent := ((byteAt v 1).toNat &&& 0x08 != 0),
    authPresent := ((byteAt v 1).toNat &&& 0x04 != 0),
    demand := ((byteAt v 1).toNat &&& 0x02 != 0),
    multipoint := ((byteAt v 1).toNat &&& 0x01 != 0),
    detectMultiplier := (byteAt v 2).toNat,
    myDiscriminator := u32At v 4,
    yourDiscriminator := u32At v 8,
    desiredMinTxInterval := u32At v 12,
    requiredMinRxInterval := u32At v 16,
    requiredMinEchoRxInterval := u32At v 20 }

/-- The keyed (MD5 / SHA1) branch on the bytes `w` behind the key id: a reserved byte, the sequence
    number, the digest; an error (with the truncation flag) when fewer than 5 bytes are there. -/
def keyedSpec (l : BFD) (h : AuthHeader) (w : Bytes) : DecOut BFD :=
  if w.length < 5 then { layer := { l with authHeader := some h }, trunc := true, err := true }
  else { layer := { l with authHeader := some { h with sequenceNumber := u32At w 1, data := w.drop 5 } },
         trunc := false, err := false }

/-- The authentication section `w` (everything behind the 24 mandatory bytes) decoded into a layer
    `l0` whose AuthHeader has been reset. -/
def authSpec0 (l0 : BFD) (w : Bytes) : DecOut BFD :=
  if l0.authPresent = true ∧ w.length > 2 then
    let h : AuthHeader := { authType := (byteAt w 0).toNat, keyID := (byteAt w 2).toNat, sequenceNumber := 0, data := [] }
    if h.authType = bfdAuthTypePassword then
      { layer := { l0 with authHeader := some { h with data := w.drop 3 } }, trunc := false, err := false }
    else if h.authType = bfdAuthTypeKeyedMD5 ∨ h.authType = bfdAuthTypeMeticulousKeyedMD5 then keyedSpec l0 h (w.drop 3)
    else if h.authType = bfdAuthTypeKeyedSHA1 ∨ h.authType = bfdAuthTypeMeticulousKeyedSHA1 then keyedSpec l0 h (w.drop 3)
    else { layer := { l0 with authHeader := some h }, trunc := false, err := false }
  else { layer := l0, trunc := false, err := false }

def authSpec (l : BFD) (w : Bytes) : DecOut BFD := authSpec0 { l with authHeader := none } w

/-- What `BFD.DecodeFromBytes` computes from the visible bytes `v` (|v| ≥ 24) and the receiver. -/
def bfdDecSpec (old : BFD) (v : Bytes) : DecOut BFD :=
  if v.length ≠ (byteAt v 3).toNat then { layer := old, trunc := false, err := true }
  else authSpec (bfdHdr old v) (v.drop 24)

/-! ## 2. Go slices -/

theorem byteAt_drop (v : Bytes) (k i : Nat) : byteAt (v.drop k) i = byteAt v (k + i) := by
  simp [byteAt, List.getD_eq_getElem?_getD, List.getElem?_drop]

theorem GSlice.slice_ok (v t : Bytes) (a b : Nat) (hab : a ≤ b) (hb : b ≤ v.length) :
    GSlice.slice ⟨v, t⟩ a b = .ok { vis := (v.drop a).take (b - a), tail := v.drop b ++ t } := by
  unfold GSlice.slice GSlice.cap
  have h1 : a ≤ b ∧ b ≤ v.length + t.length := ⟨hab, by omega⟩
  simp only
  rw [if_pos h1]
  have ha : a ≤ v.length := by omega
  rw [List.drop_append_of_le_length ha, List.drop_append_of_le_length hb,
    List.take_append_of_le_length (by rw [List.length_drop]; omega)]

theorem GSlice.sliceFrom_ok (v t : Bytes) (a : Nat) (ha : a ≤ v.length) :
    GSlice.sliceFrom ⟨v, t⟩ a = .ok { vis := v.drop a, tail := t } := by
  unfold GSlice.sliceFrom GSlice.len; simp only; rw [if_pos ha]

theorem GSlice.index_ok (v t : Bytes) (i : Nat) (h : i < v.length) :
    GSlice.index ⟨v, t⟩ i = .ok (byteAt v i) := by
  unfold GSlice.index Gp.index byteAt
  simp [List.getD_eq_getElem?_getD, h]

/-- The four-byte window `[i, i+4)`. -/
theorem four_bytes (v : Bytes) (i : Nat) (h : i + 4 ≤ v.length) :
    (v.drop i).take 4 = [byteAt v i, byteAt v (i + 1), byteAt v (i + 2), byteAt v (i + 3)] := by
  have h0 : i < v.length := by omega
  have h1 : i + 1 < v.length := by omega
  have h2 : i + 2 < v.length := by omega
  have h3 : i + 3 < v.length := by omega
  have e : v.drop i = v[i] :: v[i+1] :: v[i+2] :: v[i+3] :: v.drop (i+4) := by
    rw [List.drop_eq_getElem_cons h0, List.drop_eq_getElem_cons h1, List.drop_eq_getElem_cons h2,
      List.drop_eq_getElem_cons h3]
  rw [e]
  simp only [byteAt, List.take_succ_cons, List.take_zero, List.getD_eq_getElem?_getD,
    List.getElem?_eq_getElem h0, List.getElem?_eq_getElem h1, List.getElem?_eq_getElem h2,
    List.getElem?_eq_getElem h3, Option.getD_some]

theorem uint32be_four (a b c d : UInt8) (t : Bytes) :
    uint32be { vis := [a, b, c, d], tail := t } = .ok (be32 a b c d) := by
  simp [uint32be, GSlice.index, Gp.index, bind, Res.bind, pure]

/-- `data[a:a+4]` of a long enough slice, read big-endian. -/
theorem read32 (v t : Bytes) (a : Nat) (h : a + 4 ≤ v.length) :
    (GSlice.slice ⟨v, t⟩ a (a + 4) >>= uint32be) = .ok (u32At v a) := by
  rw [GSlice.slice_ok v t a (a + 4) (by omega) h, Res.bind_ok]
  have : a + 4 - a = 4 := by omega
  rw [this, four_bytes v a h]
  exact uint32be_four _ _ _ _ _

theorem be32_lt (a b c d : UInt8) : be32 a b c d < 4294967296 := by
  have := a.toNat_lt; have := b.toNat_lt; have := c.toNat_lt; have := d.toNat_lt
  unfold be32; omega

theorem u32At_lt (v : Bytes) (i : Nat) : u32At v i < 4294967296 := be32_lt _ _ _ _

theorem minSize_eq : bfdMinimumRecordSizeInBytes = 24 := rfl

/-! ## 3. DecodeFromBytes = its functional specification -/

theorem decodeKeyed_eq (l : BFD) (h : AuthHeader) (w t : Bytes) :
    decodeKeyed Fix.all l h ⟨w, t⟩ = .ok (keyedSpec l h w) := by
  unfold decodeKeyed keyedSpec
  by_cases hl : w.length < 5
  · have : Fix.all.checkAuthLen = true ∧ GSlice.len ⟨w, t⟩ < 5 := ⟨rfl, hl⟩
    rw [if_pos this, if_pos hl]
  · have : ¬ (Fix.all.checkAuthLen = true ∧ GSlice.len ⟨w, t⟩ < 5) := fun hh => hl hh.2
    rw [if_neg this, if_neg hl]
    rw [GSlice.sliceFrom_ok w t 5 (by omega), Res.bind_ok]
    have := read32 w t 1 (by omega)
    simp only [bind] at this ⊢
    generalize GSlice.slice ⟨w, t⟩ 1 (1 + 4) = r at this
    cases r with
    | ok s =>
      simp only [Res.bind] at this ⊢
      rw [this]; rfl
    | err k => simp [Res.bind] at this
    | panic k => simp [Res.bind] at this

theorem decodeAuth_eq (l : BFD) (w t : Bytes) :
    decodeAuth Fix.all l ⟨w, t⟩ = .ok (authSpec l w) := by
  unfold decodeAuth authSpec authSpec0
  simp only [show Fix.all.resetAuth = true from rfl, if_true]
  by_cases hc : l.authPresent = true ∧ w.length > 2
  · have hc' : l.authPresent = true ∧ GSlice.len ⟨w, t⟩ > 2 := hc
    rw [if_pos hc', if_pos hc]
    have h1 : (w.drop 1).length = w.length - 1 := List.length_drop
    have h2 : ((w.drop 1).drop 1).length = w.length - 2 := by rw [List.length_drop, List.length_drop]; omega
    rw [GSlice.sliceFrom_ok w t 1 (by omega), Res.bind_ok, GSlice.index_ok w t 0 (by omega), Res.bind_ok,
      GSlice.sliceFrom_ok (w.drop 1) t 1 (by omega), Res.bind_ok, GSlice.index_ok (w.drop 1) t 0 (by omega), Res.bind_ok,
      GSlice.sliceFrom_ok ((w.drop 1).drop 1) t 1 (by omega), Res.bind_ok,
      GSlice.index_ok ((w.drop 1).drop 1) t 0 (by omega), Res.bind_ok]
    simp only [List.drop_drop, byteAt_drop, decodeKeyed_eq, AuthHeader.zero, pure, Nat.reduceAdd]
    split
    · rfl
    · split
      · rfl
      · split <;> rfl
  · have hc' : ¬ (l.authPresent = true ∧ GSlice.len ⟨w, t⟩ > 2) := hc
    rw [if_neg hc', if_neg hc]; rfl

theorem uint32be_vis (v t : Bytes) (i : Nat) (h : i + 4 ≤ v.length) :
    uint32be { vis := (v.drop i).take 4, tail := t } = .ok (u32At v i) := by
  rw [four_bytes v i h]; exact uint32be_four _ _ _ _ _

theorem BFD.decode_short (old : BFD) (d : GSlice) (h : d.len < 24) :
    old.decodeFromBytes d = .ok { layer := old, trunc := true, err := true } := by
  unfold BFD.decodeFromBytes BFD.decodeWith; rw [minSize_eq, if_pos h]

/-- One 32-bit field: `data, x = data[4:], Uint32(data[:4])` at offset `k`. -/
theorem step32 {β} (v t : Bytes) (k : Nat) (h : k + 4 ≤ v.length) (f : GSlice → Nat → Res β) :
    (GSlice.sliceFrom ⟨v.drop k, t⟩ 4 >>= fun d' => GSlice.slice ⟨v.drop k, t⟩ 0 4 >>= fun s => uint32be s >>= fun x => f d' x)
      = f ⟨v.drop (k + 4), t⟩ (u32At v k) := by
  have hl : (v.drop k).length = v.length - k := List.length_drop
  rw [GSlice.sliceFrom_ok (v.drop k) t 4 (by omega), Res.bind_ok,
    GSlice.slice_ok (v.drop k) t 0 4 (by omega) (by omega), Res.bind_ok]
  simp only [Nat.sub_zero, List.drop_drop, Nat.add_zero]
  rw [uint32be_vis v _ k h, Res.bind_ok]

/-- `BFD.DecodeFromBytes` on at least 24 bytes = its specification, for every receiver, capacity and
    foreign bytes. -/
theorem BFD.decode_long (old : BFD) (v t : Bytes) (h : 24 ≤ v.length) :
    old.decodeFromBytes ⟨v, t⟩ = .ok (bfdDecSpec old v) := by
  unfold BFD.decodeFromBytes BFD.decodeWith bfdDecSpec
  have hlen : GSlice.len ⟨v, t⟩ = v.length := rfl
  rw [minSize_eq, hlen, if_neg (by omega), GSlice.index_ok v t 3 (by omega), Res.bind_ok]
  by_cases hm : v.length ≠ (byteAt v 3).toNat
  · rw [if_pos hm, if_pos hm]; rfl
  · rw [if_neg hm, if_neg hm]
    rw [GSlice.slice_ok v t 0 v.length (by omega) (by omega), Res.bind_ok]
    simp only [GSlice.index_ok v t 0 (by omega), Res.bind_ok]
    rw [GSlice.sliceFrom_ok v t 1 (by omega), Res.bind_ok]
    have l1 : (v.drop 1).length = v.length - 1 := List.length_drop
    simp only [GSlice.index_ok (v.drop 1) t 0 (by omega), Res.bind_ok]
    rw [GSlice.sliceFrom_ok (v.drop 1) t 1 (by omega), Res.bind_ok]
    simp only [List.drop_drop, Nat.reduceAdd]
    have l2 : (v.drop 2).length = v.length - 2 := List.length_drop
    rw [GSlice.sliceFrom_ok (v.drop 2) t 1 (by omega), Res.bind_ok, GSlice.index_ok (v.drop 2) t 0 (by omega), Res.bind_ok]
    simp only [List.drop_drop, Nat.reduceAdd]
    have l3 : (v.drop 3).length = v.length - 3 := List.length_drop
    rw [GSlice.sliceFrom_ok (v.drop 3) t 1 (by omega), Res.bind_ok, GSlice.index_ok (v.drop 3) t 0 (by omega), Res.bind_ok]
    simp only [List.drop_drop, Nat.reduceAdd]
    rw [step32 v t 4 (by omega), step32 v t 8 (by omega), step32 v t 12 (by omega), step32 v t 16 (by omega),
      step32 v t 20 (by omega)]
    rw [decodeAuth_eq]
    simp only [List.drop_zero, Nat.sub_zero, List.take_length, byteAt_drop, Nat.add_zero, Nat.reduceAdd]
    rfl

/-- Both cases at once, for a slice given as a whole. -/
theorem BFD.decode_eq (old : BFD) (d : GSlice) :
    old.decodeFromBytes d =
      .ok (if d.len < 24 then { layer := old, trunc := true, err := true } else bfdDecSpec old d.vis) := by
  by_cases h : d.len < 24
  · rw [if_pos h]; exact BFD.decode_short old d h
  · rw [if_neg h]
    obtain ⟨v, t⟩ := d
    exact BFD.decode_long old v t (by unfold GSlice.len at h; simp only at h; omega)

/-! ## 4. Facts about the specification -/

/-- Whatever the receiver held: the authentication section is decoded into the same layer. -/
theorem authSpec_hdr_indep (o1 o2 : BFD) (v w : Bytes) : authSpec (bfdHdr o1 v) w = authSpec (bfdHdr o2 v) w := rfl

/-- When the Length byte matches, the whole outcome (also of the keyed error path) is a function of
    the bytes alone. -/
theorem bfdDecSpec_indep (o1 o2 : BFD) (v : Bytes) (h : v.length = (byteAt v 3).toNat) :
    bfdDecSpec o1 v = bfdDecSpec o2 v := by
  unfold bfdDecSpec
  rw [if_neg (by omega), if_neg (by omega)]
  exact authSpec_hdr_indep o1 o2 v _

theorem bfdDecSpec_err_indep (o1 o2 : BFD) (v : Bytes) :
    (bfdDecSpec o1 v).err = (bfdDecSpec o2 v).err ∧ (bfdDecSpec o1 v).trunc = (bfdDecSpec o2 v).trunc ∧
    ((bfdDecSpec o1 v).err = false → (bfdDecSpec o1 v).layer = (bfdDecSpec o2 v).layer) := by
  by_cases h : v.length = (byteAt v 3).toNat
  · rw [bfdDecSpec_indep o1 o2 v h]; exact ⟨rfl, rfl, fun _ => rfl⟩
  · unfold bfdDecSpec
    rw [if_pos h, if_pos h]
    exact ⟨rfl, rfl, fun hh => by cases hh⟩

theorem keyedSpec_base (l : BFD) (h : AuthHeader) (w : Bytes) :
    (keyedSpec l h w).layer.contents = l.contents ∧ (keyedSpec l h w).layer.payload = l.payload := by
  unfold keyedSpec; split <;> exact ⟨rfl, rfl⟩

theorem authSpec0_base (l0 : BFD) (w : Bytes) :
    (authSpec0 l0 w).layer.contents = l0.contents ∧ (authSpec0 l0 w).layer.payload = l0.payload := by
  unfold authSpec0
  split
  · simp only
    split
    · exact ⟨rfl, rfl⟩
    · split
      · exact keyedSpec_base _ _ _
      · split
        · exact keyedSpec_base _ _ _
        · exact ⟨rfl, rfl⟩
  · exact ⟨rfl, rfl⟩

/-- A decoded BFD layer: Contents = the whole input, Payload = nil. -/
theorem bfdDecSpec_base (old : BFD) (v : Bytes) (h : (bfdDecSpec old v).err = false) :
    (bfdDecSpec old v).layer.contents = v ∧ (bfdDecSpec old v).layer.payload = [] := by
  unfold bfdDecSpec at h ⊢
  by_cases hm : v.length ≠ (byteAt v 3).toNat
  · rw [if_pos hm] at h; cases h
  · rw [if_neg hm]
    exact authSpec0_base _ _

end Gp.Bfd
