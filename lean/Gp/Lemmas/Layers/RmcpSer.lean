import Gp.Lemmas.Layers.RmcpMdp
/-
  Helper lemmas for engine `lrmcp`, part 2: serialization over the C18 buffer model.  Core Lean only.

  Section 1 holds the *definitions* used in property statements (functional specifications of the
  SerializeTo methods, the observable view `serView`); the rest is proof machinery.
-/
namespace Gp.Rmcp
open Gp Gp.SBuf Gp.C18 Gp.Gen.Rmcp

/-! ## 1. Definitions used in property statements -/

/-- Functional specification of a SerializeTo call: the receiver afterwards, whether an error was
    returned, and (when not) the bytes the buffer then holds. -/
structure SerSpec (L : Type) where
  layer : L
  err   : Bool
  bytes : Bytes
  deriving Repr, DecidableEq

/-- What a caller can observe of a SerializeTo call: the receiver afterwards, the error flag and,
    when no error was returned, the bytes in the buffer (`Bytes()`); not the buffer's internals. -/
def serView {L : Type} (r : Res (SerOut L)) : Res (SerSpec L) :=
  match r with
  | .ok o => .ok { layer := o.layer, err := o.err, bytes := if o.err then [] else SBuf.contents o.buf }
  | .err k => .err k
  | .panic k => .panic k

/-- The fourth RMCP header byte: `bool2uint8(r.Ack)<<7 | uint8(r.Class)`. -/
def rmcpByte3 (l : RMCP) : Nat := ((bool2uint8 l.ack <<< 7) % 256) ||| (l.cls % 256)

/-- The four bytes `RMCP.SerializeTo` writes. -/
def rmcpEncode (l : RMCP) : Bytes := [u8 l.version, 0, u8 l.sequence, u8 (rmcpByte3 l)]

def rmcpSerSpec (l : RMCP) (p : Bytes) : SerSpec RMCP := { layer := l, err := false, bytes := rmcpEncode l ++ p }

/-- The ASF receiver after the FixLengths assignment (`a.Length = uint8(len(payload))`). -/
def asfFixed (l : ASF) (p : Bytes) (fix : Bool) : ASF := if fix then { l with length := p.length % 256 } else l

/-- The eight bytes `ASF.SerializeTo` writes for the layer `l`. -/
def asfEncode (l : ASF) : Bytes := putBe32 l.enterprise ++ [u8 l.typ, u8 l.tag, 0, u8 l.length]

def asfSerSpec (l : ASF) (p : Bytes) (fix : Bool) : SerSpec ASF :=
  { layer := asfFixed l p fix, err := false, bytes := asfEncode (asfFixed l p fix) ++ p }

def agueSerSpec (l : AGUE) (p : Bytes) : SerSpec AGUE := { layer := l, err := false, bytes := l.layerContents ++ p }

def mdpSerSpec (l : MDP) (p : Bytes) : SerSpec MDP := { layer := l, err := false, bytes := p }

/-! ## 2. Writing a window front to back -/

/-- A store of `vs` through a current window positioned right behind the already written prefix `W`
    of the contents replaces the next `|vs|` bytes. -/
theorem fill_next (b : SBuf) (h : Inv b) (w : Win) (W R vs : Bytes)
    (hg : w.gen = b.gen) (ho : w.off = b.start + W.length) (hc : contents b = W ++ R)
    (hv : vs.length ≤ R.length) :
    contents (fill b w vs) = (W ++ vs) ++ R.drop vs.length ∧ Inv (fill b w vs) ∧
    (fill b w vs).start = b.start ∧ (fill b w vs).gen = b.gen := by
  have hcl := contents_length b h
  rw [hc, List.length_append] at hcl
  have h' := h
  obtain ⟨i1, i2, i3⟩ := h
  have h1 : b.start ≤ w.off := by omega
  have h2 : w.off + vs.length ≤ b.len := by omega
  refine ⟨?_, inv_fill' b w vs h' (by omega), (fill_fields b w vs).1, (fill_fields b w vs).2.2.2.1⟩
  rw [fill_contents b w vs h' hg h1 h2, hc]
  have : w.off - b.start = W.length := by omega
  rw [this, List.take_left' rfl, List.drop_length_add_append]

/-- The same for a single indexed store `w[i] = v`. -/
theorem write_next (b : SBuf) (h : Inv b) (w : Win) (i : Nat) (v : UInt8) (W R : Bytes)
    (hg : w.gen = b.gen) (hi : i < w.n) (ho : w.off + i = b.start + W.length)
    (hc : contents b = W ++ R) (hr : 1 ≤ R.length) :
    ∃ b', write b w i v = .ok b' ∧ contents b' = (W ++ [v]) ++ R.drop 1 ∧ Inv b' ∧
      b'.start = b.start ∧ b'.gen = b.gen := by
  refine ⟨_, write_current b w i v hg hi, ?_, inv_set b _ v h, rfl, rfl⟩
  rw [contents_set b (w.off + i) v (by omega), hc]
  have : w.off + i - b.start = W.length := by omega
  rw [this]
  cases R with
  | nil => simp at hr
  | cons r rs => simp

/-- An in-range indexed store returns, whichever generation the window belongs to. -/
theorem write_ok (b : SBuf) (w : Win) (i : Nat) (v : UInt8) (hi : i < w.n) : ∃ b', write b w i v = .ok b' := by
  unfold write
  rw [if_pos hi]
  split
  · exact ⟨_, rfl⟩
  · exact ⟨_, rfl⟩

theorem putBe32_length (v : Nat) : (putBe32 v).length = 4 := rfl

/-- What is known about the buffer and the window right after `PrependBytes(n)`. -/
theorem prepend_facts (b : SBuf) (n : Nat) (h : Inv b) :
    Inv (prepend b n).1 ∧ (prepend b n).2.n = n ∧ (prepend b n).2.gen = (prepend b n).1.gen ∧
    (prepend b n).2.off = (prepend b n).1.start ∧
    (contents (prepend b n).1).length = n + (contents b).length ∧
    (contents (prepend b n).1).drop n = contents b :=
  ⟨inv_prepend' b n h, rfl, rfl, rfl, prepend_contents_length b n h, prepend_contents_drop b n h⟩

/-! ## 3. RMCP -/

theorem rmcp_serializeTo_refines (l : RMCP) (b : SBuf) (fix csum : Bool) (h : Inv b) :
    ∃ o, l.serializeTo b fix csum = .ok o ∧ Inv o.buf ∧ o.layer = l ∧ o.err = false ∧
      contents o.buf = rmcpEncode l ++ contents b := by
  unfold RMCP.serializeTo
  obtain ⟨hi1, hn, hgen, hoff, hlen, hdrop⟩ := prepend_facts b 4 h
  generalize prepend b 4 = r at hi1 hn hgen hoff hlen hdrop
  obtain ⟨b1, w⟩ := r
  simp only at hi1 hn hgen hoff hlen hdrop
  obtain ⟨b2, e2, c2, i2, s2, g2⟩ := write_next b1 hi1 w 0 (u8 l.version) [] (contents b1) hgen (by omega)
    (by simpa using hoff) rfl (by omega)
  rw [List.nil_append] at c2
  obtain ⟨b3, e3, c3, i3, s3, g3⟩ := write_next b2 i2 w 1 0 [u8 l.version] ((contents b1).drop 1) (by omega) (by omega)
    (by simp only [List.length_singleton]; omega) c2 (by rw [List.length_drop]; omega)
  rw [List.drop_drop] at c3
  obtain ⟨b4, e4, c4, i4, s4, g4⟩ := write_next b3 i3 w 2 (u8 l.sequence) ([u8 l.version] ++ [0]) ((contents b1).drop (1 + 1))
    (by omega) (by omega) (by simp only [List.length_append, List.length_singleton]; omega) c3
    (by rw [List.length_drop]; omega)
  rw [List.drop_drop] at c4
  obtain ⟨b5, e5, c5, i5, s5, g5⟩ := write_next b4 i4 w 3 (u8 (rmcpByte3 l)) ([u8 l.version] ++ [0] ++ [u8 l.sequence])
    ((contents b1).drop (1 + 1 + 1)) (by omega) (by omega)
    (by simp only [List.length_append, List.length_singleton]; omega) c4 (by rw [List.length_drop]; omega)
  rw [List.drop_drop] at c5
  simp only [e2, Res.bind_ok, e3, e4]
  have e5' : write b4 w 3 (u8 (bool2uint8 l.ack <<< 7 % 256 ||| l.cls % 256)) = .ok b5 := e5
  rw [e5', Res.bind_ok]
  refine ⟨_, rfl, i5, rfl, rfl, ?_⟩
  simp only [pure]
  rw [c5, hdrop]; rfl

theorem rmcp_serializeTo_no_panic (l : RMCP) (b : SBuf) (fix csum : Bool) (k : PanicKind) :
    l.serializeTo b fix csum ≠ .panic k := by
  unfold RMCP.serializeTo
  have hn : (prepend b 4).2.n = 4 := rfl
  generalize prepend b 4 = r at hn
  obtain ⟨b1, w⟩ := r
  simp only at hn
  obtain ⟨b2, e2⟩ := write_ok b1 w 0 (u8 l.version) (by omega)
  obtain ⟨b3, e3⟩ := write_ok b2 w 1 0 (by omega)
  obtain ⟨b4, e4⟩ := write_ok b3 w 2 (u8 l.sequence) (by omega)
  obtain ⟨b5, e5⟩ := write_ok b4 w 3 (u8 (bool2uint8 l.ack <<< 7 % 256 ||| l.cls % 256)) (by omega)
  simp only [e2, Res.bind_ok, e3, e4, e5, pure]
  exact fun h => nomatch h

/-! ## 4. ASF -/

/-- The stores of `ASF.SerializeTo` on the layer `l'` they write (the receiver after FixLengths). -/
def asfStores (l' : ASF) (b1 : SBuf) (bytes : Win) : Res (SerOut ASF) := do
  let w ← winTo bytes 4
  let b ← putUint32be b1 w l'.enterprise
  let b ← write b bytes 4 (u8 l'.typ)
  let b ← write b bytes 5 (u8 l'.tag)
  let b ← write b bytes 6 0
  let b ← write b bytes 7 (u8 l'.length)
  pure { buf := b, layer := l', err := false }

/-- `ASF.serializeTo` = take the payload, PrependBytes(8), then `asfStores` on the fixed receiver (the
    FixLengths assignment touches only Length, which is stored last). -/
theorem asf_serializeTo_eq (l : ASF) (b : SBuf) (fix csum : Bool) :
    l.serializeTo b fix csum = asfStores (asfFixed l (contents b) fix) (prepend b 8).1 (prepend b 8).2 := by
  unfold ASF.serializeTo asfStores asfFixed
  cases fix <;> rfl

theorem asf_stores_refines (l' : ASF) (b : SBuf) (h : Inv b) :
    ∃ o, asfStores l' (prepend b 8).1 (prepend b 8).2 = .ok o ∧ Inv o.buf ∧ o.layer = l' ∧ o.err = false ∧
      contents o.buf = asfEncode l' ++ contents b := by
  obtain ⟨hi1, hn, hgen, hoff, hlen, hdrop⟩ := prepend_facts b 8 h
  generalize prepend b 8 = r at hi1 hn hgen hoff hlen hdrop
  obtain ⟨b1, w⟩ := r
  simp only at hi1 hn hgen hoff hlen hdrop
  unfold asfStores
  have hw : winTo w 4 = .ok { gen := w.gen, off := w.off, n := 4 } := by unfold winTo; rw [if_pos (by omega)]
  rw [hw, Res.bind_ok]
  have hp : putUint32be b1 { gen := w.gen, off := w.off, n := 4 } l'.enterprise =
      .ok (fill b1 { gen := w.gen, off := w.off, n := 4 } (putBe32 l'.enterprise)) := by
    unfold putUint32be; rw [if_neg (by simp)]
  rw [hp, Res.bind_ok]
  obtain ⟨c1, i1, s1, g1⟩ := fill_next b1 hi1 { gen := w.gen, off := w.off, n := 4 } [] (contents b1) (putBe32 l'.enterprise)
    hgen (by simpa using hoff) rfl (by rw [putBe32_length]; omega)
  rw [List.nil_append, putBe32_length] at c1
  obtain ⟨b3, e3, c3, i3, s3, g3⟩ := write_next _ i1 w 4 (u8 l'.typ) (putBe32 l'.enterprise) ((contents b1).drop 4)
    (by omega) (by omega) (by rw [putBe32_length]; omega) c1 (by rw [List.length_drop]; omega)
  rw [List.drop_drop] at c3
  obtain ⟨b4, e4, c4, i4, s4, g4⟩ := write_next b3 i3 w 5 (u8 l'.tag) (putBe32 l'.enterprise ++ [u8 l'.typ])
    ((contents b1).drop (4 + 1)) (by omega) (by omega)
    (by simp only [List.length_append, putBe32_length, List.length_singleton]; omega) c3 (by rw [List.length_drop]; omega)
  rw [List.drop_drop] at c4
  obtain ⟨b5, e5, c5, i5, s5, g5⟩ := write_next b4 i4 w 6 0 (putBe32 l'.enterprise ++ [u8 l'.typ] ++ [u8 l'.tag])
    ((contents b1).drop (4 + 1 + 1)) (by omega) (by omega)
    (by simp only [List.length_append, putBe32_length, List.length_singleton]; omega) c4 (by rw [List.length_drop]; omega)
  rw [List.drop_drop] at c5
  obtain ⟨b6, e6, c6, i6, s6, g6⟩ := write_next b5 i5 w 7 (u8 l'.length)
    (putBe32 l'.enterprise ++ [u8 l'.typ] ++ [u8 l'.tag] ++ [0])
    ((contents b1).drop (4 + 1 + 1 + 1)) (by omega) (by omega)
    (by simp only [List.length_append, putBe32_length, List.length_singleton]; omega) c5 (by rw [List.length_drop]; omega)
  rw [List.drop_drop] at c6
  rw [e3, Res.bind_ok, e4, Res.bind_ok, e5, Res.bind_ok, e6, Res.bind_ok]
  refine ⟨_, rfl, i6, rfl, rfl, ?_⟩
  simp only [pure]
  rw [c6, hdrop]
  simp [asfEncode, List.append_assoc]

theorem asf_serializeTo_refines (l : ASF) (b : SBuf) (fix csum : Bool) (h : Inv b) :
    ∃ o, l.serializeTo b fix csum = .ok o ∧ Inv o.buf ∧ o.layer = asfFixed l (contents b) fix ∧ o.err = false ∧
      contents o.buf = asfEncode (asfFixed l (contents b) fix) ++ contents b := by
  rw [asf_serializeTo_eq]
  exact asf_stores_refines _ b h

theorem asf_serializeTo_no_panic (l : ASF) (b : SBuf) (fix csum : Bool) (k : PanicKind) :
    l.serializeTo b fix csum ≠ .panic k := by
  rw [asf_serializeTo_eq]
  have hn : (prepend b 8).2.n = 8 := rfl
  generalize prepend b 8 = r at hn
  obtain ⟨b1, w⟩ := r
  simp only at hn
  unfold asfStores
  have hw : winTo w 4 = .ok { gen := w.gen, off := w.off, n := 4 } := by unfold winTo; rw [if_pos (by omega)]
  rw [hw, Res.bind_ok]
  have hp : ∀ v, putUint32be b1 { gen := w.gen, off := w.off, n := 4 } v =
      .ok (fill b1 { gen := w.gen, off := w.off, n := 4 } (putBe32 v)) := by
    intro v; unfold putUint32be; rw [if_neg (by simp)]
  rw [hp, Res.bind_ok]
  obtain ⟨b3, e3⟩ := write_ok (fill b1 { gen := w.gen, off := w.off, n := 4 } (putBe32 (asfFixed l (contents b) fix).enterprise)) w 4
    (u8 (asfFixed l (contents b) fix).typ) (by omega)
  obtain ⟨b4, e4⟩ := write_ok b3 w 5 (u8 (asfFixed l (contents b) fix).tag) (by omega)
  obtain ⟨b5, e5⟩ := write_ok b4 w 6 0 (by omega)
  obtain ⟨b6, e6⟩ := write_ok b5 w 7 (u8 (asfFixed l (contents b) fix).length) (by omega)
  rw [e3, Res.bind_ok, e4, Res.bind_ok, e5, Res.bind_ok, e6, Res.bind_ok]
  exact fun h => nomatch h

/-! ## 5. AGUEVar0, MDP -/

theorem ague_serializeTo_refines (l : AGUE) (b : SBuf) (fix csum : Bool) (h : Inv b) :
    ∃ o, l.serializeTo b fix csum = .ok o ∧ Inv o.buf ∧ o.layer = l ∧ o.err = false ∧
      contents o.buf = l.layerContents ++ contents b := by
  unfold AGUE.serializeTo
  simp only
  obtain ⟨hi1, hn, hgen, hoff, hlen, hdrop⟩ := prepend_facts b l.layerContents.length h
  generalize prepend b l.layerContents.length = r at hi1 hn hgen hoff hlen hdrop
  obtain ⟨b1, w⟩ := r
  simp only at hi1 hn hgen hoff hlen hdrop
  have ht : l.layerContents.take w.n = l.layerContents := List.take_of_length_le (by omega)
  obtain ⟨c, i, -, -⟩ := fill_next b1 hi1 w [] (contents b1) l.layerContents hgen (by simpa using hoff) rfl (by omega)
  refine ⟨_, rfl, ?_, rfl, rfl, ?_⟩
  · simp only [copyTo, ht]; exact i
  · simp only [copyTo, ht]
    rw [c, hdrop, List.nil_append]

theorem ague_serializeTo_no_panic (l : AGUE) (b : SBuf) (fix csum : Bool) (k : PanicKind) :
    l.serializeTo b fix csum ≠ .panic k := by
  unfold AGUE.serializeTo
  exact fun h => nomatch h

theorem mdp_serializeTo_no_panic (l : MDP) (b : SBuf) (fix csum : Bool) (k : PanicKind) :
    l.serializeTo b fix csum ≠ .panic k := by
  unfold MDP.serializeTo
  exact fun h => nomatch h

/-! ## 6. Observable view -/

theorem serView_of_refines {L : Type} (r : Res (SerOut L)) (s : SerSpec L)
    (hs : s.err = true → s.bytes = [])
    (h : ∃ o, r = .ok o ∧ o.layer = s.layer ∧ o.err = s.err ∧ (s.err = false → SBuf.contents o.buf = s.bytes)) :
    serView r = .ok s := by
  obtain ⟨o, ho, hl, he, hb⟩ := h
  rw [ho]
  unfold serView
  simp only
  congr 1
  cases s with
  | mk sl se sb =>
    simp only at hl he hb hs
    cases se
    · simp only [he, hl, hb rfl]; rfl
    · simp only [he, hl, hs rfl]; rfl

theorem rmcp_serView (l : RMCP) (b : SBuf) (fix csum : Bool) (h : Inv b) :
    serView (l.serializeTo b fix csum) = .ok (rmcpSerSpec l (SBuf.contents b)) := by
  obtain ⟨o, ho, -, hl, he, hb⟩ := rmcp_serializeTo_refines l b fix csum h
  exact serView_of_refines _ _ (fun hh => by cases hh) ⟨o, ho, hl, he, fun _ => hb⟩

theorem asf_serView (l : ASF) (b : SBuf) (fix csum : Bool) (h : Inv b) :
    serView (l.serializeTo b fix csum) = .ok (asfSerSpec l (SBuf.contents b) fix) := by
  obtain ⟨o, ho, -, hl, he, hb⟩ := asf_serializeTo_refines l b fix csum h
  exact serView_of_refines _ _ (fun hh => by cases hh) ⟨o, ho, hl, he, fun _ => hb⟩

theorem ague_serView (l : AGUE) (b : SBuf) (fix csum : Bool) (h : Inv b) :
    serView (l.serializeTo b fix csum) = .ok (agueSerSpec l (SBuf.contents b)) := by
  obtain ⟨o, ho, -, hl, he, hb⟩ := ague_serializeTo_refines l b fix csum h
  exact serView_of_refines _ _ (fun hh => by cases hh) ⟨o, ho, hl, he, fun _ => hb⟩

theorem mdp_serView (l : MDP) (b : SBuf) (fix csum : Bool) :
    serView (l.serializeTo b fix csum) = .ok (mdpSerSpec l (SBuf.contents b)) := rfl

theorem asfFixed_idem (l : ASF) (p : Bytes) (fix : Bool) : asfFixed (asfFixed l p fix) p fix = asfFixed l p fix := by
  unfold asfFixed; cases fix <;> rfl

end Gp.Rmcp
