import Gp.Lemmas.Layers.Ppp
/-
  Helper lemmas for engine `lppp`, part 2: serialization over the C18 buffer model.  Core Lean only.

  Section 1 holds the *definitions* that occur in the statements of the property theorems
  (functional specifications of the three SerializeTo methods, the observable view); the rest is
  proof machinery.
-/
namespace Gp.Ppp
open Gp Gp.SBuf Gp.C18 Gp.Gen.Ppp

/-! ## 1. Definitions used in property statements -/

/-- Functional specification of a SerializeTo call: the receiver afterwards, whether an error was
    returned, and (when not) the bytes the buffer then holds. -/
structure SerSpec (L : Type) where
  layer : L
  err   : Bool
  bytes : Bytes
  deriving Repr, DecidableEq

/-- What a caller can observe of a SerializeTo call: the receiver afterwards, the error flag and,
    when no error was returned, the bytes in the buffer (`Bytes()`); not the buffer's internals. -/
def serView {L : Type} (r : Res (SerOut L)) : Res (SerSpec L) :=
  match r with
  | .ok o => .ok { layer := o.layer, err := o.err, bytes := if o.err then [] else SBuf.contents o.buf }
  | .err k => .err k
  | .panic k => .panic k

/-- The protocol field as `PPP.SerializeTo` writes it: two bytes when bit 0x100 of the type is
    clear, otherwise ONE byte (the low byte). -/
def pppTypeBytes (t : Nat) : Bytes :=
  if t &&& 0x100 = 0 then putBe16 (t % 65536) else [u8 (t % 256)]

/-- The PPP header: optional HDLC address/control bytes `ff 03`, then the protocol field. -/
def pppHdrBytes (l : PPP) : Bytes :=
  (if l.hasPPTPHeader then [u8 0xff, u8 0x03] else []) ++ pppTypeBytes l.pppType

def pppSerSpec (l : PPP) (p : Bytes) : SerSpec PPP :=
  { layer := l, err := false, bytes := pppHdrBytes l ++ p }

/-- The PPPoE layer after SerializeTo: FixLengths stores `uint16(len(payload))` in Length. -/
def pppoeFixed (l : PPPoE) (p : Bytes) (fix : Bool) : PPPoE :=
  if fix then { l with length := p.length % 65536 } else l

/-- The six PPPoE header bytes (uint8 arithmetic: `p.Version << 4` wraps, `p.Type` is not masked). -/
def pppoeHdrBytes (l : PPPoE) : Bytes :=
  [u8 (((l.version <<< 4) % 256) ||| (l.type % 256)), u8 (l.code % 256)] ++
    putBe16 (l.sessionId % 65536) ++ putBe16 (l.length % 65536)

def pppoeSerSpec (l : PPPoE) (p : Bytes) (fix : Bool) : SerSpec PPPoE :=
  { layer := pppoeFixed l p fix, err := false, bytes := pppoeHdrBytes (pppoeFixed l p fix) ++ p }

def mplsSerSpec (l : MPLS) (p : Bytes) : SerSpec MPLS :=
  { layer := l, err := false, bytes := putBe32 l.encode ++ p }

/-! ## 2. The buffer after each SerializeTo, for EVERY buffer state (no invariant needed) -/

/-- The window `bytes[i:i+1]` of a window. -/
def win1 (w : Win) (i : Nat) : Win := { gen := w.gen, off := w.off + i, n := 1 }
def winAt (w : Win) (a : Nat) : Win := { gen := w.gen, off := w.off + a, n := w.n - a }

def pppSerBuf (l : PPP) (b : SBuf) : SBuf :=
  let b1 :=
    if l.pppType &&& 0x100 = 0 then fill (prepend b 2).1 (prepend b 2).2 (putBe16 (l.pppType % 65536))
    else fill (prepend b 1).1 (win1 (prepend b 1).2 0) [u8 (l.pppType % 256)]
  if l.hasPPTPHeader then
    fill (fill (prepend b1 2).1 (win1 (prepend b1 2).2 0) [u8 0xff]) (win1 (prepend b1 2).2 1) [u8 0x03]
  else b1

def pppoeSerBuf (l : PPPoE) (b : SBuf) (fix : Bool) : SBuf :=
  let b1 := (prepend b 6).1
  let w := (prepend b 6).2
  let l' := pppoeFixed l (SBuf.contents b) fix
  let b2 := fill b1 (win1 w 0) [u8 (((l.version <<< 4) % 256) ||| (l.type % 256))]
  let b3 := fill b2 (win1 w 1) [u8 (l.code % 256)]
  let b4 := fill b3 (winAt w 2) (putBe16 (l.sessionId % 65536))
  fill b4 (winAt w 4) (putBe16 (l'.length % 65536))

def mplsSerBuf (l : MPLS) (b : SBuf) : SBuf :=
  fill (prepend b 4).1 (prepend b 4).2 (putBe32 l.encode)

theorem store_ok (b : SBuf) (w : Win) (i v : Nat) (h : i < w.n) :
    store b w i v = .ok (fill b (win1 w i) [u8 v]) := by
  unfold store win1; rw [if_pos h]

theorem putUint16_ok (b : SBuf) (w : Win) (v : Nat) (h : 2 ≤ w.n) :
    putUint16 b w v = .ok (fill b w (putBe16 v)) := by
  unfold putUint16; rw [if_neg (by omega)]

theorem putUint32_ok (b : SBuf) (w : Win) (v : Nat) (h : 4 ≤ w.n) :
    putUint32 b w v = .ok (fill b w (putBe32 v)) := by
  unfold putUint32; rw [if_neg (by omega)]

theorem winFrom_ok (w : Win) (a : Nat) (h : a ≤ w.n) : winFrom w a = .ok (winAt w a) := by
  unfold winFrom winAt; rw [if_pos h]

theorem prepend_n (b : SBuf) (n : Nat) : (prepend b n).2.n = n := rfl

/-- `PPP.SerializeTo` always returns nil, never modifies its receiver, and leaves `pppSerBuf`. -/
theorem ppp_serializeTo_eq (l : PPP) (b : SBuf) (fix csum : Bool) :
    l.serializeTo b fix csum = .ok { buf := pppSerBuf l b, layer := l, err := false } := by
  unfold PPP.serializeTo pppSerBuf
  by_cases ht : l.pppType &&& 0x100 = 0
  · simp only [ht, if_true]
    rw [putUint16_ok _ _ _ (by rw [prepend_n]; omega), Res.bind_ok]
    cases l.hasPPTPHeader
    · simp only [Bool.false_eq_true, if_false, pure]
    · simp only [if_true]
      rw [store_ok _ _ 0 _ (by rw [prepend_n]; omega), Res.bind_ok,
        store_ok _ _ 1 _ (by rw [prepend_n]; omega), Res.bind_ok]
      rfl
  · simp only [ht, if_false]
    rw [store_ok _ _ 0 _ (by rw [prepend_n]; omega), Res.bind_ok]
    cases l.hasPPTPHeader
    · simp only [Bool.false_eq_true, if_false, pure]
    · simp only [if_true]
      rw [store_ok _ _ 0 _ (by rw [prepend_n]; omega), Res.bind_ok,
        store_ok _ _ 1 _ (by rw [prepend_n]; omega), Res.bind_ok]
      rfl

theorem pppoe_serializeTo_eq (l : PPPoE) (b : SBuf) (fix csum : Bool) :
    l.serializeTo b fix csum =
      .ok { buf := pppoeSerBuf l b fix, layer := pppoeFixed l (SBuf.contents b) fix, err := false } := by
  unfold PPPoE.serializeTo pppoeSerBuf
  simp only
  rw [store_ok _ _ 0 _ (by rw [prepend_n]; omega), Res.bind_ok,
    store_ok _ _ 1 _ (by rw [prepend_n]; omega), Res.bind_ok,
    winFrom_ok _ 2 (by rw [prepend_n]; omega), Res.bind_ok,
    putUint16_ok _ _ _ (by simp only [winAt, prepend_n]; omega), Res.bind_ok,
    winFrom_ok _ 4 (by rw [prepend_n]; omega), Res.bind_ok,
    putUint16_ok _ _ _ (by simp only [winAt, prepend_n]; omega), Res.bind_ok]
  rfl

theorem mpls_serializeTo_eq (l : MPLS) (b : SBuf) (fix csum : Bool) :
    l.serializeTo b fix csum = .ok { buf := mplsSerBuf l b, layer := l, err := false } := by
  unfold MPLS.serializeTo mplsSerBuf
  simp only
  rw [putUint32_ok _ _ _ (by rw [prepend_n]; omega), Res.bind_ok]
  rfl

/-! ## 3. Contents of those buffers under the C18 invariant -/

theorem fill_at (b : SBuf) (h : Inv b) (w : Win) (k : Nat) (vs : Bytes)
    (hg : w.gen = b.gen) (ho : w.off = b.start + k) (hk : k + vs.length ≤ (contents b).length) :
    contents (fill b w vs) = (contents b).take k ++ vs ++ (contents b).drop (k + vs.length) ∧
    Inv (fill b w vs) ∧ (fill b w vs).start = b.start ∧ (fill b w vs).gen = b.gen := by
  have hcl := contents_length b h
  have h' := h
  obtain ⟨i1, i2, i3⟩ := h
  have h1 : b.start ≤ w.off := by omega
  have h2 : w.off + vs.length ≤ b.len := by omega
  refine ⟨?_, inv_fill' b w vs h' (by omega), (fill_fields b w vs).1, (fill_fields b w vs).2.2.2.1⟩
  rw [fill_contents b w vs h' hg h1 h2]
  have : w.off - b.start = k := by omega
  rw [this]

/-- Everything the serializers need to know about `PrependBytes(n)`: the new contents are `n` bytes
    of whatever the memory held, followed by the old contents; the returned window covers exactly
    those `n` bytes of the current backing array. -/
theorem prepend_facts (b : SBuf) (n : Nat) (h : Inv b) :
    ∃ j, j.length = n ∧ contents (prepend b n).1 = j ++ contents b ∧ Inv (prepend b n).1 ∧
      (prepend b n).2.gen = (prepend b n).1.gen ∧ (prepend b n).2.off = (prepend b n).1.start := by
  refine ⟨(contents (prepend b n).1).take n, ?_, ?_, inv_prepend' b n h, rfl, rfl⟩
  · rw [List.length_take, prepend_contents_length b n h]; omega
  · conv => lhs; rw [← List.take_append_drop n (contents (prepend b n).1)]
    rw [prepend_contents_drop b n h]

theorem list_len1 {α} (j : List α) (h : j.length = 1) : ∃ a, j = [a] := by
  rcases j with _ | ⟨a, _ | ⟨b, t⟩⟩
  · simp at h
  · exact ⟨a, rfl⟩
  · simp at h

theorem list_len2 {α} (j : List α) (h : j.length = 2) : ∃ a b, j = [a, b] := by
  rcases j with _ | ⟨a, _ | ⟨b, _ | ⟨c, t⟩⟩⟩
  · simp at h
  · simp at h
  · exact ⟨a, b, rfl⟩
  · simp at h

theorem list_len4 {α} (j : List α) (h : j.length = 4) : ∃ a b c d, j = [a, b, c, d] := by
  rcases j with _ | ⟨a, _ | ⟨b, _ | ⟨c, _ | ⟨d, _ | ⟨e, t⟩⟩⟩⟩⟩
  · simp at h
  · simp at h
  · simp at h
  · simp at h
  · exact ⟨a, b, c, d, rfl⟩
  · simp at h

theorem list_len6 {α} (j : List α) (h : j.length = 6) : ∃ a b c d e f, j = [a, b, c, d, e, f] := by
  rcases j with _ | ⟨a, _ | ⟨b, _ | ⟨c, _ | ⟨d, _ | ⟨e, _ | ⟨f, _ | ⟨g, t⟩⟩⟩⟩⟩⟩⟩
  · simp at h
  · simp at h
  · simp at h
  · simp at h
  · simp at h
  · simp at h
  · exact ⟨a, b, c, d, e, f, rfl⟩
  · simp at h

/-- `PrependBytes(2)` followed by two stores / one PutUint16 covering both bytes. -/
theorem prepend2_fill (b : SBuf) (h : Inv b) (x y : UInt8) :
    contents (fill (prepend b 2).1 (prepend b 2).2 [x, y]) = [x, y] ++ contents b ∧
    Inv (fill (prepend b 2).1 (prepend b 2).2 [x, y]) := by
  obtain ⟨j, hj, hc, hi, hg, ho⟩ := prepend_facts b 2 h
  obtain ⟨a, c, rfl⟩ := list_len2 j hj
  obtain ⟨c1, i1, -, -⟩ := fill_at _ hi (prepend b 2).2 0 [x, y] hg (by omega) (by rw [hc]; simp)
  refine ⟨?_, i1⟩
  rw [c1, hc]; rfl

theorem prepend2_stores (b : SBuf) (h : Inv b) (x y : UInt8) :
    contents (fill (fill (prepend b 2).1 (win1 (prepend b 2).2 0) [x]) (win1 (prepend b 2).2 1) [y])
      = [x, y] ++ contents b ∧
    Inv (fill (fill (prepend b 2).1 (win1 (prepend b 2).2 0) [x]) (win1 (prepend b 2).2 1) [y]) := by
  obtain ⟨j, hj, hc, hi, hg, ho⟩ := prepend_facts b 2 h
  obtain ⟨a, c, rfl⟩ := list_len2 j hj
  obtain ⟨c1, i1, s1, g1⟩ := fill_at _ hi (win1 (prepend b 2).2 0) 0 [x] hg (by show _ + 0 = _; omega)
    (by rw [hc]; simp)
  obtain ⟨c2, i2, -, -⟩ := fill_at _ i1 (win1 (prepend b 2).2 1) 1 [y] (by show (prepend b 2).2.gen = _; rw [g1]; exact hg)
    (by show (prepend b 2).2.off + 1 = _; rw [s1]; omega) (by rw [c1, hc]; simp)
  refine ⟨?_, i2⟩
  rw [c2, c1, hc]; rfl

theorem prepend1_store (b : SBuf) (h : Inv b) (x : UInt8) :
    contents (fill (prepend b 1).1 (win1 (prepend b 1).2 0) [x]) = [x] ++ contents b ∧
    Inv (fill (prepend b 1).1 (win1 (prepend b 1).2 0) [x]) := by
  obtain ⟨j, hj, hc, hi, hg, ho⟩ := prepend_facts b 1 h
  obtain ⟨a, rfl⟩ := list_len1 j hj
  obtain ⟨c1, i1, -, -⟩ := fill_at _ hi (win1 (prepend b 1).2 0) 0 [x] hg (by show _ + 0 = _; omega)
    (by rw [hc]; simp)
  refine ⟨?_, i1⟩
  rw [c1, hc]; rfl

theorem pppSerBuf_contents (l : PPP) (b : SBuf) (h : Inv b) :
    contents (pppSerBuf l b) = pppHdrBytes l ++ contents b ∧ Inv (pppSerBuf l b) := by
  unfold pppSerBuf pppHdrBytes pppTypeBytes
  by_cases ht : l.pppType &&& 0x100 = 0
  · simp only [ht, if_true]
    obtain ⟨c1, i1⟩ := prepend2_fill b h (u8 (l.pppType % 65536 / 256)) (u8 (l.pppType % 65536))
    have e : putBe16 (l.pppType % 65536) = [u8 (l.pppType % 65536 / 256), u8 (l.pppType % 65536)] := rfl
    rw [e]
    cases l.hasPPTPHeader
    · simp only [Bool.false_eq_true, if_false, List.nil_append]
      exact ⟨c1, i1⟩
    · simp only [if_true]
      obtain ⟨c2, i2⟩ := prepend2_stores _ i1 (u8 0xff) (u8 0x03)
      refine ⟨?_, i2⟩
      rw [c2, c1]; simp only [List.append_assoc]
  · simp only [ht, if_false]
    obtain ⟨c1, i1⟩ := prepend1_store b h (u8 (l.pppType % 256))
    cases l.hasPPTPHeader
    · simp only [Bool.false_eq_true, if_false, List.nil_append]
      exact ⟨c1, i1⟩
    · simp only [if_true]
      obtain ⟨c2, i2⟩ := prepend2_stores _ i1 (u8 0xff) (u8 0x03)
      refine ⟨?_, i2⟩
      rw [c2, c1]; simp only [List.append_assoc]

theorem mplsSerBuf_contents (l : MPLS) (b : SBuf) (h : Inv b) :
    contents (mplsSerBuf l b) = putBe32 l.encode ++ contents b ∧ Inv (mplsSerBuf l b) := by
  unfold mplsSerBuf
  obtain ⟨j, hj, hc, hi, hg, ho⟩ := prepend_facts b 4 h
  obtain ⟨a, c, d, e, rfl⟩ := list_len4 j hj
  obtain ⟨c1, i1, -, -⟩ := fill_at _ hi (prepend b 4).2 0 (putBe32 l.encode) hg (by omega)
    (by rw [hc]; simp [putBe32])
  refine ⟨?_, i1⟩
  rw [c1, hc]; rfl

theorem pppoeSerBuf_contents (l : PPPoE) (b : SBuf) (fix : Bool) (h : Inv b) :
    contents (pppoeSerBuf l b fix) = pppoeHdrBytes (pppoeFixed l (contents b) fix) ++ contents b ∧
    Inv (pppoeSerBuf l b fix) := by
  unfold pppoeSerBuf pppoeHdrBytes
  simp only
  obtain ⟨j, hj, hc, hi, hg, ho⟩ := prepend_facts b 6 h
  obtain ⟨j0, j1, j2, j3, j4, j5, rfl⟩ := list_len6 j hj
  generalize hl' : pppoeFixed l (contents b) fix = l'
  have hv : l'.version = l.version ∧ l'.type = l.type ∧ l'.code = l.code ∧ l'.sessionId = l.sessionId := by
    subst hl'; unfold pppoeFixed; cases fix <;> exact ⟨rfl, rfl, rfl, rfl⟩
  obtain ⟨v1, v2, v3, v4⟩ := hv
  rw [v1, v2, v3, v4]
  generalize u8 (((l.version <<< 4) % 256) ||| (l.type % 256)) = x0
  generalize u8 (l.code % 256) = x1
  have es : putBe16 (l.sessionId % 65536) = [u8 (l.sessionId % 65536 / 256), u8 (l.sessionId % 65536)] := rfl
  have el : putBe16 (l'.length % 65536) = [u8 (l'.length % 65536 / 256), u8 (l'.length % 65536)] := rfl
  rw [es, el]
  generalize u8 (l.sessionId % 65536 / 256) = s0
  generalize u8 (l.sessionId % 65536) = s1
  generalize u8 (l'.length % 65536 / 256) = l0
  generalize u8 (l'.length % 65536) = l1
  obtain ⟨c1, i1, t1, g1⟩ := fill_at _ hi (win1 (prepend b 6).2 0) 0 [x0] hg (by show _ + 0 = _; omega)
    (by rw [hc]; simp)
  obtain ⟨c2, i2, t2, g2⟩ := fill_at _ i1 (win1 (prepend b 6).2 1) 1 [x1] (by show (prepend b 6).2.gen = _; rw [g1]; exact hg)
    (by show (prepend b 6).2.off + 1 = _; rw [t1]; omega) (by rw [c1, hc]; simp)
  obtain ⟨c3, i3, t3, g3⟩ := fill_at _ i2 (winAt (prepend b 6).2 2) 2 [s0, s1]
    (by show (prepend b 6).2.gen = _; rw [g2, g1]; exact hg) (by show (prepend b 6).2.off + 2 = _; rw [t2, t1]; omega)
    (by rw [c2, c1, hc]; simp)
  obtain ⟨c4, i4, -, -⟩ := fill_at _ i3 (winAt (prepend b 6).2 4) 4 [l0, l1]
    (by show (prepend b 6).2.gen = _; rw [g3, g2, g1]; exact hg) (by show (prepend b 6).2.off + 4 = _; rw [t3, t2, t1]; omega)
    (by rw [c3, c2, c1, hc]; simp)
  refine ⟨?_, i4⟩
  rw [c4, c3, c2, c1, hc]; rfl

/-! ## 4. Refinement: observable outcome = functional specification -/

theorem ppp_serView (l : PPP) (b : SBuf) (fix csum : Bool) (h : Inv b) :
    serView (l.serializeTo b fix csum) = .ok (pppSerSpec l (SBuf.contents b)) := by
  rw [ppp_serializeTo_eq]
  unfold serView pppSerSpec
  simp only [Bool.false_eq_true, if_false, (pppSerBuf_contents l b h).1]

theorem pppoe_serView (l : PPPoE) (b : SBuf) (fix csum : Bool) (h : Inv b) :
    serView (l.serializeTo b fix csum) = .ok (pppoeSerSpec l (SBuf.contents b) fix) := by
  rw [pppoe_serializeTo_eq]
  unfold serView pppoeSerSpec
  simp only [Bool.false_eq_true, if_false, (pppoeSerBuf_contents l b fix h).1]

theorem mpls_serView (l : MPLS) (b : SBuf) (fix csum : Bool) (h : Inv b) :
    serView (l.serializeTo b fix csum) = .ok (mplsSerSpec l (SBuf.contents b)) := by
  rw [mpls_serializeTo_eq]
  unfold serView mplsSerSpec
  simp only [Bool.false_eq_true, if_false, (mplsSerBuf_contents l b h).1]

/-- FixLengths is idempotent on the PPPoE layer. -/
theorem pppoeFixed_idem (l : PPPoE) (p : Bytes) (fix : Bool) :
    pppoeFixed (pppoeFixed l p fix) p fix = pppoeFixed l p fix := by
  unfold pppoeFixed; cases fix <;> rfl

end Gp.Ppp
