import Gp.Lemmas.Layers.Igmp
/-
  Helper lemmas for engine `ligmp`, part 2: GTPv2 — the functional specification of
  `GTPv2.DecodeFromBytes` (header, optional TEID, sequence number, the IE loop), the proof that the model
  computes it for every capacity and that the loop's fuel suffices, and that the result does not depend on
  the receiver.  Core Lean only.
-/
namespace Gp.Igmp
open Gp Gp.Gen.Igmp

/-! ## 1. Definitions used in property statements -/

def gtpTeidFlag (v : Bytes) : Bool := (((byteAt v 0).toNat >>> 3) &&& 0x01 == 1)

/-- The receiver after the reset and the header assignments of `GTPv2.DecodeFromBytes`. -/
def gtpHdr (old : GTPv2) (v : Bytes) : GTPv2 :=
  { old with teid := 0, ies := [], version := ((byteAt v 0).toNat >>> 5) &&& 0x07,
             piggybackingFlag := (((byteAt v 0).toNat >>> 4) &&& 0x01 == 1), teidFlag := gtpTeidFlag v,
             messagePriority := ((byteAt v 0).toNat >>> 2) &&& 0x01, messageType := (byteAt v 1).toNat,
             messageLength := u16At v 2 }

/-- The IE loop and the final BaseLayer assignment as a function of the visible bytes (`fuel` iterations at
    most; the fuel-exhausted answer is never used: `ieLoop_eq`). -/
def ieSpec (v : Bytes) : Nat → Nat → GTPv2 → DecOut GTPv2
  | 0, _, l => { layer := l, trunc := false, err := true }
  | fuel + 1, c, l =>
    if c < v.length then
      if c + 4 > v.length then { layer := l, trunc := false, err := true }
      else if c + 4 + u16At v (c + 1) > v.length then { layer := l, trunc := false, err := true }
      else ieSpec v fuel (c + 4 + u16At v (c + 1))
             { l with ies := l.ies ++ [{ typ := (byteAt v c).toNat, content := (v.drop (c + 4)).take (u16At v (c + 1)) }] }
    else { layer := { l with contents := v.take c, payload := v.drop c }, trunc := false, err := false }

/-- Sequence number, spare byte, then the IEs. -/
def gtpSeq (v : Bytes) (c : Nat) (l : GTPv2) : DecOut GTPv2 :=
  if v.length < c + 4 then { layer := l, trunc := false, err := true }
  else ieSpec v (v.length + 1) (c + 4)
         { l with sequenceNumber := ((byteAt v c).toNat <<< 16) ||| ((byteAt v (c + 1)).toNat <<< 8) ||| (byteAt v (c + 2)).toNat,
                  spare := (byteAt v (c + 3)).toNat }

/-- What `GTPv2.DecodeFromBytes` computes from the receiver and the visible bytes. -/
def gtpDecSpec (old : GTPv2) (v : Bytes) : DecOut GTPv2 :=
  if v.length < 4 then { layer := old, trunc := false, err := true }
  else if v.length < 4 + u16At v 2 then { layer := gtpHdr old v, trunc := false, err := true }
  else if gtpTeidFlag v then
    if v.length < 8 then { layer := gtpHdr old v, trunc := false, err := true }
    else gtpSeq v 8 { gtpHdr old v with teid := u32At v 4 }
  else gtpSeq v 4 (gtpHdr old v)

/-- A layer with BaseLayer cleared (what the final assignment of the loop overwrites). -/
def clrBase (l : GTPv2) : GTPv2 := { l with contents := [], payload := [] }

/-! ## 2. The IE loop -/

/-- With `c ≤ len` and more fuel than bytes left, the loop of the model runs without a panic and without
    running out of fuel, for every capacity: it computes `ieSpec` of the visible bytes. -/
theorem ieLoop_eq (d : GSlice) : ∀ (fuel c : Nat) (l : GTPv2), c ≤ d.len → d.len - c < fuel →
    ieLoop d fuel c l = .ok (ieSpec d.vis fuel c l) := by
  intro fuel
  induction fuel with
  | zero => intro c l _ hf; omega
  | succ fuel ih =>
    intro c l hc hf
    have hlen : d.len = d.vis.length := rfl
    unfold ieLoop ieSpec
    by_cases h1 : c < d.len
    · rw [if_pos h1, if_pos (show c < d.vis.length from h1)]
      by_cases h2 : c + 4 > d.len
      · rw [if_pos h2, if_pos (show c + 4 > d.vis.length from h2)]
      · rw [if_neg h2, if_neg (show ¬ c + 4 > d.vis.length from h2)]
        rw [GSlice.index_ok d c h1, Res.bind_ok]
        rw [GSlice.slice_ok d (c + 1) (c + 3) (by omega) (by omega), Res.bind_ok]
        have e2 : c + 3 - (c + 1) = 2 := by omega
        rw [e2, uint16_vis d.vis _ (c + 1) (by omega), Res.bind_ok]
        by_cases h3 : c + 4 + u16At d.vis (c + 1) > d.len
        · rw [if_pos h3, if_pos (show c + 4 + u16At d.vis (c + 1) > d.vis.length from h3)]; rfl
        · rw [if_neg h3, if_neg (show ¬ c + 4 + u16At d.vis (c + 1) > d.vis.length from h3)]
          rw [GSlice.slice_ok d (c + 4) (c + 4 + u16At d.vis (c + 1)) (by omega) (by omega), Res.bind_ok]
          have e3 : c + 4 + u16At d.vis (c + 1) - (c + 4) = u16At d.vis (c + 1) := by omega
          rw [e3]
          exact ih _ _ (by omega) (by omega)
    · rw [if_neg h1, if_neg (show ¬ c < d.vis.length from h1)]
      rw [GSlice.slice_ok d 0 c (by omega) hc, Res.bind_ok]
      rw [GSlice.sliceFrom_ok d c hc, Res.bind_ok]
      simp only [List.drop_zero, Nat.sub_zero, pure]

/-- Progress: on success the loop has consumed everything — Contents is the whole input, Payload is empty. -/
theorem ieSpec_consumes (v : Bytes) : ∀ (fuel c : Nat) (l : GTPv2), c ≤ v.length →
    (ieSpec v fuel c l).err = false →
    (ieSpec v fuel c l).layer.contents = v ∧ (ieSpec v fuel c l).layer.payload = [] := by
  intro fuel
  induction fuel with
  | zero => intro c l _ h; simp [ieSpec] at h
  | succ fuel ih =>
    intro c l hc h
    unfold ieSpec at h ⊢
    by_cases h1 : c < v.length
    · rw [if_pos h1] at h ⊢
      by_cases h2 : c + 4 > v.length
      · rw [if_pos h2] at h; cases h
      · rw [if_neg h2] at h ⊢
        by_cases h3 : c + 4 + u16At v (c + 1) > v.length
        · rw [if_pos h3] at h; cases h
        · rw [if_neg h3] at h ⊢
          exact ih _ _ (by omega) h
    · rw [if_neg h1]
      have : c = v.length := by omega
      subst this
      simp

/-- The loop never looks at Contents / Payload of the layer it is given … -/
theorem ieSpec_clr (v : Bytes) : ∀ (fuel c : Nat) (l : GTPv2),
    (ieSpec v fuel c (clrBase l)).err = (ieSpec v fuel c l).err ∧
    (ieSpec v fuel c (clrBase l)).trunc = (ieSpec v fuel c l).trunc ∧
    ((ieSpec v fuel c l).err = false → (ieSpec v fuel c (clrBase l)).layer = (ieSpec v fuel c l).layer) := by
  intro fuel
  induction fuel with
  | zero => intro c l; exact ⟨rfl, rfl, fun h => by simp [ieSpec] at h⟩
  | succ fuel ih =>
    intro c l
    unfold ieSpec
    by_cases h1 : c < v.length
    · rw [if_pos h1, if_pos h1]
      by_cases h2 : c + 4 > v.length
      · rw [if_pos h2, if_pos h2]; exact ⟨rfl, rfl, fun h => by cases h⟩
      · rw [if_neg h2, if_neg h2]
        by_cases h3 : c + 4 + u16At v (c + 1) > v.length
        · rw [if_pos h3, if_pos h3]; exact ⟨rfl, rfl, fun h => by cases h⟩
        · rw [if_neg h3, if_neg h3]
          exact ih _ { l with ies := l.ies ++ [{ typ := (byteAt v c).toNat, content := (v.drop (c + 4)).take (u16At v (c + 1)) }] }
    · rw [if_neg h1, if_neg h1]; exact ⟨rfl, rfl, fun _ => rfl⟩

/-- … so two layers that agree outside BaseLayer give the same outcome. -/
theorem ieSpec_congr (v : Bytes) (fuel c : Nat) (l₁ l₂ : GTPv2) (h : clrBase l₁ = clrBase l₂) :
    (ieSpec v fuel c l₁).err = (ieSpec v fuel c l₂).err ∧
    (ieSpec v fuel c l₁).trunc = (ieSpec v fuel c l₂).trunc ∧
    ((ieSpec v fuel c l₁).err = false → (ieSpec v fuel c l₁).layer = (ieSpec v fuel c l₂).layer) := by
  have a := ieSpec_clr v fuel c l₁
  have b := ieSpec_clr v fuel c l₂
  rw [h] at a
  refine ⟨a.1.symm.trans b.1, a.2.1.symm.trans b.2.1, fun he => ?_⟩
  have he2 : (ieSpec v fuel c l₂).err = false := by rw [← b.1, a.1]; exact he
  rw [← a.2.2 he, b.2.2 he2]

/-! ## 3. DecodeFromBytes = its functional specification -/

theorem gtpSeqPart_eq (d : GSlice) (c : Nat) (l : GTPv2) :
    gtpSeqPart d l c = .ok (gtpSeq d.vis c l) := by
  unfold gtpSeqPart gtpSeq
  by_cases h : d.len < c + 4
  · rw [if_pos h, if_pos (show d.vis.length < c + 4 from h)]; rfl
  · rw [if_neg h, if_neg (show ¬ d.vis.length < c + 4 from h)]
    rw [GSlice.index_ok d c (by omega), Res.bind_ok]
    rw [GSlice.index_ok d (c + 1) (by omega), Res.bind_ok]
    rw [GSlice.index_ok d (c + 2) (by omega), Res.bind_ok]
    rw [GSlice.index_ok d (c + 3) (by omega), Res.bind_ok]
    exact ieLoop_eq d _ _ _ (by omega) (by omega)

theorem GTPv2.decode_eq (old : GTPv2) (d : GSlice) :
    old.decodeFromBytes d = .ok (gtpDecSpec old d.vis) := by
  unfold GTPv2.decodeFromBytes gtpDecSpec
  have h4 : gtp2MinimumSizeInBytes = 4 := rfl
  simp only [h4]
  by_cases hs : d.len < 4
  · rw [if_pos hs, if_pos (show d.vis.length < 4 from hs)]
  · have hl : 4 ≤ d.vis.length := by unfold GSlice.len at hs; omega
    have hl' : 4 ≤ d.len := hl
    rw [if_neg hs, if_neg (show ¬ d.vis.length < 4 by omega)]
    rw [GSlice.index_ok d 0 (by omega)]
    simp only [Res.bind_ok]
    rw [GSlice.index_ok d 1 (by omega), Res.bind_ok]
    rw [GSlice.slice_ok d 2 4 (by omega) (by omega), Res.bind_ok]
    simp only [Nat.reduceSub]
    rw [uint16_vis d.vis _ 2 (by omega), Res.bind_ok]
    by_cases hp : d.len < 4 + u16At d.vis 2
    · rw [if_pos hp, if_pos (show d.vis.length < 4 + u16At d.vis 2 from hp)]; rfl
    · rw [if_neg hp, if_neg (show ¬ d.vis.length < 4 + u16At d.vis 2 from hp)]
      by_cases ht : gtpTeidFlag d.vis = true
      · have ht' : (((byteAt d.vis 0).toNat >>> 3) &&& 0x01 == 1) = true := ht
        rw [if_pos ht', if_pos ht]
        by_cases h8 : d.len < 4 + 4
        · rw [if_pos h8, if_pos (show d.vis.length < 8 by unfold GSlice.len at h8; omega)]; rfl
        · rw [if_neg h8, if_neg (show ¬ d.vis.length < 8 by unfold GSlice.len at h8; omega)]
          rw [GSlice.slice_ok d 4 8 (by omega) (by omega), Res.bind_ok]
          simp only [Nat.reduceSub]
          rw [uint32_vis d.vis _ 4 (by unfold GSlice.len at h8; omega), Res.bind_ok]
          exact gtpSeqPart_eq d 8 _
      · have ht' : ¬ (((byteAt d.vis 0).toNat >>> 3) &&& 0x01 == 1) = true := ht
        rw [if_neg ht', if_neg ht]
        exact gtpSeqPart_eq d 4 _

/-! ## 4. Facts about the specification -/

/-- Error flag and truncation contribution do not depend on the receiver; on success neither does the layer. -/
theorem gtpDecSpec_indep (a b : GTPv2) (v : Bytes) : (gtpDecSpec a v).err = (gtpDecSpec b v).err ∧
    (gtpDecSpec a v).trunc = (gtpDecSpec b v).trunc ∧
    ((gtpDecSpec a v).err = false → (gtpDecSpec a v).layer = (gtpDecSpec b v).layer) := by
  unfold gtpDecSpec
  by_cases h1 : v.length < 4
  · rw [if_pos h1, if_pos h1]; exact ⟨rfl, rfl, fun hh => by cases hh⟩
  · rw [if_neg h1, if_neg h1]
    by_cases h2 : v.length < 4 + u16At v 2
    · rw [if_pos h2, if_pos h2]; exact ⟨rfl, rfl, fun hh => by cases hh⟩
    · rw [if_neg h2, if_neg h2]
      by_cases ht : gtpTeidFlag v = true
      · rw [if_pos ht, if_pos ht]
        by_cases h8 : v.length < 8
        · rw [if_pos h8, if_pos h8]; exact ⟨rfl, rfl, fun hh => by cases hh⟩
        · rw [if_neg h8, if_neg h8]
          unfold gtpSeq
          by_cases hq : v.length < 8 + 4
          · rw [if_pos hq, if_pos hq]; exact ⟨rfl, rfl, fun hh => by cases hh⟩
          · rw [if_neg hq, if_neg hq]
            exact ieSpec_congr v _ _ _ _ rfl
      · rw [if_neg ht, if_neg ht]
        unfold gtpSeq
        by_cases hq : v.length < 4 + 4
        · rw [if_pos hq, if_pos hq]; exact ⟨rfl, rfl, fun hh => by cases hh⟩
        · rw [if_neg hq, if_neg hq]
          exact ieSpec_congr v _ _ _ _ rfl

/-- A successfully decoded GTPv2 layer has consumed its whole input (the IE loop runs to `len(data)`, not to
    the announced message length): Contents = data, Payload empty. -/
theorem gtpDecSpec_consumes (old : GTPv2) (v : Bytes) (h : (gtpDecSpec old v).err = false) :
    (gtpDecSpec old v).layer.contents = v ∧ (gtpDecSpec old v).layer.payload = [] := by
  unfold gtpDecSpec at h ⊢
  by_cases h1 : v.length < 4
  · rw [if_pos h1] at h; cases h
  · rw [if_neg h1] at h ⊢
    by_cases h2 : v.length < 4 + u16At v 2
    · rw [if_pos h2] at h; cases h
    · rw [if_neg h2] at h ⊢
      by_cases ht : gtpTeidFlag v = true
      · rw [if_pos ht] at h ⊢
        by_cases h8 : v.length < 8
        · rw [if_pos h8] at h; cases h
        · rw [if_neg h8] at h ⊢
          unfold gtpSeq at h ⊢
          by_cases hq : v.length < 8 + 4
          · rw [if_pos hq] at h; cases h
          · rw [if_neg hq] at h ⊢
            exact ieSpec_consumes v _ _ _ (by omega) h
      · rw [if_neg ht] at h ⊢
        unfold gtpSeq at h ⊢
        by_cases hq : v.length < 4 + 4
        · rw [if_pos hq] at h; cases h
        · rw [if_neg hq] at h ⊢
          exact ieSpec_consumes v _ _ _ (by omega) h

end Gp.Igmp
