import Gp.Model.Layers.Diam
import Gp.Lemmas.Layers.Arp
/-
  Helper lemmas for engine `ldiam` (Diameter codec), part 1: the functional specification of
  decodeDiameterAVP / the AVP loops / Diameter.DecodeFromBytes and the proof that the
  statement-by-statement model computes it — without panic, with the fuel it is given, and
  independently of the capacity / foreign bytes.  Core Lean only.

  Section 1 holds the *definitions* that occur in the statements of the property theorems.
-/
namespace Gp.Diam
open Gp Gp.SBuf Gp.Arp

/-! ## 1. Definitions used in property statements -/

/-- Big-endian 24-bit value at offset `i`. -/
def u24At (v : Bytes) (i : Nat) : Nat := be24 (byteAt v i) (byteAt v (i + 1)) (byteAt v (i + 2))

mutual
/-- What `decodeDiameterAVP` computes from the visible bytes (fuel as in the model). -/
def avpSpec (grp : Nat → Nat → Bool) : Nat → Bytes → Option (AVP × Nat)
  | 0, _ => none
  | fuel + 1, d =>
    if d.length < 8 then none else
    if u24At d 5 < 8 then none else
    if (((byteAt d 4).toNat &&& 0x80) != 0 && d.length < 12) then none else
    if d.length < padded (u24At d 5) then none else
    if u24At d 5 < (if ((byteAt d 4).toNat &&& 0x80) != 0 then 12 else 8) then none else
    let fV := ((byteAt d 4).toNat &&& 0x80) != 0
    let hdr := if fV then 12 else 8
    let vendorID := if fV then u32At d 8 else 0
    let dat := (d.drop hdr).take (u24At d 5 - hdr)
    some ({ code := u32At d 0, fVendor := fV,
            fMandatory := ((byteAt d 4).toNat &&& 0x40) != 0,
            fProtected := ((byteAt d 4).toNat &&& 0x20) != 0,
            length := u24At d 5, vendorID := vendorID, data := dat,
            grouped := if grp (u32At d 0) vendorID then some (loopSpec grp fuel dat []).1 else none },
          padded (u24At d 5))
/-- What the AVP loops compute. -/
def loopSpec (grp : Nat → Nat → Bool) : Nat → Bytes → List AVP → List AVP × Bool
  | 0, _, acc => (acc, true)
  | fuel + 1, s, acc =>
    if s.length < 8 then (acc, false) else
    match avpSpec grp fuel s with
    | none => (acc, true)
    | some (a, n) => loopSpec grp fuel (s.drop n) (acc ++ [a])
end

/-- The layer a successful `Diameter.DecodeFromBytes` produces: a function of the visible bytes. -/
def diamLayer (v : Bytes) (avps : List AVP) : Diameter :=
  { contents := v.take (u24At v 1), payload := [], version := (byteAt v 0).toNat,
    messageLength := u24At v 1,
    fRequest := ((byteAt v 4).toNat &&& 0x80) != 0, fProxiable := ((byteAt v 4).toNat &&& 0x40) != 0,
    fError := ((byteAt v 4).toNat &&& 0x20) != 0, fRetransmitted := ((byteAt v 4).toNat &&& 0x10) != 0,
    commandCode := u24At v 5, applicationID := u32At v 8, hopByHopID := u32At v 12,
    endToEndID := u32At v 16, avps := avps }

/-- What `Diameter.DecodeFromBytes` computes from the visible bytes `v` and the receiver: the four
    error returns leave the receiver (with Version / MessageLength overwritten on the later ones);
    a success is a function of `v` alone. -/
def diamDecSpec (grp : Nat → Nat → Bool) (old : Diameter) (v : Bytes) : DecOut Diameter :=
  if v.length < 20 then { layer := old, trunc := false, err := true } else
  if (byteAt v 0).toNat ≠ 1 then
    { layer := { old with version := (byteAt v 0).toNat }, trunc := false, err := true } else
  if u24At v 1 < 20 ∨ v.length < u24At v 1 then
    { layer := { old with version := (byteAt v 0).toNat, messageLength := u24At v 1 }, trunc := false, err := true }
  else
    let r := loopSpec grp (v.length + 2) ((v.drop 20).take (u24At v 1 - 20)) []
    { layer := diamLayer v r.1, trunc := r.2, err := false }

/-! ## 2. Reads -/

theorem rd32_ok (d : GSlice) (a : Nat) (h : a + 4 ≤ d.len) : rd32 d a = .ok (u32At d.vis a) := by
  unfold rd32
  rw [GSlice.slice_ok d a (a + 4) (by omega) h, Res.bind_ok]
  have e : a + 4 - a = 4 := by omega
  rw [e]
  exact uint32be_vis d.vis _ a h

theorem rd24_ok (d : GSlice) (a : Nat) (h : a + 3 ≤ d.len) : rd24 d a = .ok (u24At d.vis a) := by
  unfold rd24
  rw [GSlice.index_ok d a (by omega), Res.bind_ok, GSlice.index_ok d (a + 1) (by omega), Res.bind_ok,
    GSlice.index_ok d (a + 2) (by omega), Res.bind_ok]
  rfl

theorem padded_ge (n : Nat) : n ≤ padded n := by unfold padded; split <;> omega
theorem padded_lt (n : Nat) : padded n < n + 4 := by unfold padded; split <;> omega
theorem padded_mod (n : Nat) : padded n % 4 = 0 := by unfold padded; split <;> omega

/-- A successful AVP decode consumes between 8 and all of the bytes. -/
theorem avpSpec_consumed (grp : Nat → Nat → Bool) (f : Nat) (d : Bytes) (a : AVP) (n : Nat)
    (h : avpSpec grp f d = some (a, n)) : 8 ≤ n ∧ n ≤ d.length := by
  cases f with
  | zero => simp [avpSpec] at h
  | succ f =>
    unfold avpSpec at h
    by_cases c1 : d.length < 8
    · rw [if_pos c1] at h; cases h
    rw [if_neg c1] at h
    by_cases c2 : u24At d 5 < 8
    · rw [if_pos c2] at h; cases h
    rw [if_neg c2] at h
    by_cases c3 : (((byteAt d 4).toNat &&& 0x80) != 0 && decide (d.length < 12)) = true
    · rw [if_pos c3] at h; cases h
    rw [if_neg c3] at h
    by_cases c4 : d.length < padded (u24At d 5)
    · rw [if_pos c4] at h; cases h
    rw [if_neg c4] at h
    by_cases c5 : u24At d 5 < (if ((byteAt d 4).toNat &&& 0x80) != 0 then 12 else 8)
    · rw [if_pos c5] at h; cases h
    rw [if_neg c5] at h
    simp only [Option.some.injEq, Prod.mk.injEq] at h
    have := padded_ge (u24At d 5)
    omega

/-! ## 3. The model computes the specification -/

theorem avp_refines (grp : Nat → Nat → Bool) (f : Nat) :
    (∀ d t, d.length + 1 ≤ f → decodeAVP grp f { vis := d, tail := t } = .ok (avpSpec grp f d)) ∧
    (∀ d t acc, d.length + 2 ≤ f → avpLoop grp f { vis := d, tail := t } acc = .ok (loopSpec grp f d acc)) := by
  induction f with
  | zero => exact ⟨fun d t h => by omega, fun d t acc h => by omega⟩
  | succ f ih =>
    obtain ⟨ih1, ih2⟩ := ih
    constructor
    · intro d t hf
      unfold decodeAVP avpSpec
      by_cases h8 : d.length < 8
      · have h8' : GSlice.len { vis := d, tail := t } < 8 := h8
        rw [if_pos h8', if_pos h8]; rfl
      · have h8' : ¬ GSlice.len { vis := d, tail := t } < 8 := h8
        rw [if_neg h8', if_neg h8]
        have hl : GSlice.len { vis := d, tail := t } = d.length := rfl
        rw [rd32_ok _ 0 (by rw [hl]; omega), Res.bind_ok, GSlice.index_ok _ 4 (by rw [hl]; omega), Res.bind_ok,
          rd24_ok _ 5 (by rw [hl]; omega), Res.bind_ok]
        simp only [hl]
        by_cases hlen : u24At d 5 < 8
        · rw [if_pos hlen, if_pos hlen]; rfl
        · rw [if_neg hlen, if_neg hlen]
          by_cases hv : (((byteAt d 4).toNat &&& 0x80) != 0 && decide (d.length < 12)) = true
          · rw [if_pos hv, if_pos hv]; rfl
          · rw [if_neg hv, if_neg hv]
            cases hfv : ((byteAt d 4).toNat &&& 0x80) != 0
            · -- no vendor id
              simp only [Bool.false_eq_true, if_false, Res.bind_ok, pure]
              by_cases hp : d.length < padded (u24At d 5)
              · rw [if_pos hp, if_pos hp]
              · rw [if_neg hp, if_neg hp]
                have hh : ¬ u24At d 5 < 8 := hlen
                rw [if_neg hh]
                have := padded_ge (u24At d 5)
                rw [GSlice.slice_ok _ 8 (8 + (u24At d 5 - 8)) (by omega) (by rw [hl]; omega), Res.bind_ok]
                have e : 8 + (u24At d 5 - 8) - 8 = u24At d 5 - 8 := by omega
                simp only [e, hh, if_false]
                cases hg : grp (u32At d 0) 0
                · simp only [Bool.false_eq_true, if_false, Res.bind_ok]
                · simp only [if_true]
                  have hdl : ((d.drop 8).take (u24At d 5 - 8)).length + 2 ≤ f := by
                    rw [List.length_take, List.length_drop]; omega
                  rw [ih2 _ [] [] hdl]
                  simp only [Res.bind_ok, pure]
            · -- vendor id present
              rw [hfv] at hv
              simp only [Bool.true_and, decide_eq_true_eq] at hv
              simp only [if_true]
              rw [rd32_ok _ 8 (by rw [hl]; omega), Res.bind_ok]
              by_cases hp : d.length < padded (u24At d 5)
              · rw [if_pos hp, if_pos hp]; rfl
              · rw [if_neg hp, if_neg hp]
                by_cases hh : u24At d 5 < 12
                · rw [if_pos hh, if_pos hh]; rfl
                · rw [if_neg hh, if_neg hh]
                  have := padded_ge (u24At d 5)
                  rw [GSlice.slice_ok _ 12 (12 + (u24At d 5 - 12)) (by omega) (by rw [hl]; omega), Res.bind_ok]
                  have e : 12 + (u24At d 5 - 12) - 12 = u24At d 5 - 12 := by omega
                  simp only [e]
                  cases hg : grp (u32At d 0) (u32At d 8)
                  · simp only [Bool.false_eq_true, if_false, Res.bind_ok, pure]
                  · simp only [if_true]
                    have hdl : ((d.drop 12).take (u24At d 5 - 12)).length + 2 ≤ f := by
                      rw [List.length_take, List.length_drop]; omega
                    rw [ih2 _ [] [] hdl]
                    simp only [Res.bind_ok, pure]
    · intro d t acc hf
      unfold avpLoop loopSpec
      by_cases h8 : d.length < 8
      · have h8' : GSlice.len { vis := d, tail := t } < 8 := h8
        rw [if_pos h8', if_pos h8]; rfl
      · have h8' : ¬ GSlice.len { vis := d, tail := t } < 8 := h8
        rw [if_neg h8', if_neg h8, ih1 d t (by omega), Res.bind_ok]
        cases hs : avpSpec grp f d with
        | none => rfl
        | some p =>
          obtain ⟨a, n⟩ := p
          obtain ⟨hn8, hnl⟩ := avpSpec_consumed grp f d a n hs
          simp only []
          rw [GSlice.sliceFrom_ok { vis := d, tail := t } n hnl, Res.bind_ok]
          exact ih2 (d.drop n) t _ (by rw [List.length_drop]; omega)

theorem avpLoop_refines (grp : Nat → Nat → Bool) (f : Nat) (d t : Bytes) (acc : List AVP) (h : d.length + 2 ≤ f) :
    avpLoop grp f { vis := d, tail := t } acc = .ok (loopSpec grp f d acc) := (avp_refines grp f).2 d t acc h

theorem decodeAVP_refines (grp : Nat → Nat → Bool) (f : Nat) (d t : Bytes) (h : d.length + 1 ≤ f) :
    decodeAVP grp f { vis := d, tail := t } = .ok (avpSpec grp f d) := (avp_refines grp f).1 d t h

/-- Diameter.DecodeFromBytes = its specification, for every receiver, capacity and foreign bytes. -/
theorem decode_refines (grp : Nat → Nat → Bool) (old : Diameter) (v t : Bytes) :
    old.decodeFromBytes grp { vis := v, tail := t } = .ok (diamDecSpec grp old v) := by
  unfold Diameter.decodeFromBytes diamDecSpec
  have hl : GSlice.len { vis := v, tail := t } = v.length := rfl
  simp only [hl]
  by_cases h20 : v.length < 20
  · rw [if_pos h20, if_pos h20]
  · rw [if_neg h20, if_neg h20]
    rw [GSlice.index_ok _ 0 (by rw [hl]; omega), Res.bind_ok]
    by_cases hv : (byteAt v 0).toNat ≠ 1
    · rw [if_pos hv, if_pos hv]; rfl
    · rw [if_neg hv, if_neg hv]
      rw [rd24_ok _ 1 (by rw [hl]; omega), Res.bind_ok]
      simp only []
      by_cases hm : u24At v 1 < 20
      · rw [if_pos hm, if_pos (Or.inl hm)]; rfl
      · rw [if_neg hm]
        by_cases hm2 : v.length < u24At v 1
        · rw [if_pos hm2, if_pos (Or.inr hm2)]; rfl
        · rw [if_neg hm2, if_neg (by omega)]
          rw [GSlice.index_ok _ 4 (by rw [hl]; omega), Res.bind_ok, rd24_ok _ 5 (by rw [hl]; omega), Res.bind_ok,
            rd32_ok _ 8 (by rw [hl]; omega), Res.bind_ok, rd32_ok _ 12 (by rw [hl]; omega), Res.bind_ok,
            rd32_ok _ 16 (by rw [hl]; omega), Res.bind_ok]
          rw [GSlice.slice_ok _ 20 (u24At v 1) (by omega) (by rw [hl]; omega), Res.bind_ok]
          simp only []
          rw [avpLoop_refines grp _ _ _ _ (by rw [List.length_take, List.length_drop]; omega), Res.bind_ok]
          rw [GSlice.slice_ok _ 0 (u24At v 1) (by omega) (by rw [hl]; omega), Res.bind_ok]
          simp only [pure, diamLayer, List.drop_zero, Nat.sub_zero]

/-! ## 4. Consequences used by the property files -/

/-- Error flag, truncation flag and — on success — the layer do not depend on the receiver. -/
theorem diamDecSpec_indep (grp : Nat → Nat → Bool) (a b : Diameter) (v : Bytes) :
    (diamDecSpec grp a v).err = (diamDecSpec grp b v).err ∧
    (diamDecSpec grp a v).trunc = (diamDecSpec grp b v).trunc ∧
    ((diamDecSpec grp a v).err = false → (diamDecSpec grp a v).layer = (diamDecSpec grp b v).layer) := by
  unfold diamDecSpec
  by_cases h1 : v.length < 20
  · simp [h1]
  · by_cases h2 : (byteAt v 0).toNat ≠ 1
    · simp [h1, h2]
    · by_cases h3 : u24At v 1 < 20 ∨ v.length < u24At v 1
      · simp only [h1, h2, h3, if_true, if_false]; simp
      · simp only [h1, h2, h3, if_false]; simp

/-- An error return never sets the truncation flag and changes at most Version and MessageLength. -/
theorem diamDecSpec_err (grp : Nat → Nat → Bool) (old : Diameter) (v : Bytes)
    (he : (diamDecSpec grp old v).err = true) :
    (diamDecSpec grp old v).trunc = false ∧
    ((diamDecSpec grp old v).layer = old ∨
     (diamDecSpec grp old v).layer = { old with version := (byteAt v 0).toNat } ∨
     (diamDecSpec grp old v).layer = { old with version := (byteAt v 0).toNat, messageLength := u24At v 1 }) := by
  unfold diamDecSpec at he ⊢
  by_cases h1 : v.length < 20
  · rw [if_pos h1]; exact ⟨rfl, Or.inl rfl⟩
  · rw [if_neg h1] at he ⊢
    by_cases h2 : (byteAt v 0).toNat ≠ 1
    · rw [if_pos h2]; exact ⟨rfl, Or.inr (Or.inl rfl)⟩
    · rw [if_neg h2] at he ⊢
      by_cases h3 : u24At v 1 < 20 ∨ v.length < u24At v 1
      · rw [if_pos h3]; exact ⟨rfl, Or.inr (Or.inr rfl)⟩
      · rw [if_neg h3] at he; cases he

end Gp.Diam
