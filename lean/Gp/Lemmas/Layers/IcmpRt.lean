import Gp.Lemmas.Layers.IcmpSer
/-
  Round-trip lemmas for engine `licmp` (C06): the in-range predicate `wf`, the field
  equivalence `strip`, and "decoding the wire encoding gives the layer back".  Core Lean only.
-/
namespace Gp.Icmp
open Gp Gp.SBuf Gp.C18

/-! ## Definitions used in the statements -/

/-- An NDP option the wire format can carry: type is a byte, total length (type + length +
    data) is a non-zero multiple of 8 octets that fits the one-byte length field. -/
def wfOpt (o : Opt) : Prop :=
  o.typ < 256 ∧ (o.data.length + 2) % 8 = 0 ∧ o.data.length + 2 ≤ 2040

instance (o : Opt) : Decidable (wfOpt o) := by unfold wfOpt; infer_instance

def wfOpts (os : List Opt) : Prop := ∀ o ∈ os, wfOpt o

instance (os : List Opt) : Decidable (wfOpts os) := by unfold wfOpts; infer_instance

/-- In-range values of the public fields (what the Go field types and the wire format allow). -/
def wf : AnyLayer → Prop
  | .icmp4 l => l.typeCode < 65536 ∧ l.checksum < 65536 ∧ l.id < 65536 ∧ l.seq < 65536
  | .icmp6 l => l.typeCode < 65536 ∧ l.checksum < 65536 ∧ l.typeBytes = []
  | .echo l => l.identifier < 65536 ∧ l.seqNumber < 65536
  | .rs l => wfOpts l.options
  | .ra l => l.hopLimit < 256 ∧ l.flags < 256 ∧ l.routerLifetime < 65536 ∧
      l.reachableTime < 4294967296 ∧ l.retransTimer < 4294967296 ∧ wfOpts l.options
  | .ns l => l.targetAddress.length = 16 ∧ wfOpts l.options
  | .na l => l.flags < 256 ∧ l.targetAddress.length = 16 ∧ wfOpts l.options
  | .redirect l => l.targetAddress.length = 16 ∧ l.destinationAddress.length = 16 ∧ wfOpts l.options

instance (l : AnyLayer) : Decidable (wf l) := by cases l <;> (unfold wf; infer_instance)

/-- The payloads the protocol allows under the layer: anything for ICMPv4 / ICMPv6 / Echo; the
    five NDP messages carry no payload (their decoders consume the whole rest as options). -/
def payloadAllowed : AnyLayer → Bytes → Prop
  | .icmp4 _, _ => True
  | .icmp6 _, _ => True
  | .echo _, _ => True
  | _, p => p = []

/-- Field equivalence `≈`: forget Contents/Payload and the (unexported) pseudo-header. -/
def strip : AnyLayer → AnyLayer
  | .icmp4 l => .icmp4 { l with contents := [], payload := [] }
  | .icmp6 l => .icmp6 { l with contents := [], payload := [], pseudo := .absent }
  | .echo l => .echo { l with contents := [], payload := [] }
  | .rs l => .rs { l with contents := [], payload := [] }
  | .ra l => .ra { l with contents := [], payload := [] }
  | .ns l => .ns { l with contents := [], payload := [] }
  | .na l => .na { l with contents := [], payload := [] }
  | .redirect l => .redirect { l with contents := [], payload := [] }

/-! ## Bytes -/

theorem be16_put (n : Nat) (h : n < 65536) : be16 (u8 (n / 256)) (u8 n) = n := by
  simp [be16, u8]; omega

theorem be32_put (n : Nat) (h : n < 4294967296) :
    be32 (u8 (n / 16777216)) (u8 (n / 65536)) (u8 (n / 256)) (u8 n) = n := by
  simp [be32, u8]; omega

theorem u8_toNat (n : Nat) (h : n < 256) : (u8 n).toNat = n := by
  simp [u8]; omega

theorem fold_lt (c : Nat) : Cksum.fold c < 65536 := by
  unfold Cksum.fold Gen.Cksum.foldChecksum
  generalize Gen.Cksum.foldChecksum_loop1 4 (Int.ofNat c) = x
  dsimp only
  omega

/-! ## Option lists -/

theorem encOpts_append (xs ys : List Opt) : encOpts (xs ++ ys) = encOpts xs ++ encOpts ys := by
  induction xs with
  | nil => rfl
  | cons x xs ih => simp [encOpts, ih, List.append_assoc]

/-- Reading back an encoded list of in-range options returns exactly that list, in order,
    without error, for any sufficient fuel and any accumulated prefix. -/
theorem parseOpts_enc (os : List Opt) (hw : wfOpts os) : ∀ (fuel : Nat) (acc : List Opt),
    (encOpts os).length ≤ fuel → parseOpts fuel (encOpts os) acc = ⟨acc ++ os, false, false⟩ := by
  induction os with
  | nil => intro fuel acc _; cases fuel <;> simp [encOpts, parseOpts]
  | cons o rest ih =>
    intro fuel acc hf
    obtain ⟨h1, h2, h3⟩ := hw o (List.mem_cons_self ..)
    have hrest : wfOpts rest := fun x hx => hw x (List.mem_cons_of_mem _ hx)
    have hlen : (encOpts (o :: rest)).length = o.data.length + 2 + (encOpts rest).length := by
      simp [encOpts, encOpt]; omega
    match fuel, hf with
    | 0, hf => rw [hlen] at hf; omega
    | f + 1, hf =>
      have hlb : (u8 ((o.data.length + 2) / 8)).toNat * 8 = o.data.length + 2 := by
        rw [u8_toNat _ (by omega)]; omega
      show parseOpts (f + 1) (u8 o.typ :: u8 ((o.data.length + 2) / 8) :: (o.data ++ encOpts rest)) acc = _
      unfold parseOpts
      rw [hlb, if_neg (by omega), if_neg (by simp)]
      have e1 : o.data.length + 2 - 2 = o.data.length := by omega
      rw [e1, List.drop_left, List.take_left, u8_toNat _ h1]
      rw [ih hrest f _ (by rw [hlen] at hf; omega)]
      simp

/-! ## Decoding the wire encodings -/

theorem pureICMPv4_enc (old l : ICMPv4) (p : Bytes)
    (h : l.typeCode < 65536 ∧ l.checksum < 65536 ∧ l.id < 65536 ∧ l.seq < 65536) :
    pureICMPv4 old (hdrICMPv4 l ++ p) =
      ⟨{ l with contents := hdrICMPv4 l, payload := p }, false, false⟩ := by
  obtain ⟨h1, h2, h3, h4⟩ := h
  have hl : ¬ (hdrICMPv4 l ++ p).length < 8 := by simp [hdrICMPv4, len_putBe16]; omega
  unfold pureICMPv4
  rw [if_neg hl]
  simp only [hdrICMPv4, putBe16, rd16, List.cons_append, List.nil_append, List.getD_cons_zero,
    List.getD_cons_succ, List.take_succ_cons, List.take_zero, List.drop_succ_cons, List.drop_zero,
    be16_put _ h1, be16_put _ h2, be16_put _ h3, be16_put _ h4]

theorem pureICMPv6_enc (old l : ICMPv6) (p : Bytes)
    (h : l.typeCode < 65536 ∧ l.checksum < 65536) :
    pureICMPv6 old (hdrICMPv6 l ++ p) =
      ⟨{ old with contents := hdrICMPv6 l, payload := p, typeCode := l.typeCode,
                  checksum := l.checksum }, false, false⟩ := by
  obtain ⟨h1, h2⟩ := h
  have hl : ¬ (hdrICMPv6 l ++ p).length < 4 := by simp [hdrICMPv6, len_putBe16]; omega
  unfold pureICMPv6
  rw [if_neg hl]
  simp only [hdrICMPv6, putBe16, rd16, List.cons_append, List.nil_append, List.getD_cons_zero,
    List.getD_cons_succ, List.take_succ_cons, List.take_zero, List.drop_succ_cons, List.drop_zero,
    be16_put _ h1, be16_put _ h2]

theorem pureEcho_enc (old l : Echo) (p : Bytes)
    (h : l.identifier < 65536 ∧ l.seqNumber < 65536) :
    pureEcho old (hdrEcho l ++ p) = ⟨{ l with contents := hdrEcho l, payload := p }, false, false⟩ := by
  obtain ⟨h1, h2⟩ := h
  have hl : ¬ (hdrEcho l ++ p).length < 4 := by simp [hdrEcho, len_putBe16]; omega
  unfold pureEcho
  rw [if_neg hl]
  simp only [hdrEcho, putBe16, rd16, List.cons_append, List.nil_append, List.getD_cons_zero,
    List.getD_cons_succ, List.take_succ_cons, List.take_zero, List.drop_succ_cons, List.drop_zero,
    be16_put _ h1, be16_put _ h2]

theorem pureRS_enc (old l : RS) (h : wfOpts l.options) :
    pureRS old (zeros 4 ++ encOpts l.options) = ⟨{ old with options := l.options }, false, false⟩ := by
  have hl : ¬ (zeros 4 ++ encOpts l.options).length < 4 := by simp [zeros]
  unfold pureRS
  rw [if_neg hl]
  have hd : (zeros 4 ++ encOpts l.options).drop 4 = encOpts l.options := List.drop_left' (by simp [zeros])
  simp only [hd]
  rw [parseOpts_enc l.options h _ [] (by simp [zeros])]
  simp

theorem pureRA_enc (old l : RA)
    (h : l.hopLimit < 256 ∧ l.flags < 256 ∧ l.routerLifetime < 65536 ∧
      l.reachableTime < 4294967296 ∧ l.retransTimer < 4294967296 ∧ wfOpts l.options) :
    pureRA old (hdrRA l ++ encOpts l.options) =
      ⟨{ l with contents := hdrRA l ++ encOpts l.options, payload := [] }, false, false⟩ := by
  obtain ⟨h1, h2, h3, h4, h5, h6⟩ := h
  have hl : ¬ (hdrRA l ++ encOpts l.options).length < 12 := by simp [hdrRA_length]
  unfold pureRA
  rw [if_neg hl]
  have hd : (hdrRA l ++ encOpts l.options).drop 12 = encOpts l.options :=
    List.drop_left' (hdrRA_length l)
  simp only [hd]
  rw [parseOpts_enc l.options h6 _ [] (by simp [hdrRA_length])]
  simp only [hdrRA, putBe16, putBe32, rd16, rd32, List.cons_append, List.nil_append,
    List.getD_cons_zero, List.getD_cons_succ, be16_put _ h3, be32_put _ h4, be32_put _ h5,
    u8_toNat _ h1, u8_toNat _ h2]

theorem pureNS_enc (old l : NS) (h : l.targetAddress.length = 16 ∧ wfOpts l.options) :
    pureNS old (hdrNS l ++ encOpts l.options) =
      ⟨{ l with contents := hdrNS l ++ encOpts l.options, payload := [] }, false, false⟩ := by
  obtain ⟨h1, h2⟩ := h
  have hh : (hdrNS l).length = 20 := by simp [hdrNS, zeros, h1]
  have hl : ¬ (hdrNS l ++ encOpts l.options).length < 20 := by simp [hh]
  unfold pureNS
  rw [if_neg hl]
  have hd : (hdrNS l ++ encOpts l.options).drop 20 = encOpts l.options := List.drop_left' hh
  have ht : ((hdrNS l ++ encOpts l.options).drop 4).take 16 = l.targetAddress := by
    simp only [hdrNS, List.append_assoc]
    rw [List.drop_left' (by simp [zeros]), List.take_left' h1]
  simp only [hd, ht]
  rw [parseOpts_enc l.options h2 _ [] (by simp [hh])]
  simp

theorem pureNA_enc (old l : NA)
    (h : l.flags < 256 ∧ l.targetAddress.length = 16 ∧ wfOpts l.options) :
    pureNA old (hdrNA l ++ encOpts l.options) =
      ⟨{ l with contents := hdrNA l ++ encOpts l.options, payload := [] }, false, false⟩ := by
  obtain ⟨h0, h1, h2⟩ := h
  have hh : (hdrNA l).length = 20 := by simp [hdrNA, zeros, h1]
  have hl : ¬ (hdrNA l ++ encOpts l.options).length < 20 := by simp [hh]
  unfold pureNA
  rw [if_neg hl]
  have hd : (hdrNA l ++ encOpts l.options).drop 20 = encOpts l.options := List.drop_left' hh
  have ht : ((hdrNA l ++ encOpts l.options).drop 4).take 16 = l.targetAddress := by
    have : hdrNA l ++ encOpts l.options = ([u8 l.flags] ++ zeros 3) ++ (l.targetAddress ++ encOpts l.options) := by
      simp [hdrNA, List.append_assoc]
    rw [this, List.drop_left' (by simp [zeros]), List.take_left' h1]
  have hf : (hdrNA l ++ encOpts l.options).getD 0 0 = u8 l.flags := by simp [hdrNA]
  simp only [hd, ht, hf, u8_toNat _ h0]
  rw [parseOpts_enc l.options h2 _ [] (by simp [hh])]
  simp

theorem pureRedirect_enc (old l : Redirect)
    (h : l.targetAddress.length = 16 ∧ l.destinationAddress.length = 16 ∧ wfOpts l.options) :
    pureRedirect old (hdrRedirect l ++ encOpts l.options) =
      ⟨{ l with contents := hdrRedirect l ++ encOpts l.options, payload := [] }, false, false⟩ := by
  obtain ⟨h1, h2, h3⟩ := h
  have hh : (hdrRedirect l).length = 36 := by simp [hdrRedirect, zeros, h1, h2]
  have hl : ¬ (hdrRedirect l ++ encOpts l.options).length < 36 := by simp [hh]
  unfold pureRedirect
  rw [if_neg hl]
  have hd : (hdrRedirect l ++ encOpts l.options).drop 36 = encOpts l.options := List.drop_left' hh
  have ht : ((hdrRedirect l ++ encOpts l.options).drop 4).take 16 = l.targetAddress := by
    have : hdrRedirect l ++ encOpts l.options =
        zeros 4 ++ (l.targetAddress ++ (l.destinationAddress ++ encOpts l.options)) := by
      simp [hdrRedirect, List.append_assoc]
    rw [this, List.drop_left' (by simp [zeros]), List.take_left' h1]
  have hdd : ((hdrRedirect l ++ encOpts l.options).drop 20).take 16 = l.destinationAddress := by
    have : hdrRedirect l ++ encOpts l.options =
        (zeros 4 ++ l.targetAddress) ++ (l.destinationAddress ++ encOpts l.options) := by
      simp [hdrRedirect, List.append_assoc]
    rw [this, List.drop_left' (by simp [zeros, h1]), List.take_left' h2]
  simp only [hd, ht, hdd]
  rw [parseOpts_enc l.options h3 _ [] (by simp [hh])]
  simp

/-! ## Spec-level round trip for all kinds -/

/-- Replace BaseLayer (Contents, Payload). -/
def setBase : AnyLayer → Bytes → Bytes → AnyLayer
  | .icmp4 l, c, p => .icmp4 { l with contents := c, payload := p }
  | .icmp6 l, c, p => .icmp6 { l with contents := c, payload := p }
  | .echo l, c, p => .echo { l with contents := c, payload := p }
  | .rs l, c, p => .rs { l with contents := c, payload := p }
  | .ra l, c, p => .ra { l with contents := c, payload := p }
  | .ns l, c, p => .ns { l with contents := c, payload := p }
  | .na l, c, p => .na { l with contents := c, payload := p }
  | .redirect l, c, p => .redirect { l with contents := c, payload := p }

/-- SetNetworkLayerForChecksum (only ICMPv6 has the embedded tcpipchecksum). -/
def setNet : AnyLayer → Pseudo → AnyLayer
  | .icmp6 l, ps => .icmp6 { l with pseudo := ps }
  | l, _ => l

def netOf : AnyLayer → Pseudo
  | .icmp6 l => l.pseudo
  | _ => .absent

/-- ComputeChecksums needs the network layer: ICMPv6 must have a pseudo-header attached. -/
def hasNet : AnyLayer → Prop
  | .icmp6 l => l.pseudo ≠ .absent
  | _ => True

instance (l : AnyLayer) : Decidable (hasNet l) := by cases l <;> (unfold hasNet; infer_instance)

theorem strip_setBase (l : AnyLayer) (c p : Bytes) : strip (setBase l c p) = strip l := by
  cases l <;> rfl

theorem strip_setNet (l : AnyLayer) (ps : Pseudo) : strip (setNet l ps) = strip l := by
  cases l <;> rfl

theorem payload_setBase (l : AnyLayer) (c p : Bytes) : (setBase l c p).payload = p := by
  cases l <;> rfl

theorem sum_ne_none (ps : Pseudo) (h : ps ≠ .absent) : ∃ s, ps.sum = some s := by
  cases ps with
  | absent => exact absurd rfl h
  | v4 a b => exact ⟨_, rfl⟩
  | v6 a b => exact ⟨_, rfl⟩

/-- Decoding (into a fresh object) the bytes that `specAny` produces for an in-range layer over
    an allowed payload returns the serialised layer — same fields, same payload, no error, no
    truncation flag — and that layer is again in range. -/
theorem decode_spec_enc (l lf : AnyLayer) (p out : Bytes) (hwf : wf l) (hp : payloadAllowed l p)
    (e : specAny l p ⟨true, true⟩ = .ok (out, lf)) :
    wf lf ∧ lf.kind = l.kind ∧ netOf lf = netOf l ∧
    ∃ c, pureAny (fresh l.kind) out = ⟨setBase (setNet lf .absent) c p, false, false⟩ := by
  cases l with
  | icmp4 v =>
    obtain ⟨h1, h2, h3, h4⟩ := hwf
    simp only [specAny, specICMPv4, liftSpec] at e
    cases e
    have hr : (fixICMPv4 v p ⟨true, true⟩).typeCode < 65536 ∧ (fixICMPv4 v p ⟨true, true⟩).checksum < 65536 ∧
        (fixICMPv4 v p ⟨true, true⟩).id < 65536 ∧ (fixICMPv4 v p ⟨true, true⟩).seq < 65536 := by
      simp only [fixICMPv4, if_true]; exact ⟨h1, fold_lt _, h3, h4⟩
    refine ⟨hr, rfl, rfl, hdrICMPv4 (fixICMPv4 v p ⟨true, true⟩), ?_⟩
    simp only [pureAny, fresh, AnyLayer.kind, pureICMPv4_enc _ _ p hr]
    rfl
  | icmp6 v =>
    obtain ⟨h1, h2, h3⟩ := hwf
    simp only [specAny, specICMPv6] at e
    cases hf : fixICMPv6 v p ⟨true, true⟩ with
    | none => rw [hf] at e; cases e
    | some v' =>
      rw [hf] at e; simp only [liftSpec] at e; cases e
      have hv : v'.typeCode = v.typeCode ∧ v'.checksum < 65536 ∧ v'.typeBytes = v.typeBytes ∧
          v'.pseudo = v.pseudo := by
        simp only [fixICMPv6, if_true] at hf
        cases hp2 : v.pseudo.sum with
        | none => rw [hp2] at hf; cases hf
        | some ps =>
          rw [hp2] at hf; simp only [Option.some.injEq] at hf
          subst hf
          exact ⟨rfl, fold_lt _, rfl, rfl⟩
      obtain ⟨e1, e2, e3, e4⟩ := hv
      refine ⟨⟨by rw [e1]; exact h1, e2, by rw [e3]; exact h3⟩, rfl, e4, hdrICMPv6 v', ?_⟩
      simp only [pureAny, fresh, AnyLayer.kind, pureICMPv6_enc _ v' p ⟨by rw [e1]; exact h1, e2⟩]
      simp only [setNet, setBase]
      have : v' = { v' with typeBytes := [] } := by rw [← h3, ← e3]
      rw [this]
  | echo v =>
    simp only [specAny, specEcho, liftSpec] at e
    cases e
    refine ⟨hwf, rfl, rfl, hdrEcho v, ?_⟩
    simp only [pureAny, fresh, AnyLayer.kind, pureEcho_enc _ _ p hwf]
    rfl
  | rs v =>
    simp only [payloadAllowed] at hp; subst hp
    simp only [specAny, specRS, liftSpec] at e
    cases e
    refine ⟨hwf, rfl, rfl, [], ?_⟩
    simp only [pureAny, fresh, AnyLayer.kind, List.append_nil, pureRS_enc _ v hwf]
    rfl
  | ra v =>
    simp only [payloadAllowed] at hp; subst hp
    simp only [specAny, specRA, liftSpec] at e
    cases e
    refine ⟨hwf, rfl, rfl, hdrRA v ++ encOpts v.options, ?_⟩
    simp only [pureAny, fresh, AnyLayer.kind, List.append_nil, pureRA_enc _ v hwf]
    rfl
  | ns v =>
    simp only [payloadAllowed] at hp; subst hp
    simp only [specAny, specNS, hwf.1, if_true, liftSpec] at e
    cases e
    refine ⟨hwf, rfl, rfl, hdrNS v ++ encOpts v.options, ?_⟩
    simp only [pureAny, fresh, AnyLayer.kind, List.append_nil, pureNS_enc _ v hwf]
    rfl
  | na v =>
    simp only [payloadAllowed] at hp; subst hp
    simp only [specAny, specNA, hwf.2.1, if_true, liftSpec] at e
    cases e
    refine ⟨hwf, rfl, rfl, hdrNA v ++ encOpts v.options, ?_⟩
    simp only [pureAny, fresh, AnyLayer.kind, List.append_nil, pureNA_enc _ v hwf]
    rfl
  | redirect v =>
    simp only [payloadAllowed] at hp; subst hp
    simp only [specAny, specRedirect, hwf.1, hwf.2.1, if_true, liftSpec] at e
    cases e
    refine ⟨hwf, rfl, rfl, hdrRedirect v ++ encOpts v.options, ?_⟩
    simp only [pureAny, fresh, AnyLayer.kind, List.append_nil, pureRedirect_enc _ v hwf]
    rfl

/-- An in-range layer with (for ICMPv6) a network layer attached serialises without error. -/
theorem spec_ok_of_wf (l : AnyLayer) (p : Bytes) (hwf : wf l) (hn : hasNet l) :
    ∃ out lf, specAny l p ⟨true, true⟩ = .ok (out, lf) := by
  cases l with
  | icmp4 v => exact ⟨_, _, rfl⟩
  | icmp6 v =>
    obtain ⟨s, hs⟩ := sum_ne_none v.pseudo hn
    simp only [specAny, specICMPv6, fixICMPv6, if_true, hs, liftSpec]
    exact ⟨_, _, rfl⟩
  | echo v => exact ⟨_, _, rfl⟩
  | rs v => exact ⟨_, _, rfl⟩
  | ra v => exact ⟨_, _, rfl⟩
  | ns v => simp only [specAny, specNS, hwf.1, if_true, liftSpec]; exact ⟨_, _, rfl⟩
  | na v => simp only [specAny, specNA, hwf.2.1, if_true, liftSpec]; exact ⟨_, _, rfl⟩
  | redirect v =>
    simp only [specAny, specRedirect, hwf.1, hwf.2.1, if_true, liftSpec]; exact ⟨_, _, rfl⟩

/-- The serializers never read Contents/Payload. -/
theorem spec_setBase (l lf : AnyLayer) (c q p out : Bytes) (o : SOpts)
    (e : specAny l p o = .ok (out, lf)) :
    specAny (setBase l c q) p o = .ok (out, setBase lf c q) := by
  cases l with
  | icmp4 v =>
    simp only [specAny, specICMPv4, liftSpec] at e; cases e
    simp only [setBase, specAny, specICMPv4, liftSpec, fixICMPv4]
    split <;> rfl
  | icmp6 v =>
    simp only [specAny, specICMPv6] at e
    cases hf : fixICMPv6 v p o with
    | none => rw [hf] at e; cases e
    | some v' =>
      rw [hf] at e; simp only [liftSpec] at e; cases e
      have : fixICMPv6 { v with contents := c, payload := q } p o = some { v' with contents := c, payload := q } := by
        unfold fixICMPv6 at hf ⊢
        split at hf
        · rename_i hc
          rw [if_pos hc]
          cases hp : v.pseudo.sum with
          | none => rw [hp] at hf; cases hf
          | some ps =>
            rw [hp] at hf; simp only [Option.some.injEq] at hf
            subst hf
            simp only [hp]
            rfl
        · rename_i hc
          rw [if_neg hc]; cases hf; rfl
      simp only [setBase, specAny, specICMPv6, this, liftSpec]
      rfl
  | echo v => simp only [specAny, specEcho, liftSpec] at e; cases e; rfl
  | rs v => simp only [specAny, specRS, liftSpec] at e; cases e; rfl
  | ra v => simp only [specAny, specRA, liftSpec] at e; cases e; rfl
  | ns v =>
    simp only [specAny, specNS] at e
    split at e
    · rename_i ht; simp only [liftSpec] at e; cases e
      simp only [setBase, specAny, specNS, ht, if_true, liftSpec]; rfl
    · cases e
  | na v =>
    simp only [specAny, specNA] at e
    split at e
    · rename_i ht; simp only [liftSpec] at e; cases e
      simp only [setBase, specAny, specNA, ht, if_true, liftSpec]; rfl
    · cases e
  | redirect v =>
    simp only [specAny, specRedirect] at e
    split at e
    · rename_i ht
      split at e
      · rename_i hd; simp only [liftSpec] at e; cases e
        simp only [setBase, specAny, specRedirect, ht, hd, if_true, liftSpec]; rfl
      · cases e
    · cases e

theorem setNet_setBase (l : AnyLayer) (c q : Bytes) (ps : Pseudo) :
    setNet (setBase l c q) ps = setBase (setNet l ps) c q := by
  cases l <;> rfl

theorem setNet_netOf (l : AnyLayer) (ps : Pseudo) : setNet (setNet l ps) (netOf l) = l := by
  cases l <;> rfl

/-! ## Everything a decoder produces is in range -/

theorem be16_lt (a b : UInt8) : be16 a b < 65536 := by
  have := a.toNat_lt; have := b.toNat_lt
  simp only [be16]; omega

theorem be32_lt (a b c d : UInt8) : be32 a b c d < 4294967296 := by
  have := a.toNat_lt; have := b.toNat_lt; have := c.toNat_lt; have := d.toNat_lt
  simp only [be32]; omega

theorem rd16_lt (d : Bytes) (i : Nat) : rd16 d i < 65536 := be16_lt _ _
theorem rd32_lt (d : Bytes) (i : Nat) : rd32 d i < 4294967296 := be32_lt _ _ _ _

theorem parseOpts_wf (fuel : Nat) : ∀ (d : Bytes) (acc : List Opt), wfOpts acc →
    wfOpts (parseOpts fuel d acc).layer := by
  induction fuel with
  | zero =>
    intro d acc h
    cases d <;> simpa [parseOpts] using h
  | succ f ih =>
    intro d acc h
    match d with
    | [] => simpa [parseOpts] using h
    | [x] => simpa [parseOpts] using h
    | t :: lb :: rest =>
      unfold parseOpts
      split
      · exact h
      · split
        · exact h
        · rename_i h0 h1
          apply ih
          intro o ho
          rcases List.mem_append.1 ho with ho | ho
          · exact h o ho
          · simp only [List.mem_singleton] at ho
            subst ho
            have hlb := lb.toNat_lt
            have hlen : (rest.take (lb.toNat * 8 - 2)).length = lb.toNat * 8 - 2 := by
              rw [List.length_take]; omega
            refine ⟨t.toNat_lt, ?_, ?_⟩ <;> simp only [hlen] <;> omega

theorem length_take_drop (d : Bytes) (a n : Nat) (h : a + n ≤ d.length) :
    ((d.drop a).take n).length = n := by
  rw [List.length_take, List.length_drop]; omega

/-- Every successfully decoded layer is in range (`Untouched`: the never-assigned fields of the
    object still have their zero value — always the case along decode histories, C05). -/
theorem pureAny_wf (old : AnyLayer) (d : Bytes) (hu : Untouched old)
    (he : (pureAny old d).err = false) : wf (pureAny old d).layer := by
  cases old with
  | icmp4 v =>
    simp only [pureAny, pureICMPv4] at he ⊢
    split at he
    · cases he
    · rename_i hl; rw [if_neg hl]
      exact ⟨rd16_lt _ _, rd16_lt _ _, rd16_lt _ _, rd16_lt _ _⟩
  | icmp6 v =>
    simp only [pureAny, pureICMPv6] at he ⊢
    split at he
    · cases he
    · rename_i hl; rw [if_neg hl]
      exact ⟨rd16_lt _ _, rd16_lt _ _, hu.1⟩
  | echo v =>
    simp only [pureAny, pureEcho] at he ⊢
    split at he
    · cases he
    · rename_i hl; rw [if_neg hl]
      exact ⟨rd16_lt _ _, rd16_lt _ _⟩
  | rs v =>
    simp only [pureAny, pureRS] at he ⊢
    split at he
    · cases he
    · rename_i hl; rw [if_neg hl]
      exact parseOpts_wf _ _ _ (fun _ h => by cases h)
  | ra v =>
    simp only [pureAny, pureRA] at he ⊢
    split at he
    · cases he
    · rename_i hl; rw [if_neg hl]
      exact ⟨(d.getD 0 0).toNat_lt, (d.getD 1 0).toNat_lt, rd16_lt _ _, rd32_lt _ _, rd32_lt _ _,
        parseOpts_wf _ _ _ (fun _ h => by cases h)⟩
  | ns v =>
    simp only [pureAny, pureNS] at he ⊢
    split at he
    · cases he
    · rename_i hl; rw [if_neg hl]
      exact ⟨length_take_drop d 4 16 (by omega), parseOpts_wf _ _ _ (fun _ h => by cases h)⟩
  | na v =>
    simp only [pureAny, pureNA] at he ⊢
    split at he
    · cases he
    · rename_i hl; rw [if_neg hl]
      exact ⟨(d.getD 0 0).toNat_lt, length_take_drop d 4 16 (by omega),
        parseOpts_wf _ _ _ (fun _ h => by cases h)⟩
  | redirect v =>
    simp only [pureAny, pureRedirect] at he ⊢
    split at he
    · cases he
    · rename_i hl; rw [if_neg hl]
      exact ⟨length_take_drop d 4 16 (by omega), length_take_drop d 20 16 (by omega),
        parseOpts_wf _ _ _ (fun _ h => by cases h)⟩

/-! ## The option renderer -/

def optionsOf : AnyLayer → List Opt
  | .rs l => l.options | .ra l => l.options | .ns l => l.options | .na l => l.options
  | .redirect l => l.options | _ => []

theorem wf_options (l : AnyLayer) (h : wf l) : wfOpts (optionsOf l) := by
  cases l with
  | icmp4 v => intro _ hx; cases hx
  | icmp6 v => intro _ hx; cases hx
  | echo v => intro _ hx; cases hx
  | rs v => exact h
  | ra v => exact h.2.2.2.2.2
  | ns v => exact h.2
  | na v => exact h.2.2
  | redirect v => exact h.2.2

theorem wfOpt_len (o : Opt) (h : wfOpt o) : 6 ≤ o.data.length := by
  obtain ⟨_, h2, _⟩ := h; omega

theorem forM_ok (xs : List Nat) (f : Nat → Res Unit) (h : ∀ x ∈ xs, f x = .ok ()) :
    xs.forM f = .ok () := by
  induction xs with
  | nil => rfl
  | cons x xs ih =>
    show (f x >>= fun _ => xs.forM f) = _
    rw [h x (List.mem_cons_self ..)]
    exact ih (fun y hy => h y (List.mem_cons_of_mem _ hy))

theorem index_ex (s : Bytes) (i : Nat) (h : i < s.length) : ∃ x, index s i = .ok x :=
  ⟨s[i], by simp [index, List.getElem?_eq_getElem h]⟩

theorem sliceLen_ok (s : Bytes) (a b : Nat) (h : a ≤ b ∧ b ≤ s.length) :
    ∃ r, sliceLen s a b = .ok r := by
  simp [sliceLen, h]

/-- All slice/index expressions of ICMPv6Option.String are in range when the option has at least
    six data bytes. -/
theorem optStringAccess_ok (o : Opt) (h : 6 ≤ o.data.length) : optStringAccess o = .ok () := by
  unfold optStringAccess
  split
  · obtain ⟨r, hr⟩ := sliceLen_ok o.data 2 6 ⟨by omega, h⟩
    rw [hr]; simp only [Res.bind_ok]
    apply forM_ok
    intro j hj
    have hj' : j < (o.data.length - 6) / 16 := List.mem_range.1 hj
    have : 6 + (j + 1) * 16 ≤ o.data.length := by
      have := Nat.div_mul_le_self (o.data.length - 6) 16
      have : (j + 1) * 16 ≤ (o.data.length - 6) / 16 * 16 := Nat.mul_le_mul_right 16 hj'
      omega
    obtain ⟨r2, hr2⟩ := sliceLen_ok o.data (6 + j * 16) (6 + (j + 1) * 16) ⟨by omega, this⟩
    rw [hr2]; rfl
  · split
    · rename_i hp
      have hl := hp.2
      obtain ⟨r1, e1⟩ := sliceLen_ok o.data 2 6 ⟨by omega, by omega⟩
      obtain ⟨r2, e2⟩ := sliceLen_ok o.data 6 10 ⟨by omega, by omega⟩
      obtain ⟨r3, e3⟩ := sliceLen_ok o.data 14 30 ⟨by omega, by omega⟩
      have i0 := index_ex o.data 0 (by omega)
      have i1 := index_ex o.data 1 (by omega)
      obtain ⟨x0, e0⟩ := i0
      obtain ⟨x1, e1'⟩ := i1
      rw [e0]; simp only [Res.bind_ok]
      rw [e1']; simp only [Res.bind_ok]
      rw [e1]; simp only [Res.bind_ok]
      rw [e2]; simp only [Res.bind_ok]
      rw [e3]; rfl
    · split
      · obtain ⟨r1, e1⟩ := sliceLen_ok o.data 2 6 ⟨by omega, by omega⟩
        rw [e1]; rfl
      · rfl

end Gp.Icmp
