import Gp.Lemmas.Layers.Ip6RtIp3
/-
  Every successfully decoded layer is well formed (C06 `decoded_wf`).  Core Lean only.
-/
namespace Gp.Ip6
open Gp Gp.Gen.Ip6

/-- What decoding guarantees about one option. -/
def Tlv.decoded (o : Tlv) : Prop :=
  o.typ < 256 ∧ o.len < 256 ∧ o.bytes.length = o.len ∧ o.ax = 0 ∧ o.ay = 0 ∧
  o.alen = (if o.typ = 0 then 1 else o.len + 2)

theorem decodeTlvSpec_decoded (b : Bytes) (o : Tlv) (tr : Bool) (h : decodeTlvSpec b = (.ok o, tr)) :
    o.decoded := by
  unfold decodeTlvSpec at h
  split at h
  · simp at h
  · split at h
    · simp only [Prod.mk.injEq, Res.ok.injEq] at h
      rw [← h.1]; simp [Tlv.decoded, pad1, Tlv.bytes]
    · split at h
      · simp at h
      · split at h
        · simp at h
        · rename_i t ht _rest l d hlt
          simp only [Prod.mk.injEq, Res.ok.injEq] at h
          rw [← h.1]
          have h1 := t.toNat_lt
          have h2 := l.toNat_lt
          have ht0 : t.toNat ≠ 0 := by
            intro hz; apply ht
            exact UInt8.toNat_inj.1 (by simpa using hz)
          refine ⟨by simpa using h1, by simpa using h2, ?_, rfl, rfl, ?_⟩
          · simp [Tlv.bytes, List.length_take]; omega
          · simp [ht0]

def sumAlen (os : List Tlv) : Nat := (os.map (·.alen)).sum

theorem tlvAreaSpec_ok_facts : ∀ (fuel : Nat) (area : Bytes), (tlvAreaSpec fuel area).2.2 = .ok () →
    (∀ o ∈ (tlvAreaSpec fuel area).1, o.decoded) ∧ sumAlen (tlvAreaSpec fuel area).1 = area.length ∧
    (tlvAreaSpec fuel area).2.1 = false := by
  intro fuel
  induction fuel with
  | zero =>
    intro area h
    match area with
    | [] => simp [tlvAreaSpec, sumAlen]
    | _ :: _ => simp [tlvAreaSpec] at h
  | succ fuel ih =>
    intro area h
    match area with
    | [] => simp [tlvAreaSpec, sumAlen]
    | a :: as =>
      simp only [tlvAreaSpec] at h ⊢
      match hd : decodeTlvSpec (a :: as) with
      | (.panic k, tr) => rw [hd] at h; simp at h
      | (.err e, tr) => rw [hd] at h; simp at h
      | (.ok o, tr) =>
        rw [hd] at h
        simp only at h ⊢
        obtain ⟨g1, g2, g3⟩ := decodeTlvSpec_ok _ o tr hd
        obtain ⟨f1, f2, f3⟩ := ih _ h
        refine ⟨?_, ?_, by rw [g3, f3]; rfl⟩
        · intro x hx
          rcases List.mem_cons.1 hx with rfl | hx
          · exact decodeTlvSpec_decoded _ _ _ hd
          · exact f1 x hx
        · simp only [sumAlen, List.map_cons, List.sum_cons] at f2 ⊢
          rw [f2, List.length_drop]
          omega

theorem encLoop_decoded : ∀ (ds : List Tlv) (k : Nat), (∀ o ∈ ds, o.decoded) →
    (encLoop true ds k).2 = k + sumAlen ds := by
  intro ds
  induction ds with
  | nil => intro k _; simp [encLoop, sumAlen]
  | cons o ds ih =>
    intro k h
    obtain ⟨-, h2, h3, h4, -, h6⟩ := h o List.mem_cons_self
    have hpad : alignPad true o k = 0 := by simp [alignPad, h4]
    have hol : optLen (fixOpt true o) = o.alen := by
      unfold optLen fixOpt
      by_cases h0 : o.typ = 0
      · simp [h0, h6]
      · simp only [h0, if_false, if_true, h6, h3]
        rw [Nat.mod_eq_of_lt h2]
    simp only [encLoop, hpad, hol, ih _ (fun x hx => h x (List.mem_cons_of_mem _ hx)), sumAlen,
      List.map_cons, List.sum_cons]
    omega

/-- A successfully decoded hop-by-hop / destination header is in range (`TlvExt.wf`). -/
theorem tlvExtSpec_wf (old : TlvExt) (b : Bytes) (h : (tlvExtSpec old b).res = .ok ()) :
    (tlvExtSpec old b).layer.wf ∧ (tlvExtSpec old b).tr = false := by
  unfold tlvExtSpec at h ⊢
  match hb : extBaseSpec b with
  | (.panic p, tr) => rw [hb] at h; simp at h
  | (.err e, tr) => rw [hb] at h; simp at h
  | (.ok base, tr) =>
    rw [hb] at h
    simp only at h ⊢
    obtain ⟨h8, hal, htr, hc, hp, hale⟩ := extBaseSpec_ok b base tr hb
    obtain ⟨f1, f2, f3⟩ := tlvAreaSpec_ok_facts _ _ h
    have hnh : base.nextHeader < 256 ∧ base.headerLength < 256 := by
      unfold extBaseSpec at hb
      split at hb
      · dsimp only at hb
        split at hb
        · simp at hb
        · simp only [Prod.mk.injEq, Res.ok.injEq] at hb
          rw [← hb.1]
          rename_i nh hl _ _
          exact ⟨nh.toNat_lt, hl.toNat_lt⟩
      · simp at hb
    refine ⟨⟨hnh.1, ?_, ?_⟩, by rw [htr, f3]; rfl⟩
    · intro o ho
      obtain ⟨d1, d2, d3, d4, d5, -⟩ := f1 o ho
      exact ⟨d1, d2, by omega, by omega, by omega⟩
    · have hlen : ((b.take base.actualLength).drop 2).length = base.actualLength - 2 := by
        rw [List.length_drop, List.length_take]; omega
      have hl := encLoop_decoded _ 2 f1
      rw [f2, hlen] at hl
      unfold encLen finalPad
      simp only [if_true]
      rw [hl]
      omega

end Gp.Ip6
