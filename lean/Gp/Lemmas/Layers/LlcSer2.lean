import Gp.Lemmas.Layers.LlcSer
/-
  Helper lemmas for engine `lllc`, part 4: SerializeTo = its functional specification, on every
  buffer satisfying the C18 invariant.
-/
namespace Gp.Llc
open Gp Gp.SBuf Gp.C18 Gp.Gen.Llc

/-! ## LLC -/

theorem llc_body_refines (l : LLC) (b : SBuf) (length : Nat) (hlen : length = 3 ∨ length = 4) (h : Inv b) :
    ∃ o, l.serializeBody b length = .ok o ∧ Inv o.buf ∧
      o.layer = (llcSerSpecWith l length (contents b)).layer ∧ o.err = (llcSerSpecWith l length (contents b)).err ∧
      ((llcSerSpecWith l length (contents b)).err = false →
        contents o.buf = (llcSerSpecWith l length (contents b)).bytes) := by
  unfold LLC.serializeBody llcSerSpecWith
  by_cases hd : l.dsap &&& 0x1 ≠ 0
  · simp only [if_pos hd]; exact ⟨_, rfl, h, rfl, rfl, fun hh => by cases hh⟩
  by_cases hs : l.ssap &&& 0x1 ≠ 0
  · simp only [if_neg hd, if_pos hs]; exact ⟨_, rfl, h, rfl, rfl, fun hh => by cases hh⟩
  simp only [if_neg hd, if_neg hs]
  obtain ⟨hh, hn, hdrop, hl⟩ := prepend_hdr b length h
  generalize prepend b length = r at hh hn hdrop hl
  obtain ⟨b1, w⟩ := r
  simp only at hh hn hdrop hl ⊢
  have t0 := track_init b1 w hh
  generalize hC : contents b1 = C at t0 hdrop
  have t1 := track_fill b1 w C [] [u8 (l.dsap + (if l.ig then 1 else 0))] 0 1 t0 rfl (by simp only [List.length_singleton]; omega)
  have t2 := track_fill _ w C _ [u8 (l.ssap + (if l.cr then 1 else 0))] 1 1 t1 rfl (by simp only [List.length_singleton]; omega)
  rcases hlen with h3 | h4
  · subst h3
    have t3 := track_fill _ w C _ [u8 l.control] 2 1 t2 rfl (by simp only [List.length_singleton]; omega)
    have hfin := track_done _ b1 w _ 3 (by rw [hC]; exact t3) rfl (contents b) (by rw [hC]; exact hdrop)
    simp only [store, hn, Nat.lt_irrefl, Nat.reduceLT, if_true, Res.bind_ok, Nat.reduceEqDiff, if_false, pure, bind, Res.bind]
    exact ⟨_, rfl, hfin.1, rfl, rfl, fun _ => hfin.2⟩
  · subst h4
    have t3 := track_fill _ w C _ [u8 (l.control >>> 8)] 2 1 t2 rfl (by simp only [List.length_singleton]; omega)
    have t4 := track_fill _ w C _ [u8 l.control] 3 1 t3 rfl (by simp only [List.length_singleton]; omega)
    have hfin := track_done _ b1 w _ 4 (by rw [hC]; exact t4) rfl (contents b) (by rw [hC]; exact hdrop)
    simp only [store, hn, Nat.lt_irrefl, Nat.reduceLT, if_true, Res.bind_ok, pure, bind, Res.bind]
    exact ⟨_, rfl, hfin.1, rfl, rfl, fun _ => hfin.2⟩

theorem llc_serializeTo_refines (l : LLC) (b : SBuf) (fix csum : Bool) (h : Inv b) :
    ∃ o, l.serializeTo b fix csum = .ok o ∧ Inv o.buf ∧
      o.layer = (llcSerSpec l (contents b)).layer ∧ o.err = (llcSerSpec l (contents b)).err ∧
      ((llcSerSpec l (contents b)).err = false → contents o.buf = (llcSerSpec l (contents b)).bytes) := by
  have hl : llcLen l = 3 ∨ llcLen l = 4 := by unfold llcLen; split <;> simp
  exact llc_body_refines l b (llcLen l) hl h

/-! ## SNAP -/

theorem three_of_length (x : Bytes) (h : ¬ x.length < 3) : ∃ a b c r, x = a :: b :: c :: r := by
  match x, h with
  | a :: b :: c :: r, _ => exact ⟨a, b, c, r, rfl⟩
  | [], h => exact absurd (by simp) h
  | [_], h => exact absurd (by simp) h
  | [_, _], h => exact absurd (by simp) h

theorem snap_serializeTo_refines (l : SNAP) (b : SBuf) (fix csum : Bool) (h : Inv b) :
    ∃ o, l.serializeTo b fix csum = .ok o ∧ Inv o.buf ∧
      o.layer = (snapSerSpec l (contents b)).layer ∧ o.err = (snapSerSpec l (contents b)).err ∧
      ((snapSerSpec l (contents b)).err = false → contents o.buf = (snapSerSpec l (contents b)).bytes) := by
  unfold SNAP.serializeTo snapSerSpec
  by_cases hs : l.org.length < 3
  · simp only [if_pos hs]; exact ⟨_, rfl, h, rfl, rfl, fun hh => by cases hh⟩
  simp only [if_neg hs]
  obtain ⟨x0, x1, x2, xr, horg⟩ := three_of_length l.org hs
  unfold SNAP.serializeBody
  obtain ⟨hh, hn, hdrop, hl⟩ := prepend_hdr b 5 h
  generalize prepend b 5 = r at hh hn hdrop hl
  obtain ⟨b1, w⟩ := r
  simp only at hh hn hdrop hl ⊢
  have t0 := track_init b1 w hh
  generalize hC : contents b1 = C at t0 hdrop
  have t1 := track_fill b1 w C [] [x0] 0 1 t0 rfl (by simp only [List.length_singleton]; omega)
  have t2 := track_fill _ w C _ [x1] 1 1 t1 rfl (by simp only [List.length_singleton]; omega)
  have t3 := track_fill _ w C _ [x2] 2 1 t2 rfl (by simp only [List.length_singleton]; omega)
  have t4 := track_fill _ w C _ (putBe16 l.type) 3 2 t3 rfl (by rw [putBe16_length]; omega)
  have hfin := track_done _ b1 w _ 5 (by rw [hC]; exact t4) rfl (contents b) (by rw [hC]; exact hdrop)
  simp only [orgIndex, Gp.index, horg, store, winSlice, putUint16, hn, Nat.reduceLT, Nat.reduceLeDiff, and_self,
    if_true, if_false, Nat.reduceSub, Nat.lt_irrefl, pure, bind, Res.bind,
    List.getElem?_cons_zero, List.getElem?_cons_succ, List.take_succ_cons, List.take_zero]
  exact ⟨_, rfl, hfin.1, rfl, rfl, fun _ => hfin.2⟩

end Gp.Llc
