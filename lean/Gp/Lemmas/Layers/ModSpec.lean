import Gp.Lemmas.Layers.Mod
/-
  Helper lemmas for engine `lmod`, part 2: LCM / PFLog DecodeFromBytes and decodeFDDI = their
  functional specifications; facts about the specifications.  Core Lean only.
-/
namespace Gp.Mod
open Gp Gp.Gen.Mod

/-- `tailLayer` overwrites Contents and Payload: it depends on the other nine fields only. -/
theorem tailLayer_congr (a b : LCM) (v : Bytes) (off : Nat)
    (h : { a with contents := [], payload := [] } = { b with contents := [], payload := [] }) :
    tailLayer a v off = tailLayer b v off := by
  cases a; cases b
  simp only [LCM.mk.injEq, and_true] at h
  obtain ⟨h1, h2, h3, h4, h5, h6, h7, h8, h9⟩ := h
  subst h1 h2 h3 h4 h5 h6 h7 h8 h9
  unfold tailLayer LCM.hasName
  simp only
  split <;> split <;> rfl

theorem GSlice.slice_ok' (s : GSlice) (a b n : Nat) (hn : b = a + n) (hb : b ≤ s.len) :
    s.slice a b = .ok { vis := (s.vis.drop a).take n, tail := s.vis.drop b ++ s.tail } := by
  rw [GSlice.slice_ok s a b (by omega) hb]
  have : b - a = n := by omega
  rw [this]

theorem LCM.decode_eq (old : LCM) (d : GSlice) :
    old.decodeFromBytes d = .ok (lcmDecSpec old d.vis) := by
  unfold LCM.decodeFromBytes lcmDecSpec
  by_cases hs : d.len < 8
  · rw [if_pos hs, if_pos (show d.vis.length < 8 from hs)]
  · have hl : 8 ≤ d.vis.length := by unfold GSlice.len at hs; omega
    have hl' : 8 ≤ d.len := hl
    rw [if_neg hs, if_neg (show ¬ d.vis.length < 8 by omega)]
    rw [GSlice.slice_ok' d 0 4 4 rfl (by omega), Res.bind_ok]
    rw [uint32_vis d.vis _ 0 (by omega), Res.bind_ok]
    by_cases hm : u32At d.vis 0 ≠ lcmShortHeaderMagic ∧ u32At d.vis 0 ≠ lcmFragmentedHeaderMagic
    · rw [if_pos hm, if_pos hm]; rfl
    · rw [if_neg hm, if_neg hm]
      rw [GSlice.slice_ok' d 4 8 4 rfl (by omega), Res.bind_ok]
      rw [uint32_vis d.vis _ 4 (by omega), Res.bind_ok]
      by_cases hf : u32At d.vis 0 = lcmFragmentedHeaderMagic
      · rw [if_pos hf]
        by_cases h20 : d.len < 8 + 12
        · rw [if_pos h20, if_pos ⟨hf, (show d.vis.length < 20 from h20)⟩]; rfl
        · rw [if_neg h20, if_neg (fun hh => h20 hh.2)]
          have hl2 : 20 ≤ d.vis.length := by unfold GSlice.len at h20; omega
          have hl2' : 20 ≤ d.len := hl2
          rw [GSlice.slice_ok' d 8 12 4 rfl (by omega), Res.bind_ok]
          rw [uint32_vis d.vis _ 8 (by omega), Res.bind_ok]
          rw [GSlice.slice_ok' d 12 16 4 rfl (by omega), Res.bind_ok]
          rw [uint32_vis d.vis _ 12 (by omega), Res.bind_ok]
          rw [GSlice.slice_ok' d 16 18 2 rfl (by omega), Res.bind_ok]
          rw [uint16_vis d.vis _ 16 (by omega), Res.bind_ok]
          rw [GSlice.slice_ok' d 18 20 2 rfl (by omega), Res.bind_ok]
          rw [uint16_vis d.vis _ 18 (by omega), Res.bind_ok]
          rw [LCM.decodeTail_eq _ d 20 hl2']
          refine congrArg (fun l : LCM => (Res.ok { layer := l, trunc := false, err := false } : Res (DecOut LCM))) ?_
          unfold lcmLayer lcmHdrLen
          rw [if_pos hf]
          apply tailLayer_congr
          unfold lcmPre
          rw [if_pos hf]
          cases old
          rfl
      · rw [if_neg hf, if_neg (fun hh => hf hh.1)]
        rw [LCM.decodeTail_eq _ d 8 hl']
        refine congrArg (fun l : LCM => (Res.ok { layer := l, trunc := false, err := false } : Res (DecOut LCM))) ?_
        unfold lcmLayer lcmHdrLen
        rw [if_neg hf]
        apply tailLayer_congr
        unfold lcmPre
        rw [if_neg hf]
        cases old
        rfl

theorem PFLog.decode_eq (old : PFLog) (d : GSlice) :
    old.decodeFromBytes d = .ok (pflogDecSpec old d.vis) := by
  unfold PFLog.decodeFromBytes pflogDecSpec
  by_cases hs : d.len < 61
  · rw [if_pos hs, if_pos (show d.vis.length < 61 from hs)]
  · have hl : 61 ≤ d.vis.length := by unfold GSlice.len at hs; omega
    have hl' : 61 ≤ d.len := hl
    rw [if_neg hs, if_neg (show ¬ d.vis.length < 61 by omega)]
    rw [GSlice.index_ok d 0 (by omega), Res.bind_ok]
    rw [GSlice.index_ok d 1 (by omega), Res.bind_ok]
    rw [GSlice.index_ok d 2 (by omega), Res.bind_ok]
    rw [GSlice.index_ok d 3 (by omega), Res.bind_ok]
    rw [GSlice.slice_ok' d 4 20 16 rfl (by omega), Res.bind_ok]
    rw [GSlice.slice_ok' d 20 36 16 rfl (by omega), Res.bind_ok]
    rw [GSlice.slice_ok' d 36 40 4 rfl (by omega), Res.bind_ok]
    rw [uint32_vis d.vis _ 36 (by omega), Res.bind_ok]
    rw [GSlice.slice_ok' d 40 44 4 rfl (by omega), Res.bind_ok]
    rw [uint32_vis d.vis _ 40 (by omega), Res.bind_ok]
    rw [GSlice.slice_ok' d 44 48 4 rfl (by omega), Res.bind_ok]
    rw [uint32_vis d.vis _ 44 (by omega), Res.bind_ok]
    rw [GSlice.slice_ok' d 48 52 4 rfl (by omega), Res.bind_ok]
    rw [uint32_vis d.vis _ 48 (by omega), Res.bind_ok]
    rw [GSlice.slice_ok' d 52 56 4 rfl (by omega), Res.bind_ok]
    rw [uint32_vis d.vis _ 52 (by omega), Res.bind_ok]
    rw [GSlice.slice_ok' d 56 60 4 rfl (by omega), Res.bind_ok]
    rw [uint32_vis d.vis _ 56 (by omega), Res.bind_ok]
    rw [GSlice.index_ok d 60 (by omega), Res.bind_ok]
    show (if d.len < pfActual d.vis then _ else _) = _
    by_cases ha : d.len < pfActual d.vis
    · rw [if_pos ha, if_pos (show d.vis.length < pfActual d.vis from ha)]; rfl
    · rw [if_neg ha, if_neg (show ¬ d.vis.length < pfActual d.vis from ha)]
      have ha' : pfActual d.vis ≤ d.len := by omega
      show (GSlice.slice d 0 (pfActual d.vis) >>= _) = _
      rw [GSlice.slice_ok d 0 _ (by omega) ha', Res.bind_ok]
      show (GSlice.sliceFrom d (pfActual d.vis) >>= _) = _
      rw [GSlice.sliceFrom_ok d _ ha', Res.bind_ok]
      simp only [List.drop_zero, Nat.sub_zero]
      rfl

/-! ## 5. The decoder function of FDDI = its functional specification -/

theorem decodeFDDI_eq (d : GSlice) : decodeFDDI d = .ok (fddiSpec d.vis) := by
  unfold decodeFDDI fddiSpec
  by_cases hs : d.len < 13
  · rw [if_pos hs, if_pos (show d.vis.length < 13 from hs)]
  · have hl : 13 ≤ d.vis.length := by unfold GSlice.len at hs; omega
    have hl' : 13 ≤ d.len := hl
    rw [if_neg hs, if_neg (show ¬ d.vis.length < 13 by omega)]
    rw [GSlice.index_ok d 0 (by omega)]
    simp only [Res.bind_ok]
    rw [GSlice.slice_ok d 1 7 (by omega) (by omega), Res.bind_ok]
    rw [GSlice.slice_ok d 7 13 (by omega) (by omega), Res.bind_ok]
    rw [GSlice.slice_ok d 0 13 (by omega) (by omega), Res.bind_ok]
    rw [GSlice.sliceFrom_ok d 13 hl', Res.bind_ok]
    simp only [List.drop_zero, Nat.sub_zero, Nat.reduceSub, pure, fddiLayer]

/-! ## 6. Facts about the specifications -/

theorem modbusDecSpec_payload_le (old : ModbusTCP) (v : Bytes) (h : (modbusDecSpec old v).err = false) :
    (modbusDecSpec old v).layer.payload.length + 7 = v.length := by
  unfold modbusDecSpec at h ⊢
  by_cases h1 : v.length < 9
  · rw [if_pos h1] at h; cases h
  · rw [if_neg h1] at h ⊢
    by_cases h2 : v.length > 260
    · rw [if_pos h2] at h; cases h
    · rw [if_neg h2] at h ⊢
      by_cases h3 : u16At v 4 ≠ v.length - 6
      · rw [if_pos h3] at h; cases h
      · rw [if_neg h3]; simp only [modbusLayer, List.length_drop]; omega

theorem tailLayer_payload_le (l : LCM) (v : Bytes) (off : Nat) (h : off ≤ v.length) :
    (tailLayer l v off).payload.length + off ≤ v.length := by
  unfold tailLayer
  have hb := scanName_bounds (v.drop off) off []
  rw [List.length_drop] at hb
  simp only [List.length_drop]
  split <;> omega

theorem lcmHdrLen_ge (v : Bytes) : 8 ≤ lcmHdrLen v := by unfold lcmHdrLen; split <;> omega

theorem lcmDecSpec_payload_le (old : LCM) (v : Bytes) (h : (lcmDecSpec old v).err = false) :
    (lcmDecSpec old v).layer.payload.length + 8 ≤ v.length := by
  unfold lcmDecSpec at h ⊢
  by_cases h1 : v.length < 8
  · rw [if_pos h1] at h; cases h
  · rw [if_neg h1] at h ⊢
    by_cases h2 : u32At v 0 ≠ lcmShortHeaderMagic ∧ u32At v 0 ≠ lcmFragmentedHeaderMagic
    · rw [if_pos h2] at h; cases h
    · rw [if_neg h2] at h ⊢
      by_cases h3 : u32At v 0 = lcmFragmentedHeaderMagic ∧ v.length < 20
      · rw [if_pos h3] at h; cases h
      · rw [if_neg h3]
        have hh : lcmHdrLen v ≤ v.length := by
          unfold lcmHdrLen
          by_cases hf : u32At v 0 = lcmFragmentedHeaderMagic
          · rw [if_pos hf]; have := fun hh => h3 ⟨hf, hh⟩; omega
          · rw [if_neg hf]; omega
        have := tailLayer_payload_le (lcmPre LCM.fresh v) v (lcmHdrLen v) hh
        have := lcmHdrLen_ge v
        show (tailLayer (lcmPre LCM.fresh v) v (lcmHdrLen v)).payload.length + 8 ≤ v.length
        omega

theorem pfActual_le (v : Bytes) : pfActual v ≤ 258 := by
  have := (byteAt v 0).toNat_lt
  unfold pfActual; split <;> omega

/-- PFLog makes NO progress when its Length byte is 0 (the payload is the whole input). -/
theorem pflogDecSpec_payload_le (old : PFLog) (v : Bytes) (h : (pflogDecSpec old v).err = false) :
    (pflogDecSpec old v).layer.payload.length + pfActual v = v.length := by
  unfold pflogDecSpec at h ⊢
  by_cases h1 : v.length < 61
  · rw [if_pos h1] at h; cases h
  · rw [if_neg h1] at h ⊢
    by_cases h2 : v.length < pfActual v
    · rw [if_pos h2] at h; cases h
    · rw [if_neg h2]; simp only [pflogLayer, List.length_drop]; omega

/-- Error flag and truncation contribution do not depend on the receiver; on success neither does the layer. -/
theorem modbusDecSpec_indep (a b : ModbusTCP) (v : Bytes) : (modbusDecSpec a v).err = (modbusDecSpec b v).err ∧
    (modbusDecSpec a v).trunc = (modbusDecSpec b v).trunc ∧
    ((modbusDecSpec a v).err = false → (modbusDecSpec a v).layer = (modbusDecSpec b v).layer) := by
  unfold modbusDecSpec
  by_cases h1 : v.length < 9
  · rw [if_pos h1, if_pos h1]; exact ⟨rfl, rfl, fun hh => by cases hh⟩
  · rw [if_neg h1, if_neg h1]
    by_cases h2 : v.length > 260
    · rw [if_pos h2, if_pos h2]; exact ⟨rfl, rfl, fun hh => by cases hh⟩
    · rw [if_neg h2, if_neg h2]
      by_cases h3 : u16At v 4 ≠ v.length - 6
      · rw [if_pos h3, if_pos h3]; exact ⟨rfl, rfl, fun hh => by cases hh⟩
      · rw [if_neg h3, if_neg h3]; exact ⟨rfl, rfl, fun _ => rfl⟩

theorem lcmDecSpec_indep (a b : LCM) (v : Bytes) : (lcmDecSpec a v).err = (lcmDecSpec b v).err ∧
    (lcmDecSpec a v).trunc = (lcmDecSpec b v).trunc ∧
    ((lcmDecSpec a v).err = false → (lcmDecSpec a v).layer = (lcmDecSpec b v).layer) := by
  unfold lcmDecSpec
  by_cases h1 : v.length < 8
  · rw [if_pos h1, if_pos h1]; exact ⟨rfl, rfl, fun hh => by cases hh⟩
  · rw [if_neg h1, if_neg h1]
    by_cases h2 : u32At v 0 ≠ lcmShortHeaderMagic ∧ u32At v 0 ≠ lcmFragmentedHeaderMagic
    · rw [if_pos h2, if_pos h2]; exact ⟨rfl, rfl, fun hh => by cases hh⟩
    · rw [if_neg h2, if_neg h2]
      by_cases h3 : u32At v 0 = lcmFragmentedHeaderMagic ∧ v.length < 20
      · rw [if_pos h3, if_pos h3]; exact ⟨rfl, rfl, fun hh => by cases hh⟩
      · rw [if_neg h3, if_neg h3]; exact ⟨rfl, rfl, fun _ => rfl⟩

theorem pflogDecSpec_indep (a b : PFLog) (v : Bytes) : (pflogDecSpec a v).err = (pflogDecSpec b v).err ∧
    (pflogDecSpec a v).trunc = (pflogDecSpec b v).trunc ∧
    ((pflogDecSpec a v).err = false → (pflogDecSpec a v).layer = (pflogDecSpec b v).layer) := by
  unfold pflogDecSpec
  by_cases h1 : v.length < 61
  · rw [if_pos h1, if_pos h1]; exact ⟨rfl, rfl, fun hh => by cases hh⟩
  · rw [if_neg h1, if_neg h1]
    by_cases h2 : v.length < pfActual v
    · rw [if_pos h2, if_pos h2]; exact ⟨rfl, rfl, fun hh => by cases hh⟩
    · rw [if_neg h2, if_neg h2]; exact ⟨rfl, rfl, fun _ => rfl⟩

end Gp.Mod
