import Gp.Lemmas.Layers.Bfd
/-
  Helper lemmas for engine `lbfd`, part 2: serialization over the C18 buffer model.  Core Lean only.

  Section 1 holds the *definitions* used in property statements (functional specification of
  BFD.SerializeTo, the observable view `serView`); the rest is proof machinery.
-/
namespace Gp.Bfd
open Gp Gp.SBuf Gp.C18 Gp.Gen.Bfd

/-! ## 1. Definitions used in property statements -/

structure SerSpec (L : Type) where
  layer : L
  err   : Bool
  bytes : Bytes
  deriving Repr, DecidableEq

def serView {L : Type} (r : Res (SerOut L)) : Res (SerSpec L) :=
  match r with
  | .ok o => .ok { layer := o.layer, err := o.err, bytes := if o.err then [] else SBuf.contents o.buf }
  | .err k => .err k
  | .panic k => .panic k

/-- The 24 mandatory bytes `BFD.SerializeTo` writes. -/
def bfdHeader (l : BFD) : Bytes :=
  [u8 (byte0 l)] ++ [u8 (flagByte l)] ++ [u8 l.detectMultiplier] ++ [u8 l.length] ++
    putBe32 l.myDiscriminator ++ putBe32 l.yourDiscriminator ++ putBe32 l.desiredMinTxInterval ++
    putBe32 l.requiredMinRxInterval ++ putBe32 l.requiredMinEchoRxInterval

/-- The bytes of the authentication section, by type. -/
def authBytes (h : AuthHeader) : Bytes :=
  if h.authType = bfdAuthTypePassword then [u8 h.authType] ++ [u8 h.length] ++ [u8 h.keyID] ++ h.data
  else if h.authType = bfdAuthTypeKeyedMD5 ∨ h.authType = bfdAuthTypeMeticulousKeyedMD5 ∨
          h.authType = bfdAuthTypeKeyedSHA1 ∨ h.authType = bfdAuthTypeMeticulousKeyedSHA1 then
    [u8 h.authType] ++ [u8 h.length] ++ [u8 h.keyID] ++ [0] ++ putBe32 h.sequenceNumber ++ h.data
  else [u8 h.authType] ++ [u8 h.length] ++ [u8 h.keyID]

def bfdAuthSection (l : BFD) : Bytes :=
  match l.authToWrite with
  | some h => authBytes h
  | none => []

/-- What `BFD.SerializeTo` does, as a function of the layer and the bytes `p` already in the buffer:
    header in front, authentication section BEHIND. -/
def bfdSerSpec (l : BFD) (p : Bytes) : SerSpec BFD :=
  { layer := l, err := false, bytes := bfdHeader l ++ p ++ bfdAuthSection l }

/-! ## 2. Writing a window front to back -/

theorem fill_next (b : SBuf) (h : Inv b) (w : Win) (W R vs : Bytes)
    (hg : w.gen = b.gen) (ho : w.off = b.start + W.length) (hc : contents b = W ++ R)
    (hv : vs.length ≤ R.length) :
    contents (fill b w vs) = (W ++ vs) ++ R.drop vs.length ∧ Inv (fill b w vs) ∧
    (fill b w vs).start = b.start ∧ (fill b w vs).gen = b.gen := by
  have hcl := contents_length b h
  rw [hc, List.length_append] at hcl
  have h' := h
  obtain ⟨i1, i2, i3⟩ := h
  have h1 : b.start ≤ w.off := by omega
  have h2 : w.off + vs.length ≤ b.len := by omega
  refine ⟨?_, inv_fill' b w vs h' (by omega), (fill_fields b w vs).1, (fill_fields b w vs).2.2.2.1⟩
  rw [fill_contents b w vs h' hg h1 h2, hc]
  have : w.off - b.start = W.length := by omega
  rw [this, List.take_left' rfl, List.drop_length_add_append]

theorem write_next (b : SBuf) (h : Inv b) (w : Win) (i : Nat) (v : UInt8) (W R : Bytes)
    (hg : w.gen = b.gen) (hi : i < w.n) (ho : w.off + i = b.start + W.length)
    (hc : contents b = W ++ R) (hr : 1 ≤ R.length) :
    ∃ b', write b w i v = .ok b' ∧ contents b' = (W ++ [v]) ++ R.drop 1 ∧ Inv b' ∧
      b'.start = b.start ∧ b'.gen = b.gen := by
  refine ⟨_, write_current b w i v hg hi, ?_, inv_set b _ v h, rfl, rfl⟩
  rw [contents_set b (w.off + i) v (by omega), hc]
  have : w.off + i - b.start = W.length := by omega
  rw [this]
  cases R with
  | nil => simp at hr
  | cons r rs => simp

theorem bind_ok_right {α} (r : Res α) : (r >>= fun x => Res.ok x) = r := by cases r <;> rfl

theorem putBe32_length (v : Nat) : (putBe32 v).length = 4 := rfl

/-- `PutUint32(w[a:], v)` right behind the written prefix `W` (|W| = a). -/
theorem put32_next (b : SBuf) (h : Inv b) (w : Win) (a : Nat) (v : Nat) (W R : Bytes)
    (hg : w.gen = b.gen) (hn : a + 4 ≤ w.n) (ho : w.off + a = b.start + W.length)
    (hc : contents b = W ++ R) (hr : 4 ≤ R.length) :
    ∃ b', (∀ {β : Type} (k : SBuf → Res β), (winFrom w a >>= fun w' => putUint32be b w' v >>= k) = k b') ∧
      contents b' = (W ++ putBe32 v) ++ R.drop 4 ∧ Inv b' ∧ b'.start = b.start ∧ b'.gen = b.gen := by
  obtain ⟨c, i, s, g⟩ := fill_next b h { gen := w.gen, off := w.off + a, n := w.n - a } W R (putBe32 v) hg
    (by simp only; omega) hc (by rw [putBe32_length]; omega)
  refine ⟨_, ?_, c, i, s, g⟩
  intro β k
  unfold winFrom
  rw [if_pos (by omega), Res.bind_ok]
  unfold putUint32be
  rw [if_neg (by simp only; omega), Res.bind_ok]

/-- bfd.go:412-430: the nine stores behind `PrependBytes(24)` put exactly the 24 header bytes in
    front, for every buffer state. -/
theorem header_refines (l : BFD) (b1 : SBuf) (w : Win) (h : Inv b1) (hg : w.gen = b1.gen) (ho : w.off = b1.start)
    (hn : w.n = 24) (hc : 24 ≤ (contents b1).length) :
    ∃ b2, headerStores Fix.all l b1 w = .ok b2 ∧ Inv b2 ∧ b2.start = b1.start ∧ b2.gen = b1.gen ∧
      contents b2 = bfdHeader l ++ (contents b1).drop 24 := by
  unfold headerStores
  obtain ⟨x1, e, c1, i1, s1, g1⟩ := write_next b1 h w 0 (u8 (byte0 l)) [] (contents b1) hg (by omega) (by simpa using ho) rfl (by omega)
  rw [e, Res.bind_ok]; clear e
  rw [List.nil_append] at c1
  obtain ⟨x2, e, c2, i2, s2, g2⟩ := write_next x1 i1 w 1 (u8 (flagByte l)) _ _ (by omega) (by omega)
    (by simp only [List.length_singleton]; omega) c1 (by rw [List.length_drop]; omega)
  rw [e, Res.bind_ok]; clear e
  rw [List.drop_drop] at c2
  obtain ⟨x3, e, c3, i3, s3, g3⟩ := write_next x2 i2 w 2 (u8 l.detectMultiplier) _ _ (by omega) (by omega)
    (by simp only [List.length_append, List.length_singleton]; omega) c2 (by rw [List.length_drop]; omega)
  rw [e, Res.bind_ok]; clear e
  rw [List.drop_drop] at c3
  obtain ⟨x4, e, c4, i4, s4, g4⟩ := write_next x3 i3 w 3 (u8 (l.lengthWith Fix.all)) _ _ (by omega) (by omega)
    (by simp only [List.length_append, List.length_singleton]; omega) c3 (by rw [List.length_drop]; omega)
  rw [e, Res.bind_ok]; clear e
  rw [List.drop_drop] at c4
  obtain ⟨x5, e, c5, i5, s5, g5⟩ := put32_next x4 i4 w 4 l.myDiscriminator _ _ (by omega) (by omega)
    (by simp only [List.length_append, List.length_singleton]; omega) c4 (by rw [List.length_drop]; omega)
  rw [List.drop_drop] at c5
  rw [e]; clear e
  obtain ⟨x6, e, c6, i6, s6, g6⟩ := put32_next x5 i5 w 8 l.yourDiscriminator _ _ (by omega) (by omega)
    (by simp only [List.length_append, List.length_singleton, putBe32_length]; omega) c5 (by rw [List.length_drop]; omega)
  rw [List.drop_drop] at c6
  rw [e]; clear e
  obtain ⟨x7, e, c7, i7, s7, g7⟩ := put32_next x6 i6 w 12 l.desiredMinTxInterval _ _ (by omega) (by omega)
    (by simp only [List.length_append, List.length_singleton, putBe32_length]; omega) c6 (by rw [List.length_drop]; omega)
  rw [List.drop_drop] at c7
  rw [e]; clear e
  obtain ⟨x8, e, c8, i8, s8, g8⟩ := put32_next x7 i7 w 16 l.requiredMinRxInterval _ _ (by omega) (by omega)
    (by simp only [List.length_append, List.length_singleton, putBe32_length]; omega) c7 (by rw [List.length_drop]; omega)
  rw [List.drop_drop] at c8
  rw [e]; clear e
  obtain ⟨x9, e, c9, i9, s9, g9⟩ := put32_next x8 i8 w 20 l.requiredMinEchoRxInterval _ _ (by omega) (by omega)
    (by simp only [List.length_append, List.length_singleton, putBe32_length]; omega) c8 (by rw [List.length_drop]; omega)
  rw [List.drop_drop] at c9
  have e' := e (β := SBuf) (fun x => Res.ok x)
  simp only [bind_ok_right] at e'
  exact ⟨x9, e', i9, by omega, by omega, c9⟩

theorem authLength_cases (h : AuthHeader) :
    (h.authType = bfdAuthTypePassword ∧ h.length = 3 + h.data.length) ∨
    (h.authType ≠ bfdAuthTypePassword ∧
      (h.authType = bfdAuthTypeKeyedMD5 ∨ h.authType = bfdAuthTypeMeticulousKeyedMD5 ∨
        h.authType = bfdAuthTypeKeyedSHA1 ∨ h.authType = bfdAuthTypeMeticulousKeyedSHA1) ∧ h.length = 8 + h.data.length) ∨
    (h.authType ≠ bfdAuthTypePassword ∧
      ¬ (h.authType = bfdAuthTypeKeyedMD5 ∨ h.authType = bfdAuthTypeMeticulousKeyedMD5 ∨
        h.authType = bfdAuthTypeKeyedSHA1 ∨ h.authType = bfdAuthTypeMeticulousKeyedSHA1) ∧ h.length = 3) := by
  unfold AuthHeader.length AuthHeader.lengthWith
  by_cases h1 : h.authType = bfdAuthTypePassword
  · rw [if_pos h1]; exact Or.inl ⟨h1, rfl⟩
  · rw [if_neg h1]
    by_cases h2 : h.authType = bfdAuthTypeKeyedMD5 ∨ h.authType = bfdAuthTypeMeticulousKeyedMD5
    · rw [if_pos h2]
      exact Or.inr (Or.inl ⟨h1, by cases h2 with | inl x => exact Or.inl x | inr x => exact Or.inr (Or.inl x), rfl⟩)
    · rw [if_neg h2]
      by_cases h3 : h.authType = bfdAuthTypeKeyedSHA1 ∨ h.authType = bfdAuthTypeMeticulousKeyedSHA1
      · rw [if_pos h3]
        exact Or.inr (Or.inl ⟨h1, by cases h3 with | inl x => exact Or.inr (Or.inr (Or.inl x)) | inr x => exact Or.inr (Or.inr (Or.inr x)), rfl⟩)
      · rw [if_neg h3]
        refine Or.inr (Or.inr ⟨h1, ?_, rfl⟩)
        intro hh
        rcases hh with x | x | x | x
        · exact h2 (Or.inl x)
        · exact h2 (Or.inr x)
        · exact h3 (Or.inl x)
        · exact h3 (Or.inr x)

theorem authLength_ge3 (h : AuthHeader) : 3 ≤ h.length := by
  rcases authLength_cases h with ⟨_, e⟩ | ⟨_, _, e⟩ | ⟨_, _, e⟩ <;> omega

/-- bfd.go:446-452 behind the three common bytes. -/
theorem keyed_refines (h : AuthHeader) (b : SBuf) (w : Win) (W R : Bytes) (hi : Inv b) (hg : w.gen = b.gen)
    (ho : w.off + 3 = b.start + W.length) (hn : w.n = 8 + h.data.length) (hc : contents b = W ++ R)
    (hr : R.length = 5 + h.data.length) :
    ∃ b', keyedStores h b w = .ok b' ∧ Inv b' ∧ contents b' = W ++ [0] ++ putBe32 h.sequenceNumber ++ h.data := by
  unfold keyedStores
  obtain ⟨x1, e, c1, i1, s1, g1⟩ := write_next b hi w 3 0 W R hg (by omega) ho hc (by omega)
  rw [e, Res.bind_ok]; clear e
  obtain ⟨x2, e, c2, i2, s2, g2⟩ := put32_next x1 i1 w 4 h.sequenceNumber _ _ (by omega) (by omega)
    (by simp only [List.length_append, List.length_singleton]; omega) c1 (by rw [List.length_drop]; omega)
  rw [e]; clear e
  rw [List.drop_drop] at c2
  unfold winFrom
  rw [if_pos (by omega), Res.bind_ok]
  simp only [copyTo, pure]
  have ht : h.data.take (w.n - 8) = h.data := List.take_of_length_le (by omega)
  rw [ht]
  obtain ⟨c3, i3, -, -⟩ := fill_next x2 i2 { gen := w.gen, off := w.off + 8, n := w.n - 8 } _ _ h.data (by simp only; omega)
    (by simp only [List.length_append, List.length_singleton, putBe32_length]; omega) c2 (by rw [List.length_drop]; omega)
  refine ⟨_, rfl, i3, ?_⟩
  rw [c3, List.drop_drop, List.drop_of_length_le (by omega), List.append_nil]

/-- bfd.go:438-453: the stores into the appended authentication section write exactly `authBytes`
    behind what the buffer held. -/
theorem auth_refines (h : AuthHeader) (b : SBuf) (w : Win) (C R : Bytes) (hi : Inv b) (hg : w.gen = b.gen)
    (ho : w.off = b.start + C.length) (hn : w.n = h.length) (hc : contents b = C ++ R) (hr : R.length = h.length) :
    ∃ b', authStores Fix.all h b w = .ok b' ∧ Inv b' ∧ contents b' = C ++ authBytes h := by
  have h3 := authLength_ge3 h
  unfold authStores
  obtain ⟨x1, e, c1, i1, s1, g1⟩ := write_next b hi w 0 (u8 h.authType) C R hg (by omega) (by omega) hc (by omega)
  rw [e, Res.bind_ok]; clear e
  obtain ⟨x2, e, c2, i2, s2, g2⟩ := write_next x1 i1 w 1 (u8 (h.lengthWith Fix.all)) _ _ (by omega) (by omega)
    (by simp only [List.length_append, List.length_singleton]; omega) c1 (by rw [List.length_drop]; omega)
  rw [e, Res.bind_ok]; clear e
  rw [List.drop_drop] at c2
  obtain ⟨x3, e, c3, i3, s3, g3⟩ := write_next x2 i2 w 2 (u8 h.keyID) _ _ (by omega) (by omega)
    (by simp only [List.length_append, List.length_singleton]; omega) c2 (by rw [List.length_drop]; omega)
  rw [e, Res.bind_ok]; clear e
  rw [List.drop_drop] at c3
  unfold authBytes
  rcases authLength_cases h with ⟨t1, e⟩ | ⟨t1, t2, e⟩ | ⟨t1, t2, e⟩
  · rw [if_pos t1, if_pos t1]
    unfold winFrom
    rw [if_pos (by omega), Res.bind_ok]
    simp only [copyTo, pure]
    have ht : h.data.take (w.n - 3) = h.data := List.take_of_length_le (by omega)
    rw [ht]
    obtain ⟨c4, i4, -, -⟩ := fill_next x3 i3 { gen := w.gen, off := w.off + 3, n := w.n - 3 } _ _ h.data (by simp only; omega)
      (by simp only [List.length_append, List.length_singleton]; omega) c3 (by rw [List.length_drop]; omega)
    refine ⟨_, rfl, i4, ?_⟩
    rw [c4, List.drop_drop, List.drop_of_length_le (by omega), List.append_nil]
    simp only [List.append_assoc]; rfl
  · rw [if_neg t1, if_neg t1, if_pos t2]
    obtain ⟨b', e', i', c'⟩ := keyed_refines h x3 w _ _ i3 (by omega)
      (by simp only [List.length_append, List.length_singleton]; omega) (by omega) c3 (by rw [List.length_drop]; omega)
    have hk : (if h.authType = bfdAuthTypeKeyedMD5 ∨ h.authType = bfdAuthTypeMeticulousKeyedMD5 then keyedStores h x3 w
        else if h.authType = bfdAuthTypeKeyedSHA1 ∨ h.authType = bfdAuthTypeMeticulousKeyedSHA1 then keyedStores h x3 w
        else pure x3) = keyedStores h x3 w := by
      split
      · rfl
      · rename_i n1
        rw [if_pos]
        rcases t2 with x | x | x | x
        · exact absurd (Or.inl x) n1
        · exact absurd (Or.inr x) n1
        · exact Or.inl x
        · exact Or.inr x
    rw [hk]
    refine ⟨b', e', i', ?_⟩
    rw [c']
    simp only [List.append_assoc]; rfl
  · rw [if_neg t1, if_neg t1, if_neg t2]
    have n1 : ¬ (h.authType = bfdAuthTypeKeyedMD5 ∨ h.authType = bfdAuthTypeMeticulousKeyedMD5) :=
      fun x => t2 (by cases x with | inl x => exact Or.inl x | inr x => exact Or.inr (Or.inl x))
    have n2 : ¬ (h.authType = bfdAuthTypeKeyedSHA1 ∨ h.authType = bfdAuthTypeMeticulousKeyedSHA1) :=
      fun x => t2 (by cases x with | inl x => exact Or.inr (Or.inr (Or.inl x)) | inr x => exact Or.inr (Or.inr (Or.inr x)))
    rw [if_neg n1, if_neg n2]
    refine ⟨x3, rfl, i3, ?_⟩
    rw [c3, List.drop_of_length_le (by omega), List.append_nil]
    simp only [List.append_assoc]; rfl

/-- What is known about the buffer and the window right after `PrependBytes(n)`. -/
theorem prepend_facts (b : SBuf) (n : Nat) (h : Inv b) :
    Inv (prepend b n).1 ∧ (prepend b n).2.n = n ∧ (prepend b n).2.gen = (prepend b n).1.gen ∧
    (prepend b n).2.off = (prepend b n).1.start ∧
    (contents (prepend b n).1).length = n + (contents b).length ∧
    (contents (prepend b n).1).drop n = contents b :=
  ⟨inv_prepend' b n h, rfl, rfl, rfl, prepend_contents_length b n h, prepend_contents_drop b n h⟩

/-- … and right after `AppendBytes(n)`: the old contents followed by `n` bytes of whatever the
    backing array held there. -/
theorem append_facts (b : SBuf) (n : Nat) (h : Inv b) :
    Inv (append b n).1 ∧ (append b n).2.n = n ∧ (append b n).2.gen = (append b n).1.gen ∧
    (append b n).2.off = (append b n).1.start + (contents b).length ∧
    ∃ R, R.length = n ∧ contents (append b n).1 = contents b ++ R := by
  have hl := append_contents_length b n h
  have ht := append_contents_take b n h
  have hs := (append_fields b n).1
  have hcl := contents_length b h
  refine ⟨inv_append' b n h, rfl, rfl, ?_, (contents (append b n).1).drop (contents b).length, ?_, ?_⟩
  · rw [append_win, hs, hcl]
    obtain ⟨i1, _, _⟩ := h
    simp only; omega
  · rw [List.length_drop, hl]; omega
  · conv => lhs; rw [← List.take_append_drop (contents b).length (contents (append b n).1)]
    rw [ht]

/-- Refinement: on every buffer satisfying the C18 invariant, `BFD.SerializeTo` returns (no panic,
    no error), leaves the receiver alone, and the buffer then holds header ++ old contents ++
    authentication section: every requested byte has been written. -/
theorem bfd_serializeTo_refines (l : BFD) (b : SBuf) (fix csum : Bool) (h : Inv b) :
    ∃ o, l.serializeTo b fix csum = .ok o ∧ Inv o.buf ∧ o.layer = l ∧ o.err = false ∧
      contents o.buf = bfdHeader l ++ contents b ++ bfdAuthSection l := by
  unfold BFD.serializeTo BFD.serializeWith bfdAuthSection
  rw [minSize_eq]
  obtain ⟨hi1, hn, hgen, hoff, hlen, hdrop⟩ := prepend_facts b 24 h
  generalize prepend b 24 = r at hi1 hn hgen hoff hlen hdrop
  obtain ⟨b1, w⟩ := r
  simp only at hi1 hn hgen hoff hlen hdrop
  simp only
  obtain ⟨b2, e2, i2, s2, g2, c2⟩ := header_refines l b1 w hi1 hgen hoff hn (by omega)
  rw [e2, Res.bind_ok, hdrop] at *
  cases ha : l.authToWrite with
  | none =>
    simp only [pure]
    exact ⟨_, rfl, i2, rfl, rfl, by rw [c2, List.append_nil]⟩
  | some a =>
    simp only
    obtain ⟨j1, jn, jgen, joff, R, jr, jc⟩ := append_facts b2 (a.lengthWith Fix.all) i2
    generalize append b2 (a.lengthWith Fix.all) = r at j1 jn jgen joff jc
    obtain ⟨b3, w3⟩ := r
    simp only at j1 jn jgen joff jc
    simp only
    obtain ⟨b4, e4, i4, c4⟩ := auth_refines a b3 w3 (contents b2) R j1 jgen joff jn jc jr
    rw [e4, Res.bind_ok]
    simp only [pure]
    exact ⟨_, rfl, i4, rfl, rfl, by rw [c4, c2]⟩

/-! ## 4. No panic on ANY buffer state -/

theorem write_ok (b : SBuf) (w : Win) (i : Nat) (v : UInt8) (h : i < w.n) : ∃ b', write b w i v = .ok b' := by
  unfold write; rw [if_pos h]; split <;> exact ⟨_, rfl⟩

theorem put32_ok {β : Type} (b : SBuf) (w : Win) (a v : Nat) (h : a + 4 ≤ w.n) (k : SBuf → Res β) :
    (winFrom w a >>= fun w' => putUint32be b w' v >>= k) =
      k (fill b { gen := w.gen, off := w.off + a, n := w.n - a } (putBe32 v)) := by
  unfold winFrom
  rw [if_pos (by omega), Res.bind_ok]
  unfold putUint32be
  rw [if_neg (by simp only; omega), Res.bind_ok]

theorem headerStores_ok (fx : Fix) (l : BFD) (b : SBuf) (w : Win) (hn : w.n = 24) :
    ∃ b', headerStores fx l b w = .ok b' := by
  unfold headerStores
  obtain ⟨x1, e⟩ := write_ok b w 0 (u8 (byte0 l)) (by omega)
  rw [e, Res.bind_ok]; clear e
  obtain ⟨x2, e⟩ := write_ok x1 w 1 (u8 (flagByte l)) (by omega)
  rw [e, Res.bind_ok]; clear e
  obtain ⟨x3, e⟩ := write_ok x2 w 2 (u8 l.detectMultiplier) (by omega)
  rw [e, Res.bind_ok]; clear e
  obtain ⟨x4, e⟩ := write_ok x3 w 3 (u8 (l.lengthWith fx)) (by omega)
  rw [e, Res.bind_ok]; clear e
  rw [put32_ok _ w 4 _ (by omega), put32_ok _ w 8 _ (by omega), put32_ok _ w 12 _ (by omega), put32_ok _ w 16 _ (by omega)]
  have := put32_ok (β := SBuf) (fill (fill (fill (fill x4 { gen := w.gen, off := w.off + 4, n := w.n - 4 } (putBe32 l.myDiscriminator))
    { gen := w.gen, off := w.off + 8, n := w.n - 8 } (putBe32 l.yourDiscriminator))
    { gen := w.gen, off := w.off + 12, n := w.n - 12 } (putBe32 l.desiredMinTxInterval))
    { gen := w.gen, off := w.off + 16, n := w.n - 16 } (putBe32 l.requiredMinRxInterval)) w 20 l.requiredMinEchoRxInterval (by omega)
    (fun x => Res.ok x)
  simp only [bind_ok_right] at this
  exact ⟨_, this⟩

theorem keyedStores_ok (h : AuthHeader) (b : SBuf) (w : Win) (hn : 8 ≤ w.n) : ∃ b', keyedStores h b w = .ok b' := by
  unfold keyedStores
  obtain ⟨x1, e⟩ := write_ok b w 3 0 (by omega)
  rw [e, Res.bind_ok, put32_ok _ w 4 _ (by omega)]
  unfold winFrom
  rw [if_pos (by omega), Res.bind_ok]
  exact ⟨_, rfl⟩

theorem authStores_ok (h : AuthHeader) (b : SBuf) (w : Win) (hn : w.n = h.length) :
    ∃ b', authStores Fix.all h b w = .ok b' := by
  have h3 := authLength_ge3 h
  unfold authStores
  obtain ⟨x1, e⟩ := write_ok b w 0 (u8 h.authType) (by omega)
  rw [e, Res.bind_ok]; clear e
  obtain ⟨x2, e⟩ := write_ok x1 w 1 (u8 (h.lengthWith Fix.all)) (by omega)
  rw [e, Res.bind_ok]; clear e
  obtain ⟨x3, e⟩ := write_ok x2 w 2 (u8 h.keyID) (by omega)
  rw [e, Res.bind_ok]; clear e
  rcases authLength_cases h with ⟨t1, e⟩ | ⟨t1, t2, e⟩ | ⟨t1, t2, e⟩
  · rw [if_pos t1]
    unfold winFrom
    rw [if_pos (by omega), Res.bind_ok]
    exact ⟨_, rfl⟩
  · rw [if_neg t1]
    split
    · exact keyedStores_ok h x3 w (by omega)
    · split
      · exact keyedStores_ok h x3 w (by omega)
      · exact ⟨_, rfl⟩
  · rw [if_neg t1]
    split
    · exact keyedStores_ok h x3 w (by omega)
    · split
      · exact keyedStores_ok h x3 w (by omega)
      · exact ⟨_, rfl⟩

/-- `BFD.SerializeTo` never panics and never returns an error: every field value, every option set,
    every buffer state (no invariant needed). -/
theorem bfd_serializeTo_ok (l : BFD) (b : SBuf) (fix csum : Bool) :
    ∃ o, l.serializeTo b fix csum = .ok o ∧ o.layer = l ∧ o.err = false := by
  unfold BFD.serializeTo BFD.serializeWith
  rw [minSize_eq]
  have hn : (prepend b 24).2.n = 24 := rfl
  generalize prepend b 24 = r at hn
  obtain ⟨b1, w⟩ := r
  simp only at hn
  simp only
  obtain ⟨b2, e2⟩ := headerStores_ok Fix.all l b1 w hn
  rw [e2, Res.bind_ok]
  cases ha : l.authToWrite with
  | none => exact ⟨_, rfl, rfl, rfl⟩
  | some a =>
    simp only
    have jn : (append b2 (a.lengthWith Fix.all)).2.n = a.length := rfl
    generalize append b2 (a.lengthWith Fix.all) = r at jn
    obtain ⟨b3, w3⟩ := r
    simp only at jn
    simp only
    obtain ⟨b4, e4⟩ := authStores_ok a b3 w3 jn
    rw [e4, Res.bind_ok]
    exact ⟨_, rfl, rfl, rfl⟩

/-! ## 5. Observable view -/

theorem serView_of_refines {L : Type} (r : Res (SerOut L)) (s : SerSpec L)
    (hs : s.err = true → s.bytes = [])
    (h : ∃ o, r = .ok o ∧ o.layer = s.layer ∧ o.err = s.err ∧ (s.err = false → SBuf.contents o.buf = s.bytes)) :
    serView r = .ok s := by
  obtain ⟨o, ho, hl, he, hb⟩ := h
  rw [ho]
  unfold serView
  simp only
  congr 1
  cases s with
  | mk sl se sb =>
    simp only at hl he hb hs
    cases se
    · simp only [he, hl, hb rfl]; rfl
    · simp only [he, hl, hs rfl]; rfl

theorem bfd_serView (l : BFD) (b : SBuf) (fix csum : Bool) (h : Inv b) :
    serView (l.serializeTo b fix csum) = .ok (bfdSerSpec l (SBuf.contents b)) := by
  obtain ⟨o, ho, -, hl, he, hb⟩ := bfd_serializeTo_refines l b fix csum h
  exact serView_of_refines _ _ (fun hh => by cases hh) ⟨o, ho, hl, he, fun _ => hb⟩

end Gp.Bfd
