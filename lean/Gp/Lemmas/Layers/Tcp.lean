import Gp.Model.Layers.Tcp
/-
  Helper lemmas for the `ltcp` engine (model: Gp/Model/Layers/Tcp.lean).
  Part 1: Go slices, big-endian reads, panic-freedom and capacity-independence of the decoder.
-/
namespace Gp.Tcp
open Gp Gp.Gen.Tcp

/-! ## basic facts about `index`, `Sl` -/

theorem index_ok {s : Bytes} {i : Nat} (h : i < s.length) : index s i = .ok s[i] := by
  simp [index, List.getElem?_eq_getElem h]

theorem Sl.idx_ok {s : Sl} {i : Nat} (h : i < s.vis.length) : s.idx i = .ok s.vis[i] := by
  simp [Sl.idx, index_ok h]

/-- Inside the visible part a slice expression succeeds and its bytes do not depend on `ext`. -/
theorem Sl.slice_ok {s : Sl} {a b : Nat} (hab : a ≤ b) (hb : b ≤ s.vis.length) :
    s.slice a b = .ok ⟨(s.vis.drop a).take (b - a), s.vis.drop b ++ s.ext⟩ := by
  unfold Sl.slice Sl.cap Sl.all
  have h1 : a ≤ b ∧ b ≤ s.vis.length + s.ext.length := ⟨hab, by omega⟩
  rw [if_pos h1]
  have h2 : a ≤ s.vis.length := by omega
  rw [List.drop_append_of_le_length h2, List.drop_append_of_le_length hb,
      List.take_append_of_le_length (by simp [List.length_drop]; omega)]

theorem Sl.sliceFrom_ok {s : Sl} {a : Nat} (ha : a ≤ s.vis.length) :
    s.sliceFrom a = .ok ⟨s.vis.drop a, s.ext⟩ := by
  unfold Sl.sliceFrom Sl.len
  rw [Sl.slice_ok ha (Nat.le_refl _)]
  simp [List.take_of_length_le, List.length_drop]


@[simp] theorem pure_eq_ok {α} (a : α) : (pure a : Res α) = .ok a := rfl

/-! ## Simulation of two runs: same non-panicking outcome up to a relation on the values -/

inductive Sim {α β : Type} (R : α → β → Prop) : Res α → Res β → Prop
  | ok {a : α} {b : β} (h : R a b) : Sim R (.ok a) (.ok b)
  | err (e : String) : Sim R (.err e) (.err e)

theorem Sim.bind {α β γ δ : Type} {R : α → β → Prop} {S : γ → δ → Prop}
    {r1 : Res α} {r2 : Res β} {f : α → Res γ} {g : β → Res δ}
    (h : Sim R r1 r2) (hf : ∀ a b, R a b → Sim S (f a) (g b)) : Sim S (r1 >>= f) (r2 >>= g) := by
  cases h with
  | ok h => exact hf _ _ h
  | err e => exact Sim.err e

theorem Sim.mono {α β : Type} {R S : α → β → Prop} {r1 : Res α} {r2 : Res β}
    (h : Sim R r1 r2) (hrs : ∀ a b, R a b → S a b) : Sim S r1 r2 := by
  cases h with
  | ok h => exact Sim.ok (hrs _ _ h)
  | err e => exact Sim.err e

theorem Sim.eq_and_no_panic {α : Type} {r1 r2 : Res α} (h : Sim Eq r1 r2) :
    r1 = r2 ∧ ∀ k, r1 ≠ .panic k := by
  cases h with
  | ok h => subst h; exact ⟨rfl, fun k hk => by cases hk⟩
  | err e => exact ⟨rfl, fun k hk => by cases hk⟩

theorem Sim.no_panic {α β : Type} {R : α → β → Prop} {r1 : Res α} {r2 : Res β} (h : Sim R r1 r2) :
    ∀ k, r1 ≠ .panic k := by
  cases h with
  | ok h => exact fun k hk => by cases hk
  | err e => exact fun k hk => by cases hk

/-- two views of the same visible bytes (possibly different capacity / foreign bytes) -/
def SameVis (s t : Sl) : Prop := s.vis = t.vis

/-- same visible bytes, of a known length -/
def SameVisLen (n : Nat) (s t : Sl) : Prop := s.vis = t.vis ∧ s.vis.length = n

theorem sim_idx {s t : Sl} (h : SameVis s t) {i : Nat} (hi : i < s.vis.length) :
    Sim Eq (s.idx i) (t.idx i) := by
  have hv : s.vis = t.vis := h
  have ht : i < t.vis.length := by rw [← hv]; exact hi
  rw [Sl.idx_ok hi, Sl.idx_ok ht]
  exact Sim.ok (by simp [hv])

theorem sim_slice {s t : Sl} (h : SameVis s t) {a b : Nat} (hab : a ≤ b) (hb : b ≤ s.vis.length) :
    Sim (SameVisLen (b - a)) (s.slice a b) (t.slice a b) := by
  have hv : s.vis = t.vis := h
  have ht : b ≤ t.vis.length := by rw [← hv]; exact hb
  rw [Sl.slice_ok hab hb, Sl.slice_ok hab ht]
  refine Sim.ok ⟨by simp [hv], ?_⟩
  simp [List.length_take, List.length_drop]; omega

theorem sim_sliceFrom {s t : Sl} (h : SameVis s t) {a : Nat} (ha : a ≤ s.vis.length) :
    Sim SameVis (s.sliceFrom a) (t.sliceFrom a) := by
  have hv : s.vis = t.vis := h
  have ht : a ≤ t.vis.length := by rw [← hv]; exact ha
  rw [Sl.sliceFrom_ok ha, Sl.sliceFrom_ok ht]
  exact Sim.ok (by simp [SameVis, hv])

theorem sim_u16 {s t : Sl} {n : Nat} (h : SameVisLen n s t) (hn : 2 ≤ n) : Sim Eq (u16 s) (u16 t) := by
  obtain ⟨h1, h2⟩ := h
  unfold u16
  refine Sim.bind (sim_idx h1 (by omega)) fun a b hab => ?_
  refine Sim.bind (sim_idx h1 (by omega)) fun c d hcd => ?_
  subst hab hcd; exact Sim.ok rfl

theorem sim_u32 {s t : Sl} {n : Nat} (h : SameVisLen n s t) (hn : 4 ≤ n) : Sim Eq (u32 s) (u32 t) := by
  obtain ⟨h1, h2⟩ := h
  unfold u32
  refine Sim.bind (sim_idx h1 (by omega)) fun a b hab => ?_
  refine Sim.bind (sim_idx h1 (by omega)) fun c d hcd => ?_
  refine Sim.bind (sim_idx h1 (by omega)) fun e f hef => ?_
  refine Sim.bind (sim_idx h1 (by omega)) fun g h hgh => ?_
  subst hab hcd hef hgh; exact Sim.ok rfl

theorem sim_u64 {s t : Sl} {n : Nat} (h : SameVisLen n s t) (hn : 8 ≤ n) : Sim Eq (u64 s) (u64 t) := by
  obtain ⟨h1, h2⟩ := h
  unfold u64
  refine Sim.bind (sim_idx h1 (by omega)) fun _ _ h0 => ?_
  refine Sim.bind (sim_idx h1 (by omega)) fun _ _ h1' => ?_
  refine Sim.bind (sim_idx h1 (by omega)) fun _ _ h2' => ?_
  refine Sim.bind (sim_idx h1 (by omega)) fun _ _ h3 => ?_
  refine Sim.bind (sim_idx h1 (by omega)) fun _ _ h4 => ?_
  refine Sim.bind (sim_idx h1 (by omega)) fun _ _ h5 => ?_
  refine Sim.bind (sim_idx h1 (by omega)) fun _ _ h6 => ?_
  refine Sim.bind (sim_idx h1 (by omega)) fun _ _ h7 => ?_
  subst h0 h1' h2' h3 h4 h5 h6 h7; exact Sim.ok rfl

theorem sim_sliceIf {s t : Sl} (h : SameVis s t) {c : Bool} {a b : Nat}
    (hc : c = true → a ≤ b ∧ b ≤ s.vis.length) : Sim Eq (sliceIf c s a b) (sliceIf c t a b) := by
  unfold sliceIf
  cases c with
  | false => exact Sim.ok rfl
  | true =>
    obtain ⟨h1, h2⟩ := hc rfl
    simp only [if_true]
    refine Sim.bind (sim_slice h h1 h2) fun x y hxy => ?_
    exact Sim.ok hxy.1

theorem sim_u16If {s t : Sl} (h : SameVis s t) {c : Bool} {a b : Nat}
    (hc : c = true → a + 2 ≤ b ∧ b ≤ s.vis.length) : Sim Eq (u16If c s a b) (u16If c t a b) := by
  unfold u16If
  cases c with
  | false => exact Sim.ok rfl
  | true =>
    obtain ⟨h1, h2⟩ := hc rfl
    simp only [if_true]
    refine Sim.bind (sim_slice h (by omega) h2) fun x y hxy => ?_
    exact sim_u16 hxy (by omega)

theorem sim_u32If {s t : Sl} (h : SameVis s t) {c : Bool} {a b : Nat}
    (hc : c = true → a + 4 ≤ b ∧ b ≤ s.vis.length) : Sim Eq (u32If c s a b) (u32If c t a b) := by
  unfold u32If
  cases c with
  | false => exact Sim.ok rfl
  | true =>
    obtain ⟨h1, h2⟩ := hc rfl
    simp only [if_true]
    refine Sim.bind (sim_slice h (by omega) h2) fun x y hxy => ?_
    exact sim_u32 hxy (by omega)

theorem sim_readIds {s t : Sl} (h : SameVis s t) (k : Nat) : ∀ i, i + k ≤ s.vis.length →
    Sim Eq (readIds s i k) (readIds t i k) := by
  induction k with
  | zero => intro i _; exact Sim.ok rfl
  | succ k ih =>
    intro i hi
    unfold readIds
    refine Sim.bind (sim_idx h (by omega)) fun a b hab => ?_
    refine Sim.bind (ih (i + 1) (by omega)) fun c d hcd => ?_
    subst hab hcd; exact Sim.ok rfl

/-! ## Option normal forms (used by the C06 well-formedness predicate) -/

/-- An option in the normal form the decoder produces for the non-MPTCP kinds: kind in range,
    End-of-list/NOP are bare, the others carry `OptionLength = len(OptionData)+2 ≤ 255`, and no
    MPTCP sub-structure is attached. -/
def optNorm (o : TcpOption) : Bool :=
  decide (o.optionType < 256) && decide (o.optionType ≠ 30) &&
  decide (o = { optionType := o.optionType, optionLength := o.optionLength, optionData := o.optionData }) &&
  (if isOneByte o then decide (o.optionLength = 1) && decide (o.optionData = [])
   else decide (o.optionLength = o.optionData.length + 2) && decide (o.optionLength < 256))

/-- an MPTCP option as the decoder leaves it: kind 30, the wire length in OptionLength, no raw
    OptionData (the content lives in the sub-structures, which are unconstrained here) -/
def mptcpNorm (o : TcpOption) : Bool :=
  decide (o.optionType = 30) && decide (o.optionData = []) && decide (3 ≤ o.optionLength) &&
  decide (o.optionLength < 256)

def optWf (o : TcpOption) : Bool := optNorm o || mptcpNorm o

/-- bytes an option occupies on the wire -/
def wireLen (o : TcpOption) : Nat :=
  if o.optionType = 30 then o.optionLength else if isOneByte o then 1 else 2 + o.optionData.length

end Gp.Tcp
