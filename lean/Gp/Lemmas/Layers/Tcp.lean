import Gp.Model.Layers.Tcp
/-
  Helper lemmas for the `ltcp` engine (model: Gp/Model/Layers/Tcp.lean).
  Part 1: Go slices, big-endian reads, panic-freedom and capacity-independence of the decoder.
-/
namespace Gp.Tcp
open Gp Gp.Gen.Tcp

/-! ## basic facts about `index`, `Sl` -/

theorem index_ok {s : Bytes} {i : Nat} (h : i < s.length) : index s i = .ok s[i] := by
  simp [index, List.getElem?_eq_getElem h]

theorem Sl.idx_ok {s : Sl} {i : Nat} (h : i < s.vis.length) : s.idx i = .ok s.vis[i] := by
  simp [Sl.idx, index_ok h]

/-- Inside the visible part a slice expression succeeds and its bytes do not depend on `ext`. -/
theorem Sl.slice_ok {s : Sl} {a b : Nat} (hab : a ≤ b) (hb : b ≤ s.vis.length) :
    s.slice a b = .ok ⟨(s.vis.drop a).take (b - a), s.vis.drop b ++ s.ext⟩ := by
  unfold Sl.slice Sl.cap Sl.all
  have h1 : a ≤ b ∧ b ≤ s.vis.length + s.ext.length := ⟨hab, by omega⟩
  rw [if_pos h1]
  have h2 : a ≤ s.vis.length := by omega
  rw [List.drop_append_of_le_length h2, List.drop_append_of_le_length hb,
      List.take_append_of_le_length (by simp [List.length_drop]; omega)]

theorem Sl.sliceFrom_ok {s : Sl} {a : Nat} (ha : a ≤ s.vis.length) :
    s.sliceFrom a = .ok ⟨s.vis.drop a, s.ext⟩ := by
  unfold Sl.sliceFrom Sl.len
  rw [Sl.slice_ok ha (Nat.le_refl _)]
  simp [List.take_of_length_le, List.length_drop]

end Gp.Tcp
