import Gp.Lemmas.Layers.Sll
/-
  Helper lemmas for engine `lsll`, part 2: the DecodingLayerParser loop over
  {LinuxSLL, LinuxSLL2, EtherIP} and the flow accessors.  Core Lean only.
-/
namespace Gp.Sll
open Gp Gp.Gen.Sll

/-! ## 1. The parser loop, one iteration in terms of the decode specifications -/

theorem lt_ne_1 : ¬ (LayerTypeLinuxSLL2 = LayerTypeLinuxSLL) := by decide
theorem lt_ne_2 : ¬ (LayerTypeEtherIP = LayerTypeLinuxSLL) := by decide
theorem lt_ne_3 : ¬ (LayerTypeEtherIP = LayerTypeLinuxSLL2) := by decide

theorem dlpLoop_sll (fuel : Nat) (st : DlpState) (data : GSlice) :
    dlpLoop (fuel + 1) st LayerTypeLinuxSLL data =
      let o := sllDecSpec st.sll data.vis
      let st1 : DlpState := { st with sll := o.layer, trunc := st.trunc || o.trunc }
      if o.err then .ok (st1, 1) else
      let st' : DlpState := { st1 with decoded := st.decoded ++ [LayerTypeLinuxSLL] }
      let rest : GSlice := { vis := o.layer.payload, tail := data.tail }
      if rest.len = 0 then .ok (st', 0) else dlpLoop fuel st' o.layer.nextLayerType rest := by
  conv => lhs; unfold dlpLoop
  simp only [if_true, LinuxSLL.decode_eq st.sll data]

theorem dlpLoop_sll2 (fuel : Nat) (st : DlpState) (data : GSlice) :
    dlpLoop (fuel + 1) st LayerTypeLinuxSLL2 data =
      let o := sll2DecSpec st.sll2 data.vis
      let st1 : DlpState := { st with sll2 := o.layer, trunc := st.trunc || o.trunc }
      if o.err then .ok (st1, 1) else
      let st' : DlpState := { st1 with decoded := st.decoded ++ [LayerTypeLinuxSLL2] }
      let rest : GSlice := { vis := o.layer.payload, tail := data.tail }
      if rest.len = 0 then .ok (st', 0) else dlpLoop fuel st' o.layer.nextLayerType rest := by
  conv => lhs; unfold dlpLoop
  simp only [lt_ne_1, if_false, if_true, LinuxSLL2.decode_eq st.sll2 data]

theorem dlpLoop_eip (fuel : Nat) (st : DlpState) (data : GSlice) :
    dlpLoop (fuel + 1) st LayerTypeEtherIP data =
      let o := eipDecSpec st.etherip data.vis
      let st1 : DlpState := { st with etherip := o.layer, trunc := st.trunc || o.trunc }
      if o.err then .ok (st1, 1) else
      let st' : DlpState := { st1 with decoded := st.decoded ++ [LayerTypeEtherIP] }
      let rest : GSlice := { vis := o.layer.payload, tail := data.tail }
      if rest.len = 0 then .ok (st', 0) else dlpLoop fuel st' o.layer.nextLayerType rest := by
  conv => lhs; unfold dlpLoop
  simp only [lt_ne_2, lt_ne_3, if_false, if_true, EtherIP.decode_eq st.etherip data]

theorem dlpLoop_other (fuel : Nat) (st : DlpState) (typ : Nat) (data : GSlice)
    (h1 : typ ≠ LayerTypeLinuxSLL) (h2 : typ ≠ LayerTypeLinuxSLL2) (h3 : typ ≠ LayerTypeEtherIP) :
    dlpLoop (fuel + 1) st typ data = if typ = LayerTypeZero then .ok (st, 0) else .ok (st, 2) := by
  unfold dlpLoop
  simp only [h1, h2, h3, if_false]

/-! ## 2. No panic, fuel, capacity -/

theorem dlpLoop_no_panic (fuel : Nat) (st : DlpState) (typ : Nat) (data : GSlice) (k : PanicKind) :
    dlpLoop fuel st typ data ≠ .panic k := by
  induction fuel generalizing st typ data with
  | zero => unfold dlpLoop; exact fun h => nomatch h
  | succ fuel ih =>
    by_cases h1 : typ = LayerTypeLinuxSLL
    · subst h1; rw [dlpLoop_sll]
      simp only; split
      · exact fun h => nomatch h
      · split
        · exact fun h => nomatch h
        · exact ih _ _ _
    · by_cases h2 : typ = LayerTypeLinuxSLL2
      · subst h2; rw [dlpLoop_sll2]
        simp only; split
        · exact fun h => nomatch h
        · split
          · exact fun h => nomatch h
          · exact ih _ _ _
      · by_cases h3 : typ = LayerTypeEtherIP
        · subst h3; rw [dlpLoop_eip]
          simp only; split
          · exact fun h => nomatch h
          · split
            · exact fun h => nomatch h
            · exact ih _ _ _
        · rw [dlpLoop_other _ _ _ _ h1 h2 h3]; split <;> exact fun h => nomatch h

/-- The fuel `|data| + 1` of `dlpDecodeLayers` suffices: any two amounts of fuel above the input
    length give the same run (each iteration consumes at least 2 bytes). -/
theorem dlpLoop_fuel (f1 f2 : Nat) (st : DlpState) (typ : Nat) (data : GSlice)
    (h1 : data.len < f1) (h2 : data.len < f2) :
    dlpLoop f1 st typ data = dlpLoop f2 st typ data := by
  induction f1 generalizing f2 st typ data with
  | zero => omega
  | succ f1 ih =>
    cases f2 with
    | zero => omega
    | succ f2 =>
      by_cases e1 : typ = LayerTypeLinuxSLL
      · subst e1; rw [dlpLoop_sll, dlpLoop_sll]
        simp only
        by_cases he : (sllDecSpec st.sll data.vis).err = true
        · rw [if_pos he, if_pos he]
        · rw [if_neg he, if_neg he]
          have hp := sllDecSpec_payload_le st.sll data.vis (by simpa using he)
          split
          · rfl
          · exact ih _ _ _ _ (by unfold GSlice.len at *; simp only; omega) (by unfold GSlice.len at *; simp only; omega)
      · by_cases e2 : typ = LayerTypeLinuxSLL2
        · subst e2; rw [dlpLoop_sll2, dlpLoop_sll2]
          simp only
          by_cases he : (sll2DecSpec st.sll2 data.vis).err = true
          · rw [if_pos he, if_pos he]
          · rw [if_neg he, if_neg he]
            have hp := sll2DecSpec_payload_le st.sll2 data.vis (by simpa using he)
            split
            · rfl
            · exact ih _ _ _ _ (by unfold GSlice.len at *; simp only; omega) (by unfold GSlice.len at *; simp only; omega)
        · by_cases e3 : typ = LayerTypeEtherIP
          · subst e3; rw [dlpLoop_eip, dlpLoop_eip]
            simp only
            by_cases he : (eipDecSpec st.etherip data.vis).err = true
            · rw [if_pos he, if_pos he]
            · rw [if_neg he, if_neg he]
              have hp := eipDecSpec_payload_le st.etherip data.vis (by simpa using he)
              split
              · rfl
              · exact ih _ _ _ _ (by unfold GSlice.len at *; simp only; omega) (by unfold GSlice.len at *; simp only; omega)
          · rw [dlpLoop_other _ _ _ _ e1 e2 e3, dlpLoop_other _ _ _ _ e1 e2 e3]

/-- The result of the parser loop does not depend on the capacity of the packet buffer / the bytes
    behind the input. -/
theorem dlpLoop_cap (fuel : Nat) (st : DlpState) (typ : Nat) (v t1 t2 : Bytes) :
    dlpLoop fuel st typ { vis := v, tail := t1 } = dlpLoop fuel st typ { vis := v, tail := t2 } := by
  induction fuel generalizing st typ v t1 t2 with
  | zero => unfold dlpLoop; rfl
  | succ fuel ih =>
    have hlen : ∀ (p a b : Bytes), GSlice.len { vis := p, tail := a } = GSlice.len { vis := p, tail := b } :=
      fun _ _ _ => rfl
    by_cases e1 : typ = LayerTypeLinuxSLL
    · subst e1; rw [dlpLoop_sll, dlpLoop_sll]
      simp only
      split
      · rfl
      · simp only [hlen _ t1 t2]
        split
        · rfl
        · exact ih _ _ _ _ _
    · by_cases e2 : typ = LayerTypeLinuxSLL2
      · subst e2; rw [dlpLoop_sll2, dlpLoop_sll2]
        simp only
        split
        · rfl
        · simp only [hlen _ t1 t2]
          split
          · rfl
          · exact ih _ _ _ _ _
      · by_cases e3 : typ = LayerTypeEtherIP
        · subst e3; rw [dlpLoop_eip, dlpLoop_eip]
          simp only
          split
          · rfl
          · simp only [hlen _ t1 t2]
            split
            · rfl
            · exact ih _ _ _ _ _
        · rw [dlpLoop_other _ _ _ _ e1 e2 e3, dlpLoop_other _ _ _ _ e1 e2 e3]

/-! ## 3. No stale state through the parser -/

/-- Two parser states agree on everything a caller may rely on after DecodeLayers: the decoded type
    list, the truncation flag, and the contents of every layer object whose type is in the list. -/
def DlpAgree (s1 s2 : DlpState) : Prop :=
  s1.decoded = s2.decoded ∧ s1.trunc = s2.trunc ∧
  (LayerTypeLinuxSLL ∈ s1.decoded → s1.sll = s2.sll) ∧
  (LayerTypeLinuxSLL2 ∈ s1.decoded → s1.sll2 = s2.sll2) ∧
  (LayerTypeEtherIP ∈ s1.decoded → s1.etherip = s2.etherip)

theorem dlpLoop_agree (fuel : Nat) (s1 s2 : DlpState) (typ : Nat) (data : GSlice) (h : DlpAgree s1 s2) :
    ∃ r1 r2 c, dlpLoop fuel s1 typ data = .ok (r1, c) ∧ dlpLoop fuel s2 typ data = .ok (r2, c) ∧
      DlpAgree r1 r2 := by
  induction fuel generalizing s1 s2 typ data with
  | zero => exact ⟨s1, s2, 0, by unfold dlpLoop; rfl, by unfold dlpLoop; rfl, h⟩
  | succ fuel ih =>
    obtain ⟨hd, ht, ha, hl, he⟩ := h
    by_cases e1 : typ = LayerTypeLinuxSLL
    · subst e1; rw [dlpLoop_sll, dlpLoop_sll]
      simp only
      obtain ⟨x1, x2, x3⟩ := sllDecSpec_indep s1.sll s2.sll data.vis
      by_cases hee : (sllDecSpec s1.sll data.vis).err = true
      · have hee2 : (sllDecSpec s2.sll data.vis).err = true := by rw [← x1]; exact hee
        rw [if_pos hee, if_pos hee2]
        refine ⟨_, _, 1, rfl, rfl, hd, by simp only [ht, x2], fun hm => ?_, hl, he⟩
        -- a failed decode may leave a half-updated receiver, but only as a function of the old one
        simp only
        have hs := ha hm
        rw [hs]
      · have hef : (sllDecSpec s1.sll data.vis).err = false := by simpa using hee
        have hee2 : ¬ (sllDecSpec s2.sll data.vis).err = true := by rw [← x1]; exact hee
        rw [if_neg hee, if_neg hee2, ← x3 hef]
        have hag : DlpAgree
            { s1 with sll := (sllDecSpec s1.sll data.vis).layer, trunc := s1.trunc || (sllDecSpec s1.sll data.vis).trunc,
                      decoded := s1.decoded ++ [LayerTypeLinuxSLL] }
            { s2 with sll := (sllDecSpec s1.sll data.vis).layer, trunc := s2.trunc || (sllDecSpec s2.sll data.vis).trunc,
                      decoded := s2.decoded ++ [LayerTypeLinuxSLL] } := by
          refine ⟨by simp only [hd], by simp only [ht, x2], fun _ => rfl, fun hm => ?_, fun hm => ?_⟩
          · simp only [List.mem_append, List.mem_singleton] at hm
            rcases hm with hm | hm
            · exact hl hm
            · exact absurd hm lt_ne_1
          · simp only [List.mem_append, List.mem_singleton] at hm
            rcases hm with hm | hm
            · exact he hm
            · exact absurd hm lt_ne_2
        split
        · exact ⟨_, _, 0, rfl, rfl, hag⟩
        · exact ih _ _ _ _ hag
    · by_cases e2 : typ = LayerTypeLinuxSLL2
      · subst e2; rw [dlpLoop_sll2, dlpLoop_sll2]
        simp only
        obtain ⟨x1, x2, x3⟩ := sll2DecSpec_indep s1.sll2 s2.sll2 data.vis
        by_cases hee : (sll2DecSpec s1.sll2 data.vis).err = true
        · have hee2 : (sll2DecSpec s2.sll2 data.vis).err = true := by rw [← x1]; exact hee
          rw [if_pos hee, if_pos hee2]
          refine ⟨_, _, 1, rfl, rfl, hd, by simp only [ht, x2], ha, fun hm => ?_, he⟩
          simp only
          have hs := hl hm
          rw [hs]
        · have hef : (sll2DecSpec s1.sll2 data.vis).err = false := by simpa using hee
          have hee2 : ¬ (sll2DecSpec s2.sll2 data.vis).err = true := by rw [← x1]; exact hee
          rw [if_neg hee, if_neg hee2, ← x3 hef]
          have hag : DlpAgree
              { s1 with sll2 := (sll2DecSpec s1.sll2 data.vis).layer, trunc := s1.trunc || (sll2DecSpec s1.sll2 data.vis).trunc,
                        decoded := s1.decoded ++ [LayerTypeLinuxSLL2] }
              { s2 with sll2 := (sll2DecSpec s1.sll2 data.vis).layer, trunc := s2.trunc || (sll2DecSpec s2.sll2 data.vis).trunc,
                        decoded := s2.decoded ++ [LayerTypeLinuxSLL2] } := by
            refine ⟨by simp only [hd], by simp only [ht, x2], fun hm => ?_, fun _ => rfl, fun hm => ?_⟩
            · simp only [List.mem_append, List.mem_singleton] at hm
              rcases hm with hm | hm
              · exact ha hm
              · exact absurd hm.symm lt_ne_1
            · simp only [List.mem_append, List.mem_singleton] at hm
              rcases hm with hm | hm
              · exact he hm
              · exact absurd hm lt_ne_3
          split
          · exact ⟨_, _, 0, rfl, rfl, hag⟩
          · exact ih _ _ _ _ hag
      · by_cases e3 : typ = LayerTypeEtherIP
        · subst e3; rw [dlpLoop_eip, dlpLoop_eip]
          simp only
          obtain ⟨x1, x2, x3⟩ := eipDecSpec_indep s1.etherip s2.etherip data.vis
          by_cases hee : (eipDecSpec s1.etherip data.vis).err = true
          · have hee2 : (eipDecSpec s2.etherip data.vis).err = true := by rw [← x1]; exact hee
            rw [if_pos hee, if_pos hee2]
            refine ⟨_, _, 1, rfl, rfl, hd, by simp only [ht, x2], ha, hl, fun hm => ?_⟩
            simp only
            have hs := he hm
            rw [hs]
          · have hef : (eipDecSpec s1.etherip data.vis).err = false := by simpa using hee
            have hee2 : ¬ (eipDecSpec s2.etherip data.vis).err = true := by rw [← x1]; exact hee
            rw [if_neg hee, if_neg hee2, ← x3 hef]
            have hag : DlpAgree
                { s1 with etherip := (eipDecSpec s1.etherip data.vis).layer, trunc := s1.trunc || (eipDecSpec s1.etherip data.vis).trunc,
                          decoded := s1.decoded ++ [LayerTypeEtherIP] }
                { s2 with etherip := (eipDecSpec s1.etherip data.vis).layer, trunc := s2.trunc || (eipDecSpec s2.etherip data.vis).trunc,
                          decoded := s2.decoded ++ [LayerTypeEtherIP] } := by
              refine ⟨by simp only [hd], by simp only [ht, x2], fun hm => ?_, fun hm => ?_, fun _ => rfl⟩
              · simp only [List.mem_append, List.mem_singleton] at hm
                rcases hm with hm | hm
                · exact ha hm
                · exact absurd hm.symm lt_ne_2
              · simp only [List.mem_append, List.mem_singleton] at hm
                rcases hm with hm | hm
                · exact hl hm
                · exact absurd hm.symm lt_ne_3
            split
            · exact ⟨_, _, 0, rfl, rfl, hag⟩
            · exact ih _ _ _ _ hag
        · rw [dlpLoop_other _ _ _ _ e1 e2 e3, dlpLoop_other _ _ _ _ e1 e2 e3]
          split
          · exact ⟨_, _, 0, rfl, rfl, hd, ht, ha, hl, he⟩
          · exact ⟨_, _, 2, rfl, rfl, hd, ht, ha, hl, he⟩

/-! ## 3b. The parser over exactly these three types decodes at most one layer -/

theorem lookup_getD_mem (t : List (Nat × Nat)) (a d : Nat) :
    (t.lookup a).getD d = d ∨ (t.lookup a).getD d ∈ t.map (·.2) := by
  induction t with
  | nil => exact Or.inl rfl
  | cons r t ih =>
    rcases r with ⟨k, v⟩
    by_cases h : a = k
    · subst h
      right
      simp [List.lookup]
    · have hb : (a == k) = false := by simpa using h
      simp only [List.lookup, hb, List.map_cons, List.mem_cons]
      rcases ih with ih | ih
      · exact Or.inl ih
      · exact Or.inr (Or.inr ih)

def notOurs (t : Nat) : Prop := t ≠ LayerTypeLinuxSLL ∧ t ≠ LayerTypeLinuxSLL2 ∧ t ≠ LayerTypeEtherIP

theorem ethTypeLayerType_notOurs (a : Nat) : notOurs (ethTypeLayerType a) := by
  have hall : ∀ x ∈ LayerTypeZero :: ethTypeTable.map (·.2), notOurs x := by
    unfold notOurs; decide
  unfold ethTypeLayerType
  rcases lookup_getD_mem ethTypeTable a LayerTypeZero with h | h
  · rw [h]; exact hall _ (List.mem_cons_self)
  · exact hall _ (List.mem_cons_of_mem _ h)

theorem sll2_next_notOurs (l : LinuxSLL2) : notOurs l.nextLayerType := by
  unfold LinuxSLL2.nextLayerType
  repeat' split
  all_goals first
    | exact ethTypeLayerType_notOurs _
    | (unfold notOurs; decide)

theorem eip_next_notOurs (l : EtherIP) : notOurs l.nextLayerType := by
  unfold notOurs EtherIP.nextLayerType; decide

/-- Started on a type outside the set, the loop returns at once and leaves the state alone. -/
theorem dlpLoop_notOurs (fuel : Nat) (st : DlpState) (typ : Nat) (data : GSlice) (h : notOurs typ) :
    ∃ c, dlpLoop fuel st typ data = .ok (st, c) := by
  cases fuel with
  | zero => exact ⟨0, by unfold dlpLoop; rfl⟩
  | succ fuel =>
    rw [dlpLoop_other _ _ _ _ h.1 h.2.1 h.2.2]
    split
    · exact ⟨0, rfl⟩
    · exact ⟨2, rfl⟩

theorem dlpLoop_one_layer (fuel : Nat) (st r : DlpState) (typ c : Nat) (data : GSlice)
    (h : dlpLoop fuel st typ data = .ok (r, c)) : r.decoded.length ≤ st.decoded.length + 1 := by
  cases fuel with
  | zero => unfold dlpLoop at h; cases h; omega
  | succ fuel =>
    by_cases e1 : typ = LayerTypeLinuxSLL
    · subst e1; rw [dlpLoop_sll] at h
      simp only at h
      split at h
      · cases h; simp only; omega
      · split at h
        · cases h; simp only [List.length_append, List.length_singleton]; omega
        · obtain ⟨c', hc⟩ := dlpLoop_notOurs fuel _ _ _ (ethTypeLayerType_notOurs _)
          unfold LinuxSLL.nextLayerType at h
          rw [hc] at h; cases h
          simp only [List.length_append, List.length_singleton]; omega
    · by_cases e2 : typ = LayerTypeLinuxSLL2
      · subst e2; rw [dlpLoop_sll2] at h
        simp only at h
        split at h
        · cases h; simp only; omega
        · split at h
          · cases h; simp only [List.length_append, List.length_singleton]; omega
          · obtain ⟨c', hc⟩ := dlpLoop_notOurs fuel _ _ _ (sll2_next_notOurs _)
            rw [hc] at h; cases h
            simp only [List.length_append, List.length_singleton]; omega
      · by_cases e3 : typ = LayerTypeEtherIP
        · subst e3; rw [dlpLoop_eip] at h
          simp only at h
          split at h
          · cases h; simp only; omega
          · split at h
            · cases h; simp only [List.length_append, List.length_singleton]; omega
            · obtain ⟨c', hc⟩ := dlpLoop_notOurs fuel _ _ _ (eip_next_notOurs _)
              rw [hc] at h; cases h
              simp only [List.length_append, List.length_singleton]; omega
        · rw [dlpLoop_other _ _ _ _ e1 e2 e3] at h
          split at h <;> (cases h; omega)

/-! ## 4. Flows -/

theorem pad16_take (b : Bytes) : (pad16 b).take b.length = b := by
  unfold pad16
  rw [List.take_append_of_le_length (Nat.le_refl _), List.take_length]

/-- `NewFlow` on two addresses of at most MaxEndpointSize bytes: no panic, and the flow's source /
    destination byte strings are exactly the two addresses. -/
theorem newFlow_ok (t : Nat) (src dst : Bytes) (hs : src.length ≤ maxEndpointSize) (hd : dst.length ≤ maxEndpointSize) :
    ∃ f, newFlow t src dst = .ok f ∧ f.typ = t ∧ f.srcBytes = src ∧ f.dstBytes = dst ∧
      f.reverse.srcBytes = dst ∧ f.reverse.dstBytes = src ∧ f.reverse.typ = t := by
  unfold newFlow
  rw [if_neg (by omega)]
  exact ⟨_, rfl, rfl, pad16_take src, pad16_take dst, pad16_take dst, pad16_take src, rfl⟩

/-- The flows of the two directions: NewFlow with the arguments exchanged is the reverse. -/
theorem newFlow_swap (t : Nat) (a b : Bytes) (f : Flow) (h : newFlow t a b = .ok f) :
    newFlow t b a = .ok f.reverse := by
  unfold newFlow at h ⊢
  by_cases hc : a.length > maxEndpointSize ∨ b.length > maxEndpointSize
  · rw [if_pos hc] at h; cases h
  · rw [if_neg hc] at h
    rw [if_neg (by omega)]
    cases h; rfl

theorem u8_of_toNat (b : UInt8) : u8 b.toNat = b := by
  unfold u8
  rw [Nat.mod_eq_of_lt b.toNat_lt]
  exact UInt8.ofNat_toNat

/-- The address handed to NewFlow by the two LinkFlow accessors is never longer than MaxEndpointSize. -/
theorem cut_le (addr : Bytes) :
    (if addr.length > maxEndpointSize then addr.take maxEndpointSize else addr).length ≤ maxEndpointSize := by
  split
  · rw [List.length_take]; exact Nat.min_le_left _ _
  · omega

theorem cut_eq_take (addr : Bytes) :
    (if addr.length > maxEndpointSize then addr.take maxEndpointSize else addr) = addr.take maxEndpointSize := by
  split
  · rfl
  · rw [List.take_of_length_le (by omega)]

theorem putBe16_be16 (a b : UInt8) : putBe16 (be16 a b) = [a, b] := by
  have ha := a.toNat_lt
  have hb := b.toNat_lt
  unfold putBe16 be16
  have e1 : (a.toNat * 256 + b.toNat) / 256 = a.toNat := by omega
  have e2 : u8 (a.toNat * 256 + b.toNat) = u8 b.toNat := by unfold u8; congr 1; omega
  rw [e1, e2, u8_of_toNat, u8_of_toNat]

theorem LinuxSLL.linkFlow_eq (l : LinuxSLL) :
    l.linkFlow = newFlow EndpointMAC (l.addr.take maxEndpointSize) [] := by
  unfold LinuxSLL.linkFlow; simp only; rw [cut_eq_take]

theorem LinuxSLL2.linkFlow_eq (l : LinuxSLL2) :
    l.linkFlow = newFlow EndpointMAC (l.addr.take maxEndpointSize) [] := by
  unfold LinuxSLL2.linkFlow; simp only; rw [cut_eq_take]

end Gp.Sll
