import Gp.Lemmas.Layers.Ip6Bits
import Gp.Lemmas.Layers.Ip6Tlv4
/-
  Round trip of the TLV option area: decoding `encOpts` gives back the options (plus the padding
  options the serializer inserted).  Core Lean only.
-/
namespace Gp.Ip6
open Gp

/-! ## the decode loop does not depend on its fuel -/

theorem tlvAreaSpec_fuel : ∀ (f1 f2 : Nat) (area : Bytes), area.length ≤ f1 → area.length ≤ f2 →
    tlvAreaSpec f1 area = tlvAreaSpec f2 area := by
  intro f1
  induction f1 with
  | zero =>
    intro f2 area h1 _
    have : area = [] := List.eq_nil_of_length_eq_zero (by omega)
    subst this
    cases f2 <;> rfl
  | succ f1 ih =>
    intro f2 area h1 h2
    match area, f2, h1, h2 with
    | [], f2, _, _ => cases f2 <;> rfl
    | a :: as, f2 + 1, h1, h2 =>
      simp only [tlvAreaSpec]
      match hd : decodeTlvSpec (a :: as) with
      | (.panic k, tr) => rfl
      | (.err e, tr) => rfl
      | (.ok o, tr) =>
        obtain ⟨g1, g2, -⟩ := decodeTlvSpec_ok _ o tr hd
        simp only
        have hl : ((a :: as).drop o.alen).length ≤ f1 := by
          rw [List.length_drop]; simp only [List.length_cons] at h1 g2 ⊢; omega
        have hl2 : ((a :: as).drop o.alen).length ≤ f2 := by
          rw [List.length_drop]; simp only [List.length_cons] at h2 g2 ⊢; omega
        rw [ih f2 _ hl hl2]

/-- The loop with exactly enough fuel. -/
def tlvArea (area : Bytes) : List Tlv × Bool × Res Unit := tlvAreaSpec area.length area

theorem tlvAreaSpec_eq_tlvArea (fuel : Nat) (area : Bytes) (h : area.length ≤ fuel) :
    tlvAreaSpec fuel area = tlvArea area := tlvAreaSpec_fuel _ _ _ h (Nat.le_refl _)

theorem tlvArea_nil : tlvArea [] = ([], false, .ok ()) := rfl

/-- one decoded option in front -/
theorem tlvArea_cons (area : Bytes) (o : Tlv) (hne : area ≠ []) (h : decodeTlvSpec area = (.ok o, false)) :
    tlvArea area = (o :: (tlvArea (area.drop o.alen)).1, (tlvArea (area.drop o.alen)).2.1,
                    (tlvArea (area.drop o.alen)).2.2) := by
  obtain ⟨g1, g2, -⟩ := decodeTlvSpec_ok _ o false h
  match area, hne with
  | a :: as, _ =>
    unfold tlvArea
    simp only [List.length_cons, tlvAreaSpec, h]
    rw [tlvAreaSpec_fuel as.length ((a :: as).drop o.alen).length _
      (by rw [List.length_drop]; simp only [List.length_cons]; omega) (Nat.le_refl _)]
    simp

/-! ## decoded forms -/

def padOpts (pad : Nat) : List Tlv :=
  if pad = 0 then [] else if pad = 1 then [pad1]
  else [{ typ := 1, len := pad - 2, alen := pad, data := some (List.replicate (pad - 2) 0), ax := 0, ay := 0 }]

def decOpt (o : Tlv) : Tlv :=
  if o.typ = 0 then pad1
  else { typ := o.typ, len := o.len, alen := o.len + 2, data := some (o.bytes.take o.len), ax := 0, ay := 0 }

def decItems (fix : Bool) : List Tlv → Nat → List Tlv
  | [], _ => []
  | o :: os, length =>
    padOpts (alignPad fix o length) ++
      decOpt (fixOpt fix o) :: decItems fix os (length + alignPad fix o length + optLen (fixOpt fix o))

theorem tlvArea_pad (pad : Nat) (rest : Bytes) (h : pad < 256) :
    tlvArea (padBytes pad ++ rest) =
      (padOpts pad ++ (tlvArea rest).1, (tlvArea rest).2.1, (tlvArea rest).2.2) := by
  unfold padBytes padOpts
  by_cases h0 : pad = 0
  · simp [h0]
  · by_cases h1 : pad = 1
    · rw [if_neg h0, if_pos h1, if_neg h0, if_pos h1]
      rw [tlvArea_cons ([0] ++ rest) pad1 (by simp) (by simp [decodeTlvSpec])]
      simp [pad1]
    · rw [if_neg h0, if_neg h1, if_neg h0, if_neg h1]
      have hl : (u8 ((pad % 256 + 254) % 256)).toNat = pad - 2 := by
        rw [u8_toNat _ (by omega)]; omega
      have hdec : decodeTlvSpec (1 :: u8 ((pad % 256 + 254) % 256) :: List.replicate (pad - 2) 0 ++ rest) =
          (.ok { typ := 1, len := pad - 2, alen := pad, data := some (List.replicate (pad - 2) 0),
                 ax := 0, ay := 0 }, false) := by
        simp only [List.cons_append, decodeTlvSpec, hl]
        have h10 : ¬ ((1 : UInt8) = 0) := by decide
        rw [if_neg h10]
        have hlt : ¬ (List.replicate (pad - 2) (0 : UInt8) ++ rest).length < pad - 2 := by simp
        rw [if_neg hlt, List.take_left' (by simp)]
        have : pad - 2 + 2 = pad := by omega
        simp [this]
      rw [tlvArea_cons _ _ (by simp) hdec]
      have hdrop : (1 :: u8 ((pad % 256 + 254) % 256) :: List.replicate (pad - 2) 0 ++ rest).drop pad = rest := by
        have : (1 :: u8 ((pad % 256 + 254) % 256) :: List.replicate (pad - 2) (0 : UInt8)).length = pad := by
          simp; omega
        rw [List.drop_left' this]
      simp only [hdrop, List.singleton_append]

theorem tlvArea_opt (o : Tlv) (rest : Bytes) (ht : o.typ < 256) (hl : o.len < 256)
    (hg : o.typ ≠ 0 → o.len ≤ o.bytes.length) :
    tlvArea (optBytes o ++ rest) =
      (decOpt o :: (tlvArea rest).1, (tlvArea rest).2.1, (tlvArea rest).2.2) := by
  unfold optBytes decOpt
  by_cases h0 : o.typ = 0
  · rw [if_pos h0, if_pos h0]
    rw [tlvArea_cons ([0] ++ rest) pad1 (by simp) (by simp [decodeTlvSpec])]
    simp [pad1]
  · rw [if_neg h0, if_neg h0]
    have hne : ¬ (u8 o.typ = 0) := by rw [u8_eq_zero_iff _ ht]; exact h0
    have hlen : (o.bytes.take o.len).length = o.len := by
      rw [List.length_take]; exact Nat.min_eq_left (hg h0)
    have hdec : decodeTlvSpec (u8 o.typ :: u8 o.len :: o.bytes.take o.len ++ rest) =
        (.ok { typ := o.typ, len := o.len, alen := o.len + 2, data := some (o.bytes.take o.len),
               ax := 0, ay := 0 }, false) := by
      simp only [List.cons_append, decodeTlvSpec]
      rw [if_neg hne, u8_toNat _ hl, u8_toNat _ ht]
      have hlt : ¬ (o.bytes.take o.len ++ rest).length < o.len := by
        rw [List.length_append, hlen]; omega
      rw [if_neg hlt, List.take_left' hlen]
    rw [tlvArea_cons _ _ (by simp) hdec]
    have hdrop : (u8 o.typ :: u8 o.len :: o.bytes.take o.len ++ rest).drop (o.len + 2) = rest := by
      have : (u8 o.typ :: u8 o.len :: o.bytes.take o.len).length = o.len + 2 := by simp [hlen]
      rw [List.drop_left' this]
    simp only [hdrop]

/-- Options in range for the wire format. -/
def OptsInRange (fix : Bool) (os : List Tlv) : Prop :=
  ∀ o ∈ os, o.typ < 256 ∧ (fixOpt fix o).len < 256

theorem tlvArea_encLoop (fix : Bool) : ∀ (os : List Tlv) (length : Nat) (rest : Bytes),
    GapFree fix os → AlignInRange os → OptsInRange fix os →
    tlvArea ((encLoop fix os length).1 ++ rest) =
      (decItems fix os length ++ (tlvArea rest).1, (tlvArea rest).2.1, (tlvArea rest).2.2) := by
  intro os
  induction os with
  | nil => intro length rest _ _ _; simp [encLoop, decItems]
  | cons o os ih =>
    intro length rest hg hr hi
    simp only [encLoop, decItems, List.append_assoc]
    rw [tlvArea_pad _ _ (alignPad_lt fix o length (hr o List.mem_cons_self))]
    have hgo : (fixOpt fix o).typ ≠ 0 → (fixOpt fix o).len ≤ (fixOpt fix o).bytes.length := by
      intro ht; rw [fixOpt_typ] at ht; rw [fixOpt_bytes]; exact hg o List.mem_cons_self ht
    rw [tlvArea_opt (fixOpt fix o) _ (by rw [fixOpt_typ]; exact (hi o List.mem_cons_self).1)
      (hi o List.mem_cons_self).2 hgo]
    rw [ih _ rest (fun x hx => hg x (List.mem_cons_of_mem _ hx))
      (fun x hx => hr x (List.mem_cons_of_mem _ hx)) (fun x hx => hi x (List.mem_cons_of_mem _ hx))]
    simp

end Gp.Ip6
