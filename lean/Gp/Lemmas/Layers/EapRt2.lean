import Gp.Lemmas.Layers.EapRt
/-
  Helper lemmas for engine `leap`, part 7: EAPOL-Key decode ∘ encode, decoded layers are well-formed.
-/
namespace Gp.Eap
open Gp Gp.SBuf Gp.C18 Gp.Gen.Eap

/-- The frame of a layer whose Nonce / IV / MIC have their field sizes: no padding. -/
theorem keyEncode_exact (l : EAPOLKey) (hn : l.nonce.length = 32) (hi : l.iv.length = 16) (hm : l.mic.length = 16) :
    keyEncode l = [u8 l.keyDescriptorType] ++ (putBe16 (keyInfo l) ++ (putBe16 l.keyLength ++ (putBe64 l.replayCounter ++
      (l.nonce ++ (l.iv ++ (putBe64 l.rsc ++ (putBe64 l.id ++ (l.mic ++ (putBe16 l.keyDataLength ++ l.encryptedKeyData))))))))) := by
  unfold keyEncode
  rw [pad_of_length 32 _ hn, pad_of_length 16 _ hi, pad_of_length 16 _ hm]
  simp only [List.append_assoc]

/-- The fields read back from the written frame. -/
theorem key_fields_of_encode (l : EAPOLKey) (p : Bytes) (hw : wfKey l p) :
    let v := keyEncode l ++ p
    (byteAt v 0).toNat = l.keyDescriptorType ∧ u16At v 1 = keyInfo l ∧ u16At v 3 = l.keyLength ∧
    u64At v 5 = l.replayCounter ∧ (v.drop 13).take 32 = l.nonce ∧ (v.drop 45).take 16 = l.iv ∧
    u64At v 61 = l.rsc ∧ u64At v 69 = l.id ∧ (v.drop 77).take 16 = l.mic ∧ u16At v 93 = l.keyDataLength ∧
    (v.drop 95).take l.encryptedKeyData.length = l.encryptedKeyData ∧
    v.take (95 + l.encryptedKeyData.length) = keyEncode l ∧ v.drop (95 + l.encryptedKeyData.length) = p ∧
    v.length = 95 + l.encryptedKeyData.length + p.length := by
  intro v
  obtain ⟨w0, w1, w2, w3, w4, w5, w6, w7, w8, w9, w10, w11, -, -⟩ := hw
  have hE := keyEncode_exact l w6 w7 w10
  have hI := keyInfo_lt l w1 w2 w3
  have hlen := keyEncode_length l
  -- names for the parts
  generalize hK : [u8 l.keyDescriptorType] = K at hE
  generalize hA : putBe16 (keyInfo l) = A at hE
  generalize hB : putBe16 l.keyLength = B at hE
  generalize hC : putBe64 l.replayCounter = C at hE
  generalize hR : putBe64 l.rsc = R at hE
  generalize hD : putBe64 l.id = D at hE
  generalize hL : putBe16 l.keyDataLength = L at hE
  have lK : K.length = 1 := by rw [← hK]; rfl
  have lA : A.length = 2 := by rw [← hA]; rfl
  have lB : B.length = 2 := by rw [← hB]; rfl
  have lC : C.length = 8 := by rw [← hC]; rfl
  have lR : R.length = 8 := by rw [← hR]; rfl
  have lD : D.length = 8 := by rw [← hD]; rfl
  have lL : L.length = 2 := by rw [← hL]; rfl
  have v0 : v = K ++ (A ++ (B ++ (C ++ (l.nonce ++ (l.iv ++ (R ++ (D ++ (l.mic ++ (L ++ (l.encryptedKeyData ++ p)))))))))) := by
    simp only [v, hE, List.append_assoc]
  have v1 : v = K ++ (A ++ (B ++ (C ++ (l.nonce ++ (l.iv ++ (R ++ (D ++ (l.mic ++ (L ++ (l.encryptedKeyData ++ p)))))))))) := v0
  have v3 : v = (K ++ A) ++ (B ++ (C ++ (l.nonce ++ (l.iv ++ (R ++ (D ++ (l.mic ++ (L ++ (l.encryptedKeyData ++ p))))))))) := by
    rw [v0]; simp only [List.append_assoc]
  have v5 : v = (K ++ A ++ B) ++ (C ++ (l.nonce ++ (l.iv ++ (R ++ (D ++ (l.mic ++ (L ++ (l.encryptedKeyData ++ p)))))))) := by
    rw [v0]; simp only [List.append_assoc]
  have v13 : v = (K ++ A ++ B ++ C) ++ (l.nonce ++ (l.iv ++ (R ++ (D ++ (l.mic ++ (L ++ (l.encryptedKeyData ++ p))))))) := by
    rw [v0]; simp only [List.append_assoc]
  have v45 : v = (K ++ A ++ B ++ C ++ l.nonce) ++ (l.iv ++ (R ++ (D ++ (l.mic ++ (L ++ (l.encryptedKeyData ++ p)))))) := by
    rw [v0]; simp only [List.append_assoc]
  have v61 : v = (K ++ A ++ B ++ C ++ l.nonce ++ l.iv) ++ (R ++ (D ++ (l.mic ++ (L ++ (l.encryptedKeyData ++ p))))) := by
    rw [v0]; simp only [List.append_assoc]
  have v69 : v = (K ++ A ++ B ++ C ++ l.nonce ++ l.iv ++ R) ++ (D ++ (l.mic ++ (L ++ (l.encryptedKeyData ++ p)))) := by
    rw [v0]; simp only [List.append_assoc]
  have v77 : v = (K ++ A ++ B ++ C ++ l.nonce ++ l.iv ++ R ++ D) ++ (l.mic ++ (L ++ (l.encryptedKeyData ++ p))) := by
    rw [v0]; simp only [List.append_assoc]
  have v93 : v = (K ++ A ++ B ++ C ++ l.nonce ++ l.iv ++ R ++ D ++ l.mic) ++ (L ++ (l.encryptedKeyData ++ p)) := by
    rw [v0]; simp only [List.append_assoc]
  have v95 : v = (K ++ A ++ B ++ C ++ l.nonce ++ l.iv ++ R ++ D ++ l.mic ++ L) ++ (l.encryptedKeyData ++ p) := by
    rw [v0]; simp only [List.append_assoc]
  have l3 : (K ++ A).length = 3 := by simp only [List.length_append, lK, lA]
  have l5 : (K ++ A ++ B).length = 5 := by simp only [List.length_append, lK, lA, lB]
  have l13 : (K ++ A ++ B ++ C).length = 13 := by simp only [List.length_append, lK, lA, lB, lC]
  have l45 : (K ++ A ++ B ++ C ++ l.nonce).length = 45 := by simp only [List.length_append, lK, lA, lB, lC, w6]
  have l61 : (K ++ A ++ B ++ C ++ l.nonce ++ l.iv).length = 61 := by simp only [List.length_append, lK, lA, lB, lC, w6, w7]
  have l69 : (K ++ A ++ B ++ C ++ l.nonce ++ l.iv ++ R).length = 69 := by
    simp only [List.length_append, lK, lA, lB, lC, w6, w7, lR]
  have l77 : (K ++ A ++ B ++ C ++ l.nonce ++ l.iv ++ R ++ D).length = 77 := by
    simp only [List.length_append, lK, lA, lB, lC, w6, w7, lR, lD]
  have l93 : (K ++ A ++ B ++ C ++ l.nonce ++ l.iv ++ R ++ D ++ l.mic).length = 93 := by
    simp only [List.length_append, lK, lA, lB, lC, w6, w7, lR, lD, w10]
  have l95 : (K ++ A ++ B ++ C ++ l.nonce ++ l.iv ++ R ++ D ++ l.mic ++ L).length = 95 := by
    simp only [List.length_append, lK, lA, lB, lC, w6, w7, lR, lD, w10, lL]
  refine ⟨?_, ?_, ?_, ?_, ?_, ?_, ?_, ?_, ?_, ?_, ?_, ?_, ?_, ?_⟩
  · rw [v1, ← hK]; show (u8 l.keyDescriptorType).toNat = _; rw [u8_toNat]; omega
  · rw [v1, ← hA, u16At_prefix K _ 1 _ lK]; exact be16_putBe16 _ (by omega)
  · rw [v3, ← hB, u16At_prefix (K ++ A) _ 3 _ l3]; exact be16_putBe16 _ w4
  · rw [v5, ← hC, u64At_prefix (K ++ A ++ B) _ 5 _ l5]; exact be64_putBe64 _ w5
  · rw [v13]; exact drop_take_prefix _ _ _ 13 32 l13 w6
  · rw [v45]; exact drop_take_prefix _ _ _ 45 16 l45 w7
  · rw [v61, ← hR, u64At_prefix _ _ 61 _ l61]; exact be64_putBe64 _ w8
  · rw [v69, ← hD, u64At_prefix _ _ 69 _ l69]; exact be64_putBe64 _ w9
  · rw [v77]; exact drop_take_prefix _ _ _ 77 16 l77 w10
  · rw [v93, ← hL, u16At_prefix _ _ 93 _ l93]; exact be16_putBe16 _ w11
  · rw [v95]; exact drop_take_prefix _ _ _ 95 _ l95 rfl
  · exact List.take_left' (by rw [hlen])
  · exact List.drop_left' (by rw [hlen])
  · simp only [v, List.length_append, hlen]

/-- Decoding the bytes `EAPOLKey.SerializeTo` writes for a well-formed layer gives back exactly that
    layer: Contents = the layer's bytes (95 + encrypted key data), Payload = `p`. -/
theorem keyDecSpec_encode (old l : EAPOLKey) (p : Bytes) (hw : wfKey l p) :
    keyDecSpec true old (keyEncode l ++ p) =
      { layer := { l with contents := keyEncode l, payload := p }, trunc := false, err := false } := by
  obtain ⟨f0, f1, f2, f3, f4, f5, f6, f7, f8, f9, f10, f11, f12, f13⟩ := key_fields_of_encode l p hw
  obtain ⟨w0, w1, w2, w3, w4, w5, w6, w7, w8, w9, w10, w11, w12, w13⟩ := hw
  have hK : keyKdl (keyEncode l ++ p) = l.keyDataLength := f9
  have hF := keyInfoFields_keyInfo { old with keyDescriptorType := l.keyDescriptorType } l w1 w2 w3
  have hH : keyHdr old (keyEncode l ++ p) =
      { l with contents := old.contents, payload := old.payload, encryptedKeyData := old.encryptedKeyData } := by
    unfold keyHdr
    rw [f0, f1, f2, f3, f4, f5, f6, f7, f8, f9, hF]
  have hEnc : keyEnc (keyEncode l ++ p) = l.hasEncryptedKeyData := by
    have : keyEnc (keyEncode l ++ p) = (keyHdr old (keyEncode l ++ p)).hasEncryptedKeyData := rfl
    rw [this, hH]
  unfold keyDecSpec
  rw [hK, hEnc, hH]
  cases hE : l.hasEncryptedKeyData
  · obtain ⟨z1, z2⟩ := w13 hE
    rw [z1] at f11 f12 f13
    simp only [List.length_nil, Nat.add_zero] at f11 f12 f13
    rw [if_neg (by rw [f13]; omega)]
    simp only [Bool.false_eq_true, if_false, if_true, f11, f12]
    cases l
    simp only at z1 hE
    subst z1 hE
    rfl
  · have z := w12 hE
    rw [if_neg (by rw [f13]; omega)]
    simp only [if_true]
    rw [z, f10, f11, f12]

theorem keyEncode_base (l : EAPOLKey) (c q : Bytes) : keyEncode { l with contents := c, payload := q } = keyEncode l := rfl

/-- Every successfully decoded EAPOL-Key layer (with leap-3) is well-formed over its own payload. -/
theorem keyDecSpec_wf (old : EAPOLKey) (v : Bytes) (h95 : 95 ≤ v.length) (h : (keyDecSpec true old v).err = false) :
    wfKey (keyDecSpec true old v).layer (keyDecSpec true old v).layer.payload := by
  obtain ⟨r1, r2, r3⟩ := keyInfoFields_range { old with keyDescriptorType := (byteAt v 0).toNat } (u16At v 1)
  have hk : keyKdl v < 65536 := u16At_lt v 93
  unfold keyDecSpec at h ⊢
  by_cases hlt : v.length < 95 + keyKdl v
  · rw [if_pos hlt] at h; cases h
  · rw [if_neg hlt]
    have hEq : keyEnc v = (keyHdr old v).hasEncryptedKeyData := rfl
    by_cases hE : keyEnc v = true
    · rw [if_pos hE]
      refine ⟨(byteAt v 0).toNat_lt, r1, r2, r3, u16At_lt v 3, u64At_lt v 5, ?_, ?_, u64At_lt v 61, u64At_lt v 69, ?_,
        hk, ?_, ?_⟩
      · show ((v.drop 13).take 32).length = 32
        rw [List.length_take, List.length_drop]; omega
      · show ((v.drop 45).take 16).length = 16
        rw [List.length_take, List.length_drop]; omega
      · show ((v.drop 77).take 16).length = 16
        rw [List.length_take, List.length_drop]; omega
      · intro _
        show keyKdl v = ((v.drop 95).take (keyKdl v)).length
        rw [List.length_take, List.length_drop]; omega
      · intro hf
        have : (keyHdr old v).hasEncryptedKeyData = false := hf
        rw [← hEq, hE] at this; cases this
    · rw [if_neg hE]
      refine ⟨(byteAt v 0).toNat_lt, r1, r2, r3, u16At_lt v 3, u64At_lt v 5, ?_, ?_, u64At_lt v 61, u64At_lt v 69, ?_,
        hk, ?_, ?_⟩
      · show ((v.drop 13).take 32).length = 32
        rw [List.length_take, List.length_drop]; omega
      · show ((v.drop 45).take 16).length = 16
        rw [List.length_take, List.length_drop]; omega
      · show ((v.drop 77).take 16).length = 16
        rw [List.length_take, List.length_drop]; omega
      · intro ht
        have : (keyHdr old v).hasEncryptedKeyData = true := ht
        rw [← hEq] at this; exact absurd this hE
      · intro _
        refine ⟨rfl, ?_⟩
        show keyKdl v ≤ (v.drop 95).length
        rw [List.length_drop]; omega

end Gp.Eap
