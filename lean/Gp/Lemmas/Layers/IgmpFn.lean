import Gp.Lemmas.Layers.IgmpGtp
import Gp.Lemmas.Layers.IgmpV3
/-
  Helper lemmas for engine `ligmp`, part 4: receiver-independence of the IGMPv1or2 / IPSecAH / IPSecESP
  specifications, the registered decoder functions as functions of the visible bytes, and the parser loop.
  Core Lean only.
-/
namespace Gp.Igmp
open Gp Gp.Gen.Igmp

/-! ## 1. Definitions used in property statements -/

/-- What `decodeIPSecAH` does, as a function of the visible bytes. -/
def ahFnSpec (v : Bytes) : Beh × Option IPSecAH :=
  decodingLayerDecoder (ahDecSpec IPSecAH.fresh v) LayerTypeIPSecAH (ahDecSpec IPSecAH.fresh v).layer.nextLayerType

def espFnSpec (v : Bytes) : Beh × Option IPSecESP :=
  decodingLayerDecoder (espDecSpec IPSecESP.fresh v) LayerTypeIPSecESP LayerTypePayload

def gtpFnSpec (v : Bytes) : Beh × Option GTPv2 :=
  if (gtpDecSpec GTPv2.fresh v).err then failed []
  else ({ acts := [.addLayer LayerTypeGTPv2], tail := .nextLayerType LayerTypePayload }, some (gtpDecSpec GTPv2.fresh v).layer)

/-- Which struct decodeIGMP chooses for a message: `some true` = IGMP (v3), `some false` = IGMPv1or2, `none` =
    "Unable to determine IGMP type" / too small. -/
def igmpChoice (v : Bytes) : Option Bool :=
  if v.length < 1 then none
  else if (byteAt v 0).toNat = igmpMembershipQuery then
    (if v.length ≥ 12 then some true else if v.length = 8 then some false else none)
  else if (byteAt v 0).toNat = igmpMembershipReportV3 then some true
  else if (byteAt v 0).toNat = igmpMembershipReportV1 then some false
  else if (byteAt v 0).toNat = igmpLeaveGroup ∨ (byteAt v 0).toNat = igmpMembershipReportV2 then some false
  else none

/-- What `decodeIGMP` does, as a function of the visible bytes: the chosen struct decoded FRESH. -/
def igmpFnSpec (v : Bytes) : Beh × Option AnyIgmp :=
  match igmpChoice v with
  | none => failed []
  | some true => liftV3 (decodingLayerDecoder (igmp3DecSpec IGMP.fresh v) LayerTypeIGMP LayerTypeZero)
  | some false => liftV12 (decodingLayerDecoder (igmp12DecSpec IGMPv1or2.fresh v) LayerTypeIGMP LayerTypeZero)

/-! ## 2. Receiver independence of the small specifications -/

theorem igmp12DecSpec_indep (a b : IGMPv1or2) (v : Bytes) : (igmp12DecSpec a v).err = (igmp12DecSpec b v).err ∧
    (igmp12DecSpec a v).trunc = (igmp12DecSpec b v).trunc ∧
    ((igmp12DecSpec a v).err = false → (igmp12DecSpec a v).layer = (igmp12DecSpec b v).layer) := by
  unfold igmp12DecSpec
  by_cases h1 : v.length < 8
  · rw [if_pos h1, if_pos h1]; exact ⟨rfl, rfl, fun hh => by cases hh⟩
  · rw [if_neg h1, if_neg h1]; exact ⟨rfl, rfl, fun _ => rfl⟩

theorem ahDecSpec_indep (a b : IPSecAH) (v : Bytes) : (ahDecSpec a v).err = (ahDecSpec b v).err ∧
    (ahDecSpec a v).trunc = (ahDecSpec b v).trunc ∧
    ((ahDecSpec a v).err = false → (ahDecSpec a v).layer = (ahDecSpec b v).layer) := by
  unfold ahDecSpec
  by_cases h1 : v.length < 12
  · rw [if_pos h1, if_pos h1]; exact ⟨rfl, rfl, fun hh => by cases hh⟩
  · rw [if_neg h1, if_neg h1]
    by_cases h2 : ahLen v < 12
    · rw [if_pos h2, if_pos h2]; exact ⟨rfl, rfl, fun hh => by cases hh⟩
    · rw [if_neg h2, if_neg h2]
      by_cases h3 : v.length < ahLen v
      · rw [if_pos h3, if_pos h3]; exact ⟨rfl, rfl, fun hh => by cases hh⟩
      · rw [if_neg h3, if_neg h3]; exact ⟨rfl, rfl, fun _ => rfl⟩

theorem espDecSpec_indep (a b : IPSecESP) (v : Bytes) : (espDecSpec a v).err = (espDecSpec b v).err ∧
    (espDecSpec a v).trunc = (espDecSpec b v).trunc ∧
    ((espDecSpec a v).err = false → (espDecSpec a v).layer = (espDecSpec b v).layer) := by
  unfold espDecSpec
  by_cases h1 : v.length < 8
  · rw [if_pos h1, if_pos h1]; exact ⟨rfl, rfl, fun hh => by cases hh⟩
  · rw [if_neg h1, if_neg h1]; exact ⟨rfl, rfl, fun _ => rfl⟩

/-- A successfully decoded AH header hands on a payload at least 12 bytes shorter than its input. -/
theorem ahDecSpec_payload_le (old : IPSecAH) (v : Bytes) (h : (ahDecSpec old v).err = false) :
    (ahDecSpec old v).layer.payload.length + 12 ≤ v.length := by
  unfold ahDecSpec at h ⊢
  by_cases h1 : v.length < 12
  · rw [if_pos h1] at h; cases h
  · rw [if_neg h1] at h ⊢
    by_cases h2 : ahLen v < 12
    · rw [if_pos h2] at h; cases h
    · rw [if_neg h2] at h ⊢
      by_cases h3 : v.length < ahLen v
      · rw [if_pos h3] at h; cases h
      · rw [if_neg h3]; simp only [ahLayer, List.length_drop]; omega

/-- No GTPv2 error path sets the truncation flag. -/
theorem ieSpec_trunc (v : Bytes) : ∀ (fuel c : Nat) (l : GTPv2), (ieSpec v fuel c l).trunc = false := by
  intro fuel
  induction fuel with
  | zero => intro c l; rfl
  | succ fuel ih =>
    intro c l
    unfold ieSpec
    by_cases h1 : c < v.length
    · rw [if_pos h1]
      by_cases h2 : c + 4 > v.length
      · rw [if_pos h2]
      · rw [if_neg h2]
        by_cases h3 : c + 4 + u16At v (c + 1) > v.length
        · rw [if_pos h3]
        · rw [if_neg h3]; exact ih _ _
    · rw [if_neg h1]

theorem gtpDecSpec_trunc (old : GTPv2) (v : Bytes) : (gtpDecSpec old v).trunc = false := by
  unfold gtpDecSpec gtpSeq
  repeat' split
  all_goals first | rfl | exact ieSpec_trunc _ _ _ _

/-! ## 3. The registered decoder functions -/

theorem decodeIPSecAHFn_eq (d : GSlice) : decodeIPSecAHFn d = .ok (ahFnSpec d.vis) := by
  unfold decodeIPSecAHFn ahFnSpec
  rw [IPSecAH.decode_eq, Res.bind_ok]; rfl

theorem decodeIPSecESPFn_eq (d : GSlice) : decodeIPSecESPFn d = .ok (espFnSpec d.vis) := by
  unfold decodeIPSecESPFn espFnSpec
  rw [IPSecESP.decode_eq, Res.bind_ok]; rfl

theorem decodeGTPv2Fn_eq (d : GSlice) : decodeGTPv2Fn d = .ok (gtpFnSpec d.vis) := by
  unfold decodeGTPv2Fn gtpFnSpec
  rw [GTPv2.decode_eq, Res.bind_ok]
  simp only [gtpDecSpec_trunc, pure]
  split <;> rfl

/-- With ligmp-4 the version that decodeIGMP puts into the struct before the call is overwritten by
    DecodeFromBytes: the outcome is the one of a fresh struct. -/
theorem decodeIGMPFn_eq (d : GSlice) : decodeIGMPFn d = .ok (igmpFnSpec d.vis) := by
  unfold decodeIGMPFn igmpFnSpec igmpChoice
  have hlen : d.len = d.vis.length := rfl
  by_cases hs : d.len < 1
  · rw [if_pos hs, if_pos (show d.vis.length < 1 from hs)]
  · rw [if_neg hs, if_neg (show ¬ d.vis.length < 1 from hs)]
    rw [GSlice.index_ok d 0 (by omega), Res.bind_ok]
    simp only [IGMP.decode_eq, IGMPv1or2.decode_eq, Res.bind_ok, pure, hlen]
    have e3 : ∀ o : IGMP, igmp3DecSpec o d.vis = igmp3DecSpec IGMP.fresh d.vis := by
      intro o
      unfold igmp3DecSpec
      rw [if_neg (show ¬ d.vis.length < 1 from hs), if_neg (show ¬ d.vis.length < 1 from hs)]
    have e12 : ∀ o : IGMPv1or2, d.vis.length ≥ 8 → igmp12DecSpec o d.vis = igmp12DecSpec IGMPv1or2.fresh d.vis := by
      intro o h8
      unfold igmp12DecSpec
      rw [if_neg (show ¬ d.vis.length < 8 by omega), if_neg (show ¬ d.vis.length < 8 by omega)]
    have e12' : ∀ o : IGMPv1or2, (igmp12DecSpec o d.vis).err = (igmp12DecSpec IGMPv1or2.fresh d.vis).err ∧
        (igmp12DecSpec o d.vis).trunc = (igmp12DecSpec IGMPv1or2.fresh d.vis).trunc ∧
        ((igmp12DecSpec o d.vis).err = false → (igmp12DecSpec o d.vis).layer = (igmp12DecSpec IGMPv1or2.fresh d.vis).layer) :=
      fun o => igmp12DecSpec_indep o _ _
    have v12 : ∀ o : IGMPv1or2,
        liftV12 (decodingLayerDecoder (igmp12DecSpec o d.vis) LayerTypeIGMP (igmp12DecSpec o d.vis).layer.nextLayerType) =
        liftV12 (decodingLayerDecoder (igmp12DecSpec IGMPv1or2.fresh d.vis) LayerTypeIGMP LayerTypeZero) := by
      intro o
      have h := e12' o
      unfold decodingLayerDecoder IGMPv1or2.nextLayerType
      rw [h.1, h.2.1]
      cases he : (igmp12DecSpec IGMPv1or2.fresh d.vis).err with
      | true => simp
      | false =>
        have := h.2.2 (by rw [h.1]; exact he)
        simp [this]
    have v3 : ∀ o : IGMP,
        liftV3 (decodingLayerDecoder (igmp3DecSpec o d.vis) LayerTypeIGMP (igmp3DecSpec o d.vis).layer.nextLayerType) =
        liftV3 (decodingLayerDecoder (igmp3DecSpec IGMP.fresh d.vis) LayerTypeIGMP LayerTypeZero) := by
      intro o; rw [e3 o]; rfl
    by_cases hq : (byteAt d.vis 0).toNat = igmpMembershipQuery
    · rw [if_pos hq, if_pos hq]
      by_cases h12 : d.vis.length ≥ 12
      · rw [if_pos h12, if_pos h12, v3]
      · rw [if_neg h12, if_neg h12]
        by_cases h8 : d.vis.length = 8
        · rw [if_pos h8, if_pos h8]
          rw [GSlice.index_ok d 1 (by omega), Res.bind_ok]
          split <;> rw [v12]
        · rw [if_neg h8, if_neg h8]
    · rw [if_neg hq, if_neg hq]
      by_cases hr : (byteAt d.vis 0).toNat = igmpMembershipReportV3
      · rw [if_pos hr, if_pos hr, v3]
      · rw [if_neg hr, if_neg hr]
        by_cases h1 : (byteAt d.vis 0).toNat = igmpMembershipReportV1
        · rw [if_pos h1, if_pos h1, v12]
        · rw [if_neg h1, if_neg h1]
          by_cases h2 : (byteAt d.vis 0).toNat = igmpLeaveGroup ∨ (byteAt d.vis 0).toNat = igmpMembershipReportV2
          · rw [if_pos h2, if_pos h2, v12]
          · rw [if_neg h2, if_neg h2]

/-! ## 4. The parser loop -/

theorem dlpLoop_no_panic (useV3 : Bool) : ∀ (fuel : Nat) (st : DlpState) (typ : Nat) (d : GSlice) (k : PanicKind),
    dlpLoop useV3 fuel st typ d ≠ .panic k := by
  intro fuel
  induction fuel with
  | zero => intro st typ d k; exact fun h => nomatch h
  | succ fuel ih =>
    intro st typ d k
    unfold dlpLoop
    rw [IPSecAH.decode_eq, IPSecESP.decode_eq, GTPv2.decode_eq, IGMP.decode_eq, IGMPv1or2.decode_eq]
    simp only
    repeat' split
    all_goals first | exact ih _ _ _ _ | exact fun h => nomatch h

end Gp.Igmp
