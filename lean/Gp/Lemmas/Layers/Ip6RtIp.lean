import Gp.Lemmas.Layers.Ip6RtExt
import Gp.Lemmas.Layers.Ip6RtFrag
import Gp.Lemmas.Layers.Ip6SerIp2
/-
  Round trip of the IPv6 header.  Core Lean only.
-/
namespace Gp.Ip6
open Gp Gp.SBuf Gp.C18 Gp.Gen.Ip6

/-- In-range scalar fields and 16-byte addresses. -/
def IPv6.hdrWf (l : IPv6) : Prop :=
  l.version < 16 ∧ l.trafficClass < 256 ∧ l.flowLabel < 1048576 ∧ l.nextHeader < 256 ∧ l.hopLimit < 256 ∧
  l.srcIP.length = 16 ∧ l.dstIP.length = 16

theorem hdr_b0 (v tc : Nat) (hv : v < 16) (ht : tc < 256) :
    (u8 (((v * 16) % 256) ||| ((tc % 256) / 16))).toNat = v * 16 + tc / 16 := by
  rw [Nat.mod_eq_of_lt (by omega : v * 16 < 256), Nat.mod_eq_of_lt ht, or16 _ _ (by omega),
    u8_toNat _ (by omega)]

theorem hdr_b1 (tc fl : Nat) (hf : fl < 1048576) :
    (u8 (((tc * 16) % 256) ||| ((fl / 65536) % 256))).toNat = (tc % 16) * 16 + fl / 65536 := by
  have e1 : (tc * 16) % 256 = (tc % 16) * 16 := by omega
  have e2 : (fl / 65536) % 256 = fl / 65536 := by omega
  rw [e1, e2, or16 _ _ (by omega), u8_toNat _ (by omega)]

/-- The decoder's view of the 40 header bytes written by SerializeTo. -/
theorem ip6Spec_hdr (old l : IPv6) (n : Nat) (pay : Bytes) (h : l.hdrWf) (hn : n < 65536) :
    ip6Spec old (ip6HdrBytes l n ++ pay) =
      (let l1 : IPv6 :=
        { old with version := l.version, trafficClass := l.trafficClass, flowLabel := l.flowLabel,
                   length := n, nextHeader := l.nextHeader, hopLimit := l.hopLimit, srcIP := l.srcIP,
                   dstIP := l.dstIP, hopByHop := none, contents := ip6HdrBytes l n, payload := pay }
       if l.nextHeader = ipProtocolIPv6HopByHop then ip6HbhSpec l1 pay (tlvExtSpec old.hbh pay)
       else ip6Finish l1 pay false n) := by
  obtain ⟨hv, htc, hfl, hnh, hhl, hs, hd⟩ := h
  have hb0 := hdr_b0 l.version l.trafficClass hv htc
  have hb1 := hdr_b1 l.trafficClass l.flowLabel hfl
  unfold ip6HdrBytes
  simp only [putBe16, List.cons_append, List.nil_append, List.append_assoc, ip6Spec]
  have hrl : ¬ (l.srcIP ++ (l.dstIP ++ pay)).length < 32 := by simp [hs, hd]; omega
  rw [if_neg hrl]
  have e16 : (l.srcIP ++ (l.dstIP ++ pay)).take 16 = l.srcIP := List.take_left' hs
  have e32 : ((l.srcIP ++ (l.dstIP ++ pay)).take 32).drop 16 = l.dstIP := by
    rw [← List.append_assoc, List.take_left' (by simp [hs, hd]), List.drop_left' hs]
  have e32' : (l.srcIP ++ (l.dstIP ++ pay)).take 32 = l.srcIP ++ l.dstIP := by
    rw [← List.append_assoc, List.take_left' (by simp [hs, hd])]
  have ed : (l.srcIP ++ (l.dstIP ++ pay)).drop 32 = pay := by
    rw [← List.append_assoc, List.drop_left' (by simp [hs, hd])]
  have hver : (u8 (((l.version * 16) % 256) ||| ((l.trafficClass % 256) / 16))).toNat / 16 = l.version := by
    rw [hb0]; omega
  have htcf : (be16 (u8 (((l.version * 16) % 256) ||| ((l.trafficClass % 256) / 16)))
      (u8 (((l.trafficClass * 16) % 256) ||| ((l.flowLabel / 65536) % 256))) / 16) % 256 = l.trafficClass := by
    unfold be16; rw [hb0, hb1]; omega
  have hflf : be32 (u8 (((l.version * 16) % 256) ||| ((l.trafficClass % 256) / 16)))
      (u8 (((l.trafficClass * 16) % 256) ||| ((l.flowLabel / 65536) % 256)))
      (u8 (l.flowLabel % 65536 / 256)) (u8 (l.flowLabel % 65536)) % 1048576 = l.flowLabel := by
    unfold be32; rw [hb0, hb1, u8_toNat_mod, u8_toNat_mod]; omega
  have hlen : be16 (u8 (n / 256)) (u8 n) = n := be16_putBe16 n hn
  rw [e16, e32, e32', ed, hver, htcf, hflf, hlen, u8_toNat _ hnh, u8_toNat _ hhl]

end Gp.Ip6
