import Gp.Lemmas.Layers.TunVxlan
import Gp.Lemmas.Layers.TunGeneveSer
import Gp.Lemmas.Layers.TunGtpSer
/-
  Helper lemmas for engine `ltun`, part 7: what the round-trip theorems of C06 need about the receiver
  after SerializeTo (`mutated` preserves well-formedness and yields the canonical / consistent form
  that the decoder reads back exactly).
-/
namespace Gp.Tun

namespace Geneve

/-- a canonical layer is a fixpoint of the FixLengths mutation, for every option set. -/
theorem canonical_mutated (l : Layer) (opts : Opts) (h : canonical l) : mutated l opts = l := by
  obtain ⟨_, _, _, h252, hol, hok⟩ := h
  have hmap : ∀ (os : List GOpt), (∀ o ∈ os, OptOk o) → os.map (fixOpt opts.fixLengths) = os := by
    intro os
    induction os with
    | nil => intro _; rfl
    | cons o os ih =>
      intro hos
      obtain ⟨_, _, _, hl, h4, h124⟩ := hos o (List.mem_cons_self ..)
      have hd := dataLen_of_mod4 o h4
      have ho : fixOpt opts.fixLengths o = o := by
        unfold fixOpt
        cases opts.fixLengths with
        | false => rfl
        | true =>
          simp only [if_true]
          have : (4 + dataLen o) % 256 = o.length := by rw [hd, hl]; omega
          rw [this]
      rw [List.map_cons, ho, ih (fun x hx => hos x (List.mem_cons_of_mem _ hx))]
  unfold mutated mutatedHdr
  cases hf : opts.fixLengths with
  | false =>
    simp only [Bool.false_eq_true, if_false]
    have := hmap l.options hok
    rw [hf] at this
    rw [this]
  | true =>
    simp only [if_true]
    have := hmap l.options hok
    rw [hf] at this
    rw [this]
    have : optsSize l.options % 256 = l.optionsLength := by rw [hol]; omega
    rw [this]

/-- a well-formed layer never makes SerializeTo fail. -/
theorem wf_serErr (l : Layer) (h : wf l) : serErr l = false := by
  unfold serErr
  have := h.2.2.1
  simp only [decide_eq_false_iff_not]
  omega

end Geneve

namespace Gtp

theorem wfExt_extsOk : ∀ (es : List Ext), (∀ e ∈ es, wfExt e) → extsOk es = true := by
  intro es
  induction es with
  | nil => intro _; rfl
  | cons e es ih =>
    intro h
    have he := (h e (List.mem_cons_self ..)).2.2.1
    simp only [extsOk, he, decide_true, Bool.true_and]
    exact ih (fun x hx => h x (List.mem_cons_of_mem _ hx))

/-- an in-range layer never makes SerializeTo fail. -/
theorem wfCore_serErr (l : Layer) (h : wfCore l) : serErr l = false := by
  unfold serErr
  rw [wfExt_extsOk l.extensionHeaders h.2.2.2.2.2.2.2]
  rfl

/-- the receiver after SerializeTo with FixLengths, explicitly. -/
theorem mutated_fix (l : Layer) (csum : Bool) (P : Bytes) (h : serErr l = false) :
    mutated l ⟨true, csum⟩ P = { withFlag l with messageLength :=
      (optPart (withFlag l) ++ encExts l.extensionHeaders ++ P).length % 65536 } := by
  unfold mutated fixML
  rw [h]
  rfl

/-- …it is still in range, consistent, and its MessageLength does not exceed what follows the fixed
    header. -/
theorem mutated_fix_ok (l : Layer) (csum : Bool) (P : Bytes) (h : wfCore l) :
    wfCore (mutated l ⟨true, csum⟩ P) ∧ consistent (mutated l ⟨true, csum⟩ P) ∧
    (mutated l ⟨true, csum⟩ P).messageLength ≤
      (optPart (mutated l ⟨true, csum⟩ P) ++ encExts (mutated l ⟨true, csum⟩ P).extensionHeaders ++ P).length := by
  rw [mutated_fix l csum P (wfCore_serErr l h)]
  obtain ⟨h1, h2, h3, h4, h5, h6, h7, h8⟩ := h
  refine ⟨⟨h1, h2, h3, h4, h5, h6, h7, h8⟩, ⟨?_, ?_⟩, ?_⟩
  · intro hne
    show (l.extensionHeaderFlag || !l.extensionHeaders.isEmpty) = true
    have : l.extensionHeaders.isEmpty = false := by
      cases hx : l.extensionHeaders with
      | nil => exact absurd hx hne
      | cons a as => rfl
    rw [this]
    simp
  · show _ % 65536 < 65536
    omega
  · show _ % 65536 ≤ _
    exact Nat.mod_le _ _

/-- protocol type and reserved bit do not reach the wire. -/
theorem encode_asWritten (l : Layer) : encode (asWritten l) = encode l := rfl

theorem mutated_asWritten (l : Layer) (opts : Opts) (P : Bytes) :
    mutated (asWritten l) opts P = asWritten (mutated l opts P) := by
  have hs : serErr (asWritten l) = serErr l := rfl
  unfold mutated
  rw [hs]
  cases serErr l with
  | true => rfl
  | false =>
    simp only [Bool.false_eq_true, if_false]
    unfold fixML
    cases opts.fixLengths with
    | true => rfl
    | false => rfl

theorem wf_asWritten (l : Layer) (h : wf l) : asWritten l = l := by
  obtain ⟨_, h1, h2⟩ := h
  unfold asWritten
  cases l
  simp_all

end Gtp

end Gp.Tun
