import Gp.Model.Layers.Usb
/-
  Helper lemmas for engine `lusb` (USB usbmon header, USBRequestBlockSetup, USBControl / USBInterrupt /
  USBBulk decoders): the functional specifications of the decoders and the proof that the
  statement-by-statement models compute them.  Core Lean only.

  Section 1 holds the *definitions* that occur in the statements of the property theorems; the rest
  is proof machinery.
-/
namespace Gp.Usb
open Gp Gp.Gen.Usb

/-! ## 1. Definitions used in property statements -/

/-- Byte `i` of a byte string (0 for a missing byte; only used where the byte exists). -/
def byteAt (v : Bytes) (i : Nat) : UInt8 := v.getD i 0

/-- Little-endian value of the `n` bytes at offset `i`. -/
def leAt (v : Bytes) (i n : Nat) : Nat := leVal ((v.drop i).take n)

/-- The receiver after every header assignment of `USB.DecodeFromBytes` including Contents and the
    first Payload assignment: a function of the visible bytes, EXCEPT the four fields the Go code
    never assigns (UrbInterval, UrbStartFrame, UrbCopyOfTransferFlags, IsoNumDesc), which keep the
    receiver's values. -/
def usbHdr (old : USB) (v : Bytes) : USB :=
  { old with
    id := leAt v 0 8, eventType := (byteAt v 8).toNat, transferType := (byteAt v 9).toNat,
    endpointNumber := (byteAt v 10).toNat &&& 0x7f,
    direction := if (byteAt v 10).toNat &&& usbTransportTypeTransferIn > 0 then usbDirectionTypeIn else usbDirectionTypeOut,
    deviceAddress := (byteAt v 11).toNat, busID := leAt v 12 2,
    setup := ((byteAt v 14).toNat == 0), data := ((byteAt v 15).toNat == 0),
    timestampSec := toInt64 (leAt v 16 8), timestampUsec := toInt32 (leAt v 24 4),
    status := toInt32 (leAt v 28 4), urbLength := leAt v 32 4, urbDataLength := leAt v 36 4,
    contents := v.take 40, payload := v.drop 40 }

/-- `uint32(len(data)) - m.UrbDataLength` (uint32 arithmetic): where the data payload starts. -/
def usbPayOff (v : Bytes) : Nat := (v.length % 2 ^ 32 + 2 ^ 32 - leAt v 36 4) % 2 ^ 32

/-- What `USB.DecodeFromBytes` computes from the receiver and the visible bytes. -/
def usbDecSpec (old : USB) (v : Bytes) : DecOut USB :=
  if v.length < 40 then { layer := old, trunc := true, err := true }
  else if (byteAt v 14).toNat == 0 then { layer := usbHdr old v, trunc := false, err := false }
  else if (byteAt v 15).toNat == 0 then
    if leAt v 36 4 > (v.length - 40) % 2 ^ 32 then { layer := usbHdr old v, trunc := true, err := true }
    else { layer := { usbHdr old v with payload := v.drop (usbPayOff v) }, trunc := false, err := false }
  else { layer := usbHdr old v, trunc := false, err := false }

/-- The four fields of a USB object that DecodeFromBytes never assigns. -/
def USB.untouched (m : USB) : Nat × Nat × Nat × Nat :=
  (m.urbInterval, m.urbStartFrame, m.urbCopyOfTransferFlags, m.isoNumDesc)

/-- The layer a successful `USBRequestBlockSetup.DecodeFromBytes` produces: a function of the visible bytes alone. -/
def setupLayer (v : Bytes) : Setup :=
  { contents := v.take 8, payload := v.drop 8, requestType := (byteAt v 0).toNat, request := (byteAt v 1).toNat,
    value := leAt v 2 2, index := leAt v 4 2, length := leAt v 6 2 }

def setupDecSpec (old : Setup) (v : Bytes) : DecOut Setup :=
  if v.length < 8 then { layer := old, trunc := true, err := true }
  else { layer := setupLayer v, trunc := false, err := false }

/-- `DecodeFromBytes` applied to a list of inputs in order, into the same object (errors do not stop
    the sequence; a panic would).  What the object looks like after a history of packets. -/
def USB.after (m : USB) : List GSlice → Res USB
  | [] => .ok m
  | d :: ds => do
    let o ← m.decodeFromBytes d
    USB.after o.layer ds

def Setup.after (m : Setup) : List GSlice → Res Setup
  | [] => .ok m
  | d :: ds => do
    let o ← m.decodeFromBytes d
    Setup.after o.layer ds

def Raw.after (m : Raw) : List GSlice → Res Raw
  | [] => .ok m
  | d :: ds => do
    let o ← m.decodeFromBytes d
    Raw.after o.layer ds

/-- What `p.NextDecoder(LayerTypeUSBRequestBlockSetup)` adds for a last payload `v`. -/
def nextSetupSpec (v : Bytes) : Pkt :=
  if v.length = 0 then Pkt.empty
  else if v.length < 8 then { layers := [.failure v], trunc := true, failed := true }
  else { layers := .setup (setupLayer v) :: (nextPayload (v.drop 8)).layers, trunc := false, failed := false }

/-- What `p.NextDecoder(LayerTypeUSBControl / Interrupt / Bulk)` adds for a last payload `v`. -/
def nextRawSpec (t : Nat) (v : Bytes) : Pkt :=
  if v.length = 0 then Pkt.empty
  else { layers := [.raw t { contents := v, payload := [] }], trunc := false, failed := false }

/-- The packet `NewPacket(data, LayerTypeUSB)` builds, as a function of the visible bytes. -/
def packetUSBSpec (v : Bytes) : Pkt :=
  let o := usbDecSpec USB.fresh v
  if o.err then { layers := [.failure v], trunc := o.trunc, failed := true }
  else
    let next := o.layer.nextLayerType
    let t := if next = LayerTypeZero then Pkt.empty
             else if next = LayerTypeUSBRequestBlockSetup then nextSetupSpec o.layer.payload
             else nextRawSpec next o.layer.payload
    { layers := .usb o.layer :: t.layers, trunc := o.trunc || t.trunc, failed := t.failed }

/-! ## 2. Go slices -/

theorem GSlice.slice_ok (s : GSlice) (a b : Nat) (hab : a ≤ b) (hb : b ≤ s.len) :
    s.slice a b = .ok { vis := (s.vis.drop a).take (b - a), tail := s.vis.drop b ++ s.tail } := by
  unfold GSlice.slice GSlice.cap
  unfold GSlice.len at hb
  have h1 : a ≤ b ∧ b ≤ s.vis.length + s.tail.length := ⟨hab, by omega⟩
  rw [if_pos h1]
  have ha : a ≤ s.vis.length := by omega
  rw [List.drop_append_of_le_length ha, List.drop_append_of_le_length hb,
    List.take_append_of_le_length (by rw [List.length_drop]; omega)]

theorem GSlice.sliceFrom_ok (s : GSlice) (a : Nat) (ha : a ≤ s.len) :
    s.sliceFrom a = .ok { vis := s.vis.drop a, tail := s.tail } := by
  unfold GSlice.sliceFrom; rw [if_pos ha]

theorem GSlice.index_ok (s : GSlice) (i : Nat) (h : i < s.len) :
    s.index i = .ok (byteAt s.vis i) := by
  unfold GSlice.index Gp.index byteAt
  have h' : i < s.vis.length := h
  simp [List.getD_eq_getElem?_getD, h']

/-- `LittleEndian.UintN` on the `n`-byte window at offset `i` of a long enough byte string. -/
theorem leUint_vis (v t : Bytes) (i n : Nat) (hn : 0 < n) (h : i + n ≤ v.length) :
    leUint n { vis := (v.drop i).take n, tail := t } = .ok (leAt v i n) := by
  have hl : ((v.drop i).take n).length = n := by
    rw [List.length_take, List.length_drop]; omega
  unfold leUint
  rw [GSlice.index_ok _ (n - 1) (by unfold GSlice.len; simp only; omega), Res.bind_ok]
  simp only [pure, leAt]
  rw [List.take_take, Nat.min_self]

/-- `data[i:i+n]` then a little-endian read, then the rest: the value at offset `i` of the data. -/
theorem bind_slice_leUint {β : Type} (d : GSlice) (i j n : Nat) (f : Nat → Res β) (hn : 0 < n)
    (hj : j = i + n) (h : i + n ≤ d.len) :
    (d.slice i j >>= fun s => leUint n s >>= f) = f (leAt d.vis i n) := by
  subst hj
  have hl : i + n ≤ d.vis.length := h
  rw [GSlice.slice_ok d i (i + n) (by omega) h, Res.bind_ok]
  have e : i + n - i = n := by omega
  rw [e, leUint_vis d.vis _ i n hn hl, Res.bind_ok]

theorem leVal_lt (bs : Bytes) : leVal bs < 256 ^ bs.length := by
  induction bs with
  | nil => simp [leVal]
  | cons b bs ih =>
    have := b.toNat_lt
    simp only [leVal, List.length_cons, Nat.pow_succ]
    omega

theorem leAt_lt (v : Bytes) (i n : Nat) : leAt v i n < 256 ^ n := by
  unfold leAt
  have h := leVal_lt ((v.drop i).take n)
  have hl : ((v.drop i).take n).length ≤ n := by rw [List.length_take]; omega
  exact Nat.lt_of_lt_of_le h (Nat.pow_le_pow_right (by omega) hl)

/-- `if c then { l with direction := a } else { l with direction := b }` is one assignment. -/
theorem dir_ite (l : USB) (c : Prop) [Decidable c] (a b : Nat) :
    (if c then { l with direction := a } else { l with direction := b }) =
      { l with direction := if c then a else b } := by
  split <;> rfl

/-- The start of the data payload lies inside the visible bytes. -/
theorem usbPayOff_le (v : Bytes) (hl : 40 ≤ v.length) (h : ¬ leAt v 36 4 > (v.length - 40) % 2 ^ 32) :
    usbPayOff v ≤ v.length := by
  unfold usbPayOff
  have h4 : leAt v 36 4 < 2 ^ 32 := by have := leAt_lt v 36 4; simpa using this
  omega

/-- Below 4 GiB the data payload is the last UrbDataLength bytes, behind the 40-byte header. -/
theorem usbPayOff_small (v : Bytes) (hl : 40 ≤ v.length) (hs : v.length < 2 ^ 32)
    (h : ¬ leAt v 36 4 > (v.length - 40) % 2 ^ 32) :
    usbPayOff v = v.length - leAt v 36 4 ∧ 40 ≤ usbPayOff v := by
  unfold usbPayOff
  omega

/-! ## 3. DecodeFromBytes = its functional specification -/

theorem USB.decode_eq (old : USB) (d : GSlice) :
    old.decodeFromBytes d = .ok (usbDecSpec old d.vis) := by
  unfold USB.decodeFromBytes usbDecSpec
  by_cases hs : d.len < 40
  · rw [if_pos hs, if_pos (show d.vis.length < 40 from hs)]
  · have hl : 40 ≤ d.vis.length := by unfold GSlice.len at hs; omega
    have hl' : 40 ≤ d.len := hl
    rw [if_neg hs, if_neg (show ¬ d.vis.length < 40 by omega)]
    rw [bind_slice_leUint d 0 8 8 _ (by omega) rfl (by omega)]
    rw [GSlice.index_ok d 8 (by omega), Res.bind_ok]
    rw [GSlice.index_ok d 9 (by omega), Res.bind_ok]
    rw [GSlice.index_ok d 10 (by omega), Res.bind_ok, Res.bind_ok]
    rw [GSlice.index_ok d 11 (by omega), Res.bind_ok]
    rw [bind_slice_leUint d 12 14 2 _ (by omega) rfl (by omega)]
    rw [GSlice.index_ok d 14 (by omega), Res.bind_ok]
    rw [GSlice.index_ok d 15 (by omega), Res.bind_ok]
    rw [bind_slice_leUint d 16 24 8 _ (by omega) rfl (by omega)]
    rw [bind_slice_leUint d 24 28 4 _ (by omega) rfl (by omega)]
    rw [bind_slice_leUint d 28 32 4 _ (by omega) rfl (by omega)]
    rw [bind_slice_leUint d 32 36 4 _ (by omega) rfl (by omega)]
    rw [bind_slice_leUint d 36 40 4 _ (by omega) rfl (by omega)]
    rw [GSlice.slice_ok d 0 40 (by omega) (by omega), Res.bind_ok]
    rw [GSlice.sliceFrom_ok d 40 hl', Res.bind_ok]
    simp only [List.drop_zero, Nat.sub_zero]
    by_cases h14 : ((byteAt d.vis 14).toNat == 0) = true
    · rw [if_pos h14, if_pos h14, Res.bind_ok]
      simp only [pure, usbHdr]
    · rw [if_neg h14, if_neg h14]
      by_cases h15 : ((byteAt d.vis 15).toNat == 0) = true
      · rw [if_pos h15, if_pos h15]
        by_cases hd : leAt d.vis 36 4 > (d.vis.length - 40) % 2 ^ 32
        · simp only [GSlice.len, hd, ↓reduceIte, pure, usbHdr]
        · have hle := usbPayOff_le d.vis hl hd
          unfold usbPayOff at hle
          simp only [GSlice.len, hd, ↓reduceIte]
          rw [GSlice.sliceFrom_ok d _ hle, Res.bind_ok]
          simp only [pure, usbHdr, usbPayOff]
      · rw [if_neg h15, if_neg h15]
        simp only [pure, usbHdr]

theorem Setup.decode_eq (old : Setup) (d : GSlice) :
    old.decodeFromBytes d = .ok (setupDecSpec old d.vis) := by
  unfold Setup.decodeFromBytes setupDecSpec
  by_cases hs : d.len < 8
  · rw [if_pos hs, if_pos (show d.vis.length < 8 from hs)]
  · have hl : 8 ≤ d.vis.length := by unfold GSlice.len at hs; omega
    have hl' : 8 ≤ d.len := hl
    rw [if_neg hs, if_neg (show ¬ d.vis.length < 8 by omega)]
    rw [GSlice.index_ok d 0 (by omega), Res.bind_ok]
    rw [GSlice.index_ok d 1 (by omega), Res.bind_ok]
    rw [bind_slice_leUint d 2 4 2 _ (by omega) rfl (by omega)]
    rw [bind_slice_leUint d 4 6 2 _ (by omega) rfl (by omega)]
    rw [bind_slice_leUint d 6 8 2 _ (by omega) rfl (by omega)]
    rw [GSlice.slice_ok d 0 8 (by omega) (by omega), Res.bind_ok]
    rw [GSlice.sliceFrom_ok d 8 hl', Res.bind_ok]
    simp only [List.drop_zero, Nat.sub_zero, pure, setupLayer]

theorem Raw.decode_eq (old : Raw) (d : GSlice) :
    old.decodeFromBytes d = .ok { layer := { old with contents := d.vis }, trunc := false, err := false } := rfl

/-! ## 4. Frames and histories -/

theorem usbHdr_congr (a b : USB) (v : Bytes) (h : a.untouched = b.untouched) : usbHdr a v = usbHdr b v := by
  cases a; cases b
  simp only [USB.untouched, Prod.mk.injEq] at h
  obtain ⟨h1, h2, h3, h4⟩ := h
  subst h1; subst h2; subst h3; subst h4
  rfl

theorem usbHdr_untouched (a : USB) (v : Bytes) : (usbHdr a v).untouched = a.untouched := rfl

theorem usbDecSpec_untouched (a : USB) (v : Bytes) : (usbDecSpec a v).layer.untouched = a.untouched := by
  unfold usbDecSpec
  split
  · rfl
  · split
    · rfl
    · split
      · split <;> rfl
      · rfl

/-- On success the result depends on the receiver through the four never-assigned fields only. -/
theorem usbDecSpec_congr (a b : USB) (v : Bytes) (h : a.untouched = b.untouched) (hl : ¬ v.length < 40) :
    usbDecSpec a v = usbDecSpec b v := by
  unfold usbDecSpec
  rw [if_neg hl, if_neg hl, usbHdr_congr a b v h]

theorem usbDecSpec_err_congr (a b : USB) (v : Bytes) : (usbDecSpec a v).err = (usbDecSpec b v).err ∧
    (usbDecSpec a v).trunc = (usbDecSpec b v).trunc := by
  unfold usbDecSpec
  split
  · exact ⟨rfl, rfl⟩
  · split
    · exact ⟨rfl, rfl⟩
    · split
      · split <;> exact ⟨rfl, rfl⟩
      · exact ⟨rfl, rfl⟩

theorem USB.after_untouched (hist : List GSlice) : ∀ (m0 m : USB), m0.after hist = .ok m → m.untouched = m0.untouched := by
  induction hist with
  | nil => intro m0 m h; simp only [USB.after] at h; cases h; rfl
  | cons d ds ih =>
    intro m0 m h
    simp only [USB.after] at h
    rw [USB.decode_eq, Res.bind_ok] at h
    rw [ih _ _ h, usbDecSpec_untouched]

theorem USB.after_ok (hist : List GSlice) : ∀ (m0 : USB), ∃ m, m0.after hist = .ok m := by
  induction hist with
  | nil => intro m0; exact ⟨m0, rfl⟩
  | cons d ds ih =>
    intro m0
    simp only [USB.after]
    rw [USB.decode_eq, Res.bind_ok]
    exact ih _

theorem Setup.after_ok (hist : List GSlice) : ∀ (m0 : Setup), ∃ m, m0.after hist = .ok m := by
  induction hist with
  | nil => intro m0; exact ⟨m0, rfl⟩
  | cons d ds ih =>
    intro m0
    simp only [Setup.after]
    rw [Setup.decode_eq, Res.bind_ok]
    exact ih _

theorem Raw.after_payload (hist : List GSlice) : ∀ (m0 m : Raw), m0.after hist = .ok m → m.payload = m0.payload := by
  induction hist with
  | nil => intro m0 m h; simp only [Raw.after] at h; cases h; rfl
  | cons d ds ih =>
    intro m0 m h
    simp only [Raw.after] at h
    rw [Raw.decode_eq, Res.bind_ok] at h
    rw [ih _ _ h]

theorem Raw.after_ok (hist : List GSlice) : ∀ (m0 : Raw), ∃ m, m0.after hist = .ok m := by
  induction hist with
  | nil => intro m0; exact ⟨m0, rfl⟩
  | cons d ds ih =>
    intro m0
    simp only [Raw.after]
    rw [Raw.decode_eq, Res.bind_ok]
    exact ih _

/-! ## 5. The packets -/

theorem nextPayload_flags (d : Bytes) : (nextPayload d).trunc = false ∧ (nextPayload d).failed = false := by
  unfold nextPayload; split <;> exact ⟨rfl, rfl⟩

theorem nextSetup_eq (d : GSlice) : nextSetup d = .ok (nextSetupSpec d.vis) := by
  unfold nextSetup nextSetupSpec
  by_cases h0 : d.len = 0
  · rw [if_pos h0, if_pos (show d.vis.length = 0 from h0)]
  · rw [if_neg h0, if_neg (show ¬ d.vis.length = 0 from h0), Setup.decode_eq, Res.bind_ok]
    unfold setupDecSpec
    by_cases h8 : d.vis.length < 8
    · simp only [h8, ↓reduceIte, pure]
    · simp only [h8, ↓reduceIte, pure, Bool.false_or, (nextPayload_flags _).1, (nextPayload_flags _).2, setupLayer]
      rfl

theorem nextRaw_eq (t : Nat) (d : GSlice) : nextRaw t d = .ok (nextRawSpec t d.vis) := by
  unfold nextRaw nextRawSpec
  by_cases h0 : d.len = 0
  · rw [if_pos h0, if_pos (show d.vis.length = 0 from h0)]
  · rw [if_neg h0, if_neg (show ¬ d.vis.length = 0 from h0), Raw.decode_eq, Res.bind_ok]
    rfl

theorem packetUSB_eq (d : GSlice) : packetUSB d = .ok (packetUSBSpec d.vis) := by
  unfold packetUSB packetUSBSpec
  rw [USB.decode_eq, Res.bind_ok]
  by_cases he : (usbDecSpec USB.fresh d.vis).err = true
  · simp only [he, ↓reduceIte, pure]
  · simp only [he, ↓reduceIte, Bool.false_eq_true]
    by_cases h0 : (usbDecSpec USB.fresh d.vis).layer.nextLayerType = LayerTypeZero
    · simp only [h0, ↓reduceIte, pure, Res.bind_ok]
    · simp only [h0, ↓reduceIte]
      by_cases h1 : (usbDecSpec USB.fresh d.vis).layer.nextLayerType = LayerTypeUSBRequestBlockSetup
      · simp only [h1, ↓reduceIte, nextSetup_eq, Res.bind_ok, pure]
      · simp only [h1, ↓reduceIte, nextRaw_eq, Res.bind_ok, pure]

theorem packetSetup_eq (d : GSlice) : packetSetup d = .ok
    (if d.vis.length < 8 then { layers := [.failure d.vis], trunc := true, failed := true }
     else { layers := .setup (setupLayer d.vis) :: (nextPayload (d.vis.drop 8)).layers, trunc := false, failed := false }) := by
  unfold packetSetup
  rw [Setup.decode_eq, Res.bind_ok]
  unfold setupDecSpec
  by_cases h8 : d.vis.length < 8
  · simp only [h8, ↓reduceIte, pure]
  · simp only [h8, ↓reduceIte, pure, Bool.false_or, (nextPayload_flags _).1, (nextPayload_flags _).2, setupLayer]
    rfl

theorem packetRaw_eq (t : Nat) (d : GSlice) : packetRaw t d = .ok
    { layers := [.raw t { contents := d.vis, payload := [] }], trunc := false, failed := false } := by
  unfold packetRaw
  rw [Raw.decode_eq, Res.bind_ok]
  rfl

end Gp.Usb
