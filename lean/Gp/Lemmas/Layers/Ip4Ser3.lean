import Gp.Lemmas.Layers.Ip4Ser2
/-
  Helper lemmas for engine `lip4`, part 4: consequences of the closed form of SerializeTo
  (acceptance predicate, dichotomy ok/err, idempotence of the mutation).
-/
namespace Gp.Ip4
open Gp Gp.SBuf

/-- The layers SerializeTo accepts (everything else is answered with an error). -/
def accepts (l : Layer) : Prop :=
  optionSize l ≤ 40 ∧ (to4 l.srcIP).isSome ∧ (to4 l.dstIP).isSome ∧ ∀ o ∈ l.options, optValid o

instance (l : Layer) : Decidable (accepts l) := by unfold accepts; exact inferInstance

/-- Observable outcome of a SerializeTo call: output bytes and mutated layer, or failure. -/
def serOut (r : Res (SBuf × Layer)) : Option (Bytes × Layer) :=
  match r with
  | .ok (b, l) => some (contents b, l)
  | _ => none

/-- `to4` of the addresses of an accepted layer. -/
def src4 (l : Layer) : Bytes := (to4 l.srcIP).getD []
def dst4 (l : Layer) : Bytes := (to4 l.dstIP).getD []

theorem serialize_accepts (l : Layer) (b : SBuf) (fix csum : Bool) (hb : C18.Inv b) (ha : accepts l) :
    ∃ b', serializeIp4 l b fix csum =
        .ok (b', finalLayer l (contents b).length fix csum (src4 l) (dst4 l)) ∧
      contents b' = hdrBytes (finalLayer l (contents b).length fix csum (src4 l) (dst4 l)) ++ contents b ∧
      C18.Inv b' := by
  obtain ⟨h1, h2, h3, h4⟩ := ha
  obtain ⟨s, hs⟩ := Option.isSome_iff_exists.mp h2
  obtain ⟨d, hd⟩ := Option.isSome_iff_exists.mp h3
  have := serialize_ok l b fix csum s d hb h1 hs hd h4
  simpa [src4, dst4, hs, hd] using this

theorem serialize_rejects (l : Layer) (b : SBuf) (fix csum : Bool) (hb : C18.Inv b) (ha : ¬ accepts l) :
    ∃ e, serializeIp4 l b fix csum = .err e := by
  apply serialize_err l b fix csum hb
  unfold accepts at ha
  by_cases h1 : optionSize l > 40
  · exact Or.inl h1
  · by_cases h2 : to4 l.srcIP = none
    · exact Or.inr (Or.inl h2)
    · by_cases h3 : to4 l.dstIP = none
      · exact Or.inr (Or.inr (Or.inl h3))
      · refine Or.inr (Or.inr (Or.inr ?_))
        intro h4
        apply ha
        refine ⟨by omega, ?_, ?_, h4⟩
        · cases h : to4 l.srcIP with
          | none => exact absurd h h2
          | some _ => rfl
        · cases h : to4 l.dstIP with
          | none => exact absurd h h3
          | some _ => rfl

theorem to4_of_length4 (a : Bytes) (h : a.length = 4) : to4 a = some a := by simp [to4, h]

theorem src4_length (l : Layer) (h : (to4 l.srcIP).isSome) : (src4 l).length = 4 := by
  obtain ⟨s, hs⟩ := Option.isSome_iff_exists.mp h
  simp [src4, hs, to4_length hs]

theorem dst4_length (l : Layer) (h : (to4 l.dstIP).isSome) : (dst4 l).length = 4 := by
  obtain ⟨s, hs⟩ := Option.isSome_iff_exists.mp h
  simp [dst4, hs, to4_length hs]

/-- The header bytes do not depend on the `checksum`, `contents`, `payload` fields (the
    checksum word is a parameter). -/
theorem hdrW_congr (l l' : Layer) (c : Nat)
    (h : l'.version = l.version ∧ l'.ihl = l.ihl ∧ l'.tos = l.tos ∧ l'.length = l.length ∧ l'.id = l.id ∧
         l'.flags = l.flags ∧ l'.fragOffset = l.fragOffset ∧ l'.ttl = l.ttl ∧ l'.protocol = l.protocol ∧
         l'.srcIP = l.srcIP ∧ l'.dstIP = l.dstIP ∧ l'.options = l.options ∧ l'.padding = l.padding) :
    hdrW l' c = hdrW l c := by
  obtain ⟨h1, h2, h3, h4, h5, h6, h7, h8, h9, h10, h11, h12, h13⟩ := h
  simp [hdrW, hdr20, byte0, flagsfrags, optArea, optionSize, h1, h2, h3, h4, h5, h6, h7, h8, h9, h10, h11, h12, h13]

/-- The mutation performed by SerializeTo is idempotent (for the same amount of payload). -/
theorem finalLayer_idem (l : Layer) (p : Nat) (fix csum : Bool) (s d : Bytes) :
    finalLayer (finalLayer l p fix csum s d) p fix csum s d = finalLayer l p fix csum s d := by
  cases fix <;> cases csum <;>
    simp [finalLayer, fixLengths, optionSize, hdrW, hdr20, byte0, flagsfrags, optArea]

theorem accepts_final (l : Layer) (p : Nat) (fix csum : Bool) (ha : accepts l) :
    accepts (finalLayer l p fix csum (src4 l) (dst4 l)) ∧
    src4 (finalLayer l p fix csum (src4 l) (dst4 l)) = src4 l ∧
    dst4 (finalLayer l p fix csum (src4 l) (dst4 l)) = dst4 l := by
  obtain ⟨g1, g2, g3, g4⟩ := finalLayer_fields l p fix csum (src4 l) (dst4 l)
  obtain ⟨h1, h2, h3, h4⟩ := ha
  have e1 := to4_of_length4 _ (src4_length l h2)
  have e2 := to4_of_length4 _ (dst4_length l h3)
  refine ⟨⟨by rw [optionSize_congr g1 g2]; exact h1, by rw [g3, e1]; rfl, by rw [g4, e2]; rfl,
    by rw [g1]; exact h4⟩, ?_, ?_⟩
  · show (to4 _).getD [] = _
    rw [g3, e1]; rfl
  · show (to4 _).getD [] = _
    rw [g4, e2]; rfl

end Gp.Ip4
