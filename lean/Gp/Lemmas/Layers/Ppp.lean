import Gp.Model.Layers.Ppp
import Gp.Lemmas.SBuf
/-
  Helper lemmas for engine `lppp` (PPP, PPPoE, MPLS codec), part 1: decoding.  Core Lean only.

  Section 1 holds the *definitions* that occur in the statements of the property theorems
  (functional specifications of the decoder functions); the rest is proof machinery.
-/
namespace Gp.Ppp
open Gp Gp.SBuf Gp.C18 Gp.Gen.Ppp

/-! ## 1. Definitions used in property statements -/

/-- Big-endian 16-bit value at offset `i` of a byte string (0 for missing bytes; only used where
    the bytes exist). -/
def u16At (v : Bytes) (i : Nat) : Nat := be16 (v.getD i 0) (v.getD (i + 1) 0)

/-- Big-endian 32-bit value at offset `i`. -/
def u32At (v : Bytes) (i : Nat) : Nat :=
  be32 (v.getD i 0) (v.getD (i + 1) 0) (v.getD (i + 2) 0) (v.getD (i + 3) 0)

/-- The HDLC address/control prefix `ff 03` is present. -/
def pppHdr (v : Bytes) : Bool :=
  decide (2 ≤ v.length) && (decide ((v.getD 0 0).toNat = 0xff) && decide ((v.getD 1 0).toNat = 0x03))

def pppOff (v : Bytes) : Nat := if pppHdr v then 2 else 0

/-- The layer `decodePPP` adds for the visible bytes `v` (`none` = it returns an error). -/
def pppDecSpec (v : Bytes) : Option PPP :=
  let off := pppOff v
  if v.length < off + 1 then none
  else if (v.getD off 0).toNat &&& 0x1 = 0 then
    if v.length < off + 2 then none
    else if (v.getD (off + 1) 0).toNat &&& 0x1 = 0 then none
    else some { contents := (v.drop off).take 2, payload := v.drop (off + 2), pppType := u16At v off,
                hasPPTPHeader := pppHdr v }
  else some { contents := (v.drop off).take 1, payload := v.drop (off + 1),
              pppType := (v.getD off 0).toNat, hasPPTPHeader := pppHdr v }

/-- Everything `decodePPP` does, as a function of the input slice. -/
def pppOut (d : GSlice) : DecOut PPP :=
  match pppDecSpec d.vis with
  | none => DecOut.failed []
  | some l => { beh := { acts := [.addLayer LayerTypePPP, .setLinkLayer], tail := .pppType l.pppType },
                layer := some l, rest := { vis := l.payload, tail := d.tail } }

/-- The layer `decodePPPoE` adds for the visible bytes `v`. -/
def pppoeDecSpec (v : Bytes) : Option PPPoE :=
  if v.length < 6 then none
  else if v.length < 6 + u16At v 4 then none
  else some { contents := v.take 6, payload := (v.drop 6).take (u16At v 4),
              version := (v.getD 0 0).toNat >>> 4, type := (v.getD 0 0).toNat &&& 0x0F,
              code := (v.getD 1 0).toNat, sessionId := u16At v 2, length := u16At v 4 }

def pppoeOut (d : GSlice) : DecOut PPPoE :=
  match pppoeDecSpec d.vis with
  | none => DecOut.failed [.setTruncated]
  | some l => { beh := { acts := [.addLayer LayerTypePPPoE], tail := .pppoeCode l.code },
                layer := some l, rest := { vis := l.payload, tail := d.vis.drop (6 + l.length) ++ d.tail } }

/-- The layer `decodeMPLS` adds for the visible bytes `v`. -/
def mplsDecSpec (v : Bytes) : Option MPLS :=
  if v.length < 4 then none
  else some { contents := v.take 4, payload := v.drop 4, label := u32At v 0 >>> 12,
              trafficClass := ((u32At v 0 >>> 9) % 256) &&& 0x7,
              stackBottom := (u32At v 0 &&& 0x100 != 0), ttl := u32At v 0 % 256 }

def mplsOut (d : GSlice) : DecOut MPLS :=
  match mplsDecSpec d.vis with
  | none => DecOut.failed []
  | some l => { beh := { acts := [.addLayer LayerTypeMPLS],
                         tail := if l.stackBottom then .mplsPayload else .mplsFunc },
                layer := some l, rest := { vis := l.payload, tail := d.tail } }

/-- What the guessing decoder does with the visible bytes. -/
def guessSpec (v : Bytes) : Option Dec :=
  if v.length = 0 then none
  else if 0x45 ≤ (v.getD 0 0).toNat ∧ (v.getD 0 0).toNat ≤ 0x4f then some .ipv4
  else if 0x60 ≤ (v.getD 0 0).toNat ∧ (v.getD 0 0).toNat ≤ 0x6f then some .ipv6
  else none

/-! ## 2. Go slices -/

theorem GSlice.slice_ok (s : GSlice) (a b : Nat) (hab : a ≤ b) (hb : b ≤ s.len) :
    s.slice a b = .ok { vis := (s.vis.drop a).take (b - a), tail := s.vis.drop b ++ s.tail } := by
  unfold GSlice.slice GSlice.cap
  unfold GSlice.len at hb
  have h1 : a ≤ b ∧ b ≤ s.vis.length + s.tail.length := ⟨hab, by omega⟩
  rw [if_pos h1]
  have ha : a ≤ s.vis.length := by omega
  rw [List.drop_append_of_le_length ha, List.drop_append_of_le_length hb,
    List.take_append_of_le_length (by rw [List.length_drop]; omega)]

theorem GSlice.sliceFrom_ok (s : GSlice) (a : Nat) (ha : a ≤ s.len) :
    s.sliceFrom a = .ok { vis := s.vis.drop a, tail := s.tail } := by
  unfold GSlice.sliceFrom; rw [if_pos ha]

theorem GSlice.index_ok (s : GSlice) (i : Nat) (h : i < s.len) :
    s.index i = .ok (s.vis.getD i 0) := by
  unfold GSlice.index Gp.index
  have h' : i < s.vis.length := h
  simp [List.getD_eq_getElem?_getD, h']

/-- The two-byte window `[i, i+2)` of a long enough byte string. -/
theorem two_bytes (v : Bytes) (i : Nat) (h : i + 2 ≤ v.length) :
    (v.drop i).take 2 = [v.getD i 0, v.getD (i + 1) 0] := by
  have h0 : i < v.length := by omega
  have h1 : i + 1 < v.length := by omega
  have e : v.drop i = v[i] :: v[i+1] :: v.drop (i+2) := by
    rw [List.drop_eq_getElem_cons h0, List.drop_eq_getElem_cons h1]
  rw [e]
  simp only [List.take_succ_cons, List.take_zero, List.getD_eq_getElem?_getD,
    List.getElem?_eq_getElem h0, List.getElem?_eq_getElem h1, Option.getD_some]

theorem four_bytes (v : Bytes) (i : Nat) (h : i + 4 ≤ v.length) :
    (v.drop i).take 4 = [v.getD i 0, v.getD (i + 1) 0, v.getD (i + 2) 0, v.getD (i + 3) 0] := by
  have h0 : i < v.length := by omega
  have h1 : i + 1 < v.length := by omega
  have h2 : i + 2 < v.length := by omega
  have h3 : i + 3 < v.length := by omega
  have e : v.drop i = v[i] :: v[i+1] :: v[i+2] :: v[i+3] :: v.drop (i+4) := by
    rw [List.drop_eq_getElem_cons h0, List.drop_eq_getElem_cons h1, List.drop_eq_getElem_cons h2,
      List.drop_eq_getElem_cons h3]
  rw [e]
  simp only [List.take_succ_cons, List.take_zero, List.getD_eq_getElem?_getD,
    List.getElem?_eq_getElem h0, List.getElem?_eq_getElem h1, List.getElem?_eq_getElem h2,
    List.getElem?_eq_getElem h3, Option.getD_some]

theorem uint16_two (a b : UInt8) (t : Bytes) : uint16 { vis := [a, b], tail := t } = .ok (be16 a b) := by
  simp [uint16, GSlice.index, Gp.index, bind, Res.bind, pure]

theorem uint32_four (a b c d : UInt8) (t : Bytes) :
    uint32 { vis := [a, b, c, d], tail := t } = .ok (be32 a b c d) := by
  simp [uint32, GSlice.index, Gp.index, bind, Res.bind, pure]

theorem uint16_vis (v t : Bytes) (i : Nat) (h : i + 2 ≤ v.length) :
    uint16 { vis := (v.drop i).take 2, tail := t } = .ok (u16At v i) := by
  rw [two_bytes v i h]; exact uint16_two _ _ _

theorem uint32_vis (v t : Bytes) (i : Nat) (h : i + 4 ≤ v.length) :
    uint32 { vis := (v.drop i).take 4, tail := t } = .ok (u32At v i) := by
  rw [four_bytes v i h]; exact uint32_four _ _ _ _ _

theorem be16_lt (a b : UInt8) : be16 a b < 65536 := by
  have := a.toNat_lt; have := b.toNat_lt
  unfold be16; omega

theorem be32_lt (a b c d : UInt8) : be32 a b c d < 4294967296 := by
  have := a.toNat_lt; have := b.toNat_lt; have := c.toNat_lt; have := d.toNat_lt
  unfold be32; omega

theorem u16At_lt (v : Bytes) (i : Nat) : u16At v i < 65536 := be16_lt _ _
theorem u32At_lt (v : Bytes) (i : Nat) : u32At v i < 4294967296 := be32_lt _ _ _ _

/-! ## 3. The decoder functions = their functional specifications -/

theorem hasHdr_eq (d : GSlice) : hasHdr d = .ok (pppHdr d.vis) := by
  unfold hasHdr pppHdr
  by_cases h2 : d.len ≥ 2
  · have h2' : 2 ≤ d.vis.length := h2
    have e1 : decide (2 ≤ d.vis.length) = true := decide_eq_true h2'
    rw [if_pos h2, GSlice.index_ok d 0 (by omega), Res.bind_ok, e1, Bool.true_and]
    by_cases h0 : (d.vis.getD 0 0).toNat = 0xff
    · have e2 : decide ((d.vis.getD 0 0).toNat = 0xff) = true := decide_eq_true h0
      rw [if_pos h0, GSlice.index_ok d 1 (by omega), Res.bind_ok, e2, Bool.true_and]
      rfl
    · have e2 : decide ((d.vis.getD 0 0).toNat = 0xff) = false := decide_eq_false h0
      rw [if_neg h0, e2, Bool.false_and]
      rfl
  · have h2' : ¬ 2 ≤ d.vis.length := h2
    have e1 : decide (2 ≤ d.vis.length) = false := decide_eq_false h2'
    rw [if_neg h2, e1, Bool.false_and]
    rfl

theorem decodePPP_eq (d : GSlice) : decodePPP d = .ok (pppOut d) := by
  unfold decodePPP pppOut pppDecSpec pppOff
  rw [hasHdr_eq, Res.bind_ok]
  cases hh : pppHdr d.vis
  · -- no address/control prefix: offset 0
    simp only [Bool.false_eq_true, if_false, Nat.zero_add]
    by_cases h1 : d.len < 1
    · have h1' : d.vis.length < 1 := h1
      rw [if_pos h1]; simp only [h1', if_true, pure]
    · have h1' : ¬ d.vis.length < 1 := h1
      have i0 := GSlice.index_ok d 0 (by omega)
      rw [if_neg h1]
      simp only [i0, Res.bind_ok, h1', if_false]
      by_cases he : (d.vis.getD 0 0).toNat &&& 0x1 = 0
      · simp only [he, if_true]
        by_cases h2 : d.len < 2
        · have h2' : d.vis.length < 2 := h2
          simp only [h2, h2', if_true, pure]
        · have h2' : ¬ d.vis.length < 2 := h2
          have i1 := GSlice.index_ok d 1 (by omega)
          simp only [h2, h2', if_false, i1, Res.bind_ok]
          by_cases ho : (d.vis.getD 1 0).toNat &&& 0x1 = 0
          · simp only [ho, if_true, pure]
          · have s1 := GSlice.slice_ok d 0 2 (by omega) (by omega)
            have s2 := GSlice.sliceFrom_ok d 2 (by omega)
            have u1 := uint16_vis d.vis (d.vis.drop 2 ++ d.tail) 0 (by unfold GSlice.len at h2; omega)
            simp only [Nat.sub_zero] at s1
            simp only [ho, if_false, s1, s2, u1, Res.bind_ok, pure, PPP.fresh]
      · have s1 := GSlice.slice_ok d 0 1 (by omega) (by omega)
        have s2 := GSlice.sliceFrom_ok d 1 (by omega)
        simp only [Nat.sub_zero] at s1
        simp only [he, if_false, s1, s2, Res.bind_ok, pure, PPP.fresh]
  · -- `ff 03` prefix: offset 2
    simp only [if_true]
    by_cases h1 : d.len < 2 + 1
    · have h1' : d.vis.length < 2 + 1 := h1
      rw [if_pos h1]; simp only [h1', if_true, pure]
    · have h1' : ¬ d.vis.length < 2 + 1 := h1
      have i0 := GSlice.index_ok d 2 (by omega)
      rw [if_neg h1]
      simp only [i0, Res.bind_ok, h1', if_false]
      by_cases he : (d.vis.getD 2 0).toNat &&& 0x1 = 0
      · simp only [he, if_true]
        by_cases h2 : d.len < 2 + 2
        · have h2' : d.vis.length < 2 + 2 := h2
          simp only [h2, h2', if_true, pure]
        · have h2' : ¬ d.vis.length < 2 + 2 := h2
          have i1 := GSlice.index_ok d (2 + 1) (by omega)
          simp only [h2, h2', if_false, i1, Res.bind_ok]
          by_cases ho : (d.vis.getD (2 + 1) 0).toNat &&& 0x1 = 0
          · simp only [ho, if_true, pure]
          · have s1 := GSlice.slice_ok d 2 (2 + 2) (by omega) (by omega)
            have s2 := GSlice.sliceFrom_ok d (2 + 2) (by omega)
            have u1 := uint16_vis d.vis (d.vis.drop (2 + 2) ++ d.tail) 2 (by unfold GSlice.len at h2; omega)
            have e22 : 2 + 2 - 2 = 2 := rfl
            simp only [e22] at s1
            simp only [ho, if_false, s1, s2, u1, Res.bind_ok, pure]
      · have s1 := GSlice.slice_ok d 2 (2 + 1) (by omega) (by omega)
        have s2 := GSlice.sliceFrom_ok d (2 + 1) (by omega)
        have e21 : 2 + 1 - 2 = 1 := rfl
        simp only [e21] at s1
        simp only [he, if_false, s1, s2, Res.bind_ok, pure]

theorem decodePPPoE_eq (d : GSlice) : decodePPPoE d = .ok (pppoeOut d) := by
  unfold decodePPPoE pppoeOut pppoeDecSpec
  by_cases h6 : d.len < 6
  · have h6' : d.vis.length < 6 := h6
    rw [if_pos h6]; simp only [h6', if_true]
  · have h6' : ¬ d.vis.length < 6 := h6
    have hl : 6 ≤ d.vis.length := by omega
    rw [if_neg h6, GSlice.index_ok d 0 (by omega), Res.bind_ok, Res.bind_ok,
      GSlice.index_ok d 1 (by omega), Res.bind_ok,
      GSlice.slice_ok d 2 4 (by omega) (by omega), Res.bind_ok]
    have e1 : 4 - 2 = 2 := rfl
    have e2 : 6 - 4 = 2 := rfl
    simp only [e1]
    rw [uint16_vis d.vis _ 2 (by omega), Res.bind_ok,
      GSlice.slice_ok d 4 6 (by omega) (by omega), Res.bind_ok]
    simp only [e2]
    rw [uint16_vis d.vis _ 4 (by omega), Res.bind_ok]
    simp only [h6', if_false]
    by_cases hp : d.len < 6 + u16At d.vis 4
    · have hp' : d.vis.length < 6 + u16At d.vis 4 := hp
      rw [if_pos hp]; simp only [hp', if_true, pure]
    · have hp' : ¬ d.vis.length < 6 + u16At d.vis 4 := hp
      rw [if_neg hp]; simp only [hp', if_false]
      rw [GSlice.slice_ok d 0 6 (by omega) (by omega), Res.bind_ok,
        GSlice.slice_ok d 6 (6 + u16At d.vis 4) (by omega) (by unfold GSlice.len; omega), Res.bind_ok]
      have e3 : 6 + u16At d.vis 4 - 6 = u16At d.vis 4 := by omega
      simp only [pure, e3, List.drop_zero, Nat.sub_zero]

theorem decodeMPLS_eq (d : GSlice) : decodeMPLS d = .ok (mplsOut d) := by
  unfold decodeMPLS mplsOut mplsDecSpec
  by_cases h4 : d.len < 4
  · have h4' : d.vis.length < 4 := h4
    rw [if_pos h4]; simp only [h4', if_true]
  · have h4' : ¬ d.vis.length < 4 := h4
    have hl : 4 ≤ d.vis.length := by omega
    rw [if_neg h4, GSlice.slice_ok d 0 4 (by omega) (by omega), Res.bind_ok]
    simp only [Nat.sub_zero, List.drop_zero]
    have hu := uint32_vis d.vis (d.vis.drop 4 ++ d.tail) 0 (by omega)
    simp only [List.drop_zero] at hu
    rw [hu, Res.bind_ok, GSlice.sliceFrom_ok d 4 (by omega), Res.bind_ok]
    simp only [h4', if_false, pure, Res.bind_ok]

theorem guess_eq (d : GSlice) : guess d = .ok (guessSpec d.vis) := by
  unfold guess guessSpec
  by_cases h0 : d.len = 0
  · have h0' : d.vis.length = 0 := h0
    rw [if_pos h0]; simp only [h0', if_true]
  · have h0' : ¬ d.vis.length = 0 := h0
    rw [if_neg h0, GSlice.index_ok d 0 (by unfold GSlice.len at h0 ⊢; omega), Res.bind_ok]
    simp only [h0', if_false, pure]
    split
    · rfl
    · split <;> rfl

/-! ## 4. Eager packet decoding over these layers: a pure function of the visible bytes -/

/-- One decoder call as a function of the visible bytes (the pure counterpart of `Step`). -/
structure StepS where
  beh   : Beh
  layer : Option AnyLayer
  rest  : Bytes
  deriving Repr, DecidableEq

def stepS (dec : Dec) (v : Bytes) : Option StepS :=
  match dec with
  | .ipv4 => none
  | .ipv6 => none
  | .ppp =>
    match pppDecSpec v with
    | none => some { beh := { acts := [], tail := .fail }, layer := none, rest := [] }
    | some l => some { beh := { acts := [.addLayer LayerTypePPP, .setLinkLayer], tail := .pppType l.pppType },
                       layer := some (.ppp l), rest := l.payload }
  | .pppoe =>
    match pppoeDecSpec v with
    | none => some { beh := { acts := [.setTruncated], tail := .fail }, layer := none, rest := [] }
    | some l => some { beh := { acts := [.addLayer LayerTypePPPoE], tail := .pppoeCode l.code },
                       layer := some (.pppoe l), rest := l.payload }
  | .mpls =>
    match mplsDecSpec v with
    | none => some { beh := { acts := [], tail := .fail }, layer := none, rest := [] }
    | some l => some { beh := { acts := [.addLayer LayerTypeMPLS],
                                tail := if l.stackBottom then .mplsPayload else .mplsFunc },
                       layer := some (.mpls l), rest := l.payload }

def resolveS (t : Tail) (v : Bytes) : Option Dec :=
  match t with
  | .fail => none
  | .pppType a => pppTypeTable.lookup a
  | .pppoeCode c => pppoeCodeTable.lookup c
  | .mplsFunc => some .mpls
  | .mplsPayload => guessSpec v

/-- `run` without capacities and without `Res`: what eager decoding yields for the visible bytes. -/
def runS : Nat → Dec → Bytes → RunOut → RunOut
  | 0, _, _, acc => { acc with end_ := .fail }
  | fuel + 1, dec, v, acc =>
    match stepS dec v with
    | none => { acc with end_ := .hand (handType dec) }
    | some s =>
      let acc := { acc with acts := acc.acts ++ s.beh.acts }
      match s.layer with
      | none => { acc with end_ := .fail }
      | some l =>
        let acc := { acc with layers := acc.layers ++ [l] }
        if s.rest.length = 0 then { acc with end_ := .done }
        else
          match resolveS s.beh.tail s.rest with
          | none => { acc with end_ := .fail }
          | some d => runS fuel d s.rest acc

/-- What `NewPacket(data, first, …).Layers()` shows of this engine's layers, as a function of the bytes. -/
def newPacketS (lazy : Bool) (first : Dec) (v : Bytes) : RunOut :=
  if lazy ∧ v.length = 0 then { layers := [], acts := [], end_ := .done }
  else runS (v.length + 1) first v { layers := [], acts := [], end_ := .done }

theorem stepOf_eq (dec : Dec) (d : GSlice) :
    ∃ t, stepOf dec d = .ok ((stepS dec d.vis).map
      (fun s => { beh := s.beh, layer := s.layer, rest := { vis := s.rest, tail := t } })) := by
  cases dec
  · cases hs : pppDecSpec d.vis with
    | none =>
      refine ⟨[], ?_⟩
      simp only [stepOf, decodePPP_eq, stepS, pppOut, hs, bind, Res.bind, pure]; rfl
    | some l =>
      refine ⟨d.tail, ?_⟩
      simp only [stepOf, decodePPP_eq, stepS, pppOut, hs, bind, Res.bind, pure]; rfl
  · cases hs : pppoeDecSpec d.vis with
    | none =>
      refine ⟨[], ?_⟩
      simp only [stepOf, decodePPPoE_eq, stepS, pppoeOut, hs, bind, Res.bind, pure]; rfl
    | some l =>
      refine ⟨d.vis.drop (6 + l.length) ++ d.tail, ?_⟩
      simp only [stepOf, decodePPPoE_eq, stepS, pppoeOut, hs, bind, Res.bind, pure]; rfl
  · cases hs : mplsDecSpec d.vis with
    | none =>
      refine ⟨[], ?_⟩
      simp only [stepOf, decodeMPLS_eq, stepS, mplsOut, hs, bind, Res.bind, pure]; rfl
    | some l =>
      refine ⟨d.tail, ?_⟩
      simp only [stepOf, decodeMPLS_eq, stepS, mplsOut, hs, bind, Res.bind, pure]; rfl
  · exact ⟨[], rfl⟩
  · exact ⟨[], rfl⟩

theorem resolve_eq (t : Tail) (rest : GSlice) : resolve t rest = .ok (resolveS t rest.vis) := by
  cases t <;> simp only [resolve, resolveS, guess_eq]

theorem run_eq (fuel : Nat) (dec : Dec) (d : GSlice) (acc : RunOut) :
    run fuel dec d acc = .ok (runS fuel dec d.vis acc) := by
  induction fuel generalizing dec d acc with
  | zero => rfl
  | succ fuel ih =>
    obtain ⟨t, ht⟩ := stepOf_eq dec d
    unfold run runS
    rw [ht]
    cases hs : stepS dec d.vis with
    | none => rfl
    | some s =>
      simp only [Option.map_some]
      cases hl : s.layer with
      | none => rfl
      | some l =>
        simp only [GSlice.len]
        by_cases h0 : s.rest.length = 0
        · simp only [h0, if_true]
        · simp only [h0, if_false, resolve_eq]
          cases resolveS s.beh.tail s.rest with
          | none => rfl
          | some d' => exact ih _ _ _

theorem newPacket_eq (lazy : Bool) (first : Dec) (d : GSlice) :
    newPacket lazy first d = .ok (newPacketS lazy first d.vis) := by
  unfold newPacket newPacketS
  by_cases h : lazy = true ∧ d.len = 0
  · have h' : lazy = true ∧ d.vis.length = 0 := h
    rw [if_pos h, if_pos h']
  · have h' : ¬ (lazy = true ∧ d.vis.length = 0) := h
    rw [if_neg h, if_neg h']; exact run_eq _ _ _ _

/-- Progress: a layer added by one of this engine's decoders has a payload strictly shorter than
    the decoder's input (PPP consumes ≥ 1 byte, PPPoE ≥ 6, MPLS 4). -/
theorem stepS_shorter (dec : Dec) (v : Bytes) (s : StepS) (l : AnyLayer)
    (hs : stepS dec v = some s) (hl : s.layer = some l) : s.rest.length < v.length := by
  cases dec
  · simp only [stepS] at hs
    cases hp : pppDecSpec v with
    | none => rw [hp] at hs; cases hs; cases hl
    | some p =>
      rw [hp] at hs; cases hs
      simp only
      unfold pppDecSpec at hp
      simp only at hp
      split at hp
      · cases hp
      · split at hp
        · split at hp
          · cases hp
          · split at hp
            · cases hp
            · cases hp; simp only [List.length_drop]; omega
        · cases hp; simp only [List.length_drop]; omega
  · simp only [stepS] at hs
    cases hp : pppoeDecSpec v with
    | none => rw [hp] at hs; cases hs; cases hl
    | some p =>
      rw [hp] at hs; cases hs
      simp only
      unfold pppoeDecSpec at hp
      split at hp
      · cases hp
      · split at hp
        · cases hp
        · cases hp; simp only [List.length_take, List.length_drop]; omega
  · simp only [stepS] at hs
    cases hp : mplsDecSpec v with
    | none => rw [hp] at hs; cases hs; cases hl
    | some p =>
      rw [hp] at hs; cases hs
      simp only
      unfold mplsDecSpec at hp
      split at hp
      · cases hp
      · cases hp; simp only [List.length_drop]; omega
  · simp only [stepS] at hs; cases hs
  · simp only [stepS] at hs; cases hs

/-- Any two amounts of fuel above the input length give the same run. -/
theorem runS_fuel (f1 f2 : Nat) (dec : Dec) (v : Bytes) (acc : RunOut)
    (h1 : v.length < f1) (h2 : v.length < f2) : runS f1 dec v acc = runS f2 dec v acc := by
  induction f1 generalizing f2 dec v acc with
  | zero => omega
  | succ f1 ih =>
    cases f2 with
    | zero => omega
    | succ f2 =>
      unfold runS
      cases hs : stepS dec v with
      | none => rfl
      | some s =>
        simp only
        cases hl : s.layer with
        | none => rfl
        | some l =>
          simp only
          have hsh := stepS_shorter dec v s l hs hl
          split
          · rfl
          · cases resolveS s.beh.tail s.rest with
            | none => rfl
            | some d' => exact ih _ _ _ _ (by omega) (by omega)

/-- The run only ever appends layers, at most one per consumed byte. -/
theorem runS_layers_le (fuel : Nat) (dec : Dec) (v : Bytes) (acc : RunOut) :
    (runS fuel dec v acc).layers.length ≤ acc.layers.length + v.length := by
  induction fuel generalizing dec v acc with
  | zero => simp only [runS]; omega
  | succ fuel ih =>
    unfold runS
    cases hs : stepS dec v with
    | none => simp only; omega
    | some s =>
      simp only
      cases hl : s.layer with
      | none => simp only; omega
      | some l =>
        simp only
        have hsh := stepS_shorter dec v s l hs hl
        split
        · simp only [List.length_append, List.length_singleton]; omega
        · cases resolveS s.beh.tail s.rest with
          | none => simp only [List.length_append, List.length_singleton]; omega
          | some d' =>
            have := ih d' s.rest { layers := acc.layers ++ [l], acts := acc.acts ++ s.beh.acts, end_ := acc.end_ }
            simp only [List.length_append, List.length_singleton] at this
            simp only
            omega

/-- The run keeps the layers it was started with as a prefix. -/
theorem runS_prefix (fuel : Nat) (dec : Dec) (v : Bytes) (acc : RunOut) :
    ∃ more, (runS fuel dec v acc).layers = acc.layers ++ more := by
  induction fuel generalizing dec v acc with
  | zero => exact ⟨[], by simp only [runS, List.append_nil]⟩
  | succ fuel ih =>
    unfold runS
    cases hs : stepS dec v with
    | none => exact ⟨[], by simp only [List.append_nil]⟩
    | some s =>
      simp only
      cases hl : s.layer with
      | none => exact ⟨[], by simp only [List.append_nil]⟩
      | some l =>
        simp only
        split
        · exact ⟨[l], rfl⟩
        · cases resolveS s.beh.tail s.rest with
          | none => exact ⟨[l], rfl⟩
          | some d' =>
            obtain ⟨more, hm⟩ := ih d' s.rest { layers := acc.layers ++ [l], acts := acc.acts ++ s.beh.acts, end_ := acc.end_ }
            exact ⟨l :: more, by simp only [hm, List.append_assoc, List.singleton_append]⟩

/-- The first layer of a run from the empty packet is the layer of the first decoder call. -/
theorem runS_head (dec : Dec) (v : Bytes) (n : Nat) :
    (runS (n + 1) dec v { layers := [], acts := [], end_ := .done }).layers.head? =
      (match stepS dec v with
       | some s => s.layer
       | none => none) := by
  unfold runS
  cases hs : stepS dec v with
  | none => rfl
  | some s =>
    simp only
    cases hl : s.layer with
    | none => rfl
    | some l =>
      simp only [List.nil_append]
      split
      · rfl
      · cases resolveS s.beh.tail s.rest with
        | none => rfl
        | some d' =>
          obtain ⟨more, hm⟩ := runS_prefix n d' s.rest { layers := [l], acts := s.beh.acts, end_ := .done }
          simp only
          rw [hm]; rfl

/-- One step of the run, spelled out: the layer is appended and the decoder selected by its tail
    continues on its payload. -/
theorem runS_next (fuel : Nat) (dec : Dec) (v : Bytes) (acc : RunOut) (s : StepS) (l : AnyLayer)
    (d' : Dec) (hs : stepS dec v = some s) (hl : s.layer = some l) (hne : s.rest.length ≠ 0)
    (hr : resolveS s.beh.tail s.rest = some d') :
    runS (fuel + 1) dec v acc =
      runS fuel d' s.rest { acc with acts := acc.acts ++ s.beh.acts, layers := acc.layers ++ [l] } := by
  conv => lhs; unfold runS
  simp only [hs, hl, hne, if_false, hr]

/-- A successful decoder call contributes its layer right behind the layers already there. -/
theorem runS_step_layers (fuel : Nat) (dec : Dec) (v : Bytes) (acc : RunOut) (s : StepS) (l : AnyLayer)
    (hs : stepS dec v = some s) (hl : s.layer = some l) :
    ∃ more, (runS (fuel + 1) dec v acc).layers = acc.layers ++ l :: more := by
  unfold runS
  simp only [hs, hl]
  split
  · exact ⟨[], rfl⟩
  · cases resolveS s.beh.tail s.rest with
    | none => exact ⟨[], rfl⟩
    | some d' =>
      obtain ⟨more, hm⟩ := runS_prefix fuel d' s.rest
        { layers := acc.layers ++ [l], acts := acc.acts ++ s.beh.acts, end_ := acc.end_ }
      exact ⟨more, by simp only [hm, List.append_assoc, List.singleton_append]⟩

end Gp.Ppp
