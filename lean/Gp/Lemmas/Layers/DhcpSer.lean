import Gp.Lemmas.Layers.Dhcp
/-
  Helper lemmas for engine `ldhcp`, part 2: serialization over the C18 buffer model.  Core Lean only.

  Section 1 holds the *definitions* used in property statements (functional specification of
  SerializeTo, the observable view `serView`); the rest is proof machinery.
-/
namespace Gp.Dhcp
open Gp Gp.SBuf Gp.C18 Gp.Gen.Dhcp

/-! ## 1. Definitions used in property statements -/

/-- Functional specification of a SerializeTo call: the receiver afterwards, whether an error was
    returned, and (when not) the bytes the buffer then holds. -/
structure SerSpec (L : Type) where
  layer : L
  err   : Bool
  bytes : Bytes
  deriving Repr, DecidableEq

/-- What a caller can observe of a SerializeTo call: the receiver afterwards, the error flag and,
    when no error was returned, the bytes in the buffer (`Bytes()`); not the buffer's internals. -/
def serView {L : Type} (r : Res (SerOut L)) : Res (SerSpec L) :=
  match r with
  | .ok o => .ok { layer := o.layer, err := o.err, bytes := if o.err then [] else SBuf.contents o.buf }
  | .err k => .err k
  | .panic k => .panic k

/-- The receiver after the FixLengths assignment. -/
def dhcpFixed (l : DHCPv4) (fix : Bool) : DHCPv4 :=
  if fix then { l with hardwareLen := l.clientHWAddr.length % 256 } else l

/-- A fixed-size field written with `copy` into a cleared window: the first `n` bytes of the source,
    zero padded. -/
def padTo (n : Nat) (x : Bytes) : Bytes := x.take n ++ zeros (n - (x.take n).length)

/-- The 240 bytes of the BOOTP header and magic cookie. -/
def hdrBytes (l : DHCPv4) : Bytes :=
  [u8 l.operation, u8 l.hardwareType, u8 l.hardwareLen, u8 l.relayHops] ++ putBe32 l.xid ++ putBe16 l.secs ++
    putBe16 l.flags ++ padTo 4 (to4 l.clientIP) ++ padTo 4 (to4 l.yourClientIP) ++ padTo 4 (to4 l.nextServerIP) ++
    padTo 4 (to4 l.relayAgentIP) ++ padTo 16 l.clientHWAddr ++ padTo 64 l.serverName ++ padTo 128 l.file ++
    putBe32 dhcpMagic

/-- The bytes one element of Options occupies (Data has Length bytes): Pad is one byte; an End option
    placed in the list stores its type only, the `1+len(Data)` bytes behind it stay zero. -/
def optBytes (o : DHCPOption) : Bytes :=
  if o.typ = dhcpOptPad then [u8 o.typ]
  else if o.typ = dhcpOptEnd then [u8 o.typ] ++ zeros (1 + o.data.length)
  else [u8 o.typ, u8 o.length] ++ o.data

def optsBytes : List DHCPOption → Bytes
  | [] => []
  | o :: rest => optBytes o ++ optsBytes rest

/-- The whole message. -/
def dhcpEncode (l : DHCPv4) : Bytes := hdrBytes l ++ optsBytes l.options ++ [u8 dhcpOptEnd]

/-- Bytes the options occupy. -/
def optsWidth : List DHCPOption → Nat
  | [] => 0
  | o :: rest => (if o.typ = dhcpOptPad then 1 else 2 + o.data.length) + optsWidth rest

/-- Every option other than Pad carries exactly Length bytes of Data. -/
def optsConsistent : List DHCPOption → Prop
  | [] => True
  | o :: rest => (o.typ ≠ dhcpOptPad → o.data.length = o.length) ∧ optsConsistent rest

instance optsConsistentDec : (os : List DHCPOption) → Decidable (optsConsistent os)
  | [] => isTrue trivial
  | o :: rest =>
    have := optsConsistentDec rest
    by unfold optsConsistent; infer_instance

/-- [ldhcp-3] SerializeTo returns an error: an option other than Pad whose Data has not Length bytes. -/
def serBad (l : DHCPv4) : Bool := (sizeLoop l.options 241).isNone

/-- What `DHCPv4.SerializeTo` (fixed code) does, as a function of the layer, the payload already in
    the buffer and FixLengths. -/
def serSpec (l : DHCPv4) (p : Bytes) (fix : Bool) : SerSpec DHCPv4 :=
  if serBad l then { layer := l, err := true, bytes := [] }
  else { layer := dhcpFixed l fix, err := false, bytes := dhcpEncode (dhcpFixed l fix) ++ p }

/-! ## 2. Sizes: the validation loop and Len() -/

theorem sizeLoop_some : ∀ (os : List DHCPOption) (s size : Nat), sizeLoop os s = some size →
    size = s + optsWidth os ∧ optsConsistent os := by
  intro os
  induction os with
  | nil => intro s size h; simp [sizeLoop] at h; simp [optsWidth, optsConsistent, h]
  | cons o rest ih =>
    intro s size h
    unfold sizeLoop at h
    by_cases hp : o.typ = dhcpOptPad
    · rw [if_pos hp] at h
      obtain ⟨a, b⟩ := ih _ _ h
      simp only [optsWidth, optsConsistent, hp, if_true]
      exact ⟨by omega, fun x => absurd rfl x, b⟩
    · rw [if_neg hp] at h
      by_cases hd : o.data.length ≠ o.length
      · rw [if_pos hd] at h; cases h
      · rw [if_neg hd] at h
        obtain ⟨a, b⟩ := ih _ _ h
        simp only [optsWidth, optsConsistent, hp, if_false]
        exact ⟨by omega, fun _ => Decidable.of_not_not hd, b⟩

theorem sizeLoop_none : ∀ (os : List DHCPOption) (s : Nat), sizeLoop os s = none → ¬ optsConsistent os := by
  intro os
  induction os with
  | nil => intro s h; simp [sizeLoop] at h
  | cons o rest ih =>
    intro s h
    unfold sizeLoop at h
    by_cases hp : o.typ = dhcpOptPad
    · rw [if_pos hp] at h
      intro hc; exact ih _ h hc.2
    · rw [if_neg hp] at h
      by_cases hd : o.data.length ≠ o.length
      · intro hc; exact hd (hc.1 hp)
      · rw [if_neg hd] at h
        intro hc; exact ih _ h hc.2

/-- For consistent options that fit, the uint16 count of `Len()` does not wrap and equals the size
    the validation loop computed. -/
theorem lenLoop_eq : ∀ (os : List DHCPOption) (n : Nat), optsConsistent os → n + optsWidth os < 65536 →
    lenLoop os n = n + optsWidth os := by
  intro os
  induction os with
  | nil => intro n _ _; simp [lenLoop, optsWidth]
  | cons o rest ih =>
    intro n hc hw
    unfold lenLoop
    simp only [optsWidth] at hw ⊢
    by_cases hp : o.typ = dhcpOptPad
    · simp only [hp, if_true] at hw ⊢
      rw [Nat.mod_eq_of_lt (by omega), ih _ hc.2 (by omega)]; omega
    · simp only [hp, if_false] at hw ⊢
      have hl : o.data.length = o.length := hc.1 hp
      rw [Nat.mod_eq_of_lt (a := o.length + 2) (by omega), Nat.mod_eq_of_lt (by omega), ih _ hc.2 (by omega)]
      omega

theorem sizeLoop_consistent (os : List DHCPOption) (s : Nat) (h : optsConsistent os) :
    sizeLoop os s = some (s + optsWidth os) := by
  cases hs : sizeLoop os s with
  | none => exact absurd h (sizeLoop_none os s hs)
  | some size => rw [(sizeLoop_some os s size hs).1]

/-- When SerializeTo does not return an error the size loop gives `241 + optsWidth` and the options
    are consistent. -/
theorem serBad_false (l : DHCPv4) (h : serBad l = false) :
    sizeLoop l.options 241 = some (241 + optsWidth l.options) ∧ optsConsistent l.options := by
  unfold serBad at h
  cases hs : sizeLoop l.options 241 with
  | none => rw [hs] at h; cases h
  | some size =>
    obtain ⟨a, b⟩ := sizeLoop_some _ _ _ hs
    exact ⟨by rw [a], b⟩

theorem serBad_true (l : DHCPv4) (h : serBad l = true) :
    sizeLoop l.options 241 = none ∧ ¬ optsConsistent l.options := by
  unfold serBad at h
  cases hs : sizeLoop l.options 241 with
  | none => exact ⟨rfl, sizeLoop_none _ _ hs⟩
  | some size => rw [hs] at h; cases h

theorem serBad_iff (l : DHCPv4) : serBad l = false ↔ optsConsistent l.options := by
  constructor
  · intro h; exact (serBad_false l h).2
  · intro h
    unfold serBad; rw [sizeLoop_consistent _ _ h]; rfl

/-- `Len()` — the public method, counting in uint16 from the Length bytes — equals the number of bytes
    SerializeTo writes exactly when the options are consistent and the message fits in 65535 bytes. -/
theorem len_eq_size (l : DHCPv4) (hc : optsConsistent l.options) (hw : 241 + optsWidth l.options ≤ 65535) :
    l.len = 241 + optsWidth l.options := by
  unfold DHCPv4.len
  rw [lenLoop_eq _ _ hc (by omega), Nat.mod_eq_of_lt (by omega)]; omega

/-! ## 3. SerializeTo never panics — every field value, every buffer state (no invariant needed) -/

theorem write_ok (b : SBuf) (w : Win) (i : Nat) (v : UInt8) (h : i < w.n) : ∃ b', write b w i v = .ok b' := by
  unfold write; rw [if_pos h]; split <;> exact ⟨_, rfl⟩

theorem winSlice_ok (w : Win) (a c : Nat) (h1 : a ≤ c) (h2 : c ≤ w.n) :
    winSlice w a c = .ok { gen := w.gen, off := w.off + a, n := c - a } := by
  unfold winSlice; rw [if_pos ⟨h1, h2⟩]

theorem winFrom_ok (w : Win) (a : Nat) (h : a ≤ w.n) :
    winFrom w a = .ok { gen := w.gen, off := w.off + a, n := w.n - a } := by
  unfold winFrom; rw [if_pos h]

theorem putUint16_ok (b : SBuf) (w : Win) (v : Nat) (h : 2 ≤ w.n) : putUint16 b w v = .ok (fill b w (putBe16 v)) := by
  unfold putUint16; rw [if_neg (by omega)]

theorem putUint32be_ok (b : SBuf) (w : Win) (v : Nat) (h : 4 ≤ w.n) : putUint32be b w v = .ok (fill b w (putBe32 v)) := by
  unfold putUint32be; rw [if_neg (by omega)]

theorem encode_ok (o : DHCPOption) (b : SBuf) (w : Win) (h : 2 ≤ w.n ∨ (1 ≤ w.n ∧ (o.typ = dhcpOptPad ∨ o.typ = dhcpOptEnd))) :
    ∃ b', o.encode b w = .ok b' := by
  unfold DHCPOption.encode
  by_cases hpe : o.typ = dhcpOptPad ∨ o.typ = dhcpOptEnd
  · rw [if_pos hpe]; exact write_ok _ _ _ _ (by omega)
  · rw [if_neg hpe]
    have h2 : 2 ≤ w.n := by
      cases h with
      | inl x => exact x
      | inr x => exact absurd x.2 hpe
    obtain ⟨b1, e1⟩ := write_ok b w 0 (u8 o.typ) (by omega)
    rw [e1, Res.bind_ok]
    obtain ⟨b2, e2⟩ := write_ok b1 w 1 (u8 o.length) (by omega)
    rw [e2, Res.bind_ok, winFrom_ok w 2 h2, Res.bind_ok]
    exact ⟨_, rfl⟩

theorem encLoop_ok : ∀ (os : List DHCPOption) (b : SBuf) (data : Win) (offset : Nat),
    offset + optsWidth os < data.n →
    ∃ b', encLoop os b data offset = .ok (b', offset + optsWidth os) := by
  intro os
  induction os with
  | nil => intro b data offset _; exact ⟨b, by simp [encLoop, optsWidth]⟩
  | cons o rest ih =>
    intro b data offset h
    simp only [optsWidth] at h
    unfold encLoop
    rw [winFrom_ok data offset (by omega), Res.bind_ok]
    by_cases hp : o.typ = dhcpOptPad
    · simp only [hp, if_true] at h ⊢
      obtain ⟨b1, e1⟩ := encode_ok o b { gen := data.gen, off := data.off + offset, n := data.n - offset }
        (Or.inr ⟨by simp only; omega, Or.inl hp⟩)
      rw [e1, Res.bind_ok]
      obtain ⟨b2, e2⟩ := ih b1 data (offset + 1) (by omega)
      refine ⟨b2, ?_⟩
      rw [e2, optsWidth, if_pos hp]
      simp only [Nat.add_assoc]
    · simp only [hp, if_false] at h ⊢
      obtain ⟨b1, e1⟩ := encode_ok o b { gen := data.gen, off := data.off + offset, n := data.n - offset }
        (Or.inl (by simp only; omega))
      rw [e1, Res.bind_ok]
      obtain ⟨b2, e2⟩ := ih b1 data (offset + (2 + o.data.length)) (by omega)
      refine ⟨b2, ?_⟩
      rw [e2, optsWidth, if_neg hp]
      simp only [Nat.add_assoc]

theorem serStoresRest_ok (l : DHCPv4) (b : SBuf) (data : Win)
    (hn : 240 + optsWidth l.options < data.n) : ∃ o, serStoresRest l b data = .ok o := by
  unfold serStoresRest
  obtain ⟨b1, e1⟩ := write_ok b data 2 (u8 l.hardwareLen) (by omega)
  rw [e1, Res.bind_ok]
  obtain ⟨b2, e2⟩ := write_ok b1 data 3 (u8 l.relayHops) (by omega)
  rw [e2, Res.bind_ok]
  rw [winSlice_ok data 4 8 (by omega) (by omega), Res.bind_ok, putUint32be_ok _ _ _ (by simp only; omega), Res.bind_ok,
    winSlice_ok data 8 10 (by omega) (by omega), Res.bind_ok, putUint16_ok _ _ _ (by simp only; omega), Res.bind_ok,
    winSlice_ok data 10 12 (by omega) (by omega), Res.bind_ok, putUint16_ok _ _ _ (by simp only; omega), Res.bind_ok,
    winSlice_ok data 12 16 (by omega) (by omega), Res.bind_ok,
    winSlice_ok data 16 20 (by omega) (by omega), Res.bind_ok,
    winSlice_ok data 20 24 (by omega) (by omega), Res.bind_ok,
    winSlice_ok data 24 28 (by omega) (by omega), Res.bind_ok,
    winSlice_ok data 28 44 (by omega) (by omega), Res.bind_ok,
    winSlice_ok data 44 108 (by omega) (by omega), Res.bind_ok,
    winSlice_ok data 108 236 (by omega) (by omega), Res.bind_ok,
    winSlice_ok data 236 240 (by omega) (by omega), Res.bind_ok, putUint32be_ok _ _ _ (by simp only; omega), Res.bind_ok]
  generalize (fill _ _ (putBe32 dhcpMagic)) = bb
  obtain ⟨b3, e3⟩ := encLoop_ok l.options bb data 240 hn
  rw [e3, Res.bind_ok]
  simp only
  rw [winFrom_ok data _ (by omega), Res.bind_ok]
  obtain ⟨b4, e4⟩ := encode_ok (newDHCPOption dhcpOptEnd none) b3
    { gen := data.gen, off := data.off + (240 + optsWidth l.options), n := data.n - (240 + optsWidth l.options) }
    (Or.inr ⟨by simp only; omega, Or.inr rfl⟩)
  rw [e4, Res.bind_ok]
  exact ⟨_, rfl⟩

theorem serStores_ok (l : DHCPv4) (b : SBuf) (data : Win) (fix : Bool)
    (hn : 240 + optsWidth l.options < data.n) : ∃ o, serStores l b data fix = .ok o := by
  unfold serStores
  obtain ⟨b1, e1⟩ := write_ok b data 0 (u8 l.operation) (by omega)
  rw [e1, Res.bind_ok]
  obtain ⟨b2, e2⟩ := write_ok b1 data 1 (u8 l.hardwareType) (by omega)
  rw [e2, Res.bind_ok]
  cases fix
  · exact serStoresRest_ok l b2 data hn
  · exact serStoresRest_ok _ b2 data hn

/-- `DHCPv4.SerializeTo` (fixed code) never panics: every field value, every option set, every buffer state. -/
theorem serializeTo_ok (l : DHCPv4) (b : SBuf) (fix csum : Bool) : ∃ o, l.serializeTo .fixed b fix csum = .ok o := by
  unfold DHCPv4.serializeTo
  simp only
  cases hbad : serBad l
  · obtain ⟨hl, -⟩ := serBad_false l hbad
    rw [hl]
    simp only
    apply serStores_ok
    have : (prepend b (241 + optsWidth l.options)).2.n = 241 + optsWidth l.options := rfl
    rw [this]; omega
  · rw [(serBad_true l hbad).1]; exact ⟨_, rfl⟩

/-! ## 4. Writing a cleared window front to back -/

/-- A store of `vs` through a current window positioned right behind the already written prefix `W`
    of the contents replaces the next `|vs|` bytes. -/
theorem fill_next (b : SBuf) (h : Inv b) (w : Win) (W R vs : Bytes)
    (hg : w.gen = b.gen) (ho : w.off = b.start + W.length) (hc : contents b = W ++ R)
    (hv : vs.length ≤ R.length) :
    contents (fill b w vs) = (W ++ vs) ++ R.drop vs.length ∧ Inv (fill b w vs) ∧
    (fill b w vs).start = b.start ∧ (fill b w vs).gen = b.gen := by
  have hcl := contents_length b h
  rw [hc, List.length_append] at hcl
  have h' := h
  obtain ⟨i1, i2, i3⟩ := h
  have h1 : b.start ≤ w.off := by omega
  have h2 : w.off + vs.length ≤ b.len := by omega
  refine ⟨?_, inv_fill' b w vs h' (by omega), (fill_fields b w vs).1, (fill_fields b w vs).2.2.2.1⟩
  rw [fill_contents b w vs h' hg h1 h2, hc]
  have : w.off - b.start = W.length := by omega
  rw [this, List.take_left' rfl, List.drop_length_add_append]

/-- The same for a single indexed store `w[i] = v`. -/
theorem write_next (b : SBuf) (h : Inv b) (w : Win) (i : Nat) (v : UInt8) (W R : Bytes)
    (hg : w.gen = b.gen) (hi : i < w.n) (ho : w.off + i = b.start + W.length)
    (hc : contents b = W ++ R) (hr : 1 ≤ R.length) :
    ∃ b', write b w i v = .ok b' ∧ contents b' = (W ++ [v]) ++ R.drop 1 ∧ Inv b' ∧
      b'.start = b.start ∧ b'.gen = b.gen := by
  refine ⟨_, write_current b w i v hg hi, ?_, inv_set b _ v h, rfl, rfl⟩
  rw [contents_set b (w.off + i) v (by omega), hc]
  have : w.off + i - b.start = W.length := by omega
  rw [this]
  cases R with
  | nil => simp at hr
  | cons r rs => simp

theorem drop_zeros_append (n k : Nat) (P : Bytes) (h : k ≤ n) : (zeros n ++ P).drop k = zeros (n - k) ++ P := by
  have e : n = k + (n - k) := by omega
  rw [e, zeros_add, List.append_assoc, List.drop_left' (zeros_length k)]
  congr 2; omega

/-- The buffer while SerializeTo fills its cleared window front to back: `W` is written, zeros follow
    up to `plen`, then the bytes `P` the buffer held before. -/
structure SerInv (b0 : SBuf) (plen : Nat) (P : Bytes) (b : SBuf) (W : Bytes) : Prop where
  inv : Inv b
  start : b.start = b0.start
  gen : b.gen = b0.gen
  le : W.length ≤ plen
  cont : contents b = W ++ (zeros (plen - W.length) ++ P)

theorem ser_fill {b0 : SBuf} {plen : Nat} {P : Bytes} {b : SBuf} {W : Bytes} (h : SerInv b0 plen P b W)
    (w : Win) (vs : Bytes) (hg : w.gen = b0.gen) (ho : w.off = b0.start + W.length)
    (hv : W.length + vs.length ≤ plen) : SerInv b0 plen P (fill b w vs) (W ++ vs) := by
  obtain ⟨c, i, s, g⟩ := fill_next b h.inv w W (zeros (plen - W.length) ++ P) vs (by rw [h.gen]; exact hg)
    (by rw [h.start]; exact ho) h.cont (by rw [List.length_append, zeros_length]; omega)
  refine ⟨i, by rw [s, h.start], by rw [g, h.gen], by rw [List.length_append]; omega, ?_⟩
  rw [c, drop_zeros_append _ _ _ (by omega), List.length_append]
  congr 3; omega

theorem ser_write {b0 : SBuf} {plen : Nat} {P : Bytes} {b : SBuf} {W : Bytes} (h : SerInv b0 plen P b W)
    (w : Win) (i : Nat) (v : UInt8) (hg : w.gen = b0.gen) (hi : i < w.n) (ho : w.off + i = b0.start + W.length)
    (hv : W.length < plen) : ∃ b', write b w i v = .ok b' ∧ SerInv b0 plen P b' (W ++ [v]) := by
  obtain ⟨b', e, c, i', s, g⟩ := write_next b h.inv w i v W (zeros (plen - W.length) ++ P) (by rw [h.gen]; exact hg) hi
    (by rw [h.start]; exact ho) h.cont (by rw [List.length_append, zeros_length]; omega)
  refine ⟨b', e, i', by rw [s, h.start], by rw [g, h.gen], by rw [List.length_append]; simp; omega, ?_⟩
  rw [c, drop_zeros_append _ _ _ (by omega), List.length_append]
  congr 3 <;> simp <;> omega

theorem ser_skip {b0 : SBuf} {plen : Nat} {P : Bytes} {b : SBuf} {W : Bytes} (h : SerInv b0 plen P b W)
    (j : Nat) (hv : W.length + j ≤ plen) : SerInv b0 plen P b (W ++ zeros j) := by
  refine ⟨h.inv, h.start, h.gen, by rw [List.length_append, zeros_length]; omega, ?_⟩
  rw [h.cont, List.length_append, zeros_length]
  have e : plen - W.length = j + (plen - (W.length + j)) := by omega
  rw [e, zeros_add]
  simp [List.append_assoc]

/-- A fixed-size field written with `copy` into a window of `fs` bytes behind `W`. -/
theorem ser_field {b0 : SBuf} {plen : Nat} {P : Bytes} {b : SBuf} {W : Bytes} (h : SerInv b0 plen P b W)
    (w : Win) (src : Bytes) (fs : Nat) (hg : w.gen = b0.gen) (ho : w.off = b0.start + W.length) (hn : w.n = fs)
    (hv : W.length + fs ≤ plen) : SerInv b0 plen P (copyTo b w src) (W ++ padTo fs src) := by
  unfold copyTo padTo
  rw [hn]
  have hl : (src.take fs).length ≤ fs := by rw [List.length_take]; omega
  have h1 := ser_fill h w (src.take fs) hg ho (by omega)
  have h2 := ser_skip h1 (fs - (src.take fs).length) (by rw [List.length_append]; omega)
  rw [List.append_assoc] at h2
  exact h2

theorem padTo_length (n : Nat) (x : Bytes) : (padTo n x).length = n := by
  unfold padTo
  rw [List.length_append, zeros_length, List.length_take]; omega


/-! ## 5. The options -/

theorem optBytes_length (o : DHCPOption) :
    (optBytes o).length = if o.typ = dhcpOptPad then 1 else 2 + o.data.length := by
  unfold optBytes
  by_cases hp : o.typ = dhcpOptPad
  · rw [if_pos hp, if_pos hp]; rfl
  · by_cases he : o.typ = dhcpOptEnd
    · rw [if_neg hp, if_pos he, if_neg hp, List.length_append, zeros_length]; simp; omega
    · rw [if_neg hp, if_neg he, if_neg hp, List.length_append]; simp

theorem optsBytes_length : ∀ os : List DHCPOption, (optsBytes os).length = optsWidth os := by
  intro os
  induction os with
  | nil => rfl
  | cons o rest ih => simp only [optsBytes, optsWidth, List.length_append, optBytes_length, ih]

theorem encode_spec {b0 : SBuf} {plen : Nat} {P : Bytes} {b : SBuf} {W : Bytes} (h : SerInv b0 plen P b W)
    (o : DHCPOption) (w : Win) (hg : w.gen = b0.gen) (ho : w.off = b0.start + W.length) (hn : w.n = plen - W.length)
    (hv : W.length + (optBytes o).length ≤ plen) :
    ∃ b', o.encode b w = .ok b' ∧ SerInv b0 plen P b' (W ++ optBytes o) := by
  have hlen := optBytes_length o
  unfold DHCPOption.encode optBytes
  by_cases hp : o.typ = dhcpOptPad
  · rw [if_pos (Or.inl hp), if_pos hp]
    rw [if_pos hp] at hlen
    exact ser_write h w 0 (u8 o.typ) hg (by omega) (by omega) (by omega)
  · rw [if_neg hp] at hlen
    by_cases he : o.typ = dhcpOptEnd
    · rw [if_pos (Or.inr he), if_neg hp, if_pos he]
      obtain ⟨b1, e1, h1⟩ := ser_write h w 0 (u8 o.typ) hg (by omega) (by omega) (by omega)
      refine ⟨b1, e1, ?_⟩
      have h2 := ser_skip h1 (1 + o.data.length) (by rw [List.length_append]; simp; omega)
      rw [List.append_assoc] at h2
      exact h2
    · have hpe : ¬ (o.typ = dhcpOptPad ∨ o.typ = dhcpOptEnd) := fun x => x.elim hp he
      rw [if_neg hpe, if_neg hp, if_neg he]
      obtain ⟨b1, e1, h1⟩ := ser_write h w 0 (u8 o.typ) hg (by omega) (by omega) (by omega)
      rw [e1, Res.bind_ok]
      obtain ⟨b2, e2, h2⟩ := ser_write h1 w 1 (u8 o.length) hg (by omega)
        (by rw [List.length_append]; simp; omega) (by rw [List.length_append]; simp; omega)
      rw [e2, Res.bind_ok, winFrom_ok w 2 (by omega), Res.bind_ok]
      refine ⟨_, rfl, ?_⟩
      unfold copyTo
      simp only
      rw [List.take_of_length_le (by omega)]
      have h3 := ser_fill h2 { gen := w.gen, off := w.off + 2, n := w.n - 2 } o.data hg
        (by simp only [List.length_append, List.length_singleton]; omega)
        (by simp only [List.length_append, List.length_singleton]; omega)
      simpa [List.append_assoc] using h3

theorem encLoop_spec : ∀ (os : List DHCPOption) {b0 : SBuf} {plen : Nat} {P : Bytes} {b : SBuf} {W : Bytes}
    (_ : SerInv b0 plen P b W) (data : Win), data.gen = b0.gen → data.off = b0.start → data.n = plen →
    W.length + optsWidth os ≤ plen →
    ∃ b', encLoop os b data W.length = .ok (b', W.length + optsWidth os) ∧ SerInv b0 plen P b' (W ++ optsBytes os) := by
  intro os
  induction os with
  | nil =>
    intro b0 plen P b W h data _ _ _ _
    exact ⟨b, by simp [encLoop, optsWidth], by simpa [optsBytes] using h⟩
  | cons o rest ih =>
    intro b0 plen P b W h data hg ho hn hv
    simp only [optsWidth] at hv
    have hol := optBytes_length o
    unfold encLoop
    rw [winFrom_ok data W.length (by omega), Res.bind_ok]
    obtain ⟨b1, e1, h1⟩ := encode_spec h o { gen := data.gen, off := data.off + W.length, n := data.n - W.length }
      hg (by simp only; omega) (by simp only; omega) (by rw [hol]; omega)
    rw [e1, Res.bind_ok]
    have hl1 : (W ++ optBytes o).length = W.length + (if o.typ = dhcpOptPad then 1 else 2 + o.data.length) := by
      rw [List.length_append, hol]
    obtain ⟨b2, e2, h2⟩ := ih h1 data hg ho hn (by rw [hl1]; omega)
    rw [hl1] at e2
    refine ⟨b2, ?_, ?_⟩
    · by_cases hp : o.typ = dhcpOptPad
      · simp only [hp, if_true] at e2 ⊢
        rw [e2, optsWidth, if_pos hp]; simp only [Nat.add_assoc]
      · simp only [hp, if_false] at e2 ⊢
        rw [e2, optsWidth, if_neg hp]; simp only [Nat.add_assoc]
    · simpa [optsBytes, List.append_assoc] using h2


/-! ## 6. The header and the whole call -/

theorem putBe16_length (v : Nat) : (putBe16 v).length = 2 := rfl
theorem putBe32_length (v : Nat) : (putBe32 v).length = 4 := rfl

theorem serStoresRest_spec {b0 : SBuf} {plen : Nat} {P : Bytes} {b : SBuf} (l : DHCPv4) (a0 a1 : UInt8)
    (h : SerInv b0 plen P b [a0, a1]) (data : Win) (hg : data.gen = b0.gen) (ho : data.off = b0.start)
    (hn : data.n = plen) (hp : plen = 241 + optsWidth l.options) :
    ∃ o, serStoresRest l b data = .ok o ∧ o.layer = l ∧ o.err = false ∧
      SerInv b0 plen P o.buf ([a0, a1] ++ (hdrBytes l).drop 2 ++ optsBytes l.options ++ [u8 dhcpOptEnd]) := by
  unfold serStoresRest
  obtain ⟨b1, e1, h1⟩ := ser_write h data 2 (u8 l.hardwareLen) hg (by omega) (by simp; omega) (by simp; omega)
  rw [e1, Res.bind_ok]
  obtain ⟨b2, e2, h2⟩ := ser_write h1 data 3 (u8 l.relayHops) hg (by omega) (by simp; omega) (by simp; omega)
  rw [e2, Res.bind_ok]
  rw [winSlice_ok data 4 8 (by omega) (by omega), Res.bind_ok, putUint32be_ok _ _ _ (by simp only; omega), Res.bind_ok]
  have h3 := ser_fill h2 { gen := data.gen, off := data.off + 4, n := 8 - 4 } (putBe32 l.xid) hg (by simp; omega) (by simp [putBe32_length]; omega)
  rw [winSlice_ok data 8 10 (by omega) (by omega), Res.bind_ok, putUint16_ok _ _ _ (by simp only; omega), Res.bind_ok]
  have h4 := ser_fill h3 { gen := data.gen, off := data.off + 8, n := 10 - 8 } (putBe16 l.secs) hg (by simp [putBe32_length]; omega) (by simp [putBe32_length, putBe16_length]; omega)
  rw [winSlice_ok data 10 12 (by omega) (by omega), Res.bind_ok, putUint16_ok _ _ _ (by simp only; omega), Res.bind_ok]
  have h5 := ser_fill h4 { gen := data.gen, off := data.off + 10, n := 12 - 10 } (putBe16 l.flags) hg (by simp [putBe32_length, putBe16_length]; omega) (by simp [putBe32_length, putBe16_length]; omega)
  rw [winSlice_ok data 12 16 (by omega) (by omega), Res.bind_ok]
  have h6 := ser_field h5 { gen := data.gen, off := data.off + 12, n := 16 - 12 } (to4 l.clientIP) 4 hg (by simp [putBe32_length, putBe16_length]; omega) rfl (by simp [putBe32_length, putBe16_length]; omega)
  rw [winSlice_ok data 16 20 (by omega) (by omega), Res.bind_ok]
  have h7 := ser_field h6 { gen := data.gen, off := data.off + 16, n := 20 - 16 } (to4 l.yourClientIP) 4 hg (by simp [putBe32_length, putBe16_length, padTo_length]; omega) rfl (by simp [putBe32_length, putBe16_length, padTo_length]; omega)
  rw [winSlice_ok data 20 24 (by omega) (by omega), Res.bind_ok]
  have h8 := ser_field h7 { gen := data.gen, off := data.off + 20, n := 24 - 20 } (to4 l.nextServerIP) 4 hg (by simp [putBe32_length, putBe16_length, padTo_length]; omega) rfl (by simp [putBe32_length, putBe16_length, padTo_length]; omega)
  rw [winSlice_ok data 24 28 (by omega) (by omega), Res.bind_ok]
  have h9 := ser_field h8 { gen := data.gen, off := data.off + 24, n := 28 - 24 } (to4 l.relayAgentIP) 4 hg (by simp [putBe32_length, putBe16_length, padTo_length]; omega) rfl (by simp [putBe32_length, putBe16_length, padTo_length]; omega)
  rw [winSlice_ok data 28 44 (by omega) (by omega), Res.bind_ok]
  have h10 := ser_field h9 { gen := data.gen, off := data.off + 28, n := 44 - 28 } l.clientHWAddr 16 hg (by simp [putBe32_length, putBe16_length, padTo_length]; omega) rfl (by simp [putBe32_length, putBe16_length, padTo_length]; omega)
  rw [winSlice_ok data 44 108 (by omega) (by omega), Res.bind_ok]
  have h11 := ser_field h10 { gen := data.gen, off := data.off + 44, n := 108 - 44 } l.serverName 64 hg (by simp [putBe32_length, putBe16_length, padTo_length]; omega) rfl (by simp [putBe32_length, putBe16_length, padTo_length]; omega)
  rw [winSlice_ok data 108 236 (by omega) (by omega), Res.bind_ok]
  have h12 := ser_field h11 { gen := data.gen, off := data.off + 108, n := 236 - 108 } l.file 128 hg (by simp [putBe32_length, putBe16_length, padTo_length]; omega) rfl (by simp [putBe32_length, putBe16_length, padTo_length]; omega)
  rw [winSlice_ok data 236 240 (by omega) (by omega), Res.bind_ok, putUint32be_ok _ _ _ (by simp only; omega), Res.bind_ok]
  have h13 := ser_fill h12 { gen := data.gen, off := data.off + 236, n := 240 - 236 } (putBe32 dhcpMagic) hg (by simp [putBe32_length, putBe16_length, padTo_length]; omega) (by simp [putBe32_length, putBe16_length, padTo_length]; omega)
  generalize hW : [a0, a1] ++ [u8 l.hardwareLen] ++ [u8 l.relayHops] ++ putBe32 l.xid ++ putBe16 l.secs ++ putBe16 l.flags ++
    padTo 4 (to4 l.clientIP) ++ padTo 4 (to4 l.yourClientIP) ++ padTo 4 (to4 l.nextServerIP) ++ padTo 4 (to4 l.relayAgentIP) ++
    padTo 16 l.clientHWAddr ++ padTo 64 l.serverName ++ padTo 128 l.file ++ putBe32 dhcpMagic = W at h13
  have hWl : W.length = 240 := by
    rw [← hW]; simp [putBe32_length, putBe16_length, padTo_length]
  obtain ⟨b3, e3, h14⟩ := encLoop_spec l.options h13 data hg ho hn (by omega)
  rw [hWl] at e3
  rw [e3, Res.bind_ok]
  simp only
  rw [winFrom_ok data _ (by omega), Res.bind_ok]
  have henc : ∀ (bb : SBuf) (ww : Win), (newDHCPOption dhcpOptEnd none).encode bb ww = write bb ww 0 (u8 dhcpOptEnd) := by
    intro bb ww
    unfold DHCPOption.encode newDHCPOption
    simp
  rw [henc]
  obtain ⟨b4, e4, h15⟩ := ser_write h14
    { gen := data.gen, off := data.off + (240 + optsWidth l.options), n := data.n - (240 + optsWidth l.options) } 0 (u8 dhcpOptEnd) hg
    (by simp only; omega)
    (by simp only [List.length_append, hWl, optsBytes_length]; omega)
    (by simp only [List.length_append, hWl, optsBytes_length]; omega)
  rw [e4, Res.bind_ok]
  refine ⟨_, rfl, rfl, rfl, ?_⟩
  have hd : [a0, a1] ++ (hdrBytes l).drop 2 = W := by
    rw [← hW]; simp [hdrBytes, List.append_assoc]
  simp only
  rw [hd]
  exact h15


/-- What is known about the buffer and the window right after `PrependBytes(n)`. -/
theorem prepend_facts (b : SBuf) (n : Nat) (h : Inv b) :
    Inv (prepend b n).1 ∧ (prepend b n).2.n = n ∧ (prepend b n).2.gen = (prepend b n).1.gen ∧
    (prepend b n).2.off = (prepend b n).1.start ∧
    (contents (prepend b n).1).length = n + (contents b).length ∧
    (contents (prepend b n).1).drop n = contents b :=
  ⟨inv_prepend' b n h, rfl, rfl, rfl, prepend_contents_length b n h, prepend_contents_drop b n h⟩

theorem dhcpFixed_fields (l : DHCPv4) (fix : Bool) :
    (dhcpFixed l fix).options = l.options ∧ (dhcpFixed l fix).operation = l.operation ∧
    (dhcpFixed l fix).hardwareType = l.hardwareType ∧ (dhcpFixed l fix).clientHWAddr = l.clientHWAddr := by
  unfold dhcpFixed; cases fix <;> exact ⟨rfl, rfl, rfl, rfl⟩

theorem hdrBytes_split (l : DHCPv4) : hdrBytes l = [u8 l.operation, u8 l.hardwareType] ++ (hdrBytes l).drop 2 := by
  simp [hdrBytes]

theorem serStores_spec {b0 : SBuf} {plen : Nat} {P : Bytes} {b : SBuf} (l : DHCPv4) (fix : Bool)
    (h : SerInv b0 plen P b []) (data : Win) (hg : data.gen = b0.gen) (ho : data.off = b0.start)
    (hn : data.n = plen) (hp : plen = 241 + optsWidth l.options) :
    ∃ o, serStores l b data fix = .ok o ∧ o.layer = dhcpFixed l fix ∧ o.err = false ∧ Inv o.buf ∧
      contents o.buf = dhcpEncode (dhcpFixed l fix) ++ P := by
  unfold serStores
  obtain ⟨b1, e1, h1⟩ := ser_write h data 0 (u8 l.operation) hg (by omega) (by simp; omega) (by simp; omega)
  rw [e1, Res.bind_ok]
  obtain ⟨b2, e2, h2⟩ := ser_write h1 data 1 (u8 l.hardwareType) hg (by omega) (by simp; omega) (by simp; omega)
  rw [e2, Res.bind_ok]
  obtain ⟨f1, f2, f3, -⟩ := dhcpFixed_fields l fix
  have hl' : (if fix = true then { l with hardwareLen := l.clientHWAddr.length % 256 } else l) = dhcpFixed l fix := rfl
  simp only [hl']
  obtain ⟨o, eo, lo, er, ho'⟩ := serStoresRest_spec (dhcpFixed l fix) (u8 l.operation) (u8 l.hardwareType)
    (by simpa using h2) data hg ho hn (by rw [f1]; exact hp)
  refine ⟨o, eo, lo, er, ho'.inv, ?_⟩
  have hc := ho'.cont
  have hsplit := hdrBytes_split (dhcpFixed l fix)
  rw [f2, f3] at hsplit
  rw [← hsplit] at hc
  have hlen : (hdrBytes (dhcpFixed l fix) ++ optsBytes (dhcpFixed l fix).options ++ [u8 dhcpOptEnd]).length = plen := by
    rw [hsplit]
    simp only [List.length_append, optsBytes_length, f1, List.length_singleton]
    have : ((hdrBytes (dhcpFixed l fix)).drop 2).length = 238 := by
      simp [hdrBytes, putBe32_length, putBe16_length, padTo_length]
    rw [this, hp]; simp; omega
  rw [hlen, Nat.sub_self] at hc
  rw [hc]; rfl

/-- Refinement: on every buffer satisfying the C18 invariant, `DHCPv4.serializeTo` (fixed code)
    returns — never panics — with exactly the receiver / error / bytes of `serSpec`: every requested
    byte is written. -/
theorem serializeTo_refines (l : DHCPv4) (b : SBuf) (fix csum : Bool) (h : Inv b) :
    ∃ o, l.serializeTo .fixed b fix csum = .ok o ∧
      o.layer = (serSpec l (SBuf.contents b) fix).layer ∧ o.err = (serSpec l (SBuf.contents b) fix).err ∧
      ((serSpec l (SBuf.contents b) fix).err = false →
        Inv o.buf ∧ SBuf.contents o.buf = (serSpec l (SBuf.contents b) fix).bytes) := by
  unfold DHCPv4.serializeTo serSpec
  simp only
  cases hbad : serBad l
  · simp only [Bool.false_eq_true, if_false]
    obtain ⟨hl, -⟩ := serBad_false l hbad
    rw [hl]
    simp only
    generalize hplen : 241 + optsWidth l.options = plen
    obtain ⟨hi1, hn, hgen, hoff, hlen, hdrop⟩ := prepend_facts b plen h
    generalize prepend b plen = r at hi1 hn hgen hoff hlen hdrop
    obtain ⟨b1, w⟩ := r
    simp only at hi1 hn hgen hoff hlen hdrop ⊢
    obtain ⟨c, i, s, g⟩ := fill_next b1 hi1 w [] (contents b1) (zeros plen) hgen (by simpa using hoff) rfl
      (by rw [zeros_length]; omega)
    have h0 : SerInv b1 plen (contents b) (fill b1 w (zeros plen)) [] := by
      refine ⟨i, s, g, by simp, ?_⟩
      rw [c, zeros_length, hdrop]; simp
    obtain ⟨o, eo, lo, er, io, co⟩ := serStores_spec l fix h0 w hgen hoff hn hplen.symm
    exact ⟨o, eo, lo, er, fun _ => ⟨io, co⟩⟩
  · simp only [if_true]
    rw [(serBad_true l hbad).1]
    exact ⟨_, rfl, rfl, rfl, fun hh => by cases hh⟩

/-! ## 7. Observable view; spec-level laws -/

theorem serSpec_err_bytes (l : DHCPv4) (p : Bytes) (fix : Bool)
    (h : (serSpec l p fix).err = true) : (serSpec l p fix).bytes = [] := by
  unfold serSpec at h ⊢
  split
  · rfl
  · rename_i h1; rw [if_neg h1] at h; cases h

theorem serView_of_refines {L : Type} (r : Res (SerOut L)) (s : SerSpec L)
    (hs : s.err = true → s.bytes = [])
    (h : ∃ o, r = .ok o ∧ o.layer = s.layer ∧ o.err = s.err ∧ (s.err = false → SBuf.contents o.buf = s.bytes)) :
    serView r = .ok s := by
  obtain ⟨o, ho, hl, he, hb⟩ := h
  rw [ho]
  unfold serView
  simp only
  congr 1
  cases s with
  | mk sl se sb =>
    simp only at hl he hb hs
    cases se
    · simp only [he, hl, hb rfl]; rfl
    · simp only [he, hl, hs rfl]; rfl

theorem dhcp_serView (l : DHCPv4) (b : SBuf) (fix csum : Bool) (h : Inv b) :
    serView (l.serializeTo .fixed b fix csum) = .ok (serSpec l (SBuf.contents b) fix) := by
  obtain ⟨o, ho, hl, he, hb⟩ := serializeTo_refines l b fix csum h
  exact serView_of_refines _ _ (serSpec_err_bytes l _ fix) ⟨o, ho, hl, he, fun x => (hb x).2⟩

theorem dhcpFixed_idem (l : DHCPv4) (fix : Bool) : dhcpFixed (dhcpFixed l fix) fix = dhcpFixed l fix := by
  unfold dhcpFixed; cases fix <;> rfl

theorem serBad_fixed (l : DHCPv4) (fix : Bool) : serBad (dhcpFixed l fix) = serBad l := by
  unfold serBad; rw [(dhcpFixed_fields l fix).1]

/-- Idempotence at the level of the specification, including the error returns. -/
theorem serSpec_idem (l : DHCPv4) (p : Bytes) (fix : Bool) :
    serSpec (serSpec l p fix).layer p fix = serSpec l p fix := by
  unfold serSpec
  cases hb : serBad l
  · simp only [Bool.false_eq_true, if_false, serBad_fixed, hb, dhcpFixed_idem]
  · simp only [if_true, hb]

/-! ## 8. A concrete dirty buffer (used by the counterexample and the non-vacuity examples of C07) -/

/-- a buffer that held 300+300 bytes 0xA5 and was cleared -/
def dirtyBuf : SBuf :=
  clear (step (step (new 0 0) (.append (List.replicate 300 0xA5))) (.prepend (List.replicate 300 0xA5)))

theorem dirtyBuf_inv : Inv dirtyBuf :=
  inv_clear' _ (inv_step' _ _ (inv_step' _ _ (inv_new' 0 0)))

end Gp.Dhcp
