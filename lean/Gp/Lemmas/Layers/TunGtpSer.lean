import Gp.Lemmas.Layers.TunGtp
/-
  Helper lemmas for engine `ltun`, part 6: GTPv1-U, serialize side and round trip.  The pure encoder
  `encode`, the receiver after the call (`mutated`), the refinement theorem `serialize_spec`
  (every PrependBytes window of SerializeTo is written completely; the buffer ends up holding
  `encode l' ++ old contents`), well-formedness and decode ∘ encode.
-/
namespace Gp.Tun.Gtp
open Gp Gp.Tun Gp.SBuf

/-! ### the pure encoder and the mutation of the receiver -/

/-- `nextExtensionHeaderType` after the loop: the type of the first header, 0 without headers. -/
def firstTyp : List Ext → Nat
  | [] => 0
  | e :: _ => e.typ

/-- one extension header: length in 4-byte units, content, type of the NEXT header. -/
def encExt (e : Ext) (next : Nat) : Bytes :=
  [u8 ((e.content.length + 2) / 4)] ++ e.content ++ [u8 next]

def encExts : List Ext → Bytes
  | [] => []
  | e :: es => encExt e (firstTyp es) ++ encExts es

/-- every extension header has a length SerializeTo accepts. -/
def extsOk : List Ext → Bool
  | [] => true
  | e :: es => decide (e.content.length % 4 = 2) && extsOk es

/-- SerializeTo returns an error exactly when some extension header content is not 2 mod 4 long. -/
def serErr (l : Layer) : Bool := !extsOk l.extensionHeaders

def hasOpt (l : Layer) : Bool := l.extensionHeaderFlag || l.sequenceNumberFlag || l.npduFlag

/-- the optional 4 bytes (present when any of the three flags is set). -/
def optPart (l : Layer) : Bytes :=
  if hasOpt l then putBe16 l.sequenceNumber ++ [u8 l.npdu] ++ [u8 (firstTyp l.extensionHeaders)] else []

/-- the receiver after SerializeTo over the payload `P`. -/
def mutated (l : Layer) (opts : Opts) (P : Bytes) : Layer :=
  if serErr l then withFlag l
  else fixML (withFlag l) opts.fixLengths (optPart (withFlag l) ++ encExts l.extensionHeaders ++ P).length

/-- the GTPv1-U header of `l` (as it stands). -/
def encode (l : Layer) : Bytes :=
  [byte0 l] ++ [u8 l.messageType] ++ putBe16 l.messageLength ++ putBe32 l.teid
    ++ optPart l ++ encExts l.extensionHeaders

theorem encExt_length (e : Ext) (n : Nat) : (encExt e n).length = e.content.length + 2 := by
  simp only [encExt, List.length_append, List.length_cons, List.length_nil]; omega

theorem encExts_length (es : List Ext) : (encExts es).length = chainSize es := by
  induction es with
  | nil => rfl
  | cons e es ih => simp only [encExts, chainSize, List.length_append, encExt_length, ih]

/-! ### the extension header loop: one complete window per header -/

/-- the loop returns the error flag `!extsOk`; without error it leaves `encExts es ++ old contents`
    and `next = firstTyp es`. -/
theorem putExts_spec : ∀ (es : List Ext) (b : SBuf), Gp.C18.Inv b →
    ∃ r, putExts b es = .ok r ∧ Gp.C18.Inv r.b ∧ r.err = !extsOk es ∧
      (extsOk es = true → r.next = firstTyp es ∧ contents r.b = encExts es ++ contents b) := by
  intro es
  induction es with
  | nil => intro b hb; exact ⟨_, rfl, hb, rfl, fun _ => ⟨rfl, rfl⟩⟩
  | cons e es ih =>
    intro b hb
    obtain ⟨r, hr, hIr, herr, hok⟩ := ih b hb
    rw [putExts, hr]
    simp only [Res.bind_ok]
    by_cases hes : extsOk es = true
    · have hre : r.err = false := by rw [herr, hes]; rfl
      obtain ⟨hnext, hcont⟩ := hok hes
      rw [hre]
      simp only [Bool.false_eq_true, if_false]
      by_cases hlen : e.content.length % 4 = 2
      · rw [if_neg (by omega)]
        generalize hn : e.content.length + 2 = n
        have hm := prepend_win_in_mem r.b n hIr
        have hwn : (prepend r.b n).2.n = n := rfl
        obtain ⟨c1, e1, w1⟩ := put_wrote _ _ _ [] [u8 (n / 4)]
          (wrote_init (prepend r.b n).1 (prepend r.b n).2) (by rw [hwn]; simp; omega) hm
        obtain ⟨c2, e2, w2⟩ := put_wrote _ _ c1 _ (e.content.take e.content.length) w1
          (by rw [hwn]; simp; omega) hm
        obtain ⟨c3, e3, w3⟩ := put_wrote _ _ c2 _ [u8 r.next] w2 (by rw [hwn]; simp; omega) hm
        simp only [e1, e2, e3, Res.bind_ok]
        have hW : [] ++ [u8 (n / 4)] ++ e.content.take e.content.length ++ [u8 r.next]
            = encExt e (firstTyp es) := by
          simp only [encExt, List.take_length, List.nil_append, hn, hnext]
        rw [hW] at w3
        have hall := wrote_all r.b n c3 _ w3 (by rw [encExt_length]; exact hn)
        have hsp := step_prepend_spec r.b (encExt e (firstTyp es)) hIr
        refine ⟨_, rfl, ?_, ?_, ?_⟩
        · show Gp.C18.Inv c3.b
          rw [hall]; exact hsp.1
        · simp [extsOk, hlen, hes]
        · intro _
          refine ⟨rfl, ?_⟩
          show contents c3.b = _
          rw [hall, hsp.2, hcont]
          simp only [encExts, List.append_assoc]
      · rw [if_pos hlen]
        refine ⟨_, rfl, hIr, ?_, ?_⟩
        · simp [extsOk, hlen]
        · intro h; simp [extsOk, hlen] at h
    · have hes' : extsOk es = false := by simpa using hes
      have hre : r.err = true := by rw [herr, hes']; rfl
      rw [hre]
      simp only [if_true]
      refine ⟨r, rfl, hIr, ?_, ?_⟩
      · rw [hre]; simp [extsOk, hes']
      · intro h; simp [extsOk, hes'] at h

/-! ### refinement of SerializeTo -/

theorem optPart_length_le (l : Layer) : (optPart l).length ≤ 4 := by
  unfold optPart; split <;> simp [putBe16_length]

/-- **SerializeTo computes the pure encoder**: for every layer value, every option set and every
    buffer satisfying the C18 invariant the call does not panic, leaves the receiver as `mutated`
    describes, returns the error exactly when an extension header has an unacceptable length, and
    otherwise has written EVERY byte of every window it requested: the buffer holds
    `encode (mutated l …) ++ old contents`. -/
theorem serialize_spec (l : Layer) (b : SBuf) (opts : Opts) (hb : Gp.C18.Inv b) :
    ∃ b', serializeTo l b opts = .ok { buf := b', layer := mutated l opts (contents b), err := serErr l } ∧
      Gp.C18.Inv b' ∧
      (serErr l = false → contents b' = encode (mutated l opts (contents b)) ++ contents b) := by
  obtain ⟨r, hr, hIr, herr, hok⟩ := putExts_spec l.extensionHeaders b hb
  unfold serializeTo
  dsimp only
  have hexts : (withFlag l).extensionHeaders = l.extensionHeaders := rfl
  rw [hexts, hr]
  simp only [Res.bind_ok]
  by_cases hes : extsOk l.extensionHeaders = true
  · have hre : r.err = false := by rw [herr, hes]; rfl
    have hse : serErr l = false := by unfold serErr; rw [hes]; rfl
    obtain ⟨hnext, hcont⟩ := hok hes
    rw [hre]
    simp only [Bool.false_eq_true, if_false]
    -- the optional four bytes
    have hopt : ∃ b2, (if ((withFlag l).extensionHeaderFlag || (withFlag l).sequenceNumberFlag || (withFlag l).npduFlag) = true then
          (put (prepend r.b 4).2 { b := (prepend r.b 4).1, off := 0 } (putBe16 (withFlag l).sequenceNumber) >>= fun c =>
            put (prepend r.b 4).2 c [u8 (withFlag l).npdu] >>= fun c =>
            put (prepend r.b 4).2 c [u8 r.next] >>= fun c => pure c.b)
          else pure r.b) = Res.ok b2 ∧ Gp.C18.Inv b2 ∧
        contents b2 = optPart (withFlag l) ++ encExts l.extensionHeaders ++ contents b := by
      by_cases ho : hasOpt (withFlag l) = true
      · have ho' : ((withFlag l).extensionHeaderFlag || (withFlag l).sequenceNumberFlag || (withFlag l).npduFlag) = true := ho
        rw [if_pos ho']
        have hm := prepend_win_in_mem r.b 4 hIr
        have hwn : (prepend r.b 4).2.n = 4 := rfl
        obtain ⟨c1, e1, w1⟩ := put_wrote _ _ _ [] (putBe16 (withFlag l).sequenceNumber)
          (wrote_init (prepend r.b 4).1 (prepend r.b 4).2) (by rw [hwn]; simp [putBe16_length]) hm
        obtain ⟨c2, e2, w2⟩ := put_wrote _ _ c1 _ [u8 (withFlag l).npdu] w1 (by rw [hwn]; simp [putBe16_length]) hm
        obtain ⟨c3, e3, w3⟩ := put_wrote _ _ c2 _ [u8 r.next] w2 (by rw [hwn]; simp [putBe16_length]) hm
        simp only [e1, e2, e3, Res.bind_ok]
        have hW : [] ++ putBe16 (withFlag l).sequenceNumber ++ [u8 (withFlag l).npdu] ++ [u8 r.next]
            = optPart (withFlag l) := by
          unfold optPart; rw [if_pos ho, hnext]; rfl
        rw [hW] at w3
        have hall := wrote_all r.b 4 c3 _ w3 (by unfold optPart; rw [if_pos ho]; simp [putBe16_length])
        have hsp := step_prepend_spec r.b (optPart (withFlag l)) hIr
        refine ⟨c3.b, rfl, ?_, ?_⟩
        · rw [hall]; exact hsp.1
        · rw [hall, hsp.2, hcont, List.append_assoc]
      · have ho' : ((withFlag l).extensionHeaderFlag || (withFlag l).sequenceNumberFlag || (withFlag l).npduFlag) = false := by
          simpa [hasOpt] using ho
        rw [ho']
        simp only [Bool.false_eq_true, if_false]
        refine ⟨r.b, rfl, hIr, ?_⟩
        have : optPart (withFlag l) = [] := by
          unfold optPart; rw [if_neg ho]
        rw [this, hcont]; rfl
    obtain ⟨b2, hb2, hIb2, hcb2⟩ := hopt
    rw [hb2]
    simp only [Res.bind_ok]
    -- the receiver after FixLengths
    have hmut : fixML (withFlag l) opts.fixLengths (contents b2).length = mutated l opts (contents b) := by
      unfold mutated
      rw [hse, hcb2]
      simp only [Bool.false_eq_true, if_false]
    rw [hmut]
    generalize mutated l opts (contents b) = l' at hmut ⊢
    have hoptl' : optPart l' = optPart (withFlag l) ∧ l'.extensionHeaders = l.extensionHeaders := by
      rw [← hmut]; unfold fixML; split <;> exact ⟨rfl, rfl⟩
    -- the fixed eight bytes
    simp only [Gp.Gen.Tun.gtpMinimumSizeInBytes]
    have hm := prepend_win_in_mem b2 8 hIb2
    have hwn : (prepend b2 8).2.n = 8 := rfl
    obtain ⟨c1, e1, w1⟩ := put_wrote _ _ _ [] [byte0 l']
      (wrote_init (prepend b2 8).1 (prepend b2 8).2) (by rw [hwn]; simp) hm
    obtain ⟨c2, e2, w2⟩ := put_wrote _ _ c1 _ [u8 l'.messageType] w1 (by rw [hwn]; simp) hm
    obtain ⟨c3, e3, w3⟩ := put_wrote _ _ c2 _ (putBe16 l'.messageLength) w2 (by rw [hwn]; simp [putBe16_length]) hm
    obtain ⟨c4, e4, w4⟩ := put_wrote _ _ c3 _ (putBe32 l'.teid) w3
      (by rw [hwn]; simp [putBe16_length, putBe32_length]) hm
    simp only [e1, e2, e3, e4, Res.bind_ok]
    have hall := wrote_all b2 8 c4 _ w4 (by simp [putBe16_length, putBe32_length])
    have hsp := step_prepend_spec b2 ([] ++ [byte0 l'] ++ [u8 l'.messageType] ++ putBe16 l'.messageLength ++ putBe32 l'.teid) hIb2
    refine ⟨c4.b, ?_, ?_, ?_⟩
    · rw [hse]; rfl
    · rw [hall]; exact hsp.1
    · intro _
      rw [hall, hsp.2, hcb2]
      unfold encode
      rw [hoptl'.1, hoptl'.2]
      simp only [List.nil_append, List.append_assoc]
  · have hes' : extsOk l.extensionHeaders = false := by simpa using hes
    have hre : r.err = true := by rw [herr, hes']; rfl
    have hse : serErr l = true := by unfold serErr; rw [hes']; rfl
    rw [hre]
    simp only [if_true]
    refine ⟨r.b, ?_, hIr, ?_⟩
    · unfold mutated; rw [hse]; rfl
    · intro h; rw [hse] at h; cases h

/-! ### algebra of `mutated` -/

theorem withFlag_idem (l : Layer) : withFlag (withFlag l) = withFlag l := by
  unfold withFlag
  cases l.extensionHeaderFlag <;> cases l.extensionHeaders.isEmpty <;> rfl

theorem serErr_mutated (l : Layer) (opts : Opts) (P : Bytes) : serErr (mutated l opts P) = serErr l := by
  unfold mutated fixML
  split
  · rfl
  · split <;> rfl

theorem withFlag_fixML (l : Layer) (fix : Bool) (n : Nat) :
    withFlag (fixML (withFlag l) fix n) = fixML (withFlag l) fix n := by
  cases fix with
  | false => exact withFlag_idem l
  | true =>
    simp only [fixML, withFlag, if_true, Bool.or_assoc, Bool.or_self]

theorem optPart_fixML (l : Layer) (fix : Bool) (n : Nat) : optPart (fixML l fix n) = optPart l := by
  unfold fixML; cases fix <;> rfl

theorem fixML_idem (l : Layer) (fix : Bool) (n : Nat) : fixML (fixML l fix n) fix n = fixML l fix n := by
  unfold fixML; cases fix <;> rfl

theorem exts_fixML (l : Layer) (fix : Bool) (n : Nat) : (fixML l fix n).extensionHeaders = l.extensionHeaders := by
  unfold fixML; cases fix <;> rfl

/-- serializing the mutated layer over the same payload mutates nothing further. -/
theorem mutated_idem (l : Layer) (opts : Opts) (P : Bytes) :
    mutated (mutated l opts P) opts P = mutated l opts P := by
  have hs := serErr_mutated l opts P
  by_cases h : serErr l = true
  · have : mutated l opts P = withFlag l := by unfold mutated; rw [if_pos h]
    rw [this] at hs ⊢
    unfold mutated
    rw [if_pos (by rw [hs]; exact h), withFlag_idem]
  · have h' : serErr l = false := by simpa using h
    have hm : mutated l opts P = fixML (withFlag l) opts.fixLengths
        (optPart (withFlag l) ++ encExts l.extensionHeaders ++ P).length := by
      unfold mutated; rw [h']; rfl
    rw [hm] at hs ⊢
    unfold mutated
    rw [hs, h']
    simp only [Bool.false_eq_true, if_false]
    have hx : (withFlag l).extensionHeaders = l.extensionHeaders := rfl
    rw [withFlag_fixML, optPart_fixML, exts_fixML, hx, fixML_idem]

/-- Contents/Payload of the receiver are not consulted. -/
theorem encode_mutated_base (l : Layer) (c p : Bytes) (opts : Opts) (P : Bytes) :
    encode (mutated { l with contents := c, payload := p } opts P) = encode (mutated l opts P) := by
  unfold mutated serErr fixML
  simp only
  split
  · rfl
  · split <;> rfl

/-! ### well-formed layers, field equivalence -/

/-- in-range extension header: 8-bit non-zero type (0 means "no more headers" on the wire), content
    length 2 mod 4 and at most 1018 (the length byte counts 4-byte units). -/
def wfExt (e : Ext) : Prop :=
  e.typ < 256 ∧ e.typ ≠ 0 ∧ e.content.length % 4 = 2 ∧ e.content.length ≤ 1018

instance (e : Ext) : Decidable (wfExt e) := by unfold wfExt; infer_instance

/-- in-range field values, EXCEPT the two bits SerializeTo does not honour: every field fits its wire
    width, a field whose flag is clear is zero. (MessageLength is not constrained: FixLengths
    computes it.) -/
def wfCore (l : Layer) : Prop :=
  l.version < 8 ∧ l.messageType < 256 ∧ l.teid < 4294967296 ∧
  l.sequenceNumber < 65536 ∧ l.npdu < 256 ∧
  (l.sequenceNumberFlag = false → l.sequenceNumber = 0) ∧ (l.npduFlag = false → l.npdu = 0) ∧
  ∀ e ∈ l.extensionHeaders, wfExt e

instance (l : Layer) : Decidable (wfCore l) := by unfold wfCore; infer_instance

/-- well-formed: in range, and the protocol type / reserved bits have the only values SerializeTo
    can write (GTP, not GTP'; spare bit 0). -/
def wf (l : Layer) : Prop := wfCore l ∧ l.protocolType = 1 ∧ l.reserved = 0

instance (l : Layer) : Decidable (wf l) := by unfold wf; infer_instance

/-- `≈`: every public field except BaseLayer's Contents/Payload; extension headers in order. -/
def sameFields (a b : Layer) : Prop :=
  a.version = b.version ∧ a.protocolType = b.protocolType ∧ a.reserved = b.reserved ∧
  a.extensionHeaderFlag = b.extensionHeaderFlag ∧ a.sequenceNumberFlag = b.sequenceNumberFlag ∧
  a.npduFlag = b.npduFlag ∧ a.messageType = b.messageType ∧ a.messageLength = b.messageLength ∧
  a.teid = b.teid ∧ a.sequenceNumber = b.sequenceNumber ∧ a.npdu = b.npdu ∧
  a.extensionHeaders = b.extensionHeaders

instance (a b : Layer) : Decidable (sameFields a b) := by unfold sameFields; infer_instance

/-- the layer as SerializeTo leaves it on the wire: protocol type 1, reserved 0. -/
def asWritten (l : Layer) : Layer := { l with protocolType := 1, reserved := 0 }

/-- what both SerializeTo (on a wfCore layer) and DecodeFromBytes leave: the E flag is set when
    there are headers, the message length fits 16 bits. -/
def consistent (l : Layer) : Prop :=
  (l.extensionHeaders ≠ [] → l.extensionHeaderFlag = true) ∧ l.messageLength < 65536

/-! ### decode ∘ encode -/

theorem byte0_bits : ∀ v, v < 8 → ∀ (e s pn : Bool),
    (((((v % 256) <<< 5) % 256 ||| 0x10 ||| (if e then 0x04 else 0) ||| (if s then 0x02 else 0) ||| (if pn then 0x01 else 0)) % 256) >>> 5) &&& 0x07 = v ∧
    (((((v % 256) <<< 5) % 256 ||| 0x10 ||| (if e then 0x04 else 0) ||| (if s then 0x02 else 0) ||| (if pn then 0x01 else 0)) % 256) >>> 4) &&& 0x01 = 1 ∧
    (((((v % 256) <<< 5) % 256 ||| 0x10 ||| (if e then 0x04 else 0) ||| (if s then 0x02 else 0) ||| (if pn then 0x01 else 0)) % 256) >>> 3) &&& 0x01 = 0 ∧
    decide ((((((v % 256) <<< 5) % 256 ||| 0x10 ||| (if e then 0x04 else 0) ||| (if s then 0x02 else 0) ||| (if pn then 0x01 else 0)) % 256) >>> 1) &&& 0x01 = 1) = s ∧
    decide (((((v % 256) <<< 5) % 256 ||| 0x10 ||| (if e then 0x04 else 0) ||| (if s then 0x02 else 0) ||| (if pn then 0x01 else 0)) % 256) &&& 0x01 = 1) = pn ∧
    decide ((((((v % 256) <<< 5) % 256 ||| 0x10 ||| (if e then 0x04 else 0) ||| (if s then 0x02 else 0) ||| (if pn then 0x01 else 0)) % 256) >>> 2) &&& 0x01 = 1) = e := by
  decide

theorem chainSize_ge_length (es : List Ext) : es.length ≤ chainSize es := by
  induction es with
  | nil => exact Nat.le_refl _
  | cons e es ih => simp only [chainSize, List.length_cons]; omega

theorem firstTyp_pos (es : List Ext) (h : ∀ e ∈ es, wfExt e) (hne : es ≠ []) :
    firstTyp es ≠ 0 ∧ firstTyp es < 256 := by
  cases es with
  | nil => exact absurd rfl hne
  | cons e es => exact ⟨(h e (List.mem_cons_self ..)).2.1, (h e (List.mem_cons_self ..)).1⟩

/-- the specification reads back a whole in-range header chain, over any payload. -/
theorem specExts_encExts : ∀ (es : List Ext) (fuel : Nat) (P : Bytes), es ≠ [] → (∀ e ∈ es, wfExt e) →
    es.length ≤ fuel →
    specExts fuel (u8 (firstTyp es) :: (encExts es ++ P)) = .ok (es, chainSize es) := by
  intro es
  induction es with
  | nil => intro fuel P hne; exact absurd rfl hne
  | cons e es ih =>
    intro fuel P _ hwf hfuel
    cases fuel with
    | zero => simp at hfuel
    | succ fuel =>
      obtain ⟨ht, _, h4, h1018⟩ := hwf e (List.mem_cons_self ..)
      obtain ⟨k, hk⟩ : ∃ k, e.content.length = 4 * k + 2 := ⟨e.content.length / 4, by omega⟩
      have hview : u8 (firstTyp (e :: es)) :: (encExts (e :: es) ++ P)
          = u8 e.typ :: u8 (k + 1) :: (e.content ++ (u8 (firstTyp es) :: (encExts es ++ P))) := by
        have : (e.content.length + 2) / 4 = k + 1 := by omega
        simp only [firstTyp, encExts, encExt, this, List.append_assoc, List.cons_append, List.nil_append]
      rw [hview, specExts]
      have hln : (u8 (k + 1)).toNat = k + 1 := by rw [u8_toNat]; omega
      rw [hln]
      rw [if_neg (by omega), if_neg (by simp only [List.length_append, List.length_cons]; omega)]
      have hdrop : List.drop ((k + 1) * 4 - 2) (e.content ++ (u8 (firstTyp es) :: (encExts es ++ P)))
          = u8 (firstTyp es) :: (encExts es ++ P) := by
        have : (k + 1) * 4 - 2 = e.content.length := by omega
        rw [this, List.drop_left' rfl]
      have htake : List.take ((k + 1) * 4 - 2) (e.content ++ (u8 (firstTyp es) :: (encExts es ++ P)))
          = e.content := by
        have : (k + 1) * 4 - 2 = e.content.length := by omega
        rw [this, List.take_left' rfl]
      rw [hdrop]
      simp only [htake, u8_toNat, Nat.mod_eq_of_lt ht]
      cases es with
      | nil =>
        simp only [firstTyp, Nat.zero_mod, ne_eq, not_true_eq_false, if_false, chainSize]
        congr 2
        omega
      | cons e' es' =>
        have hwf' : ∀ x ∈ e' :: es', wfExt x := fun x hx => hwf x (List.mem_cons_of_mem _ hx)
        obtain ⟨hnz, hlt⟩ := firstTyp_pos (e' :: es') hwf' (by simp)
        have hmod : firstTyp (e' :: es') % 256 = firstTyp (e' :: es') := Nat.mod_eq_of_lt hlt
        rw [hmod, if_pos hnz]
        rw [ih fuel P (by simp) hwf' (by simp only [List.length_cons] at hfuel ⊢; omega)]
        simp only [chainSize]
        congr 2
        omega

/-- **decode ∘ encode**: a wfCore, consistent layer whose MessageLength does not exceed what follows
    the fixed header comes back — over any payload — exactly as written: with protocol type 1 and
    reserved 0. -/
theorem spec_encode (l : Layer) (P : Bytes) (h : wfCore l) (hc : consistent l)
    (hml : l.messageLength ≤ (optPart l ++ encExts l.extensionHeaders ++ P).length) :
    spec (encode l ++ P) = .ok ({ asWritten l with contents := encode l, payload := P }, false) := by
  obtain ⟨hv, hmt, hteid, hseq, hnp, hs0, hn0, hexts⟩ := h
  obtain ⟨hflag, hml16⟩ := hc
  have e : encode l ++ P = byte0 l :: u8 l.messageType :: u8 (l.messageLength / 256) :: u8 l.messageLength ::
      u8 (l.teid / 16777216) :: u8 (l.teid / 65536) :: u8 (l.teid / 256) :: u8 l.teid ::
      (optPart l ++ encExts l.extensionHeaders ++ P) := by
    simp only [encode, putBe16, putBe32, List.append_assoc]
    rfl
  have hb0 : (byte0 l).toNat = (((l.version % 256) <<< 5) % 256 ||| 0x10 ||| (if l.extensionHeaderFlag then 0x04 else 0)
      ||| (if l.sequenceNumberFlag then 0x02 else 0) ||| (if l.npduFlag then 0x01 else 0)) % 256 := by
    unfold byte0; rw [u8_toNat]
  obtain ⟨b1, b2, b3, b4, b5, b6⟩ := byte0_bits l.version hv l.extensionHeaderFlag l.sequenceNumberFlag l.npduFlag
  rw [e]
  simp only [spec]
  rw [hb0, b1, b2, b3, b4, b5, b6, be16_putBe16 _ hml16, be32_putBe32 _ hteid, u8_toNat, Nat.mod_eq_of_lt hmt]
  rw [if_neg (by omega)]
  by_cases ho : hasOpt l = true
  · have ho' : (l.sequenceNumberFlag || l.npduFlag || l.extensionHeaderFlag) = true := by
      unfold hasOpt at ho
      revert ho
      cases l.extensionHeaderFlag <;> cases l.sequenceNumberFlag <;> cases l.npduFlag <;> decide
    rw [if_pos ho']
    have hopt : optPart l ++ encExts l.extensionHeaders ++ P
        = u8 (l.sequenceNumber / 256) :: u8 l.sequenceNumber :: u8 l.npdu ::
          u8 (firstTyp l.extensionHeaders) :: (encExts l.extensionHeaders ++ P) := by
      unfold optPart; rw [if_pos ho]; rfl
    rw [hopt]
    simp only
    have hspecE : specOptExts l.extensionHeaderFlag
        ((u8 (l.sequenceNumber / 256) :: u8 l.sequenceNumber :: u8 l.npdu ::
          u8 (firstTyp l.extensionHeaders) :: (encExts l.extensionHeaders ++ P)).length + 8)
        (u8 (firstTyp l.extensionHeaders)) (encExts l.extensionHeaders ++ P)
        = .ok (l.extensionHeaders, chainSize l.extensionHeaders) := by
      unfold specOptExts
      by_cases hnil : l.extensionHeaders = []
      · rw [hnil]
        simp only [firstTyp, chainSize]
        cases l.extensionHeaderFlag <;> rfl
      · rw [hflag hnil]
        obtain ⟨hnz, hlt⟩ := firstTyp_pos l.extensionHeaders hexts hnil
        simp only [if_true, u8_toNat, Nat.mod_eq_of_lt hlt]
        rw [if_neg (by simpa using hnz)]
        apply specExts_encExts _ _ _ hnil hexts
        have := chainSize_ge_length l.extensionHeaders
        simp only [List.length_cons, List.length_append, encExts_length]
        omega
    rw [hspecE]
    simp only
    have hseq' : (if l.sequenceNumberFlag = true then be16 (u8 (l.sequenceNumber / 256)) (u8 l.sequenceNumber) else 0)
        = l.sequenceNumber := by
      cases hsf : l.sequenceNumberFlag with
      | true => simp only [if_true]; exact be16_putBe16 _ hseq
      | false => simp only [Bool.false_eq_true, if_false]; exact (hs0 hsf).symm
    have hnp' : (if l.npduFlag = true then (u8 l.npdu).toNat else 0) = l.npdu := by
      cases hpf : l.npduFlag with
      | true => simp only [if_true]; rw [u8_toNat]; exact Nat.mod_eq_of_lt hnp
      | false => simp only [Bool.false_eq_true, if_false]; exact (hn0 hpf).symm
    rw [hseq', hnp']
    have hdrop : List.drop (chainSize l.extensionHeaders) (encExts l.extensionHeaders ++ P) = P := by
      rw [← encExts_length, List.drop_left' rfl]
    rw [hdrop, ← hopt, ← e]
    have htake : List.take (12 + chainSize l.extensionHeaders) (encode l ++ P) = encode l := by
      have : (encode l).length = 12 + chainSize l.extensionHeaders := by
        unfold encode optPart
        rw [if_pos ho]
        simp only [List.length_append, List.length_cons, List.length_nil, putBe16_length, putBe32_length,
          encExts_length]
      rw [← this, List.take_left' rfl]
    rw [htake]
    rfl
  · have ho2 : hasOpt l = false := by simpa using ho
    have hE : l.extensionHeaderFlag = false ∧ l.sequenceNumberFlag = false ∧ l.npduFlag = false := by
      unfold hasOpt at ho2
      revert ho2
      cases l.extensionHeaderFlag <;> cases l.sequenceNumberFlag <;> cases l.npduFlag <;> decide
    have hnil : l.extensionHeaders = [] := by
      cases hx : l.extensionHeaders with
      | nil => rfl
      | cons a as =>
        have := hflag (by rw [hx]; simp)
        rw [hE.1] at this; cases this
    have ho' : (l.sequenceNumberFlag || l.npduFlag || l.extensionHeaderFlag) = false := by
      rw [hE.1, hE.2.1, hE.2.2]; rfl
    rw [ho']
    simp only [Bool.false_eq_true, if_false]
    have hopt : optPart l = [] := by unfold optPart; rw [if_neg ho]
    have henc : encode l = [byte0 l, u8 l.messageType, u8 (l.messageLength / 256), u8 l.messageLength,
        u8 (l.teid / 16777216), u8 (l.teid / 65536), u8 (l.teid / 256), u8 l.teid] := by
      unfold encode; rw [hopt, hnil]; rfl
    rw [hopt, hnil, henc]
    simp only [encExts, List.nil_append, List.append_nil]
    have h1 := hs0 hE.2.1
    have h2 := hn0 hE.2.2
    simp only [asWritten]
    congr 2
    cases l
    simp_all

/-! ### what the decoder produces -/

theorem and7_lt (n : Nat) : n &&& 0x07 < 8 := by
  have : n &&& 0x07 ≤ 7 := Nat.and_le_right
  omega

theorem and1_le (n : Nat) : n &&& 0x01 ≤ 1 := Nat.and_le_right

theorem extOk_wfExt_of_chain : ∀ (es : List Ext), (∀ e ∈ es, ExtOk e) → tailTypesNonzero es →
    ∀ e ∈ es.tail, wfExt e := by
  intro es
  induction es with
  | nil => intro _ _ e he; cases he
  | cons a as ih =>
    intro hok htl e he
    cases as with
    | nil => cases he
    | cons b bs =>
      simp only [tailTypesNonzero] at htl
      simp only [List.tail_cons] at he
      rcases List.mem_cons.mp he with he | he
      · subst he
        obtain ⟨h1, h2, h3⟩ := hok e (List.mem_cons_of_mem _ (List.mem_cons_self ..))
        exact ⟨h1, htl.1, h2, h3⟩
      · exact ih (fun x hx => hok x (List.mem_cons_of_mem _ hx)) htl.2 e (by simpa using he)

/-- every layer the specification produces is wfCore and consistent, is not flagged truncated,
    partitions its input, and carries the two unhonoured bits of the first byte. -/
theorem spec_wfCore (data : Bytes) (l : Layer) (t : Bool) (h : spec data = .ok (l, t)) :
    wfCore l ∧ consistent l ∧ t = false ∧ l.contents ++ l.payload = data ∧ 8 ≤ l.contents.length ∧
    l.protocolType ≤ 1 ∧ l.reserved ≤ 1 ∧
    (∀ d0 rest, data = d0 :: rest → l.protocolType = (d0.toNat >>> 4) &&& 0x01 ∧ l.reserved = (d0.toNat >>> 3) &&& 0x01) := by
  match data, h with
  | d0 :: d1 :: m0 :: m1 :: t0 :: t1 :: t2 :: t3 :: r0, h =>
    simp only [spec] at h
    split at h
    · cases h
    · split at h
      · rename_i hopt
        match r0, h with
        | s0 :: s1 :: n :: x :: r1, h =>
          simp only at h
          cases hs : specOptExts (decide ((d0.toNat >>> 2) &&& 0x01 = 1)) ((s0 :: s1 :: n :: x :: r1).length + 8) x r1 with
          | panic k => rw [hs] at h; cases h
          | err e => rw [hs] at h; cases h
          | ok y =>
            obtain ⟨es, m⟩ := y
            rw [hs] at h
            simp only [Res.ok.injEq, Prod.mk.injEq] at h
            obtain ⟨hl, ht⟩ := h
            -- facts about the chain
            have hch : (∀ e ∈ es, wfExt e) ∧ (es ≠ [] → decide ((d0.toNat >>> 2) &&& 0x01 = 1) = true) ∧
                m ≤ r1.length := by
              unfold specOptExts at hs
              split at hs
              · rename_i hE
                split at hs
                · simp only [Res.ok.injEq, Prod.mk.injEq] at hs
                  obtain ⟨h1, h2⟩ := hs
                  subst h1 h2
                  exact ⟨(fun e he => nomatch he), (fun hne => absurd rfl hne), by omega⟩
                · rename_i hx
                  obtain ⟨hne, hhead, hall, htl, hm, hml, _⟩ := specExts_ok _ _ _ _ hs
                  refine ⟨?_, fun _ => hE, by simp only [List.length_cons] at hml; omega⟩
                  intro e he
                  cases es with
                  | nil => cases he
                  | cons a as =>
                    rcases List.mem_cons.mp he with he | he
                    · subst he
                      obtain ⟨h1, h2, h3⟩ := hall e (List.mem_cons_self ..)
                      have hty : e.typ = x.toNat := by simpa [headTyp] using hhead
                      refine ⟨h1, ?_, h2, h3⟩
                      rw [hty]
                      intro h0
                      exact hx (by simp [h0])
                    · exact extOk_wfExt_of_chain (a :: as) hall htl e (by simpa using he)
              · simp only [Res.ok.injEq, Prod.mk.injEq] at hs
                obtain ⟨h1, h2⟩ := hs
                subst h1 h2
                exact ⟨(fun e he => nomatch he), (fun hne => absurd rfl hne), by omega⟩
            obtain ⟨hwfe, hEflag, hmr⟩ := hch
            subst hl
            refine ⟨⟨and7_lt _, d1.toNat_lt, be32_lt t0 t1 t2 t3, ?_, ?_, ?_, ?_, hwfe⟩,
              ⟨hEflag, be16_lt m0 m1⟩, ht.symm, ?_, ?_, and1_le _, and1_le _, ?_⟩
            · show (if _ then be16 s0 s1 else 0) < 65536
              split
              · exact be16_lt s0 s1
              · omega
            · show (if _ then n.toNat else 0) < 256
              split
              · exact n.toNat_lt
              · omega
            · intro hf
              show (if _ then be16 s0 s1 else 0) = 0
              rw [if_neg (by simpa using hf)]
            · intro hf
              show (if _ then n.toNat else 0) = 0
              rw [if_neg (by simpa using hf)]
            · show List.take (12 + m) (d0 :: d1 :: m0 :: m1 :: t0 :: t1 :: t2 :: t3 :: s0 :: s1 :: n :: x :: r1)
                  ++ List.drop m r1 = _
              have : List.drop m r1 = List.drop (12 + m)
                  (d0 :: d1 :: m0 :: m1 :: t0 :: t1 :: t2 :: t3 :: s0 :: s1 :: n :: x :: r1) := by
                rw [Nat.add_comm]; rfl
              rw [this, List.take_append_drop]
            · show 8 ≤ (List.take (12 + m) (d0 :: d1 :: m0 :: m1 :: t0 :: t1 :: t2 :: t3 :: s0 :: s1 :: n :: x :: r1)).length
              rw [List.length_take]
              simp only [List.length_cons]
              omega
            · intro d0' rest hd
              simp only [List.cons.injEq] at hd
              rw [← hd.1]
              exact ⟨rfl, rfl⟩
        | [], h => simp at h; cases h
        | [_], h => simp at h; cases h
        | [_, _], h => simp at h; cases h
        | [_, _, _], h => simp at h; cases h
      · simp only [Res.ok.injEq, Prod.mk.injEq] at h
        obtain ⟨hl, ht⟩ := h
        subst hl
        refine ⟨⟨and7_lt _, d1.toNat_lt, be32_lt t0 t1 t2 t3, (by show 0 < 65536; omega), (by show 0 < 256; omega),
          fun _ => rfl, fun _ => rfl, (fun e he => nomatch he)⟩,
          ⟨fun hne => absurd rfl hne, be16_lt m0 m1⟩, ht.symm, rfl, (by show 8 ≤ 8; omega),
          and1_le _, and1_le _, ?_⟩
        intro d0' rest hd
        simp only [List.cons.injEq] at hd
        rw [← hd.1]
        exact ⟨rfl, rfl⟩

end Gp.Tun.Gtp
