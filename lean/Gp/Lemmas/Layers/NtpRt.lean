import Gp.Lemmas.Layers.NtpSer
/-
  Helper lemmas for engine `lntp`, part 3: well-formedness, ≈, and decode ∘ encode for NTP.
  Core Lean only.

  Section 1 holds the *definitions* used in property statements.
-/
namespace Gp.Ntp
open Gp Gp.SBuf Gp.C18 Gp.Gen.Ntp

/-! ## 1. Definitions used in property statements -/

/-- In-range NTP field values: the widths of the three bit fields (LI 2 bits, VN 3 bits, Mode 3 bits)
    and the ranges of the Go field types (uint8 Stratum, int8 Poll/Precision, uint32, uint64).
    ExtensionBytes are arbitrary. -/
def wfNtp (l : NTP) : Prop :=
  l.leapIndicator ≤ 3 ∧ l.version ≤ 7 ∧ l.mode ≤ 7 ∧ l.stratum < 256 ∧
  (-128 ≤ l.poll ∧ l.poll ≤ 127) ∧ (-128 ≤ l.precision ∧ l.precision ≤ 127) ∧
  l.rootDelay < 4294967296 ∧ l.rootDispersion < 4294967296 ∧ l.referenceID < 4294967296 ∧
  l.referenceTimestamp < 18446744073709551616 ∧ l.originTimestamp < 18446744073709551616 ∧
  l.receiveTimestamp < 18446744073709551616 ∧ l.transmitTimestamp < 18446744073709551616

/-- Field equivalence `≈` for NTP: the thirteen header fields (ignores BaseLayer.Contents/Payload
    and ExtensionBytes, which is compared separately because it absorbs a payload). -/
def NtpHdrEquiv (a b : NTP) : Prop :=
  a.leapIndicator = b.leapIndicator ∧ a.version = b.version ∧ a.mode = b.mode ∧ a.stratum = b.stratum ∧
  a.poll = b.poll ∧ a.precision = b.precision ∧ a.rootDelay = b.rootDelay ∧
  a.rootDispersion = b.rootDispersion ∧ a.referenceID = b.referenceID ∧
  a.referenceTimestamp = b.referenceTimestamp ∧ a.originTimestamp = b.originTimestamp ∧
  a.receiveTimestamp = b.receiveTimestamp ∧ a.transmitTimestamp = b.transmitTimestamp

/-- `≈` on all public fields: the header fields and ExtensionBytes. -/
def NtpEquiv (a b : NTP) : Prop := NtpHdrEquiv a b ∧ a.extensionBytes = b.extensionBytes

instance (l : NTP) : Decidable (wfNtp l) := by unfold wfNtp; infer_instance
instance (a b : NTP) : Decidable (NtpHdrEquiv a b) := by unfold NtpHdrEquiv; infer_instance
instance (a b : NTP) : Decidable (NtpEquiv a b) := by unfold NtpEquiv; infer_instance

/-! ## 2. Byte arithmetic -/

theorem u8_toNat (n : Nat) : (u8 n).toNat = n % 256 := by
  simp [u8]

theorem be32_putBe32 (n : Nat) (h : n < 4294967296) :
    be32 (u8 (n / 16777216)) (u8 (n / 65536)) (u8 (n / 256)) (u8 n) = n := by
  unfold be32; rw [u8_toNat, u8_toNat, u8_toNat, u8_toNat]; omega

theorem be64_putBe64 (n : Nat) (h : n < 18446744073709551616) :
    be64 (u8 (n / 4294967296 / 16777216)) (u8 (n / 4294967296 / 65536)) (u8 (n / 4294967296 / 256))
         (u8 (n / 4294967296)) (u8 (n / 16777216)) (u8 (n / 65536)) (u8 (n / 256)) (u8 n) = n := by
  unfold be64 be32
  simp only [u8_toNat]
  omega

/-- `int8(byte(x)) = x` for every int8 value. -/
theorem int8_roundtrip (x : Int) (h1 : -128 ≤ x) (h2 : x ≤ 127) : int8OfByte (byteOfInt8 x) = x := by
  unfold int8OfByte byteOfInt8
  rw [u8_toNat]
  have hnn : 0 ≤ x % 256 := Int.emod_nonneg x (by decide)
  have hlt : x % 256 < 256 := Int.emod_lt_of_pos x (by decide)
  have hcast : ((x % 256).toNat : Int) = x % 256 := Int.toNat_of_nonneg hnn
  have hmod : (x % 256).toNat % 256 = (x % 256).toNat := by
    apply Nat.mod_eq_of_lt
    omega
  rw [hmod]
  split <;> omega

/-- `byte(int8(b)) = b` for every byte. -/
theorem byte_roundtrip (b : UInt8) : byteOfInt8 (int8OfByte b) = b := by
  have hb := b.toNat_lt
  unfold int8OfByte byteOfInt8 u8
  apply UInt8.toNat_inj.mp
  split
  · have : ((b.toNat : Int) % 256).toNat = b.toNat := by omega
    rw [this]; simp
  · have : (((b.toNat : Int) - 256) % 256).toNat = b.toNat := by omega
    rw [this]; simp

theorem int8OfByte_range (b : UInt8) : -128 ≤ int8OfByte b ∧ int8OfByte b ≤ 127 := by
  have hb := b.toNat_lt
  unfold int8OfByte
  split <;> omega

set_option maxRecDepth 8000 in
/-- The three bit fields of every byte are within their widths. -/
theorem byte_fields_range : ∀ x, x < 256 →
    (x &&& 0xC0) >>> 6 ≤ 3 ∧ (x &&& 0x38) >>> 3 ≤ 7 ∧ x &&& 0x07 ≤ 7 := by decide

/-- The first header byte as a function of the three bit fields. -/
def firstByteOf (li vn mode : Nat) : Nat :=
  ((((li % 256) <<< 6) % 256) &&& 0xC0) ||| ((((vn % 256) <<< 3) % 256) &&& 0x38) ||| ((mode % 256) &&& 0x07)

theorem ntpFirstByte_eq (l : NTP) : ntpFirstByte l = firstByteOf l.leapIndicator l.version l.mode := rfl

set_option maxRecDepth 20000 in
/-- Packing then unpacking the first byte gives the three fields back, for all in-range values. -/
theorem firstByte_unpack : ∀ li, li < 4 → ∀ vn, vn < 8 → ∀ mode, mode < 8 →
    firstByteOf li vn mode < 256 ∧
    (firstByteOf li vn mode &&& 0xC0) >>> 6 = li ∧ (firstByteOf li vn mode &&& 0x38) >>> 3 = vn ∧
    firstByteOf li vn mode &&& 0x07 = mode := by decide

set_option maxRecDepth 20000 in
/-- Unpacking then packing a byte gives the byte back. -/
theorem firstByte_pack : ∀ x, x < 256 →
    firstByteOf ((x &&& 0xC0) >>> 6) ((x &&& 0x38) >>> 3) (x &&& 0x07) = x := by decide

/-! ## 3. decode ∘ encode -/

theorem ntpEncode_bytes (l : NTP) (T : Bytes) :
    ntpEncode l ++ T =
      u8 (ntpFirstByte l) :: u8 l.stratum :: byteOfInt8 l.poll :: byteOfInt8 l.precision ::
      u8 (l.rootDelay / 16777216) :: u8 (l.rootDelay / 65536) :: u8 (l.rootDelay / 256) :: u8 l.rootDelay ::
      u8 (l.rootDispersion / 16777216) :: u8 (l.rootDispersion / 65536) :: u8 (l.rootDispersion / 256) :: u8 l.rootDispersion ::
      u8 (l.referenceID / 16777216) :: u8 (l.referenceID / 65536) :: u8 (l.referenceID / 256) :: u8 l.referenceID ::
      (putBe64 l.referenceTimestamp ++ (putBe64 l.originTimestamp ++ (putBe64 l.receiveTimestamp ++
        (putBe64 l.transmitTimestamp ++ T)))) := by
  simp [ntpEncode, putBe32, List.append_assoc]

theorem putBe64_cons (n : Nat) (T : Bytes) :
    putBe64 n ++ T =
      u8 (n / 4294967296 / 16777216) :: u8 (n / 4294967296 / 65536) :: u8 (n / 4294967296 / 256) ::
      u8 (n / 4294967296) :: u8 (n / 16777216) :: u8 (n / 65536) :: u8 (n / 256) :: u8 n :: T := rfl

/-- Decoding the bytes `ntpEncode l ++ T` for a well-formed `l`: every header field comes back, the
    contents are the whole input, BaseLayer.Payload is empty and everything behind the 48 header bytes
    is ExtensionBytes. -/
theorem ntpLayer_encode (l : NTP) (T : Bytes) (hw : wfNtp l) :
    ntpLayer (ntpEncode l ++ T) = { l with contents := ntpEncode l ++ T, payload := [], extensionBytes := T } := by
  obtain ⟨w1, w2, w3, w4, ⟨w5a, w5b⟩, ⟨w6a, w6b⟩, w7, w8, w9, w10, w11, w12, w13⟩ := hw
  obtain ⟨f0, f1, f2, f3⟩ := firstByte_unpack l.leapIndicator (by omega) l.version (by omega) l.mode (by omega)
  rw [← ntpFirstByte_eq] at f0 f1 f2 f3
  have e0 : (byteAt (ntpEncode l ++ T) 0).toNat = ntpFirstByte l := by
    rw [ntpEncode_bytes]
    show (u8 (ntpFirstByte l)).toNat = _
    rw [u8_toNat]; omega
  have e1 : (byteAt (ntpEncode l ++ T) 1).toNat = l.stratum := by
    rw [ntpEncode_bytes]
    show (u8 l.stratum).toNat = _
    rw [u8_toNat]; omega
  have e2 : int8OfByte (byteAt (ntpEncode l ++ T) 2) = l.poll := by
    rw [ntpEncode_bytes]
    exact int8_roundtrip _ w5a w5b
  have e3 : int8OfByte (byteAt (ntpEncode l ++ T) 3) = l.precision := by
    rw [ntpEncode_bytes]
    exact int8_roundtrip _ w6a w6b
  have e4 : u32At (ntpEncode l ++ T) 4 = l.rootDelay := by
    rw [ntpEncode_bytes]; exact be32_putBe32 _ w7
  have e8 : u32At (ntpEncode l ++ T) 8 = l.rootDispersion := by
    rw [ntpEncode_bytes]; exact be32_putBe32 _ w8
  have e12 : u32At (ntpEncode l ++ T) 12 = l.referenceID := by
    rw [ntpEncode_bytes]; exact be32_putBe32 _ w9
  have e16 : u64At (ntpEncode l ++ T) 16 = l.referenceTimestamp := by
    rw [ntpEncode_bytes, putBe64_cons]; exact be64_putBe64 _ w10
  have e24 : u64At (ntpEncode l ++ T) 24 = l.originTimestamp := by
    rw [ntpEncode_bytes, putBe64_cons, putBe64_cons]; exact be64_putBe64 _ w11
  have e32 : u64At (ntpEncode l ++ T) 32 = l.receiveTimestamp := by
    rw [ntpEncode_bytes, putBe64_cons, putBe64_cons, putBe64_cons]; exact be64_putBe64 _ w12
  have e40 : u64At (ntpEncode l ++ T) 40 = l.transmitTimestamp := by
    rw [ntpEncode_bytes, putBe64_cons, putBe64_cons, putBe64_cons, putBe64_cons]; exact be64_putBe64 _ w13
  have d48 : (ntpEncode l ++ T).drop 48 = T := List.drop_left' rfl
  unfold ntpLayer
  rw [e0, e1, e2, e3, e4, e8, e12, e16, e24, e32, e40, d48, f1, f2, f3]

/-- Every decoded NTP layer is well-formed. -/
theorem ntpLayer_wf (v : Bytes) : wfNtp (ntpLayer v) := by
  have h0 := (byteAt v 0).toNat_lt
  have h1 := (byteAt v 1).toNat_lt
  obtain ⟨a, b, c⟩ := byte_fields_range _ h0
  exact ⟨a, b, c, h1, int8OfByte_range _, int8OfByte_range _, u32At_lt v 4, u32At_lt v 8, u32At_lt v 12,
    u64At_lt v 16, u64At_lt v 24, u64At_lt v 32, u64At_lt v 40⟩

/-- `PutUint32` of a value read big-endian from four bytes stores those four bytes. -/
theorem putBe32_be32 (a b c d : UInt8) : putBe32 (be32 a b c d) = [a, b, c, d] := by
  have ha := a.toNat_lt; have hb := b.toNat_lt; have hc := c.toNat_lt; have hd := d.toNat_lt
  unfold putBe32 be32
  have x1 : u8 ((((a.toNat * 256 + b.toNat) * 256 + c.toNat) * 256 + d.toNat) / 16777216) = a := by
    apply UInt8.toNat_inj.mp; rw [u8_toNat]; omega
  have x2 : u8 ((((a.toNat * 256 + b.toNat) * 256 + c.toNat) * 256 + d.toNat) / 65536) = b := by
    apply UInt8.toNat_inj.mp; rw [u8_toNat]; omega
  have x3 : u8 ((((a.toNat * 256 + b.toNat) * 256 + c.toNat) * 256 + d.toNat) / 256) = c := by
    apply UInt8.toNat_inj.mp; rw [u8_toNat]; omega
  have x4 : u8 (((a.toNat * 256 + b.toNat) * 256 + c.toNat) * 256 + d.toNat) = d := by
    apply UInt8.toNat_inj.mp; rw [u8_toNat]; omega
  rw [x1, x2, x3, x4]

/-- `PutUint64` of a value read big-endian from eight bytes stores those eight bytes. -/
theorem putBe64_be64 (a b c d e f g h : UInt8) : putBe64 (be64 a b c d e f g h) = [a, b, c, d, e, f, g, h] := by
  have hlo := be32_lt e f g h
  have h1 : be64 a b c d e f g h / 4294967296 = be32 a b c d := by unfold be64; omega
  have lo : putBe32 (be64 a b c d e f g h) = putBe32 (be32 e f g h) := by
    unfold putBe32
    have m1 : u8 (be64 a b c d e f g h / 16777216) = u8 (be32 e f g h / 16777216) := by
      apply UInt8.toNat_inj.mp; rw [u8_toNat, u8_toNat]; unfold be64; omega
    have m2 : u8 (be64 a b c d e f g h / 65536) = u8 (be32 e f g h / 65536) := by
      apply UInt8.toNat_inj.mp; rw [u8_toNat, u8_toNat]; unfold be64; omega
    have m3 : u8 (be64 a b c d e f g h / 256) = u8 (be32 e f g h / 256) := by
      apply UInt8.toNat_inj.mp; rw [u8_toNat, u8_toNat]; unfold be64; omega
    have m4 : u8 (be64 a b c d e f g h) = u8 (be32 e f g h) := by
      apply UInt8.toNat_inj.mp; rw [u8_toNat, u8_toNat]; unfold be64; omega
    rw [m1, m2, m3, m4]
  unfold putBe64
  rw [h1, lo, putBe32_be32, putBe32_be32]
  rfl

theorem take_drop_split (v : Bytes) (a b c : Nat) :
    (v.drop a).take (b + c) = (v.drop a).take b ++ (v.drop (a + b)).take c := by
  rw [List.take_add, List.drop_drop]

/-- The first 48 bytes as the header's field windows. -/
theorem take48 (v : Bytes) : v.take 48 =
    (v.drop 0).take 4 ++ ((v.drop 4).take 4 ++ ((v.drop 8).take 4 ++ ((v.drop 12).take 4 ++ ((v.drop 16).take 8 ++
      ((v.drop 24).take 8 ++ ((v.drop 32).take 8 ++ (v.drop 40).take 8)))))) := by
  have s1 := take_drop_split v 0 4 44
  have s2 := take_drop_split v 4 4 40
  have s3 := take_drop_split v 8 4 36
  have s4 := take_drop_split v 12 4 32
  have s5 := take_drop_split v 16 8 24
  have s6 := take_drop_split v 24 8 16
  have s7 := take_drop_split v 32 8 8
  simp only [Nat.reduceAdd] at s1 s2 s3 s4 s5 s6 s7
  rw [← s7, ← s6, ← s5, ← s4, ← s3, ← s2, ← s1, List.drop_zero]

/-- Re-encoding a decoded layer reproduces the 48 header bytes it was decoded from. -/
theorem ntpEncode_ntpLayer (v : Bytes) (h : 48 ≤ v.length) : ntpEncode (ntpLayer v) = v.take 48 := by
  have hb0 := (byteAt v 0).toNat_lt
  have hfb : ntpFirstByte (ntpLayer v) = (byteAt v 0).toNat := by
    rw [ntpFirstByte_eq]; exact firstByte_pack _ hb0
  have u8b : ∀ b : UInt8, u8 b.toNat = b := by
    intro b
    apply UInt8.toNat_inj.mp
    rw [u8_toNat]; have := b.toNat_lt; omega
  rw [take48, four_bytes v 0 (by omega), four_bytes v 4 (by omega), four_bytes v 8 (by omega),
    four_bytes v 12 (by omega), eight_bytes v 16 (by omega), eight_bytes v 24 (by omega),
    eight_bytes v 32 (by omega), eight_bytes v 40 (by omega)]
  show [u8 (ntpFirstByte (ntpLayer v)), u8 (byteAt v 1).toNat, byteOfInt8 (int8OfByte (byteAt v 2)),
      byteOfInt8 (int8OfByte (byteAt v 3))] ++ putBe32 (u32At v 4) ++ putBe32 (u32At v 8) ++ putBe32 (u32At v 12) ++
      putBe64 (u64At v 16) ++ putBe64 (u64At v 24) ++ putBe64 (u64At v 32) ++ putBe64 (u64At v 40) = _
  rw [hfb, u8b, u8b, byte_roundtrip, byte_roundtrip]
  unfold u32At u64At
  rw [putBe32_be32, putBe32_be32, putBe32_be32, putBe64_be64, putBe64_be64, putBe64_be64, putBe64_be64]
  rfl

/-- Decoding any 48+ bytes and encoding the layer again gives the input back. -/
theorem ntp_reencode (v : Bytes) (h : 48 ≤ v.length) :
    ntpEncode (ntpLayer v) ++ [] ++ (ntpLayer v).extensionBytes = v := by
  rw [ntpEncode_ntpLayer v h, List.append_nil]
  exact List.take_append_drop 48 v

end Gp.Ntp
