import Gp.Lemmas.Layers.Ip6Ext
import Gp.Lemmas.Layers.Ip6Dec
/-
  (*IPv6).SerializeTo, (*IPv6Fragment).SerializeTo over the serialize-buffer model: the header
  stores.  Core Lean only.
-/
namespace Gp.Ip6
open Gp Gp.SBuf Gp.C18 Gp.Gen.Ip6

theorem exists_cons_of_length {α} (l : List α) (n : Nat) (h : l.length = n + 1) :
    ∃ a t, l = a :: t ∧ t.length = n := by
  match l, h with
  | a :: t, h => exact ⟨a, t, rfl, by simpa using h⟩

/-- PrependBytes(n) + stores that succeed with `out` = prepend `out`. -/
theorem prependWith_ok (b : SBuf) (n : Nat) (f : Bytes → Res Bytes) (out : Bytes)
    (hf : f (staleWin b n) = .ok out) (hl : out.length = n) :
    prependWith b n f = .ok (step b (.prepend out)) := by
  unfold prependWith
  dsimp only
  have : (contents (prepend b n).1).take n = staleWin b n := rfl
  rw [this, hf]
  simp only
  rw [fill_prepend b out n hl]

theorem prependWith_err (b : SBuf) (n : Nat) (f : Bytes → Res Bytes) (e : String)
    (hf : f (staleWin b n) = .err e) : prependWith b n f = .err e := by
  unfold prependWith
  dsimp only
  have : (contents (prepend b n).1).take n = staleWin b n := rfl
  rw [this, hf]

/-- The 40 header bytes. -/
def ip6HdrBytes (l : IPv6) (len : Nat) : Bytes :=
  [u8 (((l.version * 16) % 256) ||| ((l.trafficClass % 256) / 16)),
   u8 (((l.trafficClass * 16) % 256) ||| ((l.flowLabel / 65536) % 256))] ++
  putBe16 (l.flowLabel % 65536) ++ putBe16 len ++ [u8 l.nextHeader, u8 l.hopLimit] ++ l.srcIP ++ l.dstIP

theorem ip6HdrBytes_length (l : IPv6) (len : Nat) (hs : l.srcIP.length = 16) (hd : l.dstIP.length = 16) :
    (ip6HdrBytes l len).length = 40 := by
  simp [ip6HdrBytes, putBe16, hs, hd]

/-- On a 40-byte window every store is in range; all 40 bytes are overwritten. -/
theorem ip6HeaderStores_eq (l : IPv6) (len : Nat) (st : Bytes) (h : st.length = 40) :
    ip6HeaderStores l len st =
      if l.srcIP.length ≠ 16 then .err "Invalid source IPv6 address"
      else if l.dstIP.length ≠ 16 then .err "Invalid destination IPv6 address"
      else .ok (ip6HdrBytes l len) := by
  obtain ⟨a0, s1, rfl, h1⟩ := exists_cons_of_length st 39 h
  obtain ⟨a1, s2, rfl, h2⟩ := exists_cons_of_length s1 38 h1
  obtain ⟨a2, s3, rfl, h3⟩ := exists_cons_of_length s2 37 h2
  obtain ⟨a3, s4, rfl, h4⟩ := exists_cons_of_length s3 36 h3
  obtain ⟨a4, s5, rfl, h5⟩ := exists_cons_of_length s4 35 h4
  obtain ⟨a5, s6, rfl, h6⟩ := exists_cons_of_length s5 34 h5
  obtain ⟨a6, s7, rfl, h7⟩ := exists_cons_of_length s6 33 h6
  obtain ⟨a7, st, rfl, h8⟩ := exists_cons_of_length s7 32 h7
  unfold ip6HeaderStores ip6HdrBytes
  have e1 : min (st.length + 6) 2 = 2 := by omega
  have e2 : min (st.length + 4) 2 = 2 := by omega
  simp only [putBe16]
  by_cases hs : l.srcIP.length ≠ 16
  · simp [wr, cp, e1, e2, hs]
  · by_cases hd : l.dstIP.length ≠ 16
    · simp [wr, cp, e1, e2, hs, hd]
    · have hs' : l.srcIP.length = 16 := by omega
      have hd' : l.dstIP.length = 16 := by omega
      simp [wr, cp, hs', hd', h8]
      rw [List.take_of_length_le (by omega), List.take_of_length_le (by omega)]
      have : (l.srcIP ++ List.drop 16 st).drop 32 = [] := by
        apply List.drop_eq_nil_of_le
        rw [List.length_append, List.length_drop]; omega
      rw [this, List.append_nil]
/-! ## jumbo option plumbing -/

theorem setJumboLength_ok (o : Tlv) (n : Nat) : ∃ o', setJumboLength o n = .ok o' := by
  unfold setJumboLength
  dsimp only
  by_cases h : o.bytes.length ≠ 4
  · simp [h]
  · have : ¬ o.bytes.length < 4 := by omega
    simp [h, this]

theorem setFirstJumbo_ok : ∀ (os : List Tlv), ∃ r, setFirstJumbo os = .ok r := by
  intro os
  induction os with
  | nil => exact ⟨_, rfl⟩
  | cons o os ih =>
    unfold setFirstJumbo
    by_cases h : o.typ = hopByHopOptionJumbogram
    · obtain ⟨o', ho⟩ := setJumboLength_ok o 0
      rw [if_pos h, ho]; exact ⟨_, rfl⟩
    · obtain ⟨r, hr⟩ := ih
      rw [if_neg h, hr]; exact ⟨_, rfl⟩

theorem addJumboOption_ok (l : IPv6) : ∃ l', addJumboOption l = .ok l' := by
  unfold addJumboOption
  obtain ⟨t, ht⟩ := setJumboLength_ok Tlv.zero 0
  match l.hopByHop with
  | none =>
    obtain ⟨⟨os, f⟩, hr⟩ := setFirstJumbo_ok ([] : List Tlv)
    simp only [Res.bind_ok, Res.pure_eq_ok, hr, ht]
    split <;> exact ⟨_, rfl⟩
  | some h =>
    obtain ⟨⟨os, f⟩, hr⟩ := setFirstJumbo_ok h.options
    simp only [Res.bind_ok, Res.pure_eq_ok, hr, ht]
    split <;> exact ⟨_, rfl⟩

theorem ip6JumboPrep_ne_panic (l : IPv6) (fix jumbo : Bool) (k : PanicKind) :
    ip6JumboPrep l fix jumbo ≠ .panic k := by
  unfold ip6JumboPrep
  split
  · split
    · obtain ⟨l', h⟩ := addJumboOption_ok l
      rw [h]; simp
    · split
      · simp
      · rename_i h hh
        match hj : getJumboLength h with
        | .panic k' => exact absurd hj (getJumboLength_ne_panic _ k')
        | .err e => simp [hj]
        | .ok (n, ok) =>
          simp only [hj, Res.bind_ok]
          split <;> simp
  · simp

/-! ## setIPv6PayloadJumboLength -/

/-- On a payload longer than the scanned header + 6 bytes every index is in range; the fuel
    (initially hbhLen) suffices because every iteration advances the offset. -/
theorem jumboScan_ok (hbh : Bytes) (hbhLen : Nat) (hlen : hbhLen + 6 ≤ hbh.length) :
    ∀ (fuel offset : Nat), hbhLen ≤ fuel + offset →
      (∃ p, jumboScan hbh hbhLen fuel offset = .ok p ∧ p.length = hbh.length) ∨
      (∃ e, jumboScan hbh hbhLen fuel offset = .err e) := by
  intro fuel
  induction fuel with
  | zero =>
    intro offset h
    unfold jumboScan
    have : ¬ offset < hbhLen := by omega
    rw [if_neg this]; exact Or.inr ⟨_, rfl⟩
  | succ fuel ih =>
    intro offset h
    unfold jumboScan
    by_cases ho : offset < hbhLen
    · rw [if_pos ho]
      simp only
      rw [index_lt hbh offset (by omega)]
      simp only [Res.bind_ok]
      split
      · exact ih (offset + 1) (by omega)
      · rw [index_lt hbh (offset + 1) (by omega)]
        simp only [Res.bind_ok]
        split
        · split
          · rw [if_pos (by omega)]
            have : ¬ hbh.length - (offset + 2) < 4 := by omega
            rw [if_neg this]
            refine Or.inl ⟨_, rfl, ?_⟩
            simp only [List.length_append, List.length_take, List.length_drop, putBe32, List.length_cons,
              List.length_nil]
            omega
          · exact Or.inr ⟨_, rfl⟩
        · exact ih _ (by omega)
    · rw [if_neg ho]; exact Or.inr ⟨_, rfl⟩

theorem setPayloadJumboLength_ok (p : Bytes) (h : 65535 < p.length) :
    (∃ p', setPayloadJumboLength p = .ok p' ∧ p'.length = p.length) ∨
    (∃ e, setPayloadJumboLength p = .err e) := by
  unfold setPayloadJumboLength
  dsimp only
  have h8 : ¬ p.length < 8 := by omega
  rw [if_neg h8, index_lt p 1 (by omega)]
  simp only [Res.bind_ok]
  have hb : (p[1].toNat + 1) * 8 ≤ 2048 := by
    have := p[1].toNat_lt
    omega
  split
  · exact Or.inr ⟨_, rfl⟩
  · exact jumboScan_ok p _ (by omega) _ 2 (by omega)

/-! ## setContents -/

theorem setContents_spec (b : SBuf) (p : Bytes) (h : Inv b) (hl : p.length = (contents b).length) :
    contents (setContents b p) = p ∧ Inv (setContents b p) ∧ (setContents b p).layers = b.layers := by
  have hcl := contents_length b h
  obtain ⟨i1, i2, i3⟩ := h
  unfold setContents
  refine ⟨?_, ?_, (fill_fields _ _ _).2.2.1⟩
  · rw [fill_contents b _ p ⟨i1, i2, i3⟩ rfl (Nat.le_refl _) (by simp only; omega)]
    simp only [Nat.sub_self, List.take_zero, Nat.zero_add, List.nil_append]
    rw [List.drop_of_length_le (by omega), List.append_nil]
  · exact inv_fill' b _ p ⟨i1, i2, i3⟩ (by simp only; omega)

end Gp.Ip6
