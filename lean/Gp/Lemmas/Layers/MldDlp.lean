import Gp.Lemmas.Layers.Mld
/-
  Helper lemmas for engine `lmld`, part 1b: the DecodingLayerParser run does not depend on what the
  re-used layer objects held, nor on the capacity / foreign bytes.  Core Lean only.
-/
namespace Gp.Mld
open Gp Gp.SBuf Gp.Gen.Mld

/-! ## Definitions used in property statements -/

/-- Two parser states report the same run: the same decoded types, the same truncation flag and
    equal layer objects for every type in the decoded list (an object the run did not reach keeps
    whatever it held). -/
def DlpAgree (a b : DlpState) : Prop :=
  a.decoded = b.decoded ∧ a.trunc = b.trunc ∧
  (LayerTypeICMPv6 ∈ a.decoded → a.icmp = b.icmp) ∧
  (LayerTypeMLDv1MulticastListenerQuery ∈ a.decoded → a.query = b.query) ∧
  (LayerTypeMLDv1MulticastListenerReport ∈ a.decoded → a.report = b.report) ∧
  (LayerTypeMLDv1MulticastListenerDone ∈ a.decoded → a.done = b.done)

/-- Agreement of what one loop iteration leaves. -/
def NextAgree : DlpNext → DlpNext → Prop
  | .stop a c, .stop b c' => c = c' ∧ DlpAgree a b
  | .more a t r, .more b t' r' => t = t' ∧ r = r' ∧ DlpAgree a b
  | _, _ => False

/-! ## Proof machinery -/

theorem dlpAfter_agree (a b : DlpState) (typ next : Nat) (pl tail : Bytes)
    (h : DlpAgree { a with decoded := a.decoded ++ [typ] } { b with decoded := b.decoded ++ [typ] }) :
    NextAgree (dlpAfter a typ next pl tail) (dlpAfter b typ next pl tail) := by
  unfold dlpAfter
  simp only
  split
  · exact ⟨rfl, h⟩
  · split
    · exact ⟨rfl, rfl, h⟩
    · split
      · exact ⟨rfl, h⟩
      · exact ⟨rfl, h⟩

theorem dlpStep_agree_query (a b : DlpState) (d : GSlice) (h : DlpAgree a b) :
    ∃ n1 n2, dlpStep a LayerTypeMLDv1MulticastListenerQuery d = .ok n1 ∧
      dlpStep b LayerTypeMLDv1MulticastListenerQuery d = .ok n2 ∧ NextAgree n1 n2 := by
  obtain ⟨h1, h2, h3, h4, h5, h6⟩ := h
  simp only [dlpStep, if_neg lt_q_ne_ic, if_true, decode_spec, Res.bind_ok, pure, msgDecSpec]
  by_cases hl : d.vis.length < 20
  · simp only [if_pos hl, if_true]
    exact ⟨_, _, rfl, rfl, rfl, h1, by simp only [h2], h3, h4, h5, h6⟩
  · simp only [if_neg hl, Bool.false_eq_true, if_false]
    refine ⟨_, _, rfl, rfl, dlpAfter_agree _ _ _ _ _ _ ⟨by simp only [h1], by simp only [h2], ?_, ?_, ?_, ?_⟩⟩
    · intro hm
      rw [List.mem_append, List.mem_singleton] at hm
      rcases hm with hm | hm
      · exact h3 hm
      · exact absurd hm.symm lt_q_ne_ic
    · intro _; rfl
    · intro hm
      rw [List.mem_append, List.mem_singleton] at hm
      rcases hm with hm | hm
      · exact h5 hm
      · exact absurd hm lt_r_ne_q
    · intro hm
      rw [List.mem_append, List.mem_singleton] at hm
      rcases hm with hm | hm
      · exact h6 hm
      · exact absurd hm lt_d_ne_q

theorem dlpStep_agree_report (a b : DlpState) (d : GSlice) (h : DlpAgree a b) :
    ∃ n1 n2, dlpStep a LayerTypeMLDv1MulticastListenerReport d = .ok n1 ∧
      dlpStep b LayerTypeMLDv1MulticastListenerReport d = .ok n2 ∧ NextAgree n1 n2 := by
  obtain ⟨h1, h2, h3, h4, h5, h6⟩ := h
  simp only [dlpStep, if_neg lt_r_ne_ic, if_neg lt_r_ne_q, if_true, decode_spec, Res.bind_ok, pure, msgDecSpec]
  by_cases hl : d.vis.length < 20
  · simp only [if_pos hl, if_true]
    exact ⟨_, _, rfl, rfl, rfl, h1, by simp only [h2], h3, h4, h5, h6⟩
  · simp only [if_neg hl, Bool.false_eq_true, if_false]
    refine ⟨_, _, rfl, rfl, dlpAfter_agree _ _ _ _ _ _ ⟨by simp only [h1], by simp only [h2], ?_, ?_, ?_, ?_⟩⟩
    · intro hm
      rw [List.mem_append, List.mem_singleton] at hm
      rcases hm with hm | hm
      · exact h3 hm
      · exact absurd hm.symm lt_r_ne_ic
    · intro hm
      rw [List.mem_append, List.mem_singleton] at hm
      rcases hm with hm | hm
      · exact h4 hm
      · exact absurd hm.symm lt_r_ne_q
    · intro _; rfl
    · intro hm
      rw [List.mem_append, List.mem_singleton] at hm
      rcases hm with hm | hm
      · exact h6 hm
      · exact absurd hm lt_d_ne_r

theorem dlpStep_agree_done (a b : DlpState) (d : GSlice) (h : DlpAgree a b) :
    ∃ n1 n2, dlpStep a LayerTypeMLDv1MulticastListenerDone d = .ok n1 ∧
      dlpStep b LayerTypeMLDv1MulticastListenerDone d = .ok n2 ∧ NextAgree n1 n2 := by
  obtain ⟨h1, h2, h3, h4, h5, h6⟩ := h
  simp only [dlpStep, if_neg lt_d_ne_ic, if_neg lt_d_ne_q, if_neg lt_d_ne_r, if_true, decode_spec, Res.bind_ok,
    pure, msgDecSpec]
  by_cases hl : d.vis.length < 20
  · simp only [if_pos hl, if_true]
    exact ⟨_, _, rfl, rfl, rfl, h1, by simp only [h2], h3, h4, h5, h6⟩
  · simp only [if_neg hl, Bool.false_eq_true, if_false]
    refine ⟨_, _, rfl, rfl, dlpAfter_agree _ _ _ _ _ _ ⟨by simp only [h1], by simp only [h2], ?_, ?_, ?_, ?_⟩⟩
    · intro hm
      rw [List.mem_append, List.mem_singleton] at hm
      rcases hm with hm | hm
      · exact h3 hm
      · exact absurd hm.symm lt_d_ne_ic
    · intro hm
      rw [List.mem_append, List.mem_singleton] at hm
      rcases hm with hm | hm
      · exact h4 hm
      · exact absurd hm.symm lt_d_ne_q
    · intro hm
      rw [List.mem_append, List.mem_singleton] at hm
      rcases hm with hm | hm
      · exact h5 hm
      · exact absurd hm.symm lt_d_ne_r
    · intro _; rfl

theorem dlpStep_agree_icmp (a b : DlpState) (d : GSlice) (h : DlpAgree a b) :
    ∃ n1 n2, dlpStep a LayerTypeICMPv6 d = .ok n1 ∧ dlpStep b LayerTypeICMPv6 d = .ok n2 ∧ NextAgree n1 n2 := by
  obtain ⟨h1, h2, h3, h4, h5, h6⟩ := h
  simp only [dlpStep, if_true, Icmp6.decode_spec, Res.bind_ok, pure, icDecSpec]
  by_cases hl : d.vis.length < 4
  · simp only [if_pos hl, if_true]
    exact ⟨_, _, rfl, rfl, rfl, h1, by simp only [h2], h3, h4, h5, h6⟩
  · simp only [if_neg hl, Bool.false_eq_true, if_false]
    refine ⟨_, _, rfl, rfl, dlpAfter_agree _ _ _ _ _ _ ⟨by simp only [h1], by simp only [h2], ?_, ?_, ?_, ?_⟩⟩
    · intro _; rfl
    · intro hm
      rw [List.mem_append, List.mem_singleton] at hm
      rcases hm with hm | hm
      · exact h4 hm
      · exact absurd hm lt_q_ne_ic
    · intro hm
      rw [List.mem_append, List.mem_singleton] at hm
      rcases hm with hm | hm
      · exact h5 hm
      · exact absurd hm lt_r_ne_ic
    · intro hm
      rw [List.mem_append, List.mem_singleton] at hm
      rcases hm with hm | hm
      · exact h6 hm
      · exact absurd hm lt_d_ne_ic

/-- One iteration from agreeing states leaves agreeing results, whatever the type. -/
theorem dlpStep_agree (a b : DlpState) (typ : Nat) (d : GSlice) (h : DlpAgree a b) :
    ∃ n1 n2, dlpStep a typ d = .ok n1 ∧ dlpStep b typ d = .ok n2 ∧ NextAgree n1 n2 := by
  by_cases t1 : typ = LayerTypeICMPv6
  · rw [t1]; exact dlpStep_agree_icmp a b d h
  · by_cases t2 : typ = LayerTypeMLDv1MulticastListenerQuery
    · rw [t2]; exact dlpStep_agree_query a b d h
    · by_cases t3 : typ = LayerTypeMLDv1MulticastListenerReport
      · rw [t3]; exact dlpStep_agree_report a b d h
      · by_cases t4 : typ = LayerTypeMLDv1MulticastListenerDone
        · rw [t4]; exact dlpStep_agree_done a b d h
        · simp only [dlpStep, if_neg t1, if_neg t2, if_neg t3, if_neg t4, pure]
          exact ⟨_, _, rfl, rfl, rfl, h⟩

/-- The whole loop, any fuel. -/
theorem dlpLoop_agree : ∀ (fuel : Nat) (a b : DlpState) (typ : Nat) (d : GSlice), DlpAgree a b →
    ∃ r1 r2 c, dlpLoop fuel a typ d = .ok (r1, c) ∧ dlpLoop fuel b typ d = .ok (r2, c) ∧ DlpAgree r1 r2 := by
  intro fuel
  induction fuel with
  | zero => intro a b typ d h; exact ⟨a, b, 9, rfl, rfl, h⟩
  | succ n ih =>
    intro a b typ d h
    obtain ⟨n1, n2, e1, e2, ha⟩ := dlpStep_agree a b typ d h
    rw [dlpLoop_succ, dlpLoop_succ, e1, e2]
    cases n1 with
    | stop s1 c1 =>
      cases n2 with
      | stop s2 c2 => obtain ⟨hc, hs⟩ := ha; subst hc; exact ⟨s1, s2, c1, rfl, rfl, hs⟩
      | more s2 t2 r2 => exact absurd ha id
    | more s1 t1 r1 =>
      cases n2 with
      | stop s2 c2 => exact absurd ha id
      | more s2 t2 r2 =>
        obtain ⟨ht, hr, hs⟩ := ha
        subst ht; subst hr
        exact ih s1 s2 t1 r1 hs

/-- One iteration does not look at the foreign bytes; it hands them on unchanged. -/
theorem dlpStep_cap (st : DlpState) (typ : Nat) (v t1 t2 : Bytes) :
    (∃ s c, dlpStep st typ { vis := v, tail := t1 } = .ok (.stop s c) ∧
            dlpStep st typ { vis := v, tail := t2 } = .ok (.stop s c)) ∨
    (∃ s ty w, dlpStep st typ { vis := v, tail := t1 } = .ok (.more s ty { vis := w, tail := t1 }) ∧
               dlpStep st typ { vis := v, tail := t2 } = .ok (.more s ty { vis := w, tail := t2 })) := by
  by_cases h1 : typ = LayerTypeICMPv6
  · simp only [dlpStep, if_pos h1, Icmp6.decode_spec, Res.bind_ok, pure]
    split
    · exact Or.inl ⟨_, _, rfl, rfl⟩
    · unfold dlpAfter
      simp only
      split
      · exact Or.inl ⟨_, _, rfl, rfl⟩
      · split
        · exact Or.inr ⟨_, _, _, rfl, rfl⟩
        · split
          · exact Or.inl ⟨_, _, rfl, rfl⟩
          · exact Or.inl ⟨_, _, rfl, rfl⟩
  · by_cases h2 : typ = LayerTypeMLDv1MulticastListenerQuery
    · simp only [dlpStep, if_neg h1, if_pos h2, decode_spec, Res.bind_ok, pure, Msg.nextLayerType, dlpAfter_zero]
      split <;> exact Or.inl ⟨_, _, rfl, rfl⟩
    · by_cases h3 : typ = LayerTypeMLDv1MulticastListenerReport
      · simp only [dlpStep, if_neg h1, if_neg h2, if_pos h3, decode_spec, Res.bind_ok, pure, Msg.nextLayerType,
          dlpAfter_zero]
        split <;> exact Or.inl ⟨_, _, rfl, rfl⟩
      · by_cases h4 : typ = LayerTypeMLDv1MulticastListenerDone
        · simp only [dlpStep, if_neg h1, if_neg h2, if_neg h3, if_pos h4, decode_spec, Res.bind_ok, pure,
            Msg.nextLayerType, dlpAfter_zero]
          split <;> exact Or.inl ⟨_, _, rfl, rfl⟩
        · simp only [dlpStep, if_neg h1, if_neg h2, if_neg h3, if_neg h4, pure]
          exact Or.inl ⟨_, _, rfl, rfl⟩

theorem dlpLoop_cap : ∀ (fuel : Nat) (st : DlpState) (typ : Nat) (v t1 t2 : Bytes),
    dlpLoop fuel st typ { vis := v, tail := t1 } = dlpLoop fuel st typ { vis := v, tail := t2 } := by
  intro fuel
  induction fuel with
  | zero => intro st typ v t1 t2; rfl
  | succ n ih =>
    intro st typ v t1 t2
    rw [dlpLoop_succ, dlpLoop_succ]
    rcases dlpStep_cap st typ v t1 t2 with ⟨s, c, e1, e2⟩ | ⟨s, ty, w, e1, e2⟩
    · rw [e1, e2]
    · rw [e1, e2]; exact ih s ty w t1 t2

end Gp.Mld
