import Gp.Model.Layers.Mld
import Gp.Lemmas.SBuf
/-
  Helper lemmas for engine `lmld` (MLDv1 query / report / done codecs), part 1: decoding.
  Core Lean only.

  Section 1 holds the *definitions* that occur in the statements of the property theorems
  (functional specifications of the DecodeFromBytes methods); the rest is proof machinery.
-/
namespace Gp.Mld
open Gp Gp.SBuf Gp.Gen.Mld

/-! ## 1. Definitions used in property statements -/

/-- Byte `i` of a byte string (0 for a missing byte; only used where the byte exists). -/
def byteAt (v : Bytes) (i : Nat) : UInt8 := v.getD i 0

/-- Big-endian 16-bit value at offset `i`. -/
def u16At (v : Bytes) (i : Nat) : Nat := be16 (byteAt v i) (byteAt v (i + 1))

/-- The layer a successful MLDv1 `DecodeFromBytes` produces: a function of the visible bytes alone
    (the same for the three wrapper types). -/
def msgLayer (v : Bytes) : Msg :=
  { contents := v.take 20, payload := v.drop 20,
    maximumResponseDelay := (u16At v 0 : Int) * millisecond,
    multicastAddress := (v.drop 4).take 16 }

/-- What MLDv1 `DecodeFromBytes` computes from the visible bytes `v` and the receiver. -/
def msgDecSpec (old : Msg) (v : Bytes) : DecOut Msg :=
  if v.length < 20 then { layer := old, trunc := true, err := true }
  else { layer := msgLayer v, trunc := false, err := false }

/-- The layer `ICMPv6.DecodeFromBytes` produces from the visible bytes `v` (|v| ≥ 4). -/
def icLayer (v : Bytes) : Icmp6 :=
  { contents := v.take 4, payload := v.drop 4,
    typeCode := (byteAt v 0).toNat * 256 + (byteAt v 1).toNat, checksum := u16At v 2 }

def icDecSpec (old : Icmp6) (v : Bytes) : DecOut Icmp6 :=
  if v.length < 4 then { layer := old, trunc := true, err := true }
  else { layer := icLayer v, trunc := false, err := false }

/-! ## 2. Go slices -/

theorem GSlice.slice_ok (s : GSlice) (a b : Nat) (hab : a ≤ b) (hb : b ≤ s.len) :
    s.slice a b = .ok { vis := (s.vis.drop a).take (b - a), tail := s.vis.drop b ++ s.tail } := by
  unfold GSlice.slice GSlice.cap
  unfold GSlice.len at hb
  have h1 : a ≤ b ∧ b ≤ s.vis.length + s.tail.length := ⟨hab, by omega⟩
  rw [if_pos h1]
  have ha : a ≤ s.vis.length := by omega
  rw [List.drop_append_of_le_length ha, List.drop_append_of_le_length hb,
    List.take_append_of_le_length (by rw [List.length_drop]; omega)]

theorem GSlice.sliceFrom_ok (s : GSlice) (a : Nat) (ha : a ≤ s.len) :
    s.sliceFrom a = .ok { vis := s.vis.drop a, tail := s.tail } := by
  unfold GSlice.sliceFrom; rw [if_pos ha]

theorem GSlice.index_ok (s : GSlice) (i : Nat) (h : i < s.len) :
    s.index i = .ok (byteAt s.vis i) := by
  unfold GSlice.index Gp.index byteAt
  have h' : i < s.vis.length := h
  simp [List.getD_eq_getElem?_getD, h']

/-- The two-byte window `[i, i+2)` of a long enough byte string. -/
theorem two_bytes (v : Bytes) (i : Nat) (h : i + 2 ≤ v.length) :
    (v.drop i).take 2 = [byteAt v i, byteAt v (i + 1)] := by
  have h0 : i < v.length := by omega
  have h1 : i + 1 < v.length := by omega
  have e : v.drop i = v[i] :: v[i+1] :: v.drop (i+2) := by
    rw [List.drop_eq_getElem_cons h0, List.drop_eq_getElem_cons h1]
  rw [e]
  simp only [byteAt, List.take_succ_cons, List.take_zero, List.getD_eq_getElem?_getD,
    List.getElem?_eq_getElem h0, List.getElem?_eq_getElem h1, Option.getD_some]

theorem uint16_two (a b : UInt8) (t : Bytes) : uint16 { vis := [a, b], tail := t } = .ok (be16 a b) := by
  simp [uint16, GSlice.index, Gp.index, bind, Res.bind, pure]

theorem uint16_vis (v t : Bytes) (i : Nat) (h : i + 2 ≤ v.length) :
    uint16 { vis := (v.drop i).take 2, tail := t } = .ok (u16At v i) := by
  rw [two_bytes v i h]; exact uint16_two _ _ _

theorem be16_lt (a b : UInt8) : be16 a b < 65536 := by
  have := a.toNat_lt; have := b.toNat_lt
  unfold be16; omega

theorem u16At_lt (v : Bytes) (i : Nat) : u16At v i < 65536 := be16_lt _ _

/-! ## 3. DecodeFromBytes = its functional specification -/

theorem Msg.decode_short (old : Msg) (d : GSlice) (h : d.len < 20) :
    old.decodeFromBytes d = .ok { layer := old, trunc := true, err := true } := by
  unfold Msg.decodeFromBytes; rw [if_pos h]

theorem Msg.decode_long (old : Msg) (d : GSlice) (h : 20 ≤ d.len) :
    old.decodeFromBytes d = .ok { layer := msgLayer d.vis, trunc := false, err := false } := by
  have hl : 20 ≤ d.vis.length := h
  unfold Msg.decodeFromBytes
  rw [if_neg (by omega)]
  rw [GSlice.slice_ok d 0 2 (by omega) (by omega), Res.bind_ok]
  simp only [Nat.reduceSub]
  rw [uint16_vis d.vis _ 0 (by omega), Res.bind_ok]
  rw [GSlice.slice_ok d 4 20 (by omega) (by omega), Res.bind_ok]
  rw [GSlice.slice_ok d 0 20 (by omega) (by omega), Res.bind_ok]
  rw [GSlice.sliceFrom_ok d 20 h, Res.bind_ok]
  simp only [List.drop_zero, Nat.sub_zero, Nat.reduceSub, pure, msgLayer]

/-- The promoted `MLDv1Message.DecodeFromBytes` is its specification, for every receiver, every
    input and every capacity / foreign bytes. -/
theorem Msg.decode_spec (old : Msg) (d : GSlice) :
    old.decodeFromBytes d = .ok (msgDecSpec old d.vis) := by
  unfold msgDecSpec
  by_cases h : d.len < 20
  · rw [Msg.decode_short old d h, if_pos (show d.vis.length < 20 from h)]
  · rw [Msg.decode_long old d (by omega), if_neg (show ¬ d.vis.length < 20 from h)]

/-- The query override computes the same thing: its extra `m.Payload = data[20:]` re-assigns the
    value the embedded decode (with fix lmld-1) has already stored. -/
theorem query_decode_spec (old : Msg) (d : GSlice) :
    queryDecodeFromBytes old d = .ok (msgDecSpec old d.vis) := by
  unfold queryDecodeFromBytes
  rw [Msg.decode_spec old d, Res.bind_ok]
  unfold msgDecSpec
  by_cases h : d.vis.length < 20
  · simp only [if_pos h, if_true, pure]
  · simp only [if_neg h, Bool.false_eq_true, if_false]
    by_cases h2 : d.len > 20
    · rw [if_pos h2, GSlice.sliceFrom_ok d 20 (by omega), Res.bind_ok]
      simp only [pure, msgLayer]
    · rw [if_neg h2]; rfl

/-- All three wrapper types. -/
theorem decode_spec (k : Kind) (old : Msg) (d : GSlice) :
    decodeFromBytes k old d = .ok (msgDecSpec old d.vis) := by
  cases k
  · exact query_decode_spec old d
  · exact Msg.decode_spec old d
  · exact Msg.decode_spec old d

theorem Icmp6.decode_spec (old : Icmp6) (d : GSlice) :
    old.decodeFromBytes d = .ok (icDecSpec old d.vis) := by
  unfold icDecSpec Icmp6.decodeFromBytes
  by_cases h : d.len < 4
  · rw [if_pos h, if_pos (show d.vis.length < 4 from h)]
  · have hl : 4 ≤ d.vis.length := by unfold GSlice.len at h; omega
    have hl' : 4 ≤ d.len := hl
    rw [if_neg h, if_neg (show ¬ d.vis.length < 4 from h)]
    rw [GSlice.index_ok d 0 (by omega), Res.bind_ok, GSlice.index_ok d 1 (by omega), Res.bind_ok]
    rw [GSlice.slice_ok d 2 4 (by omega) (by omega), Res.bind_ok]
    simp only [Nat.reduceSub]
    rw [uint16_vis d.vis _ 2 (by omega), Res.bind_ok]
    rw [GSlice.slice_ok d 0 4 (by omega) (by omega), Res.bind_ok]
    rw [GSlice.sliceFrom_ok d 4 hl', Res.bind_ok]
    simp only [List.drop_zero, Nat.sub_zero, pure, icLayer]

/-! ## 4. Facts about the specifications -/

theorem msgDecSpec_fresh (old : Msg) (v : Bytes) (h : (msgDecSpec old v).err = false) :
    msgDecSpec old v = msgDecSpec Msg.fresh v := by
  unfold msgDecSpec at h ⊢
  by_cases hl : v.length < 20
  · rw [if_pos hl] at h; cases h
  · rw [if_neg hl, if_neg hl]

theorem msgDecSpec_err (old : Msg) (v : Bytes) : (msgDecSpec old v).err = decide (v.length < 20) := by
  unfold msgDecSpec
  by_cases hl : v.length < 20
  · rw [if_pos hl]; simp [hl]
  · rw [if_neg hl]; simp [hl]

theorem msgDecSpec_trunc (old : Msg) (v : Bytes) : (msgDecSpec old v).trunc = (msgDecSpec old v).err := by
  unfold msgDecSpec; split <;> rfl

theorem msgDecSpec_err_layer (old : Msg) (v : Bytes) (h : (msgDecSpec old v).err = true) :
    (msgDecSpec old v).layer = old := by
  unfold msgDecSpec at h ⊢
  by_cases hl : v.length < 20
  · rw [if_pos hl]
  · rw [if_neg hl] at h; cases h

theorem msgDecSpec_ok_layer (old : Msg) (v : Bytes) (h : (msgDecSpec old v).err = false) :
    (msgDecSpec old v).layer = msgLayer v ∧ 20 ≤ v.length := by
  unfold msgDecSpec at h ⊢
  by_cases hl : v.length < 20
  · rw [if_pos hl] at h; cases h
  · rw [if_neg hl]; exact ⟨rfl, by omega⟩

/-! ## 5. The DecodingLayerParser loop -/

theorem lt_q_ne_ic : ¬ (LayerTypeMLDv1MulticastListenerQuery = LayerTypeICMPv6) := by decide
theorem lt_r_ne_ic : ¬ (LayerTypeMLDv1MulticastListenerReport = LayerTypeICMPv6) := by decide
theorem lt_d_ne_ic : ¬ (LayerTypeMLDv1MulticastListenerDone = LayerTypeICMPv6) := by decide
theorem lt_r_ne_q : ¬ (LayerTypeMLDv1MulticastListenerReport = LayerTypeMLDv1MulticastListenerQuery) := by decide
theorem lt_d_ne_q : ¬ (LayerTypeMLDv1MulticastListenerDone = LayerTypeMLDv1MulticastListenerQuery) := by decide
theorem lt_d_ne_r : ¬ (LayerTypeMLDv1MulticastListenerDone = LayerTypeMLDv1MulticastListenerReport) := by decide

/-- `dlpAfter` for a layer whose next type is LayerTypeZero always ends the loop with `nil`. -/
theorem dlpAfter_zero (st : DlpState) (typ : Nat) (pl tail : Bytes) :
    dlpAfter st typ LayerTypeZero pl tail = .stop { st with decoded := st.decoded ++ [typ] } 0 := by
  unfold dlpAfter
  simp only
  split
  · rfl
  · have : dlpHas LayerTypeZero = false := by decide
    simp [this]

/-- One iteration on one of the three MLDv1 layers: always the last one. -/
theorem dlpStep_mld (k : Kind) (st : DlpState) (data : GSlice) :
    ∃ st' code, dlpStep st k.layerType data = .ok (.stop st' code) ∧ (code = 0 ∨ code = 1) := by
  cases k
  · simp only [dlpStep, Kind.layerType, if_neg lt_q_ne_ic, if_true, decode_spec, Res.bind_ok, pure]
    split
    · exact ⟨_, _, rfl, Or.inr rfl⟩
    · exact ⟨_, _, by rw [Msg.nextLayerType, dlpAfter_zero], Or.inl rfl⟩
  · simp only [dlpStep, Kind.layerType, if_neg lt_r_ne_ic, if_neg lt_r_ne_q, if_true, decode_spec,
      Res.bind_ok, pure]
    split
    · exact ⟨_, _, rfl, Or.inr rfl⟩
    · exact ⟨_, _, by rw [Msg.nextLayerType, dlpAfter_zero], Or.inl rfl⟩
  · simp only [dlpStep, Kind.layerType, if_neg lt_d_ne_ic, if_neg lt_d_ne_q, if_neg lt_d_ne_r, if_true,
      decode_spec, Res.bind_ok, pure]
    split
    · exact ⟨_, _, rfl, Or.inr rfl⟩
    · exact ⟨_, _, by rw [Msg.nextLayerType, dlpAfter_zero], Or.inl rfl⟩

/-- The next type ICMPv6 announces is never ICMPv6 itself. -/
theorem ic_next_ne_ic (l : Icmp6) : l.nextLayerType ≠ LayerTypeICMPv6 := by
  unfold Icmp6.nextLayerType
  simp only
  repeat' split
  all_goals decide

/-- A member of the parser's set other than ICMPv6 is one of the three MLDv1 types. -/
theorem dlpHas_cases (t : Nat) (h : dlpHas t = true) (hn : t ≠ LayerTypeICMPv6) :
    ∃ k : Kind, t = k.layerType := by
  unfold dlpHas at h
  simp only [decide_eq_true_eq] at h
  rcases h with h | h | h | h
  · exact absurd h hn
  · exact ⟨.query, h⟩
  · exact ⟨.report, h⟩
  · exact ⟨.done, h⟩

/-- One iteration on ICMPv6: it stops, or goes on with one of the three MLDv1 types. -/
theorem dlpStep_icmp (st : DlpState) (data : GSlice) :
    (∃ st' code, dlpStep st LayerTypeICMPv6 data = .ok (.stop st' code) ∧ code ≠ 9) ∨
    (∃ st' k rest, dlpStep st LayerTypeICMPv6 data = .ok (.more st' (Kind.layerType k) rest)) := by
  simp only [dlpStep, if_true, Icmp6.decode_spec, Res.bind_ok, pure]
  split
  · exact Or.inl ⟨_, _, rfl, by decide⟩
  · unfold dlpAfter
    simp only
    split
    · exact Or.inl ⟨_, _, rfl, by decide⟩
    · split
      · rename_i hh
        obtain ⟨k, hk⟩ := dlpHas_cases _ hh (ic_next_ne_ic _)
        rw [hk]
        exact Or.inr ⟨_, k, _, rfl⟩
      · split
        · exact Or.inl ⟨_, _, rfl, by decide⟩
        · exact Or.inl ⟨_, _, rfl, by decide⟩

/-- Every iteration either ends the loop (never with the out-of-fuel code 9) or — only from
    ICMPv6 — goes on with one of the three MLDv1 types. -/
theorem dlpStep_total (st : DlpState) (typ : Nat) (data : GSlice) :
    (∃ st' code, dlpStep st typ data = .ok (.stop st' code) ∧ code ≠ 9) ∨
    (∃ st' k rest, dlpStep st typ data = .ok (.more st' (Kind.layerType k) rest)) := by
  by_cases h1 : typ = LayerTypeICMPv6
  · rw [h1]; exact dlpStep_icmp st data
  · by_cases h2 : typ = LayerTypeMLDv1MulticastListenerQuery
    · obtain ⟨st', code, hs, hc⟩ := dlpStep_mld .query st data
      rw [h2]; exact Or.inl ⟨st', code, hs, by rcases hc with hc | hc <;> (rw [hc]; decide)⟩
    · by_cases h3 : typ = LayerTypeMLDv1MulticastListenerReport
      · obtain ⟨st', code, hs, hc⟩ := dlpStep_mld .report st data
        rw [h3]; exact Or.inl ⟨st', code, hs, by rcases hc with hc | hc <;> (rw [hc]; decide)⟩
      · by_cases h4 : typ = LayerTypeMLDv1MulticastListenerDone
        · obtain ⟨st', code, hs, hc⟩ := dlpStep_mld .done st data
          rw [h4]; exact Or.inl ⟨st', code, hs, by rcases hc with hc | hc <;> (rw [hc]; decide)⟩
        · refine Or.inl ⟨st, if typ = LayerTypeZero then 0 else 2, ?_, ?_⟩
          · simp only [dlpStep, if_neg h1, if_neg h2, if_neg h3, if_neg h4, pure]
          · split <;> decide

theorem dlpLoop_succ (fuel : Nat) (st : DlpState) (typ : Nat) (data : GSlice) :
    dlpLoop (fuel + 1) st typ data =
      match dlpStep st typ data with
      | .panic k => .panic k
      | .err e => .err e
      | .ok (.stop st' code) => .ok (st', code)
      | .ok (.more st' typ' rest) => dlpLoop fuel st' typ' rest := by
  rw [dlpLoop]
  cases dlpStep st typ data with
  | panic k => rfl
  | err e => rfl
  | ok n => cases n <;> rfl

/-- From one of the MLDv1 types one unit of fuel is enough. -/
theorem dlpLoop_mld (fuel : Nat) (k : Kind) (st : DlpState) (data : GSlice) :
    ∃ st' code, dlpLoop (fuel + 1) st k.layerType data = .ok (st', code) ∧ (code = 0 ∨ code = 1) ∧
      dlpLoop 1 st k.layerType data = .ok (st', code) := by
  obtain ⟨st', code, hs, hc⟩ := dlpStep_mld k st data
  refine ⟨st', code, ?_, hc, ?_⟩
  · rw [dlpLoop_succ, hs]
  · rw [dlpLoop_succ, hs]

/-- Two iterations always suffice: every larger amount of fuel gives the same run, and the run
    never ends with the out-of-fuel code. -/
theorem dlpLoop_fuel (fuel : Nat) (h : 2 ≤ fuel) (st : DlpState) (typ : Nat) (data : GSlice) :
    dlpLoop fuel st typ data = dlpLoop 2 st typ data ∧
    ∃ st' code, dlpLoop 2 st typ data = .ok (st', code) ∧ code ≠ 9 := by
  obtain ⟨f, rfl⟩ : ∃ f, fuel = f + 2 := ⟨fuel - 2, by omega⟩
  rw [dlpLoop_succ (f + 1), dlpLoop_succ 1]
  rcases dlpStep_total st typ data with ⟨st', code, hs, hc⟩ | ⟨st', k, rest, hs⟩
  · rw [hs]; exact ⟨rfl, st', code, rfl, hc⟩
  · rw [hs]
    simp only
    obtain ⟨st2, code, h1, hc, h2⟩ := dlpLoop_mld f k st' rest
    rw [h1, h2]
    exact ⟨rfl, st2, code, rfl, by rcases hc with hc | hc <;> (rw [hc]; decide)⟩

theorem dlpLoop_no_panic (st : DlpState) (typ : Nat) (data : GSlice) (k : PanicKind) :
    dlpLoop 2 st typ data ≠ .panic k := by
  obtain ⟨-, st', code, h, -⟩ := dlpLoop_fuel 2 (Nat.le_refl 2) st typ data
  rw [h]; exact fun h => nomatch h

end Gp.Mld
