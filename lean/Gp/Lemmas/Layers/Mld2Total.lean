import Gp.Lemmas.Layers.Mld2Ser
/-
  Helper lemmas for engine `lmld2`, part 6: the serializers return (never panic) on EVERY buffer
  record, also ones violating the C18 invariant: no bounds check in them depends on the buffer, only
  on the length of the window PrependBytes handed out.  Core Lean only.
-/
namespace Gp.Mld2
open Gp Gp.SBuf Gp.C18 Gp.Mld Gp.Gen.Mld2

theorem write_ok (b : SBuf) (w : Win) (i : Nat) (v : UInt8) (hi : i < w.n) : ∃ b', write b w i v = .ok b' := by
  unfold write
  rw [if_pos hi]
  split <;> exact ⟨_, rfl⟩

theorem putUint16_ok (b : SBuf) (w : Win) (v : Nat) (h : 2 ≤ w.n) : ∃ b', putUint16 b w v = .ok b' := by
  unfold putUint16; rw [if_neg (by omega)]; exact ⟨_, rfl⟩

theorem serSrcs_ok (sl : Bool) : ∀ (xs : List Bytes) (b : SBuf), ∃ r, serSrcs sl xs b = .ok r := by
  intro xs
  induction xs with
  | nil => intro b; exact ⟨_, rfl⟩
  | cons a rest ih =>
    intro b
    unfold serSrcs
    simp only
    cases to16 a with
    | none => exact ⟨_, rfl⟩
    | some a16 =>
      simp only
      cases sl
      · simp only [Bool.false_eq_true, if_false, pure, Res.bind_ok]
        exact ih _
      · have hw : winSlice (prepend b 16).2 0 16 =
            Res.ok { gen := (prepend b 16).2.gen, off := (prepend b 16).2.off + 0, n := 16 - 0 } := by
          unfold winSlice; rw [if_pos (by exact ⟨by omega, Nat.le_refl _⟩)]
        simp only [if_true]
        rw [hw, Res.bind_ok]
        exact ih _

theorem query_header_ok (l : Query) (b : SBuf) (w : Win) (hn : w.n = 24) : ∃ o, Query.header l b w = .ok o := by
  unfold Query.header
  have s02 : winSlice w 0 2 = .ok { gen := w.gen, off := w.off + 0, n := 2 - 0 } := by
    unfold winSlice; rw [if_pos (by omega)]
  have s24 : winSlice w 2 4 = .ok { gen := w.gen, off := w.off + 2, n := 4 - 2 } := by
    unfold winSlice; rw [if_pos (by omega)]
  have s420 : winSlice w 4 20 = .ok { gen := w.gen, off := w.off + 4, n := 20 - 4 } := by
    unfold winSlice; rw [if_pos (by omega)]
  have s2224 : winSlice w 22 24 = .ok { gen := w.gen, off := w.off + 22, n := 24 - 22 } := by
    unfold winSlice; rw [if_pos (by omega)]
  rw [s02, Res.bind_ok]
  obtain ⟨b1, e1⟩ := putUint16_ok b { gen := w.gen, off := w.off + 0, n := 2 - 0 } l.mrc (by simp only; omega)
  rw [e1, Res.bind_ok, s24, Res.bind_ok]
  cases to16 l.addr with
  | none => exact ⟨_, rfl⟩
  | some ma16 =>
    simp only
    rw [s420, Res.bind_ok]
    obtain ⟨b2, e2⟩ := write_ok (copyTo (copyTo b1 { gen := w.gen, off := w.off + 2, n := 4 - 2 } [0, 0])
      { gen := w.gen, off := w.off + 4, n := 20 - 4 } ma16) w 20 (u8 (byte20 l)) (by omega)
    rw [e2, Res.bind_ok, s2224, Res.bind_ok]
    obtain ⟨b3, e3⟩ := putUint16_ok b2 { gen := w.gen, off := w.off + 22, n := 24 - 22 } l.n (by simp only; omega)
    rw [e3, Res.bind_ok]
    obtain ⟨b4, e4⟩ := write_ok b3 w 21 (u8 l.qqic) (by omega)
    rw [e4, Res.bind_ok]
    exact ⟨_, rfl⟩

theorem query_serializeTo_ok (l : Query) (b : SBuf) (fix csum : Bool) : ∃ o, l.serializeTo b fix csum = .ok o := by
  unfold Query.serializeTo
  split
  · exact ⟨_, rfl⟩
  · unfold Query.serializeFixed
    obtain ⟨r, hr⟩ := serSrcs_ok true (if fix = true then { l with n := l.srcs.length } else l).srcs.reverse b
    rw [hr, Res.bind_ok]
    split
    · exact ⟨_, rfl⟩
    · exact query_header_ok _ _ _ rfl

theorem rec_header_ok (r : Rec) (b : SBuf) (w : Win) (hn : w.n = 20) : ∃ o, Rec.header r b w = .ok o := by
  unfold Rec.header
  have s24 : winSlice w 2 4 = .ok { gen := w.gen, off := w.off + 2, n := 4 - 2 } := by
    unfold winSlice; rw [if_pos (by omega)]
  have s420 : winSlice w 4 20 = .ok { gen := w.gen, off := w.off + 4, n := 20 - 4 } := by
    unfold winSlice; rw [if_pos (by omega)]
  obtain ⟨b1, e1⟩ := write_ok b w 0 (u8 r.typ) (by omega)
  rw [e1, Res.bind_ok]
  obtain ⟨b2, e2⟩ := write_ok b1 w 1 (u8 r.auxLen) (by omega)
  rw [e2, Res.bind_ok, s24, Res.bind_ok]
  obtain ⟨b3, e3⟩ := putUint16_ok b2 { gen := w.gen, off := w.off + 2, n := 4 - 2 } r.n (by simp only; omega)
  rw [e3, Res.bind_ok]
  cases to16 r.addr with
  | none => exact ⟨_, rfl⟩
  | some ma16 => simp only; rw [s420, Res.bind_ok]; exact ⟨_, rfl⟩

theorem rec_serialize_ok (pad : Bytes → Bytes) (r : Rec) (b : SBuf) (fix : Bool) :
    ∃ o, Rec.serializeWith pad r b fix = .ok o := by
  unfold Rec.serializeWith
  simp only
  split
  · exact ⟨_, rfl⟩
  · split
    · exact ⟨_, rfl⟩
    · unfold Rec.serializeTail
      obtain ⟨s, hs⟩ := serSrcs_ok false (Rec.fixN (Rec.fixAux pad r fix) fix).srcs.reverse
        (copyTo (prepend b (Rec.fixAux pad r fix).aux.length).1 (prepend b (Rec.fixAux pad r fix).aux.length).2
          (Rec.fixAux pad r fix).aux)
      rw [hs, Res.bind_ok]
      split
      · exact ⟨_, rfl⟩
      · exact rec_header_ok _ _ _ rfl

theorem serRecs_ok (pad : Bytes → Bytes) (fix : Bool) : ∀ (xs : List Rec) (b : SBuf), ∃ t, serRecs pad fix xs b = .ok t := by
  intro xs
  induction xs with
  | nil => intro b; exact ⟨_, rfl⟩
  | cons r rest ih =>
    intro b
    unfold serRecs
    obtain ⟨o, ho⟩ := rec_serialize_ok pad r b fix
    rw [ho, Res.bind_ok]
    split
    · exact ⟨_, rfl⟩
    · obtain ⟨t, ht⟩ := ih o.buf
      rw [ht, Res.bind_ok]
      exact ⟨_, rfl⟩

theorem report_serialize_ok (pad : Bytes → Bytes) (l : Report) (b : SBuf) (fix csum : Bool) :
    ∃ o, Report.serializeWith pad l b fix csum = .ok o := by
  unfold Report.serializeWith
  obtain ⟨t, ht⟩ := serRecs_ok pad fix l.recs.reverse b
  rw [ht, Res.bind_ok]
  simp only
  split
  · exact ⟨_, rfl⟩
  · split
    · exact ⟨_, rfl⟩
    · have hn : (prepend t.1 4).2.n = 4 := rfl
      generalize (prepend t.1 4).2 = w at hn
      generalize (prepend t.1 4).1 = b1
      have s02 : winSlice w 0 2 = .ok { gen := w.gen, off := w.off + 0, n := 2 - 0 } := by
        unfold winSlice; rw [if_pos (by omega)]
      have s24 : winSlice w 2 4 = .ok { gen := w.gen, off := w.off + 2, n := 4 - 2 } := by
        unfold winSlice; rw [if_pos (by omega)]
      rw [s02, Res.bind_ok, s24, Res.bind_ok]
      obtain ⟨b3, e3⟩ := putUint16_ok (copyTo b1 { gen := w.gen, off := w.off + 0, n := 2 - 0 } [0, 0])
        { gen := w.gen, off := w.off + 2, n := 4 - 2 }
        (if fix = true then ({ l with recs := t.2.1.reverse, nrec := t.2.1.reverse.length } : Report)
          else { l with recs := t.2.1.reverse }).nrec (by simp only; omega)
      rw [e3, Res.bind_ok]
      exact ⟨_, rfl⟩

end Gp.Mld2
