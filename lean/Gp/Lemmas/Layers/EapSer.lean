import Gp.Lemmas.Layers.Eap
/-
  Helper lemmas for engine `leap`, part 3: serialization over the C18 buffer model.  Core Lean only.

  Section 1 holds the *definitions* used in property statements (functional specifications of the
  three SerializeTo methods, the observable view `serView`); the rest is proof machinery.
-/
namespace Gp.Eap
open Gp Gp.SBuf Gp.C18 Gp.Gen.Eap

/-! ## 1. Definitions used in property statements -/

/-- Functional specification of a SerializeTo call: the receiver afterwards, whether an error was
    returned, and (when not) the bytes the buffer then holds. -/
structure SerSpec (L : Type) where
  layer : L
  err   : Bool
  bytes : Bytes
  deriving Repr, DecidableEq

/-- What a caller can observe of a SerializeTo call: the receiver afterwards, the error flag and,
    when no error was returned, the bytes in the buffer (`Bytes()`); not the buffer's internals. -/
def serView {L : Type} (r : Res (SerOut L)) : Res (SerSpec L) :=
  match r with
  | .ok o => .ok { layer := o.layer, err := o.err, bytes := if o.err then [] else SBuf.contents o.buf }
  | .err k => .err k
  | .panic k => .panic k

/-- The EAP receiver after the FixLengths assignment (with leap-1: the length of the whole packet). -/
def eapFixed (l : EAP) (fix : Bool) : EAP :=
  if fix then { l with length := eapSize l % 65536 } else l

/-- All bytes of the EAP layer: Code, Id, Length, then Type and TypeData when there is a Type. -/
def eapEncode (l : EAP) : Bytes :=
  [u8 l.code, u8 l.id] ++ putBe16 l.length ++ (if eapSize l > 4 then u8 l.typ :: l.typeData else [])

def eapSerSpec (l : EAP) (p : Bytes) (fix : Bool) : SerSpec EAP :=
  { layer := eapFixed l fix, err := false, bytes := eapEncode (eapFixed l fix) ++ p }

def eapolEncode (l : EAPOL) : Bytes := [u8 l.version, u8 l.typ] ++ putBe16 l.length

def eapolSerSpec (l : EAPOL) (p : Bytes) : SerSpec EAPOL :=
  { layer := l, err := false, bytes := eapolEncode l ++ p }

/-- A fixed-size field written from a slice of any length (with leap-4): the first `n` bytes of the
    slice, zero padded. -/
def pad (n : Nat) (x : Bytes) : Bytes := x.take n ++ zeros (n - x.length)

/-- All bytes of the EAPOL-Key layer (with leap-4). -/
def keyEncode (l : EAPOLKey) : Bytes :=
  [u8 l.keyDescriptorType] ++ putBe16 (keyInfo l) ++ putBe16 l.keyLength ++ putBe64 l.replayCounter ++
    pad 32 l.nonce ++ pad 16 l.iv ++ putBe64 l.rsc ++ putBe64 l.id ++ pad 16 l.mic ++
    putBe16 l.keyDataLength ++ l.encryptedKeyData

def keySerSpec (l : EAPOLKey) (p : Bytes) : SerSpec EAPOLKey :=
  { layer := l, err := false, bytes := keyEncode l ++ p }

/-! ## 2. Writing a window front to back -/

/-- A store of `vs` through a current window positioned right behind the already written prefix `W`
    of the contents replaces the next `|vs|` bytes. -/
theorem fill_next (b : SBuf) (h : Inv b) (w : Win) (W R vs : Bytes)
    (hg : w.gen = b.gen) (ho : w.off = b.start + W.length) (hc : contents b = W ++ R)
    (hv : vs.length ≤ R.length) :
    contents (fill b w vs) = (W ++ vs) ++ R.drop vs.length ∧ Inv (fill b w vs) ∧
    (fill b w vs).start = b.start ∧ (fill b w vs).gen = b.gen := by
  have hcl := contents_length b h
  rw [hc, List.length_append] at hcl
  have h' := h
  obtain ⟨i1, i2, i3⟩ := h
  have h1 : b.start ≤ w.off := by omega
  have h2 : w.off + vs.length ≤ b.len := by omega
  refine ⟨?_, inv_fill' b w vs h' (by omega), (fill_fields b w vs).1, (fill_fields b w vs).2.2.2.1⟩
  rw [fill_contents b w vs h' hg h1 h2, hc]
  have : w.off - b.start = W.length := by omega
  rw [this, List.take_left' rfl, List.drop_length_add_append]

/-- The same for a single indexed store `w[i] = v`. -/
theorem write_next (b : SBuf) (h : Inv b) (w : Win) (i : Nat) (v : UInt8) (W R : Bytes)
    (hg : w.gen = b.gen) (hi : i < w.n) (ho : w.off + i = b.start + W.length)
    (hc : contents b = W ++ R) (hr : 1 ≤ R.length) :
    ∃ b', write b w i v = .ok b' ∧ contents b' = (W ++ [v]) ++ R.drop 1 ∧ Inv b' ∧
      b'.start = b.start ∧ b'.gen = b.gen := by
  refine ⟨_, write_current b w i v hg hi, ?_, inv_set b _ v h, rfl, rfl⟩
  rw [contents_set b (w.off + i) v (by omega), hc]
  have : w.off + i - b.start = W.length := by omega
  rw [this]
  cases R with
  | nil => simp at hr
  | cons r rs => simp

theorem putBe16_length (v : Nat) : (putBe16 v).length = 2 := rfl
theorem putBe32_length (v : Nat) : (putBe32 v).length = 4 := rfl
theorem putBe64_length (v : Nat) : (putBe64 v).length = 8 := rfl

theorem pad_length (n : Nat) (x : Bytes) : (pad n x).length = n := by
  unfold pad; rw [List.length_append, List.length_take, zeros_length]; omega

/-- What is known about the buffer and the window right after `PrependBytes(n)`. -/
theorem prepend_facts (b : SBuf) (n : Nat) (h : Inv b) :
    Inv (prepend b n).1 ∧ (prepend b n).2.n = n ∧ (prepend b n).2.gen = (prepend b n).1.gen ∧
    (prepend b n).2.off = (prepend b n).1.start ∧
    (contents (prepend b n).1).length = n + (contents b).length ∧
    (contents (prepend b n).1).drop n = contents b :=
  ⟨inv_prepend' b n h, rfl, rfl, rfl, prepend_contents_length b n h, prepend_contents_drop b n h⟩

/-- The state of a serializer that writes its window front to back: `buf` is the current window of
    `b`, the contents were `C` right after PrependBytes, and the first `|W|` bytes have been replaced
    by `W` so far. -/
def Track (b : SBuf) (buf : Win) (C W : Bytes) : Prop :=
  Inv b ∧ buf.gen = b.gen ∧ buf.off = b.start ∧ contents b = W ++ C.drop W.length ∧ W.length ≤ C.length

theorem track_init (b : SBuf) (buf : Win) (h : Inv b) (hg : buf.gen = b.gen) (ho : buf.off = b.start) :
    Track b buf (contents b) [] := ⟨h, hg, ho, rfl, Nat.zero_le _⟩

/-- `buf[i] = v` at the front. -/
theorem write_track (b : SBuf) (buf : Win) (C W : Bytes) (i : Nat) (v : UInt8) (t : Track b buf C W)
    (hi : i = W.length) (hn : i < buf.n) (hC : W.length + 1 ≤ C.length) :
    ∃ b', write b buf i v = .ok b' ∧ Track b' buf C (W ++ [v]) := by
  obtain ⟨h, hg, ho, hc, -⟩ := t
  obtain ⟨b', e, c, i', s, g⟩ := write_next b h buf i v W (C.drop W.length) hg hn (by omega) hc
    (by rw [List.length_drop]; omega)
  refine ⟨b', e, i', by rw [g]; exact hg, by rw [s]; exact ho, ?_, by simp; omega⟩
  rw [c, List.drop_drop, List.length_append, List.length_singleton]

/-- a store of `vs` through the sub-window `buf[a:e]` positioned at the front -/
theorem fill_track (b : SBuf) (buf : Win) (C W vs : Bytes) (a n : Nat) (t : Track b buf C W)
    (ha : a = W.length) (hv : vs.length ≤ n) (hC : W.length + vs.length ≤ C.length) :
    Track (fill b { gen := buf.gen, off := buf.off + a, n := n } vs) buf C (W ++ vs) := by
  obtain ⟨h, hg, ho, hc, -⟩ := t
  obtain ⟨c, i', s, g⟩ := fill_next b h { gen := buf.gen, off := buf.off + a, n := n } W (C.drop W.length) vs
    hg (by simp only; omega) hc (by rw [List.length_drop]; omega)
  refine ⟨i', by rw [g]; exact hg, by rw [s]; exact ho, ?_, by rw [List.length_append]; omega⟩
  rw [c, List.drop_drop, List.length_append]

theorem winSlice_ok (w : Win) (a e : Nat) (h1 : a ≤ e) (h2 : e ≤ w.n) :
    winSlice w a e = .ok { gen := w.gen, off := w.off + a, n := e - a } := by
  unfold winSlice; rw [if_pos ⟨h1, h2⟩]

theorem winFrom_ok (w : Win) (a : Nat) (h : a ≤ w.n) :
    winFrom w a = .ok { gen := w.gen, off := w.off + a, n := w.n - a } := by
  unfold winFrom; rw [if_pos h]

theorem put16At_track (b : SBuf) (buf : Win) (C W : Bytes) (a v : Nat) (t : Track b buf C W)
    (ha : a = W.length) (hn : a + 2 ≤ buf.n) (hC : W.length + 2 ≤ C.length) :
    ∃ b', put16At b buf a v = .ok b' ∧ Track b' buf C (W ++ putBe16 v) := by
  unfold put16At
  rw [winSlice_ok buf a (a + 2) (by omega) hn, Res.bind_ok]
  unfold putUint16
  rw [if_neg (by simp only; omega)]
  exact ⟨_, rfl, fill_track b buf C W (putBe16 v) a _ t ha (by rw [putBe16_length]; omega)
    (by rw [putBe16_length]; omega)⟩

theorem put64At_track (b : SBuf) (buf : Win) (C W : Bytes) (a v : Nat) (t : Track b buf C W)
    (ha : a = W.length) (hn : a + 8 ≤ buf.n) (hC : W.length + 8 ≤ C.length) :
    ∃ b', put64At b buf a v = .ok b' ∧ Track b' buf C (W ++ putBe64 v) := by
  unfold put64At
  rw [winSlice_ok buf a (a + 8) (by omega) hn, Res.bind_ok]
  unfold putUint64
  rw [if_neg (by simp only; omega)]
  exact ⟨_, rfl, fill_track b buf C W (putBe64 v) a _ t ha (by rw [putBe64_length]; omega)
    (by rw [putBe64_length]; omega)⟩

/-- Overwriting the front of a region that was just written: `W ++ X` becomes `W ++ (vs ++ X.drop |vs|)`. -/
theorem fill_over (b : SBuf) (buf : Win) (C W X vs : Bytes) (a n : Nat) (t : Track b buf C (W ++ X))
    (ha : a = W.length) (hv : vs.length ≤ X.length) :
    Track (fill b { gen := buf.gen, off := buf.off + a, n := n } vs) buf C (W ++ (vs ++ X.drop vs.length)) := by
  obtain ⟨h, hg, ho, hc, hl⟩ := t
  rw [List.append_assoc] at hc
  obtain ⟨c, i', s, g⟩ := fill_next b h { gen := buf.gen, off := buf.off + a, n := n } W
    (X ++ C.drop (W ++ X).length) vs hg (by simp only; omega) hc (by rw [List.length_append]; omega)
  refine ⟨i', by rw [g]; exact hg, by rw [s]; exact ho, ?_, ?_⟩
  · rw [c, List.drop_append_of_le_length hv]
    have : (W ++ (vs ++ X.drop vs.length)).length = (W ++ X).length := by
      simp only [List.length_append, List.length_drop]; omega
    rw [this]; simp [List.append_assoc]
  · have : (W ++ (vs ++ X.drop vs.length)).length = (W ++ X).length := by
      simp only [List.length_append, List.length_drop]; omega
    rw [this]; exact hl

theorem zeros_take (m n : Nat) : (zeros m).take n = zeros (min n m) := by
  unfold zeros; rw [List.take_replicate]

theorem zeros_drop (m n : Nat) : (zeros m).drop n = zeros (m - n) := by
  unfold zeros; rw [List.drop_replicate]

/-- `copy(buf[a:e], lotsOfZeros[:]); copy(buf[a:e], src)` at the front writes the zero-padded field. -/
theorem copyField_track (b : SBuf) (buf : Win) (C W src : Bytes) (a e n : Nat) (t : Track b buf C W)
    (ha : a = W.length) (he : e = a + n) (hn : e ≤ buf.n) (hC : W.length + n ≤ C.length) (h1024 : n ≤ 1024) :
    ∃ b', copyField true b buf a e src = .ok b' ∧ Track b' buf C (W ++ pad n src) := by
  unfold copyField
  rw [winSlice_ok buf a e (by omega) hn, Res.bind_ok]
  simp only [if_true, Res.bind_ok, pure, copyTo]
  have en : e - a = n := by omega
  rw [en, zeros_take, Nat.min_eq_left h1024]
  have t1 := fill_track b buf C W (zeros n) a n t ha (by rw [zeros_length]; omega) (by rw [zeros_length]; omega)
  have t2 := fill_over _ buf C W (zeros n) (src.take n) a n t1 ha
    (by rw [List.length_take, zeros_length]; omega)
  refine ⟨_, rfl, ?_⟩
  have : src.take n ++ (zeros n).drop (src.take n).length = pad n src := by
    unfold pad
    rw [zeros_drop, List.length_take]
    congr 2
    omega
  rw [this] at t2
  exact t2

/-- the final `copy(buf[a:a+m], src)` of a slice that fits exactly -/
theorem copyExact_track (b : SBuf) (buf : Win) (C W src : Bytes) (a : Nat) (t : Track b buf C W)
    (ha : a = W.length) (hn : a + src.length ≤ buf.n) (hC : W.length + src.length ≤ C.length) :
    ∃ w, winSlice buf a (a + src.length) = .ok w ∧ Track (copyTo b w src) buf C (W ++ src) := by
  refine ⟨_, winSlice_ok buf a (a + src.length) (by omega) hn, ?_⟩
  unfold copyTo
  simp only [Nat.add_sub_cancel_left, List.take_length]
  exact fill_track b buf C W src a _ t ha (Nat.le_refl _) hC

/-- What a finished front-to-back serializer has produced. -/
theorem track_done (b b0 : SBuf) (buf : Win) (W : Bytes) (t : Track b buf (contents (prepend b0 W.length).1) W)
    (h0 : Inv b0) : Inv b ∧ contents b = W ++ contents b0 := by
  obtain ⟨h, -, -, hc, -⟩ := t
  exact ⟨h, by rw [hc, prepend_contents_drop b0 W.length h0]⟩

/-! ## 3. Stores succeed on EVERY buffer (no invariant needed) -/

theorem write_ok (b : SBuf) (w : Win) (i : Nat) (v : UInt8) (h : i < w.n) : ∃ b', write b w i v = .ok b' := by
  unfold write; rw [if_pos h]; split <;> exact ⟨_, rfl⟩

theorem put16At_ok (b : SBuf) (buf : Win) (a v : Nat) (h : a + 2 ≤ buf.n) : ∃ b', put16At b buf a v = .ok b' := by
  unfold put16At
  rw [winSlice_ok buf a (a + 2) (by omega) h, Res.bind_ok]
  unfold putUint16
  rw [if_neg (by simp only; omega)]
  exact ⟨_, rfl⟩

theorem put64At_ok (b : SBuf) (buf : Win) (a v : Nat) (h : a + 8 ≤ buf.n) : ∃ b', put64At b buf a v = .ok b' := by
  unfold put64At
  rw [winSlice_ok buf a (a + 8) (by omega) h, Res.bind_ok]
  unfold putUint64
  rw [if_neg (by simp only; omega)]
  exact ⟨_, rfl⟩

theorem copyField_ok (zp : Bool) (b : SBuf) (buf : Win) (a e : Nat) (src : Bytes) (h1 : a ≤ e) (h2 : e ≤ buf.n) :
    ∃ b', copyField zp b buf a e src = .ok b' := by
  unfold copyField
  rw [winSlice_ok buf a e h1 h2, Res.bind_ok]
  exact ⟨_, rfl⟩

/-! ## 4. EAPOL -/

theorem eapol_serializeTo_refines (l : EAPOL) (b : SBuf) (fix csum : Bool) (h : Inv b) :
    ∃ o, l.serializeTo b fix csum = .ok o ∧ Inv o.buf ∧ o.layer = l ∧ o.err = false ∧
      contents o.buf = eapolEncode l ++ contents b := by
  unfold EAPOL.serializeTo
  obtain ⟨hi1, hn, hgen, hoff, hlen, hdrop⟩ := prepend_facts b 4 h
  have hC : contents (prepend b 4).1 = contents (prepend b (eapolEncode l).length).1 := rfl
  generalize hr : prepend b 4 = r at hi1 hn hgen hoff hlen hdrop hC
  obtain ⟨b1, buf⟩ := r
  simp only at hi1 hn hgen hoff hlen hdrop hC
  have t0 := track_init b1 buf hi1 hgen hoff
  obtain ⟨b2, e2, t2⟩ := write_track b1 buf _ [] 0 (u8 l.version) t0 rfl (by omega) (by simp; omega)
  obtain ⟨b3, e3, t3⟩ := write_track b2 buf _ _ 1 (u8 l.typ) t2 rfl (by omega) (by simp; omega)
  simp only [Res.bind_ok, pure]
  rw [e2, Res.bind_ok, e3, Res.bind_ok, winFrom_ok buf 2 (by omega), Res.bind_ok]
  unfold putUint16
  rw [if_neg (by simp only; omega)]
  have t4 := fill_track b3 buf _ _ (putBe16 l.length) 2 (buf.n - 2) t3 rfl (by rw [putBe16_length]; omega)
    (by simp [putBe16_length]; omega)
  rw [hC] at t4
  obtain ⟨i4, c4⟩ := track_done _ b buf (([] ++ [u8 l.version]) ++ [u8 l.typ] ++ putBe16 l.length) t4 h
  exact ⟨_, rfl, i4, rfl, rfl, c4⟩

theorem eapol_serializeTo_ok (l : EAPOL) (b : SBuf) (fix csum : Bool) : ∃ o, l.serializeTo b fix csum = .ok o := by
  unfold EAPOL.serializeTo
  have hn : (prepend b 4).2.n = 4 := rfl
  generalize prepend b 4 = r at hn
  obtain ⟨b1, buf⟩ := r
  simp only at hn
  simp only [Res.bind_ok, pure]
  obtain ⟨b2, e2⟩ := write_ok b1 buf 0 (u8 l.version) (by omega)
  rw [e2, Res.bind_ok]
  obtain ⟨b3, e3⟩ := write_ok b2 buf 1 (u8 l.typ) (by omega)
  rw [e3, Res.bind_ok, winFrom_ok buf 2 (by omega), Res.bind_ok]
  unfold putUint16
  rw [if_neg (by simp only; omega)]
  exact ⟨_, rfl⟩

theorem eapol_serializeTo_no_panic (l : EAPOL) (b : SBuf) (fix csum : Bool) (k : PanicKind) :
    l.serializeTo b fix csum ≠ .panic k := by
  obtain ⟨o, ho⟩ := eapol_serializeTo_ok l b fix csum
  rw [ho]; exact fun h => nomatch h

end Gp.Eap
