import Gp.Lemmas.Layers.Ip6SerIp
/-
  (*IPv6).SerializeTo: the three blocks and panic freedom of the whole.  Core Lean only.
-/
namespace Gp.Ip6
open Gp Gp.SBuf Gp.C18 Gp.Gen.Ip6

/-- The layer with the Length field as written by SerializeTo. -/
def ip6FixLength (l : IPv6) (fix jumbo : Bool) (pLen : Nat) : IPv6 :=
  { l with length := if fix then (if jumbo then 0 else pLen % 65536) else l.length }

theorem ip6HeaderStep_eq (l : IPv6) (b : SBuf) (fix jumbo : Bool) (pLen : Nat) (h : Inv b) :
    ip6HeaderStep l b fix jumbo pLen =
      if (!jumbo && decide (pLen > maxPayloadLength)) = true then .err "Cannot fit payload into IPv6 header"
      else if l.srcIP.length ≠ 16 then .err "Invalid source IPv6 address"
      else if l.dstIP.length ≠ 16 then .err "Invalid destination IPv6 address"
      else .ok (step b (.prepend (ip6HdrBytes (ip6FixLength l fix jumbo pLen)
                  ((ip6FixLength l fix jumbo pLen).length % 65536))),
                ip6FixLength l fix jumbo pLen) := by
  unfold ip6HeaderStep
  split
  · rfl
  · dsimp only
    have hst := ip6HeaderStores_eq (ip6FixLength l fix jumbo pLen)
      ((ip6FixLength l fix jumbo pLen).length % 65536) (staleWin b 40) (staleWin_length b 40 h)
    have hsrc : (ip6FixLength l fix jumbo pLen).srcIP = l.srcIP := rfl
    have hdst : (ip6FixLength l fix jumbo pLen).dstIP = l.dstIP := rfl
    rw [hsrc, hdst] at hst
    show (match prependWith b 40 (ip6HeaderStores (ip6FixLength l fix jumbo pLen)
        ((ip6FixLength l fix jumbo pLen).length % 65536)) with
      | .ok b => Res.ok (b, ip6FixLength l fix jumbo pLen)
      | .err e => .err e
      | .panic k => .panic k) = _
    by_cases hs : l.srcIP.length ≠ 16
    · rw [if_pos hs] at hst
      rw [prependWith_err _ _ _ _ hst, if_pos hs]
    · rw [if_neg hs] at hst
      by_cases hd : l.dstIP.length ≠ 16
      · rw [if_pos hd] at hst
        rw [prependWith_err _ _ _ _ hst, if_neg hs, if_pos hd]
      · rw [if_neg hd] at hst
        rw [prependWith_ok _ _ _ _ hst (ip6HdrBytes_length _ _ (by rw [hsrc]; omega) (by rw [hdst]; omega)),
          if_neg hs, if_neg hd]

theorem ip6HeaderStep_ne_panic (l : IPv6) (b : SBuf) (fix jumbo : Bool) (pLen : Nat) (h : Inv b)
    (k : PanicKind) : ip6HeaderStep l b fix jumbo pLen ≠ .panic k := by
  rw [ip6HeaderStep_eq l b fix jumbo pLen h]
  split
  · simp
  · split
    · simp
    · split <;> simp

/-- Second block: never panics; a successful outcome leaves a buffer satisfying the invariant. -/
theorem ip6HbhStep_ok (l : IPv6) (b : SBuf) (fix jumbo : Bool) (h : Inv b)
    (hj : jumbo = true → 65535 < (contents b).length) :
    (∃ e, ip6HbhStep l b fix jumbo = .err e) ∨
    (∃ b' l' n, ip6HbhStep l b fix jumbo = .ok (b', l', n) ∧ Inv b') := by
  unfold ip6HbhStep
  match l.hopByHop with
  | none => exact Or.inr ⟨_, _, _, rfl, h⟩
  | some hb =>
    dsimp only
    split
    · exact Or.inr ⟨_, _, _, rfl, h⟩
    · obtain ⟨out, hol, -, heq⟩ := serializeTlvExt_eq hb b fix h
      rw [heq]
      split
      · exact Or.inl ⟨_, rfl⟩
      · obtain ⟨hc, hi, -⟩ := ext_result_contents b out [u8 hb.base.nextHeader, u8 (extHdrLen fix hb)] h
        simp only [Res.bind_ok]
        split
        · rename_i hfj
          have hjt : jumbo = true := by simp at hfj; exact hfj.2
          have hlen : 65535 < (contents (step (step b (.prepend out))
              (.prepend [u8 hb.base.nextHeader, u8 (extHdrLen fix hb)]))).length := by
            rw [hc]; simp only [List.length_append]; have := hj hjt; omega
          rcases setPayloadJumboLength_ok _ hlen with ⟨p', hp, hpl⟩ | ⟨e, he⟩
          · rw [hp]
            exact Or.inr ⟨_, _, _, rfl, (setContents_spec _ p' hi hpl).2.1⟩
          · rw [he]; exact Or.inl ⟨_, rfl⟩
        · exact Or.inr ⟨_, _, _, rfl, hi⟩

/-- (*IPv6).SerializeTo never panics, for every value of the layer's fields, every payload and
    every buffer history. -/
theorem serializeIPv6_ne_panic (l : IPv6) (b : SBuf) (fix : Bool) (h : Inv b) (k : PanicKind) :
    serializeIPv6 l b fix ≠ .panic k := by
  unfold serializeIPv6
  dsimp only
  match hp : ip6JumboPrep l fix (decide ((contents b).length > maxPayloadLength)) with
  | .panic k' => exact absurd hp (ip6JumboPrep_ne_panic _ _ _ k')
  | .err e => simp
  | .ok l1 =>
    simp only [Res.bind_ok]
    have hj : decide ((contents b).length > maxPayloadLength) = true → 65535 < (contents b).length := by
      intro hd; simpa [maxPayloadLength] using hd
    rcases ip6HbhStep_ok l1 b fix _ h hj with ⟨e, he⟩ | ⟨b', l', n, hok, hi⟩
    · rw [he]; simp
    · rw [hok]
      simp only [Res.bind_ok]
      exact ip6HeaderStep_ne_panic _ _ _ _ _ hi k

end Gp.Ip6
