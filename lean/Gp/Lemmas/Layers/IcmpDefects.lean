import Gp.Lemmas.Layers.IcmpRt
/-
  The three defects of the PINNED tree in this layer, reproduced on models of the pre-fix code
  (`…Orig` definitions of Gp/Model/Layers/Icmp.lean).  They are documentation: the property
  theorems in Gp/Props/C06|C07/Icmp.lean are about the tree with proposed_fixes/licmp-1…3
  applied, and on an unfixed tree the correspondence run and the monitors of gp-licmp report the
  same inputs on the real code (signatures licmp:roundtrip:Options, licmp:roundtrip:Payload,
  licmp:dirty-buffer).
-/
namespace Gp.Icmp
open Gp Gp.SBuf

def twoOpts : List Opt := [⟨1, [1, 2, 3, 4, 5, 6]⟩, ⟨5, [0, 0, 0, 0, 5, 220]⟩]

/-- licmp-1 (C06): `for _, opt := range opts { PrependBytes … }` writes the list REVERSED, so a
    Neighbor Solicitation with two in-range options comes back with the options swapped. -/
theorem roundtrip_options_counterexample_prefix :
    (match serializeNSOrig { targetAddress := List.replicate 16 9, options := twoOpts } (new 0 0) ⟨true, true⟩ with
     | .ok (b', _) => (match decodeNS {} ⟨contents b', []⟩ with | .ok d => d.layer.options | _ => [])
     | _ => []) = twoOpts.reverse := by decide

/-- … while the fixed loop returns them in order. -/
theorem roundtrip_options_fixed :
    (match serializeNS { targetAddress := List.replicate 16 9, options := twoOpts } (new 0 0) ⟨true, true⟩ with
     | .ok (b', _) => (match decodeNS {} ⟨contents b', []⟩ with | .ok d => d.layer.options | _ => [])
     | _ => []) = twoOpts := by decide

/-- licmp-2 (C06): the pinned ICMPv6Echo decoder never sets BaseLayer, so the echo data written
    under the layer is not reported as its payload (and NewPacket adds no Payload layer). -/
theorem roundtrip_echo_counterexample_prefix :
    (match serializeEcho { identifier := 7, seqNumber := 9 } (step (new 0 0) (.prepend [0x61, 0x62])) ⟨true, true⟩ with
     | .ok (b', _) => (match decodeEchoOrig {} ⟨contents b', []⟩ with | .ok d => d.layer.payload | _ => [0])
     | _ => [0]) = [] := by decide

theorem roundtrip_echo_fixed :
    (match serializeEcho { identifier := 7, seqNumber := 9 } (step (new 0 0) (.prepend [0x61, 0x62])) ⟨true, true⟩ with
     | .ok (b', _) => (match decodeEcho {} ⟨contents b', []⟩ with | .ok d => d.layer.payload | _ => [0])
     | _ => [0]) = [0x61, 0x62] := by decide

/-- A buffer that held 64 bytes of 0xa5 and was cleared (same contents as a fresh one: none). -/
def dirtyBuf : SBuf := clear (step (new 0 0) (.prepend (List.replicate 64 0xa5)))

/-- licmp-3 (C07): with a 4-byte TargetAddress the pinned serializer `copy`s 4 bytes into the 16
    requested ones and never writes the other 12: a dirty buffer leaks its old bytes into the
    packet, a fresh buffer gives zeros — same contents before, different output after. -/
theorem buffer_independent_counterexample_prefix :
    contents dirtyBuf = contents (new 0 0) ∧
    outOf (serializeNSOrig { targetAddress := [10, 0, 0, 1] } dirtyBuf ⟨true, true⟩) ≠
    outOf (serializeNSOrig { targetAddress := [10, 0, 0, 1] } (new 0 0) ⟨true, true⟩) := by decide

/-- … the fixed serializer refuses the layer in both. -/
theorem buffer_independent_fixed :
    outOf (serializeNS { targetAddress := [10, 0, 0, 1] } dirtyBuf ⟨true, true⟩) =
    outOf (serializeNS { targetAddress := [10, 0, 0, 1] } (new 0 0) ⟨true, true⟩) := by decide

end Gp.Icmp
