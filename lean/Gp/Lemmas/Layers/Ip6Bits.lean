import Gp.Go.Basic
/-
  Bit/byte arithmetic used by the round-trip proofs of ip6.go.  Core Lean only.
-/
namespace Gp.Ip6
open Gp

theorem u8_toNat (n : Nat) (h : n < 256) : (u8 n).toNat = n := by
  unfold u8
  rw [Nat.mod_eq_of_lt h]
  exact UInt8.toNat_ofNat_of_lt' h

theorem u8_toNat_mod (n : Nat) : (u8 n).toNat = n % 256 := by
  unfold u8
  exact UInt8.toNat_ofNat_of_lt' (Nat.mod_lt _ (by decide))

theorem u8_eq_zero_iff (n : Nat) (h : n < 256) : u8 n = 0 ↔ n = 0 := by
  constructor
  · intro hz
    have := congrArg UInt8.toNat hz
    rw [u8_toNat n h] at this
    simpa using this
  · intro hz; subst hz; rfl

/-- `a*2^k ||| b = a*2^k + b` for `b < 2^k`. -/
theorem mul_or_lt (a b k : Nat) (h : b < 2 ^ k) : (a * 2 ^ k) ||| b = a * 2 ^ k + b := by
  rw [← Nat.shiftLeft_eq, Nat.shiftLeft_add_eq_or_of_lt h]

theorem or16 (a b : Nat) (h : b < 16) : (a * 16) ||| b = a * 16 + b := mul_or_lt a b 4 h
theorem or8 (a b : Nat) (h : b < 8) : (a * 8) ||| b = a * 8 + b := mul_or_lt a b 3 h
theorem or2 (a b : Nat) (h : b < 2) : (a * 2) ||| b = a * 2 + b := mul_or_lt a b 1 h

end Gp.Ip6
