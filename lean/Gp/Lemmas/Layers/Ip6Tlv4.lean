import Gp.Lemmas.Layers.Ip6Tlv3
/-
  serializeIPv6HeaderTLVOptions: closed form of the bytes written (gap-free option lists).
-/
namespace Gp.Ip6
open Gp

theorem encLoop_map_fixOpt (fix : Bool) : ∀ (os : List Tlv) (length : Nat),
    encLoop fix (os.map (fixOpt fix)) length = encLoop fix os length := by
  intro os
  induction os with
  | nil => intro length; rfl
  | cons o os ih =>
    intro length
    simp only [List.map_cons, encLoop, alignPad_fixOpt, fixOpt_idem, ih]

theorem encLen_map_fixOpt (fix : Bool) (os : List Tlv) : encLen fix (os.map (fixOpt fix)) = encLen fix os := by
  unfold encLen; rw [encLoop_map_fixOpt]

theorem encOpts_map_fixOpt (fix : Bool) (os : List Tlv) : encOpts fix (os.map (fixOpt fix)) = encOpts fix os := by
  unfold encOpts; rw [encLoop_map_fixOpt]

theorem map_fixOpt_idem (fix : Bool) (os : List Tlv) :
    (os.map (fixOpt fix)).map (fixOpt fix) = os.map (fixOpt fix) := by
  rw [List.map_map]
  apply List.map_congr_left
  intro o _
  exact fixOpt_idem fix o

theorem gapFree_map (fix : Bool) (os : List Tlv) (h : GapFree fix os) : GapFree fix (os.map (fixOpt fix)) := by
  intro o ho ht
  rw [List.mem_map] at ho
  obtain ⟨o0, hm, rfl⟩ := ho
  rw [fixOpt_idem, fixOpt_bytes]
  rw [fixOpt_typ] at ht
  exact h o0 hm ht

theorem alignInRange_map (fix : Bool) (os : List Tlv) (h : AlignInRange os) :
    AlignInRange (os.map (fixOpt fix)) := by
  intro o ho
  rw [List.mem_map] at ho
  obtain ⟨o0, hm, rfl⟩ := ho
  rw [(fixOpt_align fix o0).1, (fixOpt_align fix o0).2]
  exact h o0 hm

/-- length of the bytes produced by the loop = advance of the running length -/
theorem encLoop_length (fix : Bool) : ∀ (os : List Tlv) (length : Nat), GapFree fix os →
    (encLoop fix os length).1.length + length = (encLoop fix os length).2 := by
  intro os
  induction os with
  | nil => intro length _; simp [encLoop]
  | cons o os ih =>
    intro length hg
    simp only [encLoop, List.length_append, padBytes_length]
    have hgo : (fixOpt fix o).typ ≠ 0 → (fixOpt fix o).len ≤ (fixOpt fix o).bytes.length := by
      intro ht
      rw [fixOpt_typ] at ht
      rw [fixOpt_bytes]
      exact hg o (List.mem_cons_self) ht
    rw [optBytes_length _ hgo]
    have := ih (length + alignPad fix o length + optLen (fixOpt fix o))
      (fun o' ho' => hg o' (List.mem_cons_of_mem _ ho'))
    omega

/-- The loop on `done ++ rest`, writing at the boundary: everything up to the final running length
    is determined by the options alone; only the unused tail `rest'` depends on the stale bytes. -/
theorem tlvOptsLoop_boundary (fix : Bool) : ∀ (os : List Tlv) (done rest : Bytes) (length : Nat),
    2 ≤ length → done.length + 2 = length → GapFree fix os → AlignInRange os →
    (encLoop fix os length).2 ≤ length + rest.length →
    ∃ rest', tlvOptsLoop fix os (some (done ++ rest)) length =
        .ok (os.map (fixOpt fix), some (done ++ (encLoop fix os length).1 ++ rest'),
             (encLoop fix os length).2) ∧
      rest'.length + (encLoop fix os length).2 = length + rest.length := by
  intro os
  induction os with
  | nil =>
    intro done rest length _ _ _ _ _
    exact ⟨rest, by simp [tlvOptsLoop, encLoop], by simp [encLoop]; omega⟩
  | cons o os ih =>
    intro done rest length h2 hd hg hr hroom
    simp only [encLoop] at hroom ⊢
    have hge := encLoop_ge fix os (length + alignPad fix o length + optLen (fixOpt fix o))
    have hgo : o.typ ≠ 0 → (fixOpt fix o).len ≤ o.bytes.length := hg o List.mem_cons_self
    have hgo' : (fixOpt fix o).typ ≠ 0 → (fixOpt fix o).len ≤ (fixOpt fix o).bytes.length := by
      intro ht; rw [fixOpt_typ] at ht; rw [fixOpt_bytes]; exact hgo ht
    unfold tlvOptsLoop
    -- alignment padding
    have hal : ∃ rest1, alignStep (some (done ++ rest)) fix o length =
        .ok (some (done ++ padBytes (alignPad fix o length) ++ rest1), length + alignPad fix o length) ∧
        rest1.length + alignPad fix o length = rest.length := by
      rcases alignPad_pos_cases fix o length with ⟨h0, h⟩ | ⟨-, h⟩
      · exact ⟨rest, by rw [h, h0]; simp [padBytes], by omega⟩
      · obtain ⟨r1, hb1, hl1⟩ := padMaybe_some_boundary done rest (length - 2) (alignPad fix o length)
          (by omega) (by omega) (alignPad_lt fix o length (hr o List.mem_cons_self))
        exact ⟨r1, by rw [h, hb1]; rfl, hl1⟩
    obtain ⟨rest1, ha, hl1⟩ := hal
    rw [ha]
    simp only [Res.bind_ok, sliceCheck]
    have hdl : (done ++ padBytes (alignPad fix o length)).length = length + alignPad fix o length - 2 := by
      simp [padBytes_length]; omega
    rw [if_pos (by simp [padBytes_length]; omega)]
    simp only [Res.bind_ok]
    obtain ⟨rest2, hs, hl2⟩ := tlvSerializeTo_boundary o (done ++ padBytes (alignPad fix o length)) rest1
      (length + alignPad fix o length - 2) fix hdl.symm (by omega) hgo
    rw [hs]
    simp only [Res.bind_ok]
    obtain ⟨rest3, hrr, hl3⟩ := ih (done ++ padBytes (alignPad fix o length) ++ optBytes (fixOpt fix o)) rest2
      (length + alignPad fix o length + optLen (fixOpt fix o)) (by omega)
      (by simp [padBytes_length, optBytes_length _ hgo']; omega)
      (fun o' ho' => hg o' (List.mem_cons_of_mem _ ho'))
      (fun o' ho' => hr o' (List.mem_cons_of_mem _ ho')) (by omega)
    rw [hrr]
    refine ⟨rest3, ?_, by omega⟩
    simp [List.append_assoc]

/-- Real run on a window of exactly the dry-run length: the window ends up holding `encOpts`,
    whatever it held before. -/
theorem serializeTlvOptions_closed (fix : Bool) (os : List Tlv) (stale : Bytes)
    (hl : stale.length = encLen fix os) (hg : GapFree fix os) (hr : AlignInRange os) :
    serializeTlvOptions (some stale) os fix = .ok (os.map (fixOpt fix), some (encOpts fix os), encLen fix os) := by
  unfold serializeTlvOptions
  have hge := encLoop_ge fix os 2
  have hlen := encLoop_length fix os 2 hg
  unfold encLen at hl
  obtain ⟨rest1, h1, hl1⟩ := tlvOptsLoop_boundary fix os [] stale 2 (Nat.le_refl _) rfl hg hr
    (by dsimp only at hl; split at hl <;> omega)
  simp only [List.nil_append] at h1
  rw [h1]
  simp only [Res.bind_ok]
  unfold encOpts encLen
  by_cases hf : fix = true
  · subst hf
    simp only [if_true] at hl ⊢
    by_cases hp : finalPad (encLoop true os 2).2 ≠ 0
    · have hfp : finalPad (encLoop true os 2).2 < 256 := by unfold finalPad; omega
      obtain ⟨rest2, h2, hl2⟩ := padMaybe_some_boundary (encLoop true os 2).1 rest1 ((encLoop true os 2).2 - 2)
        (finalPad (encLoop true os 2).2) (by omega) (by omega) hfp
      have hr2 : rest2 = [] := by
        apply List.eq_nil_of_length_eq_zero; omega
      subst hr2
      simp only [hp, if_true, h2, Res.bind_ok, Res.pure_eq_ok, ne_eq, not_false_eq_true, List.append_nil]
    · have hz : finalPad (encLoop true os 2).2 = 0 := by omega
      have hr1 : rest1 = [] := by
        apply List.eq_nil_of_length_eq_zero; omega
      subst hr1
      simp [hz, padBytes]
  · have hff : fix = false := by cases fix <;> simp_all
    subst hff
    have hr1 : rest1 = [] := by
      apply List.eq_nil_of_length_eq_zero
      simp only [Bool.false_eq_true, if_false] at hl; omega
    subst hr1
    simp

end Gp.Ip6
