import Gp.Lemmas.Layers.GreSer
/-
  Helper lemmas for the GRE codec (engine `lgre`).

  Part 3: the well-formedness predicate `wf` (the statement-level definition of C06) and the
  decode-after-encode computation on the specification level: `specDecode (encode l ++ p)` gives
  `l` back for every well-formed `l`; every layer the specification produces is well-formed.
-/
namespace Gp.Gre
open Gp Gp.SBuf

/-! ### definitions used in the property statements -/

instance (r : SRE) : Decidable (SREOk r) := by unfold SREOk; infer_instance

/-- In-range, consistent values of the public fields — the layers for which the round trip is
    claimed: every field fits its wire width; Flags bit 4 and AckPresent are the same wire bit;
    fields of absent optional words are zero; no SRE chain without the R bit; every SRE carries
    exactly SRELength bytes and is not the NULL terminator. -/
def wf (l : Layer) : Prop :=
  l.recursionControl < 8 ∧ l.flags < 32 ∧ l.version < 8 ∧ l.protocol < 65536 ∧
  l.checksum < 65536 ∧ l.offset < 65536 ∧
  l.key < 4294967296 ∧ l.seq < 4294967296 ∧ l.ack < 4294967296 ∧
  (l.ackPresent = true ↔ 16 ≤ l.flags) ∧
  ((l.checksumPresent || l.routingPresent) = false → l.checksum = 0 ∧ l.offset = 0) ∧
  (l.keyPresent = false → l.key = 0) ∧
  (l.seqPresent = false → l.seq = 0) ∧
  (l.ackPresent = false → l.ack = 0) ∧
  (l.routingPresent = false → l.routing = []) ∧
  (∀ r ∈ l.routing, SREOk r)

instance (l : Layer) : Decidable (wf l) := by unfold wf; infer_instance

/-- field equivalence `≈`: all public fields except BaseLayer (Contents/Payload). -/
def sameFields (a b : Layer) : Prop :=
  { a with contents := [], payload := [] } = { b with contents := [], payload := [] }

instance (a b : Layer) : Decidable (sameFields a b) := by unfold sameFields; infer_instance

/-! ### bytes and bits -/

theorem u8_toNat (n : Nat) : (u8 n).toNat = n % 256 := by
  unfold u8
  simp

theorem be16_putBe16 (n : Nat) (h : n < 65536) : be16 (u8 (n / 256)) (u8 n) = n := by
  unfold be16; rw [u8_toNat, u8_toNat]; omega

theorem be32_putBe32 (n : Nat) (h : n < 4294967296) :
    be32 (u8 (n / 16777216)) (u8 (n / 65536)) (u8 (n / 256)) (u8 n) = n := by
  unfold be32; simp only [u8_toNat]; omega

theorem n0_bits : ∀ (cp rp kp sp ssr : Bool) (rc : Nat), rc < 8 →
    let x := (0 ||| (if cp then 0x80 else 0) ||| (if rp then 0x40 else 0) ||| (if kp then 0x20 else 0)
      ||| (if sp then 0x10 else 0) ||| (if ssr then 0x08 else 0) ||| rc % 256) % 256
    ((x &&& 0x80 != 0) = cp ∧ (x &&& 0x40 != 0) = rp ∧ (x &&& 0x20 != 0) = kp
      ∧ (x &&& 0x10 != 0) = sp ∧ (x &&& 0x08 != 0) = ssr ∧ (x &&& 0x7) = rc) := by decide

theorem n1_bits : ∀ (ap : Bool) (fl : Nat), fl < 16 → ∀ ver : Nat, ver < 8 →
    let f := fl + (if ap then 16 else 0)
    let x := (0 ||| (if ap then 0x80 else 0) ||| ((f % 256) <<< 3) % 256 ||| ver % 256) % 256
    ((x &&& 0x80 != 0) = ap ∧ (x >>> 3) = f ∧ (x &&& 0x7) = ver) := by decide

theorem byte0_bits (l : Layer) (h : l.recursionControl < 8) :
    ((byte0 l).toNat &&& 0x80 != 0) = l.checksumPresent ∧
    ((byte0 l).toNat &&& 0x40 != 0) = l.routingPresent ∧
    ((byte0 l).toNat &&& 0x20 != 0) = l.keyPresent ∧
    ((byte0 l).toNat &&& 0x10 != 0) = l.seqPresent ∧
    ((byte0 l).toNat &&& 0x08 != 0) = l.strictSourceRoute ∧
    ((byte0 l).toNat &&& 0x7) = l.recursionControl := by
  unfold byte0
  rw [u8_toNat]
  exact n0_bits l.checksumPresent l.routingPresent l.keyPresent l.seqPresent l.strictSourceRoute
    l.recursionControl h

theorem byte1_bits (l : Layer) (hf : l.flags < 32) (hv : l.version < 8)
    (ha : l.ackPresent = true ↔ 16 ≤ l.flags) :
    ((byte1 l).toNat &&& 0x80 != 0) = l.ackPresent ∧
    ((byte1 l).toNat >>> 3) = l.flags ∧
    ((byte1 l).toNat &&& 0x7) = l.version := by
  unfold byte1
  rw [u8_toNat]
  have hfl : l.flags = (l.flags % 16) + (if l.ackPresent then 16 else 0) := by
    cases hap : l.ackPresent with
    | true => have := ha.mp hap; simp; omega
    | false =>
      have : ¬ 16 ≤ l.flags := fun h => by have := ha.mpr h; rw [hap] at this; cases this
      simp; omega
  have := n1_bits l.ackPresent (l.flags % 16) (by omega) l.version hv
  simp only at this
  rw [← hfl] at this
  exact this

/-! ### decode ∘ encode on the specification level -/

theorem specU32_encode (p : Bool) (v : Nat) (rest : Bytes) (hv : v < 4294967296) (h0 : p = false → v = 0) :
    specU32 p ((if p then putBe32 v else []) ++ rest) = some (v, rest) := by
  cases p with
  | false => simp [specU32, h0 rfl]
  | true => simp [specU32, putBe32, be32_putBe32 v hv]

theorem specCsumOff_encode (p : Bool) (c o : Nat) (rest : Bytes) (hc : c < 65536) (ho : o < 65536)
    (h0 : p = false → c = 0 ∧ o = 0) :
    specCsumOff p ((if p then putBe16 c ++ putBe16 o else []) ++ rest) = some (c, o, rest) := by
  cases p with
  | false => simp [specCsumOff, (h0 rfl).1, (h0 rfl).2]
  | true => simp [specCsumOff, putBe16, be16_putBe16 c hc, be16_putBe16 o ho]

theorem encSREs_ok_cons (r : SRE) (rs : List SRE) (h : SREOk r) :
    encSREs (r :: rs) = u8 (r.addressFamily / 256) :: u8 r.addressFamily :: u8 r.sreOffset :: u8 r.sreLength
      :: (r.routingInformation ++ encSREs rs) := by
  obtain ⟨_, _, _, hl, _⟩ := h
  simp only [encSREs, putBe16, hl, Nat.min_self, Nat.sub_self, zeros, List.replicate_zero, List.append_nil,
    List.cons_append, List.nil_append, List.append_assoc]
  rw [← hl, List.take_length]

theorem specRouting_encode (rest : Bytes) :
    ∀ (rs : List SRE) (fuel : Nat), (∀ r ∈ rs, SREOk r) → rs.length < fuel →
      specRouting fuel (encSREs rs ++ putBe32 0 ++ rest) = some (rs, rest) := by
  intro rs
  induction rs with
  | nil =>
    intro fuel _ hf
    match fuel, hf with
    | fuel + 1, _ =>
      simp [encSREs, putBe32, specRouting, u8, be16]
  | cons r rs ih =>
    intro fuel hok hf
    match fuel, hf with
    | fuel + 1, hf =>
      have hr : SREOk r := hok r (List.mem_cons_self)
      obtain ⟨haf, hso, hsl, hlen, hnt⟩ := hr
      rw [encSREs_ok_cons r rs (hok r (List.mem_cons_self))]
      simp only [List.cons_append, specRouting]
      have e1 : (u8 r.sreLength).toNat = r.sreLength := by rw [u8_toNat]; omega
      have e2 : (u8 r.sreOffset).toNat = r.sreOffset := by rw [u8_toNat]; omega
      have e3 : be16 (u8 (r.addressFamily / 256)) (u8 r.addressFamily) = r.addressFamily :=
        be16_putBe16 _ haf
      rw [e1, e2, e3]
      rw [if_neg (by simp only [List.length_append]; omega), if_neg hnt]
      have hd : (r.routingInformation ++ encSREs rs ++ putBe32 0 ++ rest).drop r.sreLength
          = encSREs rs ++ putBe32 0 ++ rest := by
        rw [List.append_assoc, List.append_assoc, ← hlen, List.drop_left]
        simp [List.append_assoc]
      have ht : (r.routingInformation ++ encSREs rs ++ putBe32 0 ++ rest).take r.sreLength
          = r.routingInformation := by
        rw [List.append_assoc, List.append_assoc, ← hlen, List.take_left]
      simp only [List.append_assoc] at hd ht ⊢
      rw [hd, ht]
      have := ih fuel (fun x hx => hok x (List.mem_cons_of_mem _ hx)) (by simpa using hf)
      simp only [List.append_assoc] at this
      rw [this]

theorem rs_length_le_sreSize (rs : List SRE) : rs.length ≤ sreSize rs := by
  induction rs with
  | nil => simp [sreSize]
  | cons r rs ih => simp [sreSize]; omega

/-- the specification decodes an encoded well-formed layer (followed by any payload) back to it. -/
theorem specDecode_encode (l : Layer) (p : Bytes) (h : wf l) :
    specDecode (encode l ++ p) = some { l with contents := encode l, payload := p } := by
  obtain ⟨hrc, hfl, hver, hproto, hcs, hoff, hkey, hseq, hack, hap, hco0, hk0, hs0, ha0, hr0, hsre⟩ := h
  obtain ⟨b1, b2, b3, b4, b5, b6⟩ := byte0_bits l hrc
  obtain ⟨c1, c2, c3⟩ := byte1_bits l hfl hver hap
  have hlen : (encode l ++ p).length = headerSize l + p.length := by
    rw [List.length_append, encode, encodeWith_length l _ rfl]
  have htake : (encode l ++ p).take ((encode l ++ p).length - p.length) = encode l := by
    rw [List.length_append, Nat.add_sub_cancel, List.take_left]
  generalize hdata : encode l ++ p = data at hlen htake
  have hshape : data = byte0 l :: byte1 l :: u8 (l.protocol / 256) :: u8 l.protocol ::
      ((if (l.checksumPresent || l.routingPresent) then putBe16 l.checksum ++ putBe16 l.offset else [])
        ++ ((if l.keyPresent then putBe32 l.key else [])
        ++ ((if l.seqPresent then putBe32 l.seq else [])
        ++ ((if l.routingPresent then encSREs l.routing ++ putBe32 0 else [])
        ++ ((if l.ackPresent then putBe32 l.ack else []) ++ p))))) := by
    rw [← hdata]
    simp [encode, encodeWith, putBe16, List.append_assoc]
  have hfuel : l.routing.length < data.length := by
    have := rs_length_le_sreSize l.routing
    rw [hlen]; unfold headerSize
    cases hrp : l.routingPresent with
    | false => rw [hr0 hrp]; simp; omega
    | true => simp; omega
  have hrt : (if l.routingPresent then
      specRouting data.length ((if l.routingPresent then encSREs l.routing ++ putBe32 0 else [])
        ++ ((if l.ackPresent then putBe32 l.ack else []) ++ p))
      else some ([], (if l.routingPresent then encSREs l.routing ++ putBe32 0 else [])
        ++ ((if l.ackPresent then putBe32 l.ack else []) ++ p)))
      = some (l.routing, (if l.ackPresent then putBe32 l.ack else []) ++ p) := by
    cases hrp : l.routingPresent with
    | false => simp [hr0 hrp]
    | true =>
      simp only [if_true]
      have := specRouting_encode ((if l.ackPresent then putBe32 l.ack else []) ++ p) l.routing data.length hsre hfuel
      simp only [List.append_assoc] at this ⊢
      exact this
  rw [hshape]
  unfold specDecode
  simp only [b1, b2, b3, b4, b5, b6, c1, c2, c3]
  rw [specCsumOff_encode _ _ _ _ hcs hoff hco0]
  simp only
  rw [specU32_encode _ _ _ hkey hk0]
  simp only
  rw [specU32_encode _ _ _ hseq hs0]
  simp only
  rw [← hshape, hrt]
  simp only
  rw [specU32_encode _ _ _ hack ha0]
  simp only
  rw [htake, be16_putBe16 _ hproto]

/-! ### every decoded layer is well-formed -/

theorem specRouting_ok : ∀ (fuel : Nat) (bs : Bytes) (rs : List SRE) (r : Bytes),
    specRouting fuel bs = some (rs, r) → ∀ x ∈ rs, SREOk x := by
  intro fuel
  induction fuel with
  | zero => intro bs rs r h; simp [specRouting] at h
  | succ fuel ih =>
    intro bs rs r h
    match bs with
    | [] => simp [specRouting] at h
    | [_] => simp [specRouting] at h
    | [_, _] => simp [specRouting] at h
    | [_, _, _] => simp [specRouting] at h
    | a0 :: a1 :: so :: sl :: rest =>
      simp only [specRouting] at h
      by_cases hl : rest.length < sl.toNat
      · rw [if_pos hl] at h; cases h
      · rw [if_neg hl] at h
        by_cases hterm : be16 a0 a1 = 0 ∧ sl.toNat = 0
        · rw [if_pos hterm] at h
          simp only [Option.some.injEq, Prod.mk.injEq] at h
          intro x hx; rw [← h.1] at hx; cases hx
        · rw [if_neg hterm] at h
          cases hrec : specRouting fuel (rest.drop sl.toNat) with
          | none => rw [hrec] at h; cases h
          | some y =>
            obtain ⟨rs', r'⟩ := y
            rw [hrec] at h
            simp only [Option.some.injEq, Prod.mk.injEq] at h
            intro x hx
            rw [← h.1] at hx
            rcases List.mem_cons.mp hx with hx | hx
            · subst hx
              refine ⟨be16_lt a0 a1, so.toNat_lt, sl.toNat_lt, ?_, hterm⟩
              simp [List.length_take]; omega
            · exact ih _ _ _ hrec x hx

theorem specU32_lt (p : Bool) (bs : Bytes) (v : Nat) (r : Bytes) (h : specU32 p bs = some (v, r)) :
    v < 4294967296 ∧ (p = false → v = 0) := by
  unfold specU32 at h
  cases p with
  | false => simp at h; exact ⟨by omega, fun _ => h.1.symm⟩
  | true =>
    simp only [if_true] at h
    split at h
    · simp only [Option.some.injEq, Prod.mk.injEq] at h
      rw [← h.1]; exact ⟨be32_lt _ _ _ _, fun h => by cases h⟩
    · cases h

theorem specCsumOff_lt (p : Bool) (bs : Bytes) (c o : Nat) (r : Bytes) (h : specCsumOff p bs = some (c, o, r)) :
    c < 65536 ∧ o < 65536 ∧ (p = false → c = 0 ∧ o = 0) := by
  unfold specCsumOff at h
  cases p with
  | false => simp at h; exact ⟨by omega, by omega, fun _ => ⟨h.1.symm, h.2.1.symm⟩⟩
  | true =>
    simp only [if_true] at h
    split at h
    · simp only [Option.some.injEq, Prod.mk.injEq] at h
      rw [← h.1, ← h.2.1]; exact ⟨be16_lt _ _, be16_lt _ _, fun h => by cases h⟩
    · cases h

set_option maxRecDepth 4000 in
theorem ack_flag_bit : ∀ n : Nat, n < 256 → ((n &&& 0x80 != 0) = true ↔ 16 ≤ n >>> 3) := by decide

theorem spec_wf (data : Bytes) (l : Layer) (h : specDecode data = some l) : wf l := by
  unfold specDecode at h
  split at h
  · rename_i d0 d1 p0 p1 r0
    simp only at h
    cases h1 : specCsumOff (d0.toNat &&& 0x80 != 0 || d0.toNat &&& 0x40 != 0) r0 with
    | none => rw [h1] at h; cases h
    | some x1 =>
      obtain ⟨c, o, r1⟩ := x1
      rw [h1] at h; simp only at h
      cases h2 : specU32 (d0.toNat &&& 0x20 != 0) r1 with
      | none => rw [h2] at h; cases h
      | some x2 =>
        obtain ⟨key, r2⟩ := x2
        rw [h2] at h; simp only at h
        cases h3 : specU32 (d0.toNat &&& 0x10 != 0) r2 with
        | none => rw [h3] at h; cases h
        | some x3 =>
          obtain ⟨seq, r3⟩ := x3
          rw [h3] at h; simp only at h
          cases h4 : (if (d0.toNat &&& 0x40 != 0) = true then specRouting (d0 :: d1 :: p0 :: p1 :: r0).length r3 else some ([], r3)) with
          | none => rw [h4] at h; cases h
          | some x4 =>
            obtain ⟨routing, r4⟩ := x4
            rw [h4] at h; simp only at h
            cases h5 : specU32 (d1.toNat &&& 0x80 != 0) r4 with
            | none => rw [h5] at h; cases h
            | some x5 =>
              obtain ⟨ack, r5⟩ := x5
              rw [h5] at h
              simp only [Option.some.injEq] at h
              rw [← h]
              have hd0 := d0.toNat_lt
              have hd1 := d1.toNat_lt
              obtain ⟨k1, k2⟩ := specU32_lt _ _ _ _ h2
              obtain ⟨s1, s2⟩ := specU32_lt _ _ _ _ h3
              obtain ⟨a1, a2⟩ := specU32_lt _ _ _ _ h5
              obtain ⟨c1, c2, c3⟩ := specCsumOff_lt _ _ _ _ _ h1
              refine ⟨?_, ?_, ?_, be16_lt _ _, c1, c2, k1, s1, a1, ?_, c3, k2, s2, a2, ?_, ?_⟩
              · show d0.toNat &&& 7 < 8
                have := @Nat.and_le_right d0.toNat 7; omega
              · show d1.toNat >>> 3 < 32
                rw [Nat.shiftRight_eq_div_pow]; omega
              · show d1.toNat &&& 7 < 8
                have := @Nat.and_le_right d1.toNat 7; omega
              · exact ack_flag_bit d1.toNat (by omega)
              · intro hrp
                show routing = []
                simp only at hrp
                rw [hrp] at h4
                simp at h4
                exact h4.1
              · show ∀ r ∈ routing, SREOk r
                cases hrp : (d0.toNat &&& 0x40 != 0) with
                | false => rw [hrp] at h4; simp at h4; rw [h4.1]; intro r hr; cases hr
                | true => rw [hrp] at h4; simp only [if_true] at h4; exact specRouting_ok _ _ _ _ h4
  · cases h

/-! ### the mutated receiver; dependence on the public fields only -/

theorem fold_lt (c : Nat) : Cksum.fold c < 65536 := by
  unfold Cksum.fold Gp.Gen.Cksum.foldChecksum
  generalize Gen.Cksum.foldChecksum_loop1 4 (Int.ofNat c) = x
  simp only []
  omega

theorem wf_mutated (l : Layer) (opts : Opts) (p : Bytes) (h : wf l) : wf (mutated l opts p) := by
  unfold mutated
  by_cases hc : (l.checksumPresent && opts.computeChecksums) = true
  · rw [if_pos hc]
    have hcp : l.checksumPresent = true := by
      cases hx : l.checksumPresent with
      | true => rfl
      | false => rw [hx] at hc; simp at hc
    obtain ⟨h1, h2, h3, h4, h5, h6, h7, h8, h9, h10, h11, h12, h13, h14, h15, h16⟩ := h
    refine ⟨h1, h2, h3, h4, fold_lt _, h6, h7, h8, h9, h10, ?_, h12, h13, h14, h15, h16⟩
    intro hx
    simp only [hcp, Bool.true_or] at hx
    cases hx
  · rw [if_neg hc]; exact h

theorem mutated_fields (l : Layer) (opts : Opts) (p : Bytes) (cs : Bytes) :
    encodeWith (mutated l opts p) cs = encodeWith l cs := by
  unfold mutated
  split <;> rfl

theorem mutated_checksumPresent (l : Layer) (opts : Opts) (p : Bytes) :
    (mutated l opts p).checksumPresent = l.checksumPresent := by
  unfold mutated
  split <;> rfl

/-- a second SerializeTo over the same payload leaves the receiver as it is. -/
theorem mutated_idem (l : Layer) (opts : Opts) (p : Bytes) :
    mutated (mutated l opts p) opts p = mutated l opts p := by
  by_cases hc : (l.checksumPresent && opts.computeChecksums) = true
  · have e : mutated l opts p =
        { l with checksum := Cksum.fold (Cksum.compute (encodeWith l [0, 0] ++ p) 0) } := by
      unfold mutated; rw [if_pos hc]
    generalize mutated l opts p = m at e
    have e2 : (m.checksumPresent && opts.computeChecksums) = true := by rw [e]; exact hc
    have e3 : encodeWith m [0, 0] = encodeWith l [0, 0] := by rw [e]; rfl
    unfold mutated
    rw [if_pos e2, e3, e]
  · have e : mutated l opts p = l := by unfold mutated; rw [if_neg hc]
    rw [e, e]

/-- BaseLayer fields of the receiver are carried along untouched. -/
theorem mutated_base (l : Layer) (c p : Bytes) (opts : Opts) (P : Bytes) :
    mutated { l with contents := c, payload := p } opts P
      = { mutated l opts P with contents := c, payload := p } := by
  unfold mutated
  split <;> rfl

theorem sameFields_proj (a b : Layer) (h : sameFields a b) :
    a.checksumPresent = b.checksumPresent ∧ a.routingPresent = b.routingPresent ∧
    a.keyPresent = b.keyPresent ∧ a.seqPresent = b.seqPresent ∧
    a.strictSourceRoute = b.strictSourceRoute ∧ a.ackPresent = b.ackPresent ∧
    a.recursionControl = b.recursionControl ∧ a.flags = b.flags ∧ a.version = b.version ∧
    a.protocol = b.protocol ∧ a.checksum = b.checksum ∧ a.offset = b.offset ∧
    a.key = b.key ∧ a.seq = b.seq ∧ a.ack = b.ack ∧ a.routing = b.routing := by
  unfold sameFields at h
  cases a; cases b
  simp only [Layer.mk.injEq] at h
  simp only
  obtain ⟨_, _, h3, h4, h5, h6, h7, h8, h9, h10, h11, h12, h13, h14, h15, h16, h17, h18⟩ := h
  exact ⟨h3, h4, h5, h6, h7, h8, h9, h10, h11, h12, h13, h14, h15, h16, h17, h18⟩

/-- the encoder reads the public fields only (not Contents/Payload). -/
theorem encodeWith_congr (a b : Layer) (h : sameFields a b) (cs : Bytes) :
    encodeWith a cs = encodeWith b cs := by
  obtain ⟨h3, h4, h5, h6, h7, h8, h9, h10, h11, h12, _, h14, h15, h16, h17, h18⟩ := sameFields_proj a b h
  unfold encodeWith byte0 byte1
  rw [h3, h4, h5, h6, h7, h8, h9, h10, h11, h12, h14, h15, h16, h17, h18]

theorem encode_congr (a b : Layer) (h : sameFields a b) : encode a = encode b := by
  unfold encode
  rw [encodeWith_congr a b h, (sameFields_proj a b h).2.2.2.2.2.2.2.2.2.2.1]

theorem encode_mutated_congr (a b : Layer) (h : sameFields a b) (opts : Opts) (p : Bytes) :
    encode (mutated a opts p) = encode (mutated b opts p) := by
  have hp := sameFields_proj a b h
  unfold encode
  rw [mutated_fields, mutated_fields, encodeWith_congr a b h]
  congr 1
  unfold mutated
  rw [hp.1, encodeWith_congr a b h]
  split
  · rfl
  · exact congrArg putBe16 hp.2.2.2.2.2.2.2.2.2.2.1

theorem encode_length_ge_4 (l : Layer) : 4 ≤ (encode l).length := by
  unfold encode
  rw [encodeWith_length l _ rfl]
  unfold headerSize
  omega

theorem specU32_suffix (p : Bool) (bs : Bytes) (v : Nat) (r : Bytes) (h : specU32 p bs = some (v, r)) :
    r <:+ bs := by
  unfold specU32 at h
  cases p with
  | false => simp at h; rw [h.2]; exact List.suffix_refl _
  | true =>
    simp only [if_true] at h
    split at h
    · simp only [Option.some.injEq, Prod.mk.injEq] at h
      rw [← h.2]
      exact ⟨[_, _, _, _], rfl⟩
    · cases h

theorem specCsumOff_suffix (p : Bool) (bs : Bytes) (c o : Nat) (r : Bytes)
    (h : specCsumOff p bs = some (c, o, r)) : r <:+ bs := by
  unfold specCsumOff at h
  cases p with
  | false => simp at h; rw [h.2.2]; exact List.suffix_refl _
  | true =>
    simp only [if_true] at h
    split at h
    · simp only [Option.some.injEq, Prod.mk.injEq] at h
      rw [← h.2.2]
      exact ⟨[_, _, _, _], rfl⟩
    · cases h

theorem specRouting_suffix : ∀ (fuel : Nat) (bs : Bytes) (rs : List SRE) (r : Bytes),
    specRouting fuel bs = some (rs, r) → r <:+ bs := by
  intro fuel
  induction fuel with
  | zero => intro bs rs r h; simp [specRouting] at h
  | succ fuel ih =>
    intro bs rs r h
    match bs with
    | [] => simp [specRouting] at h
    | [_] => simp [specRouting] at h
    | [_, _] => simp [specRouting] at h
    | [_, _, _] => simp [specRouting] at h
    | a0 :: a1 :: so :: sl :: rest =>
      have hdrop : rest.drop sl.toNat <:+ a0 :: a1 :: so :: sl :: rest :=
        List.IsSuffix.trans (List.drop_suffix _ _) ⟨[a0, a1, so, sl], rfl⟩
      simp only [specRouting] at h
      by_cases hl : rest.length < sl.toNat
      · rw [if_pos hl] at h; cases h
      · rw [if_neg hl] at h
        by_cases hterm : be16 a0 a1 = 0 ∧ sl.toNat = 0
        · rw [if_pos hterm] at h
          simp only [Option.some.injEq, Prod.mk.injEq] at h
          rw [← h.2]; exact hdrop
        · rw [if_neg hterm] at h
          cases hrec : specRouting fuel (rest.drop sl.toNat) with
          | none => rw [hrec] at h; cases h
          | some y =>
            obtain ⟨rs', r'⟩ := y
            rw [hrec] at h
            simp only [Option.some.injEq, Prod.mk.injEq] at h
            rw [← h.2]
            exact List.IsSuffix.trans (ih _ _ _ hrec) hdrop

/-- Contents ++ Payload of a decoded layer are the input; the header has at least 4 bytes. -/
theorem spec_partitions (data : Bytes) (l : Layer) (h : specDecode data = some l) :
    l.contents ++ l.payload = data ∧ 4 ≤ l.contents.length := by
  unfold specDecode at h
  split at h
  · rename_i d0 d1 p0 p1 r0
    simp only at h
    cases h1 : specCsumOff (d0.toNat &&& 0x80 != 0 || d0.toNat &&& 0x40 != 0) r0 with
    | none => rw [h1] at h; cases h
    | some x1 =>
      obtain ⟨c, o, r1⟩ := x1
      rw [h1] at h; simp only at h
      cases h2 : specU32 (d0.toNat &&& 0x20 != 0) r1 with
      | none => rw [h2] at h; cases h
      | some x2 =>
        obtain ⟨key, r2⟩ := x2
        rw [h2] at h; simp only at h
        cases h3 : specU32 (d0.toNat &&& 0x10 != 0) r2 with
        | none => rw [h3] at h; cases h
        | some x3 =>
          obtain ⟨seq, r3⟩ := x3
          rw [h3] at h; simp only at h
          cases h4 : (if (d0.toNat &&& 0x40 != 0) = true then specRouting (d0 :: d1 :: p0 :: p1 :: r0).length r3 else some ([], r3)) with
          | none => rw [h4] at h; cases h
          | some x4 =>
            obtain ⟨routing, r4⟩ := x4
            rw [h4] at h; simp only at h
            cases h5 : specU32 (d1.toNat &&& 0x80 != 0) r4 with
            | none => rw [h5] at h; cases h
            | some x5 =>
              obtain ⟨ack, r5⟩ := x5
              rw [h5] at h
              simp only [Option.some.injEq] at h
              rw [← h]
              have s1 := specCsumOff_suffix _ _ _ _ _ h1
              have s2 := specU32_suffix _ _ _ _ h2
              have s3 := specU32_suffix _ _ _ _ h3
              have s4 : r4 <:+ r3 := by
                cases hrp : (d0.toNat &&& 0x40 != 0) with
                | false => rw [hrp] at h4; simp at h4; rw [h4.2]; exact List.suffix_refl _
                | true => rw [hrp] at h4; simp only [if_true] at h4; exact specRouting_suffix _ _ _ _ h4
              have s5 := specU32_suffix _ _ _ _ h5
              have s0 : r0 <:+ d0 :: d1 :: p0 :: p1 :: r0 := ⟨[d0, d1, p0, p1], rfl⟩
              have sall : r5 <:+ r0 := (((s5.trans s4).trans s3).trans s2).trans s1
              have hle := sall.length_le
              obtain ⟨t, ht⟩ := sall.trans s0
              simp only
              constructor
              · rw [← ht]
                simp
              · simp only [List.length_take, List.length_cons]
                omega
  · cases h

/-- the bytes a (successful) serialization leaves in the buffer. -/
def outBytes (r : Res (SBuf × Layer)) : Option Bytes :=
  match r with
  | .ok (b, _) => some (contents b)
  | _ => none

end Gp.Gre
