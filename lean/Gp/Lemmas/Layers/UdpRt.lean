import Gp.Lemmas.Layers.Udp
/-
  UDP layer (engine `ludp`): spec-level lemmas for idempotence, round trip, flows.  Core Lean only.
-/
namespace Gp.Udp
open Gp

theorem fold_lt (c : Nat) : Gp.Cksum.fold c < 65536 := by
  unfold Gp.Cksum.fold Gp.Gen.Cksum.foldChecksum
  generalize Gp.Gen.Cksum.foldChecksum_loop1 4 (Int.ofNat c) = x
  dsimp only
  omega

theorem emitChecksum_lt (s : Nat) : emitChecksum s < 65536 := by
  unfold emitChecksum
  have := fold_lt s
  dsimp only
  split <;> omega

theorem emitChecksum_ne_zero (s : Nat) : emitChecksum s ≠ 0 := by
  unfold emitChecksum
  dsimp only
  split <;> omega

theorem fixedLength_lt (p : Pseudo) (n : Nat) : fixedLength p n < 65536 := by
  unfold fixedLength; split <;> omega

theorem fixedLength_fits (p : Pseudo) (n : Nat) (h : fits p n) :
    fixedLength p n = 0 ∧ n + 8 > 65535 ∨ fixedLength p n = n + 8 ∧ n + 8 ≤ 65535 := by
  unfold fixedLength
  unfold fits at h
  split
  · left; omega
  · right
    rename_i hj
    have : n + 8 ≤ 65535 := by
      rcases h with h | h
      · by_cases hh : n + 8 > 65535
        · exact absurd ⟨h, hh⟩ hj
        · omega
      · exact h
    omega

theorem pseudoOk_sum (p : Pseudo) (h : pseudoOk p) : ∃ s, pseudoSum p = .ok s := by
  cases p with
  | none => exact absurd h (by simp [pseudoOk])
  | v4 s d =>
    simp only [pseudoOk] at h
    simp only [pseudoSum]
    cases hs : to4 s <;> cases hd : to4 d <;> simp_all
  | v6 s d =>
    simp only [pseudoOk] at h
    simp only [pseudoSum, h, and_self, if_true]
    exact ⟨_, rfl⟩

theorem computeChecksum_ok (p : Pseudo) (h : pseudoOk p) (x : Bytes) : ∃ s, computeChecksum p x = .ok s := by
  obtain ⟨s, hs⟩ := pseudoOk_sum p h
  refine ⟨Gp.Cksum.l4sum s Gp.Gen.Udp.ipProtocolUDP x, ?_⟩
  simp only [computeChecksum, hs, bind, Res.bind, pure]

theorem computeChecksum_ok_iff (p : Pseudo) (x : Bytes) (s : Nat) (h : computeChecksum p x = .ok s) : pseudoOk p := by
  cases p with
  | none => simp [computeChecksum, pseudoSum, bind, Res.bind] at h
  | v4 a b =>
    simp only [pseudoOk]
    simp only [computeChecksum, pseudoSum, bind, Res.bind] at h
    cases ha : to4 a <;> cases hb : to4 b <;> simp_all
  | v6 a b =>
    simp only [pseudoOk]
    simp only [computeChecksum, pseudoSum, bind, Res.bind] at h
    by_cases hc : a.length = 16 ∧ b.length = 16
    · exact hc
    · simp [hc] at h

/-- Decoding header ++ payload of a layer value whose Length is 0 or exact. -/
theorem decodeSpec_header (old lf : Layer) (payload : Bytes) (hw : wf lf)
    (hl : lf.length = 0 ∨ lf.length = payload.length + 8) :
    decodeSpec old (header lf ++ payload) =
      { layer := { srcPort := lf.srcPort, dstPort := lf.dstPort, length := lf.length, checksum := lf.checksum,
                   sPort := putBe16 lf.srcPort, dPort := putBe16 lf.dstPort, contents := header lf,
                   payload := payload, pseudo := old.pseudo },
        trunc := false, err := false } := by
  obtain ⟨h1, h2, h3, h4⟩ := hw
  simp only [header, putBe16, List.cons_append, List.nil_append, decodeSpec, be16_u8 _ h1, be16_u8 _ h2,
    be16_u8 _ h3, be16_u8 _ h4]
  rcases hl with hl | hl
  · simp [hl]
  · have : ¬ (payload.length + 8 < lf.length) := by omega
    simp [hl]

/-! ## Idempotence and congruence of the serialisation spec -/

theorem serializeSpec_idem (l l' : Layer) (p bytes : Bytes) (f c : Bool)
    (h : serializeSpec l p f c = .ok (bytes, l')) : serializeSpec l' p f c = .ok (bytes, l') := by
  cases f <;> cases c <;> simp only [serializeSpec, fixLen, if_true, if_false, Bool.false_eq_true] at h ⊢
  · cases h; rfl
  · revert h
    generalize hr : computeChecksum l.pseudo (header { l with checksum := 0 } ++ p) = r
    cases r with
    | ok a => intro h; cases h; simp only [hr]
    | err e => intro h; cases h
    | panic k => intro h; cases h
  · cases h; rfl
  · revert h
    generalize hr : computeChecksum l.pseudo
      (header { l with length := fixedLength l.pseudo p.length, checksum := 0 } ++ p) = r
    cases r with
    | ok a => intro h; cases h; simp only [hr]
    | err e => intro h; cases h
    | panic k => intro h; cases h

/-- The bytes produced depend only on the public fields and the checksum configuration. -/
theorem serializeSpec_bytes_congr (a b : Layer) (p : Bytes) (f c : Bool) (hs : sameFields a b)
    (hp : a.pseudo = b.pseudo) :
    (match serializeSpec a p f c with | .ok (x, _) => Res.ok x | .err k => .err k | .panic k => .panic k) =
    (match serializeSpec b p f c with | .ok (x, _) => Res.ok x | .err k => .err k | .panic k => .panic k) := by
  obtain ⟨h1, h2, h3, h4⟩ := hs
  cases f <;> cases c <;>
    simp only [serializeSpec, fixLen, if_true, if_false, Bool.false_eq_true, header, h1, h2, h3, h4, hp]
  · generalize computeChecksum _ _ = r
    cases r <;> rfl
  · generalize computeChecksum _ _ = r
    cases r <;> rfl

theorem serializeSpec_ok_bytes (l l' : Layer) (p bytes : Bytes) (f c : Bool)
    (h : serializeSpec l p f c = .ok (bytes, l')) : bytes = header l' ++ p := by
  cases f <;> cases c <;> simp only [serializeSpec, fixLen, if_true, if_false, Bool.false_eq_true] at h
  · cases h; rfl
  · revert h
    generalize computeChecksum _ _ = r
    cases r <;> intro h <;> cases h
    rfl
  · cases h; rfl
  · revert h
    generalize computeChecksum _ _ = r
    cases r <;> intro h <;> cases h
    rfl

theorem serializeSpec_ok_pseudoOk (l l' : Layer) (p bytes : Bytes) (f : Bool)
    (h : serializeSpec l p f true = .ok (bytes, l')) : pseudoOk l.pseudo := by
  cases f <;> simp only [serializeSpec, fixLen, if_true, if_false, Bool.false_eq_true] at h
  · revert h
    generalize hr : computeChecksum _ _ = r
    cases r <;> intro h <;> cases h
    exact computeChecksum_ok_iff _ _ _ hr
  · revert h
    generalize hr : computeChecksum _ _ = r
    cases r <;> intro h <;> cases h
    exact computeChecksum_ok_iff _ _ _ hr

theorem serializeSpec_ok_of (l : Layer) (p : Bytes) (f c : Bool) (h : c = true → pseudoOk l.pseudo) :
    ∃ r, serializeSpec l p f c = .ok r := by
  cases c
  · cases f <;> exact ⟨_, rfl⟩
  · have hp := h rfl
    cases f <;> simp only [serializeSpec, fixLen, if_true, if_false, Bool.false_eq_true]
    · obtain ⟨s, hs⟩ := computeChecksum_ok l.pseudo hp (header { l with checksum := 0 } ++ p)
      rw [hs]; exact ⟨_, rfl⟩
    · obtain ⟨s, hs⟩ := computeChecksum_ok l.pseudo hp
        (header { l with length := fixedLength l.pseudo p.length, checksum := 0 } ++ p)
      rw [hs]; exact ⟨_, rfl⟩

theorem view_ok (r : Res (SBuf.SBuf × Layer)) (x : Bytes) (l : Layer) (h : view r = .ok (x, l)) :
    ∃ b, r = .ok (b, l) ∧ SBuf.contents b = x := by
  cases r with
  | ok a => obtain ⟨b, l2⟩ := a; simp only [view] at h; cases h; exact ⟨b, rfl, rfl⟩
  | err e => simp [view] at h
  | panic k => simp [view] at h

/-! ## Shape of decoded layers -/

theorem u8_be16_hi (a b : UInt8) : u8 (be16 a b / 256) = a := by
  have := a.toNat_lt; have := b.toNat_lt
  apply UInt8.toNat_inj.mp
  simp only [u8, be16, UInt8.toNat_ofNat']
  omega

theorem u8_be16_lo (a b : UInt8) : u8 (be16 a b) = b := by
  have := a.toNat_lt; have := b.toNat_lt
  apply UInt8.toNat_inj.mp
  simp only [u8, be16, UInt8.toNat_ofNat']
  omega

theorem putBe16_be16 (a b : UInt8) : putBe16 (be16 a b) = [a, b] := by
  simp only [putBe16, u8_be16_hi, u8_be16_lo]

/-- What every successfully decoded layer looks like. -/
structure DecodedShape (data : Bytes) (l : Layer) (trunc : Bool) : Prop where
  wf       : wf l
  contents : l.contents = header l
  cont8    : l.contents = data.take 8
  sport    : l.sPort = data.take 2
  dport    : l.dPort = (data.drop 2).take 2
  sportF   : l.sPort = putBe16 l.srcPort
  dportF   : l.dPort = putBe16 l.dstPort
  len      : l.length = 0 ∨ 8 ≤ l.length
  prefix_  : l.contents ++ l.payload = data.take (l.payload.length + 8)
  exact    : trunc = false → (l.length = 0 ∧ l.payload = data.drop 8) ∨ l.length = 8 + l.payload.length
  short    : trunc = true → l.payload = data.drop 8 ∧ data.length < l.length

theorem decodeSpec_shape (old : Layer) (data : Bytes) (h : (decodeSpec old data).err = false) :
    DecodedShape data (decodeSpec old data).layer (decodeSpec old data).trunc := by
  match data with
  | [] | [_] | [_, _] | [_, _, _] | [_, _, _, _] | [_, _, _, _, _] | [_, _, _, _, _, _] | [_, _, _, _, _, _, _] =>
    simp [decodeSpec] at h
  | a0 :: a1 :: a2 :: a3 :: a4 :: a5 :: a6 :: a7 :: rest =>
    have hh : header
        { srcPort := be16 a0 a1, dstPort := be16 a2 a3, length := be16 a4 a5, checksum := be16 a6 a7,
          sPort := [a0, a1], dPort := [a2, a3], contents := [a0, a1, a2, a3, a4, a5, a6, a7],
          payload := ([] : Bytes), pseudo := old.pseudo } = [a0, a1, a2, a3, a4, a5, a6, a7] := by
      simp only [header, putBe16_be16, List.cons_append, List.nil_append]
    have hw : ∀ p : Bytes, wf
        { srcPort := be16 a0 a1, dstPort := be16 a2 a3, length := be16 a4 a5, checksum := be16 a6 a7,
          sPort := [a0, a1], dPort := [a2, a3], contents := [a0, a1, a2, a3, a4, a5, a6, a7],
          payload := p, pseudo := old.pseudo } := fun _ => ⟨be16_lt _ _, be16_lt _ _, be16_lt _ _, be16_lt _ _⟩
    simp only [decodeSpec] at h ⊢
    by_cases h8 : 8 ≤ be16 a4 a5
    · by_cases ht : rest.length + 8 < be16 a4 a5
      · simp only [h8, ht, if_true]
        refine ⟨hw _, ?_, rfl, rfl, rfl, ?_, ?_, Or.inr h8, ?_, ?_, ?_⟩
        · simp only [header, putBe16_be16, List.cons_append, List.nil_append]
        · simp [putBe16_be16]
        · simp [putBe16_be16]
        · exact (List.take_of_length_le (by simp only [List.length_cons, List.cons_append, List.nil_append]; omega)).symm
        · intro hf; cases hf
        · intro _; exact ⟨rfl, by simp only [List.length_cons]; omega⟩
      · simp only [h8, ht, if_true, if_false]
        have hlt : (List.take (be16 a4 a5 - 8) rest).length = be16 a4 a5 - 8 := by
          rw [List.length_take]; omega
        refine ⟨hw _, ?_, rfl, rfl, rfl, ?_, ?_, Or.inr h8, ?_, ?_, ?_⟩
        · simp only [header, putBe16_be16, List.cons_append, List.nil_append]
        · simp [putBe16_be16]
        · simp [putBe16_be16]
        · simp [hlt]
        · intro _; right; simp only [hlt]; omega
        · intro hf; cases hf
    · by_cases h0 : be16 a4 a5 = 0
      · simp only [ge_iff_le, h8, if_false]
        rw [if_pos h0]
        refine ⟨hw _, ?_, rfl, rfl, rfl, ?_, ?_, Or.inl h0, ?_, ?_, ?_⟩
        · simp only [header, putBe16_be16, List.cons_append, List.nil_append]
        · simp [putBe16_be16]
        · simp [putBe16_be16]
        · exact (List.take_of_length_le (by simp only [List.length_cons, List.cons_append, List.nil_append]; omega)).symm
        · intro _; left; exact ⟨h0, rfl⟩
        · intro hf; cases hf
      · simp [h8, h0] at h

theorem putBe16_inj (a b : Nat) (ha : a < 65536) (hb : b < 65536) (h : putBe16 a = putBe16 b) : a = b := by
  simp only [putBe16, List.cons.injEq, and_true] at h
  rw [← be16_u8 a ha, ← be16_u8 b hb, h.1, h.2]

/-- Two in-range layer values with the same eight header bytes have the same public fields. -/
theorem header_inj (a b : Layer) (wa : wf a) (wb : wf b) (h : header a = header b) : sameFields a b := by
  simp only [header, putBe16, List.cons_append, List.nil_append, List.cons.injEq, and_true] at h
  obtain ⟨h0, h1, h2, h3, h4, h5, h6, h7⟩ := h
  refine ⟨putBe16_inj _ _ wa.1 wb.1 ?_, putBe16_inj _ _ wa.2.1 wb.2.1 ?_, putBe16_inj _ _ wa.2.2.1 wb.2.2.1 ?_,
    putBe16_inj _ _ wa.2.2.2 wb.2.2.2 ?_⟩ <;> simp only [putBe16, *]

theorem decodeUdp_shape (old : Layer) (data foreign : Bytes) (l : Layer) (t : Bool)
    (h : decodeUdp old data foreign = .ok (l, t)) : DecodedShape data l t := by
  unfold decodeUdp at h
  rw [decode_eq] at h
  dsimp only at h
  split at h
  · cases h
  · rename_i he
    cases h
    exact decodeSpec_shape old data (by simpa using he)

/-! ## Flows -/

theorem newFlow_ok (t : Nat) (src dst : Bytes) (hs : src.length ≤ 16) (hd : dst.length ≤ 16) :
    newFlow t src dst = .ok { typ := t, slen := src.length, dlen := dst.length, src := pad16 src, dst := pad16 dst } := by
  have : ¬ (src.length > Gp.Gen.Udp.maxEndpointSize ∨ dst.length > Gp.Gen.Udp.maxEndpointSize) := by
    simp only [Gp.Gen.Udp.maxEndpointSize]; omega
  simp only [newFlow, this, if_false]

theorem take_pad16 (b : Bytes) : (pad16 b).take b.length = b := by
  simp [pad16]

theorem pad16_inj (a b : Bytes) (ha : a.length = 2) (hb : b.length = 2) (h : pad16 a = pad16 b) : a = b := by
  have := congrArg (List.take 2) h
  rw [← ha] at this
  rw [take_pad16] at this
  rw [ha, ← hb, take_pad16] at this
  exact this

theorem putBe16_length (n : Nat) : (putBe16 n).length = 2 := rfl

end Gp.Udp
