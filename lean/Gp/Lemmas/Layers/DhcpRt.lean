import Gp.Lemmas.Layers.DhcpSer
/-
  Helper lemmas for engine `ldhcp`, part 3: well-formedness, ≈, and decode ∘ encode.  Core Lean only.

  Section 1 holds the *definitions* used in property statements.
-/
namespace Gp.Dhcp
open Gp Gp.SBuf Gp.C18 Gp.Gen.Dhcp

/-! ## 1. Definitions used in property statements -/

/-- An in-range element of Options: byte-sized Type and Length, not an End option (the decoder stops
    at End and never returns one; SerializeTo appends its own), a Pad without Length/Data (one byte on
    the wire cannot carry them), every other option with exactly Length bytes of Data. -/
def wfOpt (o : DHCPOption) : Prop :=
  o.typ < 256 ∧ o.length < 256 ∧ o.typ ≠ dhcpOptEnd ∧
  (o.typ = dhcpOptPad → o.length = 0 ∧ o.data = []) ∧ (o.typ ≠ dhcpOptPad → o.data.length = o.length)

def wfOpts : List DHCPOption → Prop
  | [] => True
  | o :: rest => wfOpt o ∧ wfOpts rest

/-- In-range DHCPv4 field values: byte/16-bit/32-bit scalars, four 4-byte addresses, a hardware
    address of at most 16 bytes (the chaddr field), 64 bytes of sname, 128 bytes of file (the fixed
    field sizes: shorter values come back zero padded, longer ones cut), in-range options.
    HardwareLen need not agree with ClientHWAddr: FixLengths repairs it (`dhcpFixed`). -/
def wfDhcp (l : DHCPv4) : Prop :=
  l.operation < 256 ∧ l.hardwareType < 256 ∧ l.hardwareLen < 256 ∧ l.relayHops < 256 ∧
  l.xid < 4294967296 ∧ l.secs < 65536 ∧ l.flags < 65536 ∧
  l.clientIP.length = 4 ∧ l.yourClientIP.length = 4 ∧ l.nextServerIP.length = 4 ∧ l.relayAgentIP.length = 4 ∧
  l.clientHWAddr.length ≤ 16 ∧ l.serverName.length = 64 ∧ l.file.length = 128 ∧ wfOpts l.options

/-- HardwareLen says what ClientHWAddr is (true of every decoded layer and after FixLengths). -/
def hwLenAgrees (l : DHCPv4) : Prop := l.hardwareLen = l.clientHWAddr.length

/-- Field equivalence `≈` for DHCPv4: all public fields, Options compared element by element in order
    (Type, Length, Data); ignores BaseLayer.Contents/Payload. -/
def DhcpEquiv (a b : DHCPv4) : Prop :=
  a.operation = b.operation ∧ a.hardwareType = b.hardwareType ∧ a.hardwareLen = b.hardwareLen ∧
  a.relayHops = b.relayHops ∧ a.xid = b.xid ∧ a.secs = b.secs ∧ a.flags = b.flags ∧
  a.clientIP = b.clientIP ∧ a.yourClientIP = b.yourClientIP ∧ a.nextServerIP = b.nextServerIP ∧
  a.relayAgentIP = b.relayAgentIP ∧ a.clientHWAddr = b.clientHWAddr ∧ a.serverName = b.serverName ∧
  a.file = b.file ∧ a.options = b.options

instance (o : DHCPOption) : Decidable (wfOpt o) := by unfold wfOpt; infer_instance
instance wfOptsDec : (os : List DHCPOption) → Decidable (wfOpts os)
  | [] => isTrue trivial
  | o :: rest =>
    have := wfOptsDec rest
    by unfold wfOpts; infer_instance
instance (l : DHCPv4) : Decidable (wfDhcp l) := by unfold wfDhcp; infer_instance
instance (l : DHCPv4) : Decidable (hwLenAgrees l) := by unfold hwLenAgrees; infer_instance
instance (a b : DHCPv4) : Decidable (DhcpEquiv a b) := by unfold DhcpEquiv; infer_instance

/-! ## 2. Byte arithmetic -/

theorem u8_toNat (n : Nat) : (u8 n).toNat = n % 256 := by
  simp [u8]
theorem u8_toNat_lt (n : Nat) (h : n < 256) : (u8 n).toNat = n := by
  rw [u8_toNat]; omega
theorem be16_putBe16 (n : Nat) (h : n < 65536) : be16 (u8 (n / 256)) (u8 n) = n := by
  unfold be16; rw [u8_toNat, u8_toNat]; omega
theorem be32_putBe32 (n : Nat) (h : n < 4294967296) :
    be32 (u8 (n / 16777216)) (u8 (n / 65536)) (u8 (n / 256)) (u8 n) = n := by
  unfold be32; rw [u8_toNat, u8_toNat, u8_toNat, u8_toNat]; omega
theorem be16_lt (a b : UInt8) : be16 a b < 65536 := by
  unfold be16; have := a.toNat_lt; have := b.toNat_lt; omega
theorem be32_lt (a b c d : UInt8) : be32 a b c d < 4294967296 := by
  unfold be32; have := a.toNat_lt; have := b.toNat_lt; have := c.toNat_lt; have := d.toNat_lt; omega

/-- The middle part of a three-way split is recovered by drop/take. -/
theorem slice_mid (pre c post : Bytes) (s k : Nat) (hs : pre.length = s) (hk : c.length = k) :
    ((pre ++ (c ++ post)).drop s).take k = c := by
  subst hs hk
  rw [List.drop_left' rfl, List.take_left' rfl]

theorem u32At_of_slice (v : Bytes) (i x : Nat) (hl : i + 4 ≤ v.length) (hx : x < 4294967296)
    (h : (v.drop i).take 4 = putBe32 x) : u32At v i = x := by
  rw [four_bytes v i hl] at h
  unfold putBe32 at h
  injection h with h0 h; injection h with h1 h; injection h with h2 h; injection h with h3 _
  unfold u32At; rw [h0, h1, h2, h3]; exact be32_putBe32 x hx

theorem u16At_of_slice (v : Bytes) (i x : Nat) (hl : i + 2 ≤ v.length) (hx : x < 65536)
    (h : (v.drop i).take 2 = putBe16 x) : u16At v i = x := by
  rw [two_bytes v i hl] at h
  unfold putBe16 at h
  injection h with h0 h; injection h with h1 _
  unfold u16At; rw [h0, h1]; exact be16_putBe16 x hx

theorem padTo_length_eq (n : Nat) (x : Bytes) (h : x.length = n) : padTo n x = x := by
  unfold padTo
  rw [List.take_of_length_le (by omega), h, Nat.sub_self]; simp [zeros]

theorem padTo_take (n : Nat) (x : Bytes) (h : x.length ≤ n) : (padTo n x).take x.length = x := by
  unfold padTo
  rw [List.take_of_length_le h, List.take_left' rfl]

theorem to4_four (ip : Bytes) (h : ip.length = 4) : to4 ip = ip := by
  unfold to4; rw [if_pos h]

/-! ## 3. Every decoded layer is well-formed -/

theorem parseOpts_wf : ∀ (fuel : Nat) (bs : Bytes), wfOpts (parseOpts fuel bs).1 := by
  intro fuel
  induction fuel with
  | zero => intro bs; simp [parseOpts, wfOpts]
  | succ fuel ih =>
    intro bs
    unfold parseOpts
    by_cases hz : bs.length = 0
    · simp [hz, wfOpts]
    · simp only [hz, if_false]
      by_cases he : (optSpec bs).2 = true
      · simp [he, wfOpts]
      · have he' : (optSpec bs).2 = false := by simpa using he
        simp only [he', Bool.false_eq_true, if_false]
        by_cases hend : (optSpec bs).1.typ = dhcpOptEnd
        · simp [hend, wfOpts]
        · simp only [hend, if_false, wfOpts]
          refine ⟨?_, ih _⟩
          obtain ⟨-, hpe, htlv, ht, hl⟩ := optSpec_ok bs he'
          refine ⟨ht, hl, hend, ?_, ?_⟩
          · intro hp; exact (hpe (Or.inl hp)).2
          · intro hp; exact (htlv (fun x => x.elim hp hend)).2

theorem byteAt_lt (v : Bytes) (i : Nat) : (byteAt v i).toNat < 256 := (byteAt v i).toNat_lt

set_option maxRecDepth 8000 in
/-- Every successfully decoded layer satisfies `wfDhcp` and its HardwareLen agrees with ClientHWAddr. -/
theorem decSpec_wf (old : DHCPv4) (v : Bytes) (h : (decSpec old v).err = false) :
    wfDhcp (decSpec old v).layer ∧ hwLenAgrees (decSpec old v).layer := by
  obtain ⟨-, -, -, hl, hh, -, he, -⟩ := decSpec_ok_base old v h
  rw [he]
  unfold wfDhcp hwLenAgrees hdrFixed hdrAll hdr3
  simp only
  have t4 : ∀ i, i + 4 ≤ 240 → ((v.drop i).take 4).length = 4 := by
    intro i hi; rw [List.length_take, List.length_drop]; omega
  have hx : u32At v 4 < 4294967296 := be32_lt _ _ _ _
  have hs : u16At v 8 < 65536 := be16_lt _ _
  have hf : u16At v 10 < 65536 := be16_lt _ _
  refine ⟨⟨byteAt_lt v 0, byteAt_lt v 1, byteAt_lt v 2, byteAt_lt v 3, hx, hs, hf,
    t4 12 (by omega), t4 16 (by omega), t4 20 (by omega), t4 24 (by omega), ?_, ?_, ?_, parseOpts_wf _ _⟩, ?_⟩
  · rw [List.length_take, List.length_drop]; omega
  · rw [List.length_take, List.length_drop]; omega
  · rw [List.length_take, List.length_drop]; omega
  · rw [List.length_take, List.length_drop]; omega


/-! ## 4. decode ∘ encode: the options -/

theorem optSpec_encode (o : DHCPOption) (tail : Bytes) (h : wfOpt o) :
    optSpec (optBytes o ++ tail) = (o, false) ∧
    (optBytes o ++ tail).drop (if o.typ = dhcpOptPad then 1 else o.length + 2) = tail := by
  obtain ⟨ht, hl, hne, hpad, htlv⟩ := h
  obtain ⟨typ, length, data⟩ := o
  simp only at ht hl hne hpad htlv ⊢
  unfold optBytes
  simp only
  by_cases hp : typ = dhcpOptPad
  · obtain ⟨l0, d0⟩ := hpad hp
    subst l0 d0
    rw [if_pos hp, if_pos hp]
    constructor
    · subst hp
      have hz : (u8 dhcpOptPad).toNat = dhcpOptPad := by decide
      simp only [List.singleton_append, optSpec, hz, true_or, if_true]
    · rfl
  · have hd := htlv hp
    rw [if_neg hp, if_neg hne, if_neg hp]
    constructor
    · have hpe : ¬ (typ = dhcpOptPad ∨ typ = dhcpOptEnd) := fun x => x.elim hp hne
      simp only [List.cons_append, List.nil_append, optSpec, u8_toNat_lt typ ht, u8_toNat_lt length hl, hpe, if_false]
      have hgt : ¬ length > (data ++ tail).length := by rw [List.length_append]; omega
      rw [if_neg hgt, ← hd, List.take_left' rfl]
    · simp only [List.cons_append, List.nil_append]
      rw [← hd]
      show List.drop (data.length + 2) (u8 typ :: u8 data.length :: (data ++ tail)) = tail
      rw [List.drop_succ_cons, List.drop_succ_cons, List.drop_left' rfl]

theorem parse_encode : ∀ (os : List DHCPOption) (p : Bytes) (fuel : Nat), wfOpts os →
    (optsBytes os ++ ([u8 dhcpOptEnd] ++ p)).length ≤ fuel →
    parseOpts fuel (optsBytes os ++ ([u8 dhcpOptEnd] ++ p)) = (os, false) := by
  intro os
  induction os with
  | nil =>
    intro p fuel _ hf
    simp only [optsBytes, List.nil_append, List.singleton_append, List.length_cons] at hf ⊢
    cases fuel with
    | zero => omega
    | succ f =>
      unfold parseOpts
      have hend : (u8 dhcpOptEnd).toNat = dhcpOptEnd := by decide
      simp [optSpec, hend]
  | cons o rest ih =>
    intro p fuel hw hf
    obtain ⟨hwo, hwr⟩ := hw
    simp only [optsBytes, List.append_assoc] at hf ⊢
    obtain ⟨e1, e2⟩ := optSpec_encode o (optsBytes rest ++ ([u8 dhcpOptEnd] ++ p)) hwo
    have hlen := optBytes_length o
    cases fuel with
    | zero =>
      rw [List.length_append, hlen] at hf
      split at hf <;> omega
    | succ f =>
      unfold parseOpts
      have hz : ¬ (optBytes o ++ (optsBytes rest ++ ([u8 dhcpOptEnd] ++ p))).length = 0 := by
        rw [List.length_append, hlen]; split <;> omega
      rw [if_neg hz]
      simp only [e1, Bool.false_eq_true, if_false, hwo.2.2.1, e2]
      rw [ih p f hwr (by
        rw [List.length_append, hlen] at hf
        split at hf <;> omega)]


/-! ## 5. decode ∘ encode: the header -/

/-- The twelve chunks of the header, read back from `chunks ++ R` at their fixed offsets. -/
theorem hdr_slices (A0 A1 A2 A3 A4 A5 A6 A7 A8 A9 A10 A11 R : Bytes)
    (h0 : A0.length = 4) (h1 : A1.length = 4) (h2 : A2.length = 2) (h3 : A3.length = 2) (h4 : A4.length = 4)
    (h5 : A5.length = 4) (h6 : A6.length = 4) (h7 : A7.length = 4) (h8 : A8.length = 16) (h9 : A9.length = 64)
    (h10 : A10.length = 128) (h11 : A11.length = 4) (n : Nat) (hn : n ≤ 16) :
    let v := A0 ++ A1 ++ A2 ++ A3 ++ A4 ++ A5 ++ A6 ++ A7 ++ A8 ++ A9 ++ A10 ++ A11 ++ R
    v.length = 240 + R.length ∧
    (v.drop 0).take 4 = A0 ∧ (v.drop 4).take 4 = A1 ∧ (v.drop 8).take 2 = A2 ∧ (v.drop 10).take 2 = A3 ∧
    (v.drop 12).take 4 = A4 ∧ (v.drop 16).take 4 = A5 ∧ (v.drop 20).take 4 = A6 ∧ (v.drop 24).take 4 = A7 ∧
    (v.drop 28).take n = A8.take n ∧ (v.drop 44).take 64 = A9 ∧ (v.drop 108).take 128 = A10 ∧
    (v.drop 236).take 4 = A11 ∧ v.drop 240 = R := by
  intro v
  refine ⟨?_, ?_, ?_, ?_, ?_, ?_, ?_, ?_, ?_, ?_, ?_, ?_, ?_, ?_⟩
  · simp only [v, List.length_append, h0, h1, h2, h3, h4, h5, h6, h7, h8, h9, h10, h11]
  · have : v = [] ++ (A0 ++ (A1 ++ A2 ++ A3 ++ A4 ++ A5 ++ A6 ++ A7 ++ A8 ++ A9 ++ A10 ++ A11 ++ R)) := by
      simp only [v, List.append_assoc, List.nil_append]
    rw [this]; exact slice_mid _ _ _ 0 4 rfl h0
  · have : v = A0 ++ (A1 ++ (A2 ++ A3 ++ A4 ++ A5 ++ A6 ++ A7 ++ A8 ++ A9 ++ A10 ++ A11 ++ R)) := by
      simp only [v, List.append_assoc]
    rw [this]; exact slice_mid _ _ _ 4 4 h0 h1
  · have : v = (A0 ++ A1) ++ (A2 ++ (A3 ++ A4 ++ A5 ++ A6 ++ A7 ++ A8 ++ A9 ++ A10 ++ A11 ++ R)) := by
      simp only [v, List.append_assoc]
    rw [this]; exact slice_mid _ _ _ 8 2 (by simp only [List.length_append, h0, h1]) h2
  · have : v = (A0 ++ A1 ++ A2) ++ (A3 ++ (A4 ++ A5 ++ A6 ++ A7 ++ A8 ++ A9 ++ A10 ++ A11 ++ R)) := by
      simp only [v, List.append_assoc]
    rw [this]; exact slice_mid _ _ _ 10 2 (by simp only [List.length_append, h0, h1, h2]) h3
  · have : v = (A0 ++ A1 ++ A2 ++ A3) ++ (A4 ++ (A5 ++ A6 ++ A7 ++ A8 ++ A9 ++ A10 ++ A11 ++ R)) := by
      simp only [v, List.append_assoc]
    rw [this]; exact slice_mid _ _ _ 12 4 (by simp only [List.length_append, h0, h1, h2, h3]) h4
  · have : v = (A0 ++ A1 ++ A2 ++ A3 ++ A4) ++ (A5 ++ (A6 ++ A7 ++ A8 ++ A9 ++ A10 ++ A11 ++ R)) := by
      simp only [v, List.append_assoc]
    rw [this]; exact slice_mid _ _ _ 16 4 (by simp only [List.length_append, h0, h1, h2, h3, h4]) h5
  · have : v = (A0 ++ A1 ++ A2 ++ A3 ++ A4 ++ A5) ++ (A6 ++ (A7 ++ A8 ++ A9 ++ A10 ++ A11 ++ R)) := by
      simp only [v, List.append_assoc]
    rw [this]; exact slice_mid _ _ _ 20 4 (by simp only [List.length_append, h0, h1, h2, h3, h4, h5]) h6
  · have : v = (A0 ++ A1 ++ A2 ++ A3 ++ A4 ++ A5 ++ A6) ++ (A7 ++ (A8 ++ A9 ++ A10 ++ A11 ++ R)) := by
      simp only [v, List.append_assoc]
    rw [this]; exact slice_mid _ _ _ 24 4 (by simp only [List.length_append, h0, h1, h2, h3, h4, h5, h6]) h7
  · have : v = (A0 ++ A1 ++ A2 ++ A3 ++ A4 ++ A5 ++ A6 ++ A7) ++ (A8.take n ++ (A8.drop n ++ A9 ++ A10 ++ A11 ++ R)) := by
      have e8 : A8 = A8.take n ++ A8.drop n := (List.take_append_drop n A8).symm
      simp only [v, List.append_assoc]
      rw [← List.append_assoc (List.take n A8), ← e8]
    rw [this]; exact slice_mid _ _ _ 28 n (by simp only [List.length_append, h0, h1, h2, h3, h4, h5, h6, h7])
      (by rw [List.length_take]; omega)
  · have : v = (A0 ++ A1 ++ A2 ++ A3 ++ A4 ++ A5 ++ A6 ++ A7 ++ A8) ++ (A9 ++ (A10 ++ A11 ++ R)) := by
      simp only [v, List.append_assoc]
    rw [this]; exact slice_mid _ _ _ 44 64 (by simp only [List.length_append, h0, h1, h2, h3, h4, h5, h6, h7, h8]) h9
  · have : v = (A0 ++ A1 ++ A2 ++ A3 ++ A4 ++ A5 ++ A6 ++ A7 ++ A8 ++ A9) ++ (A10 ++ (A11 ++ R)) := by
      simp only [v, List.append_assoc]
    rw [this]; exact slice_mid _ _ _ 108 128 (by simp only [List.length_append, h0, h1, h2, h3, h4, h5, h6, h7, h8, h9]) h10
  · have : v = (A0 ++ A1 ++ A2 ++ A3 ++ A4 ++ A5 ++ A6 ++ A7 ++ A8 ++ A9 ++ A10) ++ (A11 ++ R) := by
      simp only [v, List.append_assoc]
    rw [this]; exact slice_mid _ _ _ 236 4 (by simp only [List.length_append, h0, h1, h2, h3, h4, h5, h6, h7, h8, h9, h10]) h11
  · have : v = (A0 ++ A1 ++ A2 ++ A3 ++ A4 ++ A5 ++ A6 ++ A7 ++ A8 ++ A9 ++ A10 ++ A11) ++ R := rfl
    rw [this]
    exact List.drop_left' (by simp only [List.length_append, h0, h1, h2, h3, h4, h5, h6, h7, h8, h9, h10, h11])


theorem dhcpMagic_lt : dhcpMagic < 4294967296 := by decide

set_option maxRecDepth 8000 in
/-- Decoding the bytes SerializeTo produces for a well-formed layer whose HardwareLen agrees with its
    ClientHWAddr (followed by anything, `p`) gives the layer back — whatever the receiver held:
    every public field, Options in order; Contents = all the bytes, Payload empty, no error, no
    truncation flag. -/
theorem decSpec_encode (old l : DHCPv4) (p : Bytes) (hw : wfDhcp l) (ha : hwLenAgrees l) :
    decSpec old (dhcpEncode l ++ p) =
      { layer := { l with contents := dhcpEncode l ++ p, payload := [] }, trunc := false, err := false } := by
  obtain ⟨w1, w2, w3, w4, w5, w6, w7, w8, w9, w10, w11, w12, w13, w14, w15⟩ := hw
  unfold hwLenAgrees at ha
  have hv : dhcpEncode l ++ p =
      [u8 l.operation, u8 l.hardwareType, u8 l.hardwareLen, u8 l.relayHops] ++ putBe32 l.xid ++ putBe16 l.secs ++
      putBe16 l.flags ++ l.clientIP ++ l.yourClientIP ++ l.nextServerIP ++ l.relayAgentIP ++ padTo 16 l.clientHWAddr ++
      l.serverName ++ l.file ++ putBe32 dhcpMagic ++ (optsBytes l.options ++ ([u8 dhcpOptEnd] ++ p)) := by
    unfold dhcpEncode hdrBytes
    rw [to4_four _ w8, to4_four _ w9, to4_four _ w10, to4_four _ w11, padTo_length_eq 4 _ w8, padTo_length_eq 4 _ w9,
      padTo_length_eq 4 _ w10, padTo_length_eq 4 _ w11, padTo_length_eq 64 _ w13, padTo_length_eq 128 _ w14]
    simp only [List.append_assoc]
  generalize hV : dhcpEncode l ++ p = v at hv ⊢
  obtain ⟨s0, s1, s2, s3, s4, s5, s6, s7, s8, s9, s10, s11, s12, s13⟩ :=
    hdr_slices [u8 l.operation, u8 l.hardwareType, u8 l.hardwareLen, u8 l.relayHops] (putBe32 l.xid) (putBe16 l.secs)
      (putBe16 l.flags) l.clientIP l.yourClientIP l.nextServerIP l.relayAgentIP (padTo 16 l.clientHWAddr)
      l.serverName l.file (putBe32 dhcpMagic) (optsBytes l.options ++ ([u8 dhcpOptEnd] ++ p))
      rfl rfl rfl rfl w8 w9 w10 w11 (padTo_length 16 _) w13 w14 rfl l.clientHWAddr.length w12
  rw [← hv] at s0 s1 s2 s3 s4 s5 s6 s7 s8 s9 s10 s11 s12 s13
  have hlen : 240 ≤ v.length := by omega
  rw [four_bytes v 0 (by omega)] at s1
  injection s1 with b0 s1; injection s1 with b1 s1; injection s1 with b2 s1; injection s1 with b3 _
  simp only [Nat.zero_add] at b1 b2 b3
  have hhw : hwLenOf v = l.hardwareLen := by unfold hwLenOf; rw [b2, u8_toNat_lt _ w3]
  have hxid := u32At_of_slice v 4 l.xid (by omega) w5 s2
  have hsecs := u16At_of_slice v 8 l.secs (by omega) w6 s3
  have hflags := u16At_of_slice v 10 l.flags (by omega) w7 s4
  have hmagic := u32At_of_slice v 236 dhcpMagic (by omega) dhcpMagic_lt s12
  have hparse := parse_encode l.options p (v.length - 240) w15 (by rw [← s13, List.length_drop]; exact Nat.le_refl _)
  rw [← s13] at hparse
  unfold decSpec
  rw [if_neg (by omega), if_neg (by rw [hhw, ha]; omega), if_neg (by rw [hmagic]; simp)]
  simp only [hparse]
  congr 1
  unfold hdrFixed hdrAll hdr3
  simp only [hhw, b0, b1, b3, u8_toNat_lt _ w1, u8_toNat_lt _ w2, u8_toNat_lt _ w4, hxid, hsecs, hflags, s5, s6, s7, s8,
    s10, s11]
  rw [ha, s9, padTo_take 16 _ w12]


/-! ## 6. Around the round trip -/

theorem wfOpts_consistent : ∀ os : List DHCPOption, wfOpts os → optsConsistent os := by
  intro os
  induction os with
  | nil => intro _; trivial
  | cons o rest ih => intro h; exact ⟨h.1.2.2.2.2, ih h.2⟩

theorem wfDhcp_fixed (l : DHCPv4) (fix : Bool) (h : wfDhcp l) : wfDhcp (dhcpFixed l fix) := by
  unfold dhcpFixed
  cases fix
  · exact h
  · obtain ⟨w1, w2, w3, w4, w5, w6, w7, w8, w9, w10, w11, w12, w13, w14, w15⟩ := h
    exact ⟨w1, w2, Nat.mod_lt _ (by decide), w4, w5, w6, w7, w8, w9, w10, w11, w12, w13, w14, w15⟩

theorem hwLenAgrees_fixed (l : DHCPv4) (h : l.clientHWAddr.length ≤ 16) : hwLenAgrees (dhcpFixed l true) := by
  unfold hwLenAgrees dhcpFixed
  simp only [if_true]
  exact Nat.mod_eq_of_lt (by omega)

theorem dhcpFixed_of_agrees (l : DHCPv4) (fix : Bool) (h : hwLenAgrees l) (h16 : l.clientHWAddr.length ≤ 16) :
    dhcpFixed l fix = l := by
  unfold dhcpFixed hwLenAgrees at *
  cases fix
  · rfl
  · simp only [if_true]
    rw [Nat.mod_eq_of_lt (by omega), ← h]

/-- The bytes depend on the public fields only (not on Contents/Payload). -/
theorem dhcpEncode_congr (a b : DHCPv4) (h : DhcpEquiv a b) : dhcpEncode a = dhcpEncode b := by
  obtain ⟨e1, e2, e3, e4, e5, e6, e7, e8, e9, e10, e11, e12, e13, e14, e15⟩ := h
  unfold dhcpEncode hdrBytes
  rw [e1, e2, e3, e4, e5, e6, e7, e8, e9, e10, e11, e12, e13, e14, e15]

theorem serBad_congr (a b : DHCPv4) (h : a.options = b.options) : serBad a = serBad b := by
  unfold serBad; rw [h]

theorem DhcpEquiv_refl (a : DHCPv4) : DhcpEquiv a a :=
  ⟨rfl, rfl, rfl, rfl, rfl, rfl, rfl, rfl, rfl, rfl, rfl, rfl, rfl, rfl, rfl⟩

theorem DhcpEquiv_base (l : DHCPv4) (c p : Bytes) : DhcpEquiv { l with contents := c, payload := p } l :=
  ⟨rfl, rfl, rfl, rfl, rfl, rfl, rfl, rfl, rfl, rfl, rfl, rfl, rfl, rfl, rfl⟩

end Gp.Dhcp
