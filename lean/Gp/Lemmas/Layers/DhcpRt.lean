import Gp.Lemmas.Layers.DhcpSer
/-
  Helper lemmas for engine `ldhcp`, part 3: well-formedness, ≈, and decode ∘ encode.  Core Lean only.

  Section 1 holds the *definitions* used in property statements.
-/
namespace Gp.Dhcp
open Gp Gp.SBuf Gp.C18 Gp.Gen.Dhcp

/-! ## 1. Definitions used in property statements -/

/-- An in-range element of Options: byte-sized Type and Length, not an End option (the decoder stops
    at End and never returns one; SerializeTo appends its own), a Pad without Length/Data (one byte on
    the wire cannot carry them), every other option with exactly Length bytes of Data. -/
def wfOpt (o : DHCPOption) : Prop :=
  o.typ < 256 ∧ o.length < 256 ∧ o.typ ≠ dhcpOptEnd ∧
  (o.typ = dhcpOptPad → o.length = 0 ∧ o.data = []) ∧ (o.typ ≠ dhcpOptPad → o.data.length = o.length)

def wfOpts : List DHCPOption → Prop
  | [] => True
  | o :: rest => wfOpt o ∧ wfOpts rest

/-- In-range DHCPv4 field values: byte/16-bit/32-bit scalars, four 4-byte addresses, a hardware
    address of at most 16 bytes (the chaddr field), 64 bytes of sname, 128 bytes of file (the fixed
    field sizes: shorter values come back zero padded, longer ones cut), in-range options.
    HardwareLen need not agree with ClientHWAddr: FixLengths repairs it (`dhcpFixed`). -/
def wfDhcp (l : DHCPv4) : Prop :=
  l.operation < 256 ∧ l.hardwareType < 256 ∧ l.hardwareLen < 256 ∧ l.relayHops < 256 ∧
  l.xid < 4294967296 ∧ l.secs < 65536 ∧ l.flags < 65536 ∧
  l.clientIP.length = 4 ∧ l.yourClientIP.length = 4 ∧ l.nextServerIP.length = 4 ∧ l.relayAgentIP.length = 4 ∧
  l.clientHWAddr.length ≤ 16 ∧ l.serverName.length = 64 ∧ l.file.length = 128 ∧ wfOpts l.options

/-- HardwareLen says what ClientHWAddr is (true of every decoded layer and after FixLengths). -/
def hwLenAgrees (l : DHCPv4) : Prop := l.hardwareLen = l.clientHWAddr.length

/-- Field equivalence `≈` for DHCPv4: all public fields, Options compared element by element in order
    (Type, Length, Data); ignores BaseLayer.Contents/Payload. -/
def DhcpEquiv (a b : DHCPv4) : Prop :=
  a.operation = b.operation ∧ a.hardwareType = b.hardwareType ∧ a.hardwareLen = b.hardwareLen ∧
  a.relayHops = b.relayHops ∧ a.xid = b.xid ∧ a.secs = b.secs ∧ a.flags = b.flags ∧
  a.clientIP = b.clientIP ∧ a.yourClientIP = b.yourClientIP ∧ a.nextServerIP = b.nextServerIP ∧
  a.relayAgentIP = b.relayAgentIP ∧ a.clientHWAddr = b.clientHWAddr ∧ a.serverName = b.serverName ∧
  a.file = b.file ∧ a.options = b.options

instance (o : DHCPOption) : Decidable (wfOpt o) := by unfold wfOpt; infer_instance
instance wfOptsDec : (os : List DHCPOption) → Decidable (wfOpts os)
  | [] => isTrue trivial
  | o :: rest =>
    have := wfOptsDec rest
    by unfold wfOpts; infer_instance
instance (l : DHCPv4) : Decidable (wfDhcp l) := by unfold wfDhcp; infer_instance
instance (l : DHCPv4) : Decidable (hwLenAgrees l) := by unfold hwLenAgrees; infer_instance
instance (a b : DHCPv4) : Decidable (DhcpEquiv a b) := by unfold DhcpEquiv; infer_instance

/-! ## 2. Byte arithmetic -/

theorem u8_toNat (n : Nat) : (u8 n).toNat = n % 256 := by
  simp [u8]
theorem u8_toNat_lt (n : Nat) (h : n < 256) : (u8 n).toNat = n := by
  rw [u8_toNat]; omega
theorem be16_putBe16 (n : Nat) (h : n < 65536) : be16 (u8 (n / 256)) (u8 n) = n := by
  unfold be16; rw [u8_toNat, u8_toNat]; omega
theorem be32_putBe32 (n : Nat) (h : n < 4294967296) :
    be32 (u8 (n / 16777216)) (u8 (n / 65536)) (u8 (n / 256)) (u8 n) = n := by
  unfold be32; rw [u8_toNat, u8_toNat, u8_toNat, u8_toNat]; omega
theorem be16_lt (a b : UInt8) : be16 a b < 65536 := by
  unfold be16; have := a.toNat_lt; have := b.toNat_lt; omega
theorem be32_lt (a b c d : UInt8) : be32 a b c d < 4294967296 := by
  unfold be32; have := a.toNat_lt; have := b.toNat_lt; have := c.toNat_lt; have := d.toNat_lt; omega

/-- The middle part of a three-way split is recovered by drop/take. -/
theorem slice_mid (pre c post : Bytes) (s k : Nat) (hs : pre.length = s) (hk : c.length = k) :
    ((pre ++ (c ++ post)).drop s).take k = c := by
  subst hs hk
  rw [List.drop_left' rfl, List.take_left' rfl]

theorem u32At_of_slice (v : Bytes) (i x : Nat) (hl : i + 4 ≤ v.length) (hx : x < 4294967296)
    (h : (v.drop i).take 4 = putBe32 x) : u32At v i = x := by
  rw [four_bytes v i hl] at h
  unfold putBe32 at h
  injection h with h0 h; injection h with h1 h; injection h with h2 h; injection h with h3 _
  unfold u32At; rw [h0, h1, h2, h3]; exact be32_putBe32 x hx

theorem u16At_of_slice (v : Bytes) (i x : Nat) (hl : i + 2 ≤ v.length) (hx : x < 65536)
    (h : (v.drop i).take 2 = putBe16 x) : u16At v i = x := by
  rw [two_bytes v i hl] at h
  unfold putBe16 at h
  injection h with h0 h; injection h with h1 _
  unfold u16At; rw [h0, h1]; exact be16_putBe16 x hx

theorem padTo_length_eq (n : Nat) (x : Bytes) (h : x.length = n) : padTo n x = x := by
  unfold padTo
  rw [List.take_of_length_le (by omega), h, Nat.sub_self]; simp [zeros]

theorem padTo_take (n : Nat) (x : Bytes) (h : x.length ≤ n) : (padTo n x).take x.length = x := by
  unfold padTo
  rw [List.take_of_length_le h, List.take_left' rfl]

theorem to4_four (ip : Bytes) (h : ip.length = 4) : to4 ip = ip := by
  unfold to4; rw [if_pos h]

/-! ## 3. Every decoded layer is well-formed -/

theorem parseOpts_wf : ∀ (fuel : Nat) (bs : Bytes), wfOpts (parseOpts fuel bs).1 := by
  intro fuel
  induction fuel with
  | zero => intro bs; simp [parseOpts, wfOpts]
  | succ fuel ih =>
    intro bs
    unfold parseOpts
    by_cases hz : bs.length = 0
    · simp [hz, wfOpts]
    · simp only [hz, if_false]
      by_cases he : (optSpec bs).2 = true
      · simp [he, wfOpts]
      · have he' : (optSpec bs).2 = false := by simpa using he
        simp only [he', Bool.false_eq_true, if_false]
        by_cases hend : (optSpec bs).1.typ = dhcpOptEnd
        · simp [hend, wfOpts]
        · simp only [hend, if_false, wfOpts]
          refine ⟨?_, ih _⟩
          obtain ⟨-, hpe, htlv, ht, hl⟩ := optSpec_ok bs he'
          refine ⟨ht, hl, hend, ?_, ?_⟩
          · intro hp; exact (hpe (Or.inl hp)).2
          · intro hp; exact (htlv (fun x => x.elim hp hend)).2

theorem byteAt_lt (v : Bytes) (i : Nat) : (byteAt v i).toNat < 256 := (byteAt v i).toNat_lt

set_option maxRecDepth 8000 in
/-- Every successfully decoded layer satisfies `wfDhcp` and its HardwareLen agrees with ClientHWAddr. -/
theorem decSpec_wf (old : DHCPv4) (v : Bytes) (h : (decSpec old v).err = false) :
    wfDhcp (decSpec old v).layer ∧ hwLenAgrees (decSpec old v).layer := by
  obtain ⟨-, -, -, hl, hh, -, he, -⟩ := decSpec_ok_base old v h
  rw [he]
  unfold wfDhcp hwLenAgrees hdrFixed hdrAll hdr3
  simp only
  have t4 : ∀ i, i + 4 ≤ 240 → ((v.drop i).take 4).length = 4 := by
    intro i hi; rw [List.length_take, List.length_drop]; omega
  have hx : u32At v 4 < 4294967296 := be32_lt _ _ _ _
  have hs : u16At v 8 < 65536 := be16_lt _ _
  have hf : u16At v 10 < 65536 := be16_lt _ _
  refine ⟨⟨byteAt_lt v 0, byteAt_lt v 1, byteAt_lt v 2, byteAt_lt v 3, hx, hs, hf,
    t4 12 (by omega), t4 16 (by omega), t4 20 (by omega), t4 24 (by omega), ?_, ?_, ?_, parseOpts_wf _ _⟩, ?_⟩
  · rw [List.length_take, List.length_drop]; omega
  · rw [List.length_take, List.length_drop]; omega
  · rw [List.length_take, List.length_drop]; omega
  · rw [List.length_take, List.length_drop]; omega


/-! ## 4. decode ∘ encode: the options -/

theorem optSpec_encode (o : DHCPOption) (tail : Bytes) (h : wfOpt o) :
    optSpec (optBytes o ++ tail) = (o, false) ∧
    (optBytes o ++ tail).drop (if o.typ = dhcpOptPad then 1 else o.length + 2) = tail := by
  obtain ⟨ht, hl, hne, hpad, htlv⟩ := h
  obtain ⟨typ, length, data⟩ := o
  simp only at ht hl hne hpad htlv ⊢
  unfold optBytes
  simp only
  by_cases hp : typ = dhcpOptPad
  · obtain ⟨l0, d0⟩ := hpad hp
    subst l0 d0
    rw [if_pos hp, if_pos hp]
    constructor
    · subst hp
      have hz : (u8 dhcpOptPad).toNat = dhcpOptPad := by decide
      simp only [List.singleton_append, optSpec, hz, true_or, if_true]
    · rfl
  · have hd := htlv hp
    rw [if_neg hp, if_neg hne, if_neg hp]
    constructor
    · have hpe : ¬ (typ = dhcpOptPad ∨ typ = dhcpOptEnd) := fun x => x.elim hp hne
      simp only [List.cons_append, List.nil_append, optSpec, u8_toNat_lt typ ht, u8_toNat_lt length hl, hpe, if_false]
      have hgt : ¬ length > (data ++ tail).length := by rw [List.length_append]; omega
      rw [if_neg hgt, ← hd, List.take_left' rfl]
    · simp only [List.cons_append, List.nil_append]
      rw [← hd]
      show List.drop (data.length + 2) (u8 typ :: u8 data.length :: (data ++ tail)) = tail
      rw [List.drop_succ_cons, List.drop_succ_cons, List.drop_left' rfl]

theorem parse_encode : ∀ (os : List DHCPOption) (p : Bytes) (fuel : Nat), wfOpts os →
    (optsBytes os ++ ([u8 dhcpOptEnd] ++ p)).length ≤ fuel →
    parseOpts fuel (optsBytes os ++ ([u8 dhcpOptEnd] ++ p)) = (os, false) := by
  intro os
  induction os with
  | nil =>
    intro p fuel _ hf
    simp only [optsBytes, List.nil_append, List.singleton_append, List.length_cons] at hf ⊢
    cases fuel with
    | zero => omega
    | succ f =>
      unfold parseOpts
      have hend : (u8 dhcpOptEnd).toNat = dhcpOptEnd := by decide
      simp [optSpec, hend]
  | cons o rest ih =>
    intro p fuel hw hf
    obtain ⟨hwo, hwr⟩ := hw
    simp only [optsBytes, List.append_assoc] at hf ⊢
    obtain ⟨e1, e2⟩ := optSpec_encode o (optsBytes rest ++ ([u8 dhcpOptEnd] ++ p)) hwo
    have hlen := optBytes_length o
    cases fuel with
    | zero =>
      rw [List.length_append, hlen] at hf
      split at hf <;> omega
    | succ f =>
      unfold parseOpts
      have hz : ¬ (optBytes o ++ (optsBytes rest ++ ([u8 dhcpOptEnd] ++ p))).length = 0 := by
        rw [List.length_append, hlen]; split <;> omega
      rw [if_neg hz]
      simp only [e1, Bool.false_eq_true, if_false, hwo.2.2.1, e2]
      rw [ih p f hwr (by
        rw [List.length_append, hlen] at hf
        split at hf <;> omega)]


end Gp.Dhcp
