import Gp.Lemmas.Layers.Ip6Indep
/-
  Buffer independence of (*IPv6).SerializeTo.
-/
namespace Gp.Ip6
open Gp Gp.SBuf Gp.C18 Gp.Gen.Ip6

theorem sameOut_refl_err {α} (e : String) : SameOut (Res.err e : Res (SBuf × α)) (.err e) := rfl

theorem ip6HbhStep_sameOut (l : IPv6) (b1 b2 : SBuf) (fix jumbo : Bool) (h : BufEq b1 b2)
    (hc : l.Consistent fix) (hj : jumbo = true → 65535 < (contents b1).length) :
    SameOut (ip6HbhStep l b1 fix jumbo) (ip6HbhStep l b2 fix jumbo) := by
  obtain ⟨i1, i2, hcont, hlay⟩ := h
  unfold ip6HbhStep
  unfold IPv6.Consistent at hc
  match hh : l.hopByHop with
  | none =>
    simp only [Res.pure_eq_ok, SameOut]
    exact ⟨⟨i1, i2, hcont, hlay⟩, by rw [hcont]⟩
  | some hb =>
    rw [hh] at hc
    obtain ⟨hg, hr⟩ := hc
    dsimp only
    rw [hlay]
    split
    · simp only [Res.pure_eq_ok, SameOut]
      exact ⟨⟨i1, i2, hcont, hlay⟩, by rw [hcont]⟩
    · rw [serializeTlvExt_closed hb b1 fix i1 hg hr, serializeTlvExt_closed hb b2 fix i2 hg hr]
      split
      · rfl
      · have hbe := bufEq_prepend _ _ [u8 hb.base.nextHeader, u8 (extHdrLen fix hb)]
          (bufEq_prepend _ _ (encOpts fix hb.options) ⟨i1, i2, hcont, hlay⟩)
        obtain ⟨j1, j2, hc2, hl2⟩ := hbe
        simp only [Res.bind_ok]
        rw [hc2]
        split
        · rename_i hfj
          have hjt : jumbo = true := by simp at hfj; exact hfj.2
          have hcc := contents_step_prepend _ [u8 hb.base.nextHeader, u8 (extHdrLen fix hb)]
            (inv_step' b2 (.prepend (encOpts fix hb.options)) i2)
          have hlen : 65535 < (contents (step (step b2 (.prepend (encOpts fix hb.options)))
              (.prepend [u8 hb.base.nextHeader, u8 (extHdrLen fix hb)]))).length := by
            rw [hcc, contents_step_prepend _ _ i2, ← hcont]
            simp only [List.length_append]; have := hj hjt; omega
          rcases setPayloadJumboLength_ok _ hlen with ⟨p', hp, hpl⟩ | ⟨e, he⟩
          · rw [hp]
            simp only [Res.bind_ok, Res.pure_eq_ok, SameOut]
            exact ⟨bufEq_setContents _ _ p' ⟨j1, j2, hc2, hl2⟩ (by rw [hc2]; exact hpl), trivial⟩
          · rw [he]; rfl
        · simp only [Res.pure_eq_ok, SameOut]
          exact ⟨⟨j1, j2, hc2, hl2⟩, trivial⟩

theorem ip6HeaderStep_sameOut (l : IPv6) (b1 b2 : SBuf) (fix jumbo : Bool) (n : Nat) (h : BufEq b1 b2) :
    SameOut (ip6HeaderStep l b1 fix jumbo n) (ip6HeaderStep l b2 fix jumbo n) := by
  rw [ip6HeaderStep_eq l b1 fix jumbo n h.1, ip6HeaderStep_eq l b2 fix jumbo n h.2.1]
  split
  · rfl
  · split
    · rfl
    · split
      · rfl
      · exact ⟨bufEq_prepend _ _ _ h, rfl⟩

/-- (*IPv6).SerializeTo: outcome, output contents and mutated layer do not depend on the buffer's
    capacity, stale bytes or history. -/
theorem serializeIPv6_sameOut (l : IPv6) (b1 b2 : SBuf) (fix : Bool) (h : BufEq b1 b2)
    (hc : l.Consistent fix) : SameOut (serializeIPv6 l b1 fix) (serializeIPv6 l b2 fix) := by
  unfold serializeIPv6
  dsimp only
  rw [← h.2.2.1]
  match hp : ip6JumboPrep l fix (decide ((contents b1).length > maxPayloadLength)) with
  | .panic k => exact absurd hp (ip6JumboPrep_ne_panic _ _ _ k)
  | .err e => rfl
  | .ok l1 =>
    simp only [Res.bind_ok]
    have hc1 := ip6JumboPrep_consistent fix _ l l1 hp hc
    have hj : decide ((contents b1).length > maxPayloadLength) = true → 65535 < (contents b1).length := by
      intro hd; simpa [maxPayloadLength] using hd
    have hs := ip6HbhStep_sameOut l1 b1 b2 fix _ h hc1 hj
    match h1 : ip6HbhStep l1 b1 fix (decide ((contents b1).length > maxPayloadLength)),
          h2 : ip6HbhStep l1 b2 fix (decide ((contents b1).length > maxPayloadLength)) with
    | .ok (o1, l2, n1), .ok (o2, l2', n2) =>
      rw [h1, h2] at hs
      obtain ⟨hbe, heq⟩ := hs
      simp only [Prod.mk.injEq] at heq
      obtain ⟨rfl, rfl⟩ := heq
      simp only [Res.bind_ok]
      exact ip6HeaderStep_sameOut _ _ _ _ _ _ hbe
    | .err x, .err y => rw [h1, h2] at hs; exact hs
    | .ok _, .err _ => rw [h1, h2] at hs; exact hs.elim
    | .ok _, .panic _ => rw [h1, h2] at hs; exact hs.elim
    | .err _, .ok _ => rw [h1, h2] at hs; exact hs.elim
    | .err _, .panic _ => rw [h1, h2] at hs; exact hs.elim
    | .panic _, _ => rw [h1, h2] at hs; exact hs.elim

end Gp.Ip6
