import Gp.Lemmas.Layers.LlcRt2
/-
  Helper lemmas for engine `lllc`, part 9: what the serializers write for well-formed layers.
-/
namespace Gp.Llc
open Gp Gp.SBuf Gp.C18 Gp.Gen.Llc

theorem llc_ser_wf (l : LLC) (b : SBuf) (fix csum : Bool) (hw : wfLlc l) (hb : Inv b) :
    ∃ o, l.serializeTo b fix csum = .ok o ∧ o.err = false ∧ o.layer = l ∧ Inv o.buf ∧
      contents o.buf = llcHdr l (llcLen l) ++ contents b := by
  obtain ⟨o, ho, hi, hl, he, hbytes⟩ := llc_serializeTo_refines l b fix csum hb
  obtain ⟨-, hde, -, hse, -, -⟩ := hw
  have hspec : llcSerSpec l (contents b) = { layer := l, err := false, bytes := llcHdr l (llcLen l) ++ contents b } := by
    unfold llcSerSpec llcSerSpecWith
    rw [and_one, and_one, if_neg (by omega), if_neg (by omega)]
  rw [hspec] at hl he hbytes
  exact ⟨o, ho, he, hl, hi, hbytes rfl⟩

theorem snap_ser_wf (l : SNAP) (b : SBuf) (fix csum : Bool) (hw : wfSnap l) (hb : Inv b) :
    ∃ o, l.serializeTo b fix csum = .ok o ∧ o.err = false ∧ o.layer = l ∧ Inv o.buf ∧
      contents o.buf = l.org.take 3 ++ putBe16 l.type ++ contents b := by
  obtain ⟨o, ho, hi, hl, he, hbytes⟩ := snap_serializeTo_refines l b fix csum hb
  have hspec : snapSerSpec l (contents b) =
      { layer := l, err := false, bytes := l.org.take 3 ++ putBe16 l.type ++ contents b } := by
    unfold snapSerSpec
    rw [if_neg (by have := hw.1; omega)]
  rw [hspec] at hl he hbytes
  exact ⟨o, ho, he, hl, hi, hbytes rfl⟩

theorem switch_ok (s : SwitchID) (hw : wfSwitch s) : switchBad checkPriorityErr s = false := by
  obtain ⟨hp, -, hs, -⟩ := hw
  unfold switchBad checkPriorityErr
  simp only [Bool.or_eq_false_iff, decide_eq_false_iff_not]
  exact ⟨by simp [hp], by omega⟩

theorem stp_ser_wf (l : STP) (b : SBuf) (fix csum : Bool) (hw : wfStp l) (hb : Inv b) :
    ∃ o, l.serializeTo b fix csum = .ok o ∧ o.err = false ∧ o.layer = l ∧ Inv o.buf ∧
      contents o.buf = stpHdr l ++ contents b := by
  obtain ⟨o, ho, hi, hl, he, hbytes⟩ := stp_serializeTo_refines l b fix csum hb
  have hspec : stpSerSpec l (contents b) = { layer := l, err := false, bytes := stpHdr l ++ contents b } := by
    unfold stpSerSpec
    rw [switch_ok _ hw.2.2.2.1, switch_ok _ hw.2.2.2.2.2.1]
    rfl
  rw [hspec] at hl he hbytes
  exact ⟨o, ho, he, hl, hi, hbytes rfl⟩

end Gp.Llc
