import Gp.Lemmas.Layers.TunGeneve
/-
  Helper lemmas for engine `ltun`, part 4: Geneve, serialize side and round trip.  The pure encoder
  `encode`, the receiver after the call (`after`), the refinement theorem `serialize_spec`
  (SerializeTo = one fill of the requested window with `encode`), well-formedness, and
  decode ∘ encode = id.
-/
namespace Gp.Tun.Geneve
open Gp Gp.Tun Gp.SBuf

/-! ### the pure encoder and the mutation of the receiver -/

/-- wire form of one option: 4 header bytes and the data rounded DOWN to a multiple of 4. -/
def encOpt (o : GOpt) : Bytes :=
  putBe16 o.cls ++ [u8 o.typ] ++ [optByte3 o] ++ o.data.take (dataLen o)

def encOpts : List GOpt → Bytes
  | [] => []
  | o :: os => encOpt o ++ encOpts os

/-- the Geneve header of `l` (as it stands: OptionsLength and the option Lengths are what they are). -/
def encode (l : Layer) : Bytes :=
  [byte0 l] ++ [byte1 l] ++ putBe16 l.protocol ++ putBe32 ((l.vni <<< 8) % 4294967296) ++ encOpts l.options

/-- FixLengths, first part: `gn.OptionsLength = uint8(optionsLength)` (before PrependBytes). -/
def mutatedHdr (l : Layer) (opts : Opts) : Layer :=
  if opts.fixLengths then { l with optionsLength := optsSize l.options % 256 } else l

/-- the receiver after a successful call: additionally every `o.Length` assigned in the loop. -/
def mutated (l : Layer) (opts : Opts) : Layer :=
  { mutatedHdr l opts with options := l.options.map (fixOpt opts.fixLengths) }

/-- SerializeTo returns an error exactly when the VNI does not fit 24 bits. -/
def serErr (l : Layer) : Bool := decide (l.vni ≥ 16777216)

/-- the receiver after the call, error or not. -/
def after (l : Layer) (opts : Opts) : Layer :=
  if serErr l then mutatedHdr l opts else mutated l opts

theorem dataLen_le (o : GOpt) : dataLen o ≤ o.data.length := by unfold dataLen; omega

theorem dataLen_mod4 (o : GOpt) : dataLen o % 4 = 0 := by unfold dataLen; omega

theorem fixOpt_data (fix : Bool) (o : GOpt) : (fixOpt fix o).data = o.data := by
  unfold fixOpt; cases fix <;> rfl

theorem dataLen_fixOpt (fix : Bool) (o : GOpt) : dataLen (fixOpt fix o) = dataLen o := by
  unfold dataLen; rw [fixOpt_data]

theorem encOpt_length (o : GOpt) : (encOpt o).length = 4 + dataLen o := by
  have := dataLen_le o
  simp only [encOpt, List.length_append, putBe16_length, List.length_cons, List.length_nil,
    List.length_take]
  omega

theorem encOpts_length (os : List GOpt) : (encOpts os).length = optsSize os := by
  induction os with
  | nil => rfl
  | cons o os ih => simp only [encOpts, optsSize, List.length_append, encOpt_length, ih, Nat.add_assoc]

theorem optsSize_map_fix (fix : Bool) (os : List GOpt) : optsSize (os.map (fixOpt fix)) = optsSize os := by
  induction os with
  | nil => rfl
  | cons o os ih => simp only [List.map_cons, optsSize, dataLen_fixOpt, ih]

theorem optsSize_mod4 (os : List GOpt) : optsSize os % 4 = 0 := by
  induction os with
  | nil => rfl
  | cons o os ih => have := dataLen_mod4 o; simp only [optsSize]; omega

theorem fixOpt_idem (fix : Bool) (o : GOpt) : fixOpt fix (fixOpt fix o) = fixOpt fix o := by
  cases fix with
  | false => rfl
  | true =>
    have h := dataLen_fixOpt true o
    simp only [fixOpt, if_true] at h ⊢
    rw [h]

theorem map_fixOpt_idem (fix : Bool) (os : List GOpt) :
    (os.map (fixOpt fix)).map (fixOpt fix) = os.map (fixOpt fix) := by
  induction os with
  | nil => rfl
  | cons o os ih => simp only [List.map_cons, fixOpt_idem, ih]

/-! ### the option loop as ONE write -/

theorem putOpts_wrote (fix : Bool) (b1 : SBuf) (w : Win) (hm : w.off ≤ b1.mem.length) :
    ∀ (os : List GOpt) (c : Cur) (W : Bytes), Wrote b1 w c W → W.length + optsSize os ≤ w.n →
      ∃ c', putOpts fix w c os = .ok (c', os.map (fixOpt fix)) ∧
        Wrote b1 w c' (W ++ encOpts (os.map (fixOpt fix))) := by
  intro os
  induction os with
  | nil => intro c W hW _; exact ⟨c, rfl, by simpa [encOpts] using hW⟩
  | cons o os ih =>
    intro c W hW hroom
    simp only [optsSize] at hroom
    have hdl := dataLen_le o
    obtain ⟨c1, e1, w1⟩ := put_wrote b1 w c W (putBe16 (fixOpt fix o).cls) hW
      (by rw [putBe16_length]; omega) hm
    obtain ⟨c2, e2, w2⟩ := put_wrote b1 w c1 _ [u8 (fixOpt fix o).typ] w1
      (by simp only [List.length_append, putBe16_length, List.length_cons, List.length_nil]; omega) hm
    obtain ⟨c3, e3, w3⟩ := put_wrote b1 w c2 _ [optByte3 (fixOpt fix o)] w2
      (by simp only [List.length_append, putBe16_length, List.length_cons, List.length_nil]; omega) hm
    have hmin : min (dataLen o) o.data.length = dataLen o := Nat.min_eq_left hdl
    obtain ⟨c4, e4, w4⟩ := put_wrote b1 w c3 _ (o.data.take (dataLen o)) w3
      (by simp only [List.length_append, putBe16_length, List.length_cons, List.length_nil,
            List.length_take]; omega) hm
    have hc4 : c4.off ≤ w.n := by
      rw [w4.1]
      simp only [List.length_append, putBe16_length, List.length_cons, List.length_nil, List.length_take]
      omega
    obtain ⟨c5, e5, w5⟩ := ih c4 _ w4
      (by simp only [List.length_append, putBe16_length, List.length_cons, List.length_nil,
            List.length_take]; omega)
    refine ⟨c5, ?_, ?_⟩
    · rw [putOpts]
      simp only [e1, e2, e3, Res.bind_ok, hmin, e4, Nat.sub_self, skip_zero w c4 hc4, e5]
      rfl
    · have henc : encOpts ((o :: os).map (fixOpt fix)) =
          putBe16 (fixOpt fix o).cls ++ [u8 (fixOpt fix o).typ] ++ [optByte3 (fixOpt fix o)]
            ++ o.data.take (dataLen o) ++ encOpts (os.map (fixOpt fix)) := by
        simp only [List.map_cons, encOpts, encOpt, fixOpt_data, dataLen_fixOpt]
      rw [henc]
      simpa [List.append_assoc] using w5

/-! ### refinement of SerializeTo -/

theorem encode_length (l : Layer) : (encode l).length = 8 + optsSize l.options := by
  simp only [encode, List.length_append, List.length_cons, List.length_nil, putBe16_length,
    putBe32_length, encOpts_length]

/-- **SerializeTo computes the pure encoder**: for every layer value, every option set and every
    buffer satisfying the C18 invariant the call does not panic, leaves the receiver as `after`
    describes, returns the error exactly for an oversized VNI, and otherwise has written EVERY
    requested byte: the buffer holds `encode (mutated l opts) ++ old contents`. -/
theorem serialize_spec (l : Layer) (b : SBuf) (opts : Opts) (hb : Gp.C18.Inv b) :
    ∃ b', serializeTo l b opts = .ok { buf := b', layer := after l opts, err := serErr l } ∧
      Gp.C18.Inv b' ∧
      (serErr l = false → contents b' = encode (mutated l opts) ++ contents b) := by
  have hvni : (mutatedHdr l opts).vni = l.vni := by unfold mutatedHdr; split <;> rfl
  have hopts : (mutatedHdr l opts).options = l.options := by unfold mutatedHdr; split <;> rfl
  generalize hn : 8 + optsSize l.options = n
  have hm := prepend_win_in_mem b n hb
  have hwn : (prepend b n).2.n = n := rfl
  obtain ⟨c1, e1, w1⟩ := put_wrote _ _ _ [] [byte0 (mutatedHdr l opts)]
    (wrote_init (prepend b n).1 (prepend b n).2) (by rw [hwn]; simp; omega) hm
  obtain ⟨c2, e2, w2⟩ := put_wrote _ _ c1 _ [byte1 (mutatedHdr l opts)] w1 (by rw [hwn]; simp; omega) hm
  obtain ⟨c3, e3, w3⟩ := put_wrote _ _ c2 _ (putBe16 (mutatedHdr l opts).protocol) w2
    (by rw [hwn]; simp [putBe16_length]; omega) hm
  unfold serializeTo
  simp only [hn]
  have hl' : (if opts.fixLengths = true then { l with optionsLength := optsSize l.options % 256 } else l)
      = mutatedHdr l opts := rfl
  rw [hl']
  simp only [e1, e2, e3, Res.bind_ok, hvni, hopts]
  by_cases hv : l.vni ≥ 16777216
  · rw [if_pos hv]
    refine ⟨c3.b, ?_, ?_, ?_⟩
    · simp [after, serErr, hv]; rfl
    · exact wrote_inv b n c3 _ hb w3 (by simp [putBe16_length]; omega)
    · intro h; simp [serErr, hv] at h
  · rw [if_neg hv]
    obtain ⟨c4, e4, w4⟩ := put_wrote _ _ c3 _ (putBe32 ((l.vni <<< 8) % 4294967296)) w3
      (by rw [hwn]; simp [putBe16_length, putBe32_length]; omega) hm
    obtain ⟨c5, e5, w5⟩ := putOpts_wrote opts.fixLengths _ _ hm l.options c4 _ w4
      (by rw [hwn]; simp [putBe16_length, putBe32_length]; omega)
    simp only [e4, e5, Res.bind_ok]
    have henc : [] ++ [byte0 (mutatedHdr l opts)] ++ [byte1 (mutatedHdr l opts)] ++
        putBe16 (mutatedHdr l opts).protocol ++ putBe32 ((l.vni <<< 8) % 4294967296) ++
        encOpts (l.options.map (fixOpt opts.fixLengths)) = encode (mutated l opts) := by
      simp only [encode, mutated, hvni, List.nil_append]
      rfl
    rw [henc] at w5
    have hlen : (encode (mutated l opts)).length = n := by
      rw [encode_length, ← hn]
      simp only [mutated, optsSize_map_fix]
    have hall := wrote_all b n c5 _ w5 hlen
    have hsp := step_prepend_spec b (encode (mutated l opts)) hb
    refine ⟨c5.b, ?_, ?_, ?_⟩
    · simp [after, serErr, hv, mutated, hvni]
      rfl
    · rw [hall]; exact hsp.1
    · intro _; rw [hall, hsp.2]

/-! ### algebra of `after` (idempotence of the mutation) -/

theorem serErr_mutatedHdr (l : Layer) (opts : Opts) : serErr (mutatedHdr l opts) = serErr l := by
  unfold mutatedHdr serErr; split <;> rfl

theorem serErr_mutated (l : Layer) (opts : Opts) : serErr (mutated l opts) = serErr l := by
  unfold mutated; exact serErr_mutatedHdr l opts

theorem serErr_after (l : Layer) (opts : Opts) : serErr (after l opts) = serErr l := by
  unfold after; split
  · exact serErr_mutatedHdr l opts
  · exact serErr_mutated l opts

theorem mutatedHdr_idem (l : Layer) (opts : Opts) : mutatedHdr (mutatedHdr l opts) opts = mutatedHdr l opts := by
  unfold mutatedHdr
  cases opts.fixLengths <;> rfl

theorem mutated_idem (l : Layer) (opts : Opts) : mutated (mutated l opts) opts = mutated l opts := by
  unfold mutated mutatedHdr
  cases h : opts.fixLengths
  · simp only [Bool.false_eq_true, if_false]
    rw [map_fixOpt_idem]
  · simp only [if_true, optsSize_map_fix]
    rw [map_fixOpt_idem]

theorem after_idem (l : Layer) (opts : Opts) : after (after l opts) opts = after l opts := by
  have hs := serErr_after l opts
  unfold after at hs ⊢
  by_cases h : serErr l = true
  · simp only [h, if_true] at hs ⊢
    rw [hs]; simp only [if_true]
    exact mutatedHdr_idem l opts
  · have h' : serErr l = false := by simpa using h
    simp only [h', Bool.false_eq_true, if_false] at hs ⊢
    rw [hs]; simp only [Bool.false_eq_true, if_false]
    exact mutated_idem l opts

/-- Contents/Payload of the receiver are not consulted. -/
theorem encode_mutated_base (l : Layer) (c p : Bytes) (opts : Opts) :
    encode (mutated { l with contents := c, payload := p } opts) = encode (mutated l opts) := by
  unfold mutated mutatedHdr encode
  cases opts.fixLengths <;> rfl

/-! ### well-formed layers, field equivalence -/

/-- in-range option: the fields fit their wire widths; the data is whole 4-byte words, at most 31. -/
def wfOpt (o : GOpt) : Prop :=
  o.cls < 65536 ∧ o.typ < 256 ∧ o.flags < 8 ∧ o.data.length % 4 = 0 ∧ o.data.length ≤ 124

instance (o : GOpt) : Decidable (wfOpt o) := by unfold wfOpt; infer_instance

/-- In-range field values (OptionsLength and the option Lengths are NOT constrained: FixLengths
    computes them): 2-bit version, 24-bit VNI, at most 252 bytes of in-range options. -/
def wf (l : Layer) : Prop :=
  l.version < 4 ∧ l.protocol < 65536 ∧ l.vni < 16777216 ∧ optsSize l.options ≤ 252 ∧
  ∀ o ∈ l.options, wfOpt o

instance (l : Layer) : Decidable (wf l) := by unfold wf; infer_instance

/-- a well-formed layer whose length fields are the ones FixLengths computes — what both
    DecodeFromBytes and SerializeTo(FixLengths) leave behind. -/
def canonical (l : Layer) : Prop :=
  l.version < 4 ∧ l.protocol < 65536 ∧ l.vni < 16777216 ∧ optsSize l.options ≤ 252 ∧
  l.optionsLength = optsSize l.options ∧ ∀ o ∈ l.options, OptOk o

theorem canonical_wf (l : Layer) (h : canonical l) : wf l := by
  obtain ⟨h1, h2, h3, h4, _, h6⟩ := h
  refine ⟨h1, h2, h3, h4, ?_⟩
  intro o ho
  obtain ⟨a, b, c, _, d, e⟩ := h6 o ho
  exact ⟨a, b, c, d, e⟩

/-- `≈`: every public field except BaseLayer's Contents/Payload; options compared in order. -/
def sameFields (a b : Layer) : Prop :=
  a.version = b.version ∧ a.optionsLength = b.optionsLength ∧ a.oamPacket = b.oamPacket ∧
  a.criticalOption = b.criticalOption ∧ a.protocol = b.protocol ∧ a.vni = b.vni ∧
  a.options = b.options

instance (a b : Layer) : Decidable (sameFields a b) := by unfold sameFields; infer_instance

theorem dataLen_of_mod4 (o : GOpt) (h : o.data.length % 4 = 0) : dataLen o = o.data.length := by
  unfold dataLen; omega

theorem fixOpt_ok (o : GOpt) (h : wfOpt o) : OptOk (fixOpt true o) := by
  obtain ⟨a, b, c, d, e⟩ := h
  have hd := dataLen_of_mod4 o d
  refine ⟨a, b, c, ?_, d, e⟩
  show (4 + dataLen o) % 256 = 4 + o.data.length
  rw [hd]; omega

/-- SerializeTo with FixLengths turns a well-formed layer into a canonical one. -/
theorem mutated_canonical (l : Layer) (csum : Bool) (h : wf l) : canonical (mutated l ⟨true, csum⟩) := by
  obtain ⟨h1, h2, h3, h4, h5⟩ := h
  refine ⟨h1, h2, h3, ?_, ?_, ?_⟩
  · show optsSize (l.options.map (fixOpt true)) ≤ 252
    rw [optsSize_map_fix]; exact h4
  · show optsSize l.options % 256 = optsSize (l.options.map (fixOpt true))
    rw [optsSize_map_fix]; omega
  · intro o ho
    obtain ⟨o', ho', rfl⟩ := List.mem_map.mp ho
    exact fixOpt_ok o' (h5 o' ho')

/-! ### decode ∘ encode -/

theorem optByte3_bits : ∀ f, f < 8 → ∀ k, k < 32 →
    ((((f % 256) <<< 5) % 256 ||| (((4 + 4 * k) % 256 + 256 - 4) % 256) >>> 2 &&& 0x1f) % 256) &&& 0x1f = k ∧
    ((((f % 256) <<< 5) % 256 ||| (((4 + 4 * k) % 256 + 256 - 4) % 256) >>> 2 &&& 0x1f) % 256) >>> 5 = f := by
  decide

theorem byte0_bits : ∀ v, v < 4 → ∀ j, j < 64 →
    ((0 ||| ((v % 256) <<< 6) % 256 ||| (((4 * j) % 256) >>> 2 &&& 0x3f)) % 256) &&& 0x3f = j ∧
    ((0 ||| ((v % 256) <<< 6) % 256 ||| (((4 * j) % 256) >>> 2 &&& 0x3f)) % 256) >>> 6 = v := by
  decide

theorem byte1_bits (l : Layer) :
    decide ((byte1 l).toNat &&& 0x80 > 0) = l.oamPacket ∧
    decide ((byte1 l).toNat &&& 0x40 > 0) = l.criticalOption := by
  unfold byte1
  cases l.oamPacket <;> cases l.criticalOption <;> decide

/-- the specification reads back one canonical option. -/
theorem specOption_encOpt (o : GOpt) (R : Bytes) (h : OptOk o) :
    specOption (encOpt o ++ R) = .ok (o, o.length) := by
  obtain ⟨hc, ht, hf, hl, h4, h124⟩ := h
  have hd := dataLen_of_mod4 o h4
  obtain ⟨k, hk⟩ : ∃ k, o.data.length = 4 * k := ⟨o.data.length / 4, by omega⟩
  have hk32 : k < 32 := by omega
  have e : encOpt o ++ R = u8 (o.cls / 256) :: u8 o.cls :: u8 o.typ :: optByte3 o :: (o.data ++ R) := by
    simp only [encOpt, hd, List.take_length, putBe16]
    rfl
  rw [e]
  simp only [specOption]
  have hb := optByte3_bits o.flags hf k hk32
  have hb3 : (optByte3 o).toNat = (((o.flags % 256) <<< 5) % 256 ||| (((4 + 4 * k) % 256 + 256 - 4) % 256) >>> 2 &&& 0x1f) % 256 := by
    unfold optByte3
    rw [u8_toNat, hl, hk]
  rw [hb3, hb.1, hb.2]
  have hlen : ¬ ((o.data ++ R).length + 4 < k * 4 + 4) := by
    rw [List.length_append]; omega
  rw [if_neg hlen]
  have htake : List.take (k * 4 + 4 - 4) (o.data ++ R) = o.data := by
    have : k * 4 + 4 - 4 = o.data.length := by omega
    rw [this, List.take_left' rfl]
  rw [htake, be16_putBe16 _ hc, u8_toNat, Nat.mod_eq_of_lt ht]
  have hlen' : k * 4 + 4 = o.length := by omega
  rw [hlen']

/-- …and the loop reads back a whole canonical option list, over any payload. -/
theorem specLoop_encOpts : ∀ (os : List GOpt) (fuel : Nat) (P : Bytes), (∀ o ∈ os, OptOk o) →
    optsSize os < 4 * fuel →
    specLoop fuel (optsSize os) (encOpts os ++ P) = .ok (os, optsSize os) := by
  intro os
  induction os with
  | nil =>
    intro fuel P _ hf
    cases fuel with
    | zero => omega
    | succ fuel => simp [specLoop, optsSize]
  | cons o os ih =>
    intro fuel P hok hf
    cases fuel with
    | zero => omega
    | succ fuel =>
      have ho := hok o (List.mem_cons_self ..)
      obtain ⟨_, _, _, hl, h4, _⟩ := id ho
      have hd := dataLen_of_mod4 o h4
      have hsz : optsSize (o :: os) = o.length + optsSize os := by simp only [optsSize, hd]; omega
      rw [specLoop, if_neg (by rw [hsz]; omega)]
      simp only [encOpts, List.append_assoc]
      rw [specOption_encOpt o _ ho]
      simp only
      rw [if_neg (by rw [hsz]; omega)]
      have hdrop : List.drop o.length (encOpt o ++ (encOpts os ++ P)) = encOpts os ++ P := by
        have : o.length = (encOpt o).length := by rw [encOpt_length, hd]; omega
        rw [this, List.drop_left' rfl]
      have hsub : optsSize (o :: os) - o.length = optsSize os := by omega
      rw [hdrop, hsub, ih fuel P (fun x hx => hok x (List.mem_cons_of_mem _ hx)) (by omega)]
      simp only [hsz]

/-- **decode ∘ encode = id** on canonical layers, over any payload. -/
theorem spec_encode (l : Layer) (P : Bytes) (h : canonical l) :
    spec (encode l ++ P) = .ok ({ l with contents := encode l, payload := P }, false) := by
  obtain ⟨hv, hp, hvni, h252, hol, hok⟩ := h
  have hm4 := optsSize_mod4 l.options
  obtain ⟨j, hj⟩ : ∃ j, optsSize l.options = 4 * j := ⟨optsSize l.options / 4, by omega⟩
  have hj64 : j < 64 := by omega
  have e : encode l ++ P = byte0 l :: byte1 l :: u8 (l.protocol / 256) :: u8 l.protocol ::
      u8 ((l.vni <<< 8) % 4294967296 / 16777216) :: u8 ((l.vni <<< 8) % 4294967296 / 65536) ::
      u8 ((l.vni <<< 8) % 4294967296 / 256) :: u8 ((l.vni <<< 8) % 4294967296) ::
      (encOpts l.options ++ P) := by
    simp only [encode, putBe16, putBe32, List.append_assoc]
    rfl
  have hb0 : (byte0 l).toNat = (0 ||| ((l.version % 256) <<< 6) % 256 ||| (((4 * j) % 256) >>> 2 &&& 0x3f)) % 256 := by
    unfold byte0
    rw [u8_toNat, hol, hj]
  have hb := byte0_bits l.version hv j hj64
  have hlen := encode_length l
  rw [e]
  simp only [spec]
  rw [hb0, hb.1, hb.2, (byte1_bits l).1, (byte1_bits l).2, be16_putBe16 _ hp, vni_roundtrip _ hvni]
  have hshort : ¬ ((encOpts l.options ++ P).length < j * 4) := by
    rw [List.length_append, encOpts_length]; omega
  rw [if_neg hshort]
  have hj' : j * 4 = optsSize l.options := by omega
  rw [hj', specLoop_encOpts l.options _ P hok (by rw [List.length_append, encOpts_length]; omega)]
  simp only
  have hdrop : List.drop (optsSize l.options) (encOpts l.options ++ P) = P := by
    rw [← encOpts_length, List.drop_left' rfl]
  rw [← e]
  have htake : List.take (8 + optsSize l.options) (encode l ++ P) = encode l := by
    rw [← hlen, List.take_left' rfl]
  rw [hdrop, htake, ← hol]

/-! ### what the decoder produces -/

theorem specLoop_size : ∀ (fuel len : Nat) (d : Bytes) (os : List GOpt) (m : Nat),
    specLoop fuel len d = .ok (os, m) → optsSize os = m := by
  intro fuel
  induction fuel with
  | zero => intro len d os m h; simp [specLoop] at h
  | succ fuel ih =>
    intro len d os m h
    rw [specLoop] at h
    split at h
    · simp only [Res.ok.injEq, Prod.mk.injEq] at h
      obtain ⟨h1, h2⟩ := h
      subst h1 h2; rfl
    · cases ho : specOption d with
      | panic k' => rw [ho] at h; cases h
      | err e => rw [ho] at h; cases h
      | ok x =>
        obtain ⟨o, n⟩ := x
        obtain ⟨⟨_, _, _, hl, h4, _⟩, hn, _, _, _⟩ := specOption_ok d o n ho
        rw [ho] at h
        simp only at h
        split at h
        · cases h
        · cases hr : specLoop fuel (len - n) (d.drop n) with
          | panic k' => rw [hr] at h; cases h
          | err e => rw [hr] at h; cases h
          | ok y =>
            obtain ⟨os', m'⟩ := y
            rw [hr] at h
            simp only [Res.ok.injEq, Prod.mk.injEq] at h
            obtain ⟨h1, h2⟩ := h
            have := ih _ _ _ _ hr
            subst h1 h2
            simp only [optsSize, dataLen_of_mod4 o h4, this]
            omega

/-- every layer the specification produces is canonical (hence well-formed), is not flagged
    truncated, and partitions its input. -/
theorem spec_canonical (data : Bytes) (l : Layer) (t : Bool) (h : spec data = .ok (l, t)) :
    canonical l ∧ t = false ∧ l.contents ++ l.payload = data ∧ 8 ≤ l.contents.length := by
  match data, h with
  | d0 :: d1 :: p0 :: p1 :: v0 :: v1 :: v2 :: d7 :: r0, h =>
    simp only [spec] at h
    have hk := and_3f_le d0.toNat
    split at h
    · cases h
    · cases hs : specLoop (r0.length + 8) ((d0.toNat &&& 0x3f) * 4) r0 with
      | panic k => rw [hs] at h; cases h
      | err e => rw [hs] at h; cases h
      | ok y =>
        obtain ⟨os, m⟩ := y
        rw [hs] at h
        simp only [Res.ok.injEq, Prod.mk.injEq] at h
        obtain ⟨hl, ht⟩ := h
        obtain ⟨hm, hmr, hok⟩ := specLoop_ok _ _ _ _ _ hs
        have hsz := specLoop_size _ _ _ _ _ hs
        subst hl
        refine ⟨⟨shr6_lt d0, be16_lt p0 p1, be32_zero_lt v0 v1 v2, ?_, ?_, hok⟩, ht.symm, ?_, ?_⟩
        · show optsSize os ≤ 252
          omega
        · show (d0.toNat &&& 0x3f) * 4 = optsSize os
          omega
        · show List.take (8 + m) (d0 :: d1 :: p0 :: p1 :: v0 :: v1 :: v2 :: d7 :: r0) ++ List.drop m r0 = _
          have : List.drop m r0 = List.drop (8 + m) (d0 :: d1 :: p0 :: p1 :: v0 :: v1 :: v2 :: d7 :: r0) := by
            rw [Nat.add_comm]; rfl
          rw [this, List.take_append_drop]
        · show 8 ≤ (List.take (8 + m) (d0 :: d1 :: p0 :: p1 :: v0 :: v1 :: v2 :: d7 :: r0)).length
          rw [List.length_take]
          simp only [List.length_cons]
          omega

end Gp.Tun.Geneve
