import Gp.Lemmas.Layers.RmcpSer
/-
  Helper lemmas for engine `lrmcp`, part 3: well-formedness, ≈, and decode ∘ encode.  Core Lean only.

  Section 1 holds the *definitions* used in property statements.
-/
namespace Gp.Rmcp
open Gp Gp.SBuf Gp.C18 Gp.Gen.Rmcp

/-! ## 1. Definitions used in property statements -/

/-- In-range RMCP field values: 8-bit Version and Sequence, 4-bit Class (the wire format has four class
    bits; the Go type is a uint8 whose upper half would spill into the reserved bits and the Ack bit). -/
def wfRmcp (l : RMCP) : Prop := l.version < 256 ∧ l.sequence < 256 ∧ l.cls < 16

/-- Field equivalence `≈` for RMCP: all public fields; ignores BaseLayer.Contents/Payload. -/
def RmcpEquiv (a b : RMCP) : Prop :=
  a.version = b.version ∧ a.sequence = b.sequence ∧ a.ack = b.ack ∧ a.cls = b.cls

/-- In-range ASF field values (uint32 Enterprise; uint8 Type, Tag, Length). -/
def wfAsf (l : ASF) : Prop := l.enterprise < 4294967296 ∧ l.typ < 256 ∧ l.tag < 256 ∧ l.length < 256

def AsfEquiv (a b : ASF) : Prop :=
  a.enterprise = b.enterprise ∧ a.typ = b.typ ∧ a.tag = b.tag ∧ a.length = b.length

/-- In-range AGUEVar0 field values: 2-bit Version, 8-bit Protocol, 16-bit Flags, at most 31 extension bytes
    (the header has five length bits). -/
def wfAgue (l : AGUE) : Prop := l.version < 4 ∧ l.protocol < 256 ∧ l.flags < 65536 ∧ l.extensions.length < 32

def AgueEquiv (a b : AGUE) : Prop :=
  a.version = b.version ∧ a.c = b.c ∧ a.protocol = b.protocol ∧ a.flags = b.flags ∧ a.extensions = b.extensions

instance (l : RMCP) : Decidable (wfRmcp l) := by unfold wfRmcp; infer_instance
instance (a b : RMCP) : Decidable (RmcpEquiv a b) := by unfold RmcpEquiv; infer_instance
instance (l : ASF) : Decidable (wfAsf l) := by unfold wfAsf; infer_instance
instance (a b : ASF) : Decidable (AsfEquiv a b) := by unfold AsfEquiv; infer_instance
instance (l : AGUE) : Decidable (wfAgue l) := by unfold wfAgue; infer_instance
instance (a b : AGUE) : Decidable (AgueEquiv a b) := by unfold AgueEquiv; infer_instance

/-! ## 2. Byte arithmetic -/

theorem u8_toNat (n : Nat) : (u8 n).toNat = n % 256 := by
  simp [u8]

theorem be32_putBe32 (n : Nat) (h : n < 4294967296) :
    be32 (u8 (n / 16777216)) (u8 (n / 65536)) (u8 (n / 256)) (u8 n) = n := by
  unfold be32; rw [u8_toNat, u8_toNat, u8_toNat, u8_toNat]; omega

set_option maxRecDepth 20000 in
/-- The class/ack byte: packing then unpacking, for both Ack values and every 4-bit class. -/
theorem rmcp_b3 : ∀ (a : Bool) (c : Nat), c < 16 →
    ((((bool2uint8 a <<< 7) % 256) ||| (c % 256)) % 256 &&& 128 != 0) = a ∧
    (((bool2uint8 a <<< 7) % 256) ||| (c % 256)) % 256 &&& 0xF = c := by decide

set_option maxRecDepth 40000 in
/-- The first AGUEVar0 byte: packing then unpacking, for every 2-bit version, both C values and every 5-bit length. -/
theorem ague_b0 : ∀ (c : Bool) (v : Nat), v < 4 → ∀ h, h < 32 →
    let b0 := (if c then (((v <<< 6) % 256) ||| h) ||| 0x20 else (((v <<< 6) % 256) ||| h)) ||| h
    (b0 % 256) >>> 6 = v ∧ ((b0 % 256) &&& 0x20 != 0) = c ∧ (b0 % 256) &&& 0x1f = h := by decide

theorem flags_split (f : Nat) (h : f < 65536) :
    (((u8 (f >>> 8)).toNat <<< 8) % 65536) ||| (u8 (f &&& 0xff)).toNat = f := by
  rw [u8_toNat, u8_toNat, Nat.shiftRight_eq_div_pow, Nat.shiftLeft_eq]
  have e : f &&& 0xff = f % 256 := by
    have : (0xff : Nat) = 2 ^ 8 - 1 := by decide
    rw [this, Nat.and_two_pow_sub_one_eq_mod]
  rw [e]
  have e1 : f / 2 ^ 8 % 256 * 2 ^ 8 % 65536 = 2 ^ 8 * (f / 256) := by omega
  have e2 : f % 256 % 256 = f % 256 := by omega
  rw [e1, e2, ← Nat.two_pow_add_eq_or_of_lt (by omega)]
  omega

set_option maxRecDepth 8000 in
theorem byte_shr6_lt : ∀ x, x < 256 → x >>> 6 < 4 := by decide

/-! ## 3. RMCP -/

theorem rmcpEncode_cons (l : RMCP) (p : Bytes) :
    rmcpEncode l ++ p = u8 l.version :: 0 :: u8 l.sequence :: u8 (rmcpByte3 l) :: p := rfl

/-- Decoding the bytes `RMCP.SerializeTo` writes for a well-formed layer gives back exactly that layer. -/
theorem rmcpLayer_encode (l : RMCP) (p : Bytes) (hw : wfRmcp l) :
    rmcpLayer (rmcpEncode l ++ p) = { l with contents := rmcpEncode l, payload := p } := by
  obtain ⟨w1, w2, w3⟩ := hw
  obtain ⟨ea, ec⟩ := rmcp_b3 l.ack l.cls w3
  have e0 : (byteAt (rmcpEncode l ++ p) 0).toNat = l.version := by
    rw [rmcpEncode_cons]; show (u8 l.version).toNat = _; rw [u8_toNat]; omega
  have e2 : (byteAt (rmcpEncode l ++ p) 2).toNat = l.sequence := by
    rw [rmcpEncode_cons]; show (u8 l.sequence).toNat = _; rw [u8_toNat]; omega
  have e3 : (byteAt (rmcpEncode l ++ p) 3).toNat = rmcpByte3 l % 256 := by
    rw [rmcpEncode_cons]; show (u8 (rmcpByte3 l)).toNat = _; rw [u8_toNat]
  have et : (rmcpEncode l ++ p).take 4 = rmcpEncode l := List.take_left' rfl
  have ed : (rmcpEncode l ++ p).drop 4 = p := List.drop_left' rfl
  unfold rmcpLayer
  rw [e0, e2, e3, et, ed]
  have ea' : (rmcpByte3 l % 256 &&& rmcpAck != 0) = l.ack := ea
  have ec' : rmcpByte3 l % 256 &&& 0xF = l.cls := ec
  rw [ea', ec']

theorem rmcpLayer_wf (v : Bytes) : wfRmcp (rmcpLayer v) :=
  ⟨(byteAt v 0).toNat_lt, (byteAt v 2).toNat_lt, rmcpLayer_cls_lt v⟩

/-! ## 4. ASF -/

theorem asfEncode_cons (l : ASF) (p : Bytes) :
    asfEncode l ++ p = u8 (l.enterprise / 16777216) :: u8 (l.enterprise / 65536) :: u8 (l.enterprise / 256) ::
      u8 l.enterprise :: u8 l.typ :: u8 l.tag :: 0 :: u8 l.length :: p := rfl

theorem asfLayer_encode (l : ASF) (p : Bytes) (hw : wfAsf l) :
    asfLayer (asfEncode l ++ p) = { l with contents := asfEncode l, payload := p } := by
  obtain ⟨w1, w2, w3, w4⟩ := hw
  have e0 : u32At (asfEncode l ++ p) 0 = l.enterprise := by
    rw [asfEncode_cons]; exact be32_putBe32 _ w1
  have e4 : (byteAt (asfEncode l ++ p) 4).toNat = l.typ := by
    rw [asfEncode_cons]; show (u8 l.typ).toNat = _; rw [u8_toNat]; omega
  have e5 : (byteAt (asfEncode l ++ p) 5).toNat = l.tag := by
    rw [asfEncode_cons]; show (u8 l.tag).toNat = _; rw [u8_toNat]; omega
  have e7 : (byteAt (asfEncode l ++ p) 7).toNat = l.length := by
    rw [asfEncode_cons]; show (u8 l.length).toNat = _; rw [u8_toNat]; omega
  have et : (asfEncode l ++ p).take 8 = asfEncode l := List.take_left' rfl
  have ed : (asfEncode l ++ p).drop 8 = p := List.drop_left' rfl
  unfold asfLayer
  rw [e0, e4, e5, e7, et, ed]

theorem asfLayer_wf (v : Bytes) : wfAsf (asfLayer v) :=
  ⟨u32At_lt v 0, (byteAt v 4).toNat_lt, (byteAt v 5).toNat_lt, (byteAt v 7).toNat_lt⟩

theorem asfFixed_wf (l : ASF) (p : Bytes) (fix : Bool) (hw : wfAsf l) : wfAsf (asfFixed l p fix) := by
  obtain ⟨w1, w2, w3, w4⟩ := hw
  unfold asfFixed
  cases fix
  · exact ⟨w1, w2, w3, w4⟩
  · exact ⟨w1, w2, w3, Nat.mod_lt _ (by omega)⟩

/-! ## 5. AGUEVar0 -/

/-- The first header byte `LayerContents()` computes. -/
def agueByte0 (l : AGUE) : Nat :=
  (if l.c then (((l.version <<< 6) % 256) ||| (l.extensions.length % 256)) ||| 0x20
   else (((l.version <<< 6) % 256) ||| (l.extensions.length % 256))) ||| (l.extensions.length % 256)

theorem agueContents_cons (l : AGUE) (p : Bytes) :
    l.layerContents ++ p = u8 (agueByte0 l) :: u8 l.protocol :: u8 (l.flags >>> 8) :: u8 (l.flags &&& 0xff) ::
      (l.extensions ++ p) := by
  unfold AGUE.layerContents agueByte0
  simp only [List.cons_append, List.nil_append]

theorem agueContents_length (l : AGUE) : l.layerContents.length = 4 + l.extensions.length := by
  unfold AGUE.layerContents
  simp only [List.length_append, List.length_cons, List.length_nil]
  try omega

/-- Decoding the bytes `AGUEVar0.SerializeTo` writes for a well-formed layer gives back exactly that layer
    (Data = the payload), without error. -/
theorem agueDecSpec_encode (old l : AGUE) (p : Bytes) (hw : wfAgue l) :
    agueDecSpec old (l.layerContents ++ p) = { layer := { l with data := p }, trunc := false, err := false } := by
  obtain ⟨w1, w2, w3, w4⟩ := hw
  have hm : l.extensions.length % 256 = l.extensions.length := by omega
  have hb := ague_b0 l.c l.version w1 l.extensions.length w4
  simp only at hb
  have hb0 : agueByte0 l = (if l.c then (((l.version <<< 6) % 256) ||| l.extensions.length) ||| 0x20
      else (((l.version <<< 6) % 256) ||| l.extensions.length)) ||| l.extensions.length := by
    unfold agueByte0; rw [hm]
  rw [← hb0] at hb
  obtain ⟨bv, bc, bh⟩ := hb
  have e0 : (byteAt (l.layerContents ++ p) 0).toNat = agueByte0 l % 256 := by
    rw [agueContents_cons]; show (u8 (agueByte0 l)).toNat = _; rw [u8_toNat]
  have e1 : (byteAt (l.layerContents ++ p) 1).toNat = l.protocol := by
    rw [agueContents_cons]; show (u8 l.protocol).toNat = _; rw [u8_toNat]; omega
  have e2 : byteAt (l.layerContents ++ p) 2 = u8 (l.flags >>> 8) := by rw [agueContents_cons]; rfl
  have e3 : byteAt (l.layerContents ++ p) 3 = u8 (l.flags &&& 0xff) := by rw [agueContents_cons]; rfl
  have eh : agueHlen (l.layerContents ++ p) = l.extensions.length := by
    unfold agueHlen; rw [e0]; exact bh
  have hlen : (l.layerContents ++ p).length = 4 + l.extensions.length + p.length := by
    rw [List.length_append, agueContents_length]
  have ed4 : (l.layerContents ++ p).drop 4 = l.extensions ++ p := by
    rw [agueContents_cons]; rfl
  unfold agueDecSpec
  rw [eh, if_neg (by omega)]
  unfold agueLayer
  rw [eh, e0, e1, e2, e3, ed4, bv, bc, flags_split l.flags w3, List.take_left' rfl]
  have ed : (l.layerContents ++ p).drop (4 + l.extensions.length) = p :=
    List.drop_left' (agueContents_length l)
  rw [ed]

theorem agueLayer_wf (v : Bytes) : wfAgue (agueLayer v) := by
  refine ⟨byte_shr6_lt _ (byteAt v 0).toNat_lt, (byteAt v 1).toNat_lt, ?_, ?_⟩
  · show ((byteAt v 2).toNat <<< 8) % 65536 ||| (byteAt v 3).toNat < 2 ^ 16
    apply Nat.or_lt_two_pow
    · exact Nat.mod_lt _ (by omega)
    · have := (byteAt v 3).toNat_lt; omega
  · show ((v.drop 4).take (agueHlen v)).length < 32
    have := agueHlen_le v
    have := List.length_take_le (agueHlen v) (v.drop 4)
    omega

end Gp.Rmcp
