import Gp.Lemmas.Layers.Ip6Tlv4
import Gp.Lemmas.SBuf
/-
  (*IPv6HopByHop).SerializeTo / (*IPv6Destination).SerializeTo over the serialize-buffer model.
-/
namespace Gp.Ip6
open Gp Gp.SBuf Gp.C18

/-- The header-length byte written / stored by SerializeTo. -/
def extHdrLen (fix : Bool) (e : TlvExt) : Nat :=
  if fix then ((encLen fix e.options + 2) / 8 - 1) % 256 else e.base.headerLength

/-- The layer as mutated by SerializeTo. -/
def fixExt (fix : Bool) (e : TlvExt) : TlvExt :=
  { e with options := e.options.map (fixOpt fix),
           base := { e.base with headerLength := extHdrLen fix e } }

/-- The stale bytes of the window returned by PrependBytes(n). -/
def staleWin (b : SBuf) (n : Nat) : Bytes := (contents (prepend b n).1).take n

theorem staleWin_length (b : SBuf) (n : Nat) (h : Inv b) : (staleWin b n).length = n := by
  unfold staleWin
  rw [List.length_take, prepend_contents_length b n h]; omega

theorem fill_prepend (b : SBuf) (out : Bytes) (n : Nat) (h : out.length = n) :
    fill (prepend b n).1 (prepend b n).2 out = step b (.prepend out) := by
  subst h; exact (step_prepend b out).symm

/-- Unfolding of serializeTlvExt under the buffer invariant: the option area `out` is what the
    real run leaves in the window (of the stale bytes `staleWin b l`). -/
theorem serializeTlvExt_eq (e : TlvExt) (b : SBuf) (fix : Bool) (h : Inv b) :
    ∃ out, out.length = encLen fix e.options ∧
      serializeTlvOptions (some (staleWin b (encLen fix e.options))) (e.options.map (fixOpt fix)) fix =
        .ok (e.options.map (fixOpt fix), some out, encLen fix e.options) ∧
      serializeTlvExt e b fix =
        if (encLen fix e.options + 2) % 8 ≠ 0 then .err "actual length must be multiple of 8"
        else .ok (step (step b (.prepend out)) (.prepend [u8 e.base.nextHeader, u8 (extHdrLen fix e)]),
                  fixExt fix e) := by
  have hsl := staleWin_length b (encLen fix e.options) h
  obtain ⟨out, hrun, hol⟩ := serializeTlvOptions_ok fix (e.options.map (fixOpt fix))
    (staleWin b (encLen fix e.options)) (by rw [hsl, encLen_map_fixOpt])
  rw [map_fixOpt_idem, encLen_map_fixOpt] at hrun
  refine ⟨out, by rw [hol, hsl], hrun, ?_⟩
  unfold serializeTlvExt
  rw [serializeTlvOptions_dry]
  simp only [Res.bind_ok]
  have hst : (contents (prepend b (encLen fix e.options)).1).take (encLen fix e.options) =
      staleWin b (encLen fix e.options) := rfl
  rw [hst, hrun]
  simp only [Res.bind_ok, Option.getD_some]
  rw [fill_prepend b out _ (by rw [hol, hsl])]
  by_cases hm : (encLen fix e.options + 2) % 8 ≠ 0
  · rw [if_pos hm, if_pos hm]
  · rw [if_neg hm, if_neg hm]
    have := fill_prepend (step b (.prepend out)) [u8 e.base.nextHeader, u8 (extHdrLen fix e)] 2 rfl
    unfold extHdrLen at this
    rw [this]
    rfl

theorem serializeTlvExt_ne_panic (e : TlvExt) (b : SBuf) (fix : Bool) (h : Inv b) (k : PanicKind) :
    serializeTlvExt e b fix ≠ .panic k := by
  obtain ⟨out, -, -, heq⟩ := serializeTlvExt_eq e b fix h
  rw [heq]
  split <;> simp

/-- Gap-free, in-range option lists: the window ends up holding exactly `encOpts`, independent of
    what the buffer held. -/
theorem serializeTlvExt_closed (e : TlvExt) (b : SBuf) (fix : Bool) (h : Inv b)
    (hg : GapFree fix e.options) (hr : AlignInRange e.options) :
    serializeTlvExt e b fix =
      if (encLen fix e.options + 2) % 8 ≠ 0 then .err "actual length must be multiple of 8"
      else .ok (step (step b (.prepend (encOpts fix e.options)))
                  (.prepend [u8 e.base.nextHeader, u8 (extHdrLen fix e)]), fixExt fix e) := by
  obtain ⟨out, hol, hrun, heq⟩ := serializeTlvExt_eq e b fix h
  have hc := serializeTlvOptions_closed fix (e.options.map (fixOpt fix)) (staleWin b (encLen fix e.options))
    (by rw [staleWin_length b _ h, encLen_map_fixOpt]) (gapFree_map fix _ hg) (alignInRange_map fix _ hr)
  rw [map_fixOpt_idem, encLen_map_fixOpt, encOpts_map_fixOpt] at hc
  rw [hc] at hrun
  simp only [Res.ok.injEq, Prod.mk.injEq, Option.some.injEq, true_and, and_true] at hrun
  rw [heq, ← hrun]

/-- contents / invariant after a successful extension-header serialisation -/
theorem ext_result_contents (b : SBuf) (out hdr : Bytes) (h : Inv b) :
    contents (step (step b (.prepend out)) (.prepend hdr)) = hdr ++ out ++ contents b ∧
    Inv (step (step b (.prepend out)) (.prepend hdr)) ∧
    (step (step b (.prepend out)) (.prepend hdr)).layers = b.layers := by
  have i1 := inv_step' b (.prepend out) h
  refine ⟨?_, inv_step' _ _ i1, ?_⟩
  · rw [contents_step_prepend _ _ i1, contents_step_prepend _ _ h, List.append_assoc]
  · rw [layers_step, layers_step]; rfl

end Gp.Ip6
