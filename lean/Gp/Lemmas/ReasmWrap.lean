import Gp.Lemmas.ReasmHalf
/-
  Layer A of C09 (wrap elimination): as long as every live sequence number lies in a window shorter than
  2^30, the model running the GENERATED `Sequence.Difference/Add` (`Arith.real`) on sequence numbers
  reduced modulo 2^32 does exactly what the offset-space twin (`Arith.ideal`) does on unbounded
  numbers.  This is the only place where the generated arithmetic is used.
-/
set_option linter.unusedSimpArgs false
namespace Gp.Reasm
open Gp

abbrev R : Arith := Arith.real

/-- reduce a sequence number modulo 2^32 -/
def wq (x : Int) : Int := x % 4294967296
/-- nextSeq: the sentinel -1 stays -/
def wns (x : Int) : Int := if x = -1 then -1 else x % 4294967296

def Page.wrap (p : Page) : Page := { p with seq := wq p.seq }
def Cont.wrap (c : Cont) : Cont := { c with seq := wq c.seq }
def Half.wrap (h : Half) : Half :=
  { h with nextSeq := wns h.nextSeq, queue := h.queue.map Page.wrap, saved := h.saved.map Page.wrap }

/-- the window: everything between the SYN (b-1) and one past the FIN (b+n+1) -/
def InW (b : Int) (n : Nat) (x : Int) : Prop := b - 1 ≤ x ∧ x ≤ b + n + 1

theorem real_diff {b : Int} {n : Nat} (hb : 1 ≤ b) (hn : n + 2 < 1073741824) {x y : Int}
    (hx : InW b n x) (hy : InW b n y) : R.diff (wq x) (wq y) = y - x := by
  obtain ⟨hx1, hx2⟩ := hx
  obtain ⟨hy1, hy2⟩ := hy
  simp only [Arith.real, Gp.Gen.SeqReasm.difference, wq]
  split <;> (try split) <;> omega

theorem real_add (x n : Int) : R.add (wq x) n = wq (x + n) := by
  simp only [Arith.real, Gp.Gen.SeqReasm.add, wq]; omega

theorem wq_inj {b : Int} {n : Nat} (hb : 1 ≤ b) (hn : n + 2 < 1073741824) {x y : Int}
    (hx : InW b n x) (hy : InW b n y) (h : wq x = wq y) : x = y := by
  obtain ⟨hx1, hx2⟩ := hx
  obtain ⟨hy1, hy2⟩ := hy
  simp only [wq] at h; omega

theorem wq_ne_neg1 (x : Int) : wq x ≠ -1 := by simp only [wq]; omega
theorem wns_of_nonneg {x : Int} (h : 0 ≤ x) : wns x = wq x := by
  simp only [wns, wq]; rw [if_neg (by omega)]
theorem wns_eq_neg1 {x : Int} (h0 : -1 ≤ x) : wns x = -1 ↔ x = -1 := by
  simp only [wns]; split <;> omega

/-- result mapping -/
def Res.mapR {α β : Type} (f : α → β) : Res α → Res β
  | .ok a => .ok (f a)
  | .err k => .err k
  | .panic k => .panic k

theorem At.inW {S : List UInt8} {b seq : Int} {bytes : List UInt8} (h : At S b seq bytes) :
    InW b S.length seq ∧ InW b S.length (seq + bytes.length) := by
  have := h.len; unfold InW; omega

/-! ### pages -/

theorem splitPagesAux_wrap (seen : Int) (fin : Bool) : ∀ (fuel : Nat) (seq : Int) (bytes : List UInt8),
    splitPagesAux R seen fin fuel (wq seq) bytes = (splitPagesAux I seen fin fuel seq bytes).map Page.wrap
  | 0, seq, bytes => by simp [splitPagesAux, Page.wrap]
  | fuel + 1, seq, bytes => by
    simp only [splitPagesAux]
    split
    · simp [Page.wrap]
    · simp only [List.map_cons, real_add, I_add]
      rw [splitPagesAux_wrap seen fin fuel]
      simp [Page.wrap]

theorem splitPages_wrap (seq : Int) (bytes : List UInt8) (ts : Int) (fin : Bool) :
    splitPages R (wq seq) bytes ts fin = (splitPages I seq bytes ts fin).map Page.wrap :=
  splitPagesAux_wrap ts fin _ _ _

def Ov.wrap (r : Ov) : Ov := { r with front := r.front.map Page.wrap, back := r.back.map Page.wrap }

theorem ovLoop_wrap {S : List UInt8} {b : Int} (hb : 1 ≤ b) (hn : S.length + 2 < 1073741824)
    (start end_ : Int) (hs : InW b S.length start) (he : InW b S.length end_) :
    ∀ (rev back : List Page) (bytes : List UInt8) (dropped : Nat),
      (∀ p ∈ rev, At S b p.seq p.bytes) →
      ovLoop R (wq start) (wq end_) bytes (rev.map Page.wrap) (back.map Page.wrap) dropped =
        Res.mapR Ov.wrap (ovLoop I start end_ bytes rev back dropped)
  | [], back, bytes, dropped, _ => by simp [ovLoop, Res.mapR, Ov.wrap]
  | cur :: rest, back, bytes, dropped, hok => by
    have hc := (hok cur (List.mem_cons_self ..)).inW
    have hrest : ∀ p ∈ rest, At S b p.seq p.bytes := fun p hp => hok p (List.mem_cons_of_mem _ hp)
    have ih := ovLoop_wrap hb hn start end_ hs he rest
    simp only [List.map_cons, ovLoop]
    have e1 : R.diff (wq end_) (Page.wrap cur).seq = I.diff end_ cur.seq := real_diff hb hn he hc.1
    have e2 : R.add (Page.wrap cur).seq ↑(Page.wrap cur).bytes.length = wq (cur.seq + ↑cur.bytes.length) := real_add _ _
    have e3 : R.diff (wq start) (wq (cur.seq + ↑cur.bytes.length)) = I.diff start (I.add cur.seq ↑cur.bytes.length) :=
      real_diff hb hn hs hc.2
    have e4 : R.diff (wq start) (Page.wrap cur).seq = I.diff start cur.seq := real_diff hb hn hs hc.1
    have e5 : R.diff (wq end_) (wq (cur.seq + ↑cur.bytes.length)) = I.diff end_ (I.add cur.seq ↑cur.bytes.length) :=
      real_diff hb hn he hc.2
    have e6 : (Page.wrap cur).bytes = cur.bytes := rfl
    rw [e2, e1, e3, e4, e5, e6]
    split
    · have := ih (cur :: back) bytes dropped hrest
      simpa using this
    · split
      · simp [Res.mapR, Ov.wrap]
      · split
        · exact ih back bytes (dropped + 1) hrest
        · split
          · split
            · rfl
            · simp [Res.mapR, Ov.wrap, Page.wrap]
          · split
            · split
              · rfl
              · have := ih ({ cur with bytes := cur.bytes.drop (-I.diff end_ cur.seq).toNat,
                                       seq := I.add cur.seq (-I.diff end_ cur.seq) } :: back) bytes dropped hrest
                simp only [List.map_cons, Page.wrap, I_add, ← real_add] at this ⊢
                exact this
            · split
              · split
                · rfl
                · have := ih ({ cur with bytes := overwrite cur.bytes (-I.diff start cur.seq).toNat bytes } :: back) [] dropped hrest
                  simpa [Page.wrap] using this
              · have := ih (cur :: back) bytes dropped hrest
                simpa using this

/-! ### checkOverlap / overlapExisting -/

def wrap3 (r : Half × Int × List UInt8) : Half × Int × List UInt8 := (r.1.wrap, r.2.1, r.2.2)

theorem checkOverlap_wrap {S : List UInt8} {b : Int} (hb : 1 ≤ b) (hn : S.length + 2 < 1073741824)
    (h : Half) (used : Int) (queue : Bool) (start : Int) (bytes : List UInt8) (ts : Int) (fin : Bool)
    (hat : At S b start bytes) (hok : ∀ p ∈ h.queue, At S b p.seq p.bytes) :
    checkOverlap R h.wrap used queue (wq start) bytes ts fin =
      Res.mapR wrap3 (checkOverlap I h used queue start bytes ts fin) := by
  unfold checkOverlap
  have hw := hat.inW
  have e1 : R.add (wq start) ↑bytes.length = wq (start + ↑bytes.length) := real_add _ _
  have e2 : h.wrap.queue.reverse = (h.queue.reverse).map Page.wrap := by simp [Half.wrap]
  rw [e1, e2]
  have := ovLoop_wrap hb hn start (start + ↑bytes.length) hw.1 hw.2 h.queue.reverse [] bytes 0
    (fun p hp => hok p (List.mem_reverse.mp hp))
  simp only [List.map_nil] at this
  rw [this]
  simp only [I_add]
  cases hov : ovLoop I start (start + ↑bytes.length) bytes h.queue.reverse [] 0 with
  | ok r =>
    simp only [Res.mapR]
    by_cases hc : 0 < r.bytes.length ∧ queue = true
    · have hc' : r.wrap.bytes.length > 0 ∧ queue = true := hc
      rw [if_pos hc, if_pos hc', splitPages_wrap]
      simp [wrap3, Half.wrap, Ov.wrap, Res.mapR]
    · have hc' : ¬ (r.wrap.bytes.length > 0 ∧ queue = true) := hc
      rw [if_neg hc, if_neg hc']
      simp [wrap3, Half.wrap, Ov.wrap, Res.mapR]
  | err k => rfl
  | panic k => rfl

theorem overlapExisting_wrap {S : List UInt8} {b : Int} (hb : 1 ≤ b) (hn : S.length + 2 < 1073741824)
    (h : Half) (start : Int) (bytes : List UInt8) (hs : InW b S.length start)
    (hns : h.nextSeq = -1 ∨ InW b S.length h.nextSeq) :
    overlapExisting R h.wrap (wq start) bytes =
      Res.mapR (fun r => (r.1, wq r.2)) (overlapExisting I h start bytes) := by
  unfold overlapExisting
  rcases hns with hm | hw
  · have : h.wrap.nextSeq = invalidSeq := by simp [Half.wrap, wns, hm]
    rw [if_pos this, if_pos (by simpa using hm)]
    rfl
  · have h0 : 0 ≤ h.nextSeq := by unfold InW at hw; omega
    have e0 : h.wrap.nextSeq = wq h.nextSeq := by simp only [Half.wrap]; exact wns_of_nonneg h0
    have : ¬ h.wrap.nextSeq = invalidSeq := by rw [e0]; exact wq_ne_neg1 _
    have hne : ¬ h.nextSeq = invalidSeq := by simp only [invalidSeq_eq]; omega
    rw [if_neg this, if_neg hne]
    rw [e0, real_diff hb hn hs hw]
    simp only [I_diff]
    by_cases hd : h.nextSeq - start = 0
    · rw [if_pos hd, if_pos hd]; rfl
    · rw [if_neg hd, if_neg hd]
      by_cases hp : (if h.nextSeq - start ≥ ↑bytes.length then (↑bytes.length : Int) else h.nextSeq - start) < 0
      · rw [if_pos hp, if_pos hp]; rfl
      · rw [if_neg hp, if_neg hp]; rfl

/-! ### addPending / addContiguous / cleanSG / sendToConnection -/

@[simp] theorem Page.wrap_toCont (p : Page) : (Page.wrap p).toCont = Cont.wrap p.toCont := rfl
@[simp] theorem Cont.wrap_toPage (c : Cont) : (Cont.wrap c).toPage = Page.wrap c.toPage := rfl
@[simp] theorem Page.wrap_bytes (p : Page) : (Page.wrap p).bytes = p.bytes := rfl
@[simp] theorem Cont.wrap_bytes (c : Cont) : (Cont.wrap c).bytes = c.bytes := rfl
@[simp] theorem Cont.wrap_live (c : Cont) : (Cont.wrap c).live = c.live := rfl
@[simp] theorem Cont.wrap_fin (c : Cont) : (Cont.wrap c).fin = c.fin := rfl
@[simp] theorem Cont.wrap_start (c : Cont) : (Cont.wrap c).start = c.start := rfl
@[simp] theorem Cont.wrap_seq (c : Cont) : (Cont.wrap c).seq = wq c.seq := rfl
@[simp] theorem Page.wrap_seq (p : Page) : (Page.wrap p).seq = wq p.seq := rfl

theorem bytesLen_wrap (l : List Page) : bytesLen (l.map Page.wrap) = bytesLen l := by
  simp [bytesLen, List.map_map, Function.comp_def]

theorem flat_wrap (l : List Cont) : flat (l.map Cont.wrap) = flat l := by
  simp [flat, List.map_map, Function.comp_def]

theorem pageCount_wrap (l : List Cont) : pageCount (l.map Cont.wrap) = pageCount l := by
  induction l with
  | nil => rfl
  | cons c rest ih =>
    simp only [pageCount, List.map_cons, List.filter_cons, Cont.wrap_live] at ih ⊢
    split <;> simp [ih]

theorem lastFin_wrap (l : List Cont) : lastFin (l.map Cont.wrap) = lastFin l := by
  simp only [lastFin, List.getLast?_map]
  cases l.getLast? <;> rfl

theorem headStart_wrap (l : List Cont) : headStart (l.map Cont.wrap) = headStart l := by
  simp only [headStart, List.head?_map]
  cases l.head? <;> rfl

theorem addPending_wrap {S : List UInt8} {b : Int} (hb : 1 ≤ b) (hn : S.length + 2 < 1073741824)
    (h : Half) (used : Int) (firstSeq : Int) (ret : List Cont) (hf : InW b S.length firstSeq)
    (hsv : SavedOK S b h) (hns : h.nextSeq = -1 ∨ InW b S.length h.nextSeq) :
    addPending R h.wrap used (wq firstSeq) (ret.map Cont.wrap) =
      ((addPending I h used firstSeq ret).1.wrap, (addPending I h used firstSeq ret).2.1,
       (addPending I h used firstSeq ret).2.2.1.map Cont.wrap, (addPending I h used firstSeq ret).2.2.2) := by
  unfold addPending
  cases hsaved : h.saved with
  | nil => simp [Half.wrap, hsaved]
  | cons p rest =>
    have hw : h.wrap.saved = Page.wrap p :: rest.map Page.wrap := by simp [Half.wrap, hsaved]
    rw [hw]
    simp only
    have hbl : bytesLen (Page.wrap p :: rest.map Page.wrap) = bytesLen (p :: rest) := by
      have := bytesLen_wrap (p :: rest); simpa using this
    rw [hbl, Page.wrap_seq, real_add]
    -- the end of the saved chain is nextSeq
    have hend : InW b S.length (p.seq + ↑(bytesLen (p :: rest))) := by
      rcases hsv with hnil | ⟨hne, s0, hs0, hch⟩
      · rw [hsaved] at hnil; cases hnil
      · rw [hsaved] at hch
        have := hch.bytesLen
        have hps : p.seq = s0 := hch.1
        rw [hps, this]
        exact hns.resolve_left hne
    by_cases hc : I.add p.seq ↑(bytesLen (p :: rest)) ≠ firstSeq
    · have hc' : wq (p.seq + ↑(bytesLen (p :: rest))) ≠ wq firstSeq := fun e => hc (wq_inj hb hn hend hf e)
      rw [if_pos hc, if_pos hc']
      simp [Half.wrap]
    · have hc0 : p.seq + ↑(bytesLen (p :: rest)) = firstSeq := by simpa using hc
      have hc' : ¬ wq (p.seq + ↑(bytesLen (p :: rest))) ≠ wq firstSeq := by rw [hc0]; simp
      rw [if_neg hc, if_neg hc']
      simp [Half.wrap, List.map_map, Function.comp_def]

theorem addContiguousAux_wrap {S : List UInt8} {b : Int} (hb : 1 ≤ b) (hn : S.length + 2 < 1073741824) :
    ∀ (q : List Page) (last : Int) (ret : List Cont), InW b S.length last → (∀ p ∈ q, At S b p.seq p.bytes) →
      addContiguousAux R (q.map Page.wrap) (wq last) (ret.map Cont.wrap) =
        ((addContiguousAux I q last ret).1.map Page.wrap, wq (addContiguousAux I q last ret).2.1,
         (addContiguousAux I q last ret).2.2.map Cont.wrap)
  | [], last, ret, _, _ => by simp [addContiguousAux]
  | p :: rest, last, ret, hl, hok => by
    have hp := (hok p (List.mem_cons_self ..)).inW
    simp only [List.map_cons, addContiguousAux, Page.wrap_seq, Page.wrap_bytes]
    rw [real_diff hb hn hl hp.1]
    simp only [I_diff]
    by_cases hc : p.seq - last = 0
    · rw [if_pos hc, if_pos hc, real_add]
      have hl' : InW b S.length (last + ↑p.bytes.length) := by
        have : last = p.seq := by omega
        rw [this]; exact hp.2
      have := addContiguousAux_wrap hb hn rest (last + ↑p.bytes.length) (ret ++ [p.toCont]) hl'
        (fun r hr => hok r (List.mem_cons_of_mem _ hr))
      simp only [List.map_append, List.map_cons, List.map_nil, Page.wrap_toCont, I_add] at this ⊢
      exact this
    · rw [if_neg hc, if_neg hc]
      simp

theorem addContiguous_wrap {S : List UInt8} {b : Int} (hb : 1 ≤ b) (hn : S.length + 2 < 1073741824)
    (h : Half) (last : Int) (ret : List Cont) (hl : InW b S.length last) (hok : ∀ p ∈ h.queue, At S b p.seq p.bytes) :
    addContiguous R h.wrap (wq last) (ret.map Cont.wrap) =
      ((addContiguous I h last ret).1.wrap, wq (addContiguous I h last ret).2.1,
       (addContiguous I h last ret).2.2.map Cont.wrap) := by
  unfold addContiguous
  cases hq : h.queue with
  | nil => simp [Half.wrap, hq]
  | cons p rest =>
    have hw : h.wrap.queue = Page.wrap p :: rest.map Page.wrap := by simp [Half.wrap, hq]
    rw [hw]
    simp only
    have h1 : ¬ wq last = invalidSeq := wq_ne_neg1 _
    have h2 : ¬ last = invalidSeq := by unfold InW at hl; simp only [invalidSeq_eq]; omega
    rw [if_neg h1, if_neg h2]
    have := addContiguousAux_wrap hb hn (p :: rest) last ret hl (fun r hr => hok r (by rw [hq]; exact hr))
    simp only [List.map_cons] at this
    rw [this]
    simp [Half.wrap]

theorem findKeep_wrap (toKeep : Int) : ∀ (all : List Cont) (cur skip : Int) (idx : Nat),
    findKeep toKeep (all.map Cont.wrap) cur skip idx = findKeep toKeep all cur skip idx
  | [], _, _, _ => rfl
  | c :: rest, cur, skip, idx => by
    simp only [List.map_cons, findKeep, Cont.wrap_bytes]
    rw [findKeep_wrap toKeep rest]

def wrapPs (r : List Page × Nat) : List Page × Nat := (r.1.map Page.wrap, r.2)

theorem convertKept_wrap (ts : Int) (c : Cont) (skip : Int) :
    convertKept R ts c.wrap skip = Res.mapR wrapPs (convertKept I ts c skip) := by
  unfold convertKept
  simp only [Cont.wrap_bytes, Cont.wrap_live, Cont.wrap_seq, Cont.wrap_fin, real_add, I_add]
  by_cases h1 : skip < 0 ∨ skip > ↑c.bytes.length
  · rw [if_pos h1, if_pos h1]; rfl
  · rw [if_neg h1, if_neg h1]
    by_cases h2 : c.live = true
    · rw [if_pos h2, if_pos h2, splitPages_wrap]
      simp [Res.mapR, wrapPs]
    · rw [if_neg h2, if_neg h2]
      by_cases h3 : skip ≠ 0
      · rw [if_pos h3, if_pos h3]
        simp [Res.mapR, wrapPs, Page.wrap, Cont.toPage, Cont.wrap]
      · rw [if_neg h3, if_neg h3]
        simp [Res.mapR, wrapPs]

theorem convertAll_wrap (ts : Int) : ∀ (cs : List Cont) (skip : Int),
    convertAll R ts (cs.map Cont.wrap) skip = Res.mapR wrapPs (convertAll I ts cs skip)
  | [], _ => rfl
  | c :: rest, skip => by
    simp only [List.map_cons, convertAll, convertKept_wrap, convertAll_wrap ts rest]
    cases convertKept I ts c skip with
    | ok r =>
      obtain ⟨ps, n⟩ := r
      simp only [Res.mapR, wrapPs]
      cases convertAll I ts rest 0 with
      | ok r2 => obtain ⟨qs, m⟩ := r2; simp [Res.mapR, wrapPs]
      | err k => rfl
      | panic k => rfl
    | err k => rfl
    | panic k => rfl

def wrap2 (r : Half × Int) : Half × Int := (r.1.wrap, r.2)

theorem cleanSG_wrap (h : Half) (used : Int) (all : List Cont) (toKeep ts : Int) :
    cleanSG R h.wrap used (all.map Cont.wrap) toKeep ts = Res.mapR wrap2 (cleanSG I h used all toKeep ts) := by
  unfold cleanSG
  simp only [findKeep_wrap, List.length_map]
  generalize (if toKeep < 0 then (all.length, (0 : Int)) else findKeep toKeep all 0 toKeep 0) = r
  obtain ⟨ndx, skip⟩ := r
  simp only [← List.map_take, ← List.map_drop, pageCount_wrap, convertAll_wrap]
  cases convertAll I ts (List.drop ndx all) skip with
  | ok r => obtain ⟨ps, created⟩ := r; simp [Res.mapR, wrapPs, wrap2, Half.wrap]
  | err k => rfl
  | panic k => rfl

theorem closeHalf_wrap (h : Half) (used : Int) :
    closeHalf h.wrap used = ((closeHalf h used).1.wrap, (closeHalf h used).2) := by
  simp [closeHalf, Half.wrap]

def Sent.wrap (s : Sent) : Sent := { s with half := s.half.wrap, nextSeq := wq s.nextSeq }

theorem sendToConnection_wrap {S : List UInt8} {b : Int} (hb : 1 ≤ b) (hn : S.length + 2 < 1073741824)
    (h : Half) (used : Int) (r0 : Cont) (ts : Int) (keep : KeepRule) (pre : SendPre S b h r0) :
    sendToConnection R h.wrap used [r0.wrap] ts keep = Res.mapR Sent.wrap (sendToConnection I h used [r0] ts keep) := by
  have hr0 := pre.hat.inW
  have hnsw : h.nextSeq = -1 ∨ InW b S.length h.nextSeq := by
    rcases pre.ns with h1 | h1
    · exact Or.inl h1
    · right; unfold InW at *; omega
  unfold sendToConnection
  simp only [Cont.wrap_seq, Cont.wrap_bytes, real_add]
  have hap := addPending_wrap hb hn h used r0.seq [r0] hr0.1 pre.saved hnsw
  simp only [List.map_cons, List.map_nil] at hap
  rw [hap]
  -- addContiguous
  obtain ⟨sv, h1, used1, hapI, hh1, _, _, _, _⟩ := addPending_spec S b h used r0 pre.saved pre.hat
  have hq1 : h1.queue = h.queue := by rw [hh1]
  simp only [hapI]
  have hac := addContiguous_wrap hb hn h1 (r0.seq + ↑r0.bytes.length) (sv.map Page.toCont ++ [r0]) hr0.2
    (fun p hp => (pre.ok p (hq1 ▸ hp)).1)
  rw [hac]
  simp only [I_add]
  generalize addContiguous I h1 (r0.seq + ↑r0.bytes.length) (sv.map Page.toCont ++ [r0]) = ac
  obtain ⟨h2, e, all⟩ := ac
  simp only [flat_wrap, lastFin_wrap, headStart_wrap, cleanSG_wrap]
  -- skip
  have hskip : (if h.wrap.nextSeq ≠ invalidSeq then R.diff h.wrap.nextSeq (wq r0.seq) else -1) =
      (if h.nextSeq ≠ invalidSeq then I.diff h.nextSeq r0.seq else -1) := by
    rcases hnsw with hm | hw
    · have : h.wrap.nextSeq = invalidSeq := by simp [Half.wrap, wns, hm]
      rw [if_neg (by simpa using this), if_neg (by simpa using hm)]
    · have h0 : 0 ≤ h.nextSeq := by unfold InW at hw; omega
      have e0 : h.wrap.nextSeq = wq h.nextSeq := by simp only [Half.wrap]; exact wns_of_nonneg h0
      rw [if_pos (by rw [e0]; exact wq_ne_neg1 _), if_pos (by simp only [invalidSeq_eq]; omega), e0,
        real_diff hb hn hw hr0.1]
  rw [hskip]
  cases cleanSG I h2 used1 all (keepOffset keep (flat all).length) ts with
  | ok r =>
    obtain ⟨h3, used3⟩ := r
    simp only [Res.mapR, wrap2]
    by_cases hf : lastFin all = true
    · rw [if_pos hf, if_pos hf, closeHalf_wrap]
      simp [Res.mapR, Sent.wrap]
    · rw [if_neg hf, if_neg hf]
      simp [Res.mapR, Sent.wrap]
  | err k => rfl
  | panic k => rfl

end Gp.Reasm
