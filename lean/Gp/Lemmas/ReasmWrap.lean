import Gp.Lemmas.ReasmHalf
/-
  Layer A of C09 (wrap elimination): as long as every live sequence number lies in a window shorter than
  2^30, the model running the GENERATED `Sequence.Difference/Add` (`Arith.real`) on sequence numbers
  reduced modulo 2^32 does exactly what the offset-space twin (`Arith.ideal`) does on unbounded
  numbers.  This is the only place where the generated arithmetic is used.
-/
set_option linter.unusedSimpArgs false
namespace Gp.Reasm
open Gp

abbrev R : Arith := Arith.real

/-- reduce a sequence number modulo 2^32 -/
def wq (x : Int) : Int := x % 4294967296
/-- nextSeq: the sentinel -1 stays -/
def wns (x : Int) : Int := if x = -1 then -1 else x % 4294967296

def Page.wrap (p : Page) : Page := { p with seq := wq p.seq }
def Cont.wrap (c : Cont) : Cont := { c with seq := wq c.seq }
def Half.wrap (h : Half) : Half :=
  { h with nextSeq := wns h.nextSeq, queue := h.queue.map Page.wrap, saved := h.saved.map Page.wrap }

/-- the window: everything between the SYN (b-1) and one past the FIN (b+n+1) -/
def InW (b : Int) (n : Nat) (x : Int) : Prop := b - 1 ≤ x ∧ x ≤ b + n + 1

theorem real_diff {b : Int} {n : Nat} (hb : 1 ≤ b) (hn : n + 2 < 1073741824) {x y : Int}
    (hx : InW b n x) (hy : InW b n y) : R.diff (wq x) (wq y) = y - x := by
  obtain ⟨hx1, hx2⟩ := hx
  obtain ⟨hy1, hy2⟩ := hy
  simp only [Arith.real, Gp.Gen.SeqReasm.difference, wq]
  split <;> (try split) <;> omega

theorem real_add (x n : Int) : R.add (wq x) n = wq (x + n) := by
  simp only [Arith.real, Gp.Gen.SeqReasm.add, wq]; omega

theorem wq_inj {b : Int} {n : Nat} (hb : 1 ≤ b) (hn : n + 2 < 1073741824) {x y : Int}
    (hx : InW b n x) (hy : InW b n y) (h : wq x = wq y) : x = y := by
  obtain ⟨hx1, hx2⟩ := hx
  obtain ⟨hy1, hy2⟩ := hy
  simp only [wq] at h; omega

theorem wq_ne_neg1 (x : Int) : wq x ≠ -1 := by simp only [wq]; omega
theorem wns_of_nonneg {x : Int} (h : 0 ≤ x) : wns x = wq x := by
  simp only [wns, wq]; rw [if_neg (by omega)]
theorem wns_eq_neg1 {x : Int} (h0 : -1 ≤ x) : wns x = -1 ↔ x = -1 := by
  simp only [wns]; split <;> omega

/-- result mapping -/
def Res.mapR {α β : Type} (f : α → β) : Res α → Res β
  | .ok a => .ok (f a)
  | .err k => .err k
  | .panic k => .panic k

theorem At.inW {S : List UInt8} {b seq : Int} {bytes : List UInt8} (h : At S b seq bytes) :
    InW b S.length seq ∧ InW b S.length (seq + bytes.length) := by
  have := h.len; unfold InW; omega

/-! ### pages -/

theorem splitPagesAux_wrap (seen : Int) (fin : Bool) : ∀ (fuel : Nat) (seq : Int) (bytes : List UInt8),
    splitPagesAux R seen fin fuel (wq seq) bytes = (splitPagesAux I seen fin fuel seq bytes).map Page.wrap
  | 0, seq, bytes => by simp [splitPagesAux, Page.wrap]
  | fuel + 1, seq, bytes => by
    simp only [splitPagesAux]
    split
    · simp [Page.wrap]
    · simp only [List.map_cons, real_add, I_add]
      rw [splitPagesAux_wrap seen fin fuel]
      simp [Page.wrap]

theorem splitPages_wrap (seq : Int) (bytes : List UInt8) (ts : Int) (fin : Bool) :
    splitPages R (wq seq) bytes ts fin = (splitPages I seq bytes ts fin).map Page.wrap :=
  splitPagesAux_wrap ts fin _ _ _

def Ov.wrap (r : Ov) : Ov := { r with front := r.front.map Page.wrap, back := r.back.map Page.wrap }

theorem ovLoop_wrap {S : List UInt8} {b : Int} (hb : 1 ≤ b) (hn : S.length + 2 < 1073741824)
    (start end_ : Int) (hs : InW b S.length start) (he : InW b S.length end_) :
    ∀ (rev back : List Page) (bytes : List UInt8) (dropped : Nat),
      (∀ p ∈ rev, At S b p.seq p.bytes) →
      ovLoop R (wq start) (wq end_) bytes (rev.map Page.wrap) (back.map Page.wrap) dropped =
        Res.mapR Ov.wrap (ovLoop I start end_ bytes rev back dropped)
  | [], back, bytes, dropped, _ => by simp [ovLoop, Res.mapR, Ov.wrap]
  | cur :: rest, back, bytes, dropped, hok => by
    have hc := (hok cur (List.mem_cons_self ..)).inW
    have hrest : ∀ p ∈ rest, At S b p.seq p.bytes := fun p hp => hok p (List.mem_cons_of_mem _ hp)
    have ih := ovLoop_wrap hb hn start end_ hs he rest
    simp only [List.map_cons, ovLoop]
    have e1 : R.diff (wq end_) (Page.wrap cur).seq = I.diff end_ cur.seq := real_diff hb hn he hc.1
    have e2 : R.add (Page.wrap cur).seq ↑(Page.wrap cur).bytes.length = wq (cur.seq + ↑cur.bytes.length) := real_add _ _
    have e3 : R.diff (wq start) (wq (cur.seq + ↑cur.bytes.length)) = I.diff start (I.add cur.seq ↑cur.bytes.length) :=
      real_diff hb hn hs hc.2
    have e4 : R.diff (wq start) (Page.wrap cur).seq = I.diff start cur.seq := real_diff hb hn hs hc.1
    have e5 : R.diff (wq end_) (wq (cur.seq + ↑cur.bytes.length)) = I.diff end_ (I.add cur.seq ↑cur.bytes.length) :=
      real_diff hb hn he hc.2
    have e6 : (Page.wrap cur).bytes = cur.bytes := rfl
    rw [e2, e1, e3, e4, e5, e6]
    split
    · have := ih (cur :: back) bytes dropped hrest
      simpa using this
    · split
      · simp [Res.mapR, Ov.wrap]
      · split
        · exact ih back bytes (dropped + 1) hrest
        · split
          · split
            · rfl
            · simp [Res.mapR, Ov.wrap, Page.wrap]
          · split
            · split
              · rfl
              · have := ih ({ cur with bytes := cur.bytes.drop (-I.diff end_ cur.seq).toNat,
                                       seq := I.add cur.seq (-I.diff end_ cur.seq) } :: back) bytes dropped hrest
                simp only [List.map_cons, Page.wrap, I_add, ← real_add] at this ⊢
                exact this
            · split
              · split
                · rfl
                · have := ih ({ cur with bytes := overwrite cur.bytes (-I.diff start cur.seq).toNat bytes } :: back) [] dropped hrest
                  simpa [Page.wrap] using this
              · have := ih (cur :: back) bytes dropped hrest
                simpa using this

/-! ### checkOverlap / overlapExisting -/

def wrap3 (r : Half × Int × List UInt8) : Half × Int × List UInt8 := (r.1.wrap, r.2.1, r.2.2)

theorem checkOverlap_wrap {S : List UInt8} {b : Int} (hb : 1 ≤ b) (hn : S.length + 2 < 1073741824)
    (h : Half) (used : Int) (queue : Bool) (start : Int) (bytes : List UInt8) (ts : Int) (fin : Bool)
    (hat : At S b start bytes) (hok : ∀ p ∈ h.queue, At S b p.seq p.bytes) :
    checkOverlap R h.wrap used queue (wq start) bytes ts fin =
      Res.mapR wrap3 (checkOverlap I h used queue start bytes ts fin) := by
  unfold checkOverlap
  have hw := hat.inW
  have e1 : R.add (wq start) ↑bytes.length = wq (start + ↑bytes.length) := real_add _ _
  have e2 : h.wrap.queue.reverse = (h.queue.reverse).map Page.wrap := by simp [Half.wrap]
  rw [e1, e2]
  have := ovLoop_wrap hb hn start (start + ↑bytes.length) hw.1 hw.2 h.queue.reverse [] bytes 0
    (fun p hp => hok p (List.mem_reverse.mp hp))
  simp only [List.map_nil] at this
  rw [this]
  simp only [I_add]
  cases hov : ovLoop I start (start + ↑bytes.length) bytes h.queue.reverse [] 0 with
  | ok r =>
    simp only [Res.mapR]
    by_cases hc : 0 < r.bytes.length ∧ queue = true
    · have hc' : r.wrap.bytes.length > 0 ∧ queue = true := hc
      rw [if_pos hc, if_pos hc', splitPages_wrap]
      simp [wrap3, Half.wrap, Ov.wrap, Res.mapR]
    · have hc' : ¬ (r.wrap.bytes.length > 0 ∧ queue = true) := hc
      rw [if_neg hc, if_neg hc']
      simp [wrap3, Half.wrap, Ov.wrap, Res.mapR]
  | err k => rfl
  | panic k => rfl

theorem overlapExisting_wrap {S : List UInt8} {b : Int} (hb : 1 ≤ b) (hn : S.length + 2 < 1073741824)
    (h : Half) (start : Int) (bytes : List UInt8) (hs : InW b S.length start)
    (hns : h.nextSeq = -1 ∨ InW b S.length h.nextSeq) :
    overlapExisting R h.wrap (wq start) bytes =
      Res.mapR (fun r => (r.1, wq r.2)) (overlapExisting I h start bytes) := by
  unfold overlapExisting
  rcases hns with hm | hw
  · have : h.wrap.nextSeq = invalidSeq := by simp [Half.wrap, wns, hm]
    rw [if_pos this, if_pos (by simpa using hm)]
    rfl
  · have h0 : 0 ≤ h.nextSeq := by unfold InW at hw; omega
    have e0 : h.wrap.nextSeq = wq h.nextSeq := by simp only [Half.wrap]; exact wns_of_nonneg h0
    have : ¬ h.wrap.nextSeq = invalidSeq := by rw [e0]; exact wq_ne_neg1 _
    have hne : ¬ h.nextSeq = invalidSeq := by simp only [invalidSeq_eq]; omega
    rw [if_neg this, if_neg hne]
    rw [e0, real_diff hb hn hs hw]
    simp only [I_diff]
    by_cases hd : h.nextSeq - start = 0
    · rw [if_pos hd, if_pos hd]; rfl
    · rw [if_neg hd, if_neg hd]
      by_cases hp : (if h.nextSeq - start ≥ ↑bytes.length then (↑bytes.length : Int) else h.nextSeq - start) < 0
      · rw [if_pos hp, if_pos hp]; rfl
      · rw [if_neg hp, if_neg hp]; rfl

/-! ### addPending / addContiguous / cleanSG / sendToConnection -/

@[simp] theorem Page.wrap_toCont (p : Page) : (Page.wrap p).toCont = Cont.wrap p.toCont := rfl
@[simp] theorem Cont.wrap_toPage (c : Cont) : (Cont.wrap c).toPage = Page.wrap c.toPage := rfl
@[simp] theorem Page.wrap_bytes (p : Page) : (Page.wrap p).bytes = p.bytes := rfl
@[simp] theorem Cont.wrap_bytes (c : Cont) : (Cont.wrap c).bytes = c.bytes := rfl
@[simp] theorem Cont.wrap_live (c : Cont) : (Cont.wrap c).live = c.live := rfl
@[simp] theorem Cont.wrap_fin (c : Cont) : (Cont.wrap c).fin = c.fin := rfl
@[simp] theorem Cont.wrap_start (c : Cont) : (Cont.wrap c).start = c.start := rfl
@[simp] theorem Cont.wrap_seq (c : Cont) : (Cont.wrap c).seq = wq c.seq := rfl
@[simp] theorem Page.wrap_seq (p : Page) : (Page.wrap p).seq = wq p.seq := rfl

theorem bytesLen_wrap (l : List Page) : bytesLen (l.map Page.wrap) = bytesLen l := by
  simp [bytesLen, List.map_map, Function.comp_def]

theorem flat_wrap (l : List Cont) : flat (l.map Cont.wrap) = flat l := by
  simp [flat, List.map_map, Function.comp_def]

theorem pageCount_wrap (l : List Cont) : pageCount (l.map Cont.wrap) = pageCount l := by
  induction l with
  | nil => rfl
  | cons c rest ih =>
    simp only [pageCount] at ih
    cases hl : c.live <;> simp [pageCount, List.filter_cons, hl, ih]

theorem lastFin_wrap (l : List Cont) : lastFin (l.map Cont.wrap) = lastFin l := by
  simp only [lastFin, List.getLast?_map]
  cases l.getLast? <;> rfl

theorem headStart_wrap (l : List Cont) : headStart (l.map Cont.wrap) = headStart l := by
  simp only [headStart, List.head?_map]
  cases l.head? <;> rfl

theorem addPending_wrap {S : List UInt8} {b : Int} (hb : 1 ≤ b) (hn : S.length + 2 < 1073741824)
    (h : Half) (used : Int) (firstSeq : Int) (ret : List Cont) (hf : InW b S.length firstSeq)
    (hsv : SavedOK S b h) (hns : h.nextSeq = -1 ∨ InW b S.length h.nextSeq) :
    addPending R h.wrap used (wq firstSeq) (ret.map Cont.wrap) =
      ((addPending I h used firstSeq ret).1.wrap, (addPending I h used firstSeq ret).2.1,
       (addPending I h used firstSeq ret).2.2.1.map Cont.wrap, (addPending I h used firstSeq ret).2.2.2) := by
  unfold addPending
  cases hsaved : h.saved with
  | nil => simp [Half.wrap, hsaved]
  | cons p rest =>
    have hw : h.wrap.saved = Page.wrap p :: rest.map Page.wrap := by simp [Half.wrap, hsaved]
    rw [hw]
    simp only
    have hbl : bytesLen (Page.wrap p :: rest.map Page.wrap) = bytesLen (p :: rest) := by
      have := bytesLen_wrap (p :: rest); simpa using this
    rw [hbl, Page.wrap_seq, real_add]
    -- the end of the saved chain is nextSeq
    have hend : InW b S.length (p.seq + ↑(bytesLen (p :: rest))) := by
      rcases hsv with hnil | ⟨hne, s0, hs0, hch⟩
      · rw [hsaved] at hnil; cases hnil
      · rw [hsaved] at hch
        have := hch.bytesLen
        have hps : p.seq = s0 := hch.1
        rw [hps, this]
        exact hns.resolve_left hne
    by_cases hc : I.add p.seq ↑(bytesLen (p :: rest)) ≠ firstSeq
    · have hc' : wq (p.seq + ↑(bytesLen (p :: rest))) ≠ wq firstSeq := fun e => hc (wq_inj hb hn hend hf e)
      rw [if_pos hc, if_pos hc']
      simp [Half.wrap]
    · have hc0 : p.seq + ↑(bytesLen (p :: rest)) = firstSeq := by simpa using hc
      have hc' : ¬ wq (p.seq + ↑(bytesLen (p :: rest))) ≠ wq firstSeq := by rw [hc0]; simp
      rw [if_neg hc, if_neg hc']
      simp [Half.wrap, List.map_map, Function.comp_def]

theorem addContiguousAux_wrap {S : List UInt8} {b : Int} (hb : 1 ≤ b) (hn : S.length + 2 < 1073741824) :
    ∀ (q : List Page) (last : Int) (ret : List Cont), InW b S.length last → (∀ p ∈ q, At S b p.seq p.bytes) →
      addContiguousAux R (q.map Page.wrap) (wq last) (ret.map Cont.wrap) =
        ((addContiguousAux I q last ret).1.map Page.wrap, wq (addContiguousAux I q last ret).2.1,
         (addContiguousAux I q last ret).2.2.map Cont.wrap)
  | [], last, ret, _, _ => by simp [addContiguousAux]
  | p :: rest, last, ret, hl, hok => by
    have hp := (hok p (List.mem_cons_self ..)).inW
    simp only [List.map_cons, addContiguousAux]
    have e1 : R.diff (wq last) (Page.wrap p).seq = I.diff last p.seq := real_diff hb hn hl hp.1
    rw [e1]
    by_cases hc : I.diff last p.seq = 0
    · rw [if_pos hc, if_pos hc, Page.wrap_bytes, real_add]
      simp only [I_diff] at hc
      have hl' : InW b S.length (last + ↑p.bytes.length) := by
        have : last = p.seq := by omega
        rw [this]; exact hp.2
      have := addContiguousAux_wrap hb hn rest (last + ↑p.bytes.length) (ret ++ [p.toCont]) hl'
        (fun r hr => hok r (List.mem_cons_of_mem _ hr))
      simp only [List.map_append, List.map_cons, List.map_nil, Page.wrap_toCont, I_add] at this ⊢
      exact this
    · rw [if_neg hc, if_neg hc]
      simp

theorem addContiguous_wrap {S : List UInt8} {b : Int} (hb : 1 ≤ b) (hn : S.length + 2 < 1073741824)
    (h : Half) (last : Int) (ret : List Cont) (hl : InW b S.length last) (hok : ∀ p ∈ h.queue, At S b p.seq p.bytes) :
    addContiguous R h.wrap (wq last) (ret.map Cont.wrap) =
      ((addContiguous I h last ret).1.wrap, wq (addContiguous I h last ret).2.1,
       (addContiguous I h last ret).2.2.map Cont.wrap) := by
  unfold addContiguous
  cases hq : h.queue with
  | nil => simp [Half.wrap, hq]
  | cons p rest =>
    have hw : h.wrap.queue = Page.wrap p :: rest.map Page.wrap := by simp [Half.wrap, hq]
    rw [hw]
    simp only
    have h1 : ¬ wq last = invalidSeq := wq_ne_neg1 _
    have h2 : ¬ last = invalidSeq := by unfold InW at hl; simp only [invalidSeq_eq]; omega
    rw [if_neg h1, if_neg h2]
    have := addContiguousAux_wrap hb hn (p :: rest) last ret hl (fun r hr => hok r (by rw [hq]; exact hr))
    simp only [List.map_cons] at this
    rw [this]
    simp [Half.wrap]

theorem findKeep_wrap (toKeep : Int) : ∀ (all : List Cont) (cur skip : Int) (idx : Nat),
    findKeep toKeep (all.map Cont.wrap) cur skip idx = findKeep toKeep all cur skip idx
  | [], _, _, _ => rfl
  | c :: rest, cur, skip, idx => by
    simp only [List.map_cons, findKeep]
    rw [findKeep_wrap toKeep rest]
    rfl

def wrapPs (r : List Page × Nat) : List Page × Nat := (r.1.map Page.wrap, r.2)

theorem convertKept_wrap (ts : Int) (c : Cont) (skip : Int) :
    convertKept R ts c.wrap skip = Res.mapR wrapPs (convertKept I ts c skip) := by
  unfold convertKept
  simp only [Cont.wrap_bytes, Cont.wrap_live, Cont.wrap_seq, Cont.wrap_fin, real_add, I_add]
  by_cases h1 : skip < 0 ∨ skip > ↑c.bytes.length
  · rw [if_pos h1, if_pos h1]; rfl
  · rw [if_neg h1, if_neg h1]
    by_cases h2 : c.live = true
    · rw [if_pos h2, if_pos h2, splitPages_wrap]
      simp [Res.mapR, wrapPs]
    · rw [if_neg h2, if_neg h2]
      by_cases h3 : skip ≠ 0
      · rw [if_pos h3, if_pos h3]
        simp [Res.mapR, wrapPs, Page.wrap, Cont.toPage, Cont.wrap]
      · rw [if_neg h3, if_neg h3]
        simp [Res.mapR, wrapPs]

theorem convertAll_wrap (ts : Int) : ∀ (cs : List Cont) (skip : Int),
    convertAll R ts (cs.map Cont.wrap) skip = Res.mapR wrapPs (convertAll I ts cs skip)
  | [], _ => rfl
  | c :: rest, skip => by
    simp only [List.map_cons, convertAll, convertKept_wrap, convertAll_wrap ts rest]
    cases convertKept I ts c skip with
    | ok r =>
      obtain ⟨ps, n⟩ := r
      simp only [Res.mapR, wrapPs]
      cases convertAll I ts rest 0 with
      | ok r2 => obtain ⟨qs, m⟩ := r2; simp [Res.mapR, wrapPs]
      | err k => rfl
      | panic k => rfl
    | err k => rfl
    | panic k => rfl

def wrap2 (r : Half × Int) : Half × Int := (r.1.wrap, r.2)

theorem cleanSG_wrap (h : Half) (used : Int) (all : List Cont) (toKeep ts : Int) :
    cleanSG R h.wrap used (all.map Cont.wrap) toKeep ts = Res.mapR wrap2 (cleanSG I h used all toKeep ts) := by
  unfold cleanSG
  simp only [findKeep_wrap, List.length_map]
  generalize (if toKeep < 0 then (all.length, (0 : Int)) else findKeep toKeep all 0 toKeep 0) = r
  obtain ⟨ndx, skip⟩ := r
  simp only [← List.map_take, ← List.map_drop, pageCount_wrap, convertAll_wrap]
  cases convertAll I ts (List.drop ndx all) skip with
  | ok r => obtain ⟨ps, created⟩ := r; simp [Res.mapR, wrapPs, wrap2, Half.wrap]
  | err k => rfl
  | panic k => rfl

theorem closeHalf_wrap (h : Half) (used : Int) :
    closeHalf h.wrap used = ((closeHalf h used).1.wrap, (closeHalf h used).2) := by
  simp [closeHalf, Half.wrap]

def Sent.wrap (s : Sent) : Sent := { s with half := s.half.wrap, nextSeq := wq s.nextSeq }

theorem sendToConnection_wrap {S : List UInt8} {b : Int} (hb : 1 ≤ b) (hn : S.length + 2 < 1073741824)
    (h : Half) (used : Int) (r0 : Cont) (ts : Int) (keep : KeepRule) (pre : SendPre S b h r0) :
    sendToConnection R h.wrap used [r0.wrap] ts keep = Res.mapR Sent.wrap (sendToConnection I h used [r0] ts keep) := by
  have hr0 := pre.hat.inW
  have hnsw : h.nextSeq = -1 ∨ InW b S.length h.nextSeq := by
    rcases pre.ns with h1 | h1
    · exact Or.inl h1
    · right; unfold InW at *; omega
  unfold sendToConnection
  simp only [Cont.wrap_seq, Cont.wrap_bytes, real_add]
  have hap := addPending_wrap hb hn h used r0.seq [r0] hr0.1 pre.saved hnsw
  simp only [List.map_cons, List.map_nil] at hap
  rw [hap]
  -- addContiguous
  obtain ⟨sv, h1, used1, hapI, hh1, _, _, _, _⟩ := addPending_spec S b h used r0 pre.saved pre.hat
  have hq1 : h1.queue = h.queue := by rw [hh1]
  simp only [hapI]
  have hac := addContiguous_wrap hb hn h1 (r0.seq + ↑r0.bytes.length) (sv.map Page.toCont ++ [r0]) hr0.2
    (fun p hp => (pre.ok p (hq1 ▸ hp)).1)
  rw [hac]
  simp only [I_add]
  generalize addContiguous I h1 (r0.seq + ↑r0.bytes.length) (sv.map Page.toCont ++ [r0]) = ac
  obtain ⟨h2, e, all⟩ := ac
  simp only [flat_wrap, lastFin_wrap, headStart_wrap, cleanSG_wrap]
  -- skip
  have hskip : (if h.wrap.nextSeq ≠ invalidSeq then R.diff h.wrap.nextSeq (wq r0.seq) else -1) =
      (if h.nextSeq ≠ invalidSeq then I.diff h.nextSeq r0.seq else -1) := by
    rcases hnsw with hm | hw
    · have : h.wrap.nextSeq = invalidSeq := by simp [Half.wrap, wns, hm]
      rw [if_neg (by simpa using this), if_neg (by simpa using hm)]
    · have h0 : 0 ≤ h.nextSeq := by unfold InW at hw; omega
      have e0 : h.wrap.nextSeq = wq h.nextSeq := by simp only [Half.wrap]; exact wns_of_nonneg h0
      rw [if_pos (by rw [e0]; exact wq_ne_neg1 _), if_pos (by simp only [invalidSeq_eq]; omega), e0,
        real_diff hb hn hw hr0.1]
  rw [hskip]
  cases cleanSG I h2 used1 all (keepOffset keep (flat all).length) ts with
  | ok r =>
    obtain ⟨h3, used3⟩ := r
    simp only [Res.mapR, wrap2]
    by_cases hf : lastFin all = true
    · rw [if_pos hf, if_pos hf, closeHalf_wrap]
      simp [Res.mapR, Sent.wrap]
    · rw [if_neg hf, if_neg hf]
      simp [Res.mapR, Sent.wrap]
  | err k => rfl
  | panic k => rfl

/-! ### handleBytes / finishAssemble / assemble -/

def wrapHB (r : Half × Int × List Cont) : Half × Int × List Cont := (r.1.wrap, r.2.1, r.2.2.map Cont.wrap)
def Out.wrap (o : Out) : Out := { o with half := o.half.wrap }

@[simp] theorem Half.wrap_pages (h : Half) : h.wrap.pages = h.pages := rfl
@[simp] theorem Half.wrap_closed (h : Half) : h.wrap.closed = h.closed := rfl
@[simp] theorem Half.wrap_lastSeen (h : Half) : h.wrap.lastSeen = h.lastSeen := rfl
@[simp] theorem Half.wrap_queue (h : Half) : h.wrap.queue = h.queue.map Page.wrap := rfl
@[simp] theorem Half.wrap_saved (h : Half) : h.wrap.saved = h.saved.map Page.wrap := rfl
@[simp] theorem Half.wrap_nextSeq (h : Half) : h.wrap.nextSeq = wns h.nextSeq := rfl

theorem addNextFromConn_wrap (h : Half) (ret : List Cont) :
    addNextFromConn h.wrap (ret.map Cont.wrap) =
      ((addNextFromConn h ret).1.wrap, (addNextFromConn h ret).2.map Cont.wrap) := by
  unfold addNextFromConn
  cases hq : h.queue with
  | nil => simp [hq]
  | cons p rest => simp [hq, Half.wrap]

theorem WInv.inW {S : List UInt8} {b : Int} {h : Half} (hw : WInv S b h) :
    h.nextSeq = -1 ∨ InW b S.length h.nextSeq := by
  rcases hw.ns with h1 | h1
  · exact Or.inl h1
  · right; unfold InW; omega

theorem handleBytes_wrap {S : List UInt8} {b : Int} (hb : 1 ≤ b) (hn : S.length + 2 < 1073741824)
    (cfg : Cfg) (h : Half) (used : Int) (queue : Bool) (seq : Int) (bytes : List UInt8) (ts : Int) (syn fin : Bool)
    (hw : WInv S b h) (hat : At S b seq bytes)
    (hnq : queue = false → (h.nextSeq ≠ -1 ∧ seq ≤ h.nextSeq)) :
    handleBytes R cfg h.wrap used queue (wq seq) bytes ts syn fin =
      Res.mapR wrapHB (handleBytes I cfg h used queue seq bytes ts syn fin) := by
  unfold handleBytes
  have hokq : ∀ p ∈ h.queue, At S b p.seq p.bytes := fun p hp => (hw.ok p hp).1
  cases queue with
  | true =>
    simp only [if_true]
    rw [checkOverlap_wrap hb hn h used true seq bytes ts fin hat hokq]
    cases checkOverlap I h used true seq bytes ts fin with
    | ok r =>
      obtain ⟨h1, used1, bs⟩ := r
      simp only [Res.mapR, wrap3, Half.wrap_pages]
      by_cases hl : limitHit cfg h1.pages used1 = true
      · have := addNextFromConn_wrap h1 []
        simp only [List.map_nil] at this
        simp [hl, this, Res.mapR, wrapHB]
      · simp [hl, Res.mapR, wrapHB]
    | err k => rfl
    | panic k => rfl
  | false =>
    simp only [Bool.false_eq_true, if_false]
    obtain ⟨hns, hle⟩ := hnq rfl
    have hbnd := hw.ns.resolve_left hns
    rw [overlapExisting_wrap hb hn h seq bytes hat.inW.1 hw.inW]
    obtain ⟨⟨bs0, seq0⟩, hoe, hseq0, hat0, _⟩ := overlapExisting_spec S b h seq bytes hns hle hat hbnd
    rw [hoe]
    simp only [Res.mapR]
    simp only at hseq0 hat0
    subst hseq0
    rw [checkOverlap_wrap hb hn h used false h.nextSeq bs0 ts fin hat0 hokq]
    cases checkOverlap I h used false h.nextSeq bs0 ts fin with
    | ok r =>
      obtain ⟨h1, used1, bs⟩ := r
      simp only [Res.mapR, wrap3]
      by_cases hc : bs.length ≠ 0 ∨ fin = true ∨ syn = true
      · rw [if_pos hc, if_pos hc]
        simp [Res.mapR, wrapHB, Cont.wrap]
      · rw [if_neg hc, if_neg hc]
        simp [Res.mapR, wrapHB]
    | err k => rfl
    | panic k => rfl

theorem finishAssemble_wrap {S : List UInt8} {b : Int} (hb : 1 ≤ b) (hn : S.length + 2 < 1073741824)
    (h : Half) (used : Int) (ret : List Cont) (ts : Int) (keep : KeepRule) (bump : Bool)
    (hret : ret = [] ∨ ∃ r0, ret = [r0] ∧ SendPre S b h r0) :
    finishAssemble R h.wrap used (ret.map Cont.wrap) ts keep bump =
      Res.mapR Out.wrap (finishAssemble I h used ret ts keep bump) := by
  unfold finishAssemble
  rcases hret with hr | ⟨r0, hr, pre⟩
  · subst hr
    simp [Res.mapR, Out.wrap]
  · subst hr
    simp only [List.map_cons, List.map_nil, List.length_cons, List.length_nil, Nat.zero_add, Nat.lt_add_one, if_true]
    rw [sendToConnection_wrap hb hn h used r0 ts keep pre]
    obtain ⟨s, hs, post⟩ := sendToConnection_spec S b (by omega) h used r0 ts keep pre
    rw [hs]
    simp only [Res.mapR, Sent.wrap]
    have hl := pre.hat.len
    have hns0 : 0 ≤ s.nextSeq := by rw [post.nextSeq]; omega
    have h1 : wq s.nextSeq ≠ invalidSeq := wq_ne_neg1 _
    have h2 : s.nextSeq ≠ invalidSeq := by simp only [invalidSeq_eq]; omega
    rw [if_pos h1, if_pos h2]
    cases bump with
    | true =>
      simp only [if_true, real_add, I_add, Out.wrap, Half.wrap]
      rw [wns_of_nonneg (by omega)]
    | false =>
      simp only [Bool.false_eq_true, if_false, Out.wrap, Half.wrap]
      rw [wns_of_nonneg hns0]

theorem wns_ite_eq {x : Int} (h0 : -1 ≤ x) : (wns x = invalidSeq) ↔ (x = invalidSeq) := by
  simp only [invalidSeq_eq]; exact wns_eq_neg1 h0

theorem decideQueue_wrap {S : List UInt8} {b : Int} (hb : 1 ≤ b) (hn : S.length + 2 < 1073741824)
    (h0 : Half) (syn : Bool) (acc : Nat) (sq : Int) (hsq : InW b S.length sq)
    (hns : h0.nextSeq = -1 ∨ InW b S.length h0.nextSeq) :
    decideQueue R h0.wrap syn acc (wq sq) =
      ((decideQueue I h0 syn acc sq).1.wrap, (decideQueue I h0 syn acc sq).2) := by
  have hsq0 : 0 ≤ sq := by unfold InW at hsq; omega
  have hns1 : -1 ≤ h0.nextSeq := by rcases hns with h1 | h1; omega; unfold InW at h1; omega
  unfold decideQueue
  by_cases hnv : h0.nextSeq = invalidSeq
  · have hnsw' : h0.wrap.nextSeq = invalidSeq := (wns_ite_eq hns1).mpr hnv
    rw [if_pos hnv, if_pos hnsw']
    by_cases hsyn : syn = true
    · rw [if_pos hsyn, if_pos hsyn]
      simp only [Half.wrap, wns_of_nonneg hsq0]
    · rw [if_neg hsyn, if_neg hsyn]
      by_cases hst : (h0.nextSeq = invalidSeq ∧ syn = true) ∨ acc = 2
      · have hst' : (h0.wrap.nextSeq = invalidSeq ∧ syn = true) ∨ acc = 2 := by
          rcases hst with ⟨_, hc⟩ | hc
          · exact absurd hc hsyn
          · exact Or.inr hc
        rw [if_pos hst, if_pos hst']
        simp only [Half.wrap, wns_of_nonneg hsq0]
      · have hst' : ¬ ((h0.wrap.nextSeq = invalidSeq ∧ syn = true) ∨ acc = 2) := by
          intro hc; apply hst
          rcases hc with ⟨_, hc⟩ | hc
          · exact absurd hc hsyn
          · exact Or.inr hc
        rw [if_neg hst, if_neg hst']
  · have hnsw' : ¬ h0.wrap.nextSeq = invalidSeq := fun e => hnv ((wns_ite_eq hns1).mp e)
    rw [if_neg hnv, if_neg hnsw']
    have hw := hns.resolve_left hnv
    have h0' : 0 ≤ h0.nextSeq := by unfold InW at hw; omega
    have e0 : h0.wrap.nextSeq = wq h0.nextSeq := wns_of_nonneg h0'
    rw [e0, real_diff hb hn hw hsq]
    by_cases hq : I.diff h0.nextSeq sq > 0
    · have : sq - h0.nextSeq > 0 := hq
      rw [if_pos hq, if_pos this]
    · have : ¬ sq - h0.nextSeq > 0 := hq
      rw [if_neg hq, if_neg this]

theorem assemble_wrap (S : List UInt8) (i : Int) (hi : 0 ≤ i) (hn : S.length + 2 < 1073741824)
    (cfg : Cfg) (h : Half) (used : Int) (p : Seg) (acc : Nat) (keep : KeepRule)
    (hinv : HInv S (i + 1) h) (hp : SegOK S i p) (hacc : acc ≤ 1) :
    assemble R cfg h.wrap used p.wrap acc keep = Res.mapR Out.wrap (assemble I cfg h used p acc keep) := by
  have hb : (1 : Int) ≤ i + 1 := by omega
  unfold assemble
  have hlast : (if h.wrap.lastSeen < p.wrap.ts then { h.wrap with lastSeen := p.wrap.ts } else h.wrap) =
      (if h.lastSeen < p.ts then { h with lastSeen := p.ts } else h).wrap := by
    by_cases hlt : h.lastSeen < p.ts <;> simp [hlt, Half.wrap, Seg.wrap]
  rw [hlast]
  generalize hh0 : (if h.lastSeen < p.ts then { h with lastSeen := p.ts } else h) = h0
  have hc0 : h0.closed = h.closed := by rw [← hh0]; split <;> rfl
  have hn0 : h0.nextSeq = h.nextSeq := by rw [← hh0]; split <;> rfl
  have hq0 : h0.queue = h.queue := by rw [← hh0]; split <;> rfl
  have hs0 : h0.saved = h.saved := by rw [← hh0]; split <;> rfl
  have hinv0 : HInv S (i + 1) h0 := by
    rcases hinv with hc | hi'
    · exact Or.inl (by rw [hc0]; exact hc)
    · exact Or.inr (inv_congr hn0 hq0 hs0 hi')
  have hat := segok_at hp
  have hseqw : (if p.wrap.syn = true then R.add p.wrap.seq 1 else p.wrap.seq) =
      wq (if p.syn = true then I.add p.seq 1 else p.seq) := by
    by_cases hsyn : p.syn = true
    · have e : p.wrap.syn = true := hsyn
      rw [if_pos e, if_pos hsyn]; exact real_add p.seq 1
    · have e : ¬ p.wrap.syn = true := hsyn
      rw [if_neg e, if_neg hsyn]; rfl
  dsimp only
  rw [hseqw]
  have hsynw : p.wrap.syn = p.syn := rfl
  have hfinw : p.wrap.fin = p.fin := rfl
  have hrstw : p.wrap.rst = p.rst := rfl
  have hbw : p.wrap.bytes = p.bytes := rfl
  have htsw : p.wrap.ts = p.ts := rfl
  rw [hsynw, hfinw, hrstw, hbw, htsw]
  have hsynsq : p.syn = true → (if p.syn = true then I.add p.seq 1 else p.seq) = i + 1 := by
    intro hs
    rw [if_pos hs]; simp only [I_add]; have := (hp.1 hs).1; omega
  generalize hsq : (if p.syn = true then I.add p.seq 1 else p.seq) = sq at hat hsynsq ⊢
  by_cases ha : acc = 0
  · rw [if_pos ha, if_pos ha]; rfl
  rw [if_neg ha, if_neg ha]
  by_cases hcl : h0.closed = true
  · have hcl' : h0.wrap.closed = true := hcl
    rw [if_pos hcl, if_pos hcl']; rfl
  have hcl' : ¬ h0.wrap.closed = true := hcl
  rw [if_neg hcl, if_neg hcl']
  have hI : Inv S (i + 1) h0 := hinv0.resolve_left hcl
  have hatl := hat.len
  rw [decideQueue_wrap hb hn h0 p.syn acc sq hat.inW.1 hI.weak.inW]
  -- what the decision is, in offset space
  have hfacts : WInv S (i + 1) (decideQueue I h0 p.syn acc sq).1 ∧
      ((decideQueue I h0 p.syn acc sq).2 = true →
        ((decideQueue I h0 p.syn acc sq).1.nextSeq = -1 ∨ (decideQueue I h0 p.syn acc sq).1.nextSeq < sq)) ∧
      ((decideQueue I h0 p.syn acc sq).2 = false →
        ((decideQueue I h0 p.syn acc sq).1.nextSeq ≠ -1 ∧ sq ≤ (decideQueue I h0 p.syn acc sq).1.nextSeq)) := by
    rcases decideQueue_spec hI p.syn acc sq hacc ⟨hatl.1, by omega⟩ hsynsq with ⟨hd1, hdq, hdn⟩ | ⟨hsyn, hns', hd⟩
    · rw [hd1]; exact ⟨hI.weak, hdq, hdn⟩
    · rw [hd]
      have hsqv := hsynsq hsyn
      refine ⟨{ ns := Or.inr (by simp only; omega), sorted := hI.queue.1, ok := hI.queue.2.1,
                lower := fun _ q hq => by
                  have := (hI.queue.2.1 q hq).1.len
                  simp only; omega
                saved := Or.inl (by
                  rcases hI.saved with hsv | ⟨hne, _⟩
                  · exact hsv
                  · exact absurd hns' hne) }, fun hc => Bool.noConfusion hc,
              fun _ => ⟨by simp only; omega, Int.le_refl _⟩⟩
  generalize decideQueue I h0 p.syn acc sq = d at hfacts
  obtain ⟨h1, queue⟩ := d
  simp only at hfacts ⊢
  rw [handleBytes_wrap hb hn cfg h1 used queue sq p.bytes p.ts p.syn (p.rst || p.fin) hfacts.1 hat hfacts.2.2]
  obtain ⟨⟨h2, used2, ret⟩, hhb, hbp⟩ := handleBytes_spec S (i + 1) (by omega) cfg h1 used queue sq p.bytes p.ts
    p.syn (p.rst || p.fin) hfacts.1 hat hfacts.2.1 hfacts.2.2
  rw [hhb]
  simp only [Res.mapR, wrapHB]
  exact finishAssemble_wrap hb hn h2 used2 ret p.ts keep _
    (by rcases hbp.ret with hr | ⟨r0, hr, pre, _⟩
        · exact Or.inl hr
        · exact Or.inr ⟨r0, hr, pre⟩)

/-! ### flushes and whole histories -/

theorem skipFlush_wrap {S : List UInt8} {b : Int} (hb : 1 ≤ b) (hn : S.length + 2 < 1073741824)
    (h : Half) (used : Int) (keep : KeepRule) (hI : Inv S b h) :
    skipFlush R h.wrap used keep = Res.mapR Out.wrap (skipFlush I h used keep) := by
  unfold skipFlush
  cases hq : h.queue with
  | nil =>
    have : h.wrap.queue = [] := by simp [hq]
    rw [this]
    simp only [closeHalf_wrap, Res.mapR, Out.wrap]
  | cons p rest =>
    have hw : h.wrap.queue = Page.wrap p :: rest.map Page.wrap := by simp [hq]
    rw [hw]
    simp only [addNextFromConn, hq, hw, List.nil_append, Page.wrap_toCont]
    have pre := skipFlush_pre (by omega) hI hq
    have e : ({ h.wrap with queue := rest.map Page.wrap } : Half) = ({ h with queue := rest } : Half).wrap := by
      simp [Half.wrap]
    rw [e, sendToConnection_wrap hb hn _ used p.toCont 0 keep pre]
    obtain ⟨s, hs, post⟩ := sendToConnection_spec S b (by omega) { h with queue := rest } used p.toCont 0 keep pre
    rw [hs]
    simp only [Res.mapR, Sent.wrap]
    have hl := pre.hat.len
    have hns0 : 0 ≤ s.nextSeq := by rw [post.nextSeq]; omega
    have h1 : wq s.nextSeq ≠ invalidSeq := wq_ne_neg1 _
    have h2 : s.nextSeq ≠ invalidSeq := by simp only [invalidSeq_eq]; omega
    rw [if_pos h1, if_pos h2]
    simp only [Out.wrap, Half.wrap]
    rw [wns_of_nonneg hns0]

theorem flushLoop_wrap {S : List UInt8} {b : Int} (hb : 1 ≤ b) (hn : S.length + 2 < 1073741824) (t : Int) (keep : KeepRule) :
    ∀ (fuel : Nat) (h : Half) (used : Int) (sgs : List SG) (fl : Bool), Inv S b h → h.closed = false →
      flushLoop R t keep fuel h.wrap used sgs fl = Res.mapR Out.wrap (flushLoop I t keep fuel h used sgs fl)
  | 0, h, used, sgs, fl, _, _ => by simp [flushLoop, Res.mapR, Out.wrap]
  | fuel + 1, h, used, sgs, fl, hI, hopen => by
    simp only [flushLoop]
    cases hq : h.queue with
    | nil =>
      have : h.wrap.queue = [] := by simp [hq]
      rw [this]; simp [Res.mapR, Out.wrap]
    | cons p rest =>
      have hw : h.wrap.queue = Page.wrap p :: rest.map Page.wrap := by simp [hq]
      rw [hw]
      simp only
      have hseen : (Page.wrap p).seen = p.seen := rfl
      rw [hseen]
      by_cases hlt : p.seen < t
      · rw [if_pos hlt, if_pos hlt, skipFlush_wrap hb hn h used keep hI]
        obtain ⟨o, ho, hst, hlen⟩ := skipFlush_spec S b (by omega) h used keep hI hopen
        rw [ho]
        simp only [Res.mapR]
        have hoc : o.wrap.closed = o.closed := rfl
        rw [hoc]
        by_cases hc : o.closed = true
        · rw [if_pos hc, if_pos hc]; simp [Res.mapR, Out.wrap]
        · rw [if_neg hc, if_neg hc]
          have hc' : o.closed = false := by simpa using hc
          have hopen' := (hlen hc').1
          have hI' : Inv S b o.half := hst.1.resolve_left (by simp [hopen'])
          exact flushLoop_wrap hb hn t keep fuel o.half o.used (sgs ++ o.sgs) true hI' hopen'
      · rw [if_neg hlt, if_neg hlt]; simp [Res.mapR, Out.wrap]

theorem flushClose_wrap {S : List UInt8} {b : Int} (hb : 1 ≤ b) (hn : S.length + 2 < 1073741824)
    (h : Half) (used : Int) (t tc ls : Int) (keep : KeepRule) (hinv : HInv S b h) :
    flushClose R h.wrap used t tc ls keep = Res.mapR Out.wrap (flushClose I h used t tc ls keep) := by
  unfold flushClose
  by_cases hc : h.closed = true
  · have hc' : h.wrap.closed = true := hc
    rw [if_pos hc, if_pos hc']; rfl
  · have hc' : ¬ h.wrap.closed = true := hc
    rw [if_neg hc, if_neg hc']
    have hopen : h.closed = false := by simpa using hc
    have hI := hinv.resolve_left hc
    have hlen : h.wrap.queue.length = h.queue.length := by simp
    rw [hlen, flushLoop_wrap hb hn t keep (h.queue.length + 1) h used [] false hI hopen]
    cases flushLoop I t keep (h.queue.length + 1) h used [] false with
    | ok o =>
      simp only [Res.mapR]
      have hoc : o.wrap.closed = o.closed := rfl
      rw [hoc]
      by_cases hoc' : o.closed = true
      · rw [if_pos hoc', if_pos hoc']
      · rw [if_neg hoc', if_neg hoc']
        have he : o.wrap.half.queue.isEmpty = o.half.queue.isEmpty := by simp [Out.wrap]
        rw [he]
        by_cases hcond : o.half.queue.isEmpty = true ∧ ls < tc
        · rw [if_pos hcond, if_pos hcond]
          have : o.wrap.half = o.half.wrap := rfl
          rw [this, closeHalf_wrap]
          simp [Out.wrap]
        · rw [if_neg hcond, if_neg hcond]
    | err k => rfl
    | panic k => rfl

theorem flushAllLoop_wrap {S : List UInt8} {b : Int} (hb : 1 ≤ b) (hn : S.length + 2 < 1073741824) (keep : KeepRule) :
    ∀ (fuel : Nat) (h : Half) (used : Int) (sgs : List SG), HInv S b h →
      flushAllLoop R keep fuel h.wrap used sgs = Res.mapR Out.wrap (flushAllLoop I keep fuel h used sgs)
  | 0, h, used, sgs, _ => by simp [flushAllLoop, Res.mapR, Out.wrap]
  | fuel + 1, h, used, sgs, hinv => by
    simp only [flushAllLoop]
    by_cases hc : h.closed = true
    · have hc' : h.wrap.closed = true := hc
      rw [if_pos hc, if_pos hc']; rfl
    · have hc' : ¬ h.wrap.closed = true := hc
      rw [if_neg hc, if_neg hc']
      have hopen : h.closed = false := by simpa using hc
      have hI := hinv.resolve_left hc
      rw [skipFlush_wrap hb hn h used keep hI]
      obtain ⟨o, ho, hst, hlen⟩ := skipFlush_spec S b (by omega) h used keep hI hopen
      rw [ho]
      simp only [Res.mapR]
      have hoc : o.wrap.closed = o.closed := rfl
      rw [hoc]
      by_cases hoc' : o.closed = true
      · rw [if_pos hoc', if_pos hoc']; simp [Res.mapR, Out.wrap]
      · rw [if_neg hoc', if_neg hoc']
        exact flushAllLoop_wrap hb hn keep fuel o.half o.used (sgs ++ o.sgs) hst.1

theorem hstep_wrap (S : List UInt8) (i : Int) (hi : 0 ≤ i) (hn : S.length + 2 < 1073741824) (h : Half) (op : HOp)
    (hinv : HInv S (i + 1) h) (hop : op.OK S i) :
    hstep R h.wrap op.wrap = Res.mapR Out.wrap (hstep I h op) := by
  have hb : (1 : Int) ≤ i + 1 := by omega
  cases op with
  | seg p acc keep cfg used => exact assemble_wrap S i hi hn cfg h used p acc keep hinv hop.1 hop.2
  | skipFlush keep used =>
    simp only [hstep, HOp.wrap]
    by_cases hc : h.closed = true
    · have hc' : h.wrap.closed = true := hc
      rw [if_pos hc, if_pos hc']; rfl
    · have hc' : ¬ h.wrap.closed = true := hc
      rw [if_neg hc, if_neg hc']
      exact skipFlush_wrap hb hn h used keep (hinv.resolve_left hc)
  | flushClose t tc ls keep used => exact flushClose_wrap hb hn h used t tc ls keep hinv
  | flushAll keep used =>
    simp only [hstep, HOp.wrap, flushAllHalf]
    have hlen : h.wrap.queue.length = h.queue.length := by simp
    rw [hlen]
    exact flushAllLoop_wrap hb hn keep _ h used [] hinv

def wrapRun (r : Half × List SG) : Half × List SG := (r.1.wrap, r.2)

/-- Layer A for whole histories: on the wire (sequence numbers modulo 2^32, generated arithmetic) the half
    connection does exactly what the offset-space twin does. -/
theorem hrun_wrap (S : List UInt8) (i : Int) (hi : 0 ≤ i) (hn : S.length + 2 < 1073741824) :
    ∀ (ops : List HOp) (h : Half), HInv S (i + 1) h → (∀ op ∈ ops, op.OK S i) →
      hrun R h.wrap (ops.map HOp.wrap) = Res.mapR wrapRun (hrun I h ops)
  | [], h, _, _ => rfl
  | op :: rest, h, hinv, hok => by
    simp only [List.map_cons, hrun]
    rw [hstep_wrap S i hi hn h op hinv (hok op (List.mem_cons_self ..))]
    obtain ⟨o, ho, hst⟩ := hstep_spec S i hi h op hinv (hok op (List.mem_cons_self ..))
    rw [ho]
    simp only [Res.mapR]
    have : o.wrap.half = o.half.wrap := rfl
    rw [this, hrun_wrap S i hi hn rest o.half hst.1 (fun op' hm => hok op' (List.mem_cons_of_mem _ hm))]
    cases hrun I o.half rest with
    | ok r => obtain ⟨h', sgs⟩ := r; simp [Res.mapR, wrapRun, Out.wrap]
    | err k => rfl
    | panic k => rfl

end Gp.Reasm
