import Gp.Lemmas.ReasmHalf
/-
  Layer A of C09 (wrap elimination): as long as every live sequence number lies in a window shorter than
  2^30, the model running the GENERATED `Sequence.Difference/Add` (`Arith.real`) on sequence numbers
  reduced modulo 2^32 does exactly what the offset-space twin (`Arith.ideal`) does on unbounded
  numbers.  This is the only place where the generated arithmetic is used.
-/
set_option linter.unusedSimpArgs false
namespace Gp.Reasm
open Gp

abbrev R : Arith := Arith.real

/-- reduce a sequence number modulo 2^32 -/
def wq (x : Int) : Int := x % 4294967296
/-- nextSeq: the sentinel -1 stays -/
def wns (x : Int) : Int := if x = -1 then -1 else x % 4294967296

def Page.wrap (p : Page) : Page := { p with seq := wq p.seq }
def Cont.wrap (c : Cont) : Cont := { c with seq := wq c.seq }
def Half.wrap (h : Half) : Half :=
  { h with nextSeq := wns h.nextSeq, queue := h.queue.map Page.wrap, saved := h.saved.map Page.wrap }

/-- the window: everything between the SYN (b-1) and one past the FIN (b+n+1) -/
def InW (b : Int) (n : Nat) (x : Int) : Prop := b - 1 ≤ x ∧ x ≤ b + n + 1

theorem real_diff {b : Int} {n : Nat} (hb : 1 ≤ b) (hn : n + 2 < 1073741824) {x y : Int}
    (hx : InW b n x) (hy : InW b n y) : R.diff (wq x) (wq y) = y - x := by
  obtain ⟨hx1, hx2⟩ := hx
  obtain ⟨hy1, hy2⟩ := hy
  simp only [Arith.real, Gp.Gen.SeqReasm.difference, wq]
  split <;> (try split) <;> omega

theorem real_add (x n : Int) : R.add (wq x) n = wq (x + n) := by
  simp only [Arith.real, Gp.Gen.SeqReasm.add, wq]; omega

theorem wq_inj {b : Int} {n : Nat} (hb : 1 ≤ b) (hn : n + 2 < 1073741824) {x y : Int}
    (hx : InW b n x) (hy : InW b n y) (h : wq x = wq y) : x = y := by
  obtain ⟨hx1, hx2⟩ := hx
  obtain ⟨hy1, hy2⟩ := hy
  simp only [wq] at h; omega

theorem wq_ne_neg1 (x : Int) : wq x ≠ -1 := by simp only [wq]; omega
theorem wns_of_nonneg {x : Int} (h : 0 ≤ x) : wns x = wq x := by
  simp only [wns, wq]; rw [if_neg (by omega)]
theorem wns_eq_neg1 {x : Int} (h0 : -1 ≤ x) : wns x = -1 ↔ x = -1 := by
  simp only [wns]; split <;> omega

/-- result mapping -/
def Res.mapR {α β : Type} (f : α → β) : Res α → Res β
  | .ok a => .ok (f a)
  | .err k => .err k
  | .panic k => .panic k

theorem At.inW {S : List UInt8} {b seq : Int} {bytes : List UInt8} (h : At S b seq bytes) :
    InW b S.length seq ∧ InW b S.length (seq + bytes.length) := by
  have := h.len; unfold InW; omega

/-! ### pages -/

theorem splitPagesAux_wrap (seen : Int) (fin : Bool) : ∀ (fuel : Nat) (seq : Int) (bytes : List UInt8),
    splitPagesAux R seen fin fuel (wq seq) bytes = (splitPagesAux I seen fin fuel seq bytes).map Page.wrap
  | 0, seq, bytes => by simp [splitPagesAux, Page.wrap]
  | fuel + 1, seq, bytes => by
    simp only [splitPagesAux]
    split
    · simp [Page.wrap]
    · simp only [List.map_cons, real_add, I_add]
      rw [splitPagesAux_wrap seen fin fuel]
      simp [Page.wrap]

theorem splitPages_wrap (seq : Int) (bytes : List UInt8) (ts : Int) (fin : Bool) :
    splitPages R (wq seq) bytes ts fin = (splitPages I seq bytes ts fin).map Page.wrap :=
  splitPagesAux_wrap ts fin _ _ _

def Ov.wrap (r : Ov) : Ov := { r with front := r.front.map Page.wrap, back := r.back.map Page.wrap }

theorem ovLoop_wrap {S : List UInt8} {b : Int} (hb : 1 ≤ b) (hn : S.length + 2 < 1073741824)
    (start end_ : Int) (hs : InW b S.length start) (he : InW b S.length end_) :
    ∀ (rev back : List Page) (bytes : List UInt8) (dropped : Nat),
      (∀ p ∈ rev, At S b p.seq p.bytes) →
      ovLoop R (wq start) (wq end_) bytes (rev.map Page.wrap) (back.map Page.wrap) dropped =
        Res.mapR Ov.wrap (ovLoop I start end_ bytes rev back dropped)
  | [], back, bytes, dropped, _ => by simp [ovLoop, Res.mapR, Ov.wrap]
  | cur :: rest, back, bytes, dropped, hok => by
    have hc := (hok cur (List.mem_cons_self ..)).inW
    have hrest : ∀ p ∈ rest, At S b p.seq p.bytes := fun p hp => hok p (List.mem_cons_of_mem _ hp)
    have ih := ovLoop_wrap hb hn start end_ hs he rest
    simp only [List.map_cons, ovLoop]
    have e1 : R.diff (wq end_) (Page.wrap cur).seq = I.diff end_ cur.seq := real_diff hb hn he hc.1
    have e2 : R.add (Page.wrap cur).seq ↑(Page.wrap cur).bytes.length = wq (cur.seq + ↑cur.bytes.length) := real_add _ _
    have e3 : R.diff (wq start) (wq (cur.seq + ↑cur.bytes.length)) = I.diff start (I.add cur.seq ↑cur.bytes.length) :=
      real_diff hb hn hs hc.2
    have e4 : R.diff (wq start) (Page.wrap cur).seq = I.diff start cur.seq := real_diff hb hn hs hc.1
    have e5 : R.diff (wq end_) (wq (cur.seq + ↑cur.bytes.length)) = I.diff end_ (I.add cur.seq ↑cur.bytes.length) :=
      real_diff hb hn he hc.2
    have e6 : (Page.wrap cur).bytes = cur.bytes := rfl
    rw [e2, e1, e3, e4, e5, e6]
    split
    · have := ih (cur :: back) bytes dropped hrest
      simpa using this
    · split
      · simp [Res.mapR, Ov.wrap]
      · split
        · exact ih back bytes (dropped + 1) hrest
        · split
          · split
            · rfl
            · simp [Res.mapR, Ov.wrap, Page.wrap]
          · split
            · split
              · rfl
              · have := ih ({ cur with bytes := cur.bytes.drop (-I.diff end_ cur.seq).toNat,
                                       seq := I.add cur.seq (-I.diff end_ cur.seq) } :: back) bytes dropped hrest
                simp only [List.map_cons, Page.wrap, I_add, ← real_add] at this ⊢
                exact this
            · split
              · split
                · rfl
                · have := ih ({ cur with bytes := overwrite cur.bytes (-I.diff start cur.seq).toNat bytes } :: back) [] dropped hrest
                  simpa [Page.wrap] using this
              · have := ih (cur :: back) bytes dropped hrest
                simpa using this

/-! ### checkOverlap / overlapExisting -/

def wrap3 (r : Half × Int × List UInt8) : Half × Int × List UInt8 := (r.1.wrap, r.2.1, r.2.2)

theorem checkOverlap_wrap {S : List UInt8} {b : Int} (hb : 1 ≤ b) (hn : S.length + 2 < 1073741824)
    (h : Half) (used : Int) (queue : Bool) (start : Int) (bytes : List UInt8) (ts : Int) (fin : Bool)
    (hat : At S b start bytes) (hok : ∀ p ∈ h.queue, At S b p.seq p.bytes) :
    checkOverlap R h.wrap used queue (wq start) bytes ts fin =
      Res.mapR wrap3 (checkOverlap I h used queue start bytes ts fin) := by
  unfold checkOverlap
  have hw := hat.inW
  have e1 : R.add (wq start) ↑bytes.length = wq (start + ↑bytes.length) := real_add _ _
  have e2 : h.wrap.queue.reverse = (h.queue.reverse).map Page.wrap := by simp [Half.wrap]
  rw [e1, e2]
  have := ovLoop_wrap hb hn start (start + ↑bytes.length) hw.1 hw.2 h.queue.reverse [] bytes 0
    (fun p hp => hok p (List.mem_reverse.mp hp))
  simp only [List.map_nil] at this
  rw [this]
  simp only [I_add]
  cases hov : ovLoop I start (start + ↑bytes.length) bytes h.queue.reverse [] 0 with
  | ok r =>
    simp only [Res.mapR]
    by_cases hc : 0 < r.bytes.length ∧ queue = true
    · have hc' : r.wrap.bytes.length > 0 ∧ queue = true := hc
      rw [if_pos hc, if_pos hc', splitPages_wrap]
      simp [wrap3, Half.wrap, Ov.wrap, Res.mapR]
    · have hc' : ¬ (r.wrap.bytes.length > 0 ∧ queue = true) := hc
      rw [if_neg hc, if_neg hc']
      simp [wrap3, Half.wrap, Ov.wrap, Res.mapR]
  | err k => rfl
  | panic k => rfl

theorem overlapExisting_wrap {S : List UInt8} {b : Int} (hb : 1 ≤ b) (hn : S.length + 2 < 1073741824)
    (h : Half) (start : Int) (bytes : List UInt8) (hs : InW b S.length start)
    (hns : h.nextSeq = -1 ∨ InW b S.length h.nextSeq) :
    overlapExisting R h.wrap (wq start) bytes =
      Res.mapR (fun r => (r.1, wq r.2)) (overlapExisting I h start bytes) := by
  unfold overlapExisting
  rcases hns with hm | hw
  · have : h.wrap.nextSeq = invalidSeq := by simp [Half.wrap, wns, hm]
    rw [if_pos this, if_pos (by simpa using hm)]
    rfl
  · have h0 : 0 ≤ h.nextSeq := by unfold InW at hw; omega
    have e0 : h.wrap.nextSeq = wq h.nextSeq := by simp only [Half.wrap]; exact wns_of_nonneg h0
    have : ¬ h.wrap.nextSeq = invalidSeq := by rw [e0]; exact wq_ne_neg1 _
    have hne : ¬ h.nextSeq = invalidSeq := by simp only [invalidSeq_eq]; omega
    rw [if_neg this, if_neg hne]
    rw [e0, real_diff hb hn hs hw]
    simp only [I_diff]
    by_cases hd : h.nextSeq - start = 0
    · rw [if_pos hd, if_pos hd]; rfl
    · rw [if_neg hd, if_neg hd]
      by_cases hp : (if h.nextSeq - start ≥ ↑bytes.length then (↑bytes.length : Int) else h.nextSeq - start) < 0
      · rw [if_pos hp, if_pos hp]; rfl
      · rw [if_neg hp, if_neg hp]; rfl

end Gp.Reasm
