import Gp.Lemmas.PcapNgRT5
/-
  Round trip, part 6 (C14): a whole written file — section header, first interface, then any sequence of
  AddInterface / WritePacketWithOptions / WriteDecryptionSecretsBlock calls — read back.
-/
namespace Gp.PcapNg
open Gp.Gen.PcapNg

/-! ### blocks the packet loop skips: decryption secrets -/

theorem pktBlockBody_other (t : Nat) (h1 : t ≠ ngBlockTypeEnhancedPacket) (h2 : t ≠ ngBlockTypePacket)
    (h3 : t ≠ ngBlockTypeSimplePacket) (h4 : t ≠ ngBlockTypeInterfaceDescriptor) (h5 : t ≠ ngBlockTypeInterfaceStatistics)
    (h6 : t ≠ ngBlockTypeSectionHeader) (h7 : t ≠ ngBlockTypeNameResolution) :
    pktBlockBody t = (do discardBlock; Pure.pure false) := by
  unfold pktBlockBody
  rw [if_neg (by intro h; rcases h with h | h <;> contradiction), if_neg h3, if_neg h4, if_neg h5, if_neg h6, if_neg h7]

/-- one iteration of the readPacketHeader loop on a written block of a type it skips -/
theorem eats_hdrBody_skip (s : S) (typ : Nat) (body : Bytes) (hbe : s.be = false) (ht : typ < 4294967296)
    (h1 : typ ≠ ngBlockTypeEnhancedPacket) (h2 : typ ≠ ngBlockTypePacket)
    (h3 : typ ≠ ngBlockTypeSimplePacket) (h4 : typ ≠ ngBlockTypeInterfaceDescriptor) (h5 : typ ≠ ngBlockTypeInterfaceStatistics)
    (h6 : typ ≠ ngBlockTypeSectionHeader) (h7 : typ ≠ ngBlockTypeNameResolution)
    (hlt : (blockBytes typ body).length < 4294967296) :
    Eats hdrBody s (blockBytes typ body) (fun st s' => st = .again ∧ s'.core = s.core) := by
  rw [length_blockBytes] at hlt
  rw [blockBytes_split]
  unfold hdrBody
  refine Eats.bindD rfl (eats_readBlock s typ (body.length + 12) hbe ht h6 hlt (by omega)) ?_
  refine Eats.bindD0 (EatsD.getS _) ?_
  dsimp only
  rw [pktBlockBody_other typ h1 h2 h3 h4 h5 h6 h7]
  refine Eats.bindD1 (a := false) (s1 := { s with blkTyp := typ, blkLen := sub32 (body.length + 12 - 8) (body.length + 12 - 8) }) ?_ ?_
  · refine Eats.bindD1 (eats_discardBlock _ _ ?_) (EatsD.pure _ _)
    show (body ++ putLe32 (body.length + 12)).length = body.length + 12 - 8
    rw [List.length_append, length_putLe32]; omega
  · rw [hdrTail_false]
    exact Eats.pure ⟨rfl, rfl⟩

theorem writeDSB_eq (typ : Nat) (payload : Bytes) :
    writeDSB typ payload = blockBytes ngBlockTypeDecryptionSecrets
      (putLe32 typ ++ putLe32 payload.length ++ payload ++ zeros (pad4 payload.length)) := rfl

/-! ### the items of a file -/

/-- the blocks the writer produces for the item calls (all of them accepted: see `WfItems`) -/
def blocksOf : List Item → Bytes
  | [] => []
  | .iface i :: r => writeIDB i ++ blocksOf r
  | .pkt iface ts len data opts :: r => writeEPB iface ts len data opts ++ blocksOf r
  | .stats id st :: r => writeISB id st ++ blocksOf r
  | .dsb typ payload :: r => writeDSB typ payload ++ blocksOf r

/-- well-formed item calls, given the interfaces `ifs` added so far: every call is accepted by the writer, strings and
    numbers fit their fields, every block is shorter than 2^32 bytes, and the reader (options `cfg`, link type `lt0`
    of the first interface) either returns the packets of an interface that is used (WantMixedLinkType, or the
    interface has the link type of the first one) or skips them silently (ErrorOnMismatchingLinkType off).
    Interface statistics calls are not part of this fragment. -/
def WfItems (cfg : Cfg) (lt0 : Nat) : List IfaceSpec → List Item → Prop
  | _, [] => True
  | ifs, .iface i :: r => WfIface i ∧ (writeIDB i).length < 4294967296 ∧ WfItems cfg lt0 (ifs ++ [i]) r
  | ifs, .pkt iface ts len data opts :: r =>
      (∃ sp, ifs[iface]? = some sp ∧ (cfg.mixed = true ∨ sp.linkType = lt0 ∨ cfg.errMismatch = false)) ∧
      iface < 4294967296 ∧ data.length ≤ len ∧
      len < 4294967296 ∧ WfOpts opts ∧ (writeEPB iface ts len data opts).length < 4294967296 ∧ WfItems cfg lt0 ifs r
  | _, .stats _ _ :: _ => False
  | ifs, .dsb typ payload :: r =>
      dsbTypeKnown typ = true ∧ (writeDSB typ payload).length < 4294967296 ∧ WfItems cfg lt0 ifs r

/-- the packets the reader returns: those of all interfaces (WantMixedLinkType) or of the interfaces with the link type
    `lt0` of the first one -/
def expect (cfg : Cfg) (lt0 : Nat) : List IfaceSpec → List Item → List Pkt
  | _, [] => []
  | ifs, .iface i :: r => expect cfg lt0 (ifs ++ [i]) r
  | ifs, .pkt iface ts len data opts :: r =>
      (match ifs[iface]? with
       | some sp => if cfg.mixed = true ∨ sp.linkType = lt0 then [expPkt cfg sp iface ts len data opts] else []
       | none => []) ++ expect cfg lt0 ifs r
  | ifs, .stats _ _ :: r => expect cfg lt0 ifs r
  | ifs, .dsb _ _ :: r => expect cfg lt0 ifs r

/-- with WantMixedLinkType the link type of the first interface does not matter -/
theorem expect_mixed (cfg : Cfg) (hm : cfg.mixed = true) (a b : Nat) :
    ∀ (items : List Item) (ifs : List IfaceSpec), expect cfg a ifs items = expect cfg b ifs items := by
  intro items
  induction items with
  | nil => intro ifs; rfl
  | cons it r ih =>
    intro ifs
    cases it with
    | iface i => exact ih _
    | pkt iface ts len data opts =>
      simp only [expect, hm, true_or, if_true]
      rw [ih ifs]
    | stats id st => exact ih ifs
    | dsb typ payload => exact ih ifs

/-- the interfaces the reader knows at the end -/
def finalIfs : List IfaceSpec → List Item → List IfaceSpec
  | ifs, [] => ifs
  | ifs, .iface i :: r => finalIfs (ifs ++ [i]) r
  | ifs, .pkt _ _ _ _ _ :: r => finalIfs ifs r
  | ifs, .stats _ _ :: r => finalIfs ifs r
  | ifs, .dsb _ _ :: r => finalIfs ifs r

/-- the writer accepts every call of a well-formed item list: it writes `blocksOf` and reports no error -/
theorem writeItems_wf (cfg : Cfg) (lt0 : Nat) : ∀ (items : List Item) (ifs : List IfaceSpec),
    WfItems cfg lt0 ifs items → writeItems ifs.length items = (blocksOf items, 0) := by
  intro items
  induction items with
  | nil => intro ifs _; rfl
  | cons it r ih =>
    intro ifs hw
    cases it with
    | iface i =>
      obtain ⟨_, _, hr⟩ := hw
      have := ih (ifs ++ [i]) hr
      simp only [List.length_append, List.length_cons, List.length_nil] at this
      simp only [writeItems, writeItem, this, blocksOf]
    | pkt iface ts len data opts =>
      obtain ⟨⟨sp, hsp, _⟩, _, hcl, _, _, _, hr⟩ := hw
      have hlt : iface < ifs.length := (List.getElem?_eq_some_iff.mp hsp).1
      simp only [writeItems, writeItem, if_neg (Nat.not_le.mpr hlt), if_neg (Nat.not_lt.mpr hcl), ih ifs hr, blocksOf]
    | stats id st => exact absurd hw (by simp [WfItems])
    | dsb typ payload =>
      obtain ⟨hk, _, hr⟩ := hw
      simp only [writeItems, writeItem, hk, if_true, ih ifs hr, blocksOf]

/-- the cross-block state of a reader that knows the interfaces `ifs` -/
def coreOf (cfg : Cfg) (sect : Section) (lt0 : Nat) (ff : Bool) (ifs : List IfaceSpec) : Core :=
  { cfg := cfg, be := false, sect := sect, linkType := lt0, firstFound := ff, ifaces := ifs.map ifaceOf }

theorem dsb_type_facts : ngBlockTypeDecryptionSecrets < 4294967296 ∧
    ngBlockTypeDecryptionSecrets ≠ ngBlockTypeEnhancedPacket ∧ ngBlockTypeDecryptionSecrets ≠ ngBlockTypePacket ∧
    ngBlockTypeDecryptionSecrets ≠ ngBlockTypeSimplePacket ∧ ngBlockTypeDecryptionSecrets ≠ ngBlockTypeInterfaceDescriptor ∧
    ngBlockTypeDecryptionSecrets ≠ ngBlockTypeInterfaceStatistics ∧ ngBlockTypeDecryptionSecrets ≠ ngBlockTypeSectionHeader ∧
    ngBlockTypeDecryptionSecrets ≠ ngBlockTypeNameResolution := by decide

/-- reading the blocks of a well-formed item list, call by call -/
theorem ra_items (cfg : Cfg) (sect : Section) (lt0 : Nat) (ff : Bool) (nw : Nat) :
    ∀ (items : List Item) (ifs : List IfaceSpec), WfItems cfg lt0 ifs items →
      RA (fun s => s.core = coreOf cfg sect lt0 ff ifs) (blocksOf items) nw (expect cfg lt0 ifs items)
         (fun s => s.core = coreOf cfg sect lt0 ff (finalIfs ifs items)) := by
  intro items
  induction items with
  | nil =>
    intro ifs _
    exact RA.eof (fun s ev hs => ⟨s, ev, hs, readPacketP_eof s ev nw⟩)
  | cons it r ih =>
    intro ifs hw
    cases it with
    | iface i =>
      obtain ⟨hwi, hli, hr⟩ := hw
      refine RA.peel (writeIDB i) (fun s hs => ?_) (ih (ifs ++ [i]) hr)
      have hbe : s.be = false := congrArg Core.be hs
      refine Eats.weaken (eats_hdrBody_idb s i hwi hbe hli) ?_
      intro st s' ⟨h1, h2⟩
      refine ⟨h1, ?_⟩
      rw [h2, hs]
      simp only [coreOf, List.map_append, List.map_cons, List.map_nil]
      have : s.ifaces = ifs.map ifaceOf := congrArg Core.ifaces hs
      rw [this]
    | pkt iface ts len data opts =>
      obtain ⟨⟨sp, hsp, hacc3⟩, hi, hcl, hl, hwo, hlt, hr⟩ := hw
      by_cases hacc : cfg.mixed = true ∨ sp.linkType = lt0
      · have hexp : expect cfg lt0 ifs (.pkt iface ts len data opts :: r)
            = expPkt cfg sp iface ts len data opts :: expect cfg lt0 ifs r := by
          simp only [expect, hsp, if_pos hacc, List.singleton_append]
        rw [hexp]
        refine RA.cons (writeEPB iface ts len data opts) (fun s hs => ?_) (ih ifs hr)
        have hbe : s.be = false := congrArg Core.be hs
        have hcfg : s.cfg = cfg := congrArg Core.cfg hs
        have hlt0 : s.linkType = lt0 := congrArg Core.linkType hs
        have hifs : s.ifaces = ifs.map ifaceOf := congrArg Core.ifaces hs
        have hif : s.ifaces[iface]? = some (ifaceOf sp) := by
          rw [hifs, List.getElem?_map, hsp]; rfl
        refine Eats.weaken (eats_readPacketP_epb s sp iface ts len data opts hbe hi hcl hl hwo hlt hif
          (by rw [hcfg, hlt0]; exact hacc)) ?_
        intro p s' ⟨h1, h2⟩
        exact ⟨by rw [h1, hcfg], by rw [h2, hs]⟩
      · have hexp : expect cfg lt0 ifs (.pkt iface ts len data opts :: r) = expect cfg lt0 ifs r := by
          simp only [expect, hsp, if_neg hacc, List.nil_append]
        rw [hexp]
        have hmx : cfg.mixed = false := by
          cases hm : cfg.mixed with
          | true => exact absurd (Or.inl hm) hacc
          | false => rfl
        have hne : sp.linkType ≠ lt0 := fun h => hacc (Or.inr h)
        have herr : cfg.errMismatch = false := by
          rcases hacc3 with h | h | h
          · exact absurd (Or.inl h) hacc
          · exact absurd (Or.inr h) hacc
          · exact h
        refine RA.peel (writeEPB iface ts len data opts) (fun s hs => ?_) (ih ifs hr)
        have hbe : s.be = false := congrArg Core.be hs
        have hcfg : s.cfg = cfg := congrArg Core.cfg hs
        have hlt0 : s.linkType = lt0 := congrArg Core.linkType hs
        have hifs : s.ifaces = ifs.map ifaceOf := congrArg Core.ifaces hs
        have hif : s.ifaces[iface]? = some (ifaceOf sp) := by
          rw [hifs, List.getElem?_map, hsp]; rfl
        refine Eats.weaken (eats_hdrBody_epb_skip s sp iface ts len data opts hbe hi hcl hl hlt hif
          (by rw [hcfg]; exact hmx) (by rw [hlt0]; exact hne) (by rw [hcfg]; exact herr)) ?_
        intro st s' ⟨h1, h2⟩
        exact ⟨h1, by rw [h2, hs]⟩
    | stats id st => exact absurd hw (by simp [WfItems])
    | dsb typ payload =>
      obtain ⟨_, hlt, hr⟩ := hw
      refine RA.peel (writeDSB typ payload) (fun s hs => ?_) (ih ifs hr)
      have hbe : s.be = false := congrArg Core.be hs
      obtain ⟨f0, f1, f2, f3, f4, f5, f6, f7⟩ := dsb_type_facts
      rw [writeDSB_eq] at hlt ⊢
      refine Eats.weaken (eats_hdrBody_skip s _ _ hbe f0 f1 f2 f3 f4 f5 f6 f7 hlt) ?_
      intro st s' ⟨h1, h2⟩
      exact ⟨h1, by rw [h2, hs]⟩

end Gp.PcapNg
