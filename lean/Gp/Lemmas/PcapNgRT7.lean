import Gp.Lemmas.PcapNgRT6
/-
  Round trip, part 7 (C14): NewNgReader on a written file, and the whole-file theorem.
-/
namespace Gp.PcapNg
open Gp.Gen.PcapNg

/-! ### section header block -/

/-- the body of a written section header block -/
def shbBody (i : Section) : Bytes :=
  putLe32 ngByteOrderMagic ++ putLe16 ngVersionMajor ++ putLe16 ngVersionMinor ++ putLe64 18446744073709551615
    ++ encOpts (shbOptList i)

theorem writeSHB_eq (i : Section) : writeSHB i = blockBytes ngBlockTypeSectionHeader (shbBody i) := rfl

/-- readBlock on the first 12 bytes of a written section header block -/
theorem eats_readBlock_shb (s : S) (total : Nat) (hbe : s.be = false) (htot : total < 4294967296) (h12 : 12 ≤ total) :
    EatsD readBlock s (putLe32 ngBlockTypeSectionHeader ++ putLe32 total ++ putLe32 ngByteOrderMagic) ()
      { s with blkTyp := ngBlockTypeSectionHeader, be := false, blkLen := total - 12 } := by
  unfold readBlock
  have hsplit : putLe32 ngBlockTypeSectionHeader ++ putLe32 total ++ putLe32 ngByteOrderMagic
      = (putLe32 ngBlockTypeSectionHeader ++ putLe32 total) ++ putLe32 ngByteOrderMagic := rfl
  refine Eats.bindD hsplit (EatsD.rd0 s (by rfl)) ?_
  have e1 : (putLe32 ngBlockTypeSectionHeader ++ putLe32 total).take 4 = putLe32 ngBlockTypeSectionHeader := rfl
  have e2 : (putLe32 ngBlockTypeSectionHeader ++ putLe32 total).drop 4 = putLe32 total := rfl
  have h1 : blockTypeStep (putLe32 ngBlockTypeSectionHeader ++ putLe32 total) s
      = (.ok true, { s with blkTyp := ngBlockTypeSectionHeader }) := by
    simp only [blockTypeStep, hbe, e1, getU_le32, show ngBlockTypeSectionHeader % 4294967296 = ngBlockTypeSectionHeader by decide,
      decide_true]
  refine Eats.bindD0 (EatsD.act h1) ?_
  rw [if_pos rfl]
  refine Eats.bindD1 (EatsD.rd _ (by rfl)) ?_
  have hm1 : ¬ beNat (putLe32 ngByteOrderMagic) = ngByteOrderMagic := by decide
  have hm2 : leNat (putLe32 ngByteOrderMagic) = ngByteOrderMagic := by decide
  have h2 : blockMagicStep (putLe32 ngBlockTypeSectionHeader ++ putLe32 total) (putLe32 ngByteOrderMagic)
        { s with blkTyp := ngBlockTypeSectionHeader }
      = (.ok (), { s with blkTyp := ngBlockTypeSectionHeader, be := false, blkLen := total - 12 }) := by
    simp only [blockMagicStep, hm1, hm2, if_false, if_true, e2, getU_le32, Nat.mod_eq_of_lt htot]
    rw [sub32_eq (a := total) (b := 8) (by omega) htot, sub32_eq (a := total - 8) (b := 4) (by omega) (by omega)]
    have : total - 8 - 4 = total - 12 := by omega
    rw [this]
  exact EatsD.act h2

theorem shbVersion_ok (s : S) (hbe : s.be = false) :
    shbVersionStep (putLe16 ngVersionMajor ++ putLe16 ngVersionMinor ++ putLe64 18446744073709551615) s
      = (.ok false, { s with blkLen := sub32 s.blkLen 12, curSec := {} }) := by
  have e1 : (putLe16 ngVersionMajor ++ putLe16 ngVersionMinor ++ putLe64 18446744073709551615).take 2 = putLe16 ngVersionMajor := rfl
  have e2 : ((putLe16 ngVersionMajor ++ putLe16 ngVersionMinor ++ putLe64 18446744073709551615).drop 2).take 2
      = putLe16 ngVersionMinor := rfl
  simp only [shbVersionStep, hbe, e1, e2, getU_le16]
  simp [ngVersionMajor, ngVersionMinor]

theorem firstIface_first (s : S) (i0 : Iface) (r : List Iface) (hi : s.ifaces = i0 :: r) (hff : s.firstFound = false) :
    firstIfaceStep s = (.ok (.done ()), { s with linkType := i0.linkType, firstFound := true }) := by
  unfold firstIfaceStep
  rw [hi]
  simp [hff]

/-- firstInterface on a written interface description block -/
theorem eats_firstInterface (s : S) (i : IfaceSpec) (hwf : WfIface i) (hbe : s.be = false) (hifs : s.ifaces = [])
    (hff : s.firstFound = false) (hlt : (writeIDB i).length < 4294967296) :
    Eats firstInterface s (writeIDB i)
      (fun _ s' => s'.core = { s.core with linkType := i.linkType, firstFound := true, ifaces := [ifaceOf i] }) := by
  rw [writeIDB_eq, length_blockBytes] at hlt
  rw [writeIDB_eq, blockBytes_split]
  unfold firstInterface
  refine Eats.iter (EatsI.done ?_)
  refine Eats.bindD rfl (eats_readBlock s ngBlockTypeInterfaceDescriptor ((idbBody i).length + 12) hbe (by decide) (by decide)
    hlt (by omega)) ?_
  refine Eats.bindD0 (EatsD.getS _) ?_
  dsimp only
  rw [if_pos rfl]
  refine Eats.bind1 (eats_readIDB _ i _ hwf hbe rfl (by show (idbBody i).length + 12 - 8 = _; omega)
    (by show (idbBody i).length + 12 - 8 < _; omega)) ?_
  intro _ s2 hk2
  simp only [S.keep, Keep.mk.injEq] at hk2
  obtain ⟨k1, k2, k3, k4, k5, k6, k7⟩ := hk2
  simp only [hifs, List.nil_append] at k6
  have hfin := firstIface_first s2 (ifaceOf i) [] k6 (by rw [k5]; exact hff)
  refine Eats.act hfin ⟨(), rfl, ?_⟩
  simp only [S.core, Core.mk.injEq]
  exact ⟨k1, k2, k3, by first | trivial | rfl, by first | trivial | rfl, k6⟩

/-- readSectionHeader on the rest of a written section header block (after the byte order magic), followed — unless
    WantMixedLinkType — by the first interface description block -/
theorem eats_readSectionHeader (s : S) (sect : Section) (i : IfaceSpec) (tr : Bytes) (hbe : s.be = false)
    (hff : s.firstFound = false) (htr : tr.length = 4)
    (hws : sect.app.length < 65536 ∧ sect.comment.length < 65536 ∧ sect.hardware.length < 65536 ∧ sect.os.length < 65536)
    (hlen : s.blkLen = 12 + (encOpts (shbOptList sect)).length + 4) (hlt : s.blkLen < 4294967296)
    (hwf : WfIface i) (hli : (writeIDB i).length < 4294967296) :
    Eats readSectionHeader s
      (putLe16 ngVersionMajor ++ putLe16 ngVersionMinor ++ putLe64 18446744073709551615 ++ encOpts (shbOptList sect) ++ tr
        ++ (if s.cfg.mixed then [] else writeIDB i))
      (fun _ s' => s'.core = if s.cfg.mixed then { s.core with sect := sect, ifaces := [] }
                             else { s.core with sect := sect, linkType := i.linkType, firstFound := true, ifaces := [ifaceOf i] }) := by
  unfold readSectionHeader
  refine Eats.bindD0 (EatsD.modS _ s) ?_
  have hsplit : putLe16 ngVersionMajor ++ putLe16 ngVersionMinor ++ putLe64 18446744073709551615 ++ encOpts (shbOptList sect) ++ tr
        ++ (if s.cfg.mixed then [] else writeIDB i)
      = (putLe16 ngVersionMajor ++ putLe16 ngVersionMinor ++ putLe64 18446744073709551615)
        ++ (encOpts (shbOptList sect) ++ (tr ++ (if s.cfg.mixed then [] else writeIDB i))) := by
    simp only [List.append_assoc]
  -- the version loop: one iteration
  refine Eats.bindD hsplit (a := ()) (s1 := { s with ifaces := [], nSecrets := 0, names := [], blkLen := (encOpts (shbOptList sect)).length + 4, curSec := {} }) ?_ ?_
  · refine Eats.iter (EatsI.done ?_)
    refine Eats.bindD1 (EatsD.rd _ (by rfl)) ?_
    have hv := shbVersion_ok { s with ifaces := [], nSecrets := 0, names := [] } hbe
    refine Eats.bindD0 (EatsD.act hv) ?_
    rw [if_neg (by simp)]
    refine Eats.pure ⟨(), rfl, rfl, ?_⟩
    show ({ s with ifaces := [], nSecrets := 0, names := [], blkLen := sub32 s.blkLen 12, curSec := {} } : S) = _
    rw [sub32_eq (by omega) hlt]
    have : s.blkLen - 12 = (encOpts (shbOptList sect)).length + 4 := by omega
    rw [this]
  · refine Eats.bind rfl (eats_optLoop shbHandle (fun s => s.curSec) shbStep shb_keep (fun _ _ _ _ => rfl) shb_step
      (shbOptList sect) _ sect (shb_valid sect hws) hbe rfl (by show (encOpts (shbOptList sect)).length + 4 < _; omega)
      (shb_fold sect)) ?_
    intro _ s2 ⟨hk2, hb2, hc2⟩
    have hc2 : s2.curSec = sect := hc2
    simp only [S.keep, Keep.mk.injEq] at hk2
    obtain ⟨k1, k2, k3, k4, k5, k6, k7⟩ := hk2
    refine Eats.bind rfl (R := fun _ s3 => s3.keep = s2.keep ∧ s3.curSec = sect) ?_ ?_
    · refine Eats.weaken (eats_discardBlock s2 tr (by rw [hb2]; exact htr)) ?_
      intro _ s3 ⟨_, h3⟩
      subst h3
      exact ⟨rfl, hc2⟩
    · intro _ s3 ⟨hk3, hc3⟩
      simp only [S.keep, Keep.mk.injEq] at hk3
      obtain ⟨j1, j2, j3, j4, j5, j6, j7⟩ := hk3
      refine Eats.bindD0 (EatsD.modS _ s3) ?_
      refine Eats.bindD0 (EatsD.getS _) ?_
      dsimp only
      have hcfg : s3.cfg = s.cfg := j1.trans k1
      rw [hcfg]
      cases hmx : s.cfg.mixed with
      | true =>
        simp only [Bool.not_true, Bool.false_eq_true, if_false, if_true]
        refine Eats.pure ?_
        simp only [S.core, Core.mk.injEq]
        exact ⟨by first | trivial | exact hcfg, j2.trans k2, hc3, j4.trans k4, j5.trans k5, j6.trans k6⟩
      | false =>
        simp only [Bool.not_false, if_true, Bool.false_eq_true, if_false]
        refine Eats.weaken (eats_firstInterface _ i hwf (j2.trans (k2.trans hbe)) (j6.trans k6) (j5.trans (k5.trans hff)) hli) ?_
        intro _ s4 h4
        rw [h4]
        simp only [S.core, Core.mk.injEq]
        exact ⟨by first | trivial | exact hcfg, j2.trans k2, hc3, by first | trivial | rfl, by first | trivial | rfl, by first | trivial | rfl⟩

end Gp.PcapNg
