import Gp.Lemmas.PcapNgHang
import Gp.Lemmas.PcapNgMemL
/-
  Call sequences on the pcapng reader model (C15): NewNgReader followed by any number of
  ReadPacketData / ZeroCopyReadPacketData calls (the caller may keep calling after an error).
  Safety, termination and allocation bounds of every call of every such sequence.
-/
namespace Gp.PcapNg
open Gp.Gen.PcapNg

def Out.isOk {α} : Out α → Bool
  | .ok _ _ _ => true
  | .fail _ _ _ => false

/-- the reader after a call, whatever its outcome -/
def Out.rd {α} (o : Out α) : Rd := ⟨o.s, o.w⟩

/-- the (n+1)-th call when the caller keeps calling, whatever the earlier calls returned -/
def nthCall (r : Rd) : Nat → Out Pkt
  | 0 => readPacket r
  | n + 1 => nthCall (readPacket r).rd n

/-- what one call guarantees: interface invariant kept; a packet has |data| = CaptureLength ≤ Length; an error is no panic -/
def CallOK (o : Out Pkt) : Prop :=
  match o with
  | .ok p s _ => Inv s ∧ PktOK p
  | .fail e s _ => Inv s ∧ e.isPanic = false

theorem readPacket_ok (r : Rd) (hI : Inv r.s) : CallOK (readPacket r) := by
  have h := tr_readPacketP (r.w.inp.length + 1) r.s { r.w with ev := [] } hI trivial
  unfold readPacket CallOK
  cases hr : run (r.w.inp.length + 1) readPacketP r.s { r.w with ev := [] } with
  | ok p s w => rw [hr] at h; exact h
  | fail e s w => rw [hr] at h; exact h

theorem CallOK.inv {o : Out Pkt} (h : CallOK o) : Inv o.rd.s := by
  cases o <;> exact h.1

theorem nthCall_ok : ∀ (n : Nat) (r : Rd), Inv r.s → CallOK (nthCall r n) := by
  intro n
  induction n with
  | zero => intro r hI; exact readPacket_ok r hI
  | succ n ih => intro r hI; exact ih _ (readPacket_ok r hI).inv

theorem inv_init (cfg : Cfg) : Inv { cfg := cfg } := inv_nil rfl

/-- NewNgReader: no panic, and a reader that was returned satisfies the interface invariant -/
def OpenOK (o : Out Unit) : Prop :=
  match o with
  | .ok _ s _ => Inv s
  | .fail e s _ => Inv s ∧ e.isPanic = false

theorem openReader_ok (cfg : Cfg) (inp : Bytes) : OpenOK (openReader cfg inp) := by
  match inp with
  | [] => exact ⟨inv_init cfg, rfl⟩
  | [_] => exact ⟨inv_init cfg, rfl⟩
  | a :: b :: t =>
    simp only [openReader]
    split
    · exact ⟨inv_init cfg, rfl⟩
    · have h := tr_openP ((a :: b :: t).length + 1) { cfg := cfg } { inp := a :: b :: t } (inv_init cfg) trivial
      unfold OpenOK
      cases hr : run ((a :: b :: t).length + 1) openP { cfg := cfg } { inp := a :: b :: t } with
      | ok u s w => rw [hr] at h; exact h.1
      | fail e s w => rw [hr] at h; exact h

/-! ### termination -/

theorem readPacket_nohang (r : Rd) : (readPacket r).isHang = false :=
  NoHang.readPacketP _ _ _ (Nat.lt_succ_self _)

theorem openReader_nohang (cfg : Cfg) (inp : Bytes) : (openReader cfg inp).isHang = false := by
  match inp with
  | [] => rfl
  | [_] => rfl
  | a :: b :: t =>
    simp only [openReader]
    split
    · rfl
    · exact NoHang.openP _ _ _ (Nat.lt_succ_self _)

theorem readPacket_consumes {r : Rd} {p : Pkt} {s : S} {w : Strm} (h : readPacket r = .ok p s w) :
    w.inp.length + 8 ≤ r.w.inp.length :=
  Consumes.readPacketP (r.w.inp.length + 1) r.s { r.w with ev := [] } p s w h

theorem readPacket_len_le (r : Rd) : (readPacket r).w.inp.length ≤ r.w.inp.length := by
  have := (run_reach (r.w.inp.length + 1) readPacketP r.s { r.w with ev := [] }).len_le
  exact this

theorem isHang_fail {α} {e : Err} {s : S} {w : Strm} (h : (Out.fail e s w : Out α).isHang = false) : e ≠ .hang := by
  intro he; subst he; cases h

/-- reading to the first failure: 8 bytes per packet, and the final error is never the fuel artefact -/
theorem readAllF_spec : ∀ (f : Nat) (r : Rd), r.w.inp.length < f →
    (readAllF f r).2.1 ≠ .hang ∧ 8 * (readAllF f r).1.length ≤ r.w.inp.length := by
  intro f
  induction f with
  | zero => intro r h; omega
  | succ f ih =>
    intro r hf
    simp only [readAllF]
    cases hr : readPacket r with
    | ok p s w =>
      have hc := readPacket_consumes hr
      have := ih ⟨s, w⟩ (by simp only; omega)
      simp only
      refine ⟨this.1, ?_⟩
      simp only [List.length_cons]
      have h2 := this.2
      simp only at h2
      omega
    | fail e s w =>
      have hn := readPacket_nohang r
      rw [hr] at hn
      exact ⟨isHang_fail hn, by simp⟩

/-! ### allocation -/

/-- the events of a run started with an empty log are all backed by the stream -/
theorem run_events_ok {α} (f : Nat) (p : Prog α) (s : S) (w : Strm) (hev : w.ev = []) :
    ∀ e ∈ (run f p s w).w.ev, EvOK w.inp.length e := by
  obtain ⟨evs, he, hb⟩ := (run_reach f p s w).events
  rw [he, hev, List.nil_append]
  exact hb

theorem readPacket_events_ok (r : Rd) : ∀ e ∈ (readPacket r).w.ev, EvOK r.w.inp.length e :=
  run_events_ok _ readPacketP r.s { r.w with ev := [] } rfl

theorem openReader_events_ok (cfg : Cfg) (inp : Bytes) : ∀ e ∈ (openReader cfg inp).w.ev, EvOK inp.length e := by
  match inp with
  | [] => intro e he; cases he
  | [_] => intro e he; cases he
  | a :: b :: t =>
    simp only [openReader]
    split
    · intro e he; cases he
    · exact run_events_ok _ openP _ { inp := a :: b :: t } rfl

end Gp.PcapNg
