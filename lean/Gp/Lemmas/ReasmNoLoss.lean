import Gp.Lemmas.ReasmCover
/-
  C09 (offset space): no accepted byte is lost — for histories WITH page limits and flushes.  Every accepted
  byte is, at any time, in front of nextSeq (handed over or announced as skipped) or still queued.
-/
set_option linter.unusedSimpArgs false
set_option linter.unusedVariables false
namespace Gp.Reasm
open Gp

/-- no-loss invariant of an OPEN half connection; `P` = sequence numbers of the payload bytes accepted so far -/
structure NInv (S : List UInt8) (b : Int) (P : Int → Prop) (h : Half) : Prop where
  inv : Inv S b h
  fin : FinAt (b + S.length) h.queue
  cov : ∀ x, b ≤ x → P x → (h.nextSeq ≠ -1 ∧ x < h.nextSeq) ∨ covL h.queue x

theorem handleBytes_nocfg (cfg : Cfg) (h : Half) (used : Int) (seq : Int) (bytes : List UInt8) (ts : Int) (syn fin : Bool) :
    handleBytes I cfg h used false seq bytes ts syn fin = handleBytes I {} h used false seq bytes ts syn fin := by
  simp [handleBytes]

/-- `handleBytes` with any limit setting loses nothing: what was queued or arrives now is queued afterwards or in
    the chunk handed to sendToConnection -/
theorem handleBytes_cover2 (S : List UInt8) (b : Int) (cfg : Cfg)
    (h : Half) (used : Int) (queue : Bool) (seq : Int) (bytes : List UInt8) (ts : Int) (syn fin : Bool)
    (hw : WInv S b h) (hat : At S b seq bytes) (hfinE : fin = true → seq + bytes.length = b + S.length)
    (hstrict : fin = true → Inv S b h) (hfq : FinAt (b + S.length) h.queue)
    (hnq : queue = false → (h.nextSeq ≠ -1 ∧ seq ≤ h.nextSeq))
    (res : Half × Int × List Cont) (hb : handleBytes I cfg h used queue seq bytes ts syn fin = .ok res) :
    FinAt (b + S.length) res.1.queue ∧
    (∀ r0 ∈ res.2.2, r0.fin = true → r0.seq + r0.bytes.length = b + S.length) ∧
    ∀ x, (covL h.queue x ∨ ((queue = false → h.nextSeq ≤ x) ∧ seq ≤ x ∧ x < seq + bytes.length)) →
      covL res.1.queue x ∨ ∃ r0 ∈ res.2.2, r0.seq ≤ x ∧ x < r0.seq + r0.bytes.length := by
  have hatl := hat.len
  cases queue with
  | false =>
    rw [handleBytes_nocfg] at hb
    obtain ⟨c1, _, c3⟩ := handleBytes_cover S b {} (by decide) h used false seq bytes ts syn fin hw hat hfinE hstrict hfq hnq res hb
    refine ⟨c1, (c3 rfl).1, ?_⟩
    intro x hx
    apply (c3 rfl).2 x
    rcases hx with hx | hx
    · exact Or.inl hx
    · exact Or.inr ⟨hx.1 rfl, hx.2⟩
  | true =>
    unfold handleBytes at hb
    simp only [if_true] at hb
    split at hb
    · rename_i h1 used1 bs1 hco
      obtain ⟨c1, c2⟩ := checkOverlap_cover S b h used true seq bytes ts fin (b + S.length) hat (by omega) hfinE
        hw.sorted hw.nonempty hfq (h1, used1, bs1) hco
      simp only at c1 c2
      have c1' : ∀ x, (covL h.queue x ∨ (seq ≤ x ∧ x < seq + bytes.length)) → covL h1.queue x := by
        intro x hx
        rcases c1 x hx with h' | ⟨h', _⟩
        · exact h'
        · cases h'
      split at hb
      · -- the limit is hit: the first queued page is popped
        unfold addNextFromConn at hb
        cases hq1 : h1.queue with
        | nil =>
          simp only [hq1, Res.ok.injEq] at hb
          subst hb
          refine ⟨by simp only; rw [hq1]; intro p hp; simp at hp, by simp, ?_⟩
          intro x hx
          have := c1' x (by rcases hx with hx | hx; exact Or.inl hx; exact Or.inr hx.2)
          rw [hq1] at this
          exact absurd this (covL_nil x)
        | cons p rest =>
          simp only [hq1, List.nil_append, Res.ok.injEq] at hb
          subst hb
          simp only
          rw [hq1] at c2
          refine ⟨c2.tail, ?_, ?_⟩
          · intro r0 hr0 hf
            simp only [List.mem_singleton] at hr0
            subst hr0
            exact c2 p (List.mem_cons_self ..) hf
          · intro x hx
            have := c1' x (by rcases hx with hx | hx; exact Or.inl hx; exact Or.inr hx.2)
            rw [hq1] at this
            rcases covL_cons.mp this with h' | h'
            · exact Or.inr ⟨p.toCont, List.mem_singleton.mpr rfl, h'.1, by simpa [pend, Page.toCont] using h'.2⟩
            · exact Or.inl h'
      · obtain rfl := Res.ok.inj hb
        refine ⟨c2, by simp, ?_⟩
        intro x hx
        exact Or.inl (c1' x (by rcases hx with hx | hx; exact Or.inl hx; exact Or.inr hx.2))
    · cases hb
    · cases hb

/-- handleBytes + the end of AssembleWithContext, any limit setting: if the half connection is still open
    afterwards, nothing was lost -/
theorem tail_noloss (S : List UInt8) (b : Int) (hb : 0 ≤ b) (cfg : Cfg)
    (h1 : Half) (used : Int) (queue : Bool) (sq : Int) (bytes : List UInt8) (ts : Int) (syn fe pfin : Bool)
    (keep : KeepRule) (P : Int → Prop) (o : Out)
    (hopen : h1.closed = false) (hw : WInv S b h1) (hstr : Inv S b h1 ∨ (queue = false ∧ syn = true ∧ fe = false))
    (hat : At S b sq bytes) (hfe : fe = true → sq + bytes.length = b + S.length) (hpfin : pfin = true → fe = true)
    (hfq : FinAt (b + S.length) h1.queue)
    (hq : queue = true → (h1.nextSeq = -1 ∨ h1.nextSeq < sq)) (hnq : queue = false → (h1.nextSeq ≠ -1 ∧ sq ≤ h1.nextSeq))
    (hcov : ∀ x, b ≤ x → P x → (h1.nextSeq ≠ -1 ∧ x < h1.nextSeq) ∨ covL h1.queue x)
    (ha : (match handleBytes I cfg h1 used queue sq bytes ts syn fe with
           | .ok (h, used, ret) => finishAssemble I h used ret ts keep (pfin && !queue)
           | .err k => .err k
           | .panic k => .panic k) = .ok o) (hoo : o.half.closed = false) :
    NInv S b (fun x => P x ∨ (sq ≤ x ∧ x < sq + bytes.length)) o.half := by
  have hatl := hat.len
  have hstrict' : fe = true → Inv S b h1 := fun hf =>
    hstr.resolve_right (fun h' => by rw [hf] at h'; exact Bool.noConfusion h'.2.2)
  split at ha
  · rename_i h2 used2 ret hhb
    obtain ⟨r', hr', hbp⟩ := handleBytes_spec S b hb cfg h1 used queue sq bytes ts syn fe hw hat hq hnq
    rw [hhb] at hr'
    obtain rfl := Res.ok.inj hr'
    obtain ⟨hf2, hr0E, hcn⟩ := handleBytes_cover2 S b cfg h1 used queue sq bytes ts syn fe hw hat hfe hstrict' hfq hnq _ hhb
    simp only at hf2 hr0E hcn
    have hsame := hbp.same
    simp only at hsame
    have hn2 : h2.nextSeq = h1.nextSeq := by rw [hsame]
    have hopen2 : h2.closed = false := by rw [hsame]; exact hopen
    -- what handleBytes says about a covered sequence number
    have fromP : ∀ x, b ≤ x → (P x ∨ (sq ≤ x ∧ x < sq + bytes.length)) →
        (h1.nextSeq ≠ -1 ∧ x < h1.nextSeq) ∨ covL h2.queue x ∨ ∃ r0 ∈ ret, r0.seq ≤ x ∧ x < r0.seq + r0.bytes.length := by
      intro x hx hP
      rcases hP with hP | hdat
      · rcases hcov x hx hP with h' | h'
        · exact Or.inl h'
        · exact Or.inr (hcn x (Or.inl h'))
      · cases hqq : queue with
        | true => exact Or.inr (hcn x (Or.inr ⟨(fun hc => by rw [hqq] at hc; cases hc), hdat⟩))
        | false =>
          by_cases hxn : x < h1.nextSeq
          · exact Or.inl ⟨(hnq hqq).1, hxn⟩
          · exact Or.inr (hcn x (Or.inr ⟨fun _ => by omega, hdat⟩))
    rcases hbp.ret with hr | ⟨r0, hr, pre, hfs⟩
    · -- nothing is sent
      simp only at hr
      subst hr
      simp only [finishAssemble, List.length_nil, Nat.lt_irrefl, if_false, Res.ok.injEq] at ha
      subst ha
      have hI1 : Inv S b h1 := hstr.resolve_right (fun h' => hbp.must h'.1 (Or.inr h'.2.1) rfl)
      refine { inv := hbp.strict hI1, fin := hf2, cov := ?_ }
      intro x hx hP
      simp only
      rw [hn2]
      rcases fromP x hx hP with h' | h' | ⟨r0, hr0, _⟩
      · exact Or.inl h'
      · exact Or.inr h'
      · simp at hr0
    · -- one chunk is sent
      simp only at hr
      subst hr
      have hr0E' : r0.fin = true → r0.seq + r0.bytes.length = b + S.length := hr0E r0 (List.mem_singleton.mpr rfl)
      have hbump : (pfin && !queue) = true → h2.queue = [] ∧ r0.fin = true := by
        intro hp
        simp only [Bool.and_eq_true, Bool.not_eq_true'] at hp
        have hfe' := hpfin hp.1
        exact ⟨hbp.endQ hp.2 (hstrict' hfe') (hfe hfe'), by rw [(hfs hp.2).1]; exact hfe'⟩
      obtain ⟨g, hg, _, _, hgo⟩ := finish_cover S b hb h2 used2 r0 ts keep (pfin && !queue) o hopen2 pre hf2 hr0E' hbump ha
      obtain ⟨hIo, hFo, hnx, hle2, hcvq⟩ := hgo hoo
      have hr0l := pre.hat.len
      have hne' : o.half.nextSeq ≠ -1 := by omega
      -- nextSeq does not move backwards
      have hmono : h1.nextSeq ≠ -1 → h1.nextSeq ≤ o.half.nextSeq := by
        intro hn
        have := pre.ns
        rw [hn2] at this
        rcases this with h' | h'
        · exact absurd h' hn
        · omega
      refine { inv := hIo, fin := hFo, cov := ?_ }
      intro x hx hP
      rcases fromP x hx hP with ⟨h1', h2'⟩ | h' | ⟨r0', hr0', _, hx2⟩
      · exact Or.inl ⟨hne', by have := hmono h1'; omega⟩
      · obtain ⟨p, hp, hp1, hp2⟩ := h'
        rcases hcvq p hp with h'' | h''
        · exact Or.inr ⟨p, h'', hp1, hp2⟩
        · exact Or.inl ⟨hne', by omega⟩
      · simp only [List.mem_singleton] at hr0'
        subst hr0'
        exact Or.inl ⟨hne', by omega⟩
  · cases ha
  · cases ha

/-- one accepted consistent segment, any limits: nothing is lost -/
theorem assemble_noloss (S : List UInt8) (i : Int) (hi : 0 ≤ i) (cfg : Cfg)
    (h : Half) (used : Int) (p : Seg) (keep : KeepRule) (P : Int → Prop)
    (hc : NInv S (i + 1) P h) (hopen : h.closed = false) (hp : SegOK S i p)
    (hrst : p.rst = true → p.syn = false ∧ p.dataSeq + p.bytes.length = i + 1 + S.length)
    (o : Out) (ha : assemble I cfg h used p 1 keep = .ok o) (hoo : o.half.closed = false) :
    NInv S (i + 1) (fun x => P x ∨ (p.dataSeq ≤ x ∧ x < p.dataSeq + p.bytes.length)) o.half := by
  have hb : (0 : Int) ≤ i + 1 := by omega
  unfold assemble at ha
  generalize hh0 : (if h.lastSeen < p.ts then { h with lastSeen := p.ts } else h) = h0 at ha
  have hc0 : h0.closed = h.closed := by rw [← hh0]; split <;> rfl
  have hn0 : h0.nextSeq = h.nextSeq := by rw [← hh0]; split <;> rfl
  have hq0 : h0.queue = h.queue := by rw [← hh0]; split <;> rfl
  have hs0 : h0.saved = h.saved := by rw [← hh0]; split <;> rfl
  simp only at ha
  rw [if_neg (by decide : ¬ ((1 : Nat) = 0))] at ha
  have hopen0 : h0.closed = false := by rw [hc0]; exact hopen
  rw [if_neg (by rw [hopen0]; simp)] at ha
  have hI0 : Inv S (i + 1) h0 := inv_congr hn0 hq0 hs0 hc.inv
  have hF0 : FinAt (i + 1 + S.length) h0.queue := by rw [hq0]; exact hc.fin
  have hat := segok_at hp
  have hdata : p.dataSeq = (if p.syn = true then I.add p.seq 1 else p.seq) := rfl
  rw [hdata] at hrst ⊢
  have hfinE := hp.2.2
  rw [hdata] at hfinE
  generalize hsq : (if p.syn = true then I.add p.seq 1 else p.seq) = sq at ha hat hrst hfinE ⊢
  have hatl := hat.len
  have hsynsq : p.syn = true → sq = i + 1 := by
    intro hs
    rw [← hsq, if_pos hs]; simp only [I_add]; have := (hp.1 hs).1; omega
  have hfe : (p.rst || p.fin) = true → sq + p.bytes.length = i + 1 + S.length := by
    intro hf
    cases hr : p.rst with
    | true => exact (hrst hr).2
    | false => rw [hr] at hf; simp only [Bool.false_or] at hf; exact hfinE hf
  have hfesyn : (p.rst || p.fin) = true → p.syn = false := by
    intro hf
    cases hr : p.rst with
    | true => exact (hrst hr).1
    | false =>
      rw [hr] at hf; simp only [Bool.false_or] at hf
      cases hs : p.syn with
      | false => rfl
      | true => have := (hp.1 hs).2; rw [hf] at this; cases this
  have hpfin : p.fin = true → (p.rst || p.fin) = true := fun hf => by simp [hf]
  have hcov' : ∀ x, i + 1 ≤ x → P x → (h0.nextSeq ≠ -1 ∧ x < h0.nextSeq) ∨ covL h0.queue x := by
    intro x hx hP
    rw [hn0, hq0]; exact hc.cov x hx hP
  rcases decideQueue_spec hI0 p.syn 1 sq (by omega) ⟨hatl.1, by omega⟩ hsynsq with ⟨hd1, hdq, hdn⟩ | ⟨hsyn, hns', hd⟩
  · generalize decideQueue I h0 p.syn 1 sq = d at ha hd1 hdq hdn
    obtain ⟨h1, queue⟩ := d
    simp only at hd1 hdq hdn ha
    subst hd1
    exact tail_noloss S (i + 1) hb cfg h1 used queue sq p.bytes p.ts p.syn (p.rst || p.fin) p.fin keep
      P o hopen0 hI0.weak (Or.inl hI0) hat hfe hpfin hF0 hdq hdn hcov' ha hoo
  · rw [hd] at ha
    simp only at ha
    have hsqv : sq = i + 1 := hsynsq hsyn
    have hfe0 : (p.rst || p.fin) = false := by
      cases hf : (p.rst || p.fin) with
      | false => rfl
      | true => have := hfesyn hf; rw [hsyn] at this; cases this
    have hw1 : WInv S (i + 1) { h0 with nextSeq := sq } := {
      ns := Or.inr (by simp only; omega)
      sorted := hI0.queue.1
      ok := hI0.queue.2.1
      lower := fun _ q hq => by
        have := (hI0.queue.2.1 q hq).1.len
        simp only; omega
      saved := Or.inl (by
        rcases hI0.saved with hsv | ⟨hne, _⟩
        · exact hsv
        · exact absurd hns' hne) }
    exact tail_noloss S (i + 1) hb cfg { h0 with nextSeq := sq } used false sq p.bytes p.ts p.syn
      (p.rst || p.fin) p.fin keep P o hopen0 hw1 (Or.inr ⟨rfl, hsyn, hfe0⟩) hat hfe hpfin hF0
      (fun hc' => by cases hc') (fun _ => ⟨by simp only; omega, Int.le_refl _⟩)
      (fun x hx hP => by
        rcases hcov' x hx hP with h' | h'
        · exact absurd hns' h'.1
        · exact Or.inr h') ha hoo

/-- `skipFlush` (releases the first queued page and what follows it): nothing is lost -/
theorem skipFlush_noloss (S : List UInt8) (b : Int) (hb : 0 ≤ b) (h : Half) (used : Int) (keep : KeepRule)
    (P : Int → Prop) (hc : NInv S b P h) (hopen : h.closed = false) (o : Out)
    (hs : skipFlush I h used keep = .ok o) (hoo : o.half.closed = false) : NInv S b P o.half := by
  unfold skipFlush at hs
  cases hq : h.queue with
  | nil =>
    simp only [hq, Res.ok.injEq] at hs
    subst hs
    simp [closeHalf] at hoo
  | cons p rest =>
    simp only [hq, addNextFromConn, List.nil_append] at hs
    have pre := skipFlush_pre hb hc.inv hq
    obtain ⟨s, hse, post⟩ := sendToConnection_spec S b hb { h with queue := rest } used p.toCont 0 keep pre
    rw [hse] at hs
    have hl := pre.hat.len
    have hne : s.nextSeq ≠ invalidSeq := by rw [post.nextSeq, invalidSeq_eq]; omega
    simp only [hne, ne_eq, not_false_eq_true, if_true] at hs
    obtain rfl := Res.ok.inj hs
    have hcl : s.half.closed = s.closed := by rw [post.closed]; simp only; rw [hopen]; simp
    have hsc : s.closed = false := by rw [← hcl]; exact hoo
    have hstep := send_step (h' := { s.half with nextSeq := s.nextSeq }) hb (h := { h with queue := rest }) hopen pre post rfl
      (fun _ => rfl)
    obtain ⟨hle, hcvq⟩ := post.cover hsc
    simp only [Page.toCont] at hle
    have hne' : s.nextSeq ≠ -1 := by simpa using hne
    have hfin : FinAt (b + S.length) (p :: rest) := hq ▸ hc.fin
    refine { inv := hstep.1.resolve_left (by simp only; rw [hcl, hsc]; simp), fin := ?_, cov := ?_ }
    · intro q hq' hf
      exact hfin q (List.mem_cons_of_mem _ (post.sub q hq')) hf
    · intro x hx hP
      simp only
      -- nextSeq does not move backwards
      have hmono : h.nextSeq ≠ -1 → h.nextSeq ≤ s.nextSeq := by
        intro hn
        rcases pre.ns with h' | h'
        · exact absurd h' hn
        · simp only [Page.toCont] at h'; omega
      rcases hc.cov x hx hP with ⟨h1', h2'⟩ | ⟨q, hqm, hq1, hq2⟩
      · exact Or.inl ⟨hne', by have := hmono h1'; omega⟩
      · rw [hq] at hqm
        rcases List.mem_cons.mp hqm with rfl | hqm
        · exact Or.inl ⟨hne', by simp only [pend] at hq2; omega⟩
        · rcases hcvq q hqm with h' | h'
          · exact Or.inr ⟨q, h', hq1, hq2⟩
          · exact Or.inl ⟨hne', by omega⟩

theorem flushLoop_noloss (S : List UInt8) (b : Int) (hb : 0 ≤ b) (t : Int) (keep : KeepRule) (P : Int → Prop) :
    ∀ (fuel : Nat) (h : Half) (used : Int) (sgs : List SG) (fl : Bool) (o : Out), NInv S b P h → h.closed = false →
      flushLoop I t keep fuel h used sgs fl = .ok o → o.half.closed = false → NInv S b P o.half
  | 0, h, used, sgs, fl, o, hc, _, hf, _ => by
    simp only [flushLoop, Res.ok.injEq] at hf; subst hf; exact hc
  | fuel + 1, h, used, sgs, fl, o, hc, hopen, hf, hoo => by
    simp only [flushLoop] at hf
    split at hf
    · simp only [Res.ok.injEq] at hf; subst hf; exact hc
    · split at hf
      · split at hf
        · rename_i o1 hs
          obtain ⟨a1, _⟩ := skipFlush_acct I h used keep o1 hopen hs
          split at hf
          · rename_i hc1
            simp only [Res.ok.injEq] at hf
            subst hf
            have := (a1.closedT hc1).2
            simp only at hoo
            rw [this] at hoo; cases hoo
          · rename_i hc1
            have hc1' : o1.closed = false := by simpa using hc1
            have hopen1 : o1.half.closed = false := by rw [a1.closedF hc1', hopen]
            exact flushLoop_noloss S b hb t keep P fuel o1.half o1.used _ true o
              (skipFlush_noloss S b hb h used keep P hc hopen o1 hs hopen1) hopen1 hf hoo
        · cases hf
        · cases hf
      · simp only [Res.ok.injEq] at hf; subst hf; exact hc

theorem flushClose_noloss (S : List UInt8) (b : Int) (hb : 0 ≤ b) (h : Half) (used : Int) (t tc ls : Int) (keep : KeepRule)
    (P : Int → Prop) (hc : NInv S b P h) (hopen : h.closed = false) (o : Out)
    (hf : flushClose I h used t tc ls keep = .ok o) (hoo : o.half.closed = false) : NInv S b P o.half := by
  unfold flushClose at hf
  rw [if_neg (by rw [hopen]; simp)] at hf
  split at hf
  · rename_i o1 hl
    split at hf
    · obtain rfl := Res.ok.inj hf
      exact flushLoop_noloss S b hb t keep P _ h used [] false _ hc hopen hl hoo
    · split at hf
      · obtain rfl := Res.ok.inj hf
        simp [closeHalf] at hoo
      · obtain rfl := Res.ok.inj hf
        exact flushLoop_noloss S b hb t keep P _ h used [] false _ hc hopen hl hoo
  · cases hf
  · cases hf

theorem hstep_closed (h : Half) (op : HOp) (o : Out) (hcl : h.closed = true) (hs : hstep I h op = .ok o) :
    o.half.closed = true := by
  cases op with
  | seg p acc keep cfg used =>
    have ac := assemble_acct I cfg h used p acc keep o hs
    rw [ac.closedF (ac.quiet hcl).1]; exact hcl
  | skipFlush keep used =>
    simp only [hstep, hcl, if_true, Res.ok.injEq] at hs
    subst hs; exact hcl
  | flushClose t tc ls keep used =>
    have ac := flushClose_acct I h used t tc ls keep o hs
    rw [ac.closedF (ac.quiet hcl).1]; exact hcl
  | flushAll keep used => exact (flushAllHalf_acct I h used keep o hs).2

theorem hstep_noloss (S : List UInt8) (i : Int) (hi : 0 ≤ i) (h : Half) (op : HOp) (P : Int → Prop)
    (hc : NInv S (i + 1) P h) (hopen : h.closed = false) (hop : op.Fed S i) (o : Out) (hs : hstep I h op = .ok o)
    (hoo : o.half.closed = false) : NInv S (i + 1) (fun x => P x ∨ op.carries x) o.half := by
  have hb : (0 : Int) ≤ i + 1 := by omega
  have weaken : ∀ {h' : Half}, NInv S (i + 1) P h' → NInv S (i + 1) (fun x => P x ∨ False) h' := fun hn =>
    { inv := hn.inv, fin := hn.fin, cov := fun x hx hP => hn.cov x hx (hP.resolve_right (fun f => f)) }
  cases op with
  | seg p acc keep cfg used =>
    obtain ⟨hseg, hacc, hrst⟩ := hop
    subst hacc
    exact assemble_noloss S i hi cfg h used p keep P hc hopen hseg hrst o hs hoo
  | skipFlush keep used =>
    simp only [hstep, hopen, Bool.false_eq_true, if_false] at hs
    exact weaken (skipFlush_noloss S (i + 1) hb h used keep P hc hopen o hs hoo)
  | flushClose t tc ls keep used =>
    exact weaken (flushClose_noloss S (i + 1) hb h used t tc ls keep P hc hopen o hs hoo)
  | flushAll keep used =>
    have := (flushAllHalf_acct I h used keep o hs).2
    rw [hoo] at this; cases this

/-- every history: no accepted byte is lost while the half connection is open -/
theorem hrun_noloss (S : List UInt8) (i : Int) (hi : 0 ≤ i) :
    ∀ (ops : List HOp) (h : Half) (P : Int → Prop), NInv S (i + 1) P h → h.closed = false →
      (∀ op ∈ ops, op.Fed S i) → ∀ (h' : Half) (sgs : List SG), hrun I h ops = .ok (h', sgs) → h'.closed = false →
        NInv S (i + 1) (fun x => P x ∨ ∃ op ∈ ops, op.carries x) h'
  | [], h, P, hc, _, _, h', sgs, hr, _ => by
    simp only [hrun, Res.ok.injEq, Prod.mk.injEq] at hr
    obtain ⟨rfl, _⟩ := hr
    exact { inv := hc.inv, fin := hc.fin, cov := fun x hx hP => hc.cov x hx (by
      rcases hP with hP | ⟨op, hop, _⟩
      · exact hP
      · simp at hop) }
  | op :: rest, h, P, hc, hopen, hfed, h', sgs, hr, hoo => by
    simp only [hrun] at hr
    split at hr
    · rename_i o ho
      split at hr
      · rename_i h2 sgs2 hr2
        simp only [Res.ok.injEq, Prod.mk.injEq] at hr
        obtain ⟨rfl, _⟩ := hr
        -- the half connection is open all the way
        have closedStays : ∀ (ops : List HOp) (h : Half) (h' : Half) (sgs : List SG), h.closed = true →
            hrun I h ops = .ok (h', sgs) → h'.closed = true := by
          intro ops
          induction ops with
          | nil =>
            intro h h' sgs hcl hr
            simp only [hrun, Res.ok.injEq, Prod.mk.injEq] at hr
            obtain ⟨rfl, _⟩ := hr; exact hcl
          | cons op' rest' ih =>
            intro h h' sgs hcl hr
            simp only [hrun] at hr
            split at hr
            · rename_i o' ho'
              split at hr
              · rename_i h2' sgs2' hr2'
                simp only [Res.ok.injEq, Prod.mk.injEq] at hr
                obtain ⟨rfl, _⟩ := hr
                exact ih _ _ _ (hstep_closed h op' o' hcl ho') hr2'
              · cases hr
              · cases hr
            · cases hr
            · cases hr
        have hopen1 : o.half.closed = false := by
          cases hc1 : o.half.closed with
          | false => rfl
          | true => have := closedStays rest o.half h2 sgs2 hc1 hr2; rw [hoo] at this; cases this
        have s1 := hstep_noloss S i hi h op P hc hopen (hfed op (List.mem_cons_self ..)) o ho hopen1
        have r1 := hrun_noloss S i hi rest o.half _ s1 hopen1 (fun op' hm => hfed op' (List.mem_cons_of_mem _ hm)) h2 sgs2 hr2 hoo
        exact { inv := r1.inv, fin := r1.fin, cov := fun x hx hP => r1.cov x hx (by
          rcases hP with hP | ⟨op', hop', hcar⟩
          · exact Or.inl (Or.inl hP)
          · rcases List.mem_cons.mp hop' with rfl | hop'
            · exact Or.inl (Or.inr hcar)
            · exact Or.inr ⟨op', hop', hcar⟩) }
      · cases hr
      · cases hr
    · cases hr
    · cases hr

end Gp.Reasm
