import Gp.Lemmas.ReaderMeasure
/-
  C20 helper lemmas, part 6: how far the assembler has got, relative to the delivery history
  `bs0` it started with (needed to show that its final status does not depend on the schedule).
-/
namespace Gp.Reader

/-- Undelivered batches only shrink; a batch is outstanding only after a delivery; before the
    consumer's first receive (and without Close) nothing has been delivered. -/
def Inv2 (bs0 : List Batch) (s : State) : Prop :=
  s.aprog.length ≤ bs0.length ∧
  (s.apc = .waitDone → s.aprog.length < bs0.length) ∧
  (s.first = true → s.closed = false → s.aprog = bs0)

theorem readLoop_first (s : State) (n : Nat) (l : Bool) (h : (readLoop s n l).first = true) :
    s.first = true := by
  unfold readLoop finishRead at h
  split at h
  · split at h
    · cases h
    · exact h
  · exact h

theorem readLoop_closed_eq (s : State) (n : Nat) (l : Bool) : (readLoop s n l).closed = s.closed := by
  unfold readLoop finishRead
  split
  · split <;> rfl
  · rfl

theorem inv2_init (le : Bool) (bs : List Batch) (p : List COp) : Inv2 bs (init le bs p) := by
  refine ⟨Nat.le_refl _, ?_, fun _ _ => rfl⟩
  intro h
  exact absurd h (asmNext_ne_waitDone bs)

theorem inv2_step {bs0 : List Batch} {s s' : State} (hi : Inv s) (h2 : Inv2 bs0 s) (hs : Step s s') :
    Inv2 bs0 s' := by
  have hi' := inv_step hi hs
  obtain ⟨hini, hA, hC⟩ := hi
  obtain ⟨g1, g2, g3⟩ := h2
  cases hs with
  | asmPanicSend hp hb hc => exact hi'.2.1.elim
  | asmDoneClosed hp hc =>
    exact ⟨g1, fun h => absurd h (asmNext_ne_waitDone _), g3⟩
  | closeR hp hc => exact ⟨g1, fun h => (by cases h), g3⟩
  | closeRPanic hp hc => exact hi'.2.1.elim
  | closeD hp hc => exact ⟨g1, fun h => (by cases h), g3⟩
  | closeDPanic hp hc => exact hi'.2.1.elim
  | @start op rest hp hc =>
    cases op with
    | rd n l =>
      rw [startOp_rd s n l rest hini]
      refine ⟨by rw [readLoop_aprog]; exact g1, ?_, ?_⟩
      · rw [readLoop_apc, readLoop_aprog]; exact g2
      · intro hf hcl
        rw [readLoop_aprog]
        rw [readLoop_closed_eq] at hcl
        have hf' := readLoop_first _ n l hf
        exact g3 hf' hcl
    | close =>
      unfold startOp
      simp only
      split
      · exact ⟨g1, g2, g3⟩
      · exact ⟨g1, g2, fun _ h => (by cases h)⟩
  | @rdRecvClosed n l hp hc =>
    refine ⟨by rw [readLoop_aprog]; exact g1, ?_, ?_⟩
    · rw [readLoop_apc, readLoop_aprog]; exact g2
    · intro _ hcl
      rw [readLoop_closed_eq] at hcl
      cases hcl
  | clRecvClosed hp hc => exact ⟨g1, g2, g3⟩
  | sendPanic hp hc => exact hi'.2.2.elim
  | @deliverRd b bs n l hp hb hi2 hr hcp =>
    unfold InvC at hC; rw [hcp] at hC
    rw [hb] at g1
    simp only [List.length_cons] at g1
    refine ⟨by rw [readLoop_aprog]; show bs.length ≤ _; omega, ?_, ?_⟩
    · intro _
      rw [readLoop_aprog]
      show bs.length < _
      omega
    · intro hf _
      have := readLoop_first _ n l hf
      have hf' : s.first = true := this
      rw [hC.2.1] at hf'; cases hf'
  | @deliverCl b bs hp hb hi2 hr hcp =>
    unfold InvC at hC; rw [hcp] at hC
    rw [hb] at g1
    simp only [List.length_cons] at g1
    refine ⟨by show bs.length ≤ _; omega, fun _ => (by show bs.length < _; omega), ?_⟩
    intro _ hcl
    have hcl' : s.closed = false := hcl
    rw [hC.1] at hcl'; cases hcl'
  | @ackRd n l hp hc hcp =>
    exact ⟨g1, fun h => absurd h (asmNext_ne_waitDone _), g3⟩
  | ackClAck hp hc hcp =>
    exact ⟨g1, fun h => absurd h (asmNext_ne_waitDone _), fun _ h => (by cases h)⟩
  | ackClSend hp hc hcp =>
    exact ⟨g1, fun h => absurd h (asmNext_ne_waitDone _), g3⟩

theorem inv2_reachable {bs0 : List Batch} {s0 s : State} (h0 : Inv s0) (h2 : Inv2 bs0 s0)
    (hr : Reachable s0 s) : Inv2 bs0 s := by
  induction hr with
  | refl => exact h2
  | step t hr' hs ih => exact inv2_step (inv_reachable h0 hr') ih (step_Step hs)

/-- At the end of a maximal execution the assembler has returned iff the reader is closed or
    there was nothing to deliver. -/
theorem stuck_asm_status {bs0 : List Batch} {s : State} (hi : Inv s) (h2 : Inv2 bs0 s)
    (hst : Stuck s) : s.apc = .fin ↔ (s.closed = true ∨ bs0 = []) := by
  obtain ⟨h1, _, h3⟩ := stuck_end hi hst
  obtain ⟨_, hA, hC⟩ := hi
  obtain ⟨g1, g2, g3⟩ := h2
  unfold InvC at hC; rw [h1] at hC
  simp only at hC
  constructor
  · intro hfin
    cases hc : s.closed with
    | true => exact Or.inl rfl
    | false =>
      right
      cases hf : s.first with
      | false => have := hC.2.2 hc hf; rw [hfin] at this; cases this
      | true =>
        have hap := g3 hf hc
        unfold InvA at hA; rw [hfin] at hA
        rw [← hap]; exact hA.1
  · intro h
    cases h3 with
    | inl hfin => exact hfin
    | inr hb =>
      cases h with
      | inl hc => rw [hb.1] at hc; cases hc
      | inr hbs =>
        exfalso
        rw [hbs] at g1 g2
        simp only [List.length_nil, Nat.le_zero_eq, List.length_eq_zero_iff] at g1
        cases hb.2 with
        | inl hsend =>
          unfold InvA at hA; rw [hsend] at hA
          exact hA.1 g1
        | inr hw =>
          have := g2 hw
          simp at this

end Gp.Reader
