import Gp.Lemmas.ReasmWrap
/-
  Consequences of `Rep` (what a stream may observe), in the words of property C09.
-/
namespace Gp.Reasm
open Gp

theorem Rep.replay {S : List UInt8} : ∀ {sgs : List SG} {pos k : Nat} {a : Pos}, Rep S (.at pos k) sgs a →
    Replay S pos sgs
  | [], _, _, _, _ => trivial
  | g :: rest, pos, k, a, h => by
    cases h with
    | sg he hr =>
      obtain ⟨h1, h2, _, _, h5, h6, _, _⟩ := he
      subst h6
      exact ⟨h5, h1, h2, Rep.replay hr⟩
    | last he _ =>
      obtain ⟨h1, h2, _, _, h5, h6, _, _⟩ := he
      subst h6
      exact ⟨h5, h1, h2, trivial⟩

theorem Replay.skip_nonneg {S : List UInt8} : ∀ {sgs : List SG} {pos : Nat}, Replay S pos sgs → ∀ g ∈ sgs, 0 ≤ g.skip
  | [], _, _, g, hg => by simp at hg
  | g0 :: rest, pos, h, g, hg => by
    rcases List.mem_cons.mp hg with rfl | hg
    · exact h.1
    · exact Replay.skip_nonneg h.2.2.2 g hg

/-- from an unknown position: the first ScatterGather either says so (skip = -1) or is the very start of the
    stream (skip = 0, offset 0); everything after it is positioned -/
theorem Rep.unknown_first {S : List UInt8} {g : SG} {rest : List SG} {a : Pos} (h : Rep S .unknown (g :: rest) a) :
    (g.skip = -1 ∨ g.skip = 0) ∧ (g.skip = 0 → Replay S 0 (g :: rest)) ∧ (∀ g' ∈ rest, 0 ≤ g'.skip) ∧ g.saved = [] := by
  cases h with
  | sg he hr =>
    obtain ⟨h1, h2, _, _, hs, h6⟩ := he
    have hrp := hr.replay
    refine ⟨?_, ?_, hrp.skip_nonneg, hs⟩
    · rcases h6 with h6 | h6
      · exact Or.inl h6
      · exact Or.inr h6.1
    · intro h0
      rcases h6 with h6 | ⟨_, hp⟩
      · omega
      · subst hp
        refine ⟨by omega, ?_, ?_, ?_⟩
        · rw [h0]; simpa using h1
        · rw [h0]; simpa using h2
        · rw [h0]; simpa using hrp
  | last he _ =>
    obtain ⟨h1, h2, _, _, hs, h6⟩ := he
    refine ⟨?_, ?_, by simp, hs⟩
    · rcases h6 with h6 | h6
      · exact Or.inl h6
      · exact Or.inr h6.1
    · intro h0
      rcases h6 with h6 | ⟨_, hp⟩
      · omega
      · subst hp
        refine ⟨by omega, ?_, ?_, trivial⟩
        · rw [h0]; simpa using h1
        · rw [h0]; simpa using h2

/-- without announced gaps the delivered bytes are a contiguous piece of the sender's stream -/
theorem Replay.noskip {S : List UInt8} : ∀ {sgs : List SG} {pos : Nat}, Replay S pos sgs → (∀ g ∈ sgs, g.skip = 0) →
    newBytes sgs = slice S pos (newBytes sgs).length
  | [], pos, _, _ => by simp [newBytes, slice_zero]
  | g :: rest, pos, h, h0 => by
    obtain ⟨_, h2, h3, h4⟩ := h
    have hg0 : g.skip = 0 := h0 g (List.mem_cons_self ..)
    rw [hg0] at h2 h3 h4
    simp only [Int.toNat_zero, Nat.add_zero] at h2 h3 h4
    have ih1 := Replay.noskip h4 (fun g' hg' => h0 g' (List.mem_cons_of_mem _ hg'))
    simp only [newBytes, List.map_cons, List.flatten_cons, List.length_append] at ih1 ⊢
    rw [← slice_append]
    conv => lhs; rw [h2, ih1]

/-- the saved bytes of every ScatterGather are the bytes of the sender's stream directly in front of its new bytes -/
theorem Rep.saved_in_front {S : List UInt8} {a a' : Pos} {sgs : List SG} (h : Rep S a sgs a') :
    ∀ g ∈ sgs, ∃ p : Nat, g.new = slice S p g.new.length ∧ g.saved.length ≤ p ∧
      g.saved = slice S (p - g.saved.length) g.saved.length := by
  induction h with
  | nil => intro g hg; simp at hg
  | shut => intro g hg; simp at hg
  | sg he _ ih =>
    intro g hg
    rcases List.mem_cons.mp hg with rfl | hg
    · exact ⟨_, he.1, he.2.2.1, he.2.2.2.1⟩
    · exact ih g hg
  | last he _ =>
    intro g hg
    rcases List.mem_singleton.mp hg with rfl
    exact ⟨_, he.1, he.2.2.1, he.2.2.2.1⟩

theorem half_wrap_init : Half.wrap {} = {} := by simp [Half.wrap, wns]

end Gp.Reasm
