import Gp.Model.Snoop
import Gp.Lemmas.Pcap
/-
  Helper lemmas for Gp/Props/C15/Snoop.lean (snoop reader, fixed code).
-/
namespace Gp.Snoop
open Gp.Gen.Pcap Gp.Pcap

theorem skip_none {s s' : Stream} {n : Nat} (h : skip s n = (none, s')) :
    s'.data = s.data.drop n ∧ n ≤ s.data.length ∧ s'.fail = s.fail := by
  unfold skip at h
  split at h
  · cases h; exact ⟨rfl, by assumption, rfl⟩
  · cases h

theorem skip_some {s s' : Stream} {n : Nat} {k : Stop} (h : skip s n = (some k, s')) :
    s'.data = [] ∧ s'.fail = s.fail ∧ k = (if s.fail then .ioerr else .ueof) := by
  unfold skip at h
  split at h
  · cases h
  · cases h; exact ⟨rfl, rfl, rfl⟩

theorem bufFor_ok (zc : Bool) (r : Reader) (caplen : Nat) : ¬ (zc = true ∧ (bufFor zc r caplen).1 < caplen) := by
  unfold bufFor
  intro ⟨hz, h⟩
  subst hz
  simp only [if_true] at h
  split at h <;> (dsimp only at h; omega)

theorem bufFor_alloc (zc : Bool) (r : Reader) (caplen : Nat) : ∀ a ∈ (bufFor zc r caplen).2, a = caplen := by
  unfold bufFor
  intro a ha
  split at ha
  · split at ha
    · simpa using ha
    · simp at ha
  · simpa using ha

/-- What "safe" means for one snoop read call started in state `r` (C15). -/
structure StepSafe (r : Reader) (st : Step) : Prop where
  noPanic : ∀ k, st.out ≠ .panic k
  pktOk   : ∀ p, st.out = .pkt p →
              p.data.length = p.caplen ∧ p.caplen ≤ p.len ∧ p.caplen ≤ maxCaptureLen ∧
              p.data = (r.s.data.drop 24).take p.caplen ∧
              st.r.s.data.length + 24 + p.caplen ≤ r.s.data.length
  allocOk : ∀ a ∈ st.alloc, a ≤ maxCaptureLen ∨ a = 8192
  mono    : st.r.s.data.length ≤ r.s.data.length
  frame   : st.r.linkType = r.linkType ∧ st.r.s.fail = r.s.fail

theorem readData_safe (zc : Bool) (r : Reader) (sec frac caplen len pad : Nat) (hc : caplen ≤ maxCaptureLen)
    (st : Step) (hst : st = readData zc r sec frac caplen len pad) :
    (∀ k, st.out ≠ .panic k) ∧
    (∀ p, st.out = .pkt p → p.data.length = p.caplen ∧ p.caplen = caplen ∧ p.len = len ∧
        p.data = r.s.data.take caplen ∧ st.r.s.data.length + caplen ≤ r.s.data.length) ∧
    (∀ a ∈ st.alloc, a ≤ maxCaptureLen ∨ a = 8192) ∧ st.r.s.data.length ≤ r.s.data.length ∧
    (st.r.linkType = r.linkType ∧ st.r.s.fail = r.s.fail) := by
  have ha := bufFor_alloc zc r caplen
  have ha' : ∀ a ∈ (bufFor zc r caplen).2, a ≤ maxCaptureLen ∨ a = 8192 := by
    intro a h; left; rw [ha a h]; exact hc
  have ha'' : ∀ a ∈ (if pad = 0 then (bufFor zc r caplen).2 else (bufFor zc r caplen).2 ++ [8192]),
      a ≤ maxCaptureLen ∨ a = 8192 := by
    intro a h
    split at h
    · exact ha' a h
    · rcases List.mem_append.1 h with h | h
      · exact ha' a h
      · right; simpa using h
  subst hst
  unfold readData
  simp only
  rw [if_neg (bufFor_ok zc r caplen)]
  cases hrf : readFull r.s caplen with
  | stop k s' =>
    have := readFull_stop hrf
    simp only
    exact ⟨(by intro k hk; cases hk), (by intro p hp; cases hp), ha', (by simp [this.1]), trivial, this.2⟩
  | got d s' =>
    have h1 := readFull_got hrf
    have h2 := readFull_data hrf
    simp only
    cases hsk : skip s' pad with
    | mk o s3 =>
      cases o with
      | some k =>
        have h3 := skip_some hsk
        simp only
        exact ⟨(by intro k hk; cases hk), (by intro p hp; cases hp), ha'', (by simp [h3.1]), trivial, (by rw [h3.2.1, h1.2.2])⟩
      | none =>
        have h3 := skip_none hsk
        simp only
        refine ⟨(by intro k hk; cases hk), ?_, ha'', ?_, trivial, (by rw [h3.2.2, h1.2.2])⟩
        · intro p hp
          cases hp
          refine ⟨h1.2.1, rfl, rfl, h2.1, ?_⟩
          simp only [h3.1, List.length_drop]; omega
        · simp only [h3.1, List.length_drop]; omega

theorem read_safe (zc : Bool) (r : Reader) : StepSafe r (read zc r) := by
  unfold read
  split
  · rename_i k s' hrf
    have := readFull_stop hrf
    constructor <;> simp [this.1, this.2]
  · rename_i o0 o1 o2 o3 i0 i1 i2 i3 r0 r1 r2 r3 _ _ _ _ t0 t1 t2 t3 u0 u1 u2 u3 s' hrf
    have h1 := readFull_got hrf
    have h2 := readFull_data hrf
    simp only
    split
    · constructor <;> simp [h1.2.2] <;> omega
    · split
      · constructor <;> simp [h1.2.2] <;> omega
      · split
        · constructor <;> simp [h1.2.2] <;> omega
        · rename_i hl hc hp
          have hs := readData_safe zc { r with s := s' } (be32 t0 t1 t2 t3) (be32 u0 u1 u2 u3 * 1000 % 4294967296)
            (be32 i0 i1 i2 i3) (be32 o0 o1 o2 o3)
            ((be32 r0 r1 r2 r3 : Int) - (24 + (be32 i0 i1 i2 i3 : Int))).toNat (by simpa using hc) _ rfl
          obtain ⟨s1, s2, s3, s4, s5⟩ := hs
          constructor
          · exact s1
          · intro p hp
            obtain ⟨q1, q2, q3, q4, q5⟩ := s2 p hp
            simp only at q4 q5
            refine ⟨q1, (by rw [q2, q3]; simpa using hl), (by rw [q2]; simpa using hc), (by rw [q4, q2, h2.2]), (by omega)⟩
          · exact s3
          · simp only at s4; omega
          · simp only at s5; simp [s5, h1.2.2]
  · rename_i b s' hne hrf
    have h1 := readFull_got hrf
    obtain ⟨a0, a1, a2, a3, a4, a5, a6, a7, a8, a9, a10, a11, a12, a13, a14, a15, a16, a17, a18, a19, a20, a21, a22, a23, hb⟩ :=
      len24 b h1.2.1
    exact (hne _ _ _ _ _ _ _ _ _ _ _ _ _ _ _ _ _ _ _ _ _ _ _ _ hb).elim

/-- NewSnoopReader never panics; on success the reader is positioned 16 bytes into the stream. -/
theorem openReader_safe (s : Stream) :
    (∀ k, openReader s ≠ .fail (.panic k)) ∧
    (∀ r al, openReader s = .ok r al →
      al = [16] ∧ r.bufCap = 0 ∧ r.linkType ≤ 10 ∧ r.s.data = s.data.drop 16 ∧ 16 ≤ s.data.length ∧ r.s.fail = s.fail) := by
  unfold openReader
  split
  · exact ⟨(by intro k h; cases h), (by intro r al h; cases h)⟩
  · rename_i m0 m1 m2 m3 m4 m5 m6 m7 v0 v1 v2 v3 l0 l1 l2 l3 s' hrf
    have h1 := readFull_got hrf
    have h2 := readFull_data hrf
    constructor
    · intro k
      repeat' split
      all_goals (intro h; cases h)
    · intro r al
      repeat' split
      all_goals intro h
      all_goals cases h
      all_goals exact ⟨rfl, rfl, (by dsimp only; omega), h2.2, (by omega), h1.2.2⟩
  · rename_i b s' hne hrf
    have h1 := readFull_got hrf
    obtain ⟨a0, a1, a2, a3, a4, a5, a6, a7, a8, a9, a10, a11, a12, a13, a14, a15, hb⟩ := len16 b h1.2.1
    exact (hne _ _ _ _ _ _ _ _ _ _ _ _ _ _ _ _ hb).elim

/-! ## readAll -/

theorem readAll_pkt (zc : Bool) (r : Reader) (p : Pkt) (h : (read zc r).out = .pkt p) :
    readAll zc r = (p :: (readAll zc (read zc r).r).1, (readAll zc (read zc r).r).2) := by
  rw [readAll]
  split
  · rename_i q hq
    rw [h] at hq
    cases hq
    rfl
  · rename_i hq
    exact absurd h (hq p)

theorem readAll_stop (zc : Bool) (r : Reader) (h : ∀ p, (read zc r).out ≠ .pkt p) :
    readAll zc r = ([], (read zc r).out) := by
  rw [readAll]
  split
  · rename_i q hq
    exact absurd hq (h q)
  · rfl

theorem read_empty (zc : Bool) (r : Reader) (h : r.s.data = []) :
    (read zc r).out = .stop (if r.s.fail then .ioerr else .eof) := by
  unfold read
  rw [readFull_short _ _ (by simp [h])]
  simp [h]

theorem readAll_count (zc : Bool) : ∀ (n : Nat) (r : Reader), r.s.data.length ≤ n →
    24 * (readAll zc r).1.length ≤ r.s.data.length := by
  intro n
  induction n with
  | zero =>
    intro r hn
    have e : r.s.data = [] := List.eq_nil_of_length_eq_zero (by omega)
    have o := read_empty zc r e
    rw [readAll_stop _ _ (by rw [o]; intro p hp; cases hp)]
    simp
  | succ n ih =>
    intro r hn
    cases hout : (read zc r).out with
    | pkt p =>
      have hs := (read_safe zc r).pktOk p hout
      rw [readAll_pkt zc r p hout]
      have := ih (read zc r).r (by omega)
      simp only [List.length_cons]
      omega
    | stop k => rw [readAll_stop zc r (by rw [hout]; intro p hp; cases hp)]; simp
    | err => rw [readAll_stop zc r (by rw [hout]; intro p hp; cases hp)]; simp
    | panic k => rw [readAll_stop zc r (by rw [hout]; intro p hp; cases hp)]; simp

theorem read_fail_kind (zc : Bool) (r : Reader) (hf : r.s.fail = true) (k : Stop) (h : (read zc r).out = .stop k) :
    k = .ioerr := by
  revert h
  unfold read
  split
  · rename_i k' s' hrf
    have := readFull_stop_kind hrf
    intro h; cases h
    simpa [hf] using this
  · rename_i s' hrf
    have h1 := readFull_got hrf
    simp only
    split
    · intro h; cases h
    · split
      · intro h; cases h
      · split
        · intro h; cases h
        · unfold readData
          simp only
          split
          · intro h; cases h
          · split
            · rename_i k' s'' hrf2
              have := readFull_stop_kind hrf2
              intro h; cases h
              simpa [h1.2.2, hf] using this
            · rename_i d s'' hrf2
              have h4 := readFull_got hrf2
              split
              · rename_i k' s3 hsk
                have := skip_some hsk
                intro h; cases h
                simpa [h4.2.2, h1.2.2, hf] using this.2.2
              · intro h; cases h
  · intro h; cases h

theorem readAll_fail (zc : Bool) : ∀ (n : Nat) (r : Reader), r.s.data.length ≤ n → r.s.fail = true →
    (readAll zc r).2 = .stop .ioerr ∨ (readAll zc r).2 = .err := by
  intro n
  induction n with
  | zero =>
    intro r hn hf
    have e : r.s.data = [] := List.eq_nil_of_length_eq_zero (by omega)
    have o := read_empty zc r e
    rw [readAll_stop _ _ (by rw [o]; intro p hp; cases hp), o]
    simp [hf]
  | succ n ih =>
    intro r hn hf
    have hs := read_safe zc r
    cases hout : (read zc r).out with
    | pkt p =>
      have hp := hs.pktOk p hout
      rw [readAll_pkt zc r p hout]
      exact ih (read zc r).r (by omega) (by rw [hs.frame.2, hf])
    | stop k =>
      rw [readAll_stop zc r (by rw [hout]; intro p hp; cases hp), hout, read_fail_kind zc r hf k hout]
      exact Or.inl rfl
    | err => rw [readAll_stop zc r (by rw [hout]; intro p hp; cases hp), hout]; exact Or.inr rfl
    | panic k => exact absurd hout (hs.noPanic k)

/-- Every call of an arbitrary sequence of copying / zero-copy calls, with its start state. -/
def steps (r : Reader) : List Bool → List (Reader × Step)
  | [] => []
  | zc :: ms => (r, read zc r) :: steps (read zc r).r ms

theorem steps_safe (ms : List Bool) : ∀ (r : Reader), ∀ x ∈ steps r ms,
    StepSafe x.1 x.2 ∧ x.1.s.data.length ≤ r.s.data.length ∧ x.1.s.fail = r.s.fail := by
  induction ms with
  | nil => intro r x hx; simp [steps] at hx
  | cons zc ms ih =>
    intro r x hx
    simp only [steps, List.mem_cons] at hx
    rcases hx with rfl | hx
    · exact ⟨read_safe zc r, Nat.le_refl _, rfl⟩
    · have hs := read_safe zc r
      obtain ⟨a, b, c⟩ := ih _ x hx
      exact ⟨a, Nat.le_trans b hs.mono, by rw [c, hs.frame.2]⟩

/-! ## a well-formed RFC 1761 record is read back -/

/-- A packet record as RFC 1761 lays it out (there is no snoop writer in the repository; this is
    the specification of the format): original length, included length, record length =
    24 + included length + pad, cumulative drops, seconds, microseconds, data, pad. -/
structure Rec where
  orig  : Nat
  drops : Nat
  sec   : Nat
  usec  : Nat
  data  : Bytes
  pad   : Bytes
  deriving Repr, DecidableEq

def WfRec (rc : Rec) : Prop :=
  rc.data.length ≤ rc.orig ∧ rc.orig < 4294967296 ∧ rc.data.length ≤ maxCaptureLen ∧
  24 + rc.data.length + rc.pad.length < 4294967296 ∧ rc.drops < 4294967296 ∧ rc.sec < 4294967296 ∧
  rc.usec < 1000000

instance (rc : Rec) : Decidable (WfRec rc) := by unfold WfRec; infer_instance

def encRec (rc : Rec) : Bytes :=
  putBe32 rc.orig ++ putBe32 rc.data.length ++ putBe32 (24 + rc.data.length + rc.pad.length) ++
  putBe32 rc.drops ++ putBe32 rc.sec ++ putBe32 rc.usec ++ rc.data ++ rc.pad

theorem be32_put (n : Nat) (h : n < 4294967296) :
    be32 (u8 (n / 16777216)) (u8 (n / 65536)) (u8 (n / 256)) (u8 n) = n := by
  simp only [be32, Gp.Pcap.u8_toNat]
  omega

/-- Reading a well-formed record (truncated captures included: `data.length < orig`) returns its
    packet, skips the pad and leaves the stream at the next record. -/
theorem read_encRec (zc : Bool) (lt cap : Nat) (rc : Rec) (rest : Bytes) (f : Bool) (h : WfRec rc) :
    let r : Reader := { s := { data := encRec rc ++ rest, fail := f }, linkType := lt, bufCap := cap }
    (read zc r).out = .pkt { sec := rc.sec, nsec := rc.usec * 1000, caplen := rc.data.length, len := rc.orig, data := rc.data } ∧
    (read zc r).r.s = { data := rest, fail := f } ∧ (read zc r).r.linkType = lt := by
  obtain ⟨h1, h2, h3, h4, h5, h6, h7⟩ := h
  intro r
  have e_orig := be32_put rc.orig h2
  have e_incl := be32_put rc.data.length (by omega)
  have e_rl := be32_put (24 + rc.data.length + rc.pad.length) h4
  have e_sec := be32_put rc.sec h6
  have e_usec := be32_put rc.usec (by omega)
  have hrd : readFull r.s 24 =
      .got (putBe32 rc.orig ++ putBe32 rc.data.length ++ putBe32 (24 + rc.data.length + rc.pad.length) ++
        putBe32 rc.drops ++ putBe32 rc.sec ++ putBe32 rc.usec) { data := rc.data ++ (rc.pad ++ rest), fail := f } := by
    have := readFull_append (putBe32 rc.orig ++ putBe32 rc.data.length ++ putBe32 (24 + rc.data.length + rc.pad.length) ++
        putBe32 rc.drops ++ putBe32 rc.sec ++ putBe32 rc.usec) (rc.data ++ (rc.pad ++ rest)) f 24
      (by simp [putBe32]) (by decide)
    simpa [r, encRec, List.append_assoc] using this
  have hdata : readFull { data := rc.data ++ (rc.pad ++ rest), fail := f } rc.data.length =
      .got rc.data { data := rc.pad ++ rest, fail := f } := by
    by_cases h0 : rc.data.length = 0
    · have : rc.data = [] := List.eq_nil_of_length_eq_zero h0
      simp [readFull, this]
    · exact readFull_append rc.data (rc.pad ++ rest) f rc.data.length rfl h0
  have hskip : skip { data := rc.pad ++ rest, fail := f } rc.pad.length = (none, { data := rest, fail := f }) := by
    unfold skip
    rw [if_pos (by simp)]
    simp
  have hnp := bufFor_ok zc { r with s := { data := rc.data ++ (rc.pad ++ rest), fail := f } } rc.data.length
  have hpad : ((24 + rc.data.length + rc.pad.length : Nat) : Int) - (24 + (rc.data.length : Int)) = (rc.pad.length : Int) := by
    omega
  have hfrac : rc.usec * 1000 % 4294967296 = rc.usec * 1000 := Nat.mod_eq_of_lt (by omega)
  unfold read
  rw [hrd]
  simp only [putBe32, List.cons_append, List.nil_append]
  simp only [e_orig, e_incl, e_rl, e_sec, e_usec, r] at hnp ⊢
  rw [if_neg (by omega), if_neg (by omega), hpad, if_neg (by omega)]
  unfold readData
  simp only [Int.toNat_natCast] at hnp ⊢
  rw [if_neg hnp, hdata]
  simp only [hskip, hfrac, normTime_id _ _ (by omega : rc.usec * 1000 < 1000000000)]
  exact ⟨trivial, trivial, trivial⟩

end Gp.Snoop
