import Gp.Model.Reader
/-
  C20 helper lemmas, part 5: what the sequential reference reader (`seqRead`/`seqDrain`/`seqRun`)
  returns — pure list reasoning, no concurrency.

  The delivered stream is compared with the results through *events*: a byte, or a gap mark.
  `ideal le stream` is the transcript the property asks for: every slice contributes a gap mark
  (when loss errors are on and Skip ≠ 0) followed by its bytes.
-/
namespace Gp.Reader

inductive Ev where
  | byte (b : UInt8)
  | gap
  deriving DecidableEq, Repr

def evSlice (g : Bool) (s : Slice) : List Ev := (if g then [Ev.gap] else []) ++ s.bytes.map Ev.byte

/-- The transcript asked for by the property. -/
def ideal (le : Bool) : List Slice → List Ev
  | [] => []
  | s :: r => evSlice (unreported le false s) s ++ ideal le r

/-- … from a reader state (the gap of the front slice may already have been reported). -/
def idealQ (le : Bool) (q : Q) : List Ev :=
  match q.1 with
  | [] => []
  | s :: r => evSlice (unreported le q.2.1 s) s ++ ideal le r

def evObs : Obs → List Ev
  | .data bs => bs.map Ev.byte
  | .eof => []
  | .lost => [Ev.gap]

def events : List Obs → List Ev
  | [] => []
  | o :: r => evObs o ++ events r

/-- Bytes returned by the reads, concatenated. -/
def dataOf : List Obs → List UInt8
  | [] => []
  | .data bs :: r => bs ++ dataOf r
  | _ :: r => dataOf r

/-- Bytes delivered, concatenated. -/
def allBytes : List Slice → List UInt8
  | [] => []
  | s :: r => s.bytes ++ allBytes r

def evBytes : List Ev → List UInt8
  | [] => []
  | .byte b :: r => b :: evBytes r
  | .gap :: r => evBytes r

def evGaps : List Ev → Nat
  | [] => 0
  | .byte _ :: r => evGaps r
  | .gap :: r => evGaps r + 1

def lostCount : List Obs → Nat
  | [] => 0
  | .lost :: r => lostCount r + 1
  | _ :: r => lostCount r

/-- Number of delivered slices announcing a gap. -/
def gapCount : List Slice → Nat
  | [] => 0
  | s :: r => (if s.skip != 0 then 1 else 0) + gapCount r

def AllEof (l : List Obs) : Prop := ∀ o ∈ l, o = Obs.eof

/-- `closed` implies nothing is left (holds initially and is preserved). -/
def WFQ (q : Q) : Prop := q.2.2 = true → q.1 = []

def NoClose (p : List COp) : Prop := ∀ op ∈ p, op ≠ COp.close

/-- The program closes or reads until EOF at some point. -/
def Ends (p : List COp) : Prop := ∃ op ∈ p, op = COp.close ∨ ∃ n, op = COp.rd n true

/-! ### evBytes / evGaps are additive -/

theorem evBytes_append (a b : List Ev) : evBytes (a ++ b) = evBytes a ++ evBytes b := by
  induction a with
  | nil => rfl
  | cons x r ih => cases x <;> simp [evBytes, ih]

theorem evGaps_append (a b : List Ev) : evGaps (a ++ b) = evGaps a + evGaps b := by
  induction a with
  | nil => simp [evGaps]
  | cons x r ih => cases x <;> simp [evGaps, ih] <;> omega

theorem evBytes_map_byte (bs : List UInt8) : evBytes (bs.map Ev.byte) = bs := by
  induction bs with
  | nil => rfl
  | cons b r ih => simp [evBytes, ih]

theorem evGaps_map_byte (bs : List UInt8) : evGaps (bs.map Ev.byte) = 0 := by
  induction bs with
  | nil => rfl
  | cons b r ih => simp [evGaps, ih]

theorem evBytes_events (out : List Obs) : evBytes (events out) = dataOf out := by
  induction out with
  | nil => rfl
  | cons o r ih =>
    cases o <;> simp [events, evObs, dataOf, evBytes_append, evBytes_map_byte, ih, evBytes]

theorem evGaps_events (out : List Obs) : evGaps (events out) = lostCount out := by
  induction out with
  | nil => rfl
  | cons o r ih =>
    cases o <;> simp [events, evObs, lostCount, evGaps_append, evGaps_map_byte, ih, evGaps] <;> omega

theorem evBytes_evSlice (g : Bool) (s : Slice) : evBytes (evSlice g s) = s.bytes := by
  cases g <;> simp [evSlice, evBytes, evBytes_map_byte]

theorem evGaps_evSlice (g : Bool) (s : Slice) : evGaps (evSlice g s) = if g then 1 else 0 := by
  cases g <;> simp [evSlice, evGaps, evGaps_map_byte]

theorem evBytes_ideal (le : Bool) (st : List Slice) : evBytes (ideal le st) = allBytes st := by
  induction st with
  | nil => rfl
  | cons s r ih => simp [ideal, allBytes, evBytes_append, evBytes_evSlice, ih]

theorem evGaps_ideal (le : Bool) (st : List Slice) :
    evGaps (ideal le st) = if le then gapCount st else 0 := by
  induction st with
  | nil => cases le <;> rfl
  | cons s r ih =>
    simp only [ideal, evGaps_append, evGaps_evSlice, ih, gapCount, unreported]
    cases le <;> simp

theorem idealQ_false (le : Bool) (st : List Slice) (c : Bool) : idealQ le (st, false, c) = ideal le st := by
  cases st <;> rfl

theorem idealQ_nil (le lr c : Bool) : idealQ le ([], lr, c) = [] := rfl

/-! ### one Read conserves the transcript -/

theorem idealQ_strip (le : Bool) (st : List Slice) (lr c : Bool) :
    idealQ le ((stripEmpty le st lr).1, (stripEmpty le st lr).2, c) = idealQ le (st, lr, c) := by
  induction st generalizing lr with
  | nil => rfl
  | cons a rest ih =>
    by_cases hb : a.bytes = []
    · by_cases hu : unreported le lr a = true
      · simp only [stripEmpty, hb, hu, if_true]
      · simp only [stripEmpty, hb, hu, if_true, Bool.false_eq_true, if_false]
        rw [ih false, idealQ_false]
        simp [idealQ, evSlice, hb, hu]
    · simp only [stripEmpty, hb, if_false]

theorem unreported_true_lr (le : Bool) (s : Slice) : unreported le true s = false := by
  simp [unreported]

theorem readTail_events (le : Bool) (n : Nat) (a : Slice) (r : List Slice) (lr c : Bool) :
    evObs (readTail le n (a :: r) lr).1 ++
      idealQ le ((readTail le n (a :: r) lr).2.1, (readTail le n (a :: r) lr).2.2, c)
      = idealQ le (a :: r, lr, c) := by
  simp only [readTail]
  by_cases hu : unreported le lr a = true
  · simp only [hu, if_true, evObs, idealQ, unreported_true_lr, evSlice]
    simp
  · simp only [hu, idealQ, evObs, evSlice]
    have hu' : unreported le lr { bytes := List.drop n a.bytes, skip := a.skip } = false := by
      simpa [unreported] using hu
    simp only [hu', Bool.false_eq_true, if_false, List.nil_append]
    rw [← List.append_assoc, ← List.map_append, List.take_append_drop]

theorem seqRead_eof_iff (le : Bool) (n : Nat) (q : Q) :
    (seqRead le n q).1 = .eof ↔ (seqRead le n q).2.2.2 = true := by
  cases hc : q.2.2 with
  | true => rw [seqRead_closed le n q hc]; simp [hc]
  | false =>
    rw [seqRead_open le n q hc]
    cases hr : (stripEmpty le q.1 q.2.1).1 with
    | nil => simp [readTail]
    | cons a r =>
      simp only [List.isEmpty_cons, readTail]
      split <;> simp

theorem seqRead_wfq (le : Bool) (n : Nat) (q : Q) (h : WFQ q) : WFQ (seqRead le n q).2 := by
  cases hc : q.2.2 with
  | true => rw [seqRead_closed le n q hc]; exact h
  | false =>
    rw [seqRead_open le n q hc]
    cases hr : (stripEmpty le q.1 q.2.1).1 with
    | nil => intro _; rfl
    | cons a r => intro hcl; simp at hcl

theorem seqRead_events (le : Bool) (n : Nat) (q : Q) (_h : WFQ q) :
    evObs (seqRead le n q).1 ++ idealQ le (seqRead le n q).2 = idealQ le q := by
  cases hc : q.2.2 with
  | true => rw [seqRead_closed le n q hc]; rfl
  | false =>
    have hq : q = (q.1, q.2.1, false) := by rw [← hc]
    rw [seqRead_open le n q hc]
    have hs := idealQ_strip le q.1 q.2.1 false
    rw [← hq] at hs
    rw [← hs]
    cases hr : (stripEmpty le q.1 q.2.1).1 with
    | nil => rfl
    | cons a r =>
      simp only [List.isEmpty_cons]
      exact readTail_events le n a r _ false

theorem seqRead_closed_of_closed (le : Bool) (n : Nat) (q : Q) (h : q.2.2 = true) :
    (seqRead le n q).2.2.2 = true := by
  rw [seqRead_closed le n q h]; exact h

/-- With a non-empty buffer Read never returns (0, nil). -/
theorem seqRead_nonempty (le : Bool) (n : Nat) (q : Q) : (seqRead le (n + 1) q).1 ≠ .data [] := by
  cases hc : q.2.2 with
  | true => rw [seqRead_closed le _ q hc]; simp
  | false =>
    rw [seqRead_open le _ q hc]
    have hh := stripEmpty_head le q.1 q.2.1
    cases hr : (stripEmpty le q.1 q.2.1).1 with
    | nil => simp [readTail]
    | cons a r =>
      have := hh a r hr
      simp only [readTail]
      by_cases hu : unreported le (stripEmpty le q.1 q.2.1).2 a = true
      · simp [hu]
      · simp only [hu]
        have hb : a.bytes ≠ [] := by
          cases this with
          | inl h => exact h
          | inr h => exact absurd h hu
        cases hab : a.bytes with
        | nil => exact absurd hab hb
        | cons x xs => simp

/-! ### Read until EOF -/

theorem seqDrain_unfold (le : Bool) (n : Nat) (q : Q) :
    seqDrain le n q =
      if (seqRead le (n + 1) q).1 = .eof then ([.eof], (seqRead le (n + 1) q).2)
      else ((seqRead le (n + 1) q).1 :: (seqDrain le n (seqRead le (n + 1) q).2).1,
            (seqDrain le n (seqRead le (n + 1) q).2).2) := by
  rw [seqDrain]
  split <;> rfl

/-- Everything about a read-until-EOF call, by induction on the amount of unread data. -/
theorem seqDrain_spec (le : Bool) (n : Nat) (k : Nat) : ∀ q : Q, qWeight q ≤ k → WFQ q →
    (seqDrain le n q).2.2.2 = true ∧ WFQ (seqDrain le n q).2 ∧
    events (seqDrain le n q).1 ++ idealQ le (seqDrain le n q).2 = idealQ le q ∧
    (∃ pre, (seqDrain le n q).1 = pre ++ [.eof] ∧ .eof ∉ pre ∧ Obs.data [] ∉ pre) := by
  induction k with
  | zero =>
    intro q hk hw
    rw [seqDrain_unfold]
    by_cases h : (seqRead le (n + 1) q).1 = .eof
    · simp only [h, if_true]
      refine ⟨(seqRead_eof_iff le _ q).mp h, seqRead_wfq le _ q hw, ?_, [], rfl, by simp, by simp⟩
      have := seqRead_events le (n + 1) q hw
      rw [h] at this
      simpa [events, evObs] using this
    · have := seqRead_weight le n q h
      omega
  | succ k ih =>
    intro q hk hw
    rw [seqDrain_unfold]
    by_cases h : (seqRead le (n + 1) q).1 = .eof
    · simp only [h, if_true]
      refine ⟨(seqRead_eof_iff le _ q).mp h, seqRead_wfq le _ q hw, ?_, [], rfl, by simp, by simp⟩
      have := seqRead_events le (n + 1) q hw
      rw [h] at this
      simpa [events, evObs] using this
    · simp only [h, if_false]
      have hlt := seqRead_weight le n q h
      obtain ⟨h1, h2, h3, pre, h4, h5, h6⟩ :=
        ih (seqRead le (n + 1) q).2 (by omega) (seqRead_wfq le _ q hw)
      refine ⟨h1, h2, ?_, (seqRead le (n + 1) q).1 :: pre, by rw [h4]; rfl, ?_, ?_⟩
      · simp only [events]
        rw [List.append_assoc, h3]
        exact seqRead_events le (n + 1) q hw
      · intro hm
        rcases List.mem_cons.mp hm with heq | hm'
        · exact h heq.symm
        · exact h5 hm'
      · intro hm
        rcases List.mem_cons.mp hm with heq | hm'
        · exact seqRead_nonempty le n q heq.symm
        · exact h6 hm'

theorem seqDrain_facts (le : Bool) (n : Nat) (q : Q) (hw : WFQ q) :
    (seqDrain le n q).2.2.2 = true ∧ WFQ (seqDrain le n q).2 ∧
    events (seqDrain le n q).1 ++ idealQ le (seqDrain le n q).2 = idealQ le q ∧
    (∃ pre, (seqDrain le n q).1 = pre ++ [.eof] ∧ .eof ∉ pre ∧ Obs.data [] ∉ pre) :=
  seqDrain_spec le n (qWeight q) q (Nat.le_refl _) hw

theorem seqDrain_closed (le : Bool) (n : Nat) (q : Q) (h : q.2.2 = true) :
    seqDrain le n q = ([.eof], q) := by
  rw [seqDrain_unfold, seqRead_closed le _ q h]
  simp

/-! ### whole programs -/

theorem allEof_events (l : List Obs) (h : AllEof l) : events l = [] := by
  induction l with
  | nil => rfl
  | cons o r ih =>
    have ho : o = .eof := h o (List.mem_cons_self ..)
    have hr : AllEof r := fun x hx => h x (List.mem_cons_of_mem _ hx)
    simp [events, ho, evObs, ih hr]

/-- Once closed, every Read returns EOF and the reader stays closed. -/
theorem seqRun_closed (le : Bool) (p : List COp) : ∀ q : Q, q.2.2 = true →
    AllEof (seqRun le p q).1 ∧ (seqRun le p q).2.2.2 = true := by
  induction p with
  | nil => intro q h; exact ⟨fun _ hm => (by cases hm), h⟩
  | cons op p ih =>
    intro q h
    cases op with
    | close =>
      rw [seqRun]
      exact ih _ rfl
    | rd n l =>
      cases l with
      | false =>
        rw [seqRun]
        simp only
        rw [seqRead_closed le n q h]
        obtain ⟨h1, h2⟩ := ih q h
        refine ⟨?_, h2⟩
        intro o ho
        cases ho with
        | head => rfl
        | tail _ ho' => exact h1 o ho'
      | true =>
        rw [seqRun]
        simp only
        rw [seqDrain_closed le n q h]
        obtain ⟨h1, h2⟩ := ih q h
        refine ⟨?_, h2⟩
        intro o ho
        simp only [List.singleton_append] at ho
        cases ho with
        | head => rfl
        | tail _ ho' => exact h1 o ho'

theorem seqRun_wfq (le : Bool) (p : List COp) : ∀ q : Q, WFQ q → WFQ (seqRun le p q).2 := by
  induction p with
  | nil => intro q h; exact h
  | cons op p ih =>
    intro q h
    cases op with
    | close => rw [seqRun]; exact ih _ (fun _ => rfl)
    | rd n l =>
      cases l with
      | false => rw [seqRun]; exact ih _ (seqRead_wfq le n q h)
      | true => rw [seqRun]; exact ih _ (seqDrain_facts le n q h).2.1

/-- `closed` never goes back to false. -/
theorem seqRead_closed_mono (le : Bool) (n : Nat) (q : Q) (h : q.2.2 = true) :
    (seqRead le n q).2.2.2 = true := seqRead_closed_of_closed le n q h

/-- A program that closes or reads until EOF leaves the reader closed. -/
theorem seqRun_ends (le : Bool) (p : List COp) : ∀ q : Q, WFQ q → Ends p →
    (seqRun le p q).2.2.2 = true := by
  induction p with
  | nil => intro q _ he; obtain ⟨op, hm, _⟩ := he; cases hm
  | cons op p ih =>
    intro q hw he
    cases op with
    | close => rw [seqRun]; exact (seqRun_closed le p _ rfl).2
    | rd n l =>
      cases l with
      | true => rw [seqRun]; exact (seqRun_closed le p _ (seqDrain_facts le n q hw).1).2
      | false =>
        rw [seqRun]
        apply ih _ (seqRead_wfq le n q hw)
        obtain ⟨op', hm, hop⟩ := he
        cases hm with
        | head =>
          cases hop with
          | inl h => cases h
          | inr h => obtain ⟨m, hm'⟩ := h; cases hm'
        | tail _ hm' => exact ⟨op', hm', hop⟩

/-- If some Read returned EOF the reader ends closed. -/
theorem seqRun_eof_closed (le : Bool) (p : List COp) : ∀ q : Q, WFQ q →
    .eof ∈ (seqRun le p q).1 → (seqRun le p q).2.2.2 = true := by
  induction p with
  | nil => intro q _ hm; cases hm
  | cons op p ih =>
    intro q hw hm
    cases op with
    | close => rw [seqRun]; exact (seqRun_closed le p _ rfl).2
    | rd n l =>
      cases l with
      | true => rw [seqRun]; exact (seqRun_closed le p _ (seqDrain_facts le n q hw).1).2
      | false =>
        rw [seqRun] at hm ⊢
        simp only at hm ⊢
        rcases List.mem_cons.mp hm with heq | hm'
        · exact (seqRun_closed le p _ ((seqRead_eof_iff le n q).mp heq.symm)).2
        · exact ih _ (seqRead_wfq le n q hw) hm'

/-- EOF is sticky: the results are some non-EOF results followed by EOFs only. -/
theorem seqRun_sticky (le : Bool) (p : List COp) : ∀ q : Q, WFQ q →
    ∃ pre post, (seqRun le p q).1 = pre ++ post ∧ .eof ∉ pre ∧ AllEof post := by
  induction p with
  | nil => intro q _; exact ⟨[], [], rfl, by simp, fun _ hm => (by cases hm)⟩
  | cons op p ih =>
    intro q hw
    cases op with
    | close =>
      rw [seqRun]
      exact ⟨[], _, rfl, by simp, (seqRun_closed le p _ rfl).1⟩
    | rd n l =>
      cases l with
      | true =>
        rw [seqRun]
        simp only
        obtain ⟨hc, _, _, pre, hpre, hne, _⟩ := seqDrain_facts le n q hw
        refine ⟨pre, .eof :: (seqRun le p (seqDrain le n q).2).1, ?_, hne, ?_⟩
        · rw [hpre]; simp
        · intro o ho
          cases ho with
          | head => rfl
          | tail _ ho' => exact (seqRun_closed le p _ hc).1 o ho'
      | false =>
        rw [seqRun]
        simp only
        by_cases h : (seqRead le n q).1 = .eof
        · refine ⟨[], _, rfl, by simp, ?_⟩
          intro o ho
          cases ho with
          | head => exact h
          | tail _ ho' =>
            exact (seqRun_closed le p _ ((seqRead_eof_iff le n q).mp h)).1 o ho'
        · obtain ⟨pre, post, h1, h2, h3⟩ := ih _ (seqRead_wfq le n q hw)
          refine ⟨(seqRead le n q).1 :: pre, post, by rw [h1]; rfl, ?_, h3⟩
          intro hm
          rcases List.mem_cons.mp hm with heq | hm'
          · exact h heq.symm
          · exact h2 hm'

/-- Conservation for programs without Close: results so far ++ what is left = what was there. -/
theorem seqRun_events (le : Bool) (p : List COp) : ∀ q : Q, WFQ q → NoClose p →
    events (seqRun le p q).1 ++ idealQ le (seqRun le p q).2 = idealQ le q := by
  induction p with
  | nil => intro q _ _; rfl
  | cons op p ih =>
    intro q hw hn
    have hn' : NoClose p := fun x hx => hn x (List.mem_cons_of_mem _ hx)
    cases op with
    | close => exact absurd rfl (hn .close (List.mem_cons_self ..))
    | rd n l =>
      cases l with
      | false =>
        rw [seqRun]
        simp only [events]
        rw [List.append_assoc, ih _ (seqRead_wfq le n q hw) hn']
        exact seqRead_events le n q hw
      | true =>
        rw [seqRun]
        simp only
        obtain ⟨_, h2, h3, _⟩ := seqDrain_facts le n q hw
        have hev : ∀ a b : List Obs, events (a ++ b) = events a ++ events b := by
          intro a b
          induction a with
          | nil => rfl
          | cons x r ihx => simp [events, ihx]
        rw [hev, List.append_assoc, ih _ h2 hn', h3]

/-- With Close anywhere: what was returned is a prefix of the transcript. -/
theorem seqRun_events_prefix (le : Bool) (p : List COp) : ∀ q : Q, WFQ q →
    ∃ rest, events (seqRun le p q).1 ++ rest = idealQ le q := by
  induction p with
  | nil => intro q _; exact ⟨_, rfl⟩
  | cons op p ih =>
    intro q hw
    cases op with
    | close =>
      rw [seqRun]
      exact ⟨idealQ le q, by rw [allEof_events _ (seqRun_closed le p _ rfl).1]; rfl⟩
    | rd n l =>
      cases l with
      | false =>
        rw [seqRun]
        simp only [events]
        obtain ⟨rest, hr⟩ := ih _ (seqRead_wfq le n q hw)
        exact ⟨rest, by rw [List.append_assoc, hr]; exact seqRead_events le n q hw⟩
      | true =>
        rw [seqRun]
        simp only
        obtain ⟨_, h2, h3, _⟩ := seqDrain_facts le n q hw
        obtain ⟨rest, hr⟩ := ih _ h2
        have hev : ∀ a b : List Obs, events (a ++ b) = events a ++ events b := by
          intro a b
          induction a with
          | nil => rfl
          | cons x r ihx => simp [events, ihx]
        exact ⟨rest, by rw [hev, List.append_assoc, hr, h3]⟩

/-- No Read with a non-empty buffer returns (0, nil). -/
theorem seqRun_nonempty (le : Bool) (p : List COp) : ∀ q : Q, WFQ q →
    (∀ n, COp.rd n false ∈ p → 1 ≤ n) → Obs.data [] ∉ (seqRun le p q).1 := by
  induction p with
  | nil => intro q _ _ hm; cases hm
  | cons op p ih =>
    intro q hw hn
    have hn' : ∀ n, COp.rd n false ∈ p → 1 ≤ n := fun n hm => hn n (List.mem_cons_of_mem _ hm)
    cases op with
    | close => rw [seqRun]; exact ih _ (fun _ => rfl) hn'
    | rd n l =>
      cases l with
      | false =>
        rw [seqRun]
        simp only
        intro hm
        rcases List.mem_cons.mp hm with heq | hm'
        · have h1 : 1 ≤ n := hn n (List.mem_cons_self ..)
          obtain ⟨m, rfl⟩ : ∃ m, n = m + 1 := ⟨n - 1, by omega⟩
          exact seqRead_nonempty le m q heq.symm
        · exact ih _ (seqRead_wfq le n q hw) hn' hm'
      | true =>
        rw [seqRun]
        simp only
        obtain ⟨_, h2, _, pre, hpre, _, hne⟩ := seqDrain_facts le n q hw
        intro hm
        rw [hpre] at hm
        simp only [List.mem_append, List.mem_singleton] at hm
        rcases hm with (hm | hm) | hm
        · exact hne hm
        · cases hm
        · exact ih _ h2 hn' hm

end Gp.Reader
