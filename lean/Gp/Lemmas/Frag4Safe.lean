/-
  Helper lemmas for C13 (engine frag4), part 3: provenance invariant of the flow map
  (every stored fragment passed securityChecks and was offered under that key) and the
  resulting byte-placement safety of every returned datagram.
-/
import Gp.Lemmas.Frag4Build

namespace Gp.Frag4

/-- The fragments offered so far under key `k`. -/
def offered (k : Key) : List Op → List Frag
  | [] => []
  | .inp f _ :: r => if f.key = k then f :: offered k r else offered k r
  | .discard _ :: r => offered k r

theorem offered_append (k : Key) : ∀ (a b : List Op), offered k (a ++ b) = offered k a ++ offered k b
  | [], _ => rfl
  | .inp f _ :: a, b => by
    simp only [List.cons_append, offered, offered_append k a b]
    split <;> simp
  | .discard _ :: a, b => by simp only [List.cons_append, offered, offered_append k a b]

theorem mem_offered (k : Key) : ∀ (ops : List Op) (g : Frag) (t : Int), Op.inp g t ∈ ops → g.key = k →
    g ∈ offered k ops
  | [], _, _, h, _ => by cases h
  | op :: ops, g, t, h, hk => by
    rcases List.mem_cons.1 h with e | h'
    · rw [← e]; simp [offered, hk]
    · have := mem_offered k ops g t h' hk
      cases op with
      | inp f _ => simp only [offered]; split <;> simp [this]
      | discard _ => simpa [offered] using this

/-- Every stored fragment passed the security checks and was offered under its key. -/
def Prov (H : List Op) (st : State) : Prop :=
  ∀ p ∈ st.flows, ∀ g ∈ p.2.list, securityChecks g = true ∧ g ∈ offered p.1 H

theorem prov_mono (H : List Op) (op : Op) (st : State) (h : Prov H st) : Prov (H ++ [op]) st := by
  intro p hp g hg
  obtain ⟨h1, h2⟩ := h p hp g hg
  exact ⟨h1, by rw [offered_append]; exact List.mem_append_left _ h2⟩

theorem prov_sub (H : List Op) (st st' : State) (h : Prov H st) (hs : ∀ p ∈ st'.flows, p ∈ st.flows) :
    Prov H st' := fun p hp => h p (hs p hp)

theorem flOr_list_mem (st : State) (k : Key) (H : List Op) (h : Prov H st) :
    ∀ g ∈ (st.flOr k).list, securityChecks g = true ∧ g ∈ offered k H := by
  unfold State.flOr
  split
  · rename_i fl hl
    exact h (k, fl) (lookup_mem st k fl hl)
  · intro g hg; cases hg

theorem insert_none (fl : FL) (f : Frag) (t : Int) (h : place fl f = none) : fl.insert f t = (fl, .none) := by
  unfold FL.insert; rw [h]

theorem insert_some (fl : FL) (f : Frag) (t : Int) (l : List Frag) (h : place fl f = some l) :
    fl.insert f t = (fl.upd l f t, if (fl.upd l f t).ready then build (fl.upd l f t) f else .none) := by
  unfold FL.insert; rw [h]

theorem insert_list_mem (fl : FL) (f : Frag) (t : Int) : ∀ x ∈ (fl.insert f t).1.list, x = f ∨ x ∈ fl.list := by
  cases hp : place fl f with
  | none => rw [insert_none _ _ _ hp]; intro x hx; exact Or.inr hx
  | some l => rw [insert_some _ _ _ l hp]; exact place_mem fl f l hp

theorem build_safe (fl : FL) (f : Frag) (S : Frag → Prop)
    (hS : ∀ g ∈ fl.list, securityChecks g = true ∧ S g) :
    (∀ k, build fl f ≠ .panic k) ∧
    (∀ d, build fl f = .out d → ∀ i b, d.payload[i]? = some b → ∃ g, S g ∧ Placed g i b) := by
  obtain ⟨hp, ho⟩ := buildLoop_safe S fl.list 0 [] hS rfl (by omega) (fun i b h => by simp at h)
  unfold build
  cases hb : buildLoop fl.list 0 [] with
  | ok bytes =>
    refine ⟨fun k h => (by cases h), ?_⟩
    intro d hd
    cases hd
    exact ho bytes hb
  | err e => exact ⟨fun k h => (by cases h), fun d h => (by cases h)⟩
  | panic k => exact absurd hb (hp k)

/-- What `insert` returns: never a panic, and a datagram only of bytes placed by stored fragments. -/
theorem insert_reply_safe (fl : FL) (f : Frag) (t : Int) (S : Frag → Prop)
    (hS : ∀ g ∈ (fl.insert f t).1.list, securityChecks g = true ∧ S g) :
    (∀ k, (fl.insert f t).2 ≠ .panic k) ∧
    (∀ d, (fl.insert f t).2 = .out d → ∀ i b, d.payload[i]? = some b → ∃ g, S g ∧ Placed g i b) := by
  cases hp : place fl f with
  | none =>
    rw [insert_none _ _ _ hp]
    exact ⟨fun k h => (by cases h), fun d h => (by cases h)⟩
  | some l =>
    rw [insert_some _ _ _ l hp] at hS ⊢
    dsimp only at hS ⊢
    by_cases hr : (fl.upd l f t).ready = true
    · simp only [hr, if_true]
      exact build_safe _ f S hS
    · simp only [hr]
      exact ⟨fun k h => (by cases h), fun d h => (by cases h)⟩

/-- `defrag` in terms of `insert`, for a fragment that is neither passed through nor rejected. -/
theorem defrag_eq (st : State) (f : Frag) (t : Int) (h1 : dontDefrag f = false) (h2 : securityChecks f = true) :
    defrag st f t =
      match ((st.flOr f.key).insert f t).2 with
      | .out d => (st.erase f.key, .out d)
      | .panic k => (st.set f.key ((st.flOr f.key).insert f t).1, .panic k)
      | r => if ((st.flOr f.key).insert f t).1.list.length + 1 > Gp.Gen.Frag.ip4MaximumFragmentListLen
             then (st.erase f.key, .err) else (st.set f.key ((st.flOr f.key).insert f t).1, r) := by
  unfold defrag
  simp only [h1, h2, Bool.false_eq_true, if_false, Bool.not_true]
  rcases hins : (st.flOr f.key).insert f t with ⟨fl', r⟩
  cases r <;> rfl

theorem erase_sub (st : State) (k : Key) : ∀ p ∈ (st.erase k).flows, p ∈ st.flows :=
  fun p hp => (List.mem_filter.1 hp).1

theorem prov_set (H : List Op) (st : State) (k : Key) (fl : FL) (h : Prov H st)
    (hfl : ∀ g ∈ fl.list, securityChecks g = true ∧ g ∈ offered k H) : Prov H (st.set k fl) := by
  intro p hp
  unfold State.set at hp
  rcases List.mem_cons.1 hp with e | hp'
  · subst e; exact hfl
  · exact h p (erase_sub st k p hp')

theorem stored_after (H : List Op) (st : State) (f : Frag) (t : Int) (h : Prov H st)
    (h2 : securityChecks f = true) :
    ∀ g ∈ ((st.flOr f.key).insert f t).1.list,
      securityChecks g = true ∧ g ∈ offered f.key (H ++ [.inp f t]) := by
  intro g hg
  rw [offered_append]
  rcases insert_list_mem _ f t g hg with e | hm
  · subst e
    exact ⟨h2, List.mem_append_right _ (by simp [offered])⟩
  · have := flOr_list_mem st f.key H h g hm
    exact ⟨this.1, List.mem_append_left _ this.2⟩

theorem prov_defrag (H : List Op) (st : State) (f : Frag) (t : Int) (h : Prov H st) :
    Prov (H ++ [.inp f t]) (defrag st f t).1 := by
  have hm := prov_mono H (.inp f t) st h
  by_cases h1 : dontDefrag f = true
  · unfold defrag; simp only [h1, if_true]; exact hm
  · by_cases h2 : securityChecks f = true
    · have h1' : dontDefrag f = false := by simpa using h1
      have hst := stored_after H st f t h h2
      rw [defrag_eq st f t h1' h2]
      have he : Prov (H ++ [.inp f t]) (st.erase f.key) := prov_sub _ _ _ hm (erase_sub st f.key)
      have hs : Prov (H ++ [.inp f t]) (st.set f.key ((st.flOr f.key).insert f t).1) :=
        prov_set _ _ _ _ hm hst
      split
      · exact he
      · exact hs
      · split
        · exact he
        · exact hs
    · unfold defrag
      have h1' : dontDefrag f = false := by simpa using h1
      have h2' : securityChecks f = false := by simpa using h2
      simp only [h1', h2', Bool.false_eq_true, if_false, Bool.not_false, if_true]
      exact hm

theorem prov_discard (H : List Op) (st : State) (t : Int) (h : Prov H st) :
    Prov (H ++ [.discard t]) (discard st t).1 :=
  prov_sub _ _ _ (prov_mono H _ st h) (fun p hp => (List.mem_filter.1 hp).1)

theorem prov_step (H : List Op) (st : State) (op : Op) (h : Prov H st) : Prov (H ++ [op]) (step st op).1 := by
  cases op with
  | inp f t => exact prov_defrag H st f t h
  | discard t => exact prov_discard H st t h

theorem prov_run : ∀ (ops : List Op) (H : List Op) (st : State), Prov H st → Prov (H ++ ops) (run st ops).1
  | [], H, st, h => by simpa [run] using h
  | op :: ops, H, st, h => by
    have := prov_run ops (H ++ [op]) (step st op).1 (prov_step H st op h)
    simpa [run, List.append_assoc] using this

theorem prov_empty : Prov [] {} := fun p hp => by cases hp

/-- One step from a state with provenance: no panic; a returned datagram (other than a
    passed-through packet) consists of bytes placed by fragments offered under its key. -/
theorem defrag_safe (H : List Op) (st : State) (f : Frag) (t : Int) (h : Prov H st) :
    (∀ k, (defrag st f t).2 ≠ .panic k) ∧
    (dontDefrag f = false → ∀ d, (defrag st f t).2 = .out d → ∀ i b, d.payload[i]? = some b →
      ∃ g, (securityChecks g = true ∧ g ∈ offered f.key (H ++ [.inp f t])) ∧ Placed g i b) := by
  by_cases h1 : dontDefrag f = true
  · unfold defrag; simp only [h1, if_true]
    exact ⟨fun k hk => (by cases hk), fun hc => (by cases hc)⟩
  · have h1' : dontDefrag f = false := by simpa using h1
    by_cases h2 : securityChecks f = true
    · obtain ⟨hp, ho⟩ := insert_reply_safe (st.flOr f.key) f t
        (fun g => securityChecks g = true ∧ g ∈ offered f.key (H ++ [.inp f t]))
        (fun g hg => ⟨(stored_after H st f t h h2 g hg).1, stored_after H st f t h h2 g hg⟩)
      rw [defrag_eq st f t h1' h2]
      cases hr : ((st.flOr f.key).insert f t).2 with
      | out d =>
        refine ⟨fun k hk => (by cases hk), ?_⟩
        intro _ d' hd
        cases hd
        exact ho d hr
      | panic k => exact absurd hr (hp k)
      | none =>
        dsimp only
        constructor
        · intro k hk; split at hk <;> cases hk
        · intro _ d hd; split at hd <;> cases hd
      | err =>
        dsimp only
        constructor
        · intro k hk; split at hk <;> cases hk
        · intro _ d hd; split at hd <;> cases hd
    · have h2' : securityChecks f = false := by simpa using h2
      unfold defrag
      simp only [h1', h2', Bool.false_eq_true, if_false, Bool.not_false, if_true]
      exact ⟨fun k hk => (by cases hk), fun _ d hd => (by cases hd)⟩

end Gp.Frag4
