/-
  Helper lemmas for C13 (engine frag4), part 3: provenance invariant of the flow map
  (every stored fragment passed securityChecks and was offered under that key) and the
  resulting byte-placement safety of every returned datagram.
-/
import Gp.Lemmas.Frag4Build

namespace Gp.Frag4

/-- The fragments offered so far under key `k`. -/
def offered (k : Key) : List Op → List Frag
  | [] => []
  | .inp f _ :: r => if f.key = k then f :: offered k r else offered k r
  | .discard _ :: r => offered k r

theorem offered_append (k : Key) : ∀ (a b : List Op), offered k (a ++ b) = offered k a ++ offered k b
  | [], _ => rfl
  | .inp f _ :: a, b => by
    simp only [List.cons_append, offered, offered_append k a b]
    split <;> simp
  | .discard _ :: a, b => by simp only [List.cons_append, offered, offered_append k a b]

/-- Every stored fragment passed the security checks and was offered under its key. -/
def Prov (H : List Op) (st : State) : Prop :=
  ∀ p ∈ st.flows, ∀ g ∈ p.2.list, securityChecks g = true ∧ g ∈ offered p.1 H

theorem prov_mono (H : List Op) (op : Op) (st : State) (h : Prov H st) : Prov (H ++ [op]) st := by
  intro p hp g hg
  obtain ⟨h1, h2⟩ := h p hp g hg
  exact ⟨h1, by rw [offered_append]; exact List.mem_append_left _ h2⟩

theorem prov_sub (H : List Op) (st st' : State) (h : Prov H st) (hs : ∀ p ∈ st'.flows, p ∈ st.flows) :
    Prov H st' := fun p hp => h p (hs p hp)

theorem flOr_list_mem (st : State) (k : Key) (H : List Op) (h : Prov H st) :
    ∀ g ∈ (st.flOr k).list, securityChecks g = true ∧ g ∈ offered k H := by
  unfold State.flOr
  split
  · rename_i fl hl
    exact h (k, fl) (lookup_mem st k fl hl)
  · intro g hg; cases hg

theorem insert_list_mem (fl : FL) (f : Frag) (t : Int) : ∀ x ∈ (fl.insert f t).1.list, x = f ∨ x ∈ fl.list := by
  unfold FL.insert
  split
  · intro x hx; exact Or.inr hx
  · rename_i l hl
    have := place_mem fl f l hl
    dsimp only
    split <;> exact this

/-- What `insert` returns: never a panic, and a datagram only of bytes placed by stored fragments. -/
theorem insert_reply_safe (fl : FL) (f : Frag) (t : Int) (S : Frag → Prop)
    (hS : ∀ g ∈ (fl.insert f t).1.list, securityChecks g = true ∧ S g) :
    (∀ k, (fl.insert f t).2 ≠ .panic k) ∧
    (∀ d, (fl.insert f t).2 = .out d → ∀ i b, d.payload[i]? = some b → ∃ g, S g ∧ Placed g i b) := by
  unfold FL.insert at hS ⊢
  split
  · exact ⟨fun k h => (by cases h), fun d h => (by cases h)⟩
  · rename_i l hl
    dsimp only at hS ⊢
    split
    · rename_i hcond
      have hS' : ∀ g ∈ l, securityChecks g = true ∧ S g := by
        intro g hg
        have := hS g
        simp only [hcond, if_true] at this
        exact this hg
      obtain ⟨hp, ho⟩ := buildLoop_safe S l 0 [] hS' rfl (by omega) (fun i b h => by simp at h)
      unfold build
      dsimp only
      split
      · rename_i bytes hb
        refine ⟨fun k h => (by cases h), ?_⟩
        intro d hd
        cases hd
        exact ho bytes hb
      · exact ⟨fun k h => (by cases h), fun d h => (by cases h)⟩
      · rename_i k hk
        exact absurd hk (hp k)
    · exact ⟨fun k h => (by cases h), fun d h => (by cases h)⟩

/-- `defrag` in terms of `insert`, for a fragment that is neither passed through nor rejected. -/
theorem defrag_eq (st : State) (f : Frag) (t : Int) (h1 : dontDefrag f = false) (h2 : securityChecks f = true) :
    defrag st f t =
      match ((st.flOr f.key).insert f t).2 with
      | .out d => (st.erase f.key, .out d)
      | .panic k => (st.set f.key ((st.flOr f.key).insert f t).1, .panic k)
      | r => if ((st.flOr f.key).insert f t).1.list.length + 1 > Gp.Gen.Frag.ip4MaximumFragmentListLen
             then (st.erase f.key, .err) else (st.set f.key ((st.flOr f.key).insert f t).1, r) := by
  unfold defrag
  simp only [h1, h2, Bool.false_eq_true, if_false, Bool.not_true]
  rcases hins : (st.flOr f.key).insert f t with ⟨fl', r⟩
  cases r <;> rfl

theorem erase_sub (st : State) (k : Key) : ∀ p ∈ (st.erase k).flows, p ∈ st.flows :=
  fun p hp => (List.mem_filter.1 hp).1

theorem prov_set (H : List Op) (st : State) (k : Key) (fl : FL) (h : Prov H st)
    (hfl : ∀ g ∈ fl.list, securityChecks g = true ∧ g ∈ offered k H) : Prov H (st.set k fl) := by
  intro p hp
  unfold State.set at hp
  rcases List.mem_cons.1 hp with e | hp'
  · subst e; exact hfl
  · exact h p (erase_sub st k p hp')

theorem stored_after (H : List Op) (st : State) (f : Frag) (t : Int) (h : Prov H st)
    (h2 : securityChecks f = true) :
    ∀ g ∈ ((st.flOr f.key).insert f t).1.list,
      securityChecks g = true ∧ g ∈ offered f.key (H ++ [.inp f t]) := by
  intro g hg
  rw [offered_append]
  rcases insert_list_mem _ f t g hg with e | hm
  · subst e
    exact ⟨h2, List.mem_append_right _ (by simp [offered])⟩
  · have := flOr_list_mem st f.key H h g hm
    exact ⟨this.1, List.mem_append_left _ this.2⟩

end Gp.Frag4
