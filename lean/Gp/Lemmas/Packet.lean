import Gp.Model.Packet
/-
  Helper lemmas for the packet-builder framework (C01 framework part, C03).  Core Lean only.

  First the *definitions* that occur in the statements of the property theorems
  (`Ext`, `force`, `DBeh`/`D`, `acts`, `NoScriptedFail`, `NoSetErr`, …; `Contract` is in PacketContract.lean), then the
  proof machinery.
-/
namespace Gp.Pkt

/-! ## Definitions used in the property statements -/

/-- `q` extends `p`: same data, layers only appended, special layers kept once set,
    truncated only ever raised. -/
structure Ext (p q : Pkt) : Prop where
  hdata    : q.data = p.data
  hlayers  : ∃ s, q.layers = p.layers ++ s
  hlink    : ∀ x, p.link = some x → q.link = some x
  hnet     : ∀ x, p.net = some x → q.net = some x
  htrans   : ∀ x, p.trans = some x → q.trans = some x
  happ     : ∀ x, p.app = some x → q.app = some x
  hfailure : ∀ x, p.failure = some x → q.failure = some x

/-- Decode everything: `for p.next != nil { p.decodeNextLayer() }` with recovery on
    (what Layers()/String()/Dump() do first).  `none` = the loop does not end within the fuel. -/
def force (tab : Table) : Nat → LPkt → Option Pkt
  | 0, lp => if lp.next.isNone then some lp.p else none
  | n + 1, lp => if lp.next.isNone then some lp.p else force tab n (step tab true lp).1

/-- A termination measure on (decoder, input length).  The plain "progress" discipline is
    `fun _ len => len`; a decoder that may hand its whole input on to a *different* decoder (a
    zero-length header, e.g. RadioTap with Length 0 → Dot11) is covered by ranking the decoders,
    e.g. `2*len+1` for it and `2*len` for the others. -/
abbrev Measure := DecId → Nat → Nat

/-- Discipline of one decoder behaviour (`m` = measure of this invocation, `la` = the layer added
    last by this behaviour so far): builder calls, then `return nil/err`, a panic, or
    `return p.NextDecoder(d')` — the latter only after an AddLayer of its own, and such that the
    callee on that layer's payload has a strictly smaller measure, or the payload is empty. -/
def DBeh (m : Nat) (μ : Measure) : Option Layer → Beh → Prop
  | _, .ret _ => True
  | _, .panic => True
  | _, .act (.add l) k => DBeh m μ (some l) k
  | la, .act _ k => DBeh m μ la k
  | _, .next none _ kErr => kErr = .ret true
  | la, .next (some d') kOk kErr => kOk = .ret false ∧ kErr = .ret true ∧ ∃ l, la = some l ∧ (μ d' l.payLen < m ∨ l.payLen = 0)

/-- The discipline on decoder tables (C03), relative to a termination measure. -/
def DM (μ : Measure) (tab : Table) : Prop := ∀ d data off len, DBeh (μ d len) μ none (tab d data off len)

/-- The progress measure: the input length. -/
def lenMeasure : Measure := fun _ len => len

/-- The discipline D with plain progress: the payload handed on is strictly shorter than the
    input, or empty. -/
abbrev D (tab : Table) : Prop := DM lenMeasure tab

/-- All builder calls occurring anywhere in a behaviour tree. -/
def Beh.acts : Beh → List Act
  | .ret _ => []
  | .panic => []
  | .act a k => a :: k.acts
  | .next _ kOk kErr => kOk.acts ++ kErr.acts

/-- No decoder adds a `*gopacket.DecodeFailure` layer itself. -/
def NoScriptedFail (tab : Table) : Prop :=
  ∀ d data off len l, Act.add l ∈ (tab d data off len).acts → l.fail = false

/-- No decoder calls SetErrorLayer itself. -/
def NoSetErr (tab : Table) : Prop :=
  ∀ d data off len l, Act.setErr l ∉ (tab d data off len).acts

/-- Did the top-level decoder call of an eager NewPacket fail (returned an error, panicked, or the
    first decoder is nil)?  (A panic anywhere unwinds to the top; an error reaches the top iff the
    callers return it — which D demands.) -/
def eagerFailed (tab : Table) (fuel : Nat) (data : Bytes) (first : Option DecId) : Bool :=
  match first with
  | none => true
  | some d =>
    match eagerDec tab fuel d 0 data.length { data := data } with
    | some (_, .ret false) => false
    | some _ => true
    | none => false

/-- A decoder invocation failed: it returned an error or panicked. -/
def outFailed : Out → Bool
  | .ret false => false
  | _ => true

/-- Did the decoder run by this decodeNextLayer fail? -/
def stepFailed (tab : Table) (lp : LPkt) : Bool :=
  match lp.next with
  | none => false
  | some d =>
    let w := inputWin lp.p
    if w.2 = 0 then false
    else outFailed (lazyBeh (tab d lp.p.data w.1 w.2) { lp with next := none }).2

/-- Did any decoder fail while forcing a lazy packet? -/
def forceFailed (tab : Table) : Nat → LPkt → Bool
  | 0, _ => false
  | n + 1, lp => if lp.next.isNone then false else stepFailed tab lp || forceFailed tab n (step tab true lp).1

/-! ## Ext is a preorder; every builder call extends -/

theorem Ext.refl (p : Pkt) : Ext p p :=
  ⟨rfl, ⟨[], by simp⟩, fun _ h => h, fun _ h => h, fun _ h => h, fun _ h => h, fun _ h => h⟩

theorem Ext.trans {p q r : Pkt} (h1 : Ext p q) (h2 : Ext q r) : Ext p r := by
  obtain ⟨s1, hs1⟩ := h1.hlayers
  obtain ⟨s2, hs2⟩ := h2.hlayers
  exact ⟨h2.hdata.trans h1.hdata, ⟨s1 ++ s2, by rw [hs2, hs1, List.append_assoc]⟩,
    fun x h => h2.hlink x (h1.hlink x h), fun x h => h2.hnet x (h1.hnet x h),
    fun x h => h2.htrans x (h1.htrans x h), fun x h => h2.happ x (h1.happ x h),
    fun x h => h2.hfailure x (h1.hfailure x h)⟩

theorem setOnce_keep (cur : Option Layer) (l x : Layer) (h : cur = some x) : setOnce cur l = some x := by
  subst h; rfl

theorem setOnce_isSome (cur : Option Layer) (l : Layer) : (setOnce cur l).isSome = true := by
  cases cur <;> rfl

theorem applyAct_ext (a : Act) (p : Pkt) : Ext p (applyAct a p) := by
  cases a
  case add l => exact ⟨rfl, ⟨[l], rfl⟩, fun _ h => h, fun _ h => h, fun _ h => h, fun _ h => h, fun _ h => h⟩
  case setLink l => exact ⟨rfl, ⟨[], by simp [applyAct]⟩, fun _ h => setOnce_keep _ _ _ h, fun _ h => h, fun _ h => h, fun _ h => h, fun _ h => h⟩
  case setNet l => exact ⟨rfl, ⟨[], by simp [applyAct]⟩, fun _ h => h, fun _ h => setOnce_keep _ _ _ h, fun _ h => h, fun _ h => h, fun _ h => h⟩
  case setTrans l => exact ⟨rfl, ⟨[], by simp [applyAct]⟩, fun _ h => h, fun _ h => h, fun _ h => setOnce_keep _ _ _ h, fun _ h => h, fun _ h => h⟩
  case setApp l => exact ⟨rfl, ⟨[], by simp [applyAct]⟩, fun _ h => h, fun _ h => h, fun _ h => h, fun _ h => setOnce_keep _ _ _ h, fun _ h => h⟩
  case setErr l => exact ⟨rfl, ⟨[], by simp [applyAct]⟩, fun _ h => h, fun _ h => h, fun _ h => h, fun _ h => h, fun _ h => setOnce_keep _ _ _ h⟩
  case trunc => exact ⟨rfl, ⟨[], by simp [applyAct]⟩, fun _ h => h, fun _ h => h, fun _ h => h, fun _ h => h, fun _ h => h⟩

theorem addFinal_ext (p : Pkt) : Ext p (addFinal p) :=
  ⟨rfl, ⟨[failLayer p], rfl⟩, fun _ h => h, fun _ h => h, fun _ h => h, fun _ h => h,
    fun _ h => setOnce_keep _ _ _ h⟩

theorem lazyBeh_ext (b : Beh) : ∀ lp : LPkt, Ext lp.p (lazyBeh b lp).1.p := by
  induction b with
  | ret e => intro lp; exact Ext.refl _
  | panic => intro lp; exact Ext.refl _
  | act a k ih => intro lp; exact (applyAct_ext a lp.p).trans (ih { lp with p := applyAct a lp.p })
  | next d kOk kErr ih1 ih2 =>
    intro lp
    cases d with
    | none => exact ih2 lp
    | some d => exact ih1 { lp with next := some d }

/-- With recovery on no panic escapes decodeNextLayer. -/
theorem step_recover_flag (tab : Table) (lp : LPkt) : (step tab true lp).2 = false := by
  unfold step
  split
  · rfl
  · dsimp only
    split
    · rfl
    · split <;> simp_all

theorem step_ext (tab : Table) (rc : Bool) (lp : LPkt) : Ext lp.p (step tab rc lp).1.p := by
  unfold step
  split
  · exact Ext.refl _
  · rename_i d hd
    dsimp only
    split
    · exact Ext.refl _
    · have h := lazyBeh_ext (tab d lp.p.data (inputWin lp.p).1 (inputWin lp.p).2) { lp with next := none }
      split
      · rename_i lp2 heq; rw [heq] at h; exact h
      · rename_i lp2 heq; rw [heq] at h; exact h.trans (addFinal_ext _)
      · rename_i lp2 heq; rw [heq] at h
        cases rc
        · exact h
        · exact h.trans (addFinal_ext _)

theorem step_of_none (tab : Table) (rc : Bool) (lp : LPkt) (h : lp.next = none) : step tab rc lp = (lp, false) := by
  unfold step; rw [h]

/-! ## force -/

theorem force_of_none (tab : Table) (n : Nat) (lp : LPkt) (h : lp.next = none) : force tab n lp = some lp.p := by
  cases n <;> simp [force, h]

theorem force_succ_of_some (tab : Table) (n : Nat) (lp : LPkt) (d : DecId) (h : lp.next = some d) :
    force tab (n + 1) lp = force tab n (step tab true lp).1 := by
  simp [force, h]

theorem force_mono (tab : Table) : ∀ (n : Nat) (lp : LPkt) (q : Pkt), force tab n lp = some q → force tab (n + 1) lp = some q := by
  intro n
  induction n with
  | zero =>
    intro lp q h
    cases hn : lp.next with
    | none => rw [force_of_none _ _ _ hn] at *; exact h
    | some d => simp [force, hn] at h
  | succ n ih =>
    intro lp q h
    cases hn : lp.next with
    | none => rw [force_of_none _ _ _ hn] at *; exact h
    | some d =>
      rw [force_succ_of_some _ _ _ _ hn] at *
      exact ih _ _ h

theorem force_ext (tab : Table) : ∀ (n : Nat) (lp : LPkt) (q : Pkt), force tab n lp = some q → Ext lp.p q := by
  intro n
  induction n with
  | zero =>
    intro lp q h
    cases hn : lp.next with
    | none => rw [force_of_none _ _ _ hn] at h; cases h; exact Ext.refl _
    | some d => simp [force, hn] at h
  | succ n ih =>
    intro lp q h
    cases hn : lp.next with
    | none => rw [force_of_none _ _ _ hn] at h; cases h; exact Ext.refl _
    | some d =>
      rw [force_succ_of_some _ _ _ _ hn] at h
      exact (step_ext tab true lp).trans (ih _ _ h)

/-! ## Lazy accessors answer from the fully forced packet (ALL tables) -/

theorem step_true_pair (tab : Table) (lp : LPkt) : step tab true lp = ((step tab true lp).1, false) := by
  have h := step_recover_flag tab lp
  cases hs : step tab true lp with
  | mk a b => rw [hs] at h; simp at h; rw [h]

theorem loopUntil_force (tab : Table) (stop : Pkt → Bool) : ∀ (n : Nat) (lp : LPkt) (q : Pkt),
    force tab n lp = some q →
    ∃ lp', loopUntil tab true stop n lp = .ok lp' ∧ force tab n lp' = some q
      ∧ (stop lp'.p = true ∨ lp'.next = none) := by
  intro n
  induction n with
  | zero =>
    intro lp q h
    cases hn : lp.next with
    | none => exact ⟨lp, by simp [loopUntil, hn], h, Or.inr hn⟩
    | some d => simp [force, hn] at h
  | succ n ih =>
    intro lp q h
    by_cases hc : (stop lp.p || lp.next.isNone) = true
    · refine ⟨lp, by simp only [loopUntil, hc, if_true], h, ?_⟩
      rcases Bool.or_eq_true_iff.mp hc with h1 | h1
      · exact Or.inl h1
      · exact Or.inr (Option.isNone_iff_eq_none.mp h1)
    · have hsome : ∃ d, lp.next = some d := by
        cases hn : lp.next with
        | none => simp [hn] at hc
        | some d => exact ⟨d, rfl⟩
      obtain ⟨d, hd⟩ := hsome
      rw [force_succ_of_some _ _ _ _ hd] at h
      obtain ⟨lp', h1, h2, h3⟩ := ih _ _ h
      refine ⟨lp', ?_, force_mono _ _ _ _ h2, h3⟩
      simp only [loopUntil, hc]
      rw [step_true_pair]
      simpa using h1

theorem find_append_left {pred : Layer → Bool} {xs s : List Layer} {l : Layer}
    (h : xs.find? pred = some l) : (xs ++ s).find? pred = some l := by
  rw [List.find?_append, h]; rfl

theorem find_append_none {pred : Layer → Bool} {xs s : List Layer}
    (h : xs.find? pred = none) : (xs ++ s).find? pred = s.find? pred := by
  rw [List.find?_append, h]; rfl

theorem findLoop_force (tab : Table) (pred : Layer → Bool) : ∀ (n num : Nat) (lp : LPkt) (q : Pkt),
    force tab n lp = some q → num = lp.p.layers.length → lp.p.layers.find? pred = none →
    ∃ lp', findLoop tab true pred n num lp = (.ok lp', q.layers.find? pred) ∧ force tab n lp' = some q := by
  intro n
  induction n with
  | zero =>
    intro num lp q h hnum hnone
    cases hn : lp.next with
    | none =>
      rw [force_of_none _ _ _ hn] at h; cases h
      exact ⟨lp, by simp [findLoop, hn, hnone], force_of_none _ _ _ hn⟩
    | some d => simp [force, hn] at h
  | succ n ih =>
    intro num lp q h hnum hnone
    cases hn : lp.next with
    | none =>
      rw [force_of_none _ _ _ hn] at h; cases h
      exact ⟨lp, by simp [findLoop, hn, hnone], force_of_none _ _ _ hn⟩
    | some d =>
      rw [force_succ_of_some _ _ _ _ hn] at h
      obtain ⟨s, hs⟩ := (step_ext tab true lp).hlayers
      have hdrop : (step tab true lp).1.p.layers.drop num = s := by
        rw [hs]; exact List.drop_left' hnum.symm
      cases hf : s.find? pred with
      | some l =>
        obtain ⟨s', hs'⟩ := (force_ext tab _ _ _ h).hlayers
        refine ⟨(step tab true lp).1, ?_, force_mono _ _ _ _ h⟩
        have hq : q.layers.find? pred = some l := by
          rw [hs', hs, List.append_assoc, find_append_none hnone]
          exact find_append_left hf
        simp only [findLoop, hn, Option.isNone_some]
        rw [step_true_pair]
        simp [hdrop, hf, hq]
      | none =>
        have hnone' : (step tab true lp).1.p.layers.find? pred = none := by
          rw [hs, find_append_none hnone]; exact hf
        obtain ⟨lp', h1, h2⟩ := ih (step tab true lp).1.p.layers.length _ _ h rfl hnone'
        refine ⟨lp', ?_, force_mono _ _ _ _ h2⟩
        simp only [findLoop, hn, Option.isNone_some]
        rw [step_true_pair]
        simp [hdrop, hf, h1]

theorem lazyFind_force (tab : Table) (pred : Layer → Bool) (n : Nat) (lp : LPkt) (q : Pkt)
    (h : force tab n lp = some q) :
    (lazyFind tab true n pred lp).2 = .layer (q.layers.find? pred)
      ∧ force tab n (lazyFind tab true n pred lp).1 = some q := by
  unfold lazyFind
  cases hf : lp.p.layers.find? pred with
  | some l =>
    obtain ⟨s, hs⟩ := (force_ext tab _ _ _ h).hlayers
    simp only
    rw [hs, find_append_left hf]
    exact ⟨rfl, h⟩
  | none =>
    obtain ⟨lp', h1, h2⟩ := findLoop_force tab pred n _ lp q h rfl hf
    simp only [h1]
    exact ⟨trivial, h2⟩

/-- A loop-type accessor: stop as soon as the projection is set; the answer is the final one. -/
theorem afterLoop_force (tab : Table) (n : Nat) (lp : LPkt) (q : Pkt) (stop : Pkt → Bool) (f : Pkt → Ans)
    (h : force tab n lp = some q)
    (hstable : ∀ p' : Pkt, Ext p' q → stop p' = true → f p' = f q) :
    (afterLoop lp (loopUntil tab true stop n lp) f).2 = f q
      ∧ force tab n (afterLoop lp (loopUntil tab true stop n lp) f).1 = some q := by
  obtain ⟨lp', h1, h2, h3⟩ := loopUntil_force tab stop n lp q h
  rw [h1]
  simp only [afterLoop]
  refine ⟨?_, h2⟩
  rcases h3 with h3 | h3
  · exact hstable _ (force_ext tab _ _ _ h2) h3
  · rw [force_of_none _ _ _ h3] at h2; cases h2; rfl

theorem lazyAcc_force (tab : Table) (n : Nat) (a : Acc) (lp : LPkt) (q : Pkt) (h : force tab n lp = some q) :
    (lazyAcc tab true n a lp).2 = evalEager a q ∧ force tab n (lazyAcc tab true n a lp).1 = some q := by
  cases a with
  | layers => exact afterLoop_force tab n lp q _ _ h (by intro p' _ hs; simp at hs)
  | string => exact afterLoop_force tab n lp q _ _ h (by intro p' _ hs; simp at hs)
  | dump => exact afterLoop_force tab n lp q _ _ h (by intro p' _ hs; simp at hs)
  | layer t => exact lazyFind_force tab _ n lp q h
  | layerClass c => exact lazyFind_force tab _ n lp q h
  | link =>
    refine afterLoop_force tab n lp q _ _ h ?_
    intro p' he hs
    obtain ⟨x, hx⟩ := Option.isSome_iff_exists.mp hs
    simp only [hx, he.hlink x hx]
  | net =>
    refine afterLoop_force tab n lp q _ _ h ?_
    intro p' he hs
    obtain ⟨x, hx⟩ := Option.isSome_iff_exists.mp hs
    simp only [hx, he.hnet x hx]
  | trans =>
    refine afterLoop_force tab n lp q _ _ h ?_
    intro p' he hs
    obtain ⟨x, hx⟩ := Option.isSome_iff_exists.mp hs
    simp only [hx, he.htrans x hx]
  | app =>
    refine afterLoop_force tab n lp q _ _ h ?_
    intro p' he hs
    obtain ⟨x, hx⟩ := Option.isSome_iff_exists.mp hs
    simp only [hx, he.happ x hx]
  | err =>
    refine afterLoop_force tab n lp q _ _ h ?_
    intro p' he hs
    obtain ⟨x, hx⟩ := Option.isSome_iff_exists.mp hs
    simp only [hx, he.hfailure x hx]

/-- Any accessor program on a lazy packet answers as the same program on the forced packet, and
    leaves a state that still forces to the same packet. -/
theorem runLazy_force (tab : Table) (n : Nat) : ∀ (prog : List Acc) (lp : LPkt) (q : Pkt),
    force tab n lp = some q →
    runLazy tab true n prog lp = runEager prog q ∧ force tab n (stateAfter tab true n prog lp) = some q := by
  intro prog
  induction prog with
  | nil => intro lp q h; exact ⟨rfl, h⟩
  | cons a rest ih =>
    intro lp q h
    obtain ⟨h1, h2⟩ := lazyAcc_force tab n a lp q h
    obtain ⟨h3, h4⟩ := ih _ q h2
    refine ⟨?_, h4⟩
    simp only [runLazy, runEager, List.map_cons]
    rw [h1, h3]; rfl

/-! ## Under the discipline D, eager decoding = forcing the lazy packet -/

/-- What initialDecode / decodeNextLayer make of a decoder's outcome. -/
def finish (p : Pkt) : Out → Pkt
  | .ret false => p
  | _ => addFinal p

/-- `return p.NextDecoder(d)`: the callee's outcome is the caller's outcome. -/
theorem eager_tail_pass (run : DecId → Nat → Nat → Pkt → Option (Pkt × Out)) (r : Option (Pkt × Out)) :
    (match r with
      | none => none
      | some (p', .ret false) => eagerBeh run (.ret false) p'
      | some (p', .ret true) => eagerBeh run (.ret true) p'
      | some (p', .panic) => some (p', .panic)) = r := by
  cases r with
  | none => rfl
  | some x =>
    obtain ⟨p', o⟩ := x
    cases o with
    | ret e => cases e <;> rfl
    | panic => rfl

theorem applyAct_last_of_not_add (a : Act) (p : Pkt) (h : ∀ l, a ≠ .add l) : (applyAct a p).last = p.last := by
  cases a <;> first | rfl | exact absurd rfl (h _)

/-- One disciplined decoder body, run lazily and eagerly from the same packet: either it ends
    without a continuation (same packet, same outcome), or it ends in `return p.NextDecoder(d')`
    after adding a layer `l` with a strictly shorter payload — the lazy run stores `d'`, the eager
    run calls it at once on `l`'s payload (or returns nil if that is empty). -/
theorem DBeh_sim (run : DecId → Nat → Nat → Pkt → Option (Pkt × Out)) (m : Nat) (μ : Measure) (b : Beh) :
    ∀ (la : Option Layer) (p : Pkt) (nx : Option DecId),
    DBeh m μ la b → (∀ l, la = some l → p.last = some l) →
    (∃ p2 out, lazyBeh b ⟨p, nx⟩ = (⟨p2, nx⟩, out) ∧ eagerBeh run b p = some (p2, out)
        ∧ (out = .ret false ∨ out = .ret true ∨ out = .panic))
    ∨ (∃ p2 d' l, lazyBeh b ⟨p, nx⟩ = (⟨p2, some d'⟩, .ret false) ∧ p2.last = some l ∧ (μ d' l.payLen < m ∨ l.payLen = 0)
        ∧ eagerBeh run b p = if l.payLen = 0 then some (p2, .ret false) else run d' l.poff l.payLen p2) := by
  induction b with
  | ret e =>
    intro la p nx _ _
    exact Or.inl ⟨p, .ret e, rfl, rfl, by cases e <;> simp⟩
  | panic =>
    intro la p nx _ _
    exact Or.inl ⟨p, .panic, rfl, rfl, by simp⟩
  | act a k ih =>
    intro la p nx hD hla
    cases a with
    | add l =>
      have := ih (some l) (applyAct (.add l) p) nx (by simpa [DBeh] using hD) (by intro l' h; cases h; rfl)
      simpa [lazyBeh, eagerBeh] using this
    | setLink l =>
      have := ih la (applyAct (.setLink l) p) nx (by simpa [DBeh] using hD) hla
      simpa [lazyBeh, eagerBeh] using this
    | setNet l =>
      have := ih la (applyAct (.setNet l) p) nx (by simpa [DBeh] using hD) hla
      simpa [lazyBeh, eagerBeh] using this
    | setTrans l =>
      have := ih la (applyAct (.setTrans l) p) nx (by simpa [DBeh] using hD) hla
      simpa [lazyBeh, eagerBeh] using this
    | setApp l =>
      have := ih la (applyAct (.setApp l) p) nx (by simpa [DBeh] using hD) hla
      simpa [lazyBeh, eagerBeh] using this
    | setErr l =>
      have := ih la (applyAct (.setErr l) p) nx (by simpa [DBeh] using hD) hla
      simpa [lazyBeh, eagerBeh] using this
    | trunc =>
      have := ih la (applyAct .trunc p) nx (by simpa [DBeh] using hD) hla
      simpa [lazyBeh, eagerBeh] using this
  | next d kOk kErr _ _ =>
    intro la p nx hD hla
    cases d with
    | none =>
      have hk : kErr = .ret true := by simpa [DBeh] using hD
      subst hk
      exact Or.inl ⟨p, .ret true, rfl, rfl, by simp⟩
    | some d' =>
      obtain ⟨hk1, hk2, l, hl, hlt⟩ : kOk = .ret false ∧ kErr = .ret true ∧ ∃ l, la = some l ∧ (μ d' l.payLen < m ∨ l.payLen = 0) := by
        simpa [DBeh] using hD
      subst hk1 hk2
      have hlast := hla l hl
      refine Or.inr ⟨p, d', l, rfl, hlast, hlt, ?_⟩
      simp only [eagerBeh, hlast]
      split
      · rfl
      · exact eager_tail_pass run _

theorem inputWin_of_last (p : Pkt) (l : Layer) (h : p.last = some l) : inputWin p = (l.poff, l.payLen) := by
  simp [inputWin, h]

/-- decodeNextLayer when there is input and a decoder, by the decoder's outcome. -/
theorem step_run_ok (tab : Table) (rc : Bool) (p : Pkt) (d : DecId) (off len : Nat) (lp2 : LPkt)
    (hw : inputWin p = (off, len)) (hlen : len ≠ 0)
    (h : lazyBeh (tab d p.data off len) ⟨p, none⟩ = (lp2, .ret false)) :
    step tab rc ⟨p, some d⟩ = (lp2, false) := by
  simp [step, hw, hlen, h]

theorem step_run_err (tab : Table) (rc : Bool) (p : Pkt) (d : DecId) (off len : Nat) (lp2 : LPkt)
    (hw : inputWin p = (off, len)) (hlen : len ≠ 0)
    (h : lazyBeh (tab d p.data off len) ⟨p, none⟩ = (lp2, .ret true)) :
    step tab rc ⟨p, some d⟩ = ({ lp2 with p := addFinal lp2.p }, false) := by
  simp [step, hw, hlen, h]

theorem step_run_panic (tab : Table) (p : Pkt) (d : DecId) (off len : Nat) (lp2 : LPkt)
    (hw : inputWin p = (off, len)) (hlen : len ≠ 0)
    (h : lazyBeh (tab d p.data off len) ⟨p, none⟩ = (lp2, .panic)) :
    step tab true ⟨p, some d⟩ = ({ lp2 with p := addFinal lp2.p }, false) := by
  simp [step, hw, hlen, h]

theorem step_run_panic_skip (tab : Table) (p : Pkt) (d : DecId) (off len : Nat) (lp2 : LPkt)
    (hw : inputWin p = (off, len)) (hlen : len ≠ 0)
    (h : lazyBeh (tab d p.data off len) ⟨p, none⟩ = (lp2, .panic)) :
    step tab false ⟨p, some d⟩ = (lp2, true) := by
  simp [step, hw, hlen, h]

theorem step_empty (tab : Table) (rc : Bool) (p : Pkt) (d : DecId) (off : Nat)
    (hw : inputWin p = (off, 0)) : step tab rc ⟨p, some d⟩ = (⟨p, none⟩, false) := by
  simp [step, hw]

/-- Centrepiece of C03: under the discipline, the eager run of decoder `d` from packet `p` and forcing the
    lazy packet `(p, next := d)` build the same packet — for every fuel that covers the input
    length (each chained decoder gets a strictly shorter, non-empty input). -/
theorem eager_force_sim (μ : Measure) (tab : Table) (hD : DM μ tab) : ∀ (fuelE fuelL : Nat) (d : DecId) (off len : Nat) (p : Pkt),
    len ≠ 0 → inputWin p = (off, len) → μ d len + 1 ≤ fuelE → μ d len + 2 ≤ fuelL →
    ∃ p' out, eagerDec tab fuelE d off len p = some (p', out)
      ∧ force tab fuelL ⟨p, some d⟩ = some (finish p' out) := by
  intro fuelE
  induction fuelE with
  | zero => intro fuelL d off len p h0 _ hle _; omega
  | succ n ih =>
    intro fuelL d off len p h0 hw hle hlf
    obtain ⟨m, rfl⟩ : ∃ m, fuelL = m + 1 := ⟨fuelL - 1, by omega⟩
    rw [force_succ_of_some tab m ⟨p, some d⟩ d rfl]
    simp only [eagerDec]
    rcases DBeh_sim (eagerDec tab n) (μ d len) μ (tab d p.data off len) none p none (hD d p.data off len) (by intro l h; cases h) with
      ⟨p2, out, hl, he, ho⟩ | ⟨p2, d', l, hl, hlast, hlt, he⟩
    · refine ⟨p2, out, he, ?_⟩
      rcases ho with rfl | rfl | rfl
      · rw [step_run_ok tab true p d off len _ hw h0 hl]; simp [finish, force_of_none]
      · rw [step_run_err tab true p d off len _ hw h0 hl]; simp [finish, force_of_none]
      · rw [step_run_panic tab p d off len _ hw h0 hl]; simp [finish, force_of_none]
    · rw [step_run_ok tab true p d off len _ hw h0 hl, he]
      simp only
      by_cases hz : l.payLen = 0
      · refine ⟨p2, .ret false, by simp [hz], ?_⟩
        obtain ⟨m', rfl⟩ : ∃ m', m = m' + 1 := ⟨m - 1, by omega⟩
        rw [force_succ_of_some tab m' ⟨p2, some d'⟩ d' rfl,
            step_empty tab true p2 d' l.poff (by rw [inputWin_of_last p2 l hlast, hz])]
        simp [finish, force_of_none]
      · simp only [hz, if_false]
        exact ih m d' l.poff l.payLen p2 hz (inputWin_of_last p2 l hlast) (by omega) (by omega)

/-- Termination of eager decoding under D, from any packet state (no assumption on `p`). -/
theorem eagerDec_terminates (μ : Measure) (tab : Table) (hD : DM μ tab) : ∀ (fuel : Nat) (d : DecId) (off len : Nat) (p : Pkt),
    μ d len + 1 ≤ fuel → ∃ r, eagerDec tab fuel d off len p = some r := by
  intro fuel
  induction fuel with
  | zero => intro d off len p h; omega
  | succ n ih =>
    intro d off len p h
    simp only [eagerDec]
    rcases DBeh_sim (eagerDec tab n) (μ d len) μ (tab d p.data off len) none p none (hD d p.data off len) (by intro l h; cases h) with
      ⟨p2, out, _, he, _⟩ | ⟨p2, d', l, _, _, hlt, he⟩
    · exact ⟨_, he⟩
    · rw [he]
      by_cases hz : l.payLen = 0
      · exact ⟨(p2, .ret false), by simp [hz]⟩
      · simp only [hz, if_false]
        exact ih d' l.poff l.payLen p2 (by omega)

/-- After an accessor that forces all layers the lazy packet IS the eager packet. -/
theorem force_all_state (tab : Table) (n : Nat) (lp : LPkt) (q : Pkt) (f : Pkt → Ans)
    (h : force tab n lp = some q) :
    (afterLoop lp (loopUntil tab true (fun _ => false) n lp) f).1 = ⟨q, none⟩ := by
  obtain ⟨lp', h1, h2, h3⟩ := loopUntil_force tab (fun _ => false) n lp q h
  rw [h1]
  simp only [afterLoop]
  rcases h3 with h3 | h3
  · simp at h3
  · rw [force_of_none _ _ _ h3] at h2
    cases lp' with
    | mk p' nx => simp at h3 h2; subst h3 h2; rfl

/-! ## Scripted tables: the discipline as a decidable check on scripts -/

def LSpec.progress : LSpec → Bool
  | .rel _ _ _ skip pl fail => fail || decide (1 ≤ skip) || pl == 0
  | .abs _ _ _ _ _ plen fail => fail || plen == 0

/-- The discipline on a script (what harness/cmd/gp-pkt `inD` computes). -/
def SBeh.disc : Option LSpec → SBeh → Bool
  | _, .ret _ => true
  | _, .panic => true
  | _, .act (.add s) k => SBeh.disc (some s) k
  | la, .act _ k => SBeh.disc la k
  | _, .next none _ kErr => match kErr with | .ret true => true | _ => false
  | la, .next (some _) kOk kErr =>
    (match kOk with | .ret false => true | _ => false) && (match kErr with | .ret true => true | _ => false)
      && (match la with | some s => s.progress | none => false)

theorem LSpec.progress_sound (s : LSpec) (off len : Nat) (h : s.progress = true) :
    (s.mk' off len).payLen < len ∨ (s.mk' off len).payLen = 0 := by
  cases s with
  | rel id ty c skip pl fail =>
    simp only [LSpec.progress, Bool.or_eq_true, decide_eq_true_eq, beq_iff_eq] at h
    simp only [LSpec.mk', Layer.payLen]
    by_cases hf : fail = true
    · right; simp [hf]
    · simp only [hf, Bool.false_eq_true, if_false]
      rcases h with (h | h) | h
      · exact absurd h hf
      · simp only [Nat.min_def]; split <;> split <;> omega
      · right; subst h; simp
  | abs id ty coff clen poff plen fail =>
    simp only [LSpec.progress, Bool.or_eq_true, beq_iff_eq] at h
    simp only [LSpec.mk', Layer.payLen]
    right
    rcases h with h | h
    · simp [h]
    · simp [h]

theorem SBeh.disc_sound (off len : Nat) (s : SBeh) : ∀ (la : Option LSpec),
    SBeh.disc la s = true → DBeh len lenMeasure (la.map (fun x => x.mk' off len)) (s.inst off len) := by
  induction s with
  | ret e => intro la _; simp [SBeh.inst, DBeh]
  | panic => intro la _; simp [SBeh.inst, DBeh]
  | act a k ih =>
    intro la h
    cases a with
    | add sp => simpa [SBeh.inst, SAct.inst, DBeh] using ih (some sp) (by simpa [SBeh.disc] using h)
    | setLink sp => simpa [SBeh.inst, SAct.inst, DBeh] using ih la (by simpa [SBeh.disc] using h)
    | setNet sp => simpa [SBeh.inst, SAct.inst, DBeh] using ih la (by simpa [SBeh.disc] using h)
    | setTrans sp => simpa [SBeh.inst, SAct.inst, DBeh] using ih la (by simpa [SBeh.disc] using h)
    | setApp sp => simpa [SBeh.inst, SAct.inst, DBeh] using ih la (by simpa [SBeh.disc] using h)
    | setErr sp => simpa [SBeh.inst, SAct.inst, DBeh] using ih la (by simpa [SBeh.disc] using h)
    | trunc => simpa [SBeh.inst, SAct.inst, DBeh] using ih la (by simpa [SBeh.disc] using h)
  | next d kOk kErr _ _ =>
    intro la h
    cases d with
    | none =>
      simp only [SBeh.disc] at h
      split at h
      · simp [SBeh.inst, DBeh]
      · simp at h
    | some d' =>
      simp only [SBeh.disc, Bool.and_eq_true] at h
      obtain ⟨⟨h1, h2⟩, h3⟩ := h
      split at h1
      · split at h2
        · cases la with
          | none => simp at h3
          | some sp =>
            simp only [SBeh.inst, DBeh, Option.map_some]
            exact ⟨trivial, trivial, _, rfl, LSpec.progress_sound sp off len h3⟩
        · simp at h2
      · simp at h1

/-- A list of scripts that pass the check is a disciplined table. -/
theorem scriptTable_D (scripts : List SBeh) (h : ∀ s ∈ scripts, SBeh.disc none s = true) :
    D (scriptTable scripts) := by
  intro d data off len
  simp only [scriptTable]
  cases hs : scripts[d]? with
  | none => simp [DBeh]
  | some s =>
    have := SBeh.disc_sound off len s none (h s (List.mem_of_getElem? hs))
    simpa [lenMeasure] using this

end Gp.Pkt
