import Gp.Lemmas.ChecksumBytes
/-
  Helper lemmas for C08: the generic emission / verification theorems (proved once for
  `emitAt` / `verifyWith` / `verifyAt`, instantiated per protocol in Gp/Props/C08.lean).
-/
namespace Gp.CksumEmit
open Gp Gp.Cksum

/-- what a protocol's transmission rule for the checksum value may do: stay a 16-bit value in the same
    residue class modulo 65535 (identity; UDP's 0 ↦ 0xffff) -/
structure PostOk (post : Nat → Nat) : Prop where
  le : ∀ x, x ≤ 65535 → post x ≤ 65535
  mod : ∀ x, x ≤ 65535 → post x % 65535 = x % 65535

theorem postId_ok : PostOk postId := ⟨fun _ h => h, fun _ _ => rfl⟩

theorem postUdp_ok : PostOk postUdp := by
  constructor
  · intro x h; unfold postUdp; split <;> omega
  · intro x h; unfold postUdp; split <;> omega

/-- side conditions shared by all generic theorems: `c0` is the word sum of the (even-length) pseudo-header
    `pre`, the field is aligned and inside the segment, the segment fits an address space -/
structure Ctx (pre : Bytes) (c0 off : Nat) (seg : Bytes) : Prop where
  c0_eq : c0 = wordsum pre
  c0_lt : c0 < W32
  pre_even : pre.length % 2 = 0
  off_even : off % 2 = 0
  off_in : off + 2 ≤ seg.length
  len_le : seg.length ≤ 281474976710656

theorem Ctx.put {pre c0 off seg} (h : Ctx pre c0 off seg) (v : Nat) : Ctx pre c0 off (put16At seg off v) :=
  { h with off_in := by rw [length_put16At _ _ _ h.off_in]; exact h.off_in,
           len_le := by rw [length_put16At _ _ _ h.off_in]; exact h.len_le }

/-- the code's value for a segment whose field is zero = the RFC 1071 reference -/
theorem fold_compute_ref {pre c0 off seg} (h : Ctx pre c0 off seg) :
    fold (compute (put16At seg off 0) c0) = rfc1071 (pre ++ put16At seg off 0) := by
  have hz := h.put 0
  rw [fold_compute _ _ h.c0_lt hz.len_le, rfc1071_eq, wordsum_append _ _ h.pre_even, h.c0_eq]

theorem rfc1071_le (d : Bytes) : rfc1071 d ≤ 65535 := by unfold rfc1071; omega

/-- emission writes the reference value -/
theorem emitAt_field {pre c0 off seg} (post : Nat → Nat) (hp : PostOk post) (h : Ctx pre c0 off seg) :
    get16At? (emitAt c0 off post seg) off = some (refCk pre off post seg) := by
  unfold emitAt refCk
  simp only []
  rw [fold_compute_ref h]
  apply get16At_put16At _ _ _ (h.put 0).off_in
  have := hp.le _ (rfc1071_le (pre ++ put16At seg off 0)); omega

theorem emitAt_length {c0 off seg} (post : Nat → Nat) (h : off + 2 ≤ seg.length) :
    (emitAt c0 off post seg).length = seg.length := by
  unfold emitAt; simp only []
  rw [length_put16At _ _ _ (by rw [length_put16At _ _ _ h]; exact h), length_put16At _ _ _ h]

/-- zeroing the field of the emitted segment gives back the zeroed input -/
theorem zero_emitAt {c0 off seg} (post : Nat → Nat) (h : off + 2 ≤ seg.length) :
    put16At (emitAt c0 off post seg) off 0 = put16At seg off 0 := by
  unfold emitAt; simp only []
  rw [put16At_put16At _ _ _ _ (by rw [length_put16At _ _ _ h]; exact h), put16At_put16At _ _ _ _ h]

/-- VerifyChecksum's `Correct` is the reference value of the segment it was given — for EVERY segment
    (valid, corrupted, any length): the `verification - uint32(existing)` idiom never underflows -/
theorem verifyWith_correct {pre c0 off seg} (post : Nat → Nat) (nk : Bool) (e : Nat) (h : Ctx pre c0 off seg)
    (he : get16At? seg off = some e) :
    (verifyWith c0 post nk e seg).correct = refCk pre off post seg := by
  have helt := get16At_lt _ _ _ he
  have hws := wordsum_put16At seg off 0 e h.off_even h.off_in (by omega) he
  have hT := total_lt_W64 seg c0 h.c0_lt h.len_le
  obtain ⟨r1, r2, r3, r4, _⟩ := reduce_props (c0 + wordsum seg) hT
  have hz := h.put 0
  have hS := total_lt_W64 _ c0 h.c0_lt hz.len_le
  unfold verifyWith refCk
  simp only []
  rw [← fold_compute_ref h, fold_compute _ _ h.c0_lt hz.len_le, compute_eq _ _ h.c0_lt h.len_le]
  congr 1
  simp only [W32] at *
  by_cases hlt : c0 + wordsum seg < 4294967296
  · have hv := r3 hlt
    have hx : (reduce (c0 + wordsum seg) + 4294967296 - e) % 4294967296 = c0 + wordsum (put16At seg off 0) := by omega
    rw [hx, fold_closed _ (by simp only [W32]; omega)]
  · have hv := r4 (by omega)
    have hx : (reduce (c0 + wordsum seg) + 4294967296 - e) % 4294967296 = reduce (c0 + wordsum seg) - e := by omega
    rw [hx, fold_closed _ (by simp only [W32]; omega)]
    congr 1
    apply ocRep_congr
    · omega
    · omega

theorem verifyWith_actual (c0 : Nat) (post : Nat → Nat) (nk : Bool) (e : Nat) (seg : Bytes) :
    (verifyWith c0 post nk e seg).actual = e := rfl

theorem verifyWith_valid (c0 : Nat) (post : Nat → Nat) (nk : Bool) (e : Nat) (seg : Bytes) :
    (verifyWith c0 post nk e seg).valid = (nk || (verifyWith c0 post nk e seg).correct == e) := rfl

/-- verification accepts what emission wrote, with Correct = Actual = reference -/
theorem verifyAt_emitAt {pre c0 off seg} (post : Nat → Nat) (noCk : Nat → Bool) (hp : PostOk post) (h : Ctx pre c0 off seg) :
    verifyAt c0 off post noCk (emitAt c0 off post seg) =
      .ok { valid := true, correct := refCk pre off post seg, actual := refCk pre off post seg } := by
  have hf := emitAt_field post hp h
  have hctx : Ctx pre c0 off (emitAt c0 off post seg) :=
    { h with off_in := by rw [emitAt_length post h.off_in]; exact h.off_in,
             len_le := by rw [emitAt_length post h.off_in]; exact h.len_le }
  have hc := verifyWith_correct post (noCk (refCk pre off post seg)) _ hctx hf
  have hr : refCk pre off post (emitAt c0 off post seg) = refCk pre off post seg := by
    unfold refCk; rw [zero_emitAt post h.off_in]
  rw [hr] at hc
  unfold verifyAt
  rw [hf]
  simp only []
  congr 1
  have hv := verifyWith_valid c0 post (noCk (refCk pre off post seg)) (refCk pre off post seg) (emitAt c0 off post seg)
  have ha := verifyWith_actual c0 post (noCk (refCk pre off post seg)) (refCk pre off post seg) (emitAt c0 off post seg)
  generalize verifyWith c0 post (noCk (refCk pre off post seg)) (refCk pre off post seg) (emitAt c0 off post seg) = r at *
  cases r with
  | mk v c a =>
    simp only at hc hv ha
    subst hc ha
    simp [hv]

/-- the sum of a segment carrying its reference checksum is a multiple of 65535 -/
theorem emitted_sum_mod {pre c0 off seg} (post : Nat → Nat) (hp : PostOk post) (h : Ctx pre c0 off seg) :
    (c0 + wordsum (emitAt c0 off post seg)) % 65535 = 0 := by
  have hf := emitAt_field post hp h
  have hlen := emitAt_length (c0 := c0) post h.off_in
  have hws := wordsum_put16At (emitAt c0 off post seg) off 0 _ h.off_even (by rw [hlen]; exact h.off_in) (by omega) hf
  rw [zero_emitAt post h.off_in] at hws
  have hm := hp.mod _ (rfc1071_le (pre ++ put16At seg off 0))
  have hr : rfc1071 (pre ++ put16At seg off 0) = 65535 - ocRep (c0 + wordsum (put16At seg off 0)) := by
    rw [rfc1071_eq, wordsum_append _ _ h.pre_even, h.c0_eq]
  have := ocRep_le (c0 + wordsum (put16At seg off 0))
  have := ocRep_mod (c0 + wordsum (put16At seg off 0))
  unfold refCk at hws
  omega

/-- a segment whose stored checksum equals VerifyChecksum's Correct has a sum that is a multiple of 65535 -/
theorem accepted_sum_mod {pre c0 off seg} (post : Nat → Nat) (hp : PostOk post) (e : Nat) (h : Ctx pre c0 off seg)
    (he : get16At? seg off = some e) (hv : refCk pre off post seg = e) :
    (c0 + wordsum seg) % 65535 = 0 := by
  have hws := wordsum_put16At seg off 0 e h.off_even h.off_in (by omega) he
  have hm := hp.mod _ (rfc1071_le (pre ++ put16At seg off 0))
  have hr : rfc1071 (pre ++ put16At seg off 0) = 65535 - ocRep (c0 + wordsum (put16At seg off 0)) := by
    rw [rfc1071_eq, wordsum_append _ _ h.pre_even, h.c0_eq]
  have := ocRep_le (c0 + wordsum (put16At seg off 0))
  have := ocRep_mod (c0 + wordsum (put16At seg off 0))
  unfold refCk at hv
  omega

/-- single-bit corruption of an emitted segment: Correct is the reference of the corrupted segment and,
    unless the stored value now is the protocol's "no checksum" encoding, Valid is false -/
theorem verifyAt_flip {pre c0 off seg} (post : Nat → Nat) (noCk : Nat → Bool) (hp : PostOk post) (h : Ctx pre c0 off seg)
    (i : Nat) (hi : i < 8 * seg.length) :
    ∃ e', get16At? (flipBit (emitAt c0 off post seg) i) off = some e' ∧
      verifyAt c0 off post noCk (flipBit (emitAt c0 off post seg) i) =
        .ok { valid := noCk e', correct := refCk pre off post (flipBit (emitAt c0 off post seg) i), actual := e' } ∧
      refCk pre off post (flipBit (emitAt c0 off post seg) i) ≠ e' := by
  have hlen := emitAt_length (c0 := c0) post h.off_in
  have hlen' := length_flipBit (emitAt c0 off post seg) i
  have hctx : Ctx pre c0 off (flipBit (emitAt c0 off post seg) i) :=
    { h with off_in := by rw [hlen', hlen]; exact h.off_in, len_le := by rw [hlen', hlen]; exact h.len_le }
  obtain ⟨e', he'⟩ := get16At_isSome _ off hctx.off_in
  have hne : refCk pre off post (flipBit (emitAt c0 off post seg) i) ≠ e' := by
    intro heq
    have h1 := accepted_sum_mod post hp e' hctx he' heq
    have h0 := emitted_sum_mod post hp h
    obtain ⟨k, hk, hk'⟩ := wordsum_flipBit (emitAt c0 off post seg) i (by rw [hlen]; exact hi)
    have := flip_changes_residue (c0 + wordsum (flipBit (emitAt c0 off post seg) i)) (c0 + wordsum (emitAt c0 off post seg)) k hk
      (by rcases hk' with e | e
          · left; omega
          · right; omega)
    omega
  refine ⟨e', he', ?_, hne⟩
  have hc := verifyWith_correct post (noCk e') e' hctx he'
  have hv := verifyWith_valid c0 post (noCk e') e' (flipBit (emitAt c0 off post seg) i)
  have ha := verifyWith_actual c0 post (noCk e') e' (flipBit (emitAt c0 off post seg) i)
  unfold verifyAt
  rw [he']
  simp only []
  congr 1
  generalize verifyWith c0 post (noCk e') e' (flipBit (emitAt c0 off post seg) i) = r at *
  cases r with
  | mk v c a =>
    simp only at hc hv ha
    subst hc ha
    have : (refCk pre off post (flipBit (emitAt c0 off post seg) i) == a) = false := by simp [hne]
    simp [hv, this]

/-- the same emitted segment verified against a pseudo-header whose sum differs by ± 2^k (a flipped address
    bit): Correct is the reference under the pseudo-header actually used, and differs from the stored value -/
theorem verifyAt_other_pseudo {pre pre' c0 c0' off seg} (post : Nat → Nat) (noCk : Nat → Bool) (hp : PostOk post)
    (h : Ctx pre c0 off seg) (h' : Ctx pre' c0' off seg) (k : Nat) (hk : k < 16)
    (hd : c0' = c0 + 2 ^ k ∨ c0' + 2 ^ k = c0) :
    ∃ e, get16At? (emitAt c0 off post seg) off = some e ∧
      verifyAt c0' off post noCk (emitAt c0 off post seg) =
        .ok { valid := noCk e, correct := refCk pre' off post (emitAt c0 off post seg), actual := e } ∧
      refCk pre' off post (emitAt c0 off post seg) ≠ e := by
  have hlen := emitAt_length (c0 := c0) post h.off_in
  have hctx' : Ctx pre' c0' off (emitAt c0 off post seg) :=
    { h' with off_in := by rw [hlen]; exact h.off_in, len_le := by rw [hlen]; exact h.len_le }
  have he := emitAt_field post hp h
  have hne : refCk pre' off post (emitAt c0 off post seg) ≠ refCk pre off post seg := by
    intro heq
    have h1 := accepted_sum_mod post hp _ hctx' he heq
    have h0 := emitted_sum_mod post hp h
    have := flip_changes_residue (c0' + wordsum (emitAt c0 off post seg)) (c0 + wordsum (emitAt c0 off post seg)) k hk
      (by rcases hd with e | e
          · left; omega
          · right; omega)
    omega
  refine ⟨_, he, ?_, hne⟩
  have hc := verifyWith_correct post (noCk (refCk pre off post seg)) _ hctx' he
  have hv := verifyWith_valid c0' post (noCk (refCk pre off post seg)) (refCk pre off post seg) (emitAt c0 off post seg)
  have ha := verifyWith_actual c0' post (noCk (refCk pre off post seg)) (refCk pre off post seg) (emitAt c0 off post seg)
  unfold verifyAt
  rw [he]
  simp only []
  congr 1
  generalize verifyWith c0' post (noCk (refCk pre off post seg)) (refCk pre off post seg) (emitAt c0 off post seg) = r at *
  cases r with
  | mk v c a =>
    simp only at hc hv ha
    subst hc ha
    have : (refCk pre' off post (emitAt c0 off post seg) == refCk pre off post seg) = false := by simp [hne]
    simp [hv, this]

end Gp.CksumEmit
