import Gp.Lemmas.PoolReasm
/-
  Second group of invariants of the reassembly StreamPool LTS (fixed variant): streams, keys, completion counts.
  They hold along every execution WITHOUT stale recycling (`NoStale`): no connection object is popped
  from `free` and reset while another goroutine still holds a pointer to it.
-/
namespace Gp.Pool.Reasm
open Gp.Pool

/-- both halves closed (the connection as a whole is closed) -/
def Conn.both (o : Conn) : Bool := o.c2sClosed && o.s2cClosed

/-- the key a packet must have to use half `hb` of a connection stored under `k` -/
def halfKey (k : Key) (hb : Bool) : Key := if hb then k.rev else k

def headKey : List Op → Option Key
  | .pkt k _ :: _ => some k
  | _ => none

/-- the object is the map's entry for its own key -/
def inMap (s : State) (c : CId) : Prop := s.conns.get (s.obj c).key = some c

/-- objects a thread points to: through its pc, or through its FlushAll snapshot -/
def pointsTo (th : Thread) (c : CId) : Prop := th.pc.ptr = some c ∨ ∃ l, th.snap = some l ∧ c ∈ l

/-- `t`'s next step pops object `c` from `free` (and resets it) while some thread still points to `c`. -/
def StaleRecycle (s : State) (t : Tid) : Prop :=
  ∃ sid c f, (s.thr t).pc = .ins sid ∧ s.free = c :: f ∧ ∃ t', pointsTo (s.thr t') c

/-- The restriction of the `_partial` theorems: the step is not a stale recycling. -/
def NoStale (s : State) (t : Tid) : Prop := ¬ StaleRecycle s t

@[simp] theorem ncomp_nil (sid : SId) : ncomp [] sid = 0 := rfl
@[simp] theorem ncomp_new (l : List Ev) (a : SId) (k : Key) (t : Tid) (sid : SId) : ncomp (.new a k t :: l) sid = ncomp l sid := rfl
@[simp] theorem ncomp_deliv (l : List Ev) (a : SId) (t i : Nat) (k : Key) (n : Nat) (sid : SId) :
    ncomp (.deliv a t i k n :: l) sid = ncomp l sid := rfl
@[simp] theorem ncomp_fdeliv (l : List Ev) (a : SId) (t i n : Nat) (sid : SId) : ncomp (.fdeliv a t i n :: l) sid = ncomp l sid := rfl
@[simp] theorem ncomp_queue (l : List Ev) (a : SId) (t i : Nat) (k : Key) (sid : SId) : ncomp (.queue a t i k :: l) sid = ncomp l sid := rfl
@[simp] theorem ncomp_accept (l : List Ev) (a : SId) (t i : Nat) (sid : SId) : ncomp (.accept a t i :: l) sid = ncomp l sid := rfl
theorem ncomp_complete (l : List Ev) (a : SId) (t : Tid) (sid : SId) :
    ncomp (.complete a t :: l) sid = ncomp l sid + (if a = sid then 1 else 0) := by
  unfold ncomp
  by_cases e : a = sid
  · simp [List.filter_cons, e]
  · simp [List.filter_cons, e]

structure InvN (s : State) : Prop where
  b1 : ∀ c sid, c < s.nextC → (s.obj c).stream = some sid → sid < s.nextS ∧ s.skey sid = (s.obj c).key
  b2 : ∀ t sid, (s.thr t).pc = .ins sid →
        sid < s.nextS ∧ headKey (s.thr t).prog = some (s.skey sid) ∧ s.kept sid = false ∧ ncomp s.log sid = 0 ∧
        (∀ c, c < s.nextC → (s.obj c).stream ≠ some sid) ∧ (∀ t', (s.thr t').pc = .ins sid → t' = t)
  b3 : ∀ c c' sid, c < s.nextC → c' < s.nextC → (s.obj c).stream = some sid → (s.obj c').stream = some sid → c = c'
  b4 : ∀ c sid, c < s.nextC → (s.obj c).stream = some sid → (s.obj c).both = false → ncomp s.log sid = 0
  b5 : ∀ sid, ncomp s.log sid ≤ 1
  b6 : ∀ sid, s.nextS ≤ sid → ncomp s.log sid = 0 ∧ s.kept sid = false
  n1 : ∀ k c, s.conns.get k = some c → (s.obj c).key = k ∧ c ∉ s.free
  n2 : ∀ c, c ∈ s.free → (s.obj c).both = true
  n2' : s.free.Nodup
  n3 : ∀ t c, pointsTo (s.thr t) c → inMap s c ∨ c ∈ s.free
  n4 : ∀ t c hb, (s.thr t).pc = .lock c hb → (s.thr t).snap = none → headKey (s.thr t).prog = some (halfKey (s.obj c).key hb)
  n5 : ∀ t c, (s.thr t).pc.holds = some c → inMap s c
  n5a : ∀ t c hb f, (s.thr t).pc = .cb c hb f → (s.obj c).both = false
  n5b : ∀ t c k, (s.thr t).pc = .rm c k → (s.obj c).both = true
  n7 : ∀ sid, s.kept sid = true → ncomp s.log sid = 0 →
        ∃ c, s.conns.get (s.skey sid) = some c ∧ (s.obj c).stream = some sid ∧ (s.obj c).both = false
  rs1 : ∀ sid t i k n, Ev.deliv sid t i k n ∈ s.log → sid < s.nextS ∧ (s.skey sid = k ∨ s.skey sid = k.rev)
  rs2 : ∀ sid t i k, Ev.queue sid t i k ∈ s.log → sid < s.nextS ∧ (s.skey sid = k ∨ s.skey sid = k.rev)

theorem invN_init (progs : Tid → List Op) : InvN (init progs) := by
  constructor <;> simp [init, KMap.get, pointsTo, inMap]

/-- an event that is neither a completion nor a wrong delivery -/
def BenignEv (s : State) : Ev → Prop
  | .complete _ _ => False
  | .deliv sid _ _ k _ => sid < s.nextS ∧ (s.skey sid = k ∨ s.skey sid = k.rev)
  | .queue sid _ _ k => sid < s.nextS ∧ (s.skey sid = k ∨ s.skey sid = k.rev)
  | _ => True

theorem ncomp_benign {s : State} {e : Ev} (h : BenignEv s e) (l : List Ev) (sid : SId) : ncomp (e :: l) sid = ncomp l sid := by
  cases e <;> first | rfl | exact absurd h (by simp [BenignEv])

/-- Frame rule: thread `t` changes, objects keep key/stream/closed, the map, the free list, the
    counters and the ghost tables are untouched, the log grows by at most one benign event. -/
theorem InvN.frame_benign {s s' : State} (h : InvN s) (t : Tid)
    (hthr : ∀ t', t' ≠ t → s'.thr t' = s.thr t')
    (hkey : ∀ c, (s'.obj c).key = (s.obj c).key)
    (hstream : ∀ c, (s'.obj c).stream = (s.obj c).stream)
    (hboth : ∀ c, (s'.obj c).both = (s.obj c).both)
    (hconns : s'.conns = s.conns) (hfree : s'.free = s.free) (hnc : s'.nextC = s.nextC)
    (hns : s'.nextS = s.nextS) (hskey : s'.skey = s.skey) (hkept : s'.kept = s.kept)
    (hlog : ∃ es, s'.log = es ++ s.log ∧ ∀ e, e ∈ es → BenignEv s e)
    (hins : ∀ sid, (s'.thr t).pc ≠ .ins sid)
    (hn3 : ∀ c, pointsTo (s'.thr t) c → inMap s c ∨ c ∈ s.free)
    (hn4 : ∀ c hb, (s'.thr t).pc = .lock c hb → (s'.thr t).snap = none → headKey (s'.thr t).prog = some (halfKey (s.obj c).key hb))
    (hn5 : ∀ c, (s'.thr t).pc.holds = some c → inMap s c)
    (hn5a : ∀ c hb f, (s'.thr t).pc = .cb c hb f → (s.obj c).both = false)
    (hn5b : ∀ c k, (s'.thr t).pc = .rm c k → (s.obj c).both = true) : InvN s' := by
  obtain ⟨es, hes, hben⟩ := hlog
  have hnco : ∀ sid, ncomp s'.log sid = ncomp s.log sid := by
    intro sid
    rw [hes]
    clear hes
    induction es with
    | nil => rfl
    | cons e es ih =>
      rw [List.cons_append, ncomp_benign (hben e (by simp))]
      exact ih (fun e' hm => hben e' (by simp [hm]))
  have hinmap : ∀ c, inMap s' c ↔ inMap s c := by intro c; simp [inMap, hconns, hkey]
  constructor
  · intro c sid; rw [hnc, hstream, hns, hskey, hkey]; exact h.b1 c sid
  · intro t' sid hp
    by_cases e : t' = t
    · subst e; exact absurd hp (hins sid)
    · rw [hthr t' e] at hp
      obtain ⟨h1, h2, h3, h4, h5, h6⟩ := h.b2 t' sid hp
      rw [hthr t' e, hns, hskey, hkept, hnco, hnc]
      refine ⟨h1, h2, h3, h4, ?_, ?_⟩
      · intro c; rw [hstream]; exact h5 c
      · intro t'' hp'
        by_cases e2 : t'' = t
        · subst e2; exact absurd hp' (hins sid)
        · rw [hthr t'' e2] at hp'; exact h6 t'' hp'
  · intro c c' sid; rw [hnc, hstream, hstream]; exact h.b3 c c' sid
  · intro c sid; rw [hnc, hstream, hboth, hnco]; exact h.b4 c sid
  · intro sid; rw [hnco]; exact h.b5 sid
  · intro sid; rw [hns, hnco, hkept]; exact h.b6 sid
  · intro k c; rw [hconns, hkey, hfree]; exact h.n1 k c
  · intro c; rw [hfree, hboth]; exact h.n2 c
  · rw [hfree]; exact h.n2'
  · intro t' c hp
    rw [hinmap, hfree]
    by_cases e : t' = t
    · subst e; exact hn3 c hp
    · rw [hthr t' e] at hp; exact h.n3 t' c hp
  · intro t' c hb
    by_cases e : t' = t
    · subst e; rw [hkey]; exact hn4 c hb
    · rw [hthr t' e, hkey]; exact h.n4 t' c hb
  · intro t' c hp
    rw [hinmap]
    by_cases e : t' = t
    · subst e; exact hn5 c hp
    · rw [hthr t' e] at hp; exact h.n5 t' c hp
  · intro t' c hb f hp
    rw [hboth]
    by_cases e : t' = t
    · subst e; exact hn5a c hb f hp
    · rw [hthr t' e] at hp; exact h.n5a t' c hb f hp
  · intro t' c k hp
    rw [hboth]
    by_cases e : t' = t
    · subst e; exact hn5b c k hp
    · rw [hthr t' e] at hp; exact h.n5b t' c k hp
  · intro sid; rw [hkept, hnco, hskey, hconns]
    intro h1 h2
    obtain ⟨c, h3, h4, h5⟩ := h.n7 sid h1 h2
    exact ⟨c, h3, by rw [hstream]; exact h4, by rw [hboth]; exact h5⟩
  · intro sid t' i k n hm
    rw [hns, hskey]
    rw [hes, List.mem_append] at hm
    rcases hm with e2 | e2
    · exact hben _ e2
    · exact h.rs1 sid t' i k n e2
  · intro sid t' i k hm
    rw [hns, hskey]
    rw [hes, List.mem_append] at hm
    rcases hm with e2 | e2
    · exact hben _ e2
    · exact h.rs2 sid t' i k e2

theorem invN_thr {s : State} (h : InvN s) (t : Tid) (th : Thread)
    (hins : ∀ sid, th.pc ≠ .ins sid)
    (hn3 : ∀ c, pointsTo th c → inMap s c ∨ c ∈ s.free)
    (hn4 : ∀ c hb, th.pc = .lock c hb → th.snap = none → headKey th.prog = some (halfKey (s.obj c).key hb))
    (hn5 : ∀ c, th.pc.holds = some c → inMap s c)
    (hn5a : ∀ c hb f, th.pc = .cb c hb f → (s.obj c).both = false)
    (hn5b : ∀ c k, th.pc = .rm c k → (s.obj c).both = true) : InvN (setThr s t th) := by
  apply h.frame_benign t <;> first
    | rfl
    | (intros; rfl)
    | (intro t' e; simp [e]; done)
    | exact ⟨[], rfl, by simp⟩
    | simpa using hins
    | simpa using hn3
    | simpa using hn4
    | simpa using hn5
    | simpa using hn5a
    | simpa using hn5b

theorem invN_finishOp {s : State} (h : InvN s) (t : Tid) : InvN (finishOp s t) := by
  unfold finishOp
  apply invN_thr h t <;> simp [pointsTo]

/-- `advance` after a benign change of the objects / the log. -/
theorem invN_advance {s s1 : State} (h : InvN s) (t : Tid)
    (hthr : s1.thr = s.thr)
    (hkey : ∀ c, (s1.obj c).key = (s.obj c).key)
    (hstream : ∀ c, (s1.obj c).stream = (s.obj c).stream)
    (hboth : ∀ c, (s1.obj c).both = (s.obj c).both)
    (hconns : s1.conns = s.conns) (hfree : s1.free = s.free) (hnc : s1.nextC = s.nextC)
    (hns : s1.nextS = s.nextS) (hskey : s1.skey = s.skey) (hkept : s1.kept = s.kept)
    (hlog : ∃ es, s1.log = es ++ s.log ∧ ∀ e, e ∈ es → BenignEv s e) : InvN (advance s1 t) := by
  unfold advance
  rw [hthr]
  dsimp only
  split
  · next c2 rest hsnap =>
    apply h.frame_benign t
    · intro t' e; simp [e, hthr]
    · simpa using hkey
    · simpa using hstream
    · simpa using hboth
    · simpa using hconns
    · simpa using hfree
    · simpa using hnc
    · simpa using hns
    · simpa using hskey
    · simpa using hkept
    · simpa using hlog
    · simp
    · intro c hp
      apply h.n3 t c
      right
      refine ⟨_, hsnap, ?_⟩
      simp only [pointsTo, setThr_thr, if_true, ptr_lock, Option.some.injEq] at hp
      rcases hp with e | ⟨l, e1, e2⟩
      · simp [e]
      · cases e1; simp [e2]
    · simp
    · simp
    · simp
    · simp
  · apply h.frame_benign t
    · intro t' e; simp [finishOp, e, hthr]
    · simpa [finishOp] using hkey
    · simpa [finishOp] using hstream
    · simpa [finishOp] using hboth
    · simpa [finishOp] using hconns
    · simpa [finishOp] using hfree
    · simpa [finishOp] using hnc
    · simpa [finishOp] using hns
    · simpa [finishOp] using hskey
    · simpa [finishOp] using hkept
    · simpa [finishOp] using hlog
    all_goals simp [finishOp, pointsTo]

/-- E2: `factory.New` — a fresh stream id is handed to thread `t`. -/
theorem invN_new {s : State} (h : InvN s) (t : Tid) (th : Thread) (k : Key) (kind : Kind) (rest : List Op)
    (hp : th.prog = .pkt k kind :: rest) (hthpc : th.pc = .ins s.nextS) (hthsn : th.snap = (s.thr t).snap) :
    InvN (addLog { (setThr s t th) with nextS := s.nextS + 1, skey := upd s.skey s.nextS k }
      (.new s.nextS k t)) := by
  have hlt : ∀ sid, s.kept sid = true → sid < s.nextS := by
    intro sid hk
    apply Nat.lt_of_not_le
    intro hle
    have := (h.b6 sid hle).2
    rw [hk] at this; cases this
  have hsk : ∀ sid, sid < s.nextS → upd s.skey s.nextS k sid = s.skey sid := by
    intro sid hl; exact upd_other _ _ (Nat.ne_of_lt hl)
  constructor
  · intro c sid hc hst
    obtain ⟨h1, h2⟩ := h.b1 c sid hc hst
    exact ⟨Nat.lt_succ_of_lt h1, by show upd s.skey s.nextS k sid = _; rw [hsk sid h1]; exact h2⟩
  · intro t' sid hpc
    by_cases e : t' = t
    · subst e
      simp only [addLog_thr, setThr_thr, if_true, hthpc, PC.ins.injEq] at hpc
      subst hpc
      refine ⟨Nat.lt_succ_self _, ?_, (h.b6 _ (Nat.le_refl _)).2, ?_, ?_, ?_⟩
      · simp [hp, headKey]
      · show ncomp (Ev.new s.nextS k t' :: s.log) s.nextS = 0
        simp [(h.b6 _ (Nat.le_refl _)).1]
      · intro c hc hst
        exact absurd (h.b1 c _ hc hst).1 (Nat.lt_irrefl _)
      · intro t'' hpc'
        by_cases e2 : t'' = t'
        · exact e2
        · simp only [addLog_thr, setThr_thr, e2, if_false] at hpc'
          exact absurd (h.b2 t'' _ hpc').1 (Nat.lt_irrefl _)
    · simp only [addLog_thr, setThr_thr, e, if_false] at hpc
      obtain ⟨h1, h2, h3, h4, h5, h6⟩ := h.b2 t' sid hpc
      refine ⟨Nat.lt_succ_of_lt h1, ?_, h3, ?_, h5, ?_⟩
      · show headKey ((setThr s t _).thr t').prog = some (upd s.skey s.nextS k sid)
        simp only [setThr_thr, e, if_false, hsk sid h1]; exact h2
      · show ncomp (Ev.new s.nextS k t :: s.log) sid = 0
        simpa using h4
      · intro t'' hpc'
        by_cases e2 : t'' = t
        · subst e2
          simp only [addLog_thr, setThr_thr, if_true, hthpc, PC.ins.injEq] at hpc'
          exact absurd (hpc' ▸ h1) (Nat.lt_irrefl _)
        · simp only [addLog_thr, setThr_thr, e2, if_false] at hpc'
          exact h6 t'' hpc'
  · exact h.b3
  · intro c sid hc hst hcl
    show ncomp (Ev.new s.nextS k t :: s.log) sid = 0
    simpa using h.b4 c sid hc hst hcl
  · intro sid
    show ncomp (Ev.new s.nextS k t :: s.log) sid ≤ 1
    simpa using h.b5 sid
  · intro sid hle
    have := h.b6 sid (Nat.le_of_succ_le hle)
    exact ⟨by show ncomp (Ev.new s.nextS k t :: s.log) sid = 0; simpa using this.1, this.2⟩
  · exact h.n1
  · exact h.n2
  · exact h.n2'
  · intro t' c hpt
    show inMap s c ∨ c ∈ s.free
    by_cases e : t' = t
    · subst e
      simp only [pointsTo, addLog_thr, setThr_thr, if_true, hthpc, ptr_ins, hthsn] at hpt
      rcases hpt with e1 | e1
      · cases e1
      · exact h.n3 t' c (Or.inr e1)
    · simp only [addLog_thr, setThr_thr, e, if_false] at hpt
      exact h.n3 t' c hpt
  · intro t' c hb hpc
    by_cases e : t' = t
    · subst e; simp [hthpc] at hpc
    · simp only [addLog_thr, setThr_thr, e, if_false] at hpc ⊢
      exact h.n4 t' c hb hpc
  · intro t' c hpc
    show inMap s c
    by_cases e : t' = t
    · subst e; simp [hthpc] at hpc
    · simp only [addLog_thr, setThr_thr, e, if_false] at hpc
      exact h.n5 t' c hpc
  · intro t' c hb f hpc
    by_cases e : t' = t
    · subst e; simp [hthpc] at hpc
    · simp only [addLog_thr, setThr_thr, e, if_false] at hpc
      exact h.n5a t' c hb f hpc
  · intro t' c kk hpc
    by_cases e : t' = t
    · subst e; simp [hthpc] at hpc
    · simp only [addLog_thr, setThr_thr, e, if_false] at hpc
      exact h.n5b t' c kk hpc
  · intro sid hk hn
    have hl := hlt sid hk
    have hn' : ncomp s.log sid = 0 := by simpa using hn
    obtain ⟨c, h1, h2, h3⟩ := h.n7 sid hk hn'
    refine ⟨c, ?_, h2, h3⟩
    show s.conns.get (upd s.skey s.nextS k sid) = some c
    rw [hsk sid hl]; exact h1
  · intro sid t' i k' n hm
    have hm' : Ev.deliv sid t' i k' n ∈ s.log := by simpa using hm
    obtain ⟨h1, h2⟩ := h.rs1 sid t' i k' n hm'
    exact ⟨Nat.lt_succ_of_lt h1, by show upd s.skey s.nextS k sid = k' ∨ upd s.skey s.nextS k sid = k'.rev; rw [hsk sid h1]; exact h2⟩
  · intro sid t' i k' hm
    have hm' : Ev.queue sid t' i k' ∈ s.log := by simpa using hm
    obtain ⟨h1, h2⟩ := h.rs2 sid t' i k' hm'
    exact ⟨Nat.lt_succ_of_lt h1, by show upd s.skey s.nextS k sid = k' ∨ upd s.skey s.nextS k sid = k'.rev; rw [hsk sid h1]; exact h2⟩

/-- E3: `newConnection` + double-checked insert.  Object `cn` (popped from `free`, or fresh) is reset
    for key `k` / stream `sid`; nobody points to it (NoStale, or it is fresh); then either it is stored
    in the map (`insert`), or the map already has an entry `cT` for `k` and `cn` is dropped. -/
theorem invN_reset {s s' : State} (h : InvN s) (t : Tid) (sid : SId) (k : Key) (cn cT : CId) (hT : Bool) (f : List CId)
    (hpc : (s.thr t).pc = .ins sid) (hhead : headKey (s.thr t).prog = some k)
    (hP1 : ∀ t', ¬ pointsTo (s.thr t') cn)
    (hP2 : ∀ k', s.conns.get k' ≠ some cn)
    (hP3 : cn ∉ f) (hfsub : ∀ c, c ∈ f → c ∈ s.free) (hfcov : ∀ c, c ∈ s.free → c = cn ∨ c ∈ f) (hfnd : f.Nodup)
    (hcn : cn < s'.nextC) (hsplit : ∀ c, c < s'.nextC → c < s.nextC ∨ c = cn)
    (hthr : ∀ t', t' ≠ t → s'.thr t' = s.thr t')
    (htpc : (s'.thr t).pc = .lock cT hT) (htsn : (s'.thr t).snap = none) (htpr : (s'.thr t).prog = (s.thr t).prog)
    (hobj : ∀ c, c ≠ cn → s'.obj c = s.obj c)
    (hnk : (s'.obj cn).key = k) (hnst : (s'.obj cn).stream = some sid) (hncl : (s'.obj cn).both = false)
    (hfree : s'.free = f) (hns : s'.nextS = s.nextS) (hskey : s'.skey = s.skey) (hlog : s'.log = s.log)
    (hmode : (s.conns.get k = none ∧ s'.conns = s.conns.set k cn ∧ s'.kept = upd s.kept sid true ∧ (cT = cn ∧ hT = false)) ∨
             (s.conns.get (halfKey k hT) = some cT ∧ s'.conns = s.conns ∧ s'.kept = s.kept)) : InvN s' := by
  obtain ⟨hb21, hb22, hb23, hb24, hb25, hb26⟩ := h.b2 t sid hpc
  have hsk : s.skey sid = k := by rw [hhead] at hb22; exact (Option.some.inj hb22).symm
  -- the map after the step, seen through `get`
  have hget : ∀ k' c, s'.conns.get k' = some c → (k' = k ∧ c = cn ∧ s.conns.get k = none) ∨ (s.conns.get k' = some c ∧ c ≠ cn) := by
    intro k' c hg
    rcases hmode with ⟨m1, m2, _, _⟩ | ⟨_, m2, _⟩
    · rw [m2, KMap.get_set] at hg
      by_cases e : k' = k
      · simp only [e, if_true, Option.some.injEq] at hg; exact Or.inl ⟨e, hg.symm, m1⟩
      · simp only [e, if_false] at hg; exact Or.inr ⟨hg, fun e2 => hP2 k' (e2 ▸ hg)⟩
    · rw [m2] at hg; exact Or.inr ⟨hg, fun e2 => hP2 k' (e2 ▸ hg)⟩
  have hget' : ∀ k' c, s.conns.get k' = some c → s'.conns.get k' = some c := by
    intro k' c hg
    rcases hmode with ⟨m1, m2, _, _⟩ | ⟨_, m2, _⟩
    · rw [m2, KMap.get_set]
      have : k' ≠ k := by intro e; rw [e, m1] at hg; cases hg
      simp [this, hg]
    · rw [m2]; exact hg
  have hinmap : ∀ c, c ≠ cn → inMap s c → inMap s' c := by
    intro c hne hm
    unfold inMap at hm ⊢
    rw [hobj c hne]; exact hget' _ _ hm
  have hcT : inMap s' cT ∧ halfKey (s'.obj cT).key hT = k := by
    rcases hmode with ⟨m1, m2, _, m4, m5⟩ | ⟨m1, m2, _⟩
    · subst m4; subst m5
      refine ⟨?_, by rw [hnk]; rfl⟩
      unfold inMap; rw [hnk, m2, KMap.get_set]; simp
    · have hne : cT ≠ cn := fun e => hP2 _ (e ▸ m1)
      have hk := (h.n1 _ cT m1).1
      refine ⟨hinmap cT hne (by unfold inMap; rw [hk]; exact m1), ?_⟩
      rw [hobj cT hne, hk]
      cases hT <;> simp [halfKey, Key.rev_rev]
  have hkept : ∀ sid', sid' ≠ sid → s'.kept sid' = s.kept sid' := by
    intro sid' hne
    rcases hmode with ⟨_, _, m3, _⟩ | ⟨_, _, m3⟩
    · rw [m3]; exact upd_other _ _ hne
    · rw [m3]
  have hkept_imp : ∀ sid', s'.kept sid' = true → sid' = sid ∨ s.kept sid' = true := by
    intro sid' hk
    by_cases e : sid' = sid
    · exact Or.inl e
    · right; rw [← hkept sid' e]; exact hk
  have hptr_ne : ∀ t' c, t' ≠ t → pointsTo (s'.thr t') c → c ≠ cn := by
    intro t' c e hp e2
    rw [hthr t' e, e2] at hp
    exact hP1 t' hp
  constructor
  · intro c sid' hc hst
    rw [hns, hskey]
    by_cases e : c = cn
    · subst e
      rw [hnst] at hst; cases hst
      exact ⟨hb21, by rw [hnk]; exact hsk⟩
    · rw [hobj c e] at hst ⊢
      rcases hsplit c hc with h1 | h1
      · exact h.b1 c sid' h1 hst
      · exact absurd h1 e
  · intro t' sid' hp
    by_cases e : t' = t
    · subst e; rw [htpc] at hp; cases hp
    · rw [hthr t' e] at hp
      obtain ⟨h1, h2, h3, h4, h5, h6⟩ := h.b2 t' sid' hp
      have hne : sid' ≠ sid := by
        intro e2; subst e2; exact e (hb26 t' hp)
      rw [hthr t' e, hns, hskey, hlog, hkept sid' hne]
      refine ⟨h1, h2, h3, h4, ?_, ?_⟩
      · intro c hc hst
        by_cases e2 : c = cn
        · subst e2; rw [hnst] at hst; cases hst; exact hne rfl
        · rw [hobj c e2] at hst
          rcases hsplit c hc with h7 | h7
          · exact h5 c h7 hst
          · exact e2 h7
      · intro t'' hp'
        by_cases e2 : t'' = t
        · subst e2; rw [htpc] at hp'; cases hp'
        · rw [hthr t'' e2] at hp'; exact h6 t'' hp'
  · intro c c' sid' hc hc' hst hst'
    by_cases e : c = cn
    · by_cases e' : c' = cn
      · rw [e, e']
      · exfalso
        subst e
        rw [hnst] at hst; cases hst
        rw [hobj c' e'] at hst'
        rcases hsplit c' hc' with h7 | h7
        · exact hb25 c' h7 hst'
        · exact e' h7
    · by_cases e' : c' = cn
      · exfalso
        subst e'
        rw [hnst] at hst'; cases hst'
        rw [hobj c e] at hst
        rcases hsplit c hc with h7 | h7
        · exact hb25 c h7 hst
        · exact e h7
      · rw [hobj c e] at hst; rw [hobj c' e'] at hst'
        rcases hsplit c hc with h7 | h7
        · rcases hsplit c' hc' with h8 | h8
          · exact h.b3 c c' sid' h7 h8 hst hst'
          · exact absurd h8 e'
        · exact absurd h7 e
  · intro c sid' hc hst hcl
    rw [hlog]
    by_cases e : c = cn
    · subst e; rw [hnst] at hst; cases hst; exact hb24
    · rw [hobj c e] at hst hcl
      rcases hsplit c hc with h7 | h7
      · exact h.b4 c sid' h7 hst hcl
      · exact absurd h7 e
  · intro sid'; rw [hlog]; exact h.b5 sid'
  · intro sid' hle
    rw [hns] at hle; rw [hlog]
    have := h.b6 sid' hle
    refine ⟨this.1, ?_⟩
    rw [hkept sid' (fun e => by rw [e] at hle; exact absurd hb21 (Nat.not_lt.2 hle))]
    exact this.2
  · intro k' c hg
    rw [hfree]
    rcases hget k' c hg with ⟨e1, e2, _⟩ | ⟨hg', hne⟩
    · subst e1; subst e2; exact ⟨hnk, hP3⟩
    · rw [hobj c hne]
      exact ⟨(h.n1 k' c hg').1, fun hm => (h.n1 k' c hg').2 (hfsub c hm)⟩
  · intro c hm
    rw [hfree] at hm
    have hne : c ≠ cn := fun e => hP3 (e ▸ hm)
    rw [hobj c hne]; exact h.n2 c (hfsub c hm)
  · rw [hfree]; exact hfnd
  · intro t' c hp
    rw [hfree]
    by_cases e : t' = t
    · subst e
      simp only [pointsTo, htpc, ptr_lock, Option.some.injEq, htsn] at hp
      rcases hp with e1 | ⟨l, e1, _⟩
      · subst e1; exact Or.inl hcT.1
      · cases e1
    · have hne := hptr_ne t' c e hp
      rw [hthr t' e] at hp
      rcases h.n3 t' c hp with h1 | h1
      · exact Or.inl (hinmap c hne h1)
      · rcases hfcov c h1 with h2 | h2
        · exact absurd h2 hne
        · exact Or.inr h2
  · intro t' c hb hp hsn
    by_cases e : t' = t
    · subst e
      rw [htpc] at hp; cases hp
      rw [htpr, hhead, hcT.2]
    · have hne := hptr_ne t' c e (Or.inl (by rw [hp]; rfl))
      rw [hthr t' e] at hp hsn ⊢
      rw [hobj c hne]; exact h.n4 t' c hb hp hsn
  · intro t' c hp
    by_cases e : t' = t
    · subst e; rw [htpc] at hp; cases hp
    · have hpt : pointsTo (s'.thr t') c := by
        left
        cases hq : (s'.thr t').pc <;> rw [hq] at hp <;> simp at hp <;> simp [hp]
      have hne := hptr_ne t' c e hpt
      rw [hthr t' e] at hp
      exact hinmap c hne (h.n5 t' c hp)
  · intro t' c hb fl hp
    by_cases e : t' = t
    · subst e; rw [htpc] at hp; cases hp
    · have hne := hptr_ne t' c e (Or.inl (by rw [hp]; rfl))
      rw [hthr t' e] at hp
      rw [hobj c hne]; exact h.n5a t' c hb fl hp
  · intro t' c kk hp
    by_cases e : t' = t
    · subst e; rw [htpc] at hp; cases hp
    · have hne := hptr_ne t' c e (Or.inl (by rw [hp]; rfl))
      rw [hthr t' e] at hp
      rw [hobj c hne]; exact h.n5b t' c kk hp
  · intro sid' hk hn
    rw [hlog] at hn; rw [hskey]
    rcases hkept_imp sid' hk with e | hk'
    · subst e
      rcases hmode with ⟨m1, m2, m3, m4⟩ | ⟨m1, m2, m3⟩
      · refine ⟨cn, ?_, hnst, hncl⟩
        rw [hsk, m2, KMap.get_set]; simp
      · rw [m3, hb23] at hk; cases hk
    · obtain ⟨c, h1, h2, h3⟩ := h.n7 sid' hk' hn
      have hne : c ≠ cn := fun e => hP2 _ (e ▸ h1)
      exact ⟨c, hget' _ _ h1, by rw [hobj c hne]; exact h2, by rw [hobj c hne]; exact h3⟩
  · intro sid' t' i k' n hm
    rw [hlog] at hm; rw [hns, hskey]; exact h.rs1 sid' t' i k' n hm
  · intro sid' t' i k' hm
    rw [hlog] at hm; rw [hns, hskey]; exact h.rs2 sid' t' i k' hm

/-- E6: `closeConnection` up to the nested pool lock: ReassemblyComplete on `c`'s stream, `closed = true`, → `rm c`. -/
theorem invN_close {s s' : State} (h : InvN s) (t : Tid) (c : CId) (sid : SId)
    (hc : c < s.nextC) (hst : (s.obj c).stream = some sid) (hcl : (s.obj c).both = false) (hin : inMap s c)
    (hnoins : ∀ sid', (s.thr t).pc ≠ .ins sid')
    (hexcl : ∀ t', t' ≠ t → (s.thr t').pc.holds ≠ some c)
    (hthr : ∀ t', t' ≠ t → s'.thr t' = s.thr t')
    (cont : List Bool) (htpc : (s'.thr t).pc = .rm c cont) (htsn : (s'.thr t).snap = (s.thr t).snap)
    (hobj : ∀ c', c' ≠ c → s'.obj c' = s.obj c')
    (hkey : (s'.obj c).key = (s.obj c).key) (hstream : (s'.obj c).stream = (s.obj c).stream)
    (hboth : (s'.obj c).both = true)
    (hconns : s'.conns = s.conns) (hfree : s'.free = s.free) (hnc : s'.nextC = s.nextC)
    (hns : s'.nextS = s.nextS) (hskey : s'.skey = s.skey) (hkept : s'.kept = s.kept)
    (hlog : s'.log = .complete sid t :: s.log) : InvN s' := by
  have hk : ∀ c', (s'.obj c').key = (s.obj c').key := by
    intro c'; by_cases e : c' = c
    · rw [e]; exact hkey
    · rw [hobj c' e]
  have hs : ∀ c', (s'.obj c').stream = (s.obj c').stream := by
    intro c'; by_cases e : c' = c
    · rw [e]; exact hstream
    · rw [hobj c' e]
  have hinmap : ∀ c', inMap s' c' ↔ inMap s c' := by intro c'; simp [inMap, hconns, hk]
  have hnco : ∀ sid', ncomp s'.log sid' = ncomp s.log sid' + (if sid = sid' then 1 else 0) := by
    intro sid'; rw [hlog]; exact ncomp_complete _ _ _ _
  have hnco' : ∀ sid', sid' ≠ sid → ncomp s'.log sid' = ncomp s.log sid' := by
    intro sid' e
    have e3 : ¬ sid = sid' := fun e2 => e e2.symm
    rw [hnco]; simp [e3]
  have hsidlt := (h.b1 c sid hc hst).1
  have hn0 := h.b4 c sid hc hst hcl
  constructor
  · intro c' sid'; rw [hnc, hs, hns, hskey, hk]; exact h.b1 c' sid'
  · intro t' sid' hp
    by_cases e : t' = t
    · subst e; rw [htpc] at hp; cases hp
    · rw [hthr t' e] at hp
      obtain ⟨h1, h2, h3, h4, h5, h6⟩ := h.b2 t' sid' hp
      have hne : sid' ≠ sid := fun e2 => h5 c hc (e2 ▸ hst)
      rw [hthr t' e, hns, hskey, hkept, hnco' sid' hne, hnc]
      refine ⟨h1, h2, h3, h4, ?_, ?_⟩
      · intro c'; rw [hs]; exact h5 c'
      · intro t'' hp'
        by_cases e2 : t'' = t
        · subst e2; rw [htpc] at hp'; cases hp'
        · rw [hthr t'' e2] at hp'; exact h6 t'' hp'
  · intro c1 c2 sid'; rw [hnc, hs, hs]; exact h.b3 c1 c2 sid'
  · intro c' sid' hc' hst' hcl'
    rw [hnc] at hc'; rw [hs] at hst'
    have hne : c' ≠ c := by intro e; rw [e, hboth] at hcl'; cases hcl'
    rw [hobj c' hne] at hcl'
    have hne2 : sid' ≠ sid := fun e2 => hne (h.b3 c' c sid hc' hc (e2 ▸ hst') hst)
    rw [hnco' sid' hne2]; exact h.b4 c' sid' hc' hst' hcl'
  · intro sid'
    by_cases e : sid' = sid
    · rw [hnco, e, hn0]; simp
    · rw [hnco' sid' e]; exact h.b5 sid'
  · intro sid' hle
    rw [hns] at hle
    have hne : sid' ≠ sid := fun e => absurd hsidlt (Nat.not_lt.2 (e ▸ hle))
    rw [hnco' sid' hne, hkept]; exact h.b6 sid' hle
  · intro k c'; rw [hconns, hk, hfree]; exact h.n1 k c'
  · intro c' hm
    rw [hfree] at hm
    by_cases e : c' = c
    · rw [e]; exact hboth
    · rw [hobj c' e]; exact h.n2 c' hm
  · rw [hfree]; exact h.n2'
  · intro t' c' hp
    rw [hinmap, hfree]
    by_cases e : t' = t
    · subst e
      simp only [pointsTo, htpc, ptr_rm, Option.some.injEq, htsn] at hp
      rcases hp with e1 | e1
      · subst e1; exact Or.inl hin
      · exact h.n3 t' c' (Or.inr e1)
    · rw [hthr t' e] at hp; exact h.n3 t' c' hp
  · intro t' c' hb hp
    by_cases e : t' = t
    · subst e; rw [htpc] at hp; cases hp
    · rw [hthr t' e] at hp ⊢; rw [hk]; exact h.n4 t' c' hb hp
  · intro t' c' hp
    rw [hinmap]
    by_cases e : t' = t
    · subst e; rw [htpc] at hp; simp at hp; subst hp; exact hin
    · rw [hthr t' e] at hp; exact h.n5 t' c' hp
  · intro t' c' hb fl hp
    by_cases e : t' = t
    · subst e; rw [htpc] at hp; cases hp
    · rw [hthr t' e] at hp
      have hne : c' ≠ c := fun e2 => hexcl t' e (by rw [hp, e2]; rfl)
      rw [hobj c' hne]; exact h.n5a t' c' hb fl hp
  · intro t' c' kk hp
    by_cases e : t' = t
    · subst e; rw [htpc] at hp; cases hp; exact hboth
    · rw [hthr t' e] at hp
      have hne : c' ≠ c := fun e2 => hexcl t' e (by rw [hp, e2]; rfl)
      rw [hobj c' hne]; exact h.n5b t' c' kk hp
  · intro sid' hk' hn'
    rw [hkept] at hk'; rw [hskey, hconns]
    have hne : sid' ≠ sid := by
      intro e; rw [hnco, e] at hn'; simp at hn'
    rw [hnco' sid' hne] at hn'
    obtain ⟨c', h1, h2, h3⟩ := h.n7 sid' hk' hn'
    have hne2 : c' ≠ c := by
      intro e; rw [e, hst] at h2; exact hne (Option.some.inj h2).symm
    exact ⟨c', h1, by rw [hobj c' hne2]; exact h2, by rw [hobj c' hne2]; exact h3⟩
  · intro sid' t' i k n hm
    rw [hlog] at hm; simp only [List.mem_cons] at hm
    rcases hm with e | e
    · cases e
    · rw [hns, hskey]; exact h.rs1 sid' t' i k n e
  · intro sid' t' i k hm
    rw [hlog] at hm; simp only [List.mem_cons] at hm
    rcases hm with e | e
    · cases e
    · rw [hns, hskey]; exact h.rs2 sid' t' i k e

/-- E8: `remove` — delete `conns[c.key]`, push `c` on `free`, release `c.mu`, go on. -/
theorem invN_remove {s s' : State} (h : InvN s) (t : Tid) (c : CId)
    (cont : List Bool) (hpc : (s.thr t).pc = .rm c cont)
    (hexcl : ∀ t', t' ≠ t → (s.thr t').pc.holds ≠ some c)
    (hthr : ∀ t', t' ≠ t → s'.thr t' = s.thr t')
    (hnpt : ∀ c', pointsTo (s'.thr t) c' → c' = c ∨ ∃ l, (s.thr t).snap = some l ∧ c' ∈ l)
    (hnh : (s'.thr t).pc.holds = none) (hnins : ∀ sid, (s'.thr t).pc ≠ .ins sid)
    (hnl : ∀ c' hb, (s'.thr t).pc = .lock c' hb → (s'.thr t).snap ≠ none)
    (hkey : ∀ c', (s'.obj c').key = (s.obj c').key)
    (hstream : ∀ c', (s'.obj c').stream = (s.obj c').stream)
    (hboth : ∀ c', (s'.obj c').both = (s.obj c').both)
    (hconns : s'.conns = s.conns.del (s.obj c).key) (hfree : s'.free = c :: s.free) (hnc : s'.nextC = s.nextC)
    (hns : s'.nextS = s.nextS) (hskey : s'.skey = s.skey) (hkept : s'.kept = s.kept)
    (hlog : s'.log = s.log) : InvN s' := by
  have hin : inMap s c := h.n5 t c (by rw [hpc]; rfl)
  have hcl : (s.obj c).both = true := h.n5b t c cont hpc
  have hnf : c ∉ s.free := (h.n1 _ c hin).2
  have hget : ∀ k c', s'.conns.get k = some c' ↔ (k ≠ (s.obj c).key ∧ s.conns.get k = some c') := by
    intro k c'; rw [hconns, KMap.get_del]
    by_cases e : k = (s.obj c).key <;> simp [e]
  have hinmap : ∀ c', c' ≠ c → inMap s c' → inMap s' c' := by
    intro c' hne hm
    unfold inMap at hm ⊢
    rw [hkey, hget]
    refine ⟨?_, hm⟩
    intro e; rw [e] at hm; unfold inMap at hin; rw [hin] at hm; exact hne (Option.some.inj hm).symm
  have hn3 : ∀ c', (inMap s c' ∨ c' ∈ s.free) → (inMap s' c' ∨ c' ∈ s'.free) := by
    intro c' hh
    rw [hfree]
    by_cases e : c' = c
    · right; simp [e]
    · rcases hh with h1 | h1
      · exact Or.inl (hinmap c' e h1)
      · right; simp [h1]
  constructor
  · intro c' sid; rw [hnc, hstream, hns, hskey, hkey]; exact h.b1 c' sid
  · intro t' sid hp
    by_cases e : t' = t
    · subst e; exact absurd hp (hnins sid)
    · rw [hthr t' e] at hp
      obtain ⟨h1, h2, h3, h4, h5, h6⟩ := h.b2 t' sid hp
      rw [hthr t' e, hns, hskey, hkept, hlog, hnc]
      refine ⟨h1, h2, h3, h4, ?_, ?_⟩
      · intro c'; rw [hstream]; exact h5 c'
      · intro t'' hp'
        by_cases e2 : t'' = t
        · subst e2; exact absurd hp' (hnins sid)
        · rw [hthr t'' e2] at hp'; exact h6 t'' hp'
  · intro c1 c2 sid; rw [hnc, hstream, hstream]; exact h.b3 c1 c2 sid
  · intro c' sid; rw [hnc, hstream, hboth, hlog]; exact h.b4 c' sid
  · intro sid; rw [hlog]; exact h.b5 sid
  · intro sid; rw [hns, hlog, hkept]; exact h.b6 sid
  · intro k c' hg
    rw [hget] at hg
    obtain ⟨h1, h2⟩ := h.n1 k c' hg.2
    rw [hkey, hfree]
    refine ⟨h1, ?_⟩
    simp only [List.mem_cons, not_or]
    refine ⟨?_, h2⟩
    intro e; rw [e] at h1; exact hg.1 h1.symm
  · intro c' hm
    rw [hfree] at hm; rw [hboth]
    simp only [List.mem_cons] at hm
    rcases hm with e | e
    · rw [e]; exact hcl
    · exact h.n2 c' e
  · rw [hfree]; exact List.nodup_cons.2 ⟨hnf, h.n2'⟩
  · intro t' c' hp
    apply hn3
    by_cases e : t' = t
    · subst e
      rcases hnpt c' hp with e1 | ⟨l, h1, h2⟩
      · rw [e1]; exact Or.inl hin
      · exact h.n3 t' c' (Or.inr ⟨l, h1, h2⟩)
    · rw [hthr t' e] at hp; exact h.n3 t' c' hp
  · intro t' c' hb hp hsn
    by_cases e : t' = t
    · subst e; exact absurd hsn (hnl c' hb hp)
    · rw [hthr t' e] at hp hsn ⊢; rw [hkey]; exact h.n4 t' c' hb hp hsn
  · intro t' c' hp
    by_cases e : t' = t
    · subst e; rw [hnh] at hp; cases hp
    · rw [hthr t' e] at hp
      have hne : c' ≠ c := fun e2 => hexcl t' e (e2 ▸ hp)
      exact hinmap c' hne (h.n5 t' c' hp)
  · intro t' c' hb fl hp
    rw [hboth]
    by_cases e : t' = t
    · subst e; rw [hp] at hnh; cases hnh
    · rw [hthr t' e] at hp; exact h.n5a t' c' hb fl hp
  · intro t' c' kk hp
    rw [hboth]
    by_cases e : t' = t
    · subst e; rw [hp] at hnh; cases hnh
    · rw [hthr t' e] at hp; exact h.n5b t' c' kk hp
  · intro sid hk hn
    rw [hkept] at hk; rw [hlog] at hn; rw [hskey]
    obtain ⟨c', h1, h2, h3⟩ := h.n7 sid hk hn
    have hne : c' ≠ c := by intro e; rw [e, hcl] at h3; cases h3
    refine ⟨c', ?_, by rw [hstream]; exact h2, by rw [hboth]; exact h3⟩
    rw [hget]
    refine ⟨?_, h1⟩
    intro e; rw [e] at h1; unfold inMap at hin; rw [hin] at h1; exact hne (Option.some.inj h1).symm
  · intro sid t' i k n hm
    rw [hlog] at hm; rw [hns, hskey]; exact h.rs1 sid t' i k n hm
  · intro sid t' i k hm
    rw [hlog] at hm; rw [hns, hskey]; exact h.rs2 sid t' i k hm


theorem inMap_of_get {s : State} (h : InvN s) {k : Key} {c : CId} (hg : s.conns.get k = some c) : inMap s c := by
  have := (h.n1 k c hg).1
  simp [inMap, this, hg]

theorem halfKey_halfKey (k : Key) (hb : Bool) : halfKey (halfKey k hb) hb = k := by
  cases hb <;> simp [halfKey, Key.rev_rev]

theorem getHalf_some {m : KMap} {k : Key} {c : CId} {hb : Bool} (h : getHalf m k = some (c, hb)) :
    m.get (halfKey k hb) = some c := by
  unfold getHalf at h
  split at h
  · next c' hg => cases h; simpa [halfKey] using hg
  · split at h
    · next c' hg => cases h; simpa [halfKey] using hg
    · cases h

theorem both_false_of_half {o : Conn} {hb : Bool} (h : o.halfClosed hb = false) : o.both = false := by
  cases hb <;> simp_all [Conn.halfClosed, Conn.both]

theorem headKey_pkt (k : Key) (kind : Kind) (rest : List Op) : headKey (.pkt k kind :: rest) = some k := rfl

theorem invN_stepStart {s s' : State} {t : Tid} (hK : (KMap.keys s.conns).Nodup) (h : InvN s)
    (hpc : (s.thr t).pc = .start) (hs : stepStart s t = some s') : InvN s' := by
  unfold stepStart at hs
  dsimp only at hs
  cases hp : (s.thr t).prog with
  | nil => simp [hp] at hs
  | cons op rest =>
    cases op with
    | flush =>
      simp only [hp] at hs
      cases hv : s.conns.vals with
      | nil => simp only [hv] at hs; cases hs; exact invN_finishOp h t
      | cons c r =>
        simp only [hv] at hs; cases hs
        apply invN_thr h t <;> try (simp; done)
        · intro c' hpt
          left
          have hmem : c' ∈ s.conns.vals := by
            simp only [pointsTo, ptr_lock, Option.some.injEq] at hpt
            rcases hpt with e | ⟨l, e1, e2⟩
            · simp [hv, e]
            · cases e1; simp [hv, e2]
          obtain ⟨k, hk⟩ := KMap.get_of_mem_vals hmem hK
          exact inMap_of_get h hk
    | flushold T ca =>
      simp only [hp] at hs
      cases hv : s.conns.vals with
      | nil => simp only [hv] at hs; cases hs; exact invN_finishOp h t
      | cons c r =>
        simp only [hv] at hs; cases hs
        apply invN_thr h t <;> try (simp; done)
        · intro c' hpt
          left
          have hmem : c' ∈ s.conns.vals := by
            simp only [pointsTo, ptr_lock, Option.some.injEq] at hpt
            rcases hpt with e | ⟨l, e1, e2⟩
            · simp [hv, e]
            · cases e1; simp [hv, e2]
          obtain ⟨k, hk⟩ := KMap.get_of_mem_vals hmem hK
          exact inMap_of_get h hk
    | pkt k kind =>
      simp only [hp] at hs
      cases hg : getHalf s.conns k with
      | some ch =>
        obtain ⟨c, hb⟩ := ch
        simp only [hg] at hs; cases hs
        have hgk := getHalf_some hg
        apply invN_thr h t <;> try (simp; done)
        · intro c' hpt
          simp only [pointsTo, ptr_lock, Option.some.injEq] at hpt
          rcases hpt with e | ⟨l, e1, e2⟩
          · subst e; left; exact inMap_of_get h hgk
          · exact h.n3 t c' (Or.inr ⟨l, e1, e2⟩)
        · intro c' hb' e _; simp at e; obtain ⟨e1, e2⟩ := e; subst e1; subst e2
          simp [headKey, (h.n1 _ _ hgk).1, halfKey_halfKey]
      | none =>
        simp only [hg] at hs
        cases hs
        exact invN_new h t _ k kind rest rfl rfl rfl

theorem invN_stepIns {s s' : State} {t : Tid} {sid : SId} (hA : InvA s) (h : InvN s) (hok : NoStale s t)
    (hpc : (s.thr t).pc = .ins sid) (hs : stepIns true s t sid = some s') : InvN s' := by
  obtain ⟨hsn, hpk⟩ := hA.wf_ins t sid hpc
  unfold stepIns at hs
  dsimp only at hs
  cases hp : (s.thr t).prog with
  | nil => simp [hp, isPkt] at hpk
  | cons op rest =>
    cases op with
    | flush => simp [hp, isPkt] at hpk
    | flushold T ca => simp [hp, isPkt] at hpk
    | pkt k kind =>
      simp only [hp] at hs
      have hhead : headKey (s.thr t).prog = some k := by rw [hp]; rfl
      cases hf : s.free with
      | nil =>
        simp only [hf] at hs
        have hP1 : ∀ t', ¬ pointsTo (s.thr t') s.nextC := by
          intro t' hpt
          rcases hpt with e | ⟨l, e1, e2⟩
          · exact absurd (hA.ptr_lt t' _ e) (Nat.lt_irrefl _)
          · exact absurd (hA.snap_lt t' l _ e1 e2) (Nat.lt_irrefl _)
        have hP2 : ∀ k', s.conns.get k' ≠ some s.nextC := by
          intro k' hg
          exact absurd (hA.map_lt k' _ (KMap.mem_of_get hg)) (Nat.lt_irrefl _)
        cases hg : getHalf s.conns k with
        | some ch =>
          obtain ⟨c2, h2⟩ := ch
          simp only [setObj_conns, hg, Bool.not_true, Bool.false_and, Bool.false_eq_true, if_false] at hs; cases hs
          apply invN_reset h t sid k s.nextC c2 h2 [] hpc hhead hP1 hP2 (by simp) (by simp) (by simp [hf]) (by simp)
          · show s.nextC < s.nextC + 1; omega
          · intro c hc; have : c < s.nextC + 1 := hc; omega
          · intro t' e; simp [e]
          · simp
          · simp [hsn]
          · simp [hp]
          · intro c e; simp [e]
          · simp
          · simp
          · simp [Conn.both]
          · simp [hf]
          · rfl
          · rfl
          · rfl
          · right; exact ⟨getHalf_some hg, rfl, rfl⟩
        | none =>
          simp only [setObj_conns, hg] at hs; cases hs
          apply invN_reset h t sid k s.nextC s.nextC false [] hpc hhead hP1 hP2 (by simp) (by simp) (by simp [hf]) (by simp)
          · show s.nextC < s.nextC + 1; omega
          · intro c hc; have : c < s.nextC + 1 := hc; omega
          · intro t' e; simp [e]
          · simp
          · simp [hsn]
          · simp [hp]
          · intro c e; simp [e]
          · simp
          · simp
          · simp [Conn.both]
          · simp [hf]
          · rfl
          · rfl
          · rfl
          · left; exact ⟨(getHalf_none hg).1, rfl, rfl, rfl, rfl⟩
      | cons c f =>
        simp only [hf] at hs
        have hc : c < s.nextC := hA.free_lt c (by simp [hf])
        have hcf : c ∈ s.free := by simp [hf]
        have hnd : (c :: f).Nodup := hf ▸ h.n2'
        have hP1 : ∀ t', ¬ pointsTo (s.thr t') c := by
          intro t' hpt
          exact hok ⟨sid, c, f, hpc, hf, t', hpt⟩
        have hP2 : ∀ k', s.conns.get k' ≠ some c := by
          intro k' hg
          exact (h.n1 k' c hg).2 hcf
        have hP3 : c ∉ f := (List.nodup_cons.1 hnd).1
        have hfsub : ∀ c', c' ∈ f → c' ∈ s.free := by intro c' hm; simp [hf, hm]
        have hfcov : ∀ c', c' ∈ s.free → c' = c ∨ c' ∈ f := by intro c' hm; simpa [hf] using hm
        cases hg : getHalf s.conns k with
        | some ch =>
          obtain ⟨c2, h2⟩ := ch
          simp only [setObj_conns, hg, Bool.not_true, Bool.false_and, Bool.false_eq_true, if_false] at hs; cases hs
          apply invN_reset h t sid k c c2 h2 f hpc hhead hP1 hP2 hP3 hfsub hfcov (List.nodup_cons.1 hnd).2
          · exact hc
          · intro c' hc'; exact Or.inl hc'
          · intro t' e; simp [e]
          · simp
          · simp [hsn]
          · simp [hp]
          · intro c' e; simp [e]
          · simp
          · simp
          · simp [Conn.both]
          · rfl
          · rfl
          · rfl
          · rfl
          · right; exact ⟨getHalf_some hg, rfl, rfl⟩
        | none =>
          simp only [setObj_conns, hg] at hs; cases hs
          apply invN_reset h t sid k c c false f hpc hhead hP1 hP2 hP3 hfsub hfcov (List.nodup_cons.1 hnd).2
          · exact hc
          · intro c' hc'; exact Or.inl hc'
          · intro t' e; simp [e]
          · simp
          · simp [hsn]
          · simp [hp]
          · intro c' e; simp [e]
          · simp
          · simp
          · simp [Conn.both]
          · rfl
          · rfl
          · rfl
          · rfl
          · left; exact ⟨(getHalf_none hg).1, rfl, rfl, rfl, rfl⟩

theorem excl_of_mu {s : State} (hA : InvA s) {t : Tid} {c : CId}
    (hm : (s.obj c).mu = none ∨ (s.obj c).mu = some t) : ∀ t', t' ≠ t → (s.thr t').pc.holds ≠ some c := by
  intro t' e hh
  have := (hA.mu_iff c t').2 hh
  rcases hm with h1 | h1
  · rw [h1] at this; cases this
  · rw [h1] at this; exact e (Option.some.inj this).symm

theorem bothClosed_eq (o : Conn) : o.bothClosed = o.both := rfl
theorem setQ_both (o : Conn) (hb : Bool) (q : Option Nat) : (o.setQ hb q).both = o.both := by
  unfold Conn.setQ; split <;> rfl
theorem see_both (o : Conn) (hb : Bool) (ts : Nat) : (o.see hb ts).both = o.both := by
  unfold Conn.see; split <;> rfl
theorem setQ_halfClosed (o : Conn) (hb hb' : Bool) (q : Option Nat) : (o.setQ hb q).halfClosed hb' = o.halfClosed hb' := by
  unfold Conn.setQ; split <;> rfl
theorem see_halfClosed (o : Conn) (hb hb' : Bool) (ts : Nat) : (o.see hb ts).halfClosed hb' = o.halfClosed hb' := by
  unfold Conn.see; split <;> rfl

/-- The restriction that excludes the SECOND defect (reassembly only): the un-nested remove of
    FlushWithOptions (pc `rm2`) finds an entry stored under the visited connection's key — the
    connection itself was taken out of the map when it was completed, so the entry belongs to another
    connection created since, and `remove` deletes it and pushes the visited object on `free` again. -/
def ForeignRemove (s : State) (t : Tid) : Prop :=
  ∃ c, (s.thr t).pc = .rm2 c ∧ s.conns.get (s.obj c).key ≠ none

/-- Restriction of the reassembly `_partial` theorems: neither a stale recycling nor a foreign remove. -/
def Clean (s : State) (t : Tid) : Prop := NoStale s t ∧ ¬ ForeignRemove s t

/-- an object `c` is replaced by a value with the same key / stream / both-closed flag -/
theorem invN_setObj {s : State} (h : InvN s) (t : Tid) (c : CId) (o' : Conn)
    (hnoins : ∀ sid, (s.thr t).pc ≠ .ins sid)
    (hkey : o'.key = (s.obj c).key) (hstream : o'.stream = (s.obj c).stream) (hboth : o'.both = (s.obj c).both) :
    InvN (setObj s c o') := by
  apply h.frame_benign t
  · intro t' _; rfl
  · intro c'; simp only [setObj_obj]; split <;> simp_all
  · intro c'; simp only [setObj_obj]; split <;> simp_all
  · intro c'; simp only [setObj_obj]; split <;> simp_all
  · rfl
  · rfl
  · rfl
  · rfl
  · rfl
  · rfl
  · exact ⟨[], rfl, by simp⟩
  · exact hnoins
  · exact h.n3 t
  · exact h.n4 t
  · exact h.n5 t
  · exact h.n5a t
  · exact h.n5b t

/-- an open connection a thread points to is the map's entry for its key -/
theorem inMap_of_open {s : State} (h : InvN s) {t : Tid} {c : CId} (hpt : pointsTo (s.thr t) c)
    (hcl : (s.obj c).both = false) : inMap s c := by
  rcases h.n3 t c hpt with h1 | h1
  · exact h1
  · have := h.n2 c h1; rw [hcl] at this; cases this

/-- End of a Flush* visit: release `c.mu`; FlushWithOptions may go on to the un-nested remove. -/
theorem invN_flushEnd {s1 : State} (h : InvN s1) (t : Tid) (c : CId)
    (hptr : (s1.thr t).pc.ptr = some c) : InvN (flushEnd s1 t c) := by
  have hadv : InvN (advance (setObj s1 c { s1.obj c with mu := none }) t) := by
    apply invN_advance h t
    · rfl
    · intro c'; simp only [setObj_obj]; split <;> simp_all
    · intro c'; simp only [setObj_obj]; split <;> simp_all
    · intro c'; simp only [setObj_obj]; split <;> simp_all [Conn.both]
    · rfl
    · rfl
    · rfl
    · rfl
    · rfl
    · rfl
    · exact ⟨[], rfl, by simp⟩
  unfold flushEnd
  dsimp only
  split
  · exact hadv
  · split
    · apply h.frame_benign t
      · intro t' e; simp [e]
      · intro c'; simp only [setThr_obj, setObj_obj]; split <;> simp_all
      · intro c'; simp only [setThr_obj, setObj_obj]; split <;> simp_all
      · intro c'; simp only [setThr_obj, setObj_obj]; split <;> simp_all [Conn.both]
      · rfl
      · rfl
      · rfl
      · rfl
      · rfl
      · rfl
      · exact ⟨[], rfl, by simp⟩
      · simp
      · intro c' hp'
        simp only [pointsTo, setThr_thr, if_true, ptr_rm2, Option.some.injEq] at hp'
        rcases hp' with e | ⟨l, e1, e2⟩
        · subst e; exact h.n3 t c (Or.inl hptr)
        · exact h.n3 t c' (Or.inr ⟨l, e1, e2⟩)
      · simp
      · simp
      · simp
      · simp
    · exact hadv

/-- The loop of a Flush* visit over the halves `hs`, from an intermediate state `s1` (in which `t` owns
    `c.mu`; InvN does not mention the mutexes). -/
theorem invN_flushHalves (t : Tid) (c : CId) (hs : List Bool) :
    ∀ (s1 : State), InvN s1 → c < s1.nextC → (s1.obj c).stream ≠ none →
    (s1.thr t).pc.ptr = some c → (∀ sid, (s1.thr t).pc ≠ .ins sid) →
    (∀ t', t' ≠ t → (s1.thr t').pc.holds ≠ some c) → InvN (flushHalves s1 t c hs) := by
  induction hs with
  | nil =>
    intro s1 h hc hst hptr hnoins hexcl
    exact invN_flushEnd h t c hptr
  | cons hb hs ih =>
    intro s1 h hc hst hptr hnoins hexcl
    have hpt : pointsTo (s1.thr t) c := Or.inl hptr
    unfold flushHalves
    dsimp only
    split
    · exact ih s1 h hc hst hptr hnoins hexcl
    · next hopen0 =>
      have hopen : (s1.obj c).halfClosed hb = false := by simpa using hopen0
      have hcl : (s1.obj c).both = false := both_false_of_half hopen
      have hin : inMap s1 c := inMap_of_open h hpt hcl
      split
      · -- deliver the queued page
        cases hst2 : (s1.obj c).stream with
        | none => exact absurd hst2 hst
        | some sid =>
          dsimp only
          apply h.frame_benign t
          · intro t' e; simp [e]
          · intro c'; simp only [setThr_obj, addLog_obj, setObj_obj]; split <;> simp_all [setQ_key]
          · intro c'; simp only [setThr_obj, addLog_obj, setObj_obj]; split <;> simp_all [setQ_stream]
          · intro c'; simp only [setThr_obj, addLog_obj, setObj_obj]; split <;> simp_all [setQ_both]
          · rfl
          · rfl
          · rfl
          · rfl
          · rfl
          · rfl
          · exact ⟨[_], rfl, by simp [BenignEv]⟩
          · simp
          · intro c' hp'
            simp only [pointsTo, setThr_thr, if_true, ptr_cb, Option.some.injEq] at hp'
            rcases hp' with e | ⟨l, e1, e2⟩
            · subst e; exact Or.inl hin
            · exact h.n3 t c' (Or.inr ⟨l, e1, e2⟩)
          · simp
          · intro c' e; simp at e; subst e; exact hin
          · intro c' hb' f e; simp at e; rw [← e.1]; exact hcl
          · simp
      · split
        · split
          · next hboth' =>
            cases hst2 : (s1.obj c).stream with
            | none => exact absurd hst2 hst
            | some sid =>
              dsimp only
              apply invN_close h t c sid hc hst2 hcl hin hnoins hexcl
              · intro t' e; simp [e]
              · simp; rfl
              · simp
              · intro c' e; simp [e]
              · simp [closeHalf_key]
              · simp [closeHalf_stream]
              · simpa [bothClosed_eq] using hboth'
              · rfl
              · rfl
              · rfl
              · rfl
              · rfl
              · rfl
              · rfl
          · next hboth' =>
            have hb2 : ((s1.obj c).closeHalf hb).both = false := by simpa [bothClosed_eq] using hboth'
            apply ih (setObj s1 c ((s1.obj c).closeHalf hb))
            · exact invN_setObj h t c _ hnoins (closeHalf_key _ _) (closeHalf_stream _ _) (by rw [hb2, hcl])
            · exact hc
            · simp [closeHalf_stream, hst]
            · exact hptr
            · exact hnoins
            · exact hexcl
        · exact ih s1 h hc hst hptr hnoins hexcl

theorem flushHalves_both (t : Tid) (c : CId) (hs : List Bool) (s : State) (hb : (s.obj c).both = true) :
    flushHalves s t c hs = flushEnd s t c := by
  induction hs with
  | nil => rfl
  | cons hb' hs ih =>
    unfold flushHalves
    dsimp only
    have : (s.obj c).halfClosed hb' = true := by
      cases hb' <;> simp_all [Conn.both, Conn.halfClosed]
    rw [if_pos this]; exact ih

theorem invN_stepLock {s s' : State} {t : Tid} {c : CId} {hb : Bool} (hA : InvA s) (h : InvN s)
    (hpc : (s.thr t).pc = .lock c hb) (hs : stepLock s t c hb = some s') : InvN s' := by
  have hc : c < s.nextC := hA.ptr_lt t c (by simp [hpc])
  have hst := hA.inited c hc
  have hpt : pointsTo (s.thr t) c := Or.inl (by rw [hpc]; rfl)
  have hnoins : ∀ sid', (s.thr t).pc ≠ .ins sid' := by intro sid' e; rw [hpc] at e; cases e
  unfold stepLock at hs
  dsimp only at hs
  split at hs
  · cases hs
  · next hmu0 =>
    have hmu : (s.obj c).mu = none := by
      cases hm : (s.obj c).mu with
      | none => rfl
      | some x => simp [hm] at hmu0
    have hexcl := excl_of_mu hA (t := t) (Or.inl hmu)
    have hinmap : (s.obj c).both = false → inMap s c := inMap_of_open h hpt
    cases hsn : (s.thr t).snap with
    | some l =>
      simp only [hsn] at hs
      cases hs
      apply invN_flushHalves t c [true, false]
      · exact invN_setObj h t c _ hnoins rfl rfl rfl
      · exact hc
      · simpa using hst
      · simp [hpc]
      · simpa using hnoins
      · simpa using hexcl
    | none =>
      have hpk := hA.wf_ptr t c (by simp [hpc]) hsn
      have hn4 := h.n4 t c hb hpc hsn
      simp only [hsn] at hs
      cases hp : (s.thr t).prog with
      | nil => simp [hp, isPkt] at hpk
      | cons op rest =>
        cases op with
        | flush => simp [hp, isPkt] at hpk
        | flushold T ca => simp [hp, isPkt] at hpk
        | pkt k kind =>
          have hkk : halfKey (s.obj c).key hb = k := by
            rw [hp, headKey_pkt] at hn4; exact (Option.some.inj hn4).symm
          simp only [hp] at hs
          cases hst2 : (s.obj c).stream with
          | none => exact absurd hst2 hst
          | some sid =>
            have hb1 := h.b1 c sid hc hst2
            have hben : sid < s.nextS ∧ (s.skey sid = k ∨ s.skey sid = k.rev) := by
              refine ⟨hb1.1, ?_⟩
              rw [hb1.2, ← hkk]
              cases hb <;> simp [halfKey, Key.rev_rev]
            simp only [hst2] at hs
            split at hs
            · cases hs
              apply invN_advance h t
              · rfl
              · intro c'; simp only [addLog_obj, setObj_obj]; split <;> simp_all [see_key]
              · intro c'; simp only [addLog_obj, setObj_obj]; split <;> simp_all [see_stream]
              · intro c'; simp only [addLog_obj, setObj_obj]; split <;> simp_all [see_both]
              · rfl
              · rfl
              · rfl
              · rfl
              · rfl
              · rfl
              · exact ⟨[_], rfl, by simp [BenignEv]⟩
            · next hhc0 =>
              have hhc : (s.obj c).halfClosed hb = false := by simpa [see_halfClosed] using hhc0
              have hcl := both_false_of_half hhc
              split at hs
              · -- late: queued
                cases hs
                apply invN_advance h t
                · rfl
                · intro c'; simp only [addLog_obj, setObj_obj]; split <;> simp_all [see_key, setQ_key]
                · intro c'; simp only [addLog_obj, setObj_obj]; split <;> simp_all [see_stream, setQ_stream]
                · intro c'; simp only [addLog_obj, setObj_obj]; split <;> simp_all [see_both, setQ_both]
                · rfl
                · rfl
                · rfl
                · rfl
                · rfl
                · rfl
                · refine ⟨[_, _], rfl, ?_⟩
                  intro e he
                  simp only [List.mem_cons, List.not_mem_nil, or_false] at he
                  rcases he with e1 | e1
                  · subst e1; simpa [BenignEv] using hben
                  · subst e1; simp [BenignEv]
              · cases hs
                apply h.frame_benign t
                · intro t' e; simp [e]
                · intro c'; simp only [setThr_obj, addLog_obj, setObj_obj]; split <;> simp_all [see_key]
                · intro c'; simp only [setThr_obj, addLog_obj, setObj_obj]; split <;> simp_all [see_stream]
                · intro c'; simp only [setThr_obj, addLog_obj, setObj_obj]; split
                  · next e => subst e; exact see_both _ _ _
                  · rfl
                · rfl
                · rfl
                · rfl
                · rfl
                · rfl
                · rfl
                · refine ⟨[_, _], rfl, ?_⟩
                  intro e he
                  simp only [List.mem_cons, List.not_mem_nil, or_false] at he
                  rcases he with e1 | e1
                  · subst e1; simpa [BenignEv] using hben
                  · subst e1; simp [BenignEv]
                · simp
                · intro c' hp'
                  simp only [pointsTo, setThr_thr, if_true, ptr_cb, Option.some.injEq, hsn] at hp'
                  rcases hp' with e | ⟨l, e, _⟩
                  · subst e; exact Or.inl (hinmap hcl)
                  · cases e
                · simp
                · intro c' e; simp at e; subst e; exact hinmap hcl
                · intro c' hb' f e; simp at e; rw [← e.1]; exact hcl
                · simp

theorem invN_stepCb {s s' : State} {t : Tid} {c : CId} {hb fin : Bool} (hA : InvA s) (h : InvN s)
    (hpc : (s.thr t).pc = .cb c hb fin) (hs : stepCb s t c hb fin = some s') : InvN s' := by
  have hh : (s.thr t).pc.holds = some c := by simp [hpc]
  have hmu : (s.obj c).mu = some t := (hA.mu_iff c t).2 hh
  have hc : c < s.nextC := hA.ptr_lt t c (by simp [hpc])
  have hst := hA.inited c hc
  have hcl := h.n5a t c hb fin hpc
  have hnoins : ∀ sid', (s.thr t).pc ≠ .ins sid' := by intro sid' e; rw [hpc] at e; cases e
  have hexcl := excl_of_mu hA (t := t) (Or.inr hmu)
  unfold stepCb at hs
  dsimp only at hs
  split at hs
  · -- Flush*
    split at hs
    · next hboth' =>
      cases hst2 : (s.obj c).stream with
      | none => exact absurd hst2 hst
      | some sid =>
        simp only [hst2] at hs; cases hs
        apply invN_close h t c sid hc hst2 hcl (h.n5 t c hh) hnoins hexcl
        · intro t' e; simp [e]
        · simp; rfl
        · simp
        · intro c' e; simp [e]
        · simp [closeHalf_key]
        · simp [closeHalf_stream]
        · simpa [bothClosed_eq] using hboth'
        · rfl
        · rfl
        · rfl
        · rfl
        · rfl
        · rfl
        · rfl
    · next hboth' =>
      have hb2 : ((s.obj c).closeHalf hb).both = false := by simpa [bothClosed_eq] using hboth'
      cases hs
      apply invN_flushHalves t c _
      · exact invN_setObj h t c _ hnoins (closeHalf_key _ _) (closeHalf_stream _ _) (by rw [hb2, hcl])
      · exact hc
      · simp [closeHalf_stream, hst]
      · simp [hpc]
      · simpa using hnoins
      · simpa using hexcl
  · split at hs
    · cases hs
      unfold afterCloseHalf
      dsimp only
      split
      · next hboth' =>
        have hst3 : ((setObj s c ((s.obj c).closeHalf hb)).obj c).stream = (s.obj c).stream := by
          simp [closeHalf_stream]
        cases hst2 : (s.obj c).stream with
        | none => exact absurd hst2 hst
        | some sid =>
          rw [hst3, hst2]
          dsimp only
          apply invN_close h t c sid hc hst2 hcl (h.n5 t c hh) hnoins hexcl
          · intro t' e; simp [e]
          · simp; rfl
          · simp
          · intro c' e; simp [e]
          · simp [closeHalf_key]
          · simp [closeHalf_stream]
          · simpa [bothClosed_eq] using hboth'
          · rfl
          · rfl
          · rfl
          · rfl
          · rfl
          · rfl
          · rfl
      · next hboth' =>
        have hb2 : ((s.obj c).closeHalf hb).both = false := by simpa [bothClosed_eq] using hboth'
        apply invN_advance h t
        · rfl
        · intro c'; simp only [setObj_obj]; split <;> simp_all [closeHalf_key]
        · intro c'; simp only [setObj_obj]; split <;> simp_all [closeHalf_stream]
        · intro c'; simp only [setObj_obj]; split
          · next e =>
            subst e
            show ({ (s.obj c').closeHalf hb with mu := none } : Conn).both = (s.obj c').both
            rw [hcl]; exact hb2
          · next e => simp [e]
        · rfl
        · rfl
        · rfl
        · rfl
        · rfl
        · rfl
        · exact ⟨[], rfl, by simp⟩
    · cases hs
      apply invN_advance h t
      · rfl
      · intro c'; simp only [setObj_obj]; split <;> simp_all
      · intro c'; simp only [setObj_obj]; split <;> simp_all
      · intro c'; simp only [setObj_obj]; split <;> simp_all [Conn.both]
      · rfl
      · rfl
      · rfl
      · rfl
      · rfl
      · rfl
      · exact ⟨[], rfl, by simp⟩

theorem doRemove_inMap {s : State} {c : CId} (hin : inMap s c) :
    doRemove s c = { s with conns := s.conns.del (s.obj c).key, free := c :: s.free } := by
  unfold doRemove; unfold inMap at hin; rw [hin]

theorem invN_stepRm {s s' : State} {t : Tid} {c : CId} {cont : List Bool} (hA : InvA s) (h : InvN s)
    (hpc : (s.thr t).pc = .rm c cont) (hs : stepRm s t c cont = some s') : InvN s' := by
  have hh : (s.thr t).pc.holds = some c := by simp [hpc]
  have hmu : (s.obj c).mu = some t := (hA.mu_iff c t).2 hh
  have hin : inMap s c := h.n5 t c hh
  have hboth : (s.obj c).both = true := h.n5b t c cont hpc
  unfold stepRm at hs
  dsimp only at hs
  rw [doRemove_inMap hin] at hs
  split at hs
  · next hsn0 =>
    obtain ⟨l, hl⟩ : ∃ l, (s.thr t).snap = some l := by
      cases hq : (s.thr t).snap with
      | none => simp [hq] at hsn0
      | some l => exact ⟨l, rfl⟩
    have e := flushHalves_both t c cont { s with conns := s.conns.del (s.obj c).key, free := c :: s.free } hboth
    rw [e] at hs
    cases hs
    apply invN_remove h t c cont hpc (excl_of_mu hA (Or.inr hmu))
    · intro t' e
      unfold flushEnd advance; dsimp only; (repeat' split) <;> simp [finishOp, e]
    · intro c' hp'
      unfold flushEnd advance at hp'; dsimp only at hp'
      (repeat' split at hp')
      all_goals first
        | (next c2 rest hsnap =>
            right
            simp only [setObj_thr] at hsnap
            refine ⟨_, hsnap, ?_⟩
            simp only [pointsTo, setThr_thr, if_true, ptr_lock, Option.some.injEq] at hp'
            rcases hp' with e | ⟨l', e1, e2⟩
            · simp [e]
            · cases e1; simp [e2])
        | (simp [finishOp, pointsTo] at hp'; done)
        | (simp only [pointsTo, setThr_thr, if_true, ptr_rm2, Option.some.injEq] at hp'
           rcases hp' with e | ⟨l', e1, e2⟩
           · left; exact e.symm
           · right; exact ⟨l', e1, e2⟩)
    · unfold flushEnd advance; dsimp only; (repeat' split) <;> simp [finishOp]
    · intro sid; unfold flushEnd advance; dsimp only; (repeat' split) <;> simp [finishOp]
    · intro c' hb'; unfold flushEnd advance; dsimp only; (repeat' split) <;> simp [finishOp]
    · intro c'; unfold flushEnd advance; dsimp only; (repeat' split) <;> (simp only [finishOp, setThr_obj, setObj_obj]; split <;> simp_all)
    · intro c'; unfold flushEnd advance; dsimp only; (repeat' split) <;> (simp only [finishOp, setThr_obj, setObj_obj]; split <;> simp_all)
    · intro c'; unfold flushEnd advance; dsimp only; (repeat' split) <;> (simp only [finishOp, setThr_obj, setObj_obj]; split <;> simp_all [Conn.both])
    · unfold flushEnd advance; dsimp only; (repeat' split) <;> rfl
    · unfold flushEnd advance; dsimp only; (repeat' split) <;> rfl
    · unfold flushEnd advance; dsimp only; (repeat' split) <;> rfl
    · unfold flushEnd advance; dsimp only; (repeat' split) <;> rfl
    · unfold flushEnd advance; dsimp only; (repeat' split) <;> rfl
    · unfold flushEnd advance; dsimp only; (repeat' split) <;> rfl
    · unfold flushEnd advance; dsimp only; (repeat' split) <;> rfl
  · cases hs
    apply invN_remove h t c cont hpc (excl_of_mu hA (Or.inr hmu))
    · intro t' e
      unfold advance; dsimp only; split <;> simp [finishOp, e]
    · intro c' hp'
      right
      unfold advance at hp'; dsimp only at hp'
      split at hp'
      · next c2 rest hsnap =>
        simp only [setObj_thr] at hsnap
        refine ⟨_, hsnap, ?_⟩
        simp only [pointsTo, setThr_thr, if_true, ptr_lock, Option.some.injEq] at hp'
        rcases hp' with e | ⟨l, e1, e2⟩
        · simp [e]
        · cases e1; simp [e2]
      · simp [finishOp, pointsTo] at hp'
    · unfold advance; dsimp only; split <;> simp [finishOp]
    · intro sid; unfold advance; dsimp only; split <;> simp [finishOp]
    · intro c' hb'; unfold advance; dsimp only; split <;> simp [finishOp]
    · intro c'; unfold advance; dsimp only; split <;> (simp only [finishOp, setThr_obj, setObj_obj]; split <;> simp_all)
    · intro c'; unfold advance; dsimp only; split <;> (simp only [finishOp, setThr_obj, setObj_obj]; split <;> simp_all)
    · intro c'; unfold advance; dsimp only; split <;> (simp only [finishOp, setThr_obj, setObj_obj]; split <;> simp_all [Conn.both])
    · unfold advance; dsimp only; split <;> rfl
    · unfold advance; dsimp only; split <;> rfl
    · unfold advance; dsimp only; split <;> rfl
    · unfold advance; dsimp only; split <;> rfl
    · unfold advance; dsimp only; split <;> rfl
    · unfold advance; dsimp only; split <;> rfl
    · unfold advance; dsimp only; split <;> rfl

theorem invN_stepRm2 {s s' : State} {t : Tid} {c : CId} (h : InvN s) (hok : ¬ ForeignRemove s t)
    (hpc : (s.thr t).pc = .rm2 c) (hs : stepRm2 s t c = some s') : InvN s' := by
  have hnone : s.conns.get (s.obj c).key = none := by
    cases hg : s.conns.get (s.obj c).key with
    | none => rfl
    | some c' => exact absurd ⟨c, hpc, by simp [hg]⟩ hok
  have hrm : doRemove s c = s := by unfold doRemove; rw [hnone]
  unfold stepRm2 at hs
  rw [hrm] at hs
  cases hs
  exact invN_advance h t rfl (fun _ => rfl) (fun _ => rfl) (fun _ => rfl) rfl rfl rfl rfl rfl rfl ⟨[], rfl, by simp⟩

theorem invN_step {s s' : State} {t : Tid} (hA : InvA s) (hK : (KMap.keys s.conns).Nodup) (h : InvN s)
    (hok : Clean s t) (hs : step true s t = some s') : InvN s' := by
  unfold step at hs
  split at hs
  · next hpc => exact invN_stepStart hK h hpc hs
  · next sid hpc => exact invN_stepIns hA h hok.1 hpc hs
  · next c hb hpc => exact invN_stepLock hA h hpc hs
  · next c hb fin hpc => exact invN_stepCb hA h hpc hs
  · next c cont hpc => exact invN_stepRm hA h hpc hs
  · next c hpc => exact invN_stepRm2 h hok.2 hpc hs
  · cases hs

/-- InvN holds along every execution of the fixed pool without stale recycling and without foreign removes. -/
theorem invN_reachableR (progs : Tid → List Op) : ∀ s, (sys true progs).ReachableR Clean s → InvN s := by
  intro s hr
  have key : InvN s ∧ (sys true progs).Reachable s := by
    induction hr with
    | init => exact ⟨invN_init progs, .init⟩
    | step hr' hok hs ih =>
      refine ⟨?_, .step ih.2 hs⟩
      exact invN_step (invA_reachable progs _ ih.2) (keys_nodup_reachable true progs _ ih.2) ih.1 hok hs
  exact key.1

/-- kept_stream_completed_once as a state predicate (see PoolAsmN.lean); "closed" = both halves closed. -/
def KeptOnce (s : State) : Prop :=
  ∀ sid, s.kept sid = true → ncomp s.log sid ≤ 1 ∧
    (ncomp s.log sid = 0 → ∃ c, s.conns.get (s.skey sid) = some c ∧ (s.obj c).stream = some sid ∧ (s.obj c).both = false)

def noRecycleB (s : State) (t : Tid) : Bool :=
  match (s.thr t).pc with
  | .ins _ => s.free.isEmpty
  | .rm2 c => (s.conns.get (s.obj c).key).isNone
  | _ => true

theorem noStale_of_noRecycleB (s : State) (t : Tid) (h : noRecycleB s t = true) : NoStale s t := by
  intro ⟨sid, c, f, hpc, hf, _⟩
  simp [noRecycleB, hpc, hf] at h

theorem clean_of_noRecycleB (s : State) (t : Tid) (h : noRecycleB s t = true) : Clean s t := by
  refine ⟨noStale_of_noRecycleB s t h, ?_⟩
  intro ⟨c, hpc, hg⟩
  simp only [noRecycleB, hpc] at h
  cases hq : s.conns.get (s.obj c).key with
  | none => exact hg hq
  | some x => simp [hq] at h

end Gp.Pool.Reasm
