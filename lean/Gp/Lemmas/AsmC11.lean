/-
  Glue for the C11 theorems: well-formed histories satisfy the preconditions of the invariant
  frameworks; splitting a run; the trace restricted to callbacks is the event log.
-/
import Gp.Lemmas.AsmSeq
import Gp.Lemmas.AsmLife
import Gp.Lemmas.AsmLimit
import Gp.Lemmas.AsmAge

namespace Gp.Asm
open Gp.Gen

theorem wf_opPre (ops : List Op) (hwf : ∀ op ∈ ops, WfOp op) :
    ∀ op ∈ ops, OpPre (fun s => s.seq ≠ invalidSeq) op := by
  intro op hop
  have := wf_seq_ne ops hwf op hop
  cases op <;> first | exact this | trivial

theorem wf_opPre' (ops : List Op) (hwf : ∀ op ∈ ops, WfOp op) :
    ∀ op ∈ ops, OpPre' (fun s => s.seq ≠ invalidSeq) true op := by
  intro op hop
  have := wf_seq_ne ops hwf op hop
  cases op <;> first | exact this | rfl | trivial

def NoOpt : Op → Prop
  | .opt _ _ => False
  | _ => True

theorem wf_opPre'_noopt (ops : List Op) (hwf : ∀ op ∈ ops, WfOp op) (hno : ∀ op ∈ ops, NoOpt op) :
    ∀ op ∈ ops, OpPre' (fun s => s.seq ≠ invalidSeq) false op := by
  intro op hop
  have := wf_seq_ne ops hwf op hop
  have hn := hno op hop
  cases op <;> first | exact this | exact absurd hn id | trivial

theorem run_append (A : SeqArith) (P : Pool) (xs ys : List Op) :
    run A P (xs ++ ys) =
      match run A P xs with
      | .ok x => (match run A x.1 ys with
          | .ok y => .ok (y.1, x.2 ++ y.2)
          | .err e => .err e
          | .panic k => .panic k)
      | .err e => .err e
      | .panic k => .panic k := by
  induction xs generalizing P with
  | nil =>
    simp only [List.nil_append, run]
    cases run A P ys <;> rfl
  | cons op xs ih =>
    simp only [List.cons_append, run]
    cases step A P op with
    | ok x =>
      dsimp only
      rw [ih]
      cases run A x.1 xs with
      | ok y =>
        dsimp only
        cases run A y.1 ys <;> rfl
      | err e => rfl
      | panic k => rfl
    | err e => rfl
    | panic k => rfl

theorem runTrace_append (A : SeqArith) (P : Pool) (xs ys : List Op) (x : Pool × List OpOut)
    (hx : run A P xs = .ok x) : runTrace A P (xs ++ ys) = runTrace A P xs ++ runTrace A x.1 ys := by
  induction xs generalizing P x with
  | nil => simp only [run] at hx; cases hx; rfl
  | cons op xs ih =>
    simp only [run] at hx
    simp only [List.cons_append, runTrace]
    cases hs : step A P op with
    | ok z =>
      rw [hs] at hx
      dsimp only at hx ⊢
      cases hr : run A z.1 xs with
      | ok y =>
        rw [hr] at hx
        cases hx
        rw [ih z.1 y hr, List.append_assoc]
      | err e => rw [hr] at hx; cases hx
      | panic k => rw [hr] at hx; cases hx
    | err e => rw [hs] at hx; cases hx
    | panic k => rw [hs] at hx; cases hx

end Gp.Asm
