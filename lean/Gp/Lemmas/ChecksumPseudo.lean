import Gp.Lemmas.ChecksumEmit
/-
  Helper lemmas for C08: the pseudo-header sums of layers/tcpip.go equal the word sum of the
  pseudo-header byte strings of RFC 793 / RFC 8200.
-/
namespace Gp.CksumEmit
open Gp Gp.Cksum

theorem len4 (l : Bytes) (h : l.length = 4) : ∃ a b c d, l = [a, b, c, d] := by
  match l, h with
  | [a, b, c, d], _ => exact ⟨a, b, c, d, rfl⟩

theorem pseudo4_eq (src dst : Bytes) (hs : src.length = 4) (hd : dst.length = 4) :
    pseudo4 src dst = wordsum src + wordsum dst := by
  obtain ⟨s0, s1, s2, s3, rfl⟩ := len4 src hs
  obtain ⟨d0, d1, d2, d3, rfl⟩ := len4 dst hd
  have := u8_lt s0; have := u8_lt s1; have := u8_lt s2; have := u8_lt s3
  have := u8_lt d0; have := u8_lt d1; have := u8_lt d2; have := u8_lt d3
  simp only [pseudo4, wordsum, W32]; omega

theorem pseudo6_eq (ss : Bytes) : ∀ (ds : Bytes) (c : Nat), ss.length = ds.length → ss.length % 2 = 0 →
    c + wordsum ss + wordsum ds < W32 → pseudo6 ss ds c = c + wordsum ss + wordsum ds := by
  induction ss using wordsum.induct with
  | case1 a b rest ih =>
    intro ds c hl he hb
    match ds, hl with
    | d0 :: d1 :: ds', hl =>
      simp only [wordsum] at hb
      simp only [pseudo6]
      have hb' := hb
      simp only [W32] at hb'
      have e1 : (c + a.toNat * 256) % W32 = c + a.toNat * 256 := by simp only [W32]; omega
      have e2 : (c + a.toNat * 256 + b.toNat) % W32 = c + a.toNat * 256 + b.toNat := by simp only [W32]; omega
      have e3 : (c + a.toNat * 256 + b.toNat + d0.toNat * 256) % W32 = c + a.toNat * 256 + b.toNat + d0.toNat * 256 := by simp only [W32]; omega
      have e4 : (c + a.toNat * 256 + b.toNat + d0.toNat * 256 + d1.toNat) % W32 = c + a.toNat * 256 + b.toNat + d0.toNat * 256 + d1.toNat := by simp only [W32]; omega
      rw [e1, e2, e3, e4, ih ds' _ (by simp only [List.length_cons] at hl; omega) (by simp only [List.length_cons] at he; omega)
        (by simp only [W32]; omega)]
      simp only [wordsum]; omega
  | case2 a => intro ds c hl he _; simp at he
  | case3 =>
    intro ds c hl _ _
    match ds, hl with
    | [], _ => simp [pseudo6, wordsum]

theorem wordsum_le_len (d : Bytes) : wordsum d ≤ 65535 * d.length := by
  have := wordsum_bound d; omega

theorem wordsum_putBe32 (n : Nat) (h : n < 4294967296) (q : Bytes) :
    wordsum (putBe32 n ++ q) = n / 65536 + n % 65536 + wordsum q := by
  simp only [putBe32, List.cons_append, List.nil_append, wordsum, u8_toNat]; omega

/-- the accumulator computeChecksum starts from is the word sum of the pseudo-header bytes -/
theorem l4c0_spec (net : Net) (proto len : Nat) (hok : net.ok = true) (hp : proto < 256)
    (hlen : net.lenOk len) :
    l4c0 net proto len = wordsum (net.pseudoBytes proto len) ∧ l4c0 net proto len < W32 ∧
    (net.pseudoBytes proto len).length % 2 = 0 := by
  cases net with
  | v4 s d =>
    simp only [Net.ok, Bool.and_eq_true, beq_iff_eq] at hok
    simp only [Net.lenOk] at hlen
    have hps := pseudo4_eq s d hok.1 hok.2
    have b1 := wordsum_le_len s; have b2 := wordsum_le_len d
    have hw : wordsum (Net.pseudoBytes (.v4 s d) proto len) = wordsum s + wordsum d + proto + len := by
      simp only [Net.pseudoBytes, List.append_assoc]
      rw [wordsum_append _ _ (by omega), wordsum_append _ _ (by omega)]
      have : wordsum ([0, u8 proto] ++ putBe16 len) = proto + len := by
        have := wordsum_putBe16 len hlen []
        simp only [List.append_nil] at this
        simp only [List.cons_append, List.nil_append, wordsum, u8_toNat]
        simp only [wordsum] at this
        have e : (0 : UInt8).toNat = 0 := rfl
        rw [e]
        generalize hq : wordsum (putBe16 len) = q at *
        omega
      rw [this]; omega
    refine ⟨?_, ?_, ?_⟩
    · rw [hw]; simp only [l4c0, l4init, Net.pseudo, hps, W32]; omega
    · simp only [l4c0, l4init, W32]; omega
    · simp [Net.pseudoBytes, putBe16, hok.1, hok.2]
  | v6 s d =>
    simp only [Net.ok, Bool.and_eq_true, beq_iff_eq] at hok
    simp only [Net.lenOk] at hlen
    have b1 := wordsum_le_len s; have b2 := wordsum_le_len d
    have hps := pseudo6_eq s d 0 (by omega) (by omega) (by simp only [W32]; omega)
    have hw : wordsum (Net.pseudoBytes (.v6 s d) proto len) = wordsum s + wordsum d + (len / 65536 + len % 65536) + proto := by
      simp only [Net.pseudoBytes, List.append_assoc]
      rw [wordsum_append _ _ (by omega), wordsum_append _ _ (by omega), wordsum_putBe32 len hlen]
      simp only [wordsum, u8_toNat]
      have e : (0 : UInt8).toNat = 0 := rfl
      rw [e]; omega
    refine ⟨?_, ?_, ?_⟩
    · rw [hw]; simp only [l4c0, l4init, Net.pseudo, hps, W32]; omega
    · simp only [l4c0, l4init, W32]; omega
    · simp [Net.pseudoBytes, putBe32, hok.1, hok.2]

theorem Net.lenOk_le (net : Net) (n : Nat) (h : net.lenOk n) : n ≤ 281474976710656 := by
  cases net <;> simp only [Net.lenOk] at h <;> omega

/-- context of the generic theorems for a transport checksum over a pseudo-header -/
theorem l4ctx (net : Net) (proto off : Nat) (seg : Bytes) (hok : net.ok = true) (hp : proto < 256)
    (hlen : net.lenOk seg.length) (hoff : off % 2 = 0) (hin : off + 2 ≤ seg.length) :
    Ctx (net.pseudoBytes proto seg.length) (l4c0 net proto seg.length) off seg := by
  obtain ⟨a, b, c⟩ := l4c0_spec net proto seg.length hok hp hlen
  exact { c0_eq := a, c0_lt := b, pre_even := c, off_even := hoff, off_in := hin, len_le := net.lenOk_le _ hlen }

/-- context for checksums without pseudo-header (IPv4 header, ICMPv4, GRE) -/
theorem plainCtx (off : Nat) (seg : Bytes) (hoff : off % 2 = 0) (hin : off + 2 ≤ seg.length)
    (hl : seg.length ≤ 281474976710656) : Ctx [] 0 off seg :=
  { c0_eq := by simp [wordsum], c0_lt := by simp [W32], pre_even := by simp, off_even := hoff, off_in := hin, len_le := hl }

theorem get16At_append (x y : Bytes) (off : Nat) (h : off + 2 ≤ x.length) : get16At? (x ++ y) off = get16At? x off := by
  obtain ⟨a, b, hs, hg⟩ := split16 x off h
  rw [hg]
  have hl : (x.take off).length = off := by rw [List.length_take]; omega
  unfold get16At?
  conv => lhs; rw [hs]
  simp only [List.append_assoc]
  rw [List.drop_append, hl, Nat.sub_self, List.drop_eq_nil_of_le (by omega)]
  simp

theorem ip4Hdr_length (f : Ip4F) (n : Nat) : (ip4Hdr f n).length = 12 + f.src.length + f.dst.length + f.opts.length := by
  simp [ip4Hdr, putBe16]; omega

theorem tcpHdr_length (f : TcpF) : (tcpHdr f).length = 20 + f.opts.length := by
  simp [tcpHdr, putBe16, putBe32]; omega

theorem udpHdr_length (net : Net) (sp dp n : Nat) : (udpHdr net sp dp n).length = 8 := by
  simp [udpHdr, putBe16]

theorem icmp4Hdr_length (t c id seq : Nat) (p : Bytes) :
    ([u8 t, u8 c, 0, 0] ++ putBe16 id ++ putBe16 seq ++ p).length = 8 + p.length := by
  simp [putBe16]; omega

theorem greHdr_length_ge (f : GreF) (hc : f.c = true) : 8 ≤ (greHdr f).length := by
  simp [greHdr, hc, putBe16]

/-! ### a flipped address bit in the pseudo-header -/

theorem wordsum_pseudoBytes (net : Net) (proto len : Nat) (hok : net.ok = true) (hp : proto < 256) (hlen : net.lenOk len) :
    wordsum (net.pseudoBytes proto len) =
      match net with
      | .v4 s d => wordsum s + wordsum d + proto + len
      | .v6 s d => wordsum s + wordsum d + (len / 65536 + len % 65536) + proto := by
  cases net with
  | v4 s d =>
    simp only [Net.ok, Bool.and_eq_true, beq_iff_eq] at hok
    simp only [Net.lenOk] at hlen
    simp only [Net.pseudoBytes, List.append_assoc]
    rw [wordsum_append _ _ (by omega), wordsum_append _ _ (by omega)]
    have : wordsum ([0, u8 proto] ++ putBe16 len) = proto + len := by
      have := wordsum_putBe16 len hlen []
      simp only [List.append_nil] at this
      simp only [List.cons_append, List.nil_append, wordsum, u8_toNat]
      simp only [wordsum] at this
      have e : (0 : UInt8).toNat = 0 := rfl
      rw [e]
      generalize hq : wordsum (putBe16 len) = q at *
      omega
    rw [this]; omega
  | v6 s d =>
    simp only [Net.ok, Bool.and_eq_true, beq_iff_eq] at hok
    simp only [Net.lenOk] at hlen
    simp only [Net.pseudoBytes, List.append_assoc]
    rw [wordsum_append _ _ (by omega), wordsum_append _ _ (by omega), wordsum_putBe32 len hlen]
    simp only [wordsum, u8_toNat]
    have e : (0 : UInt8).toNat = 0 := rfl
    rw [e]; omega

theorem Net.flipSrc_ok (net : Net) (i : Nat) (h : net.ok = true) : (net.flipSrc i).ok = true := by
  cases net <;> simpa [Net.ok, Net.flipSrc, length_flipBit] using h

theorem Net.flipDst_ok (net : Net) (i : Nat) (h : net.ok = true) : (net.flipDst i).ok = true := by
  cases net <;> simpa [Net.ok, Net.flipDst, length_flipBit] using h

/-- flipping one address bit moves the pseudo-header sum by ± 2^k, k < 16 -/
theorem l4c0_flipSrc (net : Net) (proto len i : Nat) (hok : net.ok = true) (hp : proto < 256) (hlen : net.lenOk len)
    (hi : i < net.addrBits) :
    ∃ k, k < 16 ∧ (l4c0 (net.flipSrc i) proto len = l4c0 net proto len + 2 ^ k ∨
                   l4c0 (net.flipSrc i) proto len + 2 ^ k = l4c0 net proto len) := by
  have hok' := net.flipSrc_ok i hok
  have hlen' : (net.flipSrc i).lenOk len := by cases net <;> exact hlen
  obtain ⟨a, _, _⟩ := l4c0_spec net proto len hok hp hlen
  obtain ⟨a', _, _⟩ := l4c0_spec (net.flipSrc i) proto len hok' hp hlen'
  rw [a, a', wordsum_pseudoBytes _ _ _ hok hp hlen, wordsum_pseudoBytes _ _ _ hok' hp hlen']
  cases net with
  | v4 s d =>
    simp only [Net.ok, Bool.and_eq_true, beq_iff_eq] at hok
    obtain ⟨k, hk, hk'⟩ := wordsum_flipBit s i (by simp only [Net.addrBits] at hi; omega)
    refine ⟨k, hk, ?_⟩
    simp only [Net.flipSrc]
    rcases hk' with e | e
    · left; omega
    · right; omega
  | v6 s d =>
    simp only [Net.ok, Bool.and_eq_true, beq_iff_eq] at hok
    obtain ⟨k, hk, hk'⟩ := wordsum_flipBit s i (by simp only [Net.addrBits] at hi; omega)
    refine ⟨k, hk, ?_⟩
    simp only [Net.flipSrc]
    rcases hk' with e | e
    · left; omega
    · right; omega

theorem l4c0_flipDst (net : Net) (proto len i : Nat) (hok : net.ok = true) (hp : proto < 256) (hlen : net.lenOk len)
    (hi : i < net.addrBits) :
    ∃ k, k < 16 ∧ (l4c0 (net.flipDst i) proto len = l4c0 net proto len + 2 ^ k ∨
                   l4c0 (net.flipDst i) proto len + 2 ^ k = l4c0 net proto len) := by
  have hok' := net.flipDst_ok i hok
  have hlen' : (net.flipDst i).lenOk len := by cases net <;> exact hlen
  obtain ⟨a, _, _⟩ := l4c0_spec net proto len hok hp hlen
  obtain ⟨a', _, _⟩ := l4c0_spec (net.flipDst i) proto len hok' hp hlen'
  rw [a, a', wordsum_pseudoBytes _ _ _ hok hp hlen, wordsum_pseudoBytes _ _ _ hok' hp hlen']
  cases net with
  | v4 s d =>
    simp only [Net.ok, Bool.and_eq_true, beq_iff_eq] at hok
    obtain ⟨k, hk, hk'⟩ := wordsum_flipBit d i (by simp only [Net.addrBits] at hi; omega)
    refine ⟨k, hk, ?_⟩
    simp only [Net.flipDst]
    rcases hk' with e | e
    · left; omega
    · right; omega
  | v6 s d =>
    simp only [Net.ok, Bool.and_eq_true, beq_iff_eq] at hok
    obtain ⟨k, hk, hk'⟩ := wordsum_flipBit d i (by simp only [Net.addrBits] at hi; omega)
    refine ⟨k, hk, ?_⟩
    simp only [Net.flipDst]
    rcases hk' with e | e
    · left; omega
    · right; omega

end Gp.CksumEmit
