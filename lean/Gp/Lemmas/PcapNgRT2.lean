import Gp.Lemmas.PcapNgRT1
/-
  Round trip, part 2 (C14): the option loop on a written option list, for an option handler that is
  described by a step function on an abstract view of the state.
-/
namespace Gp.PcapNg
open Gp.Gen.PcapNg

/-- the part of the reader state that option handling never touches -/
structure Keep where
  cfg : Cfg
  be : Bool
  sect : Section
  linkType : Nat
  firstFound : Bool
  ifaces : List Iface
  blkTyp : Nat

def S.keep (s : S) : Keep := ⟨s.cfg, s.be, s.sect, s.linkType, s.firstFound, s.ifaces, s.blkTyp⟩

def optsFold {X : Type} (step : Nat → Bytes → X → Option X) : List (Nat × Bytes) → X → Option X
  | [], x => some x
  | o :: os, x =>
    match step o.1 o.2 x with
    | some x' => optsFold step os x'
    | none => none

theorem optsFold_append {X : Type} (step : Nat → Bytes → X → Option X) (a b : List (Nat × Bytes)) (x : X) :
    optsFold step (a ++ b) x = (optsFold step a x).bind (optsFold step b) := by
  induction a generalizing x with
  | nil => rfl
  | cons o os ih =>
    simp only [List.cons_append, optsFold]
    cases step o.1 o.2 x with
    | none => rfl
    | some x' => exact ih x'

def OptValid (o : Nat × Bytes) : Prop := o.1 ≠ ngOptionCodeEndOfOptions ∧ o.1 < 65536 ∧ o.2.length < 65536

theorem endOpt_eq : ([0, 0, 0, 0] : Bytes) = putLe16 0 ++ putLe16 0 := by decide

/-- readOption on the end-of-options option -/
theorem eats_readOption_end (s : S) (hbe : s.be = false) (h4 : s.blkLen ≠ 4) (h5 : 4 ≤ s.blkLen) (hlt : s.blkLen < 4294967296) :
    EatsD readOption s [0, 0, 0, 0] () { s with blkLen := s.blkLen - 4, optCode := ngOptionCodeEndOfOptions } := by
  unfold readOption
  have h0 : optStartStep s = (.ok true, s) := by
    unfold optStartStep; rw [if_neg h4]
  refine Eats.bindD0 (EatsD.act h0) ?_
  rw [if_pos rfl, endOpt_eq]
  refine Eats.bindD1 (EatsD.rd s (by rfl)) ?_
  have e1 : (putLe16 0 ++ putLe16 0).take 2 = putLe16 0 := rfl
  have e2 : (putLe16 0 ++ putLe16 0).drop 2 = putLe16 0 := rfl
  have h1 : optHeadStep (putLe16 0 ++ putLe16 0) s
      = (.ok none, { s with blkLen := sub32 s.blkLen 4, optCode := ngOptionCodeEndOfOptions }) := by
    simp only [optHeadStep, hbe, e1, e2, getU_le16]
    rfl
  refine Eats.bindD0 (EatsD.act h1) ?_
  refine EatsD.eq (EatsD.pure _ _) ?_
  rw [sub32_eq h5 hlt]

section loop
variable {X : Type} (handle : Nat → Bytes → Act Unit) (φ : S → X) (step : Nat → Bytes → X → Option X)
  (hkeep : ∀ c v s, (handle c v s).2.keep = s.keep ∧ (handle c v s).2.blkLen = s.blkLen)
  (hscr : ∀ (s : S) b c v, φ { s with blkLen := b, optCode := c, optVal := v } = φ s)
  (hstep : ∀ c v (s : S) x', s.be = false → step c v (φ s) = some x' → ∃ s', handle c v s = (.ok (), s') ∧ φ s' = x')
include hkeep hscr hstep

theorem keep_be {s s' : S} (h : s'.keep = s.keep) : s'.be = s.be := congrArg Keep.be h

/-- the option loop, entered before the options `os` (end-of-options and the 4 byte block trailer follow) -/
theorem eatsI_optBody : ∀ (os : List (Nat × Bytes)) (s : S) (xf : X), (∀ o ∈ os, OptValid o) → s.be = false →
    s.blkLen = ((os.map optBytes).flatten ++ [0, 0, 0, 0]).length + 4 → s.blkLen < 4294967296 →
    optsFold step os (φ s) = some xf →
    EatsI (readOption >>= fun _ => Prog.act (optSwitch handle)) s ((os.map optBytes).flatten ++ [0, 0, 0, 0])
      (fun _ s' => s'.keep = s.keep ∧ s'.blkLen = 4 ∧ φ s' = xf) := by
  intro os
  induction os with
  | nil =>
    intro s xf _ hbe hlen hlt hf
    simp only [List.map_nil, List.flatten_nil, List.nil_append, List.length_cons, List.length_nil] at hlen
    simp only [List.map_nil, List.flatten_nil, List.nil_append]
    refine EatsI.done ?_
    refine Eats.bindD1 (eats_readOption_end s hbe (by omega) (by omega) hlt) ?_
    have hsw : optSwitch handle { s with blkLen := s.blkLen - 4, optCode := ngOptionCodeEndOfOptions }
        = (.ok (.done ()), { s with blkLen := s.blkLen - 4, optCode := ngOptionCodeEndOfOptions }) := by
      unfold optSwitch; rw [if_pos rfl]
    refine Eats.act hsw ⟨(), rfl, rfl, by simp only; omega, ?_⟩
    simp only [optsFold, Option.some.injEq] at hf
    rw [← hf]
    exact hscr s (s.blkLen - 4) ngOptionCodeEndOfOptions s.optVal
  | cons o os ih =>
    intro s xf hval hbe hlen hlt hf
    obtain ⟨c, v⟩ := o
    have hv := hval (c, v) (by simp)
    obtain ⟨hc0, hc, hvl⟩ := hv
    simp only at hc0 hc hvl
    simp only [List.map_cons, List.flatten_cons, List.append_assoc, List.length_append] at hlen ⊢
    have hL := length_optBytes (c, v)
    refine EatsI.again rfl (R := fun s1 => s1.keep = s.keep ∧ s1.blkLen = s.blkLen - (optBytes (c, v)).length ∧
        optsFold step os (φ s1) = some xf) ?_ ?_
    · refine Eats.bindD1 (eats_readOption s c v hbe hc0 hc hvl (by omega) hlt) ?_
      simp only [optsFold] at hf
      have hφ1 := hscr s (s.blkLen - (optBytes (c, v)).length) c v
      cases hst : step c v (φ s) with
      | none => rw [hst] at hf; cases hf
      | some x' =>
        rw [hst] at hf
        simp only at hf
        obtain ⟨s2, hh, hφ2⟩ := hstep c v { s with blkLen := s.blkLen - (optBytes (c, v)).length, optCode := c, optVal := v } x'
          hbe (by rw [hφ1]; exact hst)
        have hk := hkeep c v { s with blkLen := s.blkLen - (optBytes (c, v)).length, optCode := c, optVal := v }
        rw [hh] at hk
        have hsw : optSwitch handle { s with blkLen := s.blkLen - (optBytes (c, v)).length, optCode := c, optVal := v }
            = (.ok .again, s2) := by
          unfold optSwitch
          rw [if_neg hc0]
          simp only [hh]
        refine Eats.act hsw ⟨rfl, hk.1, hk.2, ?_⟩
        rw [hφ2]; exact hf
    · intro s1 ⟨hk1, hb1, hf1⟩
      have := ih s1 xf (fun o ho => hval o (by simp [ho])) (by rw [keep_be handle φ step hkeep hscr hstep hk1]; exact hbe)
        (by rw [hb1]; simp only [List.length_append] at hlen ⊢; omega) (by omega) hf1
      exact fun rest ev nw => by
        obtain ⟨a, s', ev', ⟨h1, h2, h3⟩, h4⟩ := this rest ev nw
        exact ⟨a, s', ev', ⟨h1.trans hk1, h2, h3⟩, h4⟩

/-- the option loop on a written option list (`encOpts`), followed by the 4 byte block trailer -/
theorem eats_optLoop (os : List (Nat × Bytes)) (s : S) (xf : X) (hval : ∀ o ∈ os, OptValid o) (hbe : s.be = false)
    (hlen : s.blkLen = (encOpts os).length + 4) (hlt : s.blkLen < 4294967296) (hf : optsFold step os (φ s) = some xf) :
    Eats (optLoop handle) s (encOpts os) (fun _ s' => s'.keep = s.keep ∧ s'.blkLen = 4 ∧ φ s' = xf) := by
  unfold optLoop
  refine Eats.iter ?_
  cases os with
  | nil =>
    simp only [encOpts, List.length_nil, Nat.zero_add] at hlen
    show EatsI _ s [] _
    refine EatsI.done ?_
    have h0 : optStartStep s = (.ok false, { s with optCode := ngOptionCodeEndOfOptions }) := by
      unfold optStartStep; rw [if_pos hlen]
    have hro : EatsD readOption s [] () { s with optCode := ngOptionCodeEndOfOptions } := by
      unfold readOption
      refine Eats.bindD0 (EatsD.act h0) ?_
      rw [if_neg (by simp)]
      exact EatsD.pure _ _
    refine Eats.bindD0 hro ?_
    have hsw : optSwitch handle { s with optCode := ngOptionCodeEndOfOptions }
        = (.ok (.done ()), { s with optCode := ngOptionCodeEndOfOptions }) := by
      unfold optSwitch; rw [if_pos rfl]
    refine Eats.act hsw ⟨(), rfl, rfl, hlen, ?_⟩
    simp only [optsFold, Option.some.injEq] at hf
    rw [← hf]
    exact hscr s s.blkLen ngOptionCodeEndOfOptions s.optVal
  | cons o os =>
    exact eatsI_optBody handle φ step hkeep hscr hstep (o :: os) s xf hval hbe hlen hlt hf

end loop

end Gp.PcapNg
