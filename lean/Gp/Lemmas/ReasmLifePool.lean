import Gp.Lemmas.ReasmLife
/-
  C11 (reassembly half): stream lifecycle for ALL histories of the pool model: the invariant `LInv`
  (every stream id is fresh, alive or done, exactly as its callbacks say) is kept by every operation.
-/
set_option linter.unusedSimpArgs false
set_option linter.unusedVariables false
namespace Gp.Reasm
open Gp

/-- members of a pool with strictly increasing ids are determined by their id -/
theorem ids_unique : ∀ {l : List Conn}, IdsOK l → ∀ {c d : Conn}, c ∈ l → d ∈ l → c.id = d.id → c = d
  | [], _, c, d, hc, _, _ => by simp at hc
  | x :: rest, h, c, d, hc, hd, e => by
    have hx := List.pairwise_cons.mp h
    rcases List.mem_cons.mp hc with e1 | hc'
    · rcases List.mem_cons.mp hd with e2 | hd'
      · rw [e1, e2]
      · have := hx.1 d hd'; rw [e1] at e; omega
    · rcases List.mem_cons.mp hd with e2 | hd'
      · have := hx.1 c hc'; rw [e2] at e; omega
      · exact ids_unique hx.2 hc' hd' e

theorem mem_setConn_self {c c' : Conn} {l : List Conn} (hc : c ∈ l) (hid : c'.id = c.id) : c' ∈ setConn c' l := by
  simp only [setConn, List.mem_map]
  exact ⟨c, hc, by rw [if_pos hid.symm]⟩

theorem mem_setConn_other {c' x : Conn} {l : List Conn} (hx : x ∈ l) (hne : x.id ≠ c'.id) : x ∈ setConn c' l := by
  simp only [setConn, List.mem_map]
  exact ⟨x, hx, by rw [if_neg hne]⟩

theorem mem_removeConn_other {id : Nat} {x : Conn} {l : List Conn} (hx : x ∈ l) (hne : x.id ≠ id) :
    x ∈ removeConn id l := by
  simp only [removeConn, List.mem_filter]
  exact ⟨hx, by simpa using hne⟩

/-- Every stream id is fresh, alive or done, exactly as the callbacks `evs` made so far say. -/
structure LInv (st : St) (evs : List Ev) : Prop where
  lt : ∀ c ∈ st.conns, c.sid < st.nextSid
  inj : ∀ c ∈ st.conns, ∀ d ∈ st.conns, c.sid = d.sid → c.id = d.id
  live : ∀ c ∈ st.conns, life c.sid .fresh evs = some (Life.ofDone c.done)
  gone : ∀ sid, sid < st.nextSid → (∀ c ∈ st.conns, c.sid ≠ sid) → life sid .fresh evs = some .done
  fresh : ∀ sid, st.nextSid ≤ sid → ∀ e ∈ evs, Ev.mentions sid e = false
  refused : ∀ c ∈ st.conns, c.done = true → Ev.done c.id c.sid false ∈ evs

theorem linv_init : LInv {} [] :=
  { lt := by simp, inj := by simp, live := by simp,
    gone := fun sid h _ => by simp at h, fresh := by simp, refused := by simp }

theorem life_bind_some {sid : Nat} {s s' : Life} {l1 l2 : List Ev} (h : life sid s l1 = some s') :
    life sid s (l1 ++ l2) = life sid s' l2 := by
  rw [life_append, h]; rfl

/-- one connection of the pool makes a step -/
theorem linv_replace {st : St} {evs ev : List Ev} {c c' : Conn} {removed : Bool} (u : Int)
    (hids : IdsOK st.conns) (hl : LInv st evs) (hc : c ∈ st.conns) (cl : ConnLife c ev c' removed) :
    LInv { st with conns := if removed = true then removeConn c.id st.conns else setConn c' st.conns, used := u }
      (evs ++ ev) := by
  -- every member of the new pool comes from a member of the old one with the same ids
  have horig : ∀ x ∈ (if removed = true then removeConn c.id st.conns else setConn c' st.conns),
      (x = c' ∧ removed = false) ∨ (x ∈ st.conns ∧ x.id ≠ c.id) := by
    intro x hx
    split at hx
    · exact Or.inr (removeConn_mem hx)
    · rename_i hr
      rcases setConn_mem hx with rfl | ⟨h1, h2⟩
      · exact Or.inl ⟨rfl, by simpa using hr⟩
      · exact Or.inr ⟨h1, by rw [cl.sid.2] at h2; exact h2⟩
  have hback : ∀ x ∈ (if removed = true then removeConn c.id st.conns else setConn c' st.conns),
      ∃ x0 ∈ st.conns, x0.sid = x.sid ∧ x0.id = x.id := by
    intro x hx
    rcases horig x hx with ⟨rfl, _⟩ | ⟨h1, _⟩
    · exact ⟨c, hc, cl.sid.1.symm, cl.sid.2.symm⟩
    · exact ⟨x, h1, rfl, rfl⟩
  have hother : ∀ x ∈ st.conns, x.id ≠ c.id → x.sid ≠ c.sid := by
    intro x hx hne hs
    exact hne (hl.inj x hx c hc hs)
  have hkeep : ∀ x ∈ st.conns, x.id ≠ c.id →
      x ∈ (if removed = true then removeConn c.id st.conns else setConn c' st.conns) := by
    intro x hx hne
    split
    · exact mem_removeConn_other hx hne
    · exact mem_setConn_other hx (by rw [cl.sid.2]; exact hne)
  refine { lt := ?_, inj := ?_, live := ?_, gone := ?_, fresh := ?_, refused := ?_ }
  · intro x hx
    obtain ⟨x0, h0, hs, _⟩ := hback x hx
    rw [← hs]; exact hl.lt x0 h0
  · intro x hx y hy hs
    obtain ⟨x0, hx0, hxs, hxi⟩ := hback x hx
    obtain ⟨y0, hy0, hys, hyi⟩ := hback y hy
    rw [← hxi, ← hyi]
    exact hl.inj x0 hx0 y0 hy0 (by rw [hxs, hys, hs])
  · intro x hx
    rcases horig x hx with ⟨rfl, _⟩ | ⟨h1, h2⟩
    · show life x.sid .fresh (evs ++ ev) = _
      rw [cl.sid.1, life_bind_some (hl.live c hc)]
      exact cl.scan
    · show life x.sid .fresh (evs ++ ev) = _
      rw [life_bind_some (hl.live x h1)]
      exact life_irrelevant _ _ _ (cl.only x.sid (hother x h1 h2))
  · intro sid hlt hno
    show life sid .fresh (evs ++ ev) = _
    by_cases hs : sid = c.sid
    · -- the connection itself: it must have been removed, so it is done
      subst hs
      have hr : removed = true := by
        cases hrm : removed with
        | true => rfl
        | false =>
          exfalso
          have : c' ∈ (if removed = true then removeConn c.id st.conns else setConn c' st.conns) := by
            rw [hrm]; simp only [Bool.false_eq_true, if_false]
            exact mem_setConn_self hc cl.sid.2
          exact hno c' this cl.sid.1
      rw [life_bind_some (hl.live c hc)]
      have := cl.scan
      rw [cl.rem hr] at this
      exact this
    · have hno' : ∀ x ∈ st.conns, x.sid ≠ sid := by
        intro x hx hxs
        by_cases hxi : x.id = c.id
        · have := ids_unique hids hx hc hxi
          subst this; exact hs hxs.symm
        · exact hno x (hkeep x hx hxi) hxs
      rw [life_bind_some (hl.gone sid hlt hno')]
      exact life_irrelevant _ _ _ (cl.only sid hs)
  · intro sid hge e he
    rcases List.mem_append.mp he with he | he
    · exact hl.fresh sid hge e he
    · have := hl.lt c hc
      have hge' : st.nextSid ≤ sid := hge
      exact cl.only sid (by show sid ≠ c.sid; omega) e he
  · intro x hx hd
    rcases horig x hx with ⟨rfl, hr⟩ | ⟨h1, _⟩
    · rw [cl.sid.1, cl.sid.2]
      rcases cl.refused hd hr with h | h
      · exact List.mem_append_left _ (hl.refused c hc h)
      · exact List.mem_append_right _ h
    · exact List.mem_append_left _ (hl.refused x h1 hd)

theorem newConn_done (id sid : Nat) (dir : Bool) (ts : Int) : (newConn id sid dir ts).done = false := by
  simp [newConn, Conn.done]

/-- getConnection: an unknown flow gets a new stream from the factory -/
theorem lookupConn_linv (st : St) (id : Nat) (dir : Bool) (ts : Int) (evs : List Ev) (hl : LInv st evs) :
    LInv (lookupConn st id dir ts).1 (evs ++ (lookupConn st id dir ts).2.2) := by
  unfold lookupConn
  cases hf : findConn id st.conns with
  | some c => simpa using hl
  | none =>
    simp only
    have hnm : ∀ e ∈ [Ev.created id st.nextSid], ∀ sid, sid ≠ st.nextSid → Ev.mentions sid e = false := by
      intro e he sid hs
      simp only [List.mem_singleton] at he; subst he
      simp [Ev.mentions, Ne.symm hs]
    refine { lt := ?_, inj := ?_, live := ?_, gone := ?_, fresh := ?_, refused := ?_ }
    · intro x hx
      rcases insertConn_mem.mp hx with rfl | hx
      · simp [newConn]
      · have := hl.lt x hx; show x.sid < st.nextSid + 1; omega
    · intro x hx y hy hs
      rcases insertConn_mem.mp hx with rfl | hx
      · rcases insertConn_mem.mp hy with rfl | hy
        · rfl
        · have := hl.lt y hy; simp only [newConn] at hs; omega
      · rcases insertConn_mem.mp hy with rfl | hy
        · have := hl.lt x hx; simp only [newConn] at hs; omega
        · exact hl.inj x hx y hy hs
    · intro x hx
      rcases insertConn_mem.mp hx with rfl | hx
      · show life st.nextSid .fresh (evs ++ [Ev.created id st.nextSid]) = _
        rw [life_bind_some (life_irrelevant _ _ _ (hl.fresh st.nextSid (Nat.le_refl _))), newConn_done]
        simp [life, lifeStep, Ev.mentions, Life.ofDone]
      · rw [life_bind_some (hl.live x hx)]
        exact life_irrelevant _ _ _ (fun e he => hnm e he x.sid (by have := hl.lt x hx; omega))
    · intro sid hlt hno
      have hne : sid ≠ st.nextSid := by
        intro hs
        exact hno (newConn id st.nextSid dir ts) (insertConn_mem.mpr (Or.inl rfl)) (by simp [newConn, hs])
      have hlt' : sid < st.nextSid := by simp only at hlt; omega
      rw [life_bind_some (hl.gone sid hlt' (fun x hx => hno x (insertConn_mem.mpr (Or.inr hx))))]
      exact life_irrelevant _ _ _ (fun e he => hnm e he sid hne)
    · intro sid hge e he
      simp only at hge
      rcases List.mem_append.mp he with he | he
      · exact hl.fresh sid (by omega) e he
      · exact hnm e he sid (by omega)
    · intro x hx hd
      rcases insertConn_mem.mp hx with rfl | hx
      · rw [newConn_done] at hd; cases hd
      · exact List.mem_append_left _ (hl.refused x hx hd)

theorem opSeg_linv (A : Arith) (st : St) (id : Nat) (dir : Bool) (p : Seg) (acc : Nat) (keep : KeepRule) (cmpl : CmplRule)
    (rp : Reply) (evs : List Ev) (hinv : PoolInv st) (hl : LInv st evs)
    (h : opSeg A st id dir p acc keep cmpl = .ok rp) : LInv rp.st (evs ++ rp.evs) := by
  unfold opSeg at h
  obtain ⟨hinv1, hc1, _⟩ := lookupConn_inv st id dir p.ts hinv
  have hl1 := lookupConn_linv st id dir p.ts evs hl
  generalize lookupConn st id dir p.ts = r at h hinv1 hc1 hl1
  obtain ⟨st1, c, ev0⟩ := r
  simp only at h hinv1 hc1 hl1
  unfold opSegOn at h
  simp only at h
  split at h
  · rename_i o ha
    obtain rfl := Res.ok.inj h
    have cl := assemble_life A st1.cfg c (dir == c.firstDir) st1.used p acc keep cmpl o ha
    have := linv_replace o.used hinv1.ids hl1 hc1 cl
    simp only [List.append_assoc] at this ⊢
    exact this
  · cases h
  · cases h

/-- the flush loops: every connection of the snapshot makes one step -/
theorem overConns_life (f : Conn → Int → Res ConnOut) :
    ∀ (l : List Conn) (used : Int) (cs : List Conn) (u' : Int) (evs : List Ev) (fl cl : Nat),
      l.Pairwise (fun a b => a.sid ≠ b.sid) →
      (∀ c ∈ l, ∀ u o, f c u = .ok o → ConnLife c o.evs o.conn o.removed) →
      overConns f l used = .ok (cs, u', evs, fl, cl) →
      (∀ x ∈ cs, ∃ c ∈ l, x.sid = c.sid ∧ x.id = c.id ∧
          life c.sid (Life.ofDone c.done) evs = some (Life.ofDone x.done) ∧
          (x.done = true → c.done = true ∨ Ev.done c.id c.sid false ∈ evs)) ∧
      (∀ c ∈ l, (∀ x ∈ cs, x.sid ≠ c.sid) → life c.sid (Life.ofDone c.done) evs = some .done) ∧
      (∀ sid, (∀ c ∈ l, c.sid ≠ sid) → ∀ e ∈ evs, Ev.mentions sid e = false)
  | [], used, cs, u', evs, fl, cl, _, _, h => by
    simp only [overConns, Res.ok.injEq, Prod.mk.injEq] at h
    obtain ⟨rfl, _, rfl, _⟩ := h
    exact ⟨by simp, by simp, by simp⟩
  | c :: rest, used, cs, u', evs, fl, cl, hpw, hf, h => by
    have hpc := List.pairwise_cons.mp hpw
    simp only [overConns] at h
    split at h
    · rename_i o ho
      have clf := hf c (List.mem_cons_self ..) used o ho
      split at h
      · rename_i cs1 u1 evs1 fl1 cl1 hrest
        obtain ⟨a1, b1, c1⟩ := overConns_life f rest o.used cs1 u1 evs1 fl1 cl1 hpc.2
          (fun x hx => hf x (List.mem_cons_of_mem _ hx)) hrest
        simp only [Res.ok.injEq, Prod.mk.injEq] at h
        obtain ⟨rfl, _, rfl, _⟩ := h
        -- the events of the rest do not concern `c`
        have hrest_c : ∀ e ∈ evs1, Ev.mentions c.sid e = false :=
          c1 c.sid (fun d hd hs => hpc.1 d hd hs.symm)
        refine ⟨?_, ?_, ?_⟩
        · intro x hx
          have hx' : (x = o.conn ∧ o.removed = false) ∨ x ∈ cs1 := by
            split at hx
            · exact Or.inr hx
            · rename_i hr
              rcases List.mem_cons.mp hx with rfl | hx
              · exact Or.inl ⟨rfl, by simpa using hr⟩
              · exact Or.inr hx
          rcases hx' with ⟨rfl, hr⟩ | hx'
          · refine ⟨c, List.mem_cons_self .., clf.sid.1, clf.sid.2, ?_, ?_⟩
            · rw [life_bind_some clf.scan]
              exact life_irrelevant _ _ _ hrest_c
            · intro hd
              rcases clf.refused hd hr with h' | h'
              · exact Or.inl h'
              · exact Or.inr (List.mem_append_left _ h')
          · obtain ⟨c0, hc0, hs0, hi0, hl0, hr0⟩ := a1 x hx'
            refine ⟨c0, List.mem_cons_of_mem _ hc0, hs0, hi0, ?_, ?_⟩
            · have : life c0.sid (Life.ofDone c0.done) o.evs = some (Life.ofDone c0.done) :=
                life_irrelevant _ _ _ (clf.only c0.sid (fun hs => hpc.1 c0 hc0 hs.symm))
              rw [life_bind_some this]
              exact hl0
            · intro hd
              rcases hr0 hd with h' | h'
              · exact Or.inl h'
              · exact Or.inr (List.mem_append_right _ h')
        · intro d hd hno
          rcases List.mem_cons.mp hd with rfl | hd
          · -- `d` itself is gone from the result: it was removed, hence done
            have hr : o.removed = true := by
              cases hrm : o.removed with
              | true => rfl
              | false =>
                exfalso
                refine hno o.conn ?_ clf.sid.1
                rw [hrm]; simp
            have hsc := clf.scan
            rw [clf.rem hr] at hsc
            rw [life_bind_some hsc]
            exact life_irrelevant _ _ _ hrest_c
          · have : life d.sid (Life.ofDone d.done) o.evs = some (Life.ofDone d.done) :=
              life_irrelevant _ _ _ (clf.only d.sid (fun hs => hpc.1 d hd hs.symm))
            rw [life_bind_some this]
            refine b1 d hd (fun x hx => hno x ?_)
            split
            · exact hx
            · exact List.mem_cons_of_mem _ hx
        · intro sid hno e he
          rcases List.mem_append.mp he with he | he
          · exact clf.only sid (fun hs => hno c (List.mem_cons_self ..) hs.symm) e he
          · exact c1 sid (fun d hd => hno d (List.mem_cons_of_mem _ hd)) e he
      · cases h
      · cases h
    · cases h
    · cases h

theorem sids_pairwise : ∀ {l : List Conn}, IdsOK l → (∀ c ∈ l, ∀ d ∈ l, c.sid = d.sid → c.id = d.id) →
    l.Pairwise (fun a b => a.sid ≠ b.sid)
  | [], _, _ => List.Pairwise.nil
  | x :: rest, hids, hinj => by
    have hx := List.pairwise_cons.mp hids
    refine List.pairwise_cons.mpr ⟨?_, sids_pairwise hx.2
      (fun a ha b hb => hinj a (List.mem_cons_of_mem _ ha) b (List.mem_cons_of_mem _ hb))⟩
    intro d hd hs
    have := hinj x (List.mem_cons_self ..) d (List.mem_cons_of_mem _ hd) hs
    have := hx.1 d hd
    omega

/-- a flush loop keeps the lifecycle invariant -/
theorem overConns_linv (f : Conn → Int → Res ConnOut) (st : St) (evs0 : List Ev) (cs : List Conn) (u : Int)
    (evs : List Ev) (fl cl : Nat) (hinv : PoolInv st) (hl : LInv st evs0)
    (hf : ∀ c ∈ st.conns, ∀ u o, f c u = .ok o → ConnLife c o.evs o.conn o.removed)
    (h : overConns f st.conns st.used = .ok (cs, u, evs, fl, cl)) :
    LInv { st with conns := cs, used := u } (evs0 ++ evs) := by
  obtain ⟨ha, hb, hc⟩ := overConns_life f st.conns st.used cs u evs fl cl (sids_pairwise hinv.ids hl.inj) hf h
  refine { lt := ?_, inj := ?_, live := ?_, gone := ?_, fresh := ?_, refused := ?_ }
  · intro x hx
    obtain ⟨c, hcm, hs, _⟩ := ha x hx
    rw [hs]; exact hl.lt c hcm
  · intro x hx y hy hs
    obtain ⟨c, hcm, hcs, hci, _⟩ := ha x hx
    obtain ⟨d, hdm, hds, hdi, _⟩ := ha y hy
    rw [hci, hdi]
    exact hl.inj c hcm d hdm (by rw [← hcs, ← hds, hs])
  · intro x hx
    obtain ⟨c, hcm, hs, _, hlf, _⟩ := ha x hx
    show life x.sid .fresh (evs0 ++ evs) = _
    rw [hs, life_bind_some (hl.live c hcm)]
    exact hlf
  · intro sid hlt hno
    show life sid .fresh (evs0 ++ evs) = _
    by_cases hex : ∃ c ∈ st.conns, c.sid = sid
    · obtain ⟨c, hcm, rfl⟩ := hex
      rw [life_bind_some (hl.live c hcm)]
      exact hb c hcm hno
    · have hno' : ∀ c ∈ st.conns, c.sid ≠ sid := fun c hcm hs => hex ⟨c, hcm, hs⟩
      rw [life_bind_some (hl.gone sid hlt hno')]
      exact life_irrelevant _ _ _ (hc sid hno')
  · intro sid hge e he
    rcases List.mem_append.mp he with he | he
    · exact hl.fresh sid hge e he
    · refine hc sid (fun c hcm => ?_) e he
      have := hl.lt c hcm
      have hge' : st.nextSid ≤ sid := hge
      show c.sid ≠ sid
      omega
  · intro x hx hd
    obtain ⟨c, hcm, hs, hi, _, hr⟩ := ha x hx
    rw [hs, hi]
    rcases hr hd with h' | h'
    · exact List.mem_append_left _ (hl.refused c hcm h')
    · exact List.mem_append_right _ h'

theorem step_linv (A : Arith) (st : St) (op : Op) (rp : Reply) (evs : List Ev) (hinv : PoolInv st) (hl : LInv st evs)
    (h : step A st op = .ok rp) : LInv rp.st (evs ++ rp.evs) := by
  cases op with
  | opts p t =>
    simp only [step, Res.ok.injEq] at h
    subst h
    simp only [List.append_nil]
    exact { lt := hl.lt, inj := hl.inj, live := hl.live, gone := hl.gone, fresh := hl.fresh, refused := hl.refused }
  | seg id dir p acc keep cmpl => exact opSeg_linv A st id dir p acc keep cmpl rp evs hinv hl h
  | flush t tc keep cmpl =>
    simp only [step, opFlush] at h
    split at h
    · rename_i cs u evs' fl cl hov
      obtain rfl := Res.ok.inj h
      exact overConns_linv _ st evs cs u evs' fl cl hinv hl
        (fun c _ u' o ho => flushConn_life A c u' t tc keep cmpl o ho) hov
    · cases h
    · cases h
  | flushAll keep cmpl =>
    simp only [step, opFlushAll] at h
    split at h
    · rename_i cs u evs' fl cl hov
      obtain rfl := Res.ok.inj h
      exact overConns_linv _ st evs cs u evs' fl cl hinv hl
        (fun c _ u' o ho => flushAllConn_life A c u' keep cmpl o ho) hov
    · cases h
    · cases h

theorem run_linv (A : Arith) : ∀ (ops : List Op) (st st' : St) (evs0 evs : List Ev), PoolInv st → LInv st evs0 →
    run A st ops = .ok (st', evs) → LInv st' (evs0 ++ evs)
  | [], st, st', evs0, evs, _, hl, h => by
    simp only [run, Res.ok.injEq, Prod.mk.injEq] at h
    obtain ⟨rfl, rfl⟩ := h
    simpa using hl
  | op :: rest, st, st', evs0, evs, hinv, hl, h => by
    simp only [run] at h
    split at h
    · rename_i rp hs
      split at h
      · rename_i st2 evs2 hr
        simp only [Res.ok.injEq, Prod.mk.injEq] at h
        obtain ⟨rfl, rfl⟩ := h
        have := run_linv A rest rp.st _ (evs0 ++ rp.evs) evs2 (step_inv A st op rp hinv hs)
          (step_linv A st op rp evs0 hinv hl hs) hr
        rw [List.append_assoc] at this
        exact this
      · cases h
      · cases h
    · cases h
    · cases h

/-! ### reading the automaton -/

/-- the number of completions along a legal history -/
theorem life_doneCount (sid : Nat) : ∀ (l : List Ev) (s s' : Life), life sid s l = some s' →
    doneCount sid l = (if s ≠ .done ∧ s' = .done then 1 else 0)
  | [], s, s', h => by
    simp only [life, Option.some.injEq] at h
    subst h
    simp [doneCount]
  | e :: rest, s, s', h => by
    simp only [life] at h
    cases hm : e.mentions sid with
    | false =>
      rw [lifeStep_irrelevant hm] at h
      have ih := life_doneCount sid rest s s' h
      have : doneCount sid (e :: rest) = doneCount sid rest := by
        cases e <;> simp [doneCount, List.filter_cons, Ev.mentions] at hm ⊢ <;> simp [hm]
      rw [this, ih]
    | true =>
      simp only [lifeStep, hm, if_true] at h
      cases e with
      | created c x =>
        cases s <;> simp only at h <;> try (cases h)
        have ih := life_doneCount sid rest .alive s' h
        have : doneCount sid (Ev.created c x :: rest) = doneCount sid rest := by simp [doneCount, List.filter_cons]
        rw [this, ih]; simp
      | sg c x d g =>
        cases s <;> simp only at h <;> try (cases h)
        have ih := life_doneCount sid rest .alive s' h
        have : doneCount sid (Ev.sg c x d g :: rest) = doneCount sid rest := by simp [doneCount, List.filter_cons]
        rw [this, ih]
      | done c x a =>
        cases s <;> simp only at h <;> try (cases h)
        have hs' := (life_done sid rest s' h).1
        have ih := life_doneCount sid rest .done s' h
        have hx : x = sid := by simpa [Ev.mentions] using hm
        have : doneCount sid (Ev.done c x a :: rest) = doneCount sid rest + 1 := by
          simp [doneCount, List.filter_cons, hx]
        rw [this, ih, hs']; simp

/-- the number of creations along a legal history -/
theorem life_createdCount (sid : Nat) : ∀ (l : List Ev) (s s' : Life), life sid s l = some s' →
    createdCount sid l = (if s = .fresh ∧ s' ≠ .fresh then 1 else 0)
  | [], s, s', h => by
    simp only [life, Option.some.injEq] at h
    subst h
    simp [createdCount]
  | e :: rest, s, s', h => by
    simp only [life] at h
    cases hm : e.mentions sid with
    | false =>
      rw [lifeStep_irrelevant hm] at h
      have ih := life_createdCount sid rest s s' h
      have : createdCount sid (e :: rest) = createdCount sid rest := by
        cases e <;> simp [createdCount, List.filter_cons, Ev.mentions] at hm ⊢ <;> simp [hm]
      rw [this, ih]
    | true =>
      simp only [lifeStep, hm, if_true] at h
      cases e with
      | created c x =>
        cases s <;> simp only at h <;> try (cases h)
        have hne := life_alive_ne_fresh sid rest s' h
        have ih := life_createdCount sid rest .alive s' h
        have hx : x = sid := by simpa [Ev.mentions] using hm
        have : createdCount sid (Ev.created c x :: rest) = createdCount sid rest + 1 := by
          simp [createdCount, List.filter_cons, hx]
        rw [this, ih]; simp [hne]
      | sg c x d g =>
        cases s <;> simp only at h <;> try (cases h)
        have ih := life_createdCount sid rest .alive s' h
        have : createdCount sid (Ev.sg c x d g :: rest) = createdCount sid rest := by simp [createdCount, List.filter_cons]
        rw [this, ih]
      | done c x a =>
        cases s <;> simp only at h <;> try (cases h)
        have ih := life_createdCount sid rest .done s' h
        have : createdCount sid (Ev.done c x a :: rest) = createdCount sid rest := by simp [createdCount, List.filter_cons]
        rw [this, ih]; simp

/-- nothing about the stream follows its completion -/
theorem life_after_done (sid : Nat) {s s' : Life} {pre post : List Ev} {c : Nat} {a : Bool}
    (h : life sid s (pre ++ Ev.done c sid a :: post) = some s') : ∀ e ∈ post, Ev.mentions sid e = false := by
  rw [life_append] at h
  cases h1 : life sid s pre with
  | none => rw [h1] at h; cases h
  | some s1 =>
    rw [h1] at h
    simp only [Option.bind, life, lifeStep, Ev.mentions, decide_true, if_true] at h
    cases s1 <;> simp only at h <;> try (cases h)
    exact (life_done sid post s' h).2

/-- nothing about the stream precedes its creation -/
theorem life_before_created (sid : Nat) {s' : Life} {pre post : List Ev} {c : Nat}
    (h : life sid .fresh (pre ++ Ev.created c sid :: post) = some s') : ∀ e ∈ pre, Ev.mentions sid e = false := by
  rw [life_append] at h
  cases h1 : life sid .fresh pre with
  | none => rw [h1] at h; cases h
  | some s1 =>
    rw [h1] at h
    simp only [Option.bind, life, lifeStep, Ev.mentions, decide_true, if_true] at h
    cases s1 <;> simp only at h <;> try (cases h)
    exact life_fresh sid pre h1

end Gp.Reasm
