import Gp.Lemmas.PcapNgProg
/-
  `run_trunc`: every reader program is prefix-consistent (see PcapNgProg.lean).
-/
namespace Gp.PcapNg

/-- relation between the result `o` of a run on stream `w` and the result `ot` of the same run on
    `w` truncated to `k` bytes -/
def TruncSpec {α} (o : Out α) (w : Strm) (k : Nat) (ot : Out α) : Prop :=
  (w.inp.length - o.w.inp.length ≤ k → ot = o.mapW (Strm.trunc (k - (w.inp.length - o.w.inp.length)))) ∧
  (k < w.inp.length - o.w.inp.length →
      ∃ e s' w', ot = .fail e s' w' ∧ w'.inp = [] ∧ ShortE e ∧ (e = .werr → w.nWrap < o.w.nWrap))

/-- the same for a primitive -/
def PTruncSpec {α} (r : Except Err α × Strm) (w : Strm) (k : Nat) (rt : Except Err α × Strm) : Prop :=
  (w.inp.length - r.2.inp.length ≤ k → rt = (r.1, r.2.trunc (k - (w.inp.length - r.2.inp.length)))) ∧
  (k < w.inp.length - r.2.inp.length →
      ∃ e w', rt = (.error e, w') ∧ w'.inp = [] ∧ ShortE e ∧ (e = .werr → w.nWrap < r.2.nWrap))

theorem trunc_of_le (w : Strm) {k : Nat} (h : w.inp.length ≤ k) : w.trunc k = w := by
  cases w; simp only [Strm.trunc]; congr; exact List.take_of_length_le h

theorem trunc_nil_inp (w : Strm) (k : Nat) (h : w.inp = []) : w.trunc k = w := by
  apply trunc_of_le; simp [h]

theorem shortE_ueof : ShortE .ueof := Or.inr (Or.inl rfl)
theorem shortE_werr : ShortE .werr := Or.inr (Or.inr rfl)
theorem shortE_eof : ShortE .eof := Or.inl rfl

theorem takeN_trunc (n : Nat) (e : Err) (w : Strm) (k : Nat) :
    (w.inp.length - (takeN n e w).2.inp.length ≤ k →
        takeN n e (w.trunc k) = ((takeN n e w).1, (takeN n e w).2.trunc (k - (w.inp.length - (takeN n e w).2.inp.length)))) ∧
    (k < w.inp.length - (takeN n e w).2.inp.length → takeN n e (w.trunc k) = (.error e, { w with inp := [] })) := by
  unfold takeN
  by_cases hn : n ≤ w.inp.length
  · simp only [hn, if_true, List.length_drop]
    constructor
    · intro hk
      have hk' : n ≤ k := by omega
      have : n ≤ (w.trunc k).inp.length := by simp [Strm.trunc, List.length_take]; omega
      simp only [this, if_true]
      simp only [Strm.trunc]
      refine Prod.ext ?_ ?_
      · simp [List.take_take, Nat.min_eq_left hk']
      · simp only [Strm.mk.injEq, and_true]
        rw [List.drop_take]
        congr 1; omega
    · intro hk
      have : ¬ n ≤ (w.trunc k).inp.length := by simp [Strm.trunc, List.length_take]; omega
      simp only [this, if_false]
      simp [Strm.trunc]
  · simp only [hn, if_false, List.length_nil]
    constructor
    · intro hk
      have hw : w.trunc k = w := trunc_of_le w (by omega)
      rw [hw]; simp only [hn, if_false]
      simp [Strm.trunc]
    · intro hk
      have : ¬ n ≤ (w.trunc k).inp.length := by simp [Strm.trunc, List.length_take]; omega
      simp only [this, if_false]
      simp [Strm.trunc]

/-- primitives that are `takeN` on a stream whose logs were extended first -/
theorem takeN_ptrunc (n : Nat) (e : Err) (he : ShortE e) (w wm : Strm) (k : Nat) (wmt : Strm)
    (hinp : wm.inp = w.inp) (hwrap : e = .werr → w.nWrap < wm.nWrap)
    (hmt_inp : wmt.inp = w.inp.take k)
    (hmt : w.inp.length - (takeN n e wm).2.inp.length ≤ k → wmt = wm.trunc k) :
    PTruncSpec (takeN n e wm) w k (takeN n e wmt) := by
  have h := takeN_trunc n e wm k
  rw [hinp] at h
  constructor
  · intro hk
    rw [hmt hk]
    exact h.1 hk
  · intro hk
    refine ⟨e, { wmt with inp := [] }, ?_, rfl, he, ?_⟩
    · unfold takeN
      have hlt : k < n := by
        unfold takeN at hk
        split at hk
        · simp [List.length_drop, hinp] at hk; omega
        · simp at hk; rename_i hh; rw [hinp] at hh; omega
      have : ¬ n ≤ wmt.inp.length := by rw [hmt_inp, List.length_take]; omega
      simp [this]
    · intro hw
      have := hwrap hw
      unfold takeN
      split <;> simpa using this

theorem findZero_take_some {b : Bytes} {p k : Nat} (h : findZero b = some p) (hk : p + 1 ≤ k) :
    findZero (b.take k) = some p := by
  induction b generalizing p k with
  | nil => simp [findZero] at h
  | cons x r ih =>
    cases k with
    | zero => omega
    | succ k =>
      simp only [List.take_succ_cons, findZero] at h ⊢
      split at h
      · rename_i hx; simp [hx]; simpa using h
      · rename_i hx
        simp only [hx, if_false]
        cases hr : findZero r with
        | none => simp [hr] at h
        | some q =>
          simp [hr] at h; subst h
          rw [ih hr (by omega)]; rfl

theorem findZero_take_none {b : Bytes} {k : Nat} (h : ∀ p, findZero b = some p → k < p + 1) :
    findZero (b.take k) = none := by
  induction b generalizing k with
  | nil => simp [findZero]
  | cons x r ih =>
    cases k with
    | zero => simp [findZero]
    | succ k =>
      simp only [List.take_succ_cons, findZero]
      by_cases hx : x = 0
      · have := h 0 (by simp [findZero, hx]); omega
      · simp only [hx, if_false]
        rw [ih]; rfl
        intro p hp
        have := h (p + 1) (by simp [findZero, hx, hp])
        omega

theorem takeN_len (n : Nat) (e : Err) (w : Strm) :
    (takeN n e w).2.inp.length = if n ≤ w.inp.length then w.inp.length - n else 0 := by
  unfold takeN; split <;> simp [List.length_drop]

theorem take_take_of_need {b : Bytes} {n k : Nat}
    (h : b.length - (if n ≤ b.length then b.length - n else 0) ≤ k) : (b.take k).take n = b.take n := by
  split at h
  · rw [List.take_take, Nat.min_eq_left (by omega)]
  · rw [List.take_of_length_le (l := b) (by omega)]

theorem ptrunc_map {α β} (f : α → β) {r rt : Except Err α × Strm} {w : Strm} {k : Nat}
    (h : PTruncSpec r w k rt) : PTruncSpec (r.1.map f, r.2) w k (rt.1.map f, rt.2) := by
  constructor
  · intro hk; have := h.1 hk; rw [this]
  · intro hk
    obtain ⟨e, w', h1, h2, h3, h4⟩ := h.2 hk
    exact ⟨e, w', by rw [h1]; rfl, h2, h3, h4⟩

theorem skip_eq (n : Nat) (w : Strm) :
    Prim.run (.skip n) w = ((Prim.run (.rd n) w).1.map (fun _ => ()), (Prim.run (.rd n) w).2) := by
  simp only [Prim.run, takeN]; split <;> rfl

theorem skipW_eq (n : Nat) (w : Strm) :
    Prim.run (.skipW n) w = ((Prim.run (.rdW n) w).1.map (fun _ => ()), (Prim.run (.rdW n) w).2) := by
  simp only [Prim.run, takeN]; split <;> rfl

theorem prim_trunc {α} (p : Prim α) (w : Strm) (k : Nat) : PTruncSpec (p.run w) w k (p.run (w.trunc k)) := by
  have hrd : ∀ n, PTruncSpec (Prim.run (.rd n) w) w k (Prim.run (.rd n) (w.trunc k)) := fun n =>
    takeN_ptrunc n .ueof shortE_ueof w w k (w.trunc k) rfl (by intro h; cases h) rfl (fun _ => rfl)
  have hrdW : ∀ n, PTruncSpec (Prim.run (.rdW n) w) w k (Prim.run (.rdW n) (w.trunc k)) := fun n =>
    takeN_ptrunc n .werr shortE_werr w { w with nWrap := w.nWrap + 1 } k _ rfl (by intro _; simp) rfl (fun _ => rfl)
  cases p with
  | rd n => exact hrd n
  | rdW n => exact hrdW n
  | rdOpt n =>
    exact takeN_ptrunc (n % 65536) .ueof shortE_ueof w { w with ev := w.ev ++ [.opt (n % 65536)] } k _ rfl (by intro h; cases h) rfl (fun _ => rfl)
  | rdData n snap =>
    refine takeN_ptrunc n .ueof shortE_ueof w { w with ev := w.ev ++ [.data n (w.inp.take n) snap] } k
      { w.trunc k with ev := (w.trunc k).ev ++ [.data n ((w.trunc k).inp.take n) snap] } rfl (by intro h; cases h) rfl ?_
    intro hk
    rw [takeN_len] at hk
    simp only [Strm.trunc, Strm.mk.injEq, true_and, and_true]
    rw [take_take_of_need hk]
  | rdDsb n =>
    refine takeN_ptrunc n .werr shortE_werr w { w with ev := w.ev ++ [.dsb n (w.inp.take n)], nWrap := w.nWrap + 1 } k
      { w.trunc k with ev := (w.trunc k).ev ++ [.dsb n ((w.trunc k).inp.take n)], nWrap := (w.trunc k).nWrap + 1 } rfl (by intro _; simp) rfl ?_
    intro hk
    rw [takeN_len] at hk
    simp only [Strm.trunc, Strm.mk.injEq, true_and, and_true]
    rw [take_take_of_need hk]
  | skip n =>
    rw [skip_eq, skip_eq]
    exact ptrunc_map _ (hrd n)
  | skipW n =>
    rw [skipW_eq, skipW_eq]
    exact ptrunc_map _ (hrdW n)
  | rd0 n =>
    by_cases he : w.inp = []
    · have ht : w.trunc k = w := trunc_nil_inp w k he
      rw [ht]
      constructor
      · intro _
        have h2 : (Prim.run (.rd0 n) w).2.inp = [] := by
          simp only [Prim.run, he]; split <;> simp [he]
        rw [trunc_nil_inp _ _ h2]
      · intro hk; simp [he] at hk
    · have h0 : Prim.run (.rd0 n) w = Prim.run (.rd n) w := by
        simp only [Prim.run, takeN]
        split
        · rfl
        · have : w.inp.isEmpty = false := by simpa using he
          simp [this]
      rw [h0]
      have h := hrd n
      constructor
      · intro hk
        have hk' := hk
        simp only [Prim.run] at hk'
        rw [takeN_len] at hk'
        rw [← h.1 hk]
        simp only [Prim.run, takeN]
        by_cases hn : n ≤ w.inp.length
        · simp only [hn, if_true] at hk'
          have : n ≤ (w.trunc k).inp.length := by simp only [Strm.trunc, List.length_take]; omega
          simp only [this, if_true]
        · simp only [hn, if_false] at hk'
          rw [trunc_of_le w (by omega)]
          have : w.inp.isEmpty = false := by simpa using he
          simp [hn, this]
      · intro hk
        obtain ⟨e, w', h1, h2, h3, h4⟩ := h.2 hk
        have hk' := hk
        simp only [Prim.run] at hk'
        rw [takeN_len] at hk'
        have hlt : ¬ n ≤ (w.trunc k).inp.length := by
          simp only [Strm.trunc, List.length_take]
          split at hk' <;> omega
        simp only [Prim.run, hlt, if_false]
        split
        · rename_i hem
          exact ⟨.eof, _, rfl, by simpa using hem, shortE_eof, by intro h; cases h⟩
        · exact ⟨.ueof, _, rfl, rfl, shortE_ueof, by intro h; cases h⟩
  | line0 =>
    simp only [Prim.run]
    cases hz : findZero w.inp with
    | some p =>
      have hp := findZero_lt hz
      constructor
      · intro hk
        simp only [List.length_drop] at hk
        have hz' : findZero (w.trunc k).inp = some p := findZero_take_some hz (by omega)
        rw [hz']
        simp only [Strm.trunc, List.length_drop]
        refine Prod.ext ?_ ?_
        · simp [List.take_take, Nat.min_eq_left (show p + 1 ≤ k by omega)]
        · simp only [Strm.mk.injEq, and_true, true_and]
          rw [List.drop_take]; congr 1; omega
      · intro hk
        simp only [List.length_drop] at hk
        have hz' : findZero (w.trunc k).inp = none := by
          apply findZero_take_none
          intro q hq; rw [hz] at hq; cases hq; omega
        rw [hz']
        exact ⟨.werr, _, rfl, rfl, shortE_werr, by intro _; simp⟩
    | none =>
      constructor
      · intro hk
        simp only [List.length_nil] at hk
        rw [trunc_of_le w (by omega), hz]
        simp [Strm.trunc]
      · intro hk
        have hz' : findZero (w.trunc k).inp = none := by
          apply findZero_take_none
          intro q hq; rw [hz] at hq; cases hq
        rw [hz']
        exact ⟨.werr, _, rfl, rfl, shortE_werr, by intro _; simp⟩

/-! ### all programs -/

theorem mapW_w {α} (g : Strm → Strm) (o : Out α) : (o.mapW g).w = g o.w := by cases o <;> rfl

theorem truncSpec_bind {α β} {f : Nat} {m : Prog α} {g : α → Prog β}
    (ihm : ∀ s w k, TruncSpec (run f m s w) w k (run f m s (w.trunc k)))
    (ihg : ∀ a s w k, TruncSpec (run f (g a) s w) w k (run f (g a) s (w.trunc k)))
    (s : S) (w : Strm) (k : Nat) :
    TruncSpec (run f (m.bind g) s w) w k (run f (m.bind g) s (w.trunc k)) := by
  have hm := ihm s w k
  have hr1 := run_reach f m s w
  simp only [run]
  cases h1 : run f m s w with
  | fail e s' w' =>
    rw [h1] at hm hr1
    simp only [TruncSpec, Out.w] at hm hr1 ⊢
    constructor
    · intro hk
      rw [hm.1 hk]; rfl
    · intro hk
      obtain ⟨e', s'', w'', h2, h3, h4, h5⟩ := hm.2 hk
      rw [h2]; exact ⟨e', s'', w'', rfl, h3, h4, h5⟩
  | ok a s' w' =>
    rw [h1] at hm hr1
    simp only [TruncSpec, Out.w] at hm hr1
    have hl1 := hr1.len_le
    have hg := ihg a s' w' (k - (w.inp.length - w'.inp.length))
    have hr2 := run_reach f (g a) s' w'
    have hl2 := hr2.len_le
    have hw1 := hr1.wrap
    have hw2 := hr2.wrap
    simp only [TruncSpec] at hg ⊢
    by_cases hc1 : w.inp.length - w'.inp.length ≤ k
    · have e1 := hm.1 hc1
      rw [e1]
      simp only [Out.mapW]
      constructor
      · intro hk
        have : w'.inp.length - (run f (g a) s' w').w.inp.length ≤ k - (w.inp.length - w'.inp.length) := by omega
        rw [hg.1 this]
        congr 2; omega
      · intro hk
        have : k - (w.inp.length - w'.inp.length) < w'.inp.length - (run f (g a) s' w').w.inp.length := by omega
        obtain ⟨e', s'', w'', h2, h3, h4, h5⟩ := hg.2 this
        refine ⟨e', s'', w'', h2, h3, h4, ?_⟩
        intro he; have := h5 he; omega
    · have hc1' : k < w.inp.length - w'.inp.length := by omega
      obtain ⟨e', s'', w'', h2, h3, h4, h5⟩ := hm.2 hc1'
      rw [h2]
      constructor
      · intro hk; omega
      · intro _
        refine ⟨e', s'', w'', rfl, h3, h4, ?_⟩
        intro he; have := h5 he; omega

theorem truncSpec_iter {α} (rb : S → Strm → Out (Step α))
    (hreach : ∀ s w, Reach w (rb s w).w)
    (ih : ∀ s w k, TruncSpec (rb s w) w k (rb s (w.trunc k))) :
    ∀ n s w k, TruncSpec (runIter rb n s w) w k (runIter rb n s (w.trunc k)) := by
  intro n
  induction n with
  | zero =>
    intro s w k
    simp only [runIter, TruncSpec, Out.w, Out.mapW]
    constructor
    · intro _; simp [Strm.trunc]
    · intro hk; omega
  | succ n ihn =>
    intro s w k
    have hb := ih s w k
    have hr1 := hreach s w
    simp only [runIter]
    cases h1 : rb s w with
    | fail e s' w' =>
      rw [h1] at hb hr1
      simp only [TruncSpec, Out.w] at hb hr1 ⊢
      constructor
      · intro hk; rw [hb.1 hk]; rfl
      · intro hk
        obtain ⟨e', s'', w'', h2, h3, h4, h5⟩ := hb.2 hk
        rw [h2]; exact ⟨e', s'', w'', rfl, h3, h4, h5⟩
    | ok st s' w' =>
      rw [h1] at hb hr1
      simp only [TruncSpec, Out.w] at hb hr1
      have hl1 := hr1.len_le
      cases st with
      | done a =>
        simp only [TruncSpec, Out.w]
        constructor
        · intro hk; rw [hb.1 hk]; rfl
        · intro hk
          obtain ⟨e', s'', w'', h2, h3, h4, h5⟩ := hb.2 hk
          rw [h2]; exact ⟨e', s'', w'', rfl, h3, h4, h5⟩
      | again =>
        have hg := ihn s' w' (k - (w.inp.length - w'.inp.length))
        have hr2 := runIter_reach rb hreach n s' w'
        have hl2 := hr2.len_le
        have hw1 := hr1.wrap
        have hw2 := hr2.wrap
        simp only [TruncSpec] at hg ⊢
        by_cases hc1 : w.inp.length - w'.inp.length ≤ k
        · have e1 := hb.1 hc1
          rw [e1]
          simp only [Out.mapW]
          constructor
          · intro hk
            have : w'.inp.length - (runIter rb n s' w').w.inp.length ≤ k - (w.inp.length - w'.inp.length) := by omega
            rw [hg.1 this]
            congr 2; omega
          · intro hk
            have : k - (w.inp.length - w'.inp.length) < w'.inp.length - (runIter rb n s' w').w.inp.length := by omega
            obtain ⟨e', s'', w'', h2, h3, h4, h5⟩ := hg.2 this
            refine ⟨e', s'', w'', h2, h3, h4, ?_⟩
            intro he; have := h5 he; omega
        · have hc1' : k < w.inp.length - w'.inp.length := by omega
          obtain ⟨e', s'', w'', h2, h3, h4, h5⟩ := hb.2 hc1'
          rw [h2]
          constructor
          · intro hk; omega
          · intro _
            refine ⟨e', s'', w'', rfl, h3, h4, ?_⟩
            intro he; have := h5 he; omega

/-- every reader program is prefix-consistent -/
theorem run_trunc {α} (f : Nat) (p : Prog α) : ∀ s w k, TruncSpec (run f p s w) w k (run f p s (w.trunc k)) := by
  induction p with
  | pure a =>
    intro s w k
    simp only [run, TruncSpec, Out.w, Out.mapW]
    exact ⟨fun _ => by simp [Strm.trunc], fun hk => by omega⟩
  | bind m g ihm ihg => exact truncSpec_bind ihm ihg
  | act g =>
    intro s w k
    simp only [run]
    cases g s with
    | mk r s' =>
      cases r <;> simp only [TruncSpec, Out.w, Out.mapW] <;>
        exact ⟨fun _ => by simp [Strm.trunc], fun hk => by omega⟩
  | io p =>
    intro s w k
    have h := prim_trunc p w k
    simp only [run]
    cases hp : p.run w with
    | mk r w' =>
      rw [hp] at h
      cases hpt : p.run (w.trunc k) with
      | mk rt wt =>
        rw [hpt] at h
        cases r with
        | ok a =>
          simp only [TruncSpec, Out.w, Out.mapW]
          constructor
          · intro hk
            have := h.1 hk
            simp only [Prod.mk.injEq] at this
            rw [this.1, this.2]
          · intro hk
            obtain ⟨e, w'', h1, h2, h3, h4⟩ := h.2 hk
            simp only [Prod.mk.injEq] at h1
            rw [h1.1, h1.2]
            exact ⟨e, s, w'', rfl, h2, h3, h4⟩
        | error e0 =>
          simp only [TruncSpec, Out.w, Out.mapW]
          constructor
          · intro hk
            have := h.1 hk
            simp only [Prod.mk.injEq] at this
            rw [this.1, this.2]
          · intro hk
            obtain ⟨e, w'', h1, h2, h3, h4⟩ := h.2 hk
            simp only [Prod.mk.injEq] at h1
            rw [h1.1, h1.2]
            exact ⟨e, s, w'', rfl, h2, h3, h4⟩
  | iter body ih =>
    intro s w k
    simp only [run]
    exact truncSpec_iter _ (run_reach f body) ih f s w k

end Gp.PcapNg
