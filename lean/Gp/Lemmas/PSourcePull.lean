import Gp.Lemmas.PSource
/-
  Helper lemmas for C16: the pull interface (NextPacket) and ConcatFinitePacketDataSources.
-/
namespace Gp.PSource

/-- `h'` extends `h`: every buffer other than the source's own keeps its contents. -/
def HeapExt (h h' : Heap) : Prop := ∀ r x, r ≠ Ref.src → h.read r = some x → h'.read r = some x

theorem HeapExt.refl (h : Heap) : HeapExt h h := fun _ _ _ hx => hx
theorem HeapExt.trans {a b c : Heap} (h1 : HeapExt a b) (h2 : HeapExt b c) : HeapExt a c :=
  fun r x hr hx => h2 r x hr (h1 r x hr hx)

theorem nextPacket_heapExt {cfg : Cfg} {s s' : Src} {r : NP} (h : nextPacket cfg s = some (r, s')) :
    HeapExt s.heap s'.heap := by
  unfold nextPacket at h
  split at h
  · cases h
  · cases h; exact HeapExt.refl _
  · rename_i d ci hh _
    simp only [Option.some.injEq, Prod.mk.injEq] at h
    rcases h with ⟨_, rfl⟩
    intro r x hr hx
    exact decode_heap_mono cfg s.heap d ci r x hr hx

theorem pullN_heapExt (cfg : Cfg) (n : Nat) (s : Src) : HeapExt s.heap (pullN cfg n s).2.heap := by
  induction n generalizing s with
  | zero => exact HeapExt.refl _
  | succ n ih =>
    simp only [pullN]
    split
    · exact HeapExt.refl _
    · rename_i r s1 hnp
      exact (nextPacket_heapExt hnp).trans (ih s1)

theorem pullN_spec (cfg : Cfg) (n : Nat) (s : Src) :
    (pullN cfg n s).1.map NP.spec = (s.hist.take n).map (specOfEv cfg.decTrunc)
    ∧ (pullN cfg n s).2.hist = s.hist.drop n := by
  induction n generalizing s with
  | zero => simp [pullN]
  | succ n ih =>
    simp only [pullN, nextPacket]
    cases hh : s.hist with
    | nil => simp [hh]
    | cons ev h =>
      cases ev with
      | err e =>
        have := ih { s with hist := h }
        simp only [List.take_succ_cons, List.map_cons, List.drop_succ_cons]
        exact ⟨by simp [this.1, NP.spec, specOfEv], this.2⟩
      | pkt d ci =>
        have := ih { hist := h, heap := (decode cfg s.heap d ci).1 }
        simp only [List.take_succ_cons, List.map_cons, List.drop_succ_cons]
        exact ⟨by simp [this.1, NP.spec, specOfEv, decode_spec], this.2⟩

/-- Stable configurations: every packet a pull returned is still intact after all `n` pulls. -/
theorem pullN_intact (cfg : Cfg) (hst : Stable cfg) (n : Nat) (s : Src) :
    ∀ p, NP.pkt p ∈ (pullN cfg n s).1 → view (pullN cfg n s).2.heap p = some p.orig := by
  induction n generalizing s with
  | zero => intro p hp; simp [pullN] at hp
  | succ n ih =>
    intro p hp
    simp only [pullN, nextPacket] at hp ⊢
    cases hh : s.hist with
    | nil => simp [hh] at hp
    | cons ev h =>
      cases ev with
      | err e =>
        simp only [hh] at hp ⊢
        simp only [List.mem_cons, reduceCtorEq, false_or] at hp
        exact ih { s with hist := h } p hp
      | pkt d ci =>
        simp only [hh] at hp ⊢
        simp only [List.mem_cons, NP.pkt.injEq] at hp
        rcases hp with hp | hp
        · subst hp
          have hf := decode_fresh cfg s.heap d ci hst
          have hl := decode_len cfg s.heap d ci
          have hext := pullN_heapExt cfg n { hist := h, heap := (decode cfg s.heap d ci).1 }
          have := hext _ _ hf.1 hf.2
          simp only [view, this, hl.1, hl.2.1, Option.map_some, List.take_length]
        · exact ih { hist := h, heap := (decode cfg s.heap d ci).1 } p hp

/-! ### ConcatFinitePacketDataSources -/

theorem concatRead_spec (c : List (List Ev)) :
    (concatHist c = [] → (concatRead c).1 = eofEv ∧ concatHist (concatRead c).2 = [])
    ∧ (∀ ev rest, concatHist c = ev :: rest → (concatRead c).1 = ev ∧ concatHist (concatRead c).2 = rest) := by
  induction c with
  | nil => simp [concatHist, concatRead]
  | cons s c ih =>
    cases s with
    | nil => simpa [concatHist, concatRead, cutAtEOF] using ih
    | cons ev s =>
      cases he : ev.isEOF with
      | true => simpa [concatHist, concatRead, cutAtEOF, he] using ih
      | false => simp [concatHist, concatRead, cutAtEOF, he]

theorem concatReadN_spec (n : Nat) (c : List (List Ev)) :
    (concatReadN n c).1 = (concatHist c).take n ++ List.replicate (n - (concatHist c).length) eofEv := by
  induction n generalizing c with
  | zero => simp [concatReadN]
  | succ n ih =>
    simp only [concatReadN]
    have hs := concatRead_spec c
    cases hc : concatHist c with
    | nil =>
      have := hs.1 hc
      rw [ih, this.1, this.2]
      simp [List.replicate_succ]
    | cons ev rest =>
      have := hs.2 ev rest hc
      rw [ih, this.1, this.2]
      simp

theorem cutAtEOF_id (s : List Ev) (h : ∀ ev ∈ s, ev.isEOF = false) : cutAtEOF s = s := by
  induction s with
  | nil => rfl
  | cons a s ih =>
    have ha : a.isEOF = false := h a (by simp)
    simp [cutAtEOF, ha, ih (fun e he => h e (by simp [he]))]

theorem concatHist_flatten (c : List (List Ev)) (h : ∀ s ∈ c, ∀ ev ∈ s, ev.isEOF = false) :
    concatHist c = c.flatten := by
  induction c with
  | nil => rfl
  | cons s c ih =>
    simp [concatHist, cutAtEOF_id s (h s (by simp)), ih (fun t ht => h t (by simp [ht]))]

end Gp.PSource
