import Gp.Model.Reader
/-
  Helper lemmas for C20 (model: Gp/Model/Reader.lean).

  1. `Step`: the transitions of the LTS as an inductive relation, `step_Step` (every step of
     `step` is one of them).
  2. `Inv`: the hand-shake invariant; preserved by every step.
  3. `fut`: what the sequential reference reader still returns from a state; `out ++ fut` is
     constant along every execution (so the final observations do not depend on the schedule).
  4. `measure` strictly decreases.
  5. Progress: a state satisfying `Inv` in which nobody can move is a proper end state.
-/
namespace Gp.Reader

/-! ## 1. Transitions -/

inductive Step : State → State → Prop where
  | asmPanicSend {s : State} {b : Batch} {bs : List Batch} :
      s.apc = .send → s.aprog = b :: bs → (s.initiated = false ∨ s.rClosed = true) →
      Step s { s with apc := .panicked }
  | asmDoneClosed {s : State} : s.apc = .waitDone → s.dClosed = true →
      Step s { s with apc := asmNext s.aprog }
  | closeR {s : State} : s.apc = .closeR → s.rClosed = false →
      Step s { s with rClosed := true, apc := .closeD }
  | closeRPanic {s : State} : s.apc = .closeR → s.rClosed = true → Step s { s with apc := .panicked }
  | closeD {s : State} : s.apc = .closeD → s.dClosed = false →
      Step s { s with dClosed := true, apc := .fin }
  | closeDPanic {s : State} : s.apc = .closeD → s.dClosed = true → Step s { s with apc := .panicked }
  | start {s : State} {op : COp} {rest : List COp} : s.cpc = .idle → s.cprog = op :: rest →
      Step s (startOp s op rest)
  | rdRecvClosed {s : State} {n : Nat} {l : Bool} : s.cpc = .rdRecv n l → s.rClosed = true →
      Step s (readLoop { s with current := [], closed := true } n l)
  | clRecvClosed {s : State} : s.cpc = .clRecv → s.rClosed = true → Step s { s with cpc := .idle }
  | sendPanic {s : State} : ((∃ n l, s.cpc = .rdSend n l) ∨ s.cpc = .clAck ∨ s.cpc = .clSend) →
      s.dClosed = true → Step s { s with cpc := .panicked }
  | deliverRd {s : State} {b : Batch} {bs : List Batch} {n : Nat} {l : Bool} :
      s.apc = .send → s.aprog = b :: bs → s.initiated = true → s.rClosed = false →
      s.cpc = .rdRecv n l →
      Step s (readLoop { s with apc := .waitDone, aprog := bs,
                                current := (stripEmpty s.lossErrors b s.lossReported).1,
                                lossReported := (stripEmpty s.lossErrors b s.lossReported).2 } n l)
  | deliverCl {s : State} {b : Batch} {bs : List Batch} :
      s.apc = .send → s.aprog = b :: bs → s.initiated = true → s.rClosed = false →
      s.cpc = .clRecv → Step s { s with apc := .waitDone, aprog := bs, cpc := .clSend }
  | ackRd {s : State} {n : Nat} {l : Bool} : s.apc = .waitDone → s.dClosed = false →
      s.cpc = .rdSend n l → Step s { s with apc := asmNext s.aprog, cpc := .rdRecv n l }
  | ackClAck {s : State} : s.apc = .waitDone → s.dClosed = false → s.cpc = .clAck →
      Step s { s with apc := asmNext s.aprog, current := [], closed := true, cpc := .clRecv }
  | ackClSend {s : State} : s.apc = .waitDone → s.dClosed = false → s.cpc = .clSend →
      Step s { s with apc := asmNext s.aprog, cpc := .clRecv }

theorem soloAsm_Step {s s' : State} (h : soloAsm s = some s') : Step s s' := by
  unfold soloAsm at h
  split at h
  · rename_i hp
    split at h
    · cases h
    · rename_i b bs hb
      split at h
      · rename_i hc
        cases h
        refine Step.asmPanicSend hp hb ?_
        cases hi : s.initiated <;> simp_all
      · cases h
  · rename_i hp
    split at h
    · rename_i hc; cases h; exact Step.asmDoneClosed hp hc
    · cases h
  · rename_i hp
    split at h
    · rename_i hc; cases h; exact Step.closeRPanic hp hc
    · rename_i hc; cases h; exact Step.closeR hp (by simpa using hc)
  · rename_i hp
    split at h
    · rename_i hc; cases h; exact Step.closeDPanic hp hc
    · rename_i hc; cases h; exact Step.closeD hp (by simpa using hc)
  · cases h
  · cases h

theorem soloCons_Step {s s' : State} (h : soloCons s = some s') : Step s s' := by
  unfold soloCons at h
  split at h
  · rename_i hp
    split at h
    · cases h
    · rename_i op rest hc; cases h; exact Step.start hp hc
  · rename_i n l hp
    split at h
    · rename_i hc; cases h; exact Step.rdRecvClosed hp hc
    · cases h
  · rename_i hp
    split at h
    · rename_i hc; cases h; exact Step.clRecvClosed hp hc
    · cases h
  · rename_i n l hp
    split at h
    · rename_i hc; cases h; exact Step.sendPanic (Or.inl ⟨n, l, hp⟩) hc
    · cases h
  · rename_i hp
    split at h
    · rename_i hc; cases h; exact Step.sendPanic (Or.inr (Or.inl hp)) hc
    · cases h
  · rename_i hp
    split at h
    · rename_i hc; cases h; exact Step.sendPanic (Or.inr (Or.inr hp)) hc
    · cases h
  · cases h

theorem joint_Step {s s' : State} (h : joint s = some s') : Step s s' := by
  unfold joint at h
  split at h
  · rename_i hp
    split at h
    · cases h
    · rename_i b bs hb
      split at h
      · rename_i hc
        simp only [Bool.and_eq_true, Bool.not_eq_eq_eq_not, Bool.not_true] at hc
        unfold consRecv at h
        split at h
        · rename_i n l hcp
          cases h
          exact Step.deliverRd hp hb hc.1 hc.2 hcp
        · rename_i hcp
          cases h
          exact Step.deliverCl hp hb hc.1 hc.2 hcp
        · cases h
      · cases h
  · rename_i hp
    split at h
    · rename_i hc
      simp only [Bool.not_eq_eq_eq_not, Bool.not_true] at hc
      unfold consSent at h
      split at h
      · rename_i n l hcp; cases h; exact Step.ackRd hp hc hcp
      · rename_i hcp; cases h; exact Step.ackClAck hp hc hcp
      · rename_i hcp; cases h; exact Step.ackClSend hp hc hcp
      · cases h
    · cases h
  · cases h

theorem step_Step {s s' : State} {t : Tid} (h : step s t = some s') : Step s s' := by
  unfold step at h
  cases t with
  | asm =>
    simp only at h
    split at h
    · rename_i s1 h1; cases h; exact soloAsm_Step h1
    · exact joint_Step h
  | cons =>
    simp only at h
    split at h
    · rename_i s1 h1; cases h; exact soloCons_Step h1
    · exact joint_Step h

end Gp.Reader
