/-
  Helper lemmas for C13 (engine frag4), part 5: lifting the per-list invariant to whole
  histories of the defragmenter (other keys interleaved, harmless discards), and the
  completing step.
-/
import Gp.Lemmas.Frag4Honest

namespace Gp.Frag4
open Gp.Gen.Frag

theorem defrag_state_cases (st : State) (f : Frag) (t : Int) :
    (defrag st f t).1 = st ∨ (defrag st f t).1 = st.erase f.key ∨ ∃ fl, (defrag st f t).1 = st.set f.key fl := by
  by_cases h1 : dontDefrag f = true
  · left; unfold defrag; simp only [h1, if_true]
  · have h1' : dontDefrag f = false := by simpa using h1
    by_cases h2 : securityChecks f = true
    · rw [defrag_eq st f t h1' h2]
      split
      · exact Or.inr (Or.inl rfl)
      · exact Or.inr (Or.inr ⟨_, rfl⟩)
      · split
        · exact Or.inr (Or.inl rfl)
        · exact Or.inr (Or.inr ⟨_, rfl⟩)
    · left
      have h2' : securityChecks f = false := by simpa using h2
      unfold defrag
      simp only [h1', h2', Bool.false_eq_true, if_false, Bool.not_false, if_true]

/-- A fragment of another key leaves the entry of `K` alone. -/
theorem defrag_lookup_other (st : State) (f : Frag) (t : Int) (K : Key) (h : K ≠ f.key) :
    (defrag st f t).1.lookup K = st.lookup K := by
  rcases defrag_state_cases st f t with e | e | ⟨fl, e⟩ <;> rw [e]
  · exact lookup_erase_ne st f.key K h
  · exact lookup_set_ne st f.key K fl h

theorem find_filter_keep (l : List (Key × FL)) (q : Key × FL → Bool) (K : Key) :
    (∀ x, l.find? (fun p => decide (p.1 = K)) = some x → q x = true) →
    (l.filter q).find? (fun p => decide (p.1 = K)) = l.find? (fun p => decide (p.1 = K)) := by
  induction l with
  | nil => intro _; rfl
  | cons a l ih =>
    intro h
    rw [List.filter_cons]
    by_cases hk : a.1 = K
    · have hfind : (a :: l).find? (fun p => decide (p.1 = K)) = some a := by simp [List.find?_cons, hk]
      have hq := h a hfind
      rw [hq, if_pos rfl, hfind]
      simp [List.find?_cons, hk]
    · have hne : (a :: l).find? (fun p => decide (p.1 = K)) = l.find? (fun p => decide (p.1 = K)) := by
        simp [List.find?_cons, hk]
      rw [hne] at h ⊢
      by_cases hq : q a = true
      · rw [if_pos hq, List.find?_cons]
        simp only [hk, decide_false]
        exact ih h
      · rw [if_neg hq]; exact ih h

/-- DiscardOlderThan keeps an entry that is not older than the cut-off (and creates none). -/
theorem discard_lookup_keep (st : State) (t : Int) (K : Key)
    (h : ∀ fl, st.lookup K = some fl → ¬ fl.lastSeen < t) : (discard st t).1.lookup K = st.lookup K := by
  unfold discard State.lookup
  dsimp only
  rw [find_filter_keep]
  intro x hx
  have := h x.2 (by unfold State.lookup; rw [hx])
  simpa using this

theorem flOr_of_lookup_eq (st st' : State) (K : Key) (h : st'.lookup K = st.lookup K) : st'.flOr K = st.flOr K := by
  unfold State.flOr; rw [h]

theorem flOr_set_self (st : State) (K : Key) (fl : FL) : (st.set K fl).flOr K = fl := by
  unfold State.flOr; rw [lookup_set_self]

/-- History invariant for the key under reassembly. -/
def GInv (F : List Frag) (K : Key) (tmin : Int) (H : List Op) (st : State) : Prop :=
  (∃ p : Frag → Bool, (∀ g, p g = true ↔ g ∈ offered K H) ∧ FLInv F p (st.flOr K)) ∧
  (∀ fl, st.lookup K = some fl → tmin ≤ fl.lastSeen)

/-- Admissible operations while `j` is still missing: fragments of `K` are members of the family
    other than `j`; cut-offs of discards are not later than the time stamps of `K`'s fragments. -/
def Adm (F : List Frag) (K : Key) (j : Frag) (tmin : Int) : Op → Prop
  | .inp f t => f.key = K → (f ∈ F ∧ f ≠ j ∧ tmin ≤ t)
  | .discard t => t ≤ tmin

theorem ginv_init (F : List Frag) (K : Key) (tmin : Int) (st : State) (h : st.lookup K = none) :
    GInv F K tmin [] st := by
  refine ⟨⟨fun _ => false, fun g => by simp [offered], ?_⟩, fun fl hfl => by rw [h] at hfl; cases hfl⟩
  have : st.flOr K = {} := by unfold State.flOr; rw [h]
  rw [this]; exact flinv_empty F _ (fun _ _ => rfl)

section
variable {F : List Frag} {T : Nat} (fam : Family F T) {K : Key} (hkey : ∀ g ∈ F, g.key = K)
include fam hkey

theorem cap_ok (p : Frag → Bool) : ¬ ((F.filter p).length + 1 > ip4MaximumFragmentListLen) := by
  have := List.length_filter_le p F
  have := fam.short
  unfold ip4MaximumFragmentListLen; omega

theorem ginv_step (j : Frag) (hj : j ∈ F) (tmin : Int) (H : List Op) (st : State) (op : Op)
    (hnj : j ∉ offered K H) (hadm : Adm F K j tmin op) (inv : GInv F K tmin H st) :
    GInv F K tmin (H ++ [op]) (step st op).1 ∧ j ∉ offered K (H ++ [op]) ∧
    (∀ f t, op = .inp f t → f.key = K → (step st op).2 = .reply .none) := by
  obtain ⟨⟨p, hp, hfl⟩, hts⟩ := inv
  cases op with
  | discard t =>
    have hkeep := discard_lookup_keep st t K (fun fl h => by have := hts fl h; simp only [Adm] at hadm; omega)
    have hoff : offered K (H ++ [Op.discard t]) = offered K H := by simp [offered_append, offered]
    refine ⟨⟨⟨p, ?_, ?_⟩, ?_⟩, by rw [hoff]; exact hnj, fun f t' h => by cases h⟩
    · intro g; rw [hoff]; exact hp g
    · show FLInv F p ((discard st t).1.flOr K)
      rw [flOr_of_lookup_eq st _ K hkeep]; exact hfl
    · intro fl h
      have : (discard st t).1.lookup K = some fl := h
      rw [hkeep] at this; exact hts fl this
  | inp f t =>
    by_cases hk : f.key = K
    · obtain ⟨hfF, hfj, htm⟩ := hadm hk
      obtain ⟨_, _, _, _, hsec, hdd, _⟩ := fam.good f hfF
      have hoff : offered K (H ++ [Op.inp f t]) = offered K H ++ [f] := by simp [offered_append, offered, hk]
      have hnj' : j ∉ offered K (H ++ [Op.inp f t]) := by
        rw [hoff, List.mem_append, List.mem_singleton]
        rintro (h | h)
        · exact hnj h
        · exact hfj h.symm
      show GInv F K tmin (H ++ [Op.inp f t]) (defrag st f t).1 ∧ _ ∧
        ∀ f' t', Op.inp f t = Op.inp f' t' → f'.key = K → Out.reply (defrag st f t).2 = Out.reply Reply.none
      rw [defrag_eq st f t hdd hsec, hk]
      cases hpf : p f with
      | true =>
        -- duplicate
        have hins := insert_none _ f t (place_dup fam p _ hfl f hfF hpf)
        rw [hins]
        dsimp only
        have hlist : (st.flOr K).list = F.filter p := hfl.1
        rw [hlist, if_neg (cap_ok fam hkey p)]
        refine ⟨⟨⟨p, ?_, ?_⟩, ?_⟩, hnj', fun _ _ _ _ => rfl⟩
        · intro g
          rw [hoff, List.mem_append, List.mem_singleton, hp g]
          constructor
          · exact Or.inl
          · rintro (h | h)
            · exact h
            · rw [h, ← hp f]; exact hpf
        · rw [flOr_set_self]; exact hfl
        · intro fl h
          rw [lookup_set_self] at h
          cases h
          cases hlk : st.lookup K with
          | none =>
            have : st.flOr K = {} := by unfold State.flOr; rw [hlk]
            have hmem : f ∈ (st.flOr K).list := by rw [hlist]; exact List.mem_filter.2 ⟨hfF, hpf⟩
            rw [this] at hmem; cases hmem
          | some fl₀ =>
            have : st.flOr K = fl₀ := by unfold State.flOr; rw [hlk]
            rw [this]; exact hts fl₀ hlk
      | false =>
        have hins := insert_some _ f t _ (place_new fam p _ hfl f hfF hpf)
        have hinv' := upd_inv fam p _ hfl f hfF hpf t
        have hpj : (fun g => p g || decide (g = f)) j = false := by
          have : p j = false := by
            cases h : p j with
            | false => rfl
            | true => exact absurd ((hp j).1 h) hnj
          simp [this, hfj.symm]
        have hnr := not_ready fam _ _ hinv' j hj hpj
        rw [hins]
        dsimp only
        rw [hnr]
        simp only [Bool.false_eq_true, if_false]
        have hlist : ((st.flOr K).upd (F.filter (fun g => p g || decide (g = f))) f t).list =
            F.filter (fun g => p g || decide (g = f)) := rfl
        rw [hlist, if_neg (cap_ok fam hkey _)]
        refine ⟨⟨⟨(fun g => p g || decide (g = f)), ?_, ?_⟩, ?_⟩, hnj', fun _ _ _ _ => rfl⟩
        · intro g
          rw [hoff, List.mem_append, List.mem_singleton, ← hp g]
          simp
        · rw [flOr_set_self]; exact hinv'
        · intro fl h
          rw [lookup_set_self] at h
          cases h
          exact htm
    · have hne : K ≠ f.key := fun e => hk e.symm
      have hlk := defrag_lookup_other st f t K hne
      have hoff : offered K (H ++ [Op.inp f t]) = offered K H := by simp [offered_append, offered, hk]
      refine ⟨⟨⟨p, ?_, ?_⟩, ?_⟩, by rw [hoff]; exact hnj, ?_⟩
      · intro g; rw [hoff]; exact hp g
      · show FLInv F p ((defrag st f t).1.flOr K)
        rw [flOr_of_lookup_eq st _ K hlk]; exact hfl
      · intro fl h
        have : (defrag st f t).1.lookup K = some fl := h
        rw [hlk] at this; exact hts fl this
      · intro f' t' h hk'
        cases h; exact absurd hk' hk

theorem ginv_run (j : Frag) (hj : j ∈ F) (tmin : Int) : ∀ (pre : List Op) (H : List Op) (st : State),
    j ∉ offered K H → (∀ op ∈ pre, Adm F K j tmin op) → GInv F K tmin H st →
    GInv F K tmin (H ++ pre) (run st pre).1 ∧ j ∉ offered K (H ++ pre) ∧
    (∀ (i : Nat) (f : Frag) (t : Int), pre[i]? = some (Op.inp f t) → f.key = K →
      (run st pre).2[i]? = some (Out.reply Reply.none))
  | [], H, st, hnj, _, inv => by
    simp only [List.append_nil, run]
    exact ⟨inv, hnj, fun i f t h => by simp at h⟩
  | op :: pre, H, st, hnj, hadm, inv => by
    obtain ⟨inv1, hnj1, hr1⟩ := ginv_step fam hkey j hj tmin H st op hnj (hadm op (List.mem_cons_self ..)) inv
    obtain ⟨inv2, hnj2, hr2⟩ := ginv_run j hj tmin pre (H ++ [op]) (step st op).1 hnj1
      (fun o ho => hadm o (List.mem_cons_of_mem _ ho)) inv1
    have happ : H ++ [op] ++ pre = H ++ op :: pre := by simp
    rw [happ] at inv2 hnj2
    refine ⟨by simpa [run] using inv2, hnj2, ?_⟩
    intro i f t hi hk
    cases i with
    | zero =>
      simp only [List.getElem?_cons_zero, Option.some.injEq] at hi
      simp only [run, List.getElem?_cons_zero, Option.some.injEq]
      exact hr1 f t hi hk
    | succ i =>
      simp only [List.getElem?_cons_succ] at hi
      simp only [run, List.getElem?_cons_succ]
      exact hr2 i f t hi hk

/-- The last missing piece arrives: the datagram is returned and the key is forgotten. -/
theorem complete_step (j : Frag) (hj : j ∈ F) (tmin : Int) (H : List Op) (st : State) (tj : Int)
    (hnj : j ∉ offered K H) (hcov : ∀ g ∈ F, g ≠ j → g ∈ offered K H) (inv : GInv F K tmin H st) :
    defrag st j tj = (st.erase K, .out { j with length := j.ihl * 4 + T, flags := 0, off := 0,
                                                payload := F.flatMap (·.payload) }) := by
  obtain ⟨⟨p, hp, hfl⟩, _⟩ := inv
  obtain ⟨_, _, _, _, hsec, hdd, _⟩ := fam.good j hj
  have hk := hkey j hj
  have hpj : p j = false := by
    cases h : p j with
    | false => rfl
    | true => exact absurd ((hp j).1 h) hnj
  rw [defrag_eq st j tj hdd hsec, hk]
  have hins := insert_some _ j tj _ (place_new fam p _ hfl j hj hpj)
  have hinv' := upd_inv fam p _ hfl j hj hpj tj
  have hall : ∀ g ∈ F, (fun g => p g || decide (g = j)) g = true := by
    intro g hg
    by_cases e : g = j
    · simp [e]
    · simp [(hp g).2 (hcov g hg e)]
  obtain ⟨hr, hl, hh⟩ := ready_all fam _ _ hinv' hall
  rw [hins]
  dsimp only
  rw [hr, if_pos rfl, build_all fam _ hl hh j hj]

end

end Gp.Frag4
