import Gp.Lemmas.ReasmOv
/-
  Layer B of C09: buildSG / addPending / addContiguous / cleanSG / sendToConnection in offset space.
-/
set_option linter.unusedSimpArgs false
namespace Gp.Reasm
open Gp

/-- chunks of a ScatterGather forming a gap-free chain from `s` to `e`, each a piece of `S` -/
def ChainC (S : List UInt8) (b : Int) : Int → List Cont → Int → Prop
  | s, [], e => s = e
  | s, c :: rest, e => c.seq = s ∧ At S b c.seq c.bytes ∧ ChainC S b (c.seq + c.bytes.length) rest e

theorem ChainC.le {S b} : ∀ {cs : List Cont} {s e : Int}, ChainC S b s cs e → s ≤ e
  | [], s, e, h => by simp [ChainC] at h; omega
  | c :: rest, s, e, h => by
    obtain ⟨h1, _, h3⟩ := h
    have := ChainC.le h3
    omega

theorem ChainC.append {S b} : ∀ {ps qs : List Cont} {s m e : Int}, ChainC S b s ps m → ChainC S b m qs e →
    ChainC S b s (ps ++ qs) e
  | [], qs, s, m, e, h1, h2 => by simp [ChainC] at h1; subst h1; simpa using h2
  | p :: rest, qs, s, m, e, h1, h2 => by
    obtain ⟨a, b', c⟩ := h1
    exact ⟨a, b', ChainC.append c h2⟩

theorem ChainC.split {S b} : ∀ {ps qs : List Cont} {s e : Int}, ChainC S b s (ps ++ qs) e →
    ∃ m, ChainC S b s ps m ∧ ChainC S b m qs e
  | [], qs, s, e, h => ⟨s, rfl, by simpa using h⟩
  | p :: rest, qs, s, e, h => by
    obtain ⟨a, b', c⟩ := h
    obtain ⟨m, h1, h2⟩ := ChainC.split c
    exact ⟨m, ⟨a, b', h1⟩, h2⟩

theorem ChainC.ofPages {S b} : ∀ {ps : List Page} {s e : Int}, ChainP S b s ps e → ChainC S b s (ps.map Page.toCont) e
  | [], _, _, h => h
  | p :: rest, s, e, h => by
    obtain ⟨a, b', c⟩ := h
    exact ⟨a, b', ChainC.ofPages c⟩

theorem ChainC.flatLen {S b} : ∀ {cs : List Cont} {s e : Int}, ChainC S b s cs e → s + (flat cs).length = e
  | [], s, e, h => by simp [ChainC] at h; simp [flat, h]
  | c :: rest, s, e, h => by
    obtain ⟨a, _, c'⟩ := h
    have := ChainC.flatLen c'
    simp only [flat, List.map_cons, List.flatten_cons, List.length_append] at this ⊢
    omega

theorem ChainC.flatAt {S b} : ∀ {cs : List Cont} {s e : Int}, ChainC S b s cs e → b ≤ s → s ≤ b + S.length →
    At S b s (flat cs)
  | [], s, e, h, h1, h2 => by simpa [flat] using At.nil h1 h2
  | c :: rest, s, e, h, h1, h2 => by
    obtain ⟨a, hb, c'⟩ := h
    have hl := hb.len
    have ih := ChainC.flatAt c' (by omega) (by omega)
    simp only [flat, List.map_cons, List.flatten_cons]
    subst a
    exact At.append hb ih

theorem flat_append (a b : List Cont) : flat (a ++ b) = flat a ++ flat b := by simp [flat]

theorem flat_pages (ps : List Page) : (flat (ps.map Page.toCont)).length = bytesLen ps := by
  induction ps with
  | nil => simp [flat, bytesLen]
  | cons p rest ih =>
    simp only [flat, bytesLen, List.map_cons, List.flatten_cons, List.length_append, List.sum_cons] at ih ⊢
    simp only [Page.toCont]; omega

/-! ### addContiguous -/

theorem addContiguousAux_spec (S : List UInt8) (b : Int) :
    ∀ (q : List Page) (last : Int) (ret : List Cont), Sorted q → (∀ p ∈ q, PageOK S b p ∧ last ≤ p.seq) →
      ∃ taken q' e, addContiguousAux I q last ret = (q', e, ret ++ taken.map Page.toCont) ∧ q = taken ++ q' ∧
        ChainP S b last taken e ∧ (∀ p ∈ q', e < p.seq)
  | [], last, ret, _, _ => ⟨[], [], last, by simp [addContiguousAux], rfl, rfl, by simp⟩
  | p :: rest, last, ret, hs, hok => by
    have hsc := List.pairwise_cons.mp hs
    obtain ⟨hpok, hpl⟩ := hok p (List.mem_cons_self ..)
    have hlen : 0 < p.bytes.length := List.length_pos_iff.mpr hpok.2
    simp only [addContiguousAux]
    split
    · rename_i h0
      try simp only [I_diff] at h0
      have hps : p.seq = last := by omega
      obtain ⟨taken, q', e, h1, h2, h3, h4⟩ := addContiguousAux_spec S b rest (I.add last ↑p.bytes.length)
        (ret ++ [p.toCont]) hsc.2
        (fun r hr => ⟨(hok r (List.mem_cons_of_mem _ hr)).1, by
          have := hsc.1 r hr; simp only [pend, I_add] at this ⊢; omega⟩)
      refine ⟨p :: taken, q', e, ?_, by rw [h2]; rfl, ⟨hps, hpok.1, ?_⟩, h4⟩
      · rw [h1]; simp
      · simp only [pend, I_add] at h3 ⊢; rw [hps]; exact h3
    · rename_i h0
      try simp only [I_diff] at h0
      refine ⟨[], p :: rest, last, by simp, rfl, rfl, ?_⟩
      intro r hr
      rcases List.mem_cons.mp hr with rfl | hr
      · omega
      · have := hsc.1 r hr; simp only [pend] at this; omega

/-! ### cleanSG -/

theorem pageCount_pages (ps : List Page) : pageCount (ps.map Page.toCont) = ps.length := by
  induction ps with
  | nil => rfl
  | cons p rest ih => simp only [pageCount, List.map_cons, Page.toCont] at ih ⊢; simp [ih]

/-- the search loop: either nothing is kept (`toKeep` at or beyond the end), or the chunk list splits at the
    chunk containing offset `toKeep` -/
theorem findKeep_spec (toKeep : Int) : ∀ (all : List Cont) (cur skip : Int) (idx : Nat),
    skip = toKeep - cur → 0 ≤ skip →
    (findKeep toKeep all cur skip idx = (idx + all.length, toKeep - cur - (flat all).length) ∧
        cur + (flat all).length ≤ toKeep) ∨
    (∃ pre c post, all = pre ++ c :: post ∧
        findKeep toKeep all cur skip idx = (idx + pre.length, toKeep - cur - (flat pre).length) ∧
        0 ≤ toKeep - cur - (flat pre).length ∧ toKeep - cur - (flat pre).length < c.bytes.length)
  | [], cur, skip, idx, hs, h0 => Or.inl ⟨by simp [findKeep, flat, hs], by simp [flat]; omega⟩
  | r :: rest, cur, skip, idx, hs, h0 => by
    simp only [findKeep]
    split
    · rename_i hf
      exact Or.inr ⟨[], r, rest, rfl, by simp [flat, hs], by simp [flat]; omega, by simp [flat]; omega⟩
    · rename_i hf
      have hge : skip ≥ ↑r.bytes.length := by omega
      rw [if_pos hge]
      rcases findKeep_spec toKeep rest (cur + ↑r.bytes.length) (skip - ↑r.bytes.length) (idx + 1) (by omega) (by omega)
        with ⟨h1, h2⟩ | ⟨pre, c, post, h1, h2, h3, h4⟩
      · left
        simp only [flat, List.map_cons, List.flatten_cons, List.length_append, List.length_cons] at h1 h2 ⊢
        refine ⟨?_, by omega⟩
        rw [h1]; congr 1 <;> omega
      · right
        refine ⟨r :: pre, c, post, by rw [h1]; rfl, ?_, ?_, ?_⟩
        · rw [h2]
          simp only [flat, List.map_cons, List.flatten_cons, List.length_append, List.length_cons]
          congr 1 <;> omega
        · simp only [flat, List.map_cons, List.flatten_cons, List.length_append] at h3 ⊢; omega
        · simp only [flat, List.map_cons, List.flatten_cons, List.length_append] at h4 ⊢; omega

/-- keeping whole chunks: the pages are the chunks -/
theorem convertAll_zero (S : List UInt8) (b : Int) (ts : Int) : ∀ (cs : List Cont) (s e : Int), ChainC S b s cs e →
    Res.Ok (convertAll I ts cs 0) (fun r => ChainP S b s r.1 e ∧ bytesLen r.1 = (flat cs).length ∧
      (r.1.length : Int) = pageCount cs + r.2)
  | [], s, e, h => Res.Ok.intro ⟨h, by simp [bytesLen, flat], by simp [pageCount]⟩
  | c :: rest, s, e, h => by
    obtain ⟨h1, h2, h3⟩ := h
    obtain ⟨r, hr, hch, hbl, hcnt⟩ := convertAll_zero S b ts rest _ _ h3
    have hck : convertKept I ts c 0 = .ok (if c.live then
        (splitPages I (I.add c.seq 0) (c.bytes.drop 0) ts c.fin, (splitPages I (I.add c.seq 0) (c.bytes.drop 0) ts c.fin).length)
        else ([c.toPage], 0)) := by
      simp only [convertKept]
      rw [if_neg (by omega)]
      split <;> simp
    simp only [convertAll, hck, hr]
    refine Res.Ok.intro ?_
    split
    · rename_i hl
      have hsp := splitPages_chain S b c.seq c.bytes ts c.fin h2
      simp only [I_add, Int.add_zero, List.drop_zero]
      refine ⟨?_, ?_, ?_⟩
      · rw [← h1]; exact ChainP.append hsp hch
      · have := ChainP.bytesLen hsp
        simp only [bytesLen, List.map_append, List.sum_append, flat, List.map_cons, List.flatten_cons,
          List.length_append] at this hbl ⊢
        omega
      · simp only [List.length_append, pageCount, List.filter_cons, hl] at hcnt ⊢
        simp at hcnt ⊢; omega
    · rename_i hl
      refine ⟨⟨h1, h2, hch⟩, ?_, ?_⟩
      · simp only [bytesLen, flat, List.map_cons, List.flatten_cons, List.length_append, List.sum_cons,
          List.singleton_append, Cont.toPage] at hbl ⊢
        omega
      · simp only [pageCount, List.filter_cons, hl, List.singleton_append, List.length_cons] at hcnt ⊢
        simp at hcnt ⊢; omega

theorem pageCount_append (a b : List Cont) : pageCount (a ++ b) = pageCount a + pageCount b := by
  simp [pageCount, List.filter_append]

/-- keeping from offset `skip` inside the first chunk -/
theorem convertAll_skip (S : List UInt8) (b : Int) (ts : Int) (c : Cont) (post : List Cont) (s e skip : Int)
    (h : ChainC S b s (c :: post) e) (h0 : 0 ≤ skip) (h1 : skip < c.bytes.length) :
    Res.Ok (convertAll I ts (c :: post) skip) (fun r => ChainP S b (s + skip) r.1 e ∧
      (bytesLen r.1 : Int) = (flat (c :: post)).length - skip ∧
      (r.1.length : Int) = pageCount (c :: post) + r.2) := by
  obtain ⟨hs, hat, hrest⟩ := h
  obtain ⟨r, hr, hch, hbl, hcnt⟩ := convertAll_zero S b ts post _ _ hrest
  have hk : skip.toNat ≤ c.bytes.length := by omega
  have hat' : At S b (c.seq + skip) (c.bytes.drop skip.toNat) := by
    have := hat.drop skip.toNat hk
    have e : c.seq + ↑skip.toNat = c.seq + skip := by omega
    rw [e] at this; exact this
  have hdl : ((c.bytes.drop skip.toNat).length : Int) = c.bytes.length - skip := by
    rw [List.length_drop]; omega
  simp only [convertAll, convertKept]
  rw [if_neg (by omega)]
  by_cases hl : c.live = true
  · rw [if_pos hl]
    simp only [hr, I_add]
    refine Res.Ok.intro ?_
    have hsp := splitPages_chain S b (c.seq + skip) (c.bytes.drop skip.toNat) ts c.fin hat'
    have e2 : c.seq + skip + ↑(c.bytes.drop skip.toNat).length = c.seq + ↑c.bytes.length := by omega
    rw [e2] at hsp
    refine ⟨?_, ?_, ?_⟩
    · rw [← hs]; exact ChainP.append hsp hch
    · have := ChainP.bytesLen hsp
      simp only [bytesLen, List.map_append, List.sum_append, flat, List.map_cons, List.flatten_cons,
        List.length_append] at this hbl ⊢
      omega
    · simp only [List.length_append, pageCount, List.filter_cons, hl] at hcnt ⊢
      simp at hcnt ⊢; omega
  · rw [if_neg hl]
    by_cases hz : skip = 0
    · subst hz
      rw [if_neg (by omega)]
      simp only [hr]
      refine Res.Ok.intro ⟨?_, ?_, ?_⟩
      · simp only [Int.add_zero]; exact ⟨hs, hat, hch⟩
      · simp only [bytesLen, flat, List.map_cons, List.flatten_cons, List.length_append, List.sum_cons,
          List.singleton_append, Cont.toPage] at hbl ⊢
        omega
      · simp only [pageCount, List.filter_cons, hl, List.singleton_append, List.length_cons] at hcnt ⊢
        simp at hcnt ⊢; omega
    · rw [if_pos hz]
      simp only [hr, I_add]
      refine Res.Ok.intro ⟨?_, ?_, ?_⟩
      · refine ⟨by simp only [List.singleton_append]; omega, ?_, ?_⟩
        · simpa using hat'
        · simp only [pend]
          have e2 : c.seq + skip + ↑(c.bytes.drop skip.toNat).length = c.seq + ↑c.bytes.length := by omega
          show ChainP S b (c.seq + skip + ↑(List.drop skip.toNat c.bytes).length) r.1 e
          rw [e2]; exact hch
      · simp only [bytesLen, flat, List.map_cons, List.flatten_cons, List.length_append, List.sum_cons,
          List.singleton_append, Cont.toPage] at hbl ⊢
        omega
      · simp only [pageCount, List.filter_cons, hl, List.singleton_append, List.length_cons] at hcnt ⊢
        simp at hcnt ⊢; omega

/-- What `cleanSG` leaves behind: the kept bytes as a chain of saved pages ending where the
    ScatterGather ended. -/
structure CleanPost (S : List UInt8) (b : Int) (h : Half) (used : Int) (all : List Cont) (s e toKeep : Int)
    (res : Half × Int) : Prop where
  same : res.1 = { h with saved := res.1.saved, pages := res.1.pages }
  chain : ∃ s1, s ≤ s1 ∧ ChainP S b s1 res.1.saved e
  kept : bytesLen res.1.saved =
    (if 0 ≤ toKeep ∧ toKeep ≤ (flat all).length then (flat all).length - toKeep.toNat else 0)
  count : res.1.pages - h.pages = (res.1.saved.length : Int) - pageCount all ∧
          res.2 - used = (res.1.saved.length : Int) - pageCount all

theorem cleanSG_spec (S : List UInt8) (b : Int) (h : Half) (used : Int) (all : List Cont) (s e toKeep ts : Int)
    (hch : ChainC S b s all e) :
    Res.Ok (cleanSG I h used all toKeep ts) (CleanPost S b h used all s e toKeep) := by
  have hle := hch.le
  have hfl := hch.flatLen
  unfold cleanSG
  by_cases hneg : toKeep < 0
  · -- nothing kept
    simp only [if_pos hneg, List.drop_length, List.take_length, convertAll]
    refine Res.Ok.intro ?_
    exact { same := rfl, chain := ⟨e, hle, rfl⟩,
            kept := by simp only [bytesLen, List.map_nil, List.sum_nil]; rw [if_neg (by omega)],
            count := by simp; constructor <;> omega }
  · simp only [if_neg hneg]
    rcases findKeep_spec toKeep all 0 toKeep 0 (by omega) (by omega) with ⟨h1, h2⟩ | ⟨pre, c, post, h1, h2, h3, h4⟩
    · rw [h1]
      simp only [Nat.zero_add, List.drop_length, List.take_length, convertAll]
      refine Res.Ok.intro ?_
      exact { same := rfl, chain := ⟨e, hle, rfl⟩,
              kept := by
                simp only [bytesLen, List.map_nil, List.sum_nil]
                split
                · omega
                · rfl,
              count := by simp; constructor <;> omega }
    · rw [h2]
      simp only [Nat.zero_add]
      have htake : all.take pre.length = pre := by rw [h1]; simp
      have hdrop : all.drop pre.length = c :: post := by rw [h1]; simp
      rw [htake, hdrop]
      rw [h1] at hch
      obtain ⟨m, hc1, hc2⟩ := hch.split
      have hm := hc1.flatLen
      have hskip : toKeep - 0 - ↑(flat pre).length < ↑c.bytes.length := h4
      obtain ⟨r, hr, hrc, hrb, hrn⟩ := convertAll_skip S b ts c post m e (toKeep - 0 - ↑(flat pre).length) hc2 h3 hskip
      rw [hr]
      refine Res.Ok.intro ?_
      have hfa : (flat all).length = (flat pre).length + (flat (c :: post)).length := by
        rw [h1, flat_append, List.length_append]
      have hc2l := hc2.flatLen
      exact {
        same := rfl
        chain := ⟨m + (toKeep - 0 - ↑(flat pre).length), by omega, hrc⟩
        kept := by
          have : (flat (c :: post)).length ≥ c.bytes.length := by
            simp only [flat, List.map_cons, List.flatten_cons, List.length_append]; omega
          rw [if_pos (by omega)]
          show bytesLen r.1 = _
          omega
        count := by
          rw [h1, pageCount_append]
          simp only [Int.natCast_add]
          constructor <;> omega }

/-! ### addPending -/

/-- the saved pages (a chain ending at nextSeq, or none) -/
def SavedOK (S : List UInt8) (b : Int) (h : Half) : Prop :=
  h.saved = [] ∨ (h.nextSeq ≠ -1 ∧ ∃ s0, b ≤ s0 ∧ ChainP S b s0 h.saved h.nextSeq)

theorem addPending_spec (S : List UInt8) (b : Int) (h : Half) (used : Int) (r0 : Cont) (hsv : SavedOK S b h)
    (hat : At S b r0.seq r0.bytes) :
    ∃ pre : List Page, ∃ h1 used1,
      addPending I h used r0.seq [r0] = (h1, used1, pre.map Page.toCont ++ [r0], bytesLen pre) ∧
      h1 = { h with saved := [], pages := h1.pages } ∧
      (∃ s0, b ≤ s0 ∧ ChainP S b s0 pre r0.seq) ∧
      ((h.nextSeq ≠ -1 ∧ r0.seq = h.nextSeq) → pre = h.saved) ∧ (r0.seq ≠ h.nextSeq → pre = []) ∧
      (h1.pages - h.pages = (pre.length : Int) - h.saved.length ∧ used1 - used = (pre.length : Int) - h.saved.length) := by
  have hl := hat.len
  unfold addPending
  rcases hsv with hnil | ⟨hns, s0, hs0, hch⟩
  · rw [hnil]
    refine ⟨[], h, used, by simp [bytesLen], by rw [← hnil], ⟨r0.seq, hl.1, rfl⟩, fun _ => rfl, fun _ => rfl, by simp⟩
  · cases hsaved : h.saved with
    | nil =>
      refine ⟨[], h, used, by simp [bytesLen], by rw [← hsaved], ⟨r0.seq, hl.1, rfl⟩, fun _ => rfl, fun _ => rfl, by simp⟩
    | cons p rest =>
      rw [hsaved] at hch
      have hbl := hch.bytesLen
      have hps : p.seq = s0 := hch.1
      simp only
      split
      · rename_i hne
        try simp only [I_add] at hne
        refine ⟨[], _, _, rfl, rfl, ⟨r0.seq, hl.1, rfl⟩, ?_, fun _ => rfl, by simp; constructor <;> omega⟩
        intro ⟨_, he⟩; exfalso; apply hne; omega
      · rename_i hne
        simp only [I_add, Decidable.not_not] at hne
        refine ⟨p :: rest, _, _, rfl, rfl, ⟨s0, hs0, ?_⟩, fun _ => rfl, ?_, by simp⟩
        · have : r0.seq = h.nextSeq := by omega
          rw [this]; exact hch
        · intro hne'; exfalso; apply hne'; omega

/-! ### sendToConnection -/

structure SendPre (S : List UInt8) (b : Int) (h : Half) (r0 : Cont) : Prop where
  hat : At S b r0.seq r0.bytes
  ns : h.nextSeq = -1 ∨ (b ≤ h.nextSeq ∧ h.nextSeq ≤ r0.seq)
  sorted : Sorted h.queue
  ok : ∀ p ∈ h.queue, PageOK S b p
  after : ∀ p ∈ h.queue, r0.seq + r0.bytes.length ≤ p.seq
  saved : SavedOK S b h

structure SendPost (S : List UInt8) (b : Int) (h : Half) (used : Int) (r0 : Cont) (s : Sent) : Prop where
  same : s.half = { h with saved := s.half.saved, queue := s.half.queue, pages := s.half.pages, closed := s.half.closed }
  closed : s.half.closed = (h.closed || s.closed)
  fin : s.closed = s.sg.fin
  nextSeq : s.nextSeq = r0.seq + s.sg.new.length
  queue : Sorted s.half.queue ∧ (∀ p ∈ s.half.queue, PageOK S b p) ∧ ∀ p ∈ s.half.queue, s.nextSeq < p.seq
  saved : ∃ s1, b ≤ s1 ∧ ChainP S b s1 s.half.saved s.nextSeq
  closedEmpty : s.closed = true → s.half.queue = [] ∧ s.half.saved = []
  skip : s.sg.skip = if h.nextSeq ≠ -1 then r0.seq - h.nextSeq else -1
  new : At S b r0.seq s.sg.new
  savedAt : At S b (r0.seq - s.sg.saved.length) s.sg.saved
  savedLen : ((h.nextSeq ≠ -1 ∧ r0.seq = h.nextSeq) → s.sg.saved.length = bytesLen h.saved) ∧
             (r0.seq ≠ h.nextSeq → s.sg.saved = [])
  kept : s.closed = false → bytesLen s.half.saved = keptCount s.sg
  finLast : h.queue = [] → s.sg.fin = r0.fin
  qlen : s.half.queue.length ≤ h.queue.length
  count : s.half.pages - h.pages = s.used - used ∧
          s.used - used = ((s.half.saved.length + s.half.queue.length : Nat) : Int) -
            ((h.saved.length + h.queue.length : Nat) : Int) - (if r0.live then 0 else 1)
  /-- nothing queued is lost: a queued page is still queued or has been handed over -/
  cover : s.closed = false → r0.seq + r0.bytes.length ≤ s.nextSeq ∧ ∀ p ∈ h.queue, p ∈ s.half.queue ∨ pend p ≤ s.nextSeq
  /-- nothing is added to the queue -/
  sub : ∀ p ∈ s.half.queue, p ∈ h.queue
  /-- the half connection is closed only behind a chunk that carries `end` -/
  finEnd : s.closed = true → (r0.fin = true ∧ s.nextSeq = r0.seq + r0.bytes.length) ∨
           (∃ p ∈ h.queue, p.fin = true ∧ pend p = s.nextSeq)

theorem ChainP.snoc_end {S b} : ∀ {ps : List Page} {p : Page} {s e : Int}, ChainP S b s (ps ++ [p]) e → pend p = e
  | [], p, s, e, h => by
    obtain ⟨_, _, h3⟩ := h
    exact h3
  | q :: rest, p, s, e, h => by
    obtain ⟨_, _, h3⟩ := h
    exact ChainP.snoc_end h3

theorem lastFin_concat (l : List Cont) (c : Cont) : lastFin (l ++ [c]) = c.fin := by
  simp [lastFin]

theorem sendToConnection_spec (S : List UInt8) (b : Int) (hb : 0 ≤ b) (h : Half) (used : Int) (r0 : Cont) (ts : Int)
    (keep : KeepRule) (pre : SendPre S b h r0) :
    Res.Ok (sendToConnection I h used [r0] ts keep) (SendPost S b h used r0) := by
  have hl := pre.hat.len
  obtain ⟨sv, h1, used1, hap, hh1, ⟨s0, hs0, hsvch⟩, hsv1, hsv2, hcnt1⟩ :=
    addPending_spec S b h used r0 pre.saved pre.hat
  unfold sendToConnection
  simp only [hap]
  have hq1 : h1.queue = h.queue := by rw [hh1]
  -- addContiguous
  have hac : ∃ taken q' e h2, addContiguous I h1 (I.add r0.seq ↑r0.bytes.length) (sv.map Page.toCont ++ [r0]) =
      (h2, e, sv.map Page.toCont ++ [r0] ++ taken.map Page.toCont) ∧ h2 = { h1 with queue := q' } ∧
      h.queue = taken ++ q' ∧ ChainP S b (r0.seq + r0.bytes.length) taken e ∧ (∀ p ∈ q', e < p.seq) := by
    unfold addContiguous
    cases hq : h1.queue with
    | nil =>
      refine ⟨[], [], _, h1, by simp, by rw [← hq], by rw [← hq1, hq]; rfl, rfl, by simp⟩
    | cons p rest =>
      simp only
      have hne : ¬ (I.add r0.seq ↑r0.bytes.length = invalidSeq) := by simp only [I_add, invalidSeq_eq]; omega
      rw [if_neg hne]
      have hsq : Sorted (p :: rest) := by rw [← hq, hq1]; exact pre.sorted
      obtain ⟨taken, q', e, ha, hb', hc, hd⟩ := addContiguousAux_spec S b (p :: rest) (I.add r0.seq ↑r0.bytes.length)
        (sv.map Page.toCont ++ [r0]) hsq
        (fun r hr => by
          have hr' : r ∈ h.queue := by rw [← hq1, hq]; exact hr
          exact ⟨pre.ok r hr', pre.after r hr'⟩)
      rw [ha]
      exact ⟨taken, q', e, _, rfl, rfl, by rw [← hq1, hq]; exact hb', hc, hd⟩
  obtain ⟨taken, q', e, h2, hac1, hh2, hqsplit, htch, hq'⟩ := hac
  simp only [hac1]
  -- the chain of all chunks
  have hchain : ChainC S b s0 (sv.map Page.toCont ++ [r0] ++ taken.map Page.toCont) e :=
    ChainC.append (ChainC.append (ChainC.ofPages hsvch) ⟨rfl, pre.hat, rfl⟩) (ChainC.ofPages htch)
  have hte := htch.le
  have hflat : flat (sv.map Page.toCont ++ [r0] ++ taken.map Page.toCont) =
      flat (sv.map Page.toCont) ++ (r0.bytes ++ flat (taken.map Page.toCont)) := by
    simp [flat]
  have hsvlen : (flat (sv.map Page.toCont)).length = bytesLen sv := flat_pages sv
  have htake : (flat (sv.map Page.toCont ++ [r0] ++ taken.map Page.toCont)).take (bytesLen sv) =
      flat (sv.map Page.toCont) := by rw [hflat, ← hsvlen]; simp
  have hdrop : (flat (sv.map Page.toCont ++ [r0] ++ taken.map Page.toCont)).drop (bytesLen sv) =
      r0.bytes ++ flat (taken.map Page.toCont) := by rw [hflat, ← hsvlen]; simp
  have htk := (ChainC.ofPages htch).flatLen
  have hsvbl := hsvch.bytesLen
  have hnewAt : At S b r0.seq (r0.bytes ++ flat (taken.map Page.toCont)) :=
    At.append pre.hat ((ChainC.ofPages htch).flatAt (by omega) (by
      have := htch.mem
      cases taken with
      | nil => simp [ChainP] at htch; omega
      | cons t ts' =>
        have hm : t ∈ h.queue := by rw [hqsplit]; simp
        have := (pre.ok t hm).1.len
        have := htch.1
        omega))
  have hsvAt : At S b s0 (flat (sv.map Page.toCont)) :=
    (ChainC.ofPages hsvch).flatAt hs0 (by omega)
  obtain ⟨⟨h3, used3⟩, hcl, hcp⟩ := cleanSG_spec S b h2 used1 _ s0 e
    (keepOffset keep (flat (sv.map Page.toCont ++ [r0] ++ taken.map Page.toCont)).length) ts hchain
  rw [hcl]
  obtain ⟨s1, hs1, hs1ch⟩ := hcp.chain
  have h3same := hcp.same
  simp only at h3same
  have hnewlen : ((r0.bytes ++ flat (taken.map Page.toCont)).length : Int) = e - r0.seq := by
    rw [List.length_append]; omega
  have hq3 : h3.queue = q' := by rw [h3same, hh2]
  have hns3 : h3.nextSeq = h.nextSeq := by rw [h3same, hh2, hh1]
  have hcl3 : h3.closed = h.closed := by rw [h3same, hh2, hh1]
  have hq'sorted : Sorted q' := by
    have := pre.sorted; rw [hqsplit] at this
    exact (List.pairwise_append.mp this).2.1
  have hq'ok : ∀ p ∈ q', PageOK S b p := fun p hp => pre.ok p (by rw [hqsplit]; exact List.mem_append_right _ hp)
  have hsgnew : ∀ g : SG, g.new = r0.bytes ++ flat (taken.map Page.toCont) → r0.seq + ↑g.new.length = e := by
    intro g hg; rw [hg]; omega
  have hpc : pageCount (sv.map Page.toCont ++ [r0] ++ taken.map Page.toCont) =
      sv.length + (if r0.live then 0 else 1) + taken.length := by
    rw [pageCount_append, pageCount_append, pageCount_pages, pageCount_pages]
    congr 1; congr 1
    simp only [pageCount, List.filter_cons, List.filter_nil]
    cases r0.live <;> simp
  have hcount3 := hcp.count
  simp only at hcount3
  have hqlen : h.queue.length = taken.length + q'.length := by rw [hqsplit, List.length_append]
  have hp2 : h2.pages = h1.pages := by rw [hh2]
  simp only
  by_cases hfin : lastFin (sv.map Page.toCont ++ [r0] ++ taken.map Page.toCont) = true
  · -- the last chunk has `end` set: close
    rw [if_pos hfin]
    refine Res.Ok.intro ?_
    exact {
      same := by simp only [closeHalf]; rw [h3same, hh2, hh1]
      closed := by simp [closeHalf]
      fin := by simp only; exact hfin.symm
      nextSeq := by simp only [htake, hdrop]; omega
      queue := by simp [closeHalf, Sorted]
      saved := ⟨e, by omega, by simp [closeHalf, ChainP]⟩
      closedEmpty := fun _ => by simp [closeHalf]
      skip := by by_cases hn : h.nextSeq = -1 <;> simp [hn]
      new := by simp only [hdrop]; exact hnewAt
      savedAt := by
        simp only [htake, hsvlen]
        have : r0.seq - ↑(bytesLen sv) = s0 := by omega
        rw [this]; exact hsvAt
      savedLen := by
        simp only [htake, hsvlen]
        refine ⟨fun hc => by rw [hsv1 hc], fun hc => by rw [hsv2 hc]; simp [flat]⟩
      kept := by intro hc; simp at hc
      finLast := by
        intro hq0
        have : taken = [] := by
          rw [hq0] at hqsplit
          exact (List.append_eq_nil_iff.mp hqsplit.symm).1
        simp only [this, List.map_nil, List.append_nil]
        exact lastFin_concat _ _
      qlen := by simp [closeHalf]
      count := by
        simp only [closeHalf, List.length_nil, Nat.add_zero, Nat.zero_add, hq3]
        rw [hpc] at hcount3
        cases hlive : r0.live <;>
          simp only [hlive, Bool.false_eq_true, if_false, if_true, ↓reduceIte] at hcount3 ⊢ <;>
          (constructor <;> omega)
      cover := fun hc => by simp at hc
      sub := fun p hp => by simp [closeHalf] at hp
      finEnd := fun _ => by
        rcases List.eq_nil_or_concat taken with ht | ⟨L, pl, ht⟩
        · left
          subst ht
          simp only [List.map_nil, List.append_nil] at hfin
          rw [lastFin_concat] at hfin
          simp only [ChainP] at htch
          exact ⟨hfin, by simp only; omega⟩
        · right
          rw [List.concat_eq_append] at ht
          subst ht
          refine ⟨pl, by rw [hqsplit]; simp, ?_, ChainP.snoc_end htch⟩
          have : sv.map Page.toCont ++ [r0] ++ (L ++ [pl]).map Page.toCont =
              (sv.map Page.toCont ++ [r0] ++ L.map Page.toCont) ++ [pl.toCont] := by simp
          rw [this, lastFin_concat] at hfin
          exact hfin }
  · rw [if_neg hfin]
    refine Res.Ok.intro ?_
    exact {
      same := by simp only; rw [h3same, hh2, hh1]
      closed := by simp only [Bool.or_false]; exact hcl3
      fin := by simp only; simpa using hfin
      nextSeq := by simp only [htake, hdrop]; omega
      queue := by simp only [hq3]; exact ⟨hq'sorted, hq'ok, hq'⟩
      saved := ⟨s1, by omega, hs1ch⟩
      closedEmpty := fun hc => by simp at hc
      skip := by by_cases hn : h.nextSeq = -1 <;> simp [hn]
      new := by simp only [hdrop]; exact hnewAt
      savedAt := by
        simp only [htake, hsvlen]
        have : r0.seq - ↑(bytesLen sv) = s0 := by omega
        rw [this]; exact hsvAt
      savedLen := by
        simp only [htake, hsvlen]
        refine ⟨fun hc => by rw [hsv1 hc], fun hc => by rw [hsv2 hc]; simp [flat]⟩
      kept := by
        intro _
        have := hcp.kept
        simp only at this
        rw [this]
        simp only [keptCount, htake, hdrop, hsvlen]
        have e1 : (flat (sv.map Page.toCont ++ [r0] ++ taken.map Page.toCont)).length =
            bytesLen sv + (r0.bytes ++ flat (taken.map Page.toCont)).length := by
          rw [hflat, List.length_append, hsvlen]
        rw [e1]
      finLast := by
        intro hq0
        have : taken = [] := by
          rw [hq0] at hqsplit
          exact (List.append_eq_nil_iff.mp hqsplit.symm).1
        simp only [this, List.map_nil, List.append_nil]
        exact lastFin_concat _ _
      qlen := by simp only [hq3, hqlen]; omega
      count := by
        simp only [hq3]
        rw [hpc] at hcount3
        cases hlive : r0.live <;>
          simp only [hlive, Bool.false_eq_true, if_false, if_true, ↓reduceIte] at hcount3 ⊢ <;>
          (constructor <;> omega)
      cover := fun _ => ⟨by simp only; omega, fun p hp => by
        rw [hqsplit] at hp
        rcases List.mem_append.mp hp with hp | hp
        · exact Or.inr (htch.mem p hp).2.1
        · exact Or.inl (by simp only [hq3]; exact hp)⟩
      sub := fun p hp => by
        simp only [hq3] at hp
        rw [hqsplit]; exact List.mem_append_right _ hp
      finEnd := fun hc => by simp at hc }

end Gp.Reasm
