/-
  Order invariant of the page queue in offset space (needed for `asm_complete` and for the precise
  meaning of a skip).  The queue is NOT sorted by sequence number in general: a multi-page packet is
  inserted as one block, so a later page of the block can sit in front of an older page with a
  smaller sequence number.  What does hold (`J n pages`, n = nextSeq): a page `q` may precede a page
  with a smaller sequence number only if `q` starts at or before the point reached by nextSeq and the
  pages in front of `q` — so such a `q` is always released together with its predecessors.
-/
import Gp.Lemmas.AsmSound

namespace Gp.Asm

def plen (pg : Page) : Int := (pg.r.bytes.length : Int)

theorem plen_nonneg (pg : Page) : 0 ≤ plen pg := by unfold plen; omega

def J : Int → List Page → Prop
  | _, [] => True
  | n, q :: ys => (∀ y ∈ ys, q.seq ≤ y.seq ∨ q.seq ≤ n) ∧ J (max n (q.seq + plen q)) ys

theorem J_mono (n n' : Int) (ps : List Page) (h : n ≤ n') (hj : J n ps) : J n' ps := by
  induction ps generalizing n n' with
  | nil => trivial
  | cons q ys ih =>
    obtain ⟨h1, h2⟩ := hj
    refine ⟨fun y hy => ?_, ih _ _ (by omega) h2⟩
    rcases h1 y hy with a | a
    · exact Or.inl a
    · exact Or.inr (by omega)

/-- consecutive pages of one packet -/
def Chain : Int → List Page → Prop
  | _, [] => True
  | s, b :: bs => b.seq = s ∧ Chain (s + plen b) bs

theorem chain_ge (s : Int) (bs : List Page) (h : Chain s bs) : ∀ y ∈ bs, s ≤ y.seq := by
  induction bs generalizing s with
  | nil => intro y hy; simp at hy
  | cons b bs ih =>
    obtain ⟨h1, h2⟩ := h
    intro y hy
    rcases List.mem_cons.1 hy with e | e
    · rw [e, h1]; exact Int.le_refl _
    · have := ih _ h2 y e
      have := plen_nonneg b
      omega

theorem J_append_chain (s n : Int) (B ps : List Page) (hc : Chain s B) (hj : J n ps)
    (h : (∀ y ∈ ps, s ≤ y.seq) ∨ s ≤ n) : J n (B ++ ps) := by
  induction B generalizing s n with
  | nil => exact hj
  | cons b bs ih =>
    obtain ⟨h1, h2⟩ := hc
    have hb := plen_nonneg b
    refine ⟨fun y hy => ?_, ?_⟩
    · rcases List.mem_append.1 hy with e | e
      · left; have := chain_ge _ _ h2 y e; omega
      · rcases h with a | a
        · left; have := a y e; omega
        · right; omega
    · apply ih (s + plen b) (max n (b.seq + plen b)) h2 (J_mono _ _ _ (by omega) hj)
      right; rw [h1]; omega

/-! ### insertion -/

theorem insertPages_cons (A : SeqArith) (s : Int) (B : List Page) (p : Page) (ps : List Page) :
    insertPages A s B (p :: ps) =
      if (insertPos A s ps).1.isEmpty && decide (A.diff p.seq s < 0) then B ++ p :: ps
      else p :: insertPages A s B ps := by
  unfold insertPages
  simp only [insertPos]
  split
  · rename_i h
    simp only [Bool.and_eq_true, List.isEmpty_iff] at h
    have := insertPos_append A s ps
    rw [h.1] at this
    simp only [List.nil_append] at this
    rw [this]
    simp
  · simp

theorem insertPos_fst_nil (s : Int) (ps : List Page) (h : (insertPos flatArith s ps).1 = []) :
    ∀ y ∈ ps, s < y.seq := by
  induction ps with
  | nil => intro y hy; simp at hy
  | cons p ps ih =>
    simp only [insertPos] at h
    split at h
    · rename_i hc
      simp only [Bool.and_eq_true, List.isEmpty_iff] at hc
      have hd := of_decide_eq_true hc.2
      simp only [flat_diff] at hd
      intro y hy
      rcases List.mem_cons.1 hy with e | e
      · rw [e]; omega
      · exact ih hc.1 y e
    · simp at h

theorem insertPos_fst_le (s : Int) (ps : List Page) (h : (insertPos flatArith s ps).1 ≠ []) :
    ∃ w ∈ ps, w.seq ≤ s := by
  induction ps with
  | nil => simp [insertPos] at h
  | cons p ps ih =>
    by_cases hn : (insertPos flatArith s ps).1 = []
    · simp only [insertPos, hn, List.isEmpty_nil, Bool.true_and] at h
      split at h
      · simp at h
      · rename_i hc
        have hd : ¬ (flatArith.diff p.seq s < 0) := fun hx => hc (decide_eq_true hx)
        simp only [flat_diff] at hd
        exact ⟨p, List.mem_cons_self, by omega⟩
    · obtain ⟨w, hw, hle⟩ := ih hn
      exact ⟨w, List.mem_cons_of_mem _ hw, hle⟩

theorem J_insert (n s : Int) (B ps : List Page) (hj : J n ps) (hc : Chain s B) :
    J n (insertPages flatArith s B ps) := by
  induction ps generalizing n with
  | nil =>
    show J n ([] ++ B ++ [])
    simp only [List.nil_append, List.append_nil]
    have := J_append_chain s n B [] hc trivial (Or.inl (by intro y hy; simp at hy))
    simpa using this
  | cons p ps ih =>
    rw [insertPages_cons]
    obtain ⟨h1, h2⟩ := hj
    split
    · rename_i hcnd
      simp only [Bool.and_eq_true, List.isEmpty_iff] at hcnd
      have hd := of_decide_eq_true hcnd.2
      simp only [flat_diff] at hd
      apply J_append_chain s n B (p :: ps) hc ⟨h1, h2⟩
      left
      intro y hy
      rcases List.mem_cons.1 hy with e | e
      · rw [e]; omega
      · have := insertPos_fst_nil s ps hcnd.1 y e; omega
    · rename_i hcnd
      refine ⟨fun y hy => ?_, ih _ h2⟩
      rcases (mem_insertPages flatArith s B ps y).1 hy with e | e
      · -- y is a page of the new block: y.seq ≥ s
        have hy' := chain_ge s B hc y e
        by_cases hps : p.seq ≤ s
        · left; omega
        · -- p.seq > s, so some page w behind p has w.seq ≤ s < p.seq: p is covered
          have hne : (insertPos flatArith s ps).1 ≠ [] := by
            intro hnil
            apply hcnd
            simp only [Bool.and_eq_true, List.isEmpty_iff]
            exact ⟨hnil, decide_eq_true (by simp only [flat_diff]; omega)⟩
          obtain ⟨w, hw, hle⟩ := insertPos_fst_le s ps hne
          rcases h1 w hw with a | a
          · omega
          · right; exact a
      · exact h1 y e

/-! ### pages of one packet form a chain -/

theorem splitPages_chain (fuel : Nat) (s : Int) (b : Bytes) (fin : Bool) (ts : Int) :
    Chain s (splitPages flatArith fuel s b fin ts) := by
  induction fuel generalizing s b with
  | zero => exact ⟨rfl, trivial⟩
  | succ f ih =>
    simp only [splitPages]
    split
    · exact ⟨rfl, trivial⟩
    · refine ⟨rfl, ?_⟩
      have : s + plen ⟨s, ⟨b.take (min b.length pageBytes), 0, false, false, ts⟩⟩
          = flatArith.add s ((min b.length pageBytes : Nat) : Int) := by
        simp only [plen, flat_add, List.length_take]
        omega
      rw [this]
      exact ih _ _

/-! ### releasing pages -/

theorem byteSpan_flat_next (e r : Int) (b : Bytes) (h : e = -1 → 0 ≤ r) :
    (byteSpan flatArith e r b).2 = max e (r + (b.length : Int)) := by
  unfold byteSpan
  split
  · rename_i he
    rw [invalidSeq_eq] at he
    have := h he
    simp only [flat_add]; omega
  · dsimp only
    split
    · rename_i h1; simp only [flat_diff, flat_add] at h1 ⊢; omega
    · split
      · rename_i h1 h2; simp only [flat_diff] at h1 h2; dsimp only; omega
      · rename_i h1 h2; simp only [flat_diff, flat_add] at h1 h2 ⊢; omega

theorem popPage_flat_next (n : Int) (p : Page) (h : 0 ≤ p.seq) :
    (popPage flatArith n p).2 = max n (p.seq + plen p) := by
  rw [popPage_next, byteSpan_flat_next n p.seq p.r.bytes (fun _ => h)]
  rfl

theorem addContiguous_J (n : Int) (ps : List Page) (hj : J n ps) (hp : ∀ pg ∈ ps, 0 ≤ pg.seq) :
    J (addContiguous flatArith n ps).next (addContiguous flatArith n ps).rest ∧
      n ≤ (addContiguous flatArith n ps).next ∧
      (∀ q ys, (addContiguous flatArith n ps).rest = q :: ys → (addContiguous flatArith n ps).next < q.seq) := by
  induction ps generalizing n with
  | nil => exact ⟨trivial, Int.le_refl _, fun q ys h => by cases h⟩
  | cons p ps ih =>
    simp only [addContiguous]
    split
    · obtain ⟨_, h2⟩ := hj
      have hn := popPage_flat_next n p (hp p List.mem_cons_self)
      rw [← hn] at h2
      obtain ⟨a1, a2, a3⟩ := ih _ h2 (fun q hq => hp q (List.mem_cons_of_mem _ hq))
      refine ⟨a1, ?_, a3⟩
      have h3 : n ≤ (popPage flatArith n p).2 := by rw [hn]; omega
      dsimp only
      omega
    · rename_i hd
      simp only [flat_diff] at hd
      refine ⟨hj, Int.le_refl _, ?_⟩
      intro q ys h
      cases h
      dsimp only
      omega

theorem limitPops_J (L : Lim) (n : Int) (ps : List Page) (np used : Int) (hj : J n ps)
    (hp : ∀ pg ∈ ps, 0 ≤ pg.seq) :
    J (limitPops flatArith L n ps np used).next (limitPops flatArith L n ps np used).rest ∧
      n ≤ (limitPops flatArith L n ps np used).next := by
  induction ps generalizing n np used with
  | nil => exact ⟨trivial, Int.le_refl _⟩
  | cons p ps ih =>
    simp only [limitPops]
    split
    · obtain ⟨_, h2⟩ := hj
      have hn := popPage_flat_next n p (hp p List.mem_cons_self)
      rw [← hn] at h2
      obtain ⟨a1, a2⟩ := ih _ _ _ h2 (fun q hq => hp q (List.mem_cons_of_mem _ hq))
      refine ⟨a1, ?_⟩
      have h3 : n ≤ (popPage flatArith n p).2 := by rw [hn]; omega
      dsimp only
      omega
    · exact ⟨hj, Int.le_refl _⟩

/-- with the first page strictly beyond nextSeq, EVERY queued page is at or beyond the first one -/
theorem J_head_min (n : Int) (q : Page) (ys : List Page) (hj : J n (q :: ys)) (h : n < q.seq) :
    ∀ y ∈ ys, q.seq ≤ y.seq := by
  intro y hy
  rcases hj.1 y hy with a | a
  · exact a
  · omega

end Gp.Asm
