/-
  Last mile of `asm_complete`: the items in a stream's history are the items of the event log, and a
  replay without skips that ends at the end of the stream delivers exactly the stream.
-/
import Gp.Lemmas.AsmWrap2

namespace Gp.Asm

theorem histOf_cons (k sid : Nat) (e : Nat × Nat × HEv) (tr : Trace) :
    histOf k sid (e :: tr) = (if e.1 = k ∧ e.2.1 = sid then [e.2.2] else []) ++ histOf k sid tr := by
  unfold histOf
  rw [List.filterMap_cons]
  by_cases h : e.1 = k ∧ e.2.1 = sid
  · simp only [h, and_self, if_true]; rfl
  · simp only [h, if_false]; rfl

theorem gotItems_histOf_toT (k sid : Nat) (evs : List Ev) :
    gotItems (histOf k sid (evs.map toT)) = itemsOf k sid evs := by
  induction evs with
  | nil => rfl
  | cons e evs ih =>
    rw [List.map_cons, histOf_cons, gotItems_append, ih]
    cases e with
    | new a b =>
      simp only [toT, itemsOf]
      by_cases h : a = k ∧ b = sid
      · simp only [h, and_self, if_true]; rfl
      · simp only [h, if_false]; rfl
    | complete a b =>
      simp only [toT, itemsOf]
      by_cases h : a = k ∧ b = sid
      · simp only [h, and_self, if_true]; rfl
      · simp only [h, if_false]; rfl
    | data a b items =>
      simp only [toT, itemsOf]
      by_cases h : a = k ∧ b = sid
      · simp only [h, and_self, if_true]; simp [gotItems]
      · simp only [h, if_false]; rfl

theorem assemble_trace_items (A : SeqArith) (P : Pool) (s : Seg) (y : Pool × List Ev) (k sid : Nat)
    (hy : assemble A P s = .ok y) :
    gotItems (histOf k sid (opTrace P (.seg s) ⟨y.2, none⟩)) = itemsOf k sid y.2 := by
  rw [opTrace_seg]
  unfold assemble at hy
  unfold received
  by_cases h1 : (!s.syn && !s.fin && !s.rst && s.bytes.isEmpty) = true
  · rw [if_pos h1] at hy; cases hy
    rw [h1]; rfl
  · rw [if_neg h1] at hy
    have h1' : (!s.syn && !s.fin && !s.rst && s.bytes.isEmpty) = false := by simpa using h1
    rw [h1']
    cases hl : lookup s.key P.conns with
    | some c =>
      rw [hl] at hy
      dsimp only at hy ⊢
      simp only [Bool.not_false, Option.isSome_some, Bool.true_or, Bool.and_self, if_true]
      rw [histOf_cons, gotItems_append, gotItems_histOf_toT]
      have : gotItems (if (s.key, c.sid, HEv.fed s).1 = k ∧ (s.key, c.sid, HEv.fed s).2.1 = sid then [(s.key, c.sid, HEv.fed s).2.2] else []) = [] := by
        split <;> rfl
      rw [this]; rfl
    | none =>
      rw [hl] at hy
      dsimp only at hy ⊢
      by_cases h2 : (!s.syn && s.bytes.isEmpty) = true
      · rw [if_pos h2] at hy; cases hy
        simp only [h2, Option.isSome_none, Bool.not_true, Bool.or_self, Bool.and_false, Bool.false_eq_true, if_false]
        rfl
      · rw [if_neg h2] at hy
        have h2' : (!s.syn && s.bytes.isEmpty) = false := by simpa using h2
        simp only [h2', Bool.not_false, Bool.or_true, Bool.and_self, if_true]
        cases hst : assembleConn A (newConn P s.ts).2.lim (newConn P s.ts).1 (newConn P s.ts).2.used s with
        | ok st =>
          rw [hst] at hy; cases hy
          rw [show List.drop 1 (Ev.new s.key (newConn P s.ts).1.sid :: evsOf s.key st) = evsOf s.key st from rfl]
          rw [histOf_cons, histOf_cons, gotItems_append, gotItems_append, gotItems_histOf_toT]
          have e1 : gotItems (if (s.key, P.nextSid, HEv.created).1 = k ∧ (s.key, P.nextSid, HEv.created).2.1 = sid then [(s.key, P.nextSid, HEv.created).2.2] else []) = [] := by
            split <;> rfl
          have e2 : gotItems (if (s.key, P.nextSid, HEv.fed s).1 = k ∧ (s.key, P.nextSid, HEv.fed s).2.1 = sid then [(s.key, P.nextSid, HEv.fed s).2.2] else []) = [] := by
            split <;> rfl
          rw [e1, e2]
          simp [itemsOf]
        | err e => rw [hst] at hy; cases hy
        | panic q => rw [hst] at hy; cases hy

theorem step_trace_items (A : SeqArith) (P : Pool) (op : Op) (x : Pool × OpOut) (k sid : Nat)
    (hx : step A P op = .ok x) :
    gotItems (histOf k sid (opTrace P op x.2)) = itemsOf k sid x.2.evs := by
  cases op with
  | seg s =>
    simp only [step] at hx
    cases hy : assemble A P s with
    | ok y =>
      rw [hy] at hx; cases hx
      exact assemble_trace_items A P s y k sid hy
    | err e => rw [hy] at hx; cases hx
    | panic q => rw [hy] at hx; cases hx
  | opt a b => cases hx; exact gotItems_histOf_toT k sid _
  | flush T ca => cases hx; exact gotItems_histOf_toT k sid _
  | flushAll => cases hx; exact gotItems_histOf_toT k sid _

/-- the items in the history of a stream are exactly the items the event log shows for it -/
theorem runTrace_items (A : SeqArith) (P : Pool) (ops : List Op) (x : Pool × List OpOut) (k sid : Nat)
    (hx : run A P ops = .ok x) :
    gotItems (histOf k sid (runTrace A P ops)) = itemsOf k sid (allEvs x.2) := by
  induction ops generalizing P x with
  | nil => simp only [run] at hx; cases hx; rfl
  | cons op ops ih =>
    simp only [run] at hx
    simp only [runTrace]
    cases hs : step A P op with
    | ok z =>
      rw [hs] at hx
      dsimp only at hx ⊢
      cases hr : run A z.1 ops with
      | ok y =>
        rw [hr] at hx; cases hx
        rw [histOf_append, gotItems_append, step_trace_items A P op z k sid hs, ih z.1 y hr, allEvs_cons, itemsOf_append]
      | err e => rw [hr] at hx; cases hx
      | panic q => rw [hr] at hx; cases hx
    | err e => rw [hs] at hx; cases hx
    | panic q => rw [hs] at hx; cases hx

/-! ### a replay without skips delivers the stream itself -/

theorem slice_append (S : Bytes) (a n m : Nat) : slice S a n ++ slice S (a + n) m = slice S a (n + m) := by
  unfold slice
  rw [← List.drop_drop, List.take_add]

theorem replay_bytes (S : Bytes) (q : Nat) (items : List Reasm) (pos' : Option Nat)
    (h : replay S (some q) items pos') (hs : ∀ r ∈ items, r.skip = 0) :
    ∃ p', pos' = some p' ∧ q ≤ p' ∧ (items.map (·.bytes)).flatten = slice S q (p' - q) := by
  induction items generalizing q with
  | nil =>
    simp only [replay] at h
    exact ⟨q, h, Nat.le_refl _, by simp [slice]⟩
  | cons r rs ih =>
    obtain ⟨mid, hm, hr⟩ := h
    obtain ⟨_, k, h2, h3, h4, h5⟩ := hm
    have hk : k = 0 := by have := hs r List.mem_cons_self; rw [h2] at this; omega
    subst hk
    rw [h5] at hr
    obtain ⟨p', e1, e2, e3⟩ := ih (q + 0 + r.bytes.length) hr (fun x hx => hs x (List.mem_cons_of_mem _ hx))
    refine ⟨p', e1, by omega, ?_⟩
    simp only [List.map_cons, List.flatten_cons, e3]
    rw [h4]
    have hl : (slice S (q + 0) r.bytes.length).length = r.bytes.length := by
      rw [slice_length]; omega
    rw [hl]
    have : q + 0 + r.bytes.length = (q + 0) + r.bytes.length := rfl
    rw [Nat.add_zero] at *
    rw [slice_append]
    congr 1
    omega

/-- all skips 0, SYN first: the concatenation of the delivered bytes is the stream up to the replay
    position; at position |S| it is the whole stream. -/
theorem replay_all (S : Bytes) (items : List Reasm) (h : replay S none items (some S.length))
    (hs : ∀ r ∈ items, r.skip = 0) : (items.map (·.bytes)).flatten = S := by
  cases items with
  | nil => simp only [replay] at h; cases h
  | cons r rs =>
    obtain ⟨mid, hm, hr⟩ := h
    rcases hm with ⟨_, _, h3, h4, h5⟩ | ⟨_, h2, _⟩
    · rw [h5] at hr
      obtain ⟨p', e1, e2, e3⟩ := replay_bytes S r.bytes.length rs _ hr (fun x hx => hs x (List.mem_cons_of_mem _ hx))
      cases e1
      simp only [List.map_cons, List.flatten_cons, e3]
      rw [h4]
      have hl : (slice S 0 r.bytes.length).length = r.bytes.length := by rw [slice_length]; omega
      rw [hl]
      have := slice_append S 0 r.bytes.length (S.length - r.bytes.length)
      rw [Nat.zero_add] at this
      rw [this]
      have : r.bytes.length + (S.length - r.bytes.length) = S.length := by omega
      rw [this]
      simp [slice]
    · have := hs r List.mem_cons_self
      rw [h2] at this; cases this

end Gp.Asm
