import Gp.Lemmas.ReasmSend
/-
  Layer B of C09: every operation on a half connection keeps the invariant and hands the stream a
  correct presentation (`Rep`) of the sender's bytes — offset space (`Arith.ideal`).
-/
set_option linter.unusedSimpArgs false
namespace Gp.Reasm
open Gp

/-- invariant of an open half connection w.r.t. sender stream `S` whose first byte has number `b` -/
structure Inv (S : List UInt8) (b : Int) (h : Half) : Prop where
  ns : h.nextSeq = -1 ∨ (b ≤ h.nextSeq ∧ h.nextSeq ≤ b + S.length)
  queue : QueueOK S b h.nextSeq h.queue
  saved : SavedOK S b h

def HInv (S : List UInt8) (b : Int) (h : Half) : Prop := h.closed = true ∨ Inv S b h

/-- what the stream knows, computed from the half connection -/
def absPos (b : Int) (h : Half) : Pos :=
  if h.closed then .closed else if h.nextSeq = -1 then .unknown else .at (h.nextSeq - b).toNat (bytesLen h.saved)

theorem Rep.append {S : List UInt8} {a a' a'' : Pos} {l1 l2 : List SG} (h1 : Rep S a l1 a') (h2 : Rep S a' l2 a'') :
    Rep S a (l1 ++ l2) a'' := by
  induction h1 with
  | nil a => exact h2
  | shut a =>
    cases h2 with
    | nil => exact Rep.shut _
    | shut => exact Rep.shut _
    | sg he _ => exact absurd he.2.2.2.2 (by simp)
    | last he _ => exact absurd he.2.2.2.2 (by simp)
  | sg he _ ih => exact Rep.sg he (ih h2)
  | last he hf =>
    cases h2 with
    | nil => exact Rep.last he hf
    | shut => exact Rep.last he hf
    | sg he' _ => exact absurd he'.2.2.2.2 (by simp)
    | last he' _ => exact absurd he'.2.2.2.2 (by simp)

theorem inv_init (S : List UInt8) (b : Int) (ls : Int) : Inv S b { lastSeen := ls } :=
  { ns := Or.inl rfl, queue := ⟨List.Pairwise.nil, by simp, by simp⟩, saved := Or.inl rfl }

/-- One `sendToConnection` seen from the stream. `h` is the half connection at the time of the call,
    `h'` the half connection once the caller has stored the returned nextSeq. -/
theorem send_step {S : List UInt8} {b : Int} (hb : 0 ≤ b) {h : Half} {used : Int} {r0 : Cont} {s : Sent} {h' : Half}
    (hopen : h.closed = false) (pre : SendPre S b h r0) (post : SendPost S b h used r0 s)
    (hcl : h'.closed = s.half.closed)
    (hh' : s.closed = false → h' = { s.half with nextSeq := s.nextSeq }) :
    HInv S b h' ∧ Rep S (absPos b h) [s.sg] (absPos b h') := by
  have hl := pre.hat.len
  have hnl := post.new.len
  have hsl := post.savedAt.len
  have hemit : Emit S (absPos b h) s.sg (r0.seq - b).toNat := by
    obtain ⟨o, ho1, ho2, ho3⟩ := post.new
    obtain ⟨o', ho1', ho2', ho3'⟩ := post.savedAt
    have e1 : (r0.seq - b).toNat = o := by omega
    have e2 : (r0.seq - b).toNat - s.sg.saved.length = o' := by omega
    refine ⟨by rw [e1]; exact ho3, by omega, by omega, by rw [e2]; exact ho3', ?_⟩
    simp only [absPos, hopen, Bool.false_eq_true, if_false]
    by_cases hns : h.nextSeq = -1
    · simp only [hns, if_true]
      have hne : r0.seq ≠ h.nextSeq := by omega
      refine ⟨post.savedLen.2 hne, Or.inl ?_⟩
      rw [post.skip, if_neg (by simpa using hns)]
    · simp only [hns, if_false]
      have hns' := pre.ns.resolve_left hns
      have hsk := post.skip
      rw [if_pos hns] at hsk
      refine ⟨by omega, by omega, ?_, ?_⟩
      · intro h0; exact post.savedLen.1 ⟨hns, by omega⟩
      · intro h0; exact post.savedLen.2 (by omega)
  by_cases hc : s.closed = true
  · have hc' : h'.closed = true := by rw [hcl, post.closed, hc]; simp
    refine ⟨Or.inl hc', ?_⟩
    have : absPos b h' = .closed := by simp [absPos, hc']
    rw [this]
    exact Rep.last hemit (by rw [← post.fin]; exact hc)
  · have hc0 : s.closed = false := by simpa using hc
    have hh := hh' hc0
    have hc' : h'.closed = false := by rw [hcl, post.closed, hc0, hopen]; rfl
    have hns' : h'.nextSeq = s.nextSeq := by rw [hh]
    have hq' : h'.queue = s.half.queue := by rw [hh]
    have hsv' : h'.saved = s.half.saved := by rw [hh]
    have hne : s.nextSeq ≠ -1 := by rw [post.nextSeq]; omega
    have hinv : Inv S b h' := {
      ns := Or.inr (by rw [hns', post.nextSeq]; omega)
      queue := by
        rw [hq', hns']
        exact ⟨post.queue.1, post.queue.2.1, fun _ => post.queue.2.2⟩
      saved := Or.inr (by rw [hns', hsv']; exact ⟨hne, post.saved⟩) }
    refine ⟨Or.inr hinv, ?_⟩
    have : absPos b h' = .at ((r0.seq - b).toNat + s.sg.new.length) (keptCount s.sg) := by
      simp only [absPos, hc', Bool.false_eq_true, if_false, hns', hne, hsv', post.kept hc0]
      congr 1
      rw [post.nextSeq]; omega
    rw [this]
    exact Rep.sg hemit (Rep.nil _)

theorem Emit.toUnknown {S : List UInt8} {g : SG} {p : Nat} (h : Emit S (.at 0 0) g p) (hs : g.skip = 0) :
    Emit S .unknown g p := by
  obtain ⟨h1, h2, h3, h4, h5, h6, h7, _⟩ := h
  refine ⟨h1, h2, h3, h4, ?_, Or.inr ⟨hs, by rw [h6, hs]; rfl⟩⟩
  exact List.eq_nil_of_length_eq_zero (h7 hs)

theorem Rep.toUnknown {S : List UInt8} {g : SG} {a : Pos} (h : Rep S (.at 0 0) [g] a) (hs : g.skip = 0) :
    Rep S .unknown [g] a := by
  cases h with
  | sg he hr => exact Rep.sg (he.toUnknown hs) hr
  | last he hf => exact Rep.last (he.toUnknown hs) hf

/-- weak invariant: inside AssembleWithContext, just after a SYN has set nextSeq, queued pages may
    start AT nextSeq (they arrived before the SYN) -/
structure WInv (S : List UInt8) (b : Int) (h : Half) : Prop where
  ns : h.nextSeq = -1 ∨ (b ≤ h.nextSeq ∧ h.nextSeq ≤ b + S.length)
  sorted : Sorted h.queue
  ok : ∀ p ∈ h.queue, PageOK S b p
  lower : h.nextSeq ≠ -1 → ∀ p ∈ h.queue, h.nextSeq ≤ p.seq
  saved : SavedOK S b h

theorem Inv.weak {S b h} (hi : Inv S b h) : WInv S b h :=
  { ns := hi.ns, sorted := hi.queue.1, ok := hi.queue.2.1,
    lower := fun hn p hp => by have := hi.queue.2.2 hn p hp; omega, saved := hi.saved }

theorem overlapExisting_spec (S : List UInt8) (b : Int) (h : Half) (seq : Int) (bytes : List UInt8)
    (hns : h.nextSeq ≠ -1) (hle : seq ≤ h.nextSeq) (hat : At S b seq bytes)
    (hb : b ≤ h.nextSeq ∧ h.nextSeq ≤ b + S.length) :
    Res.Ok (overlapExisting I h seq bytes) (fun r => r.2 = h.nextSeq ∧ At S b h.nextSeq r.1 ∧
      seq + bytes.length ≤ h.nextSeq + r.1.length) := by
  unfold overlapExisting
  rw [if_neg (by simpa using hns)]
  simp only [I_diff]
  by_cases hd : h.nextSeq - seq = 0
  · rw [if_pos hd]
    have : seq = h.nextSeq := by omega
    exact Res.Ok.intro ⟨this, this ▸ hat, by simp only; omega⟩
  · rw [if_neg hd]
    by_cases hge : h.nextSeq - seq ≥ ↑bytes.length
    · simp only [if_pos hge]
      rw [if_neg (by omega)]
      refine Res.Ok.intro ⟨rfl, ?_, ?_⟩
      · simp only [Int.toNat_natCast, List.drop_length]
        exact At.nil hb.1 hb.2
      · simp only [Int.toNat_natCast, List.drop_length, List.length_nil]; omega
    · simp only [if_neg hge]
      rw [if_neg (by omega)]
      have hk : (h.nextSeq - seq).toNat ≤ bytes.length := by omega
      refine Res.Ok.intro ⟨rfl, ?_, ?_⟩
      · have := hat.drop _ hk
        have e : seq + ↑(h.nextSeq - seq).toNat = h.nextSeq := by omega
        rw [e] at this; exact this
      · simp only [List.length_drop]; omega

theorem savedOK_congr {S b} {h h' : Half} (h1 : h'.saved = h.saved) (h2 : h'.nextSeq = h.nextSeq)
    (hs : SavedOK S b h) : SavedOK S b h' := by
  unfold SavedOK at *; rw [h1, h2]; exact hs

structure HBPost (S : List UInt8) (b : Int) (h : Half) (queue : Bool) (seq : Int) (len : Nat) (fin syn : Bool)
    (cfgNoLimit : Prop) (res : Half × Int × List Cont) : Prop where
  same : res.1 = { h with queue := res.1.queue, pages := res.1.pages }
  strict : Inv S b h → Inv S b res.1
  ret : res.2.2 = [] ∨ ∃ r0, res.2.2 = [r0] ∧ SendPre S b res.1 r0 ∧
        (queue = false → r0.fin = fin ∧ r0.seq = h.nextSeq)
  must : queue = false → (fin = true ∨ syn = true) → res.2.2 ≠ []
  endQ : queue = false → Inv S b h → seq + len = b + S.length → res.1.queue = []
  noLimit : queue = true → cfgNoLimit → res.2.2 = []

theorem limitHit_off {cfg : Cfg} (h : cfg.maxPer ≤ 0 ∧ cfg.maxTotal ≤ 0) (pages used : Int) :
    limitHit cfg pages used = false := by
  simp only [limitHit]
  have h1 : ¬ cfg.maxPer > 0 := by omega
  have h2 : ¬ cfg.maxTotal > 0 := by omega
  simp [h1, h2]

theorem handleBytes_spec (S : List UInt8) (b : Int) (hb0 : 0 ≤ b) (cfg : Cfg) (h : Half) (used : Int) (queue : Bool) (seq : Int)
    (bytes : List UInt8) (ts : Int) (syn fin : Bool) (hw : WInv S b h) (hat : At S b seq bytes)
    (hq : queue = true → (h.nextSeq = -1 ∨ h.nextSeq < seq))
    (hnq : queue = false → (h.nextSeq ≠ -1 ∧ seq ≤ h.nextSeq)) :
    Res.Ok (handleBytes I cfg h used queue seq bytes ts syn fin)
      (HBPost S b h queue seq bytes.length fin syn (cfg.maxPer ≤ 0 ∧ cfg.maxTotal ≤ 0)) := by
  unfold handleBytes
  cases queue with
  | true =>
    simp only [if_true]
    obtain ⟨⟨h1, used1, bs1⟩, hco, cp⟩ := checkOverlap_spec S b h used true seq bytes ts fin hat hw.sorted hw.ok
    rw [hco]
    have hsame := cp.same
    simp only at hsame
    have hns1 : h1.nextSeq = h.nextSeq := by rw [hsame]
    have hsv1 : h1.saved = h.saved := by rw [hsame]
    have hlow1 : h.nextSeq ≠ -1 → ∀ p ∈ h1.queue, h.nextSeq ≤ p.seq := by
      intro hn p hp
      have := cp.lower (h.nextSeq - 1) (fun q hq' => by have := hw.lower hn q hq'; omega)
        (fun _ => by rcases hq rfl with h' | h'; exact absurd h' hn; omega) p hp
      omega
    have hstrict1 : Inv S b h → Inv S b h1 := fun hi =>
      { ns := by rw [hns1]; exact hi.ns
        queue := ⟨cp.sorted, cp.ok, fun hn => by
          rw [hns1] at hn ⊢
          exact cp.lower h.nextSeq (hi.queue.2.2 hn)
            (fun _ => by rcases hq rfl with h' | h'; exact absurd h' hn; exact h')⟩
        saved := savedOK_congr hsv1 hns1 hi.saved }
    simp only
    split
    · -- the limit is hit: pop the first queued page
      rename_i hlim
      have hnolim : (cfg.maxPer ≤ 0 ∧ cfg.maxTotal ≤ 0) → False := fun hc => by
        rw [limitHit_off hc] at hlim; cases hlim
      unfold addNextFromConn
      cases hq1 : h1.queue with
      | nil =>
        simp only
        refine Res.Ok.intro ?_
        exact { same := hsame, strict := hstrict1, ret := Or.inl rfl,
                must := fun hc => Bool.noConfusion hc, endQ := fun hc => Bool.noConfusion hc,
                noLimit := fun _ _ => rfl }
      | cons p rest =>
        simp only [List.nil_append]
        have hsort : Sorted (p :: rest) := hq1 ▸ cp.sorted
        have hsc := List.pairwise_cons.mp hsort
        have hpok : PageOK S b p := cp.ok p (by rw [hq1]; exact List.mem_cons_self ..)
        refine Res.Ok.intro ?_
        exact {
          same := by simp only; rw [hsame]
          strict := fun hi =>
            let hi1 := hstrict1 hi
            { ns := hi1.ns
              queue := ⟨hsc.2, fun q hq' => hi1.queue.2.1 q (by rw [hq1]; exact List.mem_cons_of_mem _ hq'),
                        fun hn q hq' => hi1.queue.2.2 hn q (by rw [hq1]; exact List.mem_cons_of_mem _ hq')⟩
              saved := savedOK_congr rfl rfl hi1.saved }
          ret := Or.inr ⟨p.toCont, rfl, {
            hat := hpok.1
            ns := by
              simp only
              rcases hw.ns with hn | hn
              · left; rw [hns1]; exact hn
              · right; rw [hns1]
                have hne : h.nextSeq ≠ -1 := by omega
                exact ⟨hn.1, hlow1 hne p (by rw [hq1]; exact List.mem_cons_self ..)⟩
            sorted := hsc.2
            ok := fun q hq' => cp.ok q (by rw [hq1]; exact List.mem_cons_of_mem _ hq')
            after := fun q hq' => hsc.1 q hq'
            saved := savedOK_congr hsv1 hns1 hw.saved }, fun hc => Bool.noConfusion hc⟩
          must := fun hc => Bool.noConfusion hc
          endQ := fun hc => Bool.noConfusion hc
          noLimit := fun _ hc => absurd hc hnolim }
    · refine Res.Ok.intro ?_
      exact { same := hsame, strict := hstrict1, ret := Or.inl rfl,
              must := fun hc => Bool.noConfusion hc, endQ := fun hc => Bool.noConfusion hc,
              noLimit := fun _ _ => rfl }
  | false =>
    simp only [Bool.false_eq_true, if_false]
    obtain ⟨hns, hle⟩ := hnq rfl
    have hbnd := hw.ns.resolve_left hns
    obtain ⟨⟨bs0, seq0⟩, hoe, hseq0, hat0, hlen0⟩ := overlapExisting_spec S b h seq bytes hns hle hat hbnd
    rw [hoe]
    simp only at hseq0 hat0 hlen0
    subst hseq0
    obtain ⟨⟨h1, used1, bs1⟩, hco, cp⟩ := checkOverlap_spec S b h used false h.nextSeq bs0 ts fin hat0 hw.sorted hw.ok
    dsimp only
    rw [hco]
    have hsame := cp.same
    simp only at hsame
    have hns1 : h1.nextSeq = h.nextSeq := by rw [hsame]
    have hsv1 : h1.saved = h.saved := by rw [hsame]
    obtain ⟨hbs1, hafter⟩ := cp.live rfl (hw.lower hns)
    simp only at hbs1 hafter
    have hat1 : At S b h.nextSeq bs1 := by
      rcases hbs1 with e | e
      · rw [e]; exact hat0
      · rw [e]; exact At.nil hbnd.1 hbnd.2
    have hstrict1 : Inv S b h → Inv S b h1 := fun hi =>
      { ns := by rw [hns1]; exact hi.ns
        queue := ⟨cp.sorted, cp.ok, fun hn => by
          rw [hns1] at hn ⊢
          exact cp.lower h.nextSeq (hi.queue.2.2 hn) (fun hc => by cases hc)⟩
        saved := savedOK_congr hsv1 hns1 hi.saved }
    have hendQ : Inv S b h → seq + ↑bytes.length = b + ↑S.length → h1.queue = [] := by
      intro hi hend
      have hbs : bs1 = bs0 := cp.liveStrict rfl (hi.queue.2.2 hns)
      have h0l := hat0.len
      cases hq1 : h1.queue with
      | nil => rfl
      | cons p rest =>
        exfalso
        have hp : p ∈ h1.queue := by rw [hq1]; exact List.mem_cons_self ..
        have h1' := hafter p hp
        have h2' := (cp.ok p hp).1.len
        have h3' : 0 < p.bytes.length := List.length_pos_iff.mpr (cp.ok p hp).2
        rw [hbs] at h1'
        omega
    simp only
    split
    · rename_i hcond
      refine Res.Ok.intro ?_
      exact {
        same := hsame
        strict := hstrict1
        ret := Or.inr ⟨_, rfl, {
          hat := hat1
          ns := Or.inr (by rw [hns1]; exact ⟨hbnd.1, Int.le_refl _⟩)
          sorted := cp.sorted
          ok := cp.ok
          after := hafter
          saved := savedOK_congr hsv1 hns1 hw.saved }, fun _ => ⟨rfl, rfl⟩⟩
        must := fun _ _ => by simp
        endQ := fun _ => hendQ
        noLimit := fun hc => Bool.noConfusion hc }
    · rename_i hcond
      refine Res.Ok.intro ?_
      exact {
        same := hsame
        strict := hstrict1
        ret := Or.inl rfl
        must := fun _ hfs => by
          exfalso; apply hcond
          rcases hfs with hf | hf
          · exact Or.inr (Or.inl hf)
          · exact Or.inr (Or.inr hf)
        endQ := fun _ => hendQ
        noLimit := fun hc => Bool.noConfusion hc }

theorem inv_congr {S b} {h h' : Half} (h1 : h'.nextSeq = h.nextSeq) (h2 : h'.queue = h.queue) (h3 : h'.saved = h.saved)
    (hi : Inv S b h) : Inv S b h' :=
  { ns := by rw [h1]; exact hi.ns, queue := by rw [h1, h2]; exact hi.queue, saved := savedOK_congr h3 h1 hi.saved }

theorem absPos_congr {b} {h h' : Half} (h0 : h'.closed = h.closed) (h1 : h'.nextSeq = h.nextSeq)
    (h3 : h'.saved = h.saved) : absPos b h' = absPos b h := by
  simp only [absPos, h0, h1, h3]

/-- what one step on a half connection must establish -/
def StepOK (S : List UInt8) (b : Int) (h : Half) (o : Out) : Prop :=
  HInv S b o.half ∧ Rep S (absPos b h) o.sgs (absPos b o.half) ∧ (o.closed = true → o.half.closed = true)

theorem finishAssemble_spec (S : List UInt8) (b : Int) (hb : 0 ≤ b) (h : Half) (used : Int) (ret : List Cont) (ts : Int)
    (keep : KeepRule) (bump : Bool) (hopen : h.closed = false)
    (hnil : ret = [] → Inv S b h)
    (hret : ret = [] ∨ ∃ r0, ret = [r0] ∧ SendPre S b h r0)
    (hbump : bump = true → ∃ r0, ret = [r0] ∧ h.queue = [] ∧ r0.fin = true) :
    Res.Ok (finishAssemble I h used ret ts keep bump) (fun o => StepOK S b h o ∧
      (∀ r0, ret = [r0] → ∃ g, o.sgs = [g] ∧ g.skip = if h.nextSeq ≠ -1 then r0.seq - h.nextSeq else -1) ∧
      (ret = [] → o.sgs = [])) := by
  unfold finishAssemble
  rcases hret with hr | ⟨r0, hr, pre⟩
  · subst hr
    simp only [List.length_nil, Nat.lt_irrefl, if_false]
    refine Res.Ok.intro ⟨⟨Or.inr (hnil rfl), Rep.nil _, fun hc => by simp at hc⟩, fun r0 hr => by simp at hr, fun _ => rfl⟩
  · subst hr
    simp only [List.length_cons, List.length_nil, Nat.zero_add, Nat.lt_add_one, if_true]
    obtain ⟨s, hs, post⟩ := sendToConnection_spec S b hb h used r0 ts keep pre
    rw [hs]
    have hl := pre.hat.len
    have hne : s.nextSeq ≠ invalidSeq := by
      rw [post.nextSeq, invalidSeq_eq]; omega
    simp only [hne, ne_eq, not_false_eq_true, if_true]
    refine Res.Ok.intro ⟨?_, ?_⟩
    · have := send_step (h' := { s.half with nextSeq := if bump = true then I.add s.nextSeq 1 else s.nextSeq })
        hb hopen pre post rfl (by
          intro hc
          cases hbmp : bump with
          | false => simp
          | true =>
            exfalso
            obtain ⟨r1, hr1, hq0, hf⟩ := hbump hbmp
            have : r1 = r0 := by simpa using hr1.symm
            subst this
            have := post.finLast hq0
            rw [hf, ← post.fin, hc] at this
            cases this)
      exact ⟨this.1, this.2, fun hc => by
        show s.half.closed = true
        rw [post.closed]; simp only at hc; rw [hc]; simp⟩
    · refine ⟨?_, fun hc => by simp at hc⟩
      intro r1 hr1
      have : r0 = r1 := by simpa using hr1
      subst this
      exact ⟨s.sg, rfl, post.skip⟩

theorem segok_at {S : List UInt8} {i : Int} {p : Seg} (hp : SegOK S i p) :
    At S (i + 1) (if p.syn = true then I.add p.seq 1 else p.seq) p.bytes := by
  have := hp.2.1
  simp only [Seg.dataSeq] at this
  exact this

theorem StepOK.congr {S b} {h h' : Half} {o : Out} (habs : absPos b h' = absPos b h) (hs : StepOK S b h' o) :
    StepOK S b h o := by
  unfold StepOK at *; rw [← habs]; exact hs

/-- the decision of AssembleWithContext in offset space: either nothing changes (and the half satisfies the
    strict invariant), or this is the first SYN and nextSeq becomes the number of the first stream byte -/
theorem decideQueue_spec {S : List UInt8} {b : Int} {h0 : Half} (hI : Inv S b h0) (syn : Bool) (acc : Nat) (sq : Int)
    (hacc : acc ≤ 1) (hsq : b ≤ sq ∧ sq ≤ b + S.length) (hsyn : syn = true → sq = b) :
    ((decideQueue I h0 syn acc sq).1 = h0 ∧
      ((decideQueue I h0 syn acc sq).2 = true → (h0.nextSeq = -1 ∨ h0.nextSeq < sq)) ∧
      ((decideQueue I h0 syn acc sq).2 = false → (h0.nextSeq ≠ -1 ∧ sq ≤ h0.nextSeq))) ∨
    (syn = true ∧ h0.nextSeq = -1 ∧ decideQueue I h0 syn acc sq = ({ h0 with nextSeq := sq }, false)) := by
  unfold decideQueue
  have hacc2 : ¬ acc = 2 := by omega
  by_cases hns : h0.nextSeq = invalidSeq
  · rw [if_pos hns]
    by_cases hs : syn = true
    · rw [if_pos hs]
      exact Or.inr ⟨hs, hns, rfl⟩
    · rw [if_neg hs]
      have hst : ¬ ((h0.nextSeq = invalidSeq ∧ syn = true) ∨ acc = 2) := by
        intro hc; rcases hc with ⟨_, hc⟩ | hc
        · exact hs hc
        · exact hacc2 hc
      rw [if_neg hst]
      exact Or.inl ⟨rfl, fun _ => Or.inl hns, fun hc => Bool.noConfusion hc⟩
  · rw [if_neg hns]
    by_cases hq : I.diff h0.nextSeq sq > 0
    · rw [if_pos hq]
      simp only [I_diff] at hq
      exact Or.inl ⟨rfl, fun _ => Or.inr (by omega), fun hc => Bool.noConfusion hc⟩
    · rw [if_neg hq]
      simp only [I_diff] at hq
      exact Or.inl ⟨rfl, fun hc => Bool.noConfusion hc, fun _ => ⟨hns, by omega⟩⟩

theorem assemble_spec (S : List UInt8) (i : Int) (hi : 0 ≤ i) (cfg : Cfg) (h : Half) (used : Int) (p : Seg) (acc : Nat)
    (keep : KeepRule) (hinv : HInv S (i + 1) h) (hp : SegOK S i p) (hacc : acc ≤ 1) :
    Res.Ok (assemble I cfg h used p acc keep) (fun o => StepOK S (i + 1) h o ∧
      ((cfg.maxPer ≤ 0 ∧ cfg.maxTotal ≤ 0) → ∀ g ∈ o.sgs, g.skip = 0)) := by
  have hb : (0 : Int) ≤ i + 1 := by omega
  unfold assemble
  -- the lastSeen update does not matter
  generalize hh0 : (if h.lastSeen < p.ts then { h with lastSeen := p.ts } else h) = h0
  have hc0 : h0.closed = h.closed := by rw [← hh0]; split <;> rfl
  have hn0 : h0.nextSeq = h.nextSeq := by rw [← hh0]; split <;> rfl
  have hq0 : h0.queue = h.queue := by rw [← hh0]; split <;> rfl
  have hs0 : h0.saved = h.saved := by rw [← hh0]; split <;> rfl
  have habs : absPos (i + 1) h0 = absPos (i + 1) h := absPos_congr hc0 hn0 hs0
  have hinv0 : HInv S (i + 1) h0 := by
    rcases hinv with hc | hi'
    · exact Or.inl (by rw [hc0]; exact hc)
    · exact Or.inr (inv_congr hn0 hq0 hs0 hi')
  refine Res.Ok.mono (P := fun o => StepOK S (i + 1) h0 o ∧
      ((cfg.maxPer ≤ 0 ∧ cfg.maxTotal ≤ 0) → ∀ g ∈ o.sgs, g.skip = 0)) ?_ (fun o ho => ⟨ho.1.congr habs, ho.2⟩)
  have hat := segok_at hp
  have hdata : p.dataSeq = (if p.syn = true then I.add p.seq 1 else p.seq) := rfl
  generalize hsq : (if p.syn = true then I.add p.seq 1 else p.seq) = sq at hat hdata ⊢
  simp only
  by_cases ha : acc = 0
  · rw [if_pos ha]
    exact Res.Ok.intro ⟨⟨hinv0, Rep.nil _, fun hc => by simp at hc⟩, fun _ g hg => by simp at hg⟩
  rw [if_neg ha]
  by_cases hcl : h0.closed = true
  · rw [if_pos hcl]
    exact Res.Ok.intro ⟨⟨hinv0, Rep.nil _, fun hc => by simp at hc⟩, fun _ g hg => by simp at hg⟩
  rw [if_neg hcl]
  have hopen : h0.closed = false := by simpa using hcl
  have hI : Inv S (i + 1) h0 := hinv0.resolve_left hcl
  have hatl := hat.len
  have hsynsq : p.syn = true → sq = i + 1 := by
    intro hs
    rw [← hsq, if_pos hs]; simp only [I_add]; have := (hp.1 hs).1; omega
  rcases decideQueue_spec hI p.syn acc sq hacc ⟨hatl.1, by omega⟩ hsynsq with ⟨hd1, hdq, hdn⟩ | ⟨hsyn, hns', hd⟩
  · -- no start in this call: the half connection is as it was
    generalize decideQueue I h0 p.syn acc sq = d at hd1 hdq hdn
    obtain ⟨h1, queue⟩ := d
    simp only at hd1 hdq hdn ⊢
    subst hd1
    obtain ⟨⟨h2, used2, ret⟩, hhb, hbp⟩ := handleBytes_spec S (i + 1) hb cfg h1 used queue sq p.bytes p.ts
      p.syn (p.rst || p.fin) hI.weak hat hdq hdn
    rw [hhb]
    have hsame := hbp.same
    simp only at hsame
    have hopen2 : h2.closed = false := by rw [hsame]; exact hopen
    have habs2 : absPos (i + 1) h2 = absPos (i + 1) h1 := absPos_congr (by rw [hsame]) (by rw [hsame]) (by rw [hsame])
    obtain ⟨o, ho, hst, hsk, hnil'⟩ := finishAssemble_spec S (i + 1) hb h2 used2 ret p.ts keep (p.fin && !queue) hopen2
      (fun _ => hbp.strict hI)
      (by rcases hbp.ret with hr | ⟨r0, hr, pre, _⟩
          · exact Or.inl hr
          · exact Or.inr ⟨r0, hr, pre⟩)
      (by
        intro hc
        have hfin : p.fin = true := by
          cases hpf : p.fin with
          | true => rfl
          | false => rw [hpf] at hc; simp at hc
        have hqf : queue = false := by
          cases hqq : queue with
          | false => rfl
          | true => rw [hqq, hfin] at hc; simp at hc
        have hne : ret ≠ [] := hbp.must hqf (Or.inl (by simp [hfin]))
        obtain ⟨r0, hr0, pre, hfs⟩ := hbp.ret.resolve_left hne
        refine ⟨r0, hr0, hbp.endQ hqf hI ?_, by rw [(hfs hqf).1]; simp [hfin]⟩
        have := hp.2.2 hfin
        rw [hdata] at this
        exact this)
    refine ⟨o, ho, hst.congr habs2, ?_⟩
    intro hcfg g hg
    rcases hbp.ret with hr | ⟨r0, hr, pre, hfs⟩
    · rw [hnil' hr] at hg; simp at hg
    · obtain ⟨g', hg', hgs⟩ := hsk r0 hr
      rw [hg'] at hg
      have : g = g' := by simpa using hg
      subst this
      cases hqq : queue with
      | true =>
        have := hbp.noLimit hqq hcfg
        rw [hr] at this; simp at this
      | false =>
        have hn := (hdn hqq).1
        have hn2 : h2.nextSeq = h1.nextSeq := by rw [hsame]
        rw [hgs, hn2, if_pos hn, (hfs hqq).2]; omega
  · -- first SYN: the start is seen now
    rw [hd]
    simp only
    have hfin : p.fin = false := (hp.1 hsyn).2
    have hsqv : sq = i + 1 := hsynsq hsyn
    let h1 : Half := { h0 with nextSeq := sq }
    have hw1 : WInv S (i + 1) h1 := {
      ns := Or.inr (by simp only [h1]; omega)
      sorted := hI.queue.1
      ok := hI.queue.2.1
      lower := fun _ q hq => by
        have := (hI.queue.2.1 q hq).1.len
        simp only [h1]; omega
      saved := Or.inl (by
        rcases hI.saved with hsv | ⟨hne, _⟩
        · exact hsv
        · exact absurd hns' hne) }
    obtain ⟨⟨h2, used2, ret⟩, hhb, hbp⟩ := handleBytes_spec S (i + 1) hb cfg h1 used false sq p.bytes p.ts
      p.syn (p.rst || p.fin) hw1 hat (fun hc => by cases hc) (fun _ => ⟨by simp only [h1]; omega, Int.le_refl _⟩)
    rw [hhb]
    have hsame := hbp.same
    simp only at hsame
    have hopen2 : h2.closed = false := by rw [hsame]; exact hopen
    have hne : ret ≠ [] := hbp.must rfl (Or.inr hsyn)
    obtain ⟨r0, hr0, pre, hfs⟩ := hbp.ret.resolve_left hne
    simp only at hr0
    obtain ⟨o, ho, hst, hsk, _⟩ := finishAssemble_spec S (i + 1) hb h2 used2 ret p.ts keep (p.fin && !false) hopen2
      (fun hc => absurd hc hne) (Or.inr ⟨r0, hr0, pre⟩) (fun hc => by simp [hfin] at hc)
    obtain ⟨g, hg, hgs⟩ := hsk r0 hr0
    have hn2' : h2.nextSeq = i + 1 := by rw [hsame]; simp only [h1]; omega
    have hg0 : g.skip = 0 := by
      rw [hgs, if_pos (by rw [hn2']; omega), (hfs rfl).2, hn2']
      simp only [h1]; omega
    refine ⟨o, ho, ⟨hst.1, ?_, hst.2.2⟩, fun _ g' hg' => by
      rw [hg] at hg'
      have : g' = g := by simpa using hg'
      rw [this]; exact hg0⟩
    -- the stream's position was unknown; this ScatterGather starts at offset 0
    have hn2 : h2.nextSeq = i + 1 := by rw [hsame]; simp only [h1]; omega
    have hsv2 : h2.saved = [] := by
      rw [hsame]
      rcases hI.saved with hsv | ⟨hne', _⟩
      · exact hsv
      · exact absurd hns' hne'
    have habs2 : absPos (i + 1) h2 = .at 0 0 := by
      have e1 : ¬ (i + 1 = -1) := by omega
      simp only [absPos, hopen2, hn2, hsv2, bytesLen, Bool.false_eq_true, if_false, e1, List.map_nil,
        List.sum_nil, Int.sub_self, Int.toNat_zero]
    have habs0 : absPos (i + 1) h0 = .unknown := by simp [absPos, hopen, hns']
    have hr := hst.2.1
    rw [habs2, hg] at hr
    rw [habs0, hg]
    exact hr.toUnknown hg0

theorem closeHalf_step (S : List UInt8) (b : Int) (h : Half) (used : Int) :
    HInv S b (closeHalf h used).1 ∧ Rep S (absPos b h) [] (absPos b (closeHalf h used).1) := by
  have hc : (closeHalf h used).1.closed = true := rfl
  refine ⟨Or.inl hc, ?_⟩
  have : absPos b (closeHalf h used).1 = .closed := by simp [absPos, hc]
  rw [this]; exact Rep.shut _

theorem skipFlush_pre {S : List UInt8} {b : Int} (hb : 0 ≤ b) {h : Half} {p : Page} {rest : List Page}
    (hI : Inv S b h) (hq : h.queue = p :: rest) : SendPre S b { h with queue := rest } p.toCont := by
  have hsort : Sorted (p :: rest) := hq ▸ hI.queue.1
  have hsc := List.pairwise_cons.mp hsort
  have hpok : PageOK S b p := hI.queue.2.1 p (by rw [hq]; exact List.mem_cons_self ..)
  exact {
    hat := hpok.1
    ns := by
      rcases hI.ns with hn | hn
      · exact Or.inl hn
      · right
        have hne : h.nextSeq ≠ -1 := by omega
        have := hI.queue.2.2 hne p (by rw [hq]; exact List.mem_cons_self ..)
        exact ⟨hn.1, by simp only [Page.toCont]; omega⟩
    sorted := hsc.2
    ok := fun q hq' => hI.queue.2.1 q (by rw [hq]; exact List.mem_cons_of_mem _ hq')
    after := fun q hq' => hsc.1 q hq'
    saved := savedOK_congr rfl rfl hI.saved }

theorem skipFlush_spec (S : List UInt8) (b : Int) (hb : 0 ≤ b) (h : Half) (used : Int) (keep : KeepRule)
    (hI : Inv S b h) (hopen : h.closed = false) :
    Res.Ok (skipFlush I h used keep) (fun o => StepOK S b h o ∧
      (o.closed = false → o.half.closed = false ∧ o.half.queue.length < h.queue.length)) := by
  unfold skipFlush
  cases hq : h.queue with
  | nil =>
    simp only
    have := closeHalf_step S b h used
    exact Res.Ok.intro ⟨⟨this.1, this.2, fun _ => rfl⟩, fun hc => by simp at hc⟩
  | cons p rest =>
    simp only [addNextFromConn, hq, List.nil_append]
    have hsort : Sorted (p :: rest) := hq ▸ hI.queue.1
    have hsc := List.pairwise_cons.mp hsort
    have hpok : PageOK S b p := hI.queue.2.1 p (by rw [hq]; exact List.mem_cons_self ..)
    have pre : SendPre S b { h with queue := rest } p.toCont := {
      hat := hpok.1
      ns := by
        rcases hI.ns with hn | hn
        · exact Or.inl hn
        · right
          have hne : h.nextSeq ≠ -1 := by omega
          have := hI.queue.2.2 hne p (by rw [hq]; exact List.mem_cons_self ..)
          exact ⟨hn.1, by simp only [Page.toCont]; omega⟩
      sorted := hsc.2
      ok := fun q hq' => hI.queue.2.1 q (by rw [hq]; exact List.mem_cons_of_mem _ hq')
      after := fun q hq' => hsc.1 q hq'
      saved := savedOK_congr rfl rfl hI.saved }
    obtain ⟨s, hs, post⟩ := sendToConnection_spec S b hb { h with queue := rest } used p.toCont 0 keep pre
    rw [hs]
    have hl := pre.hat.len
    have hne : s.nextSeq ≠ invalidSeq := by rw [post.nextSeq, invalidSeq_eq]; omega
    simp only [hne, ne_eq, not_false_eq_true, if_true]
    have hstep := send_step (h' := { s.half with nextSeq := s.nextSeq }) hb (h := { h with queue := rest }) hopen pre post rfl
      (fun _ => rfl)
    have habs : absPos b { h with queue := rest } = absPos b h := absPos_congr rfl rfl rfl
    rw [habs] at hstep
    refine Res.Ok.intro ⟨⟨hstep.1, hstep.2, fun hc => ?_⟩, fun hc => ?_⟩
    · show s.half.closed = true
      rw [post.closed]; simp only at hc; rw [hc]; simp
    · simp only at hc
      refine ⟨?_, ?_⟩
      · show s.half.closed = false
        rw [post.closed, hc]; simp only [Bool.or_false]; exact hopen
      · show s.half.queue.length < (p :: rest).length
        have := post.qlen
        simp only at this
        simp only [List.length_cons]; omega

/-- loop results: what was appended to the accumulated ScatterGathers is a correct presentation -/
def LoopOK (S : List UInt8) (b : Int) (h : Half) (sgs : List SG) (o : Out) : Prop :=
  HInv S b o.half ∧ (∃ l, o.sgs = sgs ++ l ∧ Rep S (absPos b h) l (absPos b o.half)) ∧
  (o.closed = true → o.half.closed = true)

theorem flushLoop_spec (S : List UInt8) (b : Int) (hb : 0 ≤ b) (t : Int) (keep : KeepRule) :
    ∀ (fuel : Nat) (h : Half) (used : Int) (sgs : List SG) (fl : Bool), Inv S b h → h.closed = false →
      Res.Ok (flushLoop I t keep fuel h used sgs fl) (fun o => LoopOK S b h sgs o ∧
        (o.closed = false → o.half.closed = false))
  | 0, h, used, sgs, fl, hI, hopen => by
    simp only [flushLoop]
    exact Res.Ok.intro ⟨⟨Or.inr hI, ⟨[], by simp, Rep.nil _⟩, fun hc => by simp at hc⟩, fun _ => hopen⟩
  | fuel + 1, h, used, sgs, fl, hI, hopen => by
    simp only [flushLoop]
    cases hq : h.queue with
    | nil =>
      simp only
      exact Res.Ok.intro ⟨⟨Or.inr hI, ⟨[], by simp, Rep.nil _⟩, fun hc => by simp at hc⟩, fun _ => hopen⟩
    | cons p rest =>
      simp only
      split
      · obtain ⟨o, ho, hst, hlen⟩ := skipFlush_spec S b hb h used keep hI hopen
        rw [ho]
        simp only
        by_cases hoc : o.closed = true
        · rw [if_pos hoc]
          exact Res.Ok.intro ⟨⟨hst.1, ⟨o.sgs, rfl, hst.2.1⟩, fun _ => hst.2.2 hoc⟩, fun hc => by simp at hc⟩
        · rw [if_neg hoc]
          have hoc' : o.closed = false := by simpa using hoc
          have hopen' := (hlen hoc').1
          have hI' : Inv S b o.half := hst.1.resolve_left (by simp [hopen'])
          obtain ⟨o2, ho2, ⟨hinv2, ⟨l, hl, hrep⟩, hcl2⟩, hop2⟩ := flushLoop_spec S b hb t keep fuel o.half o.used (sgs ++ o.sgs) true hI' hopen'
          exact ⟨o2, ho2, ⟨hinv2, ⟨o.sgs ++ l, by rw [hl, List.append_assoc], Rep.append hst.2.1 hrep⟩, hcl2⟩, hop2⟩
      · exact Res.Ok.intro ⟨⟨Or.inr hI, ⟨[], by simp, Rep.nil _⟩, fun hc => by simp at hc⟩, fun _ => hopen⟩

theorem flushClose_spec (S : List UInt8) (b : Int) (hb : 0 ≤ b) (h : Half) (used : Int) (t tc ls : Int) (keep : KeepRule)
    (hinv : HInv S b h) : Res.Ok (flushClose I h used t tc ls keep) (StepOK S b h) := by
  unfold flushClose
  by_cases hc : h.closed = true
  · rw [if_pos hc]
    exact Res.Ok.intro ⟨hinv, Rep.nil _, fun hc' => by simp at hc'⟩
  · rw [if_neg hc]
    have hopen : h.closed = false := by simpa using hc
    have hI := hinv.resolve_left hc
    obtain ⟨o, ho, ⟨hinv', ⟨l, hl, hrep⟩, hcl⟩, hop⟩ := flushLoop_spec S b hb t keep (h.queue.length + 1) h used [] false hI hopen
    rw [ho]
    simp only [List.nil_append] at hl
    simp only
    by_cases hoc : o.closed = true
    · rw [if_pos hoc]
      exact Res.Ok.intro ⟨hinv', hl ▸ hrep, hcl⟩
    · rw [if_neg hoc]
      split
      · have := closeHalf_step S b o.half o.used
        refine Res.Ok.intro ⟨this.1, ?_, fun _ => rfl⟩
        show Rep S (absPos b h) o.sgs _
        rw [hl]
        have := Rep.append hrep this.2
        simpa using this
      · exact Res.Ok.intro ⟨hinv', hl ▸ hrep, hcl⟩

theorem flushAllLoop_spec (S : List UInt8) (b : Int) (hb : 0 ≤ b) (keep : KeepRule) :
    ∀ (fuel : Nat) (h : Half) (used : Int) (sgs : List SG), HInv S b h →
      Res.Ok (flushAllLoop I keep fuel h used sgs) (fun o => LoopOK S b h sgs o ∧
        (h.queue.length + 2 ≤ fuel → o.half.closed = true))
  | 0, h, used, sgs, hinv => by
    simp only [flushAllLoop]
    exact Res.Ok.intro ⟨⟨hinv, ⟨[], by simp, Rep.nil _⟩, fun hc => by simp at hc⟩, fun hc => by omega⟩
  | fuel + 1, h, used, sgs, hinv => by
    simp only [flushAllLoop]
    by_cases hc : h.closed = true
    · rw [if_pos hc]
      exact Res.Ok.intro ⟨⟨hinv, ⟨[], by simp, Rep.nil _⟩, fun hc' => by simp at hc'⟩, fun _ => hc⟩
    · rw [if_neg hc]
      have hopen : h.closed = false := by simpa using hc
      have hI := hinv.resolve_left hc
      obtain ⟨o, ho, hst, hlen⟩ := skipFlush_spec S b hb h used keep hI hopen
      rw [ho]
      simp only
      by_cases hoc : o.closed = true
      · rw [if_pos hoc]
        exact Res.Ok.intro ⟨⟨hst.1, ⟨o.sgs, rfl, hst.2.1⟩, fun _ => hst.2.2 hoc⟩, fun _ => hst.2.2 hoc⟩
      · rw [if_neg hoc]
        have hoc' : o.closed = false := by simpa using hoc
        obtain ⟨o2, ho2, ⟨hinv2, ⟨l, hl, hrep⟩, hcl2⟩, hfuel⟩ := flushAllLoop_spec S b hb keep fuel o.half o.used (sgs ++ o.sgs) hst.1
        refine ⟨o2, ho2, ⟨hinv2, ⟨o.sgs ++ l, by rw [hl, List.append_assoc], Rep.append hst.2.1 hrep⟩, hcl2⟩, ?_⟩
        intro hf
        have := (hlen hoc').2
        exact hfuel (by omega)

theorem flushAllHalf_spec (S : List UInt8) (b : Int) (hb : 0 ≤ b) (h : Half) (used : Int) (keep : KeepRule)
    (hinv : HInv S b h) :
    Res.Ok (flushAllHalf I h used keep) (fun o => StepOK S b h o ∧ o.half.closed = true) := by
  unfold flushAllHalf
  obtain ⟨o, ho, ⟨hinv', ⟨l, hl, hrep⟩, hcl⟩, hfuel⟩ := flushAllLoop_spec S b hb keep (h.queue.length + 2) h used [] hinv
  simp only [List.nil_append] at hl
  exact ⟨o, ho, ⟨hinv', hl ▸ hrep, hcl⟩, hfuel (Nat.le_refl _)⟩

/-- every operation of a half-connection history keeps the invariant and presents the stream correctly -/
theorem hstep_spec (S : List UInt8) (i : Int) (hi : 0 ≤ i) (h : Half) (op : HOp) (hinv : HInv S (i + 1) h)
    (hop : op.OK S i) : Res.Ok (hstep I h op) (StepOK S (i + 1) h) := by
  have hb : (0 : Int) ≤ i + 1 := by omega
  cases op with
  | seg p acc keep cfg used => exact (assemble_spec S i hi cfg h used p acc keep hinv hop.1 hop.2).mono (fun _ h' => h'.1)
  | skipFlush keep used =>
    simp only [hstep]
    by_cases hc : h.closed = true
    · rw [if_pos hc]
      exact Res.Ok.intro ⟨hinv, Rep.nil _, fun hc' => by simp at hc'⟩
    · rw [if_neg hc]
      exact (skipFlush_spec S (i + 1) hb h used keep (hinv.resolve_left hc) (by simpa using hc)).mono (fun _ h' => h'.1)
  | flushClose t tc ls keep used => exact flushClose_spec S (i + 1) hb h used t tc ls keep hinv
  | flushAll keep used => exact (flushAllHalf_spec S (i + 1) hb h used keep hinv).mono (fun _ h' => h'.1)

theorem hrun_spec (S : List UInt8) (i : Int) (hi : 0 ≤ i) : ∀ (ops : List HOp) (h : Half), HInv S (i + 1) h →
    (∀ op ∈ ops, op.OK S i) →
    Res.Ok (hrun I h ops) (fun r => HInv S (i + 1) r.1 ∧ Rep S (absPos (i + 1) h) r.2 (absPos (i + 1) r.1))
  | [], h, hinv, _ => Res.Ok.intro ⟨hinv, Rep.nil _⟩
  | op :: rest, h, hinv, hok => by
    obtain ⟨o, ho, hst⟩ := hstep_spec S i hi h op hinv (hok op (List.mem_cons_self ..))
    obtain ⟨⟨h', sgs⟩, hr, hinv', hrep⟩ := hrun_spec S i hi rest o.half hst.1 (fun op' hm => hok op' (List.mem_cons_of_mem _ hm))
    simp only [hrun, ho, hr]
    exact Res.Ok.intro ⟨hinv', Rep.append hst.2.1 hrep⟩

end Gp.Reasm
